/-
C03 run level, missing mandatory segment: the simulation for a derivation with one required segment left out
(`HList …`): accepted up to the hole, exactly `mandatoryMissing` at the hole on the segment that follows it, accepted
afterwards.
-/
import Pyx12Verif.Proofs.C03RunHOpen

namespace Pyx12Verif.WalkerGenW
open Pyx12Verif.MapSkel Pyx12Verif.Walker Pyx12Verif.WalkerGen

set_option linter.unusedSectionVars false
section
variable {K : Consts} {root : List Node} (rootId : Nat) (h : MapOK K root) {e : WErr}
include h

/-- the list after the child below which the hole is open -/
theorem t_under {c0 : Node} {lip : List Nat} {j : Nat} {r : List Node} {x : Emit} {post : List Emit}
    (ht : TList K c0 false lip (j + 1) r x post) (q : List Nat) (ch : List Node) (hip : lip = q)
    (hch : chAt root q = some ch) (hd' : ch.drop (j + 1) = r) (cnt1 : Counter) (cur1 : List Nat)
    (hinv1 : Inv root cnt1 cur1) {i' : Nat} (hi' : i' ≤ j) (ho : OpenBelow root e c0 cnt1 cur1 q i' (j + 1) j) :
    AfterX K root rootId cnt1 cur1 [] x post e (fun cnt' cur' =>
      (∃ i'', i'' < j + 1 + r.length ∧ ReadyAt root cnt' cur' q i'' (j + 1 + r.length)) ∧
      StrictOff cnt1 cnt' (keyAt root q)) := by
  obtain ⟨q0, j0, i0, ch0, he, H, R, hb⟩ := ho
  subst he
  exact t_list rootId h ht q i' ch cnt1 cur1 q0 i0 j0 ch0 hip hch hd' hinv1 H R (by omega) (by
    intro e'; subst e'
    have := List.IsPrefix.length_le hb; simp at this; omega)

theorem runCur_indep : ∀ (pre : List Emit) (a b : List Nat), pre ≠ [] → runCur a pre = runCur b pre
  | [], _, _, hne => absurd rfl hne
  | _ :: _, _, _, _ => rfl

/-- the next instance of the loop below which the hole is open: its first segment reports the hole, the rest of that
    instance and the further instances are accepted -/
theorem again_step {c0 : Node} {q : List Nat} {j : Nat} {ch : List Node} (hch : chAt root q = some ch)
    {lid p u r : Nat} {w : Bool} {first : Node} {rest : List Node}
    (hc : ch[j]? = some (.loop lid p u r w (first :: rest))) (hseg : first.isSeg = true) {s : SegData}
    (hm : isMatch K first s = true) (hu : u ≠ 2) {o o2 : List Emit} (hl : GenList K (q ++ [j]) 1 rest o) {k : Nat}
    (hreps : GenReps K (q ++ [j]) (.loop lid p u r w (first :: rest)) (k + 2) o2)
    (hsec : secondAfterFirst (.loop lid p u r w (first :: rest)) = true) (hk : r = 0 ∨ k + 1 < r)
    (hnf : q = [] ∨ 0 < j ∨ firstIsLoop ch = true)
    (cnt1 : Counter) (cur1 : List Nat) (hinv1 : Inv root cnt1 cur1) (ho : OpenBelow root e c0 cnt1 cur1 q j j j)
    (hcur : cur1 ≠ q ++ [j] ++ [0]) (hcount : cnt1.get (keyAt root q ++ [(lid, 0)]) = k + 1) :
    AfterX K root rootId cnt1 cur1 [] (q ++ [j] ++ [0], s) (o ++ o2) e (fun cnt' cur' =>
      (∃ i', i' ≤ j ∧ ReadyAt root cnt' cur' q i' (j + 1)) ∧ AgreeOff cnt1 cnt' (keyAt root q ++ [(lid, 0)])) := by
  obtain ⟨q0, j0, i0, ch0, he, H, R, hb⟩ := ho
  subst he
  have hsub : chAt root (q ++ [j]) = some (first :: rest) := by rw [chAt_snoc hch, hc]
  have hkey : keyAt root (q ++ [j]) = keyAt root q ++ [(lid, 0)] := keyAt_snoc hch hc
  have hcorner : q ++ [j] = q0 → first.pos < posAt root (q0 ++ [i0]) := by
    intro e'; subst e'
    have hch0 := H.ch
    rw [hsub] at hch0; simp only [Option.some.injEq] at hch0; subst hch0
    have hi0 : i0 ≠ 0 := by
      intro e0; subst e0
      apply hcur
      apply Classical.byContradiction
      intro hne
      obtain ⟨lid', pos', u', r', w', sub', hci, _⟩ := path_child_loop hinv1 H.path (fun e' => hne e'.symm) hsub
      simp only [List.getElem?_cons_zero, Option.some.injEq] at hci
      subst hci; simp [Node.isSeg] at hseg
    obtain ⟨chx, hchx, hl0⟩ := hinv1.lev (q ++ [j]) i0 H.path
    rw [hsub] at hchx; simp only [Option.some.injEq] at hchx; subst hchx
    obtain ⟨ci, hci⟩ := hl0.idx
    have hwf := wfAt_chAt (wfAt_root h.wf) hsub
    simp only [posAt, nodeAt_snoc hsub, hci]
    cases rest with
    | nil =>
      cases i0 with
      | zero => exact absurd rfl hi0
      | succ n => simp at hci
    | cons c1 rest' =>
      have h1 : (first :: c1 :: rest')[1]? = some c1 := by simp
      have h2 := posSorted_le hwf.pos h1 hci (by omega)
      simp only [secondAfterFirst, decide_eq_true_eq] at hsec
      omega
  obtain ⟨hn, hs⟩ := fire_repeat rootId h hinv1 H R hb hch hc hseg hm hu (by rw [hcount]; omega) hcorner
  have hinv2 := post_loopH h hinv1 H R hch hc hseg (by
    intro e'; subst e'
    have := List.IsPrefix.length_le hb; simp at this; omega)
  have hr1 : ReadyAt root (enterCnt cnt1 (keyAt root q ++ [(lid, 0)]) first.comp) (q ++ [j] ++ [0]) (q ++ [j]) 0 1 :=
    ready_skip (ready_here _ _ _ _) (by intro hh; omega)
  have h1 := g_list rootId h hl (q ++ [j]) 0 (first :: rest) _ _ rfl hsub (by simp) hinv2 hr1 (by omega)
    (Or.inr (Or.inl (by omega)))
  have h1' : After K root rootId (enterCnt cnt1 (keyAt root q ++ [(lid, 0)]) first.comp) (q ++ [j] ++ [0]) o (fun cnt' cur' =>
      ReadyAt root cnt' cur' q j j ∧ cnt'.get (keyAt root q ++ [(lid, 0)]) = k + 2 ∧
      AgreeOff (enterCnt cnt1 (keyAt root q ++ [(lid, 0)]) first.comp) cnt' (keyAt root q ++ [(lid, 0)])) := by
    refine After.mono h1 ?_
    intro cnt' cur' ⟨⟨i', hi', hra⟩, hso⟩
    rw [hkey] at hso
    refine ⟨ready_up hsub hra (by simp; omega), ?_, hso.agree⟩
    rw [hso _ (fun hh => hh.2 rfl), get_enterCnt_self, hcount]
  have h2 := After.seq h1' (Q := fun cnt2 cnt' cur' =>
      (∃ i', i' ≤ j ∧ ReadyAt root cnt' cur' q i' (j + 1)) ∧ AgreeOff cnt2 cnt' (keyAt root q ++ [(lid, 0)]))
    (fun cnt2 cur2 hinv' ⟨hr2, hg2, _⟩ =>
      g_reps rootId h hreps q j j ch cnt2 cur2 rfl hch hc (by simp [counted, firstIsSeg, hseg]) hinv' hr2 hg2 hnf)
  have hfin := AfterX.fault hn hs h2
  refine ⟨hfin.1, hfin.2.1, hfin.2.2.1, ?_⟩
  have a1 : AgreeOff cnt1 (enterCnt cnt1 (keyAt root q ++ [(lid, 0)]) first.comp) (keyAt root q ++ [(lid, 0)]) :=
    agreeOff_enter _ _ _
  have a2 := h1'.2.2.2.2
  have a3 := h2.2.2.2
  have := AgreeOff.trans a1 (AgreeOff.trans a2 a3)
  simpa [runCnt, runCur, hs, runCnt_append, runCur_append] using this

mutual
theorem h_one : ∀ {ip : List Nat} {c : Node} {pre : List Emit} {x : Emit} {post : List Emit}, HOne K e ip c pre x post →
    ∀ (q : List Nat) (j i : Nat) (ch : List Node) (cnt : Counter) (cur : List Nat),
    ip = q ++ [j] → chAt root q = some ch → ch[j]? = some c → Inv root cnt cur → ReadyAt root cnt cur q i j →
    c.usage ≠ 2 → (c.rep = 0 ∨ cnt.get (keyAt root q ++ [c.comp]) < c.rep) →
    (q = [] ∨ 0 < j ∨ firstIsLoop ch = true) →
    AfterX K root rootId cnt cur pre x post e (fun cnt' cur' =>
      ReadyAt root cnt' cur' q j j ∧ AgreeOff cnt cnt' (keyAt root q ++ [c.comp]) ∧
      cnt'.get (keyAt root q ++ [c.comp]) = cnt.get (keyAt root q ++ [c.comp]) + 1)
  | _, _, _, _, _, .loop (lid := lid) (p := p) (u := u) (r := r) (w := w) (first := first) (rest := rest) hseg hm hl,
      q, j, i, ch, cnt, cur, hip, hch, hc, hinv, hr, hu, hrep, hnf => by
    simp only [Node.usage, Node.rep, Node.comp] at hu hrep ⊢
    obtain ⟨hn, hs⟩ := step_loop rootId h hinv hr.on hch hc hseg hm hu hrep
    have hinv1 := post_loop h hinv hr.on hch hc hseg
    have hsub : chAt root (q ++ [j]) = some (first :: rest) := by rw [chAt_snoc hch, hc]
    have hkey : keyAt root (q ++ [j]) = keyAt root q ++ [(lid, 0)] := keyAt_snoc hch hc
    have hr1 : ReadyAt root (enterCnt cnt (keyAt root q ++ [(lid, 0)]) first.comp) (q ++ [j] ++ [0]) (q ++ [j]) 0 1 :=
      ready_skip (ready_here _ _ _ _) (by intro hh; omega)
    have hrec := h_list hl (q ++ [j]) 0 (first :: rest) _ _ hip hsub (by simp) hinv1 hr1 (by omega)
      (Or.inr (Or.inl (by omega)))
    subst hip
    apply AfterX.step hn hs
    refine AfterX.mono hrec ?_
    intro cnt' cur' ⟨⟨i', hi', hra⟩, hso⟩
    rw [hkey] at hso
    refine ⟨ready_up hsub hra (by simp; omega), AgreeOff.trans (agreeOff_enter _ _ _) hso.agree, ?_⟩
    rw [hso _ (fun hh => hh.2 rfl), get_enterCnt_self]
termination_by structural _ _ _ _ _ d => d
theorem h_reps : ∀ {ip : List Nat} {c : Node} {k : Nat} {pre : List Emit} {x : Emit} {post : List Emit},
    HReps K e ip c k pre x post →
    ∀ (q : List Nat) (j i : Nat) (ch : List Node) (cnt : Counter) (cur : List Nat),
    ip = q ++ [j] → chAt root q = some ch → ch[j]? = some c → counted c = true → Inv root cnt cur →
    ReadyAt root cnt cur q i j → cnt.get (keyAt root q ++ [c.comp]) = k →
    (q = [] ∨ 0 < j ∨ firstIsLoop ch = true) →
    AfterX K root rootId cnt cur pre x post e (fun cnt' cur' =>
      (∃ i', i' ≤ j ∧ ReadyAt root cnt' cur' q i' (j + 1)) ∧ AgreeOff cnt cnt' (keyAt root q ++ [c.comp]))
  | _, _, _, _, _, _, .inside hu hk hone hreps, q, j, i, ch, cnt, cur, hip, hch, hc, hcnt, hinv, hr, hget, hnf => by
    have h1 := h_one hone q j i ch cnt cur hip hch hc hinv hr hu (by rw [hget]; exact hk) hnf
    have := AfterX.append h1 (Q := fun cnt1 cnt' cur' =>
        (∃ i', i' ≤ j ∧ ReadyAt root cnt' cur' q i' (j + 1)) ∧ AgreeOff cnt1 cnt' (keyAt root q ++ [_]))
      (fun cnt1 cur1 hinv1 ⟨hr1, _, hg1⟩ =>
        g_reps rootId h hreps q j j ch cnt1 cur1 hip hch hc hcnt hinv1 hr1 (by rw [hg1, hget]) hnf)
    refine ⟨this.1, this.2.1, this.2.2.1, ?_⟩
    exact AgreeOff.trans h1.2.2.2.1 this.2.2.2
  | _, _, _, _, _, _, .later hu hk hone hreps, q, j, i, ch, cnt, cur, hip, hch, hc, hcnt, hinv, hr, hget, hnf => by
    have h1 := g_one rootId h hone q j i ch cnt cur hip hch hc hinv hr hu (by rw [hget]; exact hk) hnf
    have := AfterX.prepend h1 (Q := fun cnt1 cnt' cur' =>
        (∃ i', i' ≤ j ∧ ReadyAt root cnt' cur' q i' (j + 1)) ∧ AgreeOff cnt1 cnt' (keyAt root q ++ [_]))
      (fun cnt1 cur1 hinv1 ⟨hr1, _, hg1⟩ =>
        h_reps hreps q j j ch cnt1 cur1 hip hch hc hcnt hinv1 hr1 (by rw [hg1, hget]) hnf)
    refine ⟨this.1, this.2.1, this.2.2.1, ?_⟩
    exact AgreeOff.trans h1.2.2.2.1 this.2.2.2
  | _, _, _, _, _, _, .again (c0 := c0) (k := k) (pre := pre) hu hk hone hlast hsec hgen hreps, q, j, i, ch, cnt, cur, hip,
      hch, hc, hcnt, hinv, hr, hget, hnf => by
    cases hone with
    | loop hseg0 hm0 hl0 =>
    rename_i lid p u r w first rest s0 pre'
    cases hgen with
    | loop hseg hm hl =>
    rename_i s o
    simp only [Node.usage, Node.rep, Node.comp] at hu hk hget ⊢
    have h1 := h_oneO rootId h (HOneO.loop (lid := lid) (p := p) (u := u) (r := r) (w := w) hseg0 hm0 hl0) q j i ch cnt cur hip
      hch hc hinv hr hu (by simp only [Node.rep, Node.comp]; rw [hget]; omega) hnf
    simp only [Node.comp] at h1
    have h1' : After K root rootId cnt cur (((_ : List Nat), s0) :: pre') (fun cnt1 cur1 =>
        (OpenBelow root e c0 cnt1 cur1 q j j j ∧ AgreeOff cnt cnt1 (keyAt root q ++ [(lid, 0)]) ∧
          cnt1.get (keyAt root q ++ [(lid, 0)]) = cnt.get (keyAt root q ++ [(lid, 0)]) + 1) ∧
        cur1 = runCur cur ((_, s0) :: pre')) := ⟨h1.1, h1.2.1, h1.2.2, rfl⟩
    subst hip
    have := AfterX.prepend h1' (Q := fun cnt1 cnt' cur' =>
        (∃ i', i' ≤ j ∧ ReadyAt root cnt' cur' q i' (j + 1)) ∧ AgreeOff cnt1 cnt' (keyAt root q ++ [(lid, 0)]))
      (fun cnt1 cur1 hinv1 ⟨⟨ho, _, hg1⟩, hcur⟩ =>
        again_step rootId h hch hc hseg hm hu hl hreps hsec hk hnf cnt1 cur1 hinv1 ho
          (by rw [hcur]; simpa [lastPath, runCur] using hlast) (by rw [hg1, hget]))
    refine ⟨by simpa using this.1, by simpa using this.2.1, by simpa using this.2.2.1, ?_⟩
    have h3 := this.2.2.2
    simp only [List.append_nil] at h3
    exact AgreeOff.trans h1.2.2.2.1 h3
termination_by structural _ _ _ _ _ _ d => d
theorem h_child : ∀ {ip : List Nat} {c : Node} {pre : List Emit} {x : Emit} {post : List Emit}, HChild K e ip c pre x post →
    ∀ (q : List Nat) (j i : Nat) (ch : List Node) (cnt : Counter) (cur : List Nat),
    ip = q ++ [j] → chAt root q = some ch → ch[j]? = some c → Inv root cnt cur →
    ReadyAt root cnt cur q i j → i < j → (q = [] ∨ 0 < j ∨ firstIsLoop ch = true) →
    AfterX K root rootId cnt cur pre x post e (fun cnt' cur' =>
      (∃ i', i' ≤ j ∧ ReadyAt root cnt' cur' q i' (j + 1)) ∧ AgreeOff cnt cnt' (keyAt root q ++ [c.comp]))
  | _, _, _, _, _, .counted hcnt hreps, q, j, i, ch, cnt, cur, hip, hch, hc, hinv, hr, hij, hnf => by
    obtain ⟨chx, hchx, hl⟩ := hinv.lev q i hr.1
    rw [hch] at hchx; simp only [Option.some.injEq] at hchx; subst hchx
    have hz := hl.later j _ hij hc _ (List.prefix_refl _)
    exact h_reps hreps q j i ch cnt cur hip hch hc hcnt hinv hr hz hnf
  | _, _, _, _, _, .wrapper (lid := l) (p := p) (u := u) (r := r) (w := w) (first := first) (rest := rest) hfs hu hl,
      q, j, i, ch, cnt, cur, hip, hch, hc, hinv, hr, hij, hnf => by
    have hTT : firstIsLoop (first :: rest) = true := by simp [firstIsLoop, hfs]
    have hsubT : chAt root (q ++ [j]) = some (first :: rest) := by rw [chAt_snoc hch, hc]
    have hkeyT : keyAt root (q ++ [j]) = keyAt root q ++ [(Node.loop l p u r w (first :: rest)).comp] := keyAt_snoc hch hc
    have ha : Anchor root cnt cur q i j := ⟨hinv, hr, hij, ch, l, p, u, r, w, first :: rest, hch, hc, hTT⟩
    have haft := n_list hl q i j (q ++ [j]) (first :: rest) cnt cur hip ha (List.prefix_refl _)
      (off_init hsubT hTT) hsubT (by simp)
    refine AfterX.mono haft ?_
    intro cnt' cur' ⟨⟨i', hi', hra⟩, hso⟩
    rw [hkeyT] at hso
    exact ⟨⟨j, Nat.le_refl _, ready_skip (ready_up hsubT hra (by simp)) (by intro hh; omega)⟩, hso.agree⟩
termination_by structural _ _ _ _ _ d => d
theorem h_list : ∀ {lip : List Nat} {j : Nat} {rest : List Node} {pre : List Emit} {x : Emit} {post : List Emit},
    HList K e lip j rest pre x post →
    ∀ (q : List Nat) (i : Nat) (ch : List Node) (cnt : Counter) (cur : List Nat),
    lip = q → chAt root q = some ch → ch.drop j = rest → Inv root cnt cur →
    ReadyAt root cnt cur q i j → i < j → (q = [] ∨ 0 < j ∨ firstIsLoop ch = true) →
    AfterX K root rootId cnt cur pre x post e (fun cnt' cur' =>
      (∃ i', i' < j + rest.length ∧ ReadyAt root cnt' cur' q i' (j + rest.length)) ∧
      StrictOff cnt cnt' (keyAt root q))
  | _, _, _, _, _, _, .here (i := j) (c := c) (r := r) hchild hlist, q, i, ch, cnt, cur, hip, hch, hd, hinv, hr, hij, hnf => by
    obtain ⟨hc, hd'⟩ := drop_cons_get hd
    have h1 := h_child hchild q j i ch cnt cur (by rw [hip]) hch hc hinv hr hij hnf
    have := AfterX.append h1 (Q := fun cnt1 cnt' cur' =>
        (∃ i', i' < j + 1 + r.length ∧ ReadyAt root cnt' cur' q i' (j + 1 + r.length)) ∧
        StrictOff cnt1 cnt' (keyAt root q))
      (fun cnt1 cur1 hinv1 ⟨⟨i', hi', hr1⟩, _⟩ =>
        g_list rootId h hlist q i' ch cnt1 cur1 hip hch hd' hinv1 hr1 (by omega) (Or.inr (Or.inl (by omega))))
    refine ⟨this.1, this.2.1, ?_, ?_⟩
    · have := this.2.2.1
      simpa [Nat.add_assoc, Nat.add_comm 1] using this
    · exact StrictOff.trans h1.2.2.2.strict this.2.2.2
  | _, _, _, _, _, _, .later (i := j) (c := c) (r := r) hchild hlist, q, i, ch, cnt, cur, hip, hch, hd, hinv, hr, hij, hnf => by
    obtain ⟨hc, hd'⟩ := drop_cons_get hd
    have h1 := g_child rootId h hchild q j i ch cnt cur (by rw [hip]) hch hc hinv hr hij hnf
    have := AfterX.prepend h1 (Q := fun cnt1 cnt' cur' =>
        (∃ i', i' < j + 1 + r.length ∧ ReadyAt root cnt' cur' q i' (j + 1 + r.length)) ∧
        StrictOff cnt1 cnt' (keyAt root q))
      (fun cnt1 cur1 hinv1 ⟨⟨i', hi', hr1⟩, _⟩ =>
        h_list hlist q i' ch cnt1 cur1 hip hch hd' hinv1 hr1 (by omega) (Or.inr (Or.inl (by omega))))
    refine ⟨this.1, this.2.1, ?_, ?_⟩
    · have := this.2.2.1
      simpa [Nat.add_assoc, Nat.add_comm 1] using this
    · exact StrictOff.trans h1.2.2.2.strict this.2.2.2
  | _, _, _, _, _, _, .gap (i := j) (c0 := c0) (r := r) hseg hu he ht, q, i, ch, cnt, cur, hip, hch, hd, hinv, hr, hij,
      hnf => by
    obtain ⟨hc, hd'⟩ := drop_cons_get hd
    obtain ⟨H, R⟩ := readyH_open hr hij hch hc hseg hu
    have hip' := hip.symm; subst hip'
    subst he
    have := t_list rootId h ht q i ch cnt cur q i j ch rfl hch hd' hinv H R (by omega) (fun _ => rfl)
    have e1 : j + (c0 :: r).length = j + 1 + r.length := by simp; omega
    rw [e1]; exact this
  | _, _, _, _, _, _, .under (i := j) (c := c) (r := r) hchild ht, q, i, ch, cnt, cur, hip, hch, hd, hinv, hr, hij, hnf => by
    obtain ⟨hc, hd'⟩ := drop_cons_get hd
    have h1 := h_childO rootId h hchild q j i ch cnt cur (by rw [hip]) hch hc hinv hr hij hnf
    have := AfterX.prepend h1 (Q := fun cnt1 cnt' cur' =>
        (∃ i', i' < j + 1 + r.length ∧ ReadyAt root cnt' cur' q i' (j + 1 + r.length)) ∧
        StrictOff cnt1 cnt' (keyAt root q))
      (fun cnt1 cur1 hinv1 ⟨⟨i', hi', ho⟩, _⟩ => t_under rootId h ht q ch hip hch hd' cnt1 cur1 hinv1 hi' ho)
    have e1 : j + (c :: r).length = j + 1 + r.length := by simp; omega
    rw [e1]
    refine ⟨by simpa using this.1, by simpa using this.2.1, by simpa using this.2.2.1, ?_⟩
    have := this.2.2.2
    simp only [List.append_nil] at this
    exact StrictOff.trans h1.2.2.2.strict this
termination_by structural _ _ _ _ _ _ d => d
theorem n_one : ∀ {ip : List Nat} {c : Node} {pre : List Emit} {x : Emit} {post : List Emit}, HOne K e ip c pre x post →
    ∀ (q : List Nat) (i j : Nat) (bp : List Nat) (m : Nat) (sub : List Node) (cnt : Counter) (cur : List Nat),
    ip = bp ++ [m] → Anchor root cnt cur q i j → q ++ [j] <+: bp → Off root cnt (q ++ [j]) (bp ++ [m]) →
    chAt root bp = some sub → sub[m]? = some c → c.usage ≠ 2 →
    (c.rep = 0 ∨ cnt.get (keyAt root bp ++ [c.comp]) < c.rep) →
    AfterX K root rootId cnt cur pre x post e (fun cnt' cur' =>
      ReadyAt root cnt' cur' bp m m ∧ AgreeOff cnt cnt' (keyAt root bp ++ [c.comp]) ∧
      cnt'.get (keyAt root bp ++ [c.comp]) = cnt.get (keyAt root bp ++ [c.comp]) + 1)
  | _, _, _, _, _, .loop (lid := lid) (p := p') (u := u') (r := r') (w := w') (first := first) (rest := rest) hseg hm hl,
      q, i, j, bp, m, sub, cnt, cur, hip, ha, hbp, hoff, hsub, hc, hu, hrep => by
    simp only [Node.usage, Node.rep, comp_loop] at hu hrep ⊢
    obtain ⟨ch, l, p, u, r, w, chT, hch, hT, hTT⟩ := ha.tr
    obtain ⟨rel, hrel⟩ := hbp
    subst hrel
    have hsubT : chAt root (q ++ [j]) = some chT := by rw [chAt_snoc hch, hT]
    have hsubL : chAt chT rel = some sub := by
      have := hsub; rw [chAt_append, hsubT] at this; exact this
    obtain ⟨hn, hs⟩ := step_enter rootId h ha.inv ha.rdy ha.lt hch hT hTT hoff hsubL hc hseg hm hu hrep
    have hinv1 := post_enter h ha.inv ha.rdy ha.lt hch hT hTT hoff hsubL hc hseg
    have hsub1 : chAt root (q ++ [j] ++ rel ++ [m]) = some (first :: rest) := by rw [chAt_snoc hsub, hc]
    have hkey : keyAt root (q ++ [j] ++ rel ++ [m]) = keyAt root (q ++ [j] ++ rel) ++ [(lid, 0)] := keyAt_snoc hsub hc
    have hr1 : ReadyAt root (enterCnt cnt (keyAt root (q ++ [j] ++ rel) ++ [(lid, 0)]) first.comp)
        (q ++ [j] ++ rel ++ [m] ++ [0]) (q ++ [j] ++ rel ++ [m]) 0 1 :=
      ready_skip (ready_here _ _ _ _) (by intro hh; omega)
    have hrec := h_list hl (q ++ [j] ++ rel ++ [m]) 0 (first :: rest) _ _ hip hsub1 (by simp) hinv1 hr1 (by omega)
      (Or.inr (Or.inl (by omega)))
    subst hip
    apply AfterX.step hn hs
    refine AfterX.mono hrec ?_
    intro cnt' cur' ⟨⟨i', hi', hra⟩, hso⟩
    rw [hkey] at hso
    refine ⟨ready_up hsub1 hra (by simp; omega), AgreeOff.trans (agreeOff_enter _ _ _) hso.agree, ?_⟩
    rw [hso _ (fun hh => hh.2 rfl), get_enterCnt_self]
termination_by structural _ _ _ _ _ d => d
theorem n_reps : ∀ {ip : List Nat} {c : Node} {k : Nat} {pre : List Emit} {x : Emit} {post : List Emit},
    HReps K e ip c k pre x post →
    ∀ (q : List Nat) (i j : Nat) (bp : List Nat) (m : Nat) (sub : List Node) (cnt : Counter) (cur : List Nat),
    ip = bp ++ [m] → k = 0 → Anchor root cnt cur q i j → q ++ [j] <+: bp → Off root cnt (q ++ [j]) (bp ++ [m]) →
    chAt root bp = some sub → sub[m]? = some c → counted c = true →
    AfterX K root rootId cnt cur pre x post e (fun cnt' cur' =>
      (∃ i', i' ≤ m ∧ ReadyAt root cnt' cur' bp i' (m + 1)) ∧ AgreeOff cnt cnt' (keyAt root bp ++ [c.comp]))
  | _, _, _, _, _, _, .inside (c := c) hu hk hone hreps, q, i, j, bp, m, sub, cnt, cur, hip, hk0, ha, hbp, hoff, hsub, hc,
      hcnt => by
    have hz := ha.zero hbp hsub c.comp
    have h1 := n_one hone q i j bp m sub cnt cur hip ha hbp hoff hsub hc hu (by rw [hz]; subst hk0; exact hk)
    have hTs : firstIsLoop sub = true := by
      obtain ⟨sub0, hsub0, hT0, _⟩ := hoff bp m hbp (List.prefix_refl _)
      rw [hsub] at hsub0; simp only [Option.some.injEq] at hsub0; subst hsub0; exact hT0
    have := AfterX.append h1 (Q := fun cnt1 cnt' cur' =>
        (∃ i', i' ≤ m ∧ ReadyAt root cnt' cur' bp i' (m + 1)) ∧ AgreeOff cnt1 cnt' (keyAt root bp ++ [_]))
      (fun cnt1 cur1 hinv1 ⟨hr1, _, hg1⟩ =>
        g_reps rootId h hreps bp m m sub cnt1 cur1 hip hsub hc hcnt hinv1 hr1 (by rw [hg1, hz]; subst hk0; rfl)
          (Or.inr (Or.inr hTs)))
    refine ⟨this.1, this.2.1, this.2.2.1, ?_⟩
    exact AgreeOff.trans h1.2.2.2.1 this.2.2.2
  | _, _, _, _, _, _, .later (c := c) hu hk hone hreps, q, i, j, bp, m, sub, cnt, cur, hip, hk0, ha, hbp, hoff, hsub, hc,
      hcnt => by
    have hz := ha.zero hbp hsub c.comp
    have h1 := o_one rootId h hone q i j bp m sub cnt cur hip ha hbp hoff hsub hc hu (by rw [hz]; subst hk0; exact hk)
    have hTs : firstIsLoop sub = true := by
      obtain ⟨sub0, hsub0, hT0, _⟩ := hoff bp m hbp (List.prefix_refl _)
      rw [hsub] at hsub0; simp only [Option.some.injEq] at hsub0; subst hsub0; exact hT0
    have := AfterX.prepend h1 (Q := fun cnt1 cnt' cur' =>
        (∃ i', i' ≤ m ∧ ReadyAt root cnt' cur' bp i' (m + 1)) ∧ AgreeOff cnt1 cnt' (keyAt root bp ++ [_]))
      (fun cnt1 cur1 hinv1 ⟨hr1, _, hg1⟩ =>
        h_reps hreps bp m m sub cnt1 cur1 hip hsub hc hcnt hinv1 hr1 (by rw [hg1, hz]; subst hk0; rfl)
          (Or.inr (Or.inr hTs)))
    refine ⟨this.1, this.2.1, this.2.2.1, ?_⟩
    exact AgreeOff.trans h1.2.2.2.1 this.2.2.2
  | _, _, _, _, _, _, .again (c0 := c0) (k := k) (pre := pre) hu hk hone hlast hsec hgen hreps, q, i, j, bp, m, sub, cnt, cur,
      hip, hk0, ha, hbp, hoff, hsub, hc, hcnt => by
    cases hone with
    | loop hseg0 hm0 hl0 =>
    rename_i lid p u r w first rest s0 pre'
    cases hgen with
    | loop hseg hm hl =>
    rename_i s o
    simp only [Node.usage, Node.rep, Node.comp] at hu hk ⊢
    have hz := ha.zero hbp hsub (lid, 0)
    have hTs : firstIsLoop sub = true := by
      obtain ⟨sub0, hsub0, hT0, _⟩ := hoff bp m hbp (List.prefix_refl _)
      rw [hsub] at hsub0; simp only [Option.some.injEq] at hsub0; subst hsub0; exact hT0
    have h1 := n_oneO rootId h (HOneO.loop (lid := lid) (p := p) (u := u) (r := r) (w := w) hseg0 hm0 hl0) q i j bp m sub cnt
      cur hip ha hbp hoff hsub hc hu (by simp only [Node.rep, Node.comp]; rw [hz]; omega)
    simp only [Node.comp] at h1
    have h1' : After K root rootId cnt cur (((_ : List Nat), s0) :: pre') (fun cnt1 cur1 =>
        (OpenBelow root e c0 cnt1 cur1 bp m m m ∧ AgreeOff cnt cnt1 (keyAt root bp ++ [(lid, 0)]) ∧
          cnt1.get (keyAt root bp ++ [(lid, 0)]) = cnt.get (keyAt root bp ++ [(lid, 0)]) + 1) ∧
        cur1 = runCur cur ((_, s0) :: pre')) := ⟨h1.1, h1.2.1, h1.2.2, rfl⟩
    subst hip
    subst hk0
    have := AfterX.prepend h1' (Q := fun cnt1 cnt' cur' =>
        (∃ i', i' ≤ m ∧ ReadyAt root cnt' cur' bp i' (m + 1)) ∧ AgreeOff cnt1 cnt' (keyAt root bp ++ [(lid, 0)]))
      (fun cnt1 cur1 hinv1 ⟨⟨ho, _, hg1⟩, hcur⟩ =>
        again_step rootId h hsub hc hseg hm hu hl hreps hsec hk (Or.inr (Or.inr hTs)) cnt1 cur1 hinv1 ho
          (by rw [hcur]; simpa [lastPath, runCur] using hlast) (by rw [hg1, hz]))
    refine ⟨by simpa using this.1, by simpa using this.2.1, by simpa using this.2.2.1, ?_⟩
    have h3 := this.2.2.2
    simp only [List.append_nil] at h3
    exact AgreeOff.trans h1.2.2.2.1 h3
termination_by structural _ _ _ _ _ _ d => d
theorem n_child : ∀ {ip : List Nat} {c : Node} {pre : List Emit} {x : Emit} {post : List Emit}, HChild K e ip c pre x post →
    ∀ (q : List Nat) (i j : Nat) (bp : List Nat) (m : Nat) (sub : List Node) (cnt : Counter) (cur : List Nat),
    ip = bp ++ [m] → Anchor root cnt cur q i j → q ++ [j] <+: bp → Off root cnt (q ++ [j]) (bp ++ [m]) →
    chAt root bp = some sub → sub[m]? = some c →
    AfterX K root rootId cnt cur pre x post e (fun cnt' cur' =>
      (∃ i', i' ≤ m ∧ ReadyAt root cnt' cur' bp i' (m + 1)) ∧ AgreeOff cnt cnt' (keyAt root bp ++ [c.comp]))
  | _, _, _, _, _, .counted hcnt hreps, q, i, j, bp, m, sub, cnt, cur, hip, ha, hbp, hoff, hsub, hc => by
    exact n_reps hreps q i j bp m sub cnt cur hip rfl ha hbp hoff hsub hc hcnt
  | _, _, _, _, _, .wrapper (lid := l) (p := p) (u := u) (r := r) (w := w) (first := first) (rest := rest) hfs hu hl,
      q, i, j, bp, m, sub, cnt, cur, hip, ha, hbp, hoff, hsub, hc => by
    have hTT : firstIsLoop (first :: rest) = true := by simp [firstIsLoop, hfs]
    have hsubT : chAt root (bp ++ [m]) = some (first :: rest) := by rw [chAt_snoc hsub, hc]
    have hkeyT : keyAt root (bp ++ [m]) = keyAt root bp ++ [(Node.loop l p u r w (first :: rest)).comp] := keyAt_snoc hsub hc
    have haft := n_list hl q i j (bp ++ [m]) (first :: rest) cnt cur hip ha
      (List.IsPrefix.trans hbp (List.prefix_append _ _)) (off_descend hoff hsubT hTT) hsubT (by simp)
    refine AfterX.mono haft ?_
    intro cnt' cur' ⟨⟨i', hi', hra⟩, hso⟩
    rw [hkeyT] at hso
    exact ⟨⟨m, Nat.le_refl _, ready_skip (ready_up hsubT hra (by simp)) (by intro hh; omega)⟩, hso.agree⟩
termination_by structural _ _ _ _ _ d => d
theorem n_list : ∀ {lip : List Nat} {m : Nat} {rest : List Node} {pre : List Emit} {x : Emit} {post : List Emit},
    HList K e lip m rest pre x post →
    ∀ (q : List Nat) (i j : Nat) (bp : List Nat) (sub : List Node) (cnt : Counter) (cur : List Nat),
    lip = bp → Anchor root cnt cur q i j → q ++ [j] <+: bp → Off root cnt (q ++ [j]) (bp ++ [m]) →
    chAt root bp = some sub → sub.drop m = rest →
    AfterX K root rootId cnt cur pre x post e (fun cnt' cur' =>
      (∃ i', i' < m + rest.length ∧ ReadyAt root cnt' cur' bp i' (m + rest.length)) ∧
      StrictOff cnt cnt' (keyAt root bp))
  | _, _, _, _, _, _, .here (i := m) (c := c) (r := r) hchild hlist, q, i, j, bp, sub, cnt, cur, hip, ha, hbp, hoff, hsub,
      hd => by
    obtain ⟨hc, hd'⟩ := drop_cons_get hd
    have h1 := n_child hchild q i j bp m sub cnt cur (by rw [hip]) ha hbp hoff hsub hc
    have hTs : firstIsLoop sub = true := by
      obtain ⟨sub0, hsub0, hT0, _⟩ := hoff bp m hbp (List.prefix_refl _)
      rw [hsub] at hsub0; simp only [Option.some.injEq] at hsub0; subst hsub0; exact hT0
    have := AfterX.append h1 (Q := fun cnt1 cnt' cur' =>
        (∃ i', i' < m + 1 + r.length ∧ ReadyAt root cnt' cur' bp i' (m + 1 + r.length)) ∧
        StrictOff cnt1 cnt' (keyAt root bp))
      (fun cnt1 cur1 hinv1 ⟨⟨i', hi', hr1⟩, _⟩ =>
        g_list rootId h hlist bp i' sub cnt1 cur1 hip hsub hd' hinv1 hr1 (by omega) (Or.inr (Or.inr hTs)))
    refine ⟨this.1, this.2.1, ?_, ?_⟩
    · have := this.2.2.1
      simpa [Nat.add_assoc, Nat.add_comm 1] using this
    · exact StrictOff.trans h1.2.2.2.strict this.2.2.2
  | _, _, _, _, _, _, .later (i := m) (c := c) (r := r) (o1 := o1) hchild hlist, q, i, j, bp, sub, cnt, cur, hip, ha, hbp,
      hoff, hsub, hd => by
    obtain ⟨hc, hd'⟩ := drop_cons_get hd
    have h1 := o_child rootId h hchild q i j bp m sub cnt cur (by rw [hip]) ha hbp hoff hsub hc
    have hlen : m + (c :: r).length = m + 1 + r.length := by simp; omega
    rcases h1 with ⟨hnil, hsat⟩ | haft
    · have hoff1 : Off root cnt (q ++ [j]) (bp ++ [m + 1]) := off_advance hoff hbp (by
        intro sub' c' hsub' hc'
        rw [hsub] at hsub'; simp only [Option.some.injEq] at hsub'; subst hsub'
        rw [hc] at hc'; simp only [Option.some.injEq] at hc'; subst hc'
        exact hsat)
      have h2 := n_list hlist q i j bp sub cnt cur hip ha hbp hoff1 hsub hd'
      subst hnil
      rw [hlen]; simpa using h2
    · have hTs : firstIsLoop sub = true := by
        obtain ⟨sub0, hsub0, hT0, _⟩ := hoff bp m hbp (List.prefix_refl _)
        rw [hsub] at hsub0; simp only [Option.some.injEq] at hsub0; subst hsub0; exact hT0
      have := AfterX.prepend haft (Q := fun cnt1 cnt' cur' =>
          (∃ i', i' < m + 1 + r.length ∧ ReadyAt root cnt' cur' bp i' (m + 1 + r.length)) ∧
          StrictOff cnt1 cnt' (keyAt root bp))
        (fun cnt1 cur1 hinv1 ⟨⟨i', hi', hr1⟩, _⟩ =>
          h_list hlist bp i' sub cnt1 cur1 hip hsub hd' hinv1 hr1 (by omega) (Or.inr (Or.inr hTs)))
      refine ⟨this.1, this.2.1, ?_, ?_⟩
      · have := this.2.2.1
        simpa [Nat.add_assoc, Nat.add_comm 1] using this
      · exact StrictOff.trans haft.2.2.2.strict this.2.2.2
  | _, _, _, _, _, _, .gap (i := m) (c0 := c0) (r := r) hseg hu he ht, q, i, j, bp, sub, cnt, cur, hip, ha, hbp, hoff, hsub,
      hd => by
    exfalso
    obtain ⟨hc, _⟩ := drop_cons_get hd
    have := off_child_loop h hbp hoff hsub hc
    rw [hseg] at this; cases this
  | _, _, _, _, _, _, .under (i := m) (c := c) (r := r) hchild ht, q, i, j, bp, sub, cnt, cur, hip, ha, hbp, hoff, hsub,
      hd => by
    obtain ⟨hc, hd'⟩ := drop_cons_get hd
    have h1 := n_childO rootId h hchild q i j bp m sub cnt cur (by rw [hip]) ha hbp hoff hsub hc
    have := AfterX.prepend h1 (Q := fun cnt1 cnt' cur' =>
        (∃ i', i' < m + 1 + r.length ∧ ReadyAt root cnt' cur' bp i' (m + 1 + r.length)) ∧
        StrictOff cnt1 cnt' (keyAt root bp))
      (fun cnt1 cur1 hinv1 ⟨⟨i', hi', ho⟩, _⟩ => t_under rootId h ht bp sub hip hsub hd' cnt1 cur1 hinv1 hi' ho)
    have e1 : m + (c :: r).length = m + 1 + r.length := by simp; omega
    rw [e1]
    refine ⟨by simpa using this.1, by simpa using this.2.1, by simpa using this.2.2.1, ?_⟩
    have := this.2.2.2
    simp only [List.append_nil] at this
    exact StrictOff.trans h1.2.2.2.strict this
termination_by structural _ _ _ _ _ _ d => d
end

end

/-- **run-level statement for a missing mandatory segment** (whole envelope skeleton, as `walk_accepts_generated`):
    the rest of the group after GS carries the hole and the segment that reports it (`pre ++ x :: post`), the rest of
    the interchange (`out2`) and what follows at top level (`out3`) are conformant -/
theorem missing_run (K : Consts) (root : List Node) (rootId : Nat) (e : WErr)
    (hwf : WFMap root = true) (hun : Unambiguous K root = true)
    {a isaId isaPos isaU isaRep : Nat} {isaW : Bool} {isaSeg : Node} {isaRest : List Node}
    (hroot : root[a]? = some (.loop isaId isaPos isaU isaRep isaW (isaSeg :: isaRest))) (hisa : isaSeg.isSeg = true)
    {g gsId gsPos gsU gsRep : Nat} {gsW : Bool} {gsSeg : Node} {gsRest : List Node}
    (hgs : (isaSeg :: isaRest)[g]? = some (.loop gsId gsPos gsU gsRep gsW (gsSeg :: gsRest))) (hgseg : gsSeg.isSeg = true)
    (hopt0 : ∀ (j : Nat) (c : Node), j < a → root[j]? = some c → optional c = true)
    (hopt1 : ∀ (j : Nat) (c : Node), 0 < j → j < g → (isaSeg :: isaRest)[j]? = some c → optional c = true)
    {pre : List Emit} {x : Emit} {post out2 out3 : List Emit}
    (h1 : HList K e [a, g] 1 gsRest pre x post)
    (h2 : GenList K [a] (g + 1) ((isaSeg :: isaRest).drop (g + 1)) out2)
    (h3 : GenList K [] (a + 1) (root.drop (a + 1)) out3) :
    RunErrAt K root rootId
      (forceLoopStart (forceLoopStart [] [(isaId, 0)] [(isaId, 0), isaSeg.comp])
        [(isaId, 0), (gsId, 0)] [(isaId, 0), (gsId, 0), gsSeg.comp])
      [a, g, 0] pre x (post ++ out2 ++ out3) e := by
  have h : MapOK K root := ⟨hwf, hun⟩
  obtain ⟨hsubI, hsubG, hinv1, hr1⟩ := envelope_start h hroot hisa hgs hgseg hopt0 hopt1
  have hch0 : chAt root [] = some root := rfl
  have e1 := h_list rootId h h1 ([a] ++ [g]) 0 (gsSeg :: gsRest) _ _ rfl hsubG (by simp) (Inv.ofGen hinv1) hr1 (by omega)
    (Or.inr (Or.inl (by omega)))
  have e12 := AfterX.append e1 (Q := fun _ cnt' cur' => ∃ i', i' < g + 1 + ((isaSeg :: isaRest).drop (g + 1)).length ∧
      ReadyAt root cnt' cur' [a] i' (g + 1 + ((isaSeg :: isaRest).drop (g + 1)).length))
    (fun cnt1 cur1 hinv' ⟨⟨i', hi', hra⟩, _⟩ => by
      have hup : ReadyAt root cnt1 cur1 [a] g g := ready_up hsubG hra (by simp; omega)
      have hr2 : ReadyAt root cnt1 cur1 [a] g (g + 1) := ready_skip hup (by intro hh; omega)
      have e2 := g_list rootId h h2 [a] g (isaSeg :: isaRest) cnt1 cur1 rfl hsubI rfl hinv' hr2 (by omega)
        (Or.inr (Or.inl (by omega)))
      exact After.mono e2 (fun _ _ hh => hh.1))
  have e123 := AfterX.append e12 (Q := fun _ _ _ => True)
    (fun cnt2 cur2 hinv' ⟨i', hi', hra⟩ => by
      have hlen : (isaSeg :: isaRest).length ≤ g + 1 + ((isaSeg :: isaRest).drop (g + 1)).length := by
        simp; omega
      have hup : ReadyAt root cnt2 cur2 [] a a := ready_up (q := []) hsubI hra hlen
      have hr3 : ReadyAt root cnt2 cur2 [] a (a + 1) := ready_skip hup (by intro hh; omega)
      have e3 := g_list rootId h h3 [] a root cnt2 cur2 rfl hch0 rfl hinv' hr3 (by omega) (Or.inl rfl)
      exact After.mono e3 (fun _ _ _ => trivial))
  exact e123.1

end Pyx12Verif.WalkerGenW
