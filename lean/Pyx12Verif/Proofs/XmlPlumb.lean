/- C08 helper lemmas: the events `seg()` writes for a fitting segment are those of its items; the element tree built
   from them; `get_segment` on that tree is the fold of `Segment.set` over the items. -/
import Pyx12Verif.Proofs.XmlRebuild
import Pyx12Verif.Proofs.XmlStack

namespace Pyx12Verif.Xml
open Pyx12Verif.Path Pyx12Verif.Segment

def subEvs : List (Str × Str) → List Ev
  | [] => []
  | (xid, v) :: r => .leaf tagSubele xid v :: subEvs r

def itemEvs (sid : Str) : Item → List Ev
  | .ele xid v => [.leaf tagEle xid v]
  | .comp subs => .start tagComp (some sid) :: subEvs subs ++ [.stop tagComp]

def itemsEvs (sid : Str) : List Item → List Ev
  | [] => []
  | it :: r => itemEvs sid it ++ itemsEvs sid r

theorem itemsEvs_append (sid : Str) (a b : List Item) : itemsEvs sid (a ++ b) = itemsEvs sid a ++ itemsEvs sid b := by
  induction a with
  | nil => rfl
  | cons x r ih => simp [itemsEvs, ih]

/-! ### events -/

theorem subLoop_evs : ∀ (vs ids : List Str) (w : W), vs.length ≤ ids.length →
    subLoop ids vs w = .ok ⟨w.stack, w.out ++ subEvs (List.zip ids vs)⟩
  | [], ids, w, _ => by cases ids <;> simp [subLoop, subEvs]
  | v :: vs, [], w, h => by simp at h
  | v :: vs, xid :: ids, w, h => by
    simp only [subLoop, List.zip_cons_cons, subEvs]
    rw [subLoop_evs vs ids _ (by simpa using h)]
    simp [W.elem]

theorem seq_of_ids (sid : Str) : ∀ (cs : List ChildDef) (b k : Nat) (c : ChildDef), childrenIdsOK sid b cs = true →
    cs[k]? = some c → c.seq = b + k + 1 ∧ childIdOK sid (b + k) c = true
  | [], _, _, _, _, h => by simp at h
  | x :: r, b, 0, c, hid, h => by
    simp only [childrenIdsOK, Bool.and_eq_true] at hid
    simp only [List.getElem?_cons_zero, Option.some.injEq] at h
    subst h
    refine ⟨?_, hid.1⟩
    have := hid.1
    cases x <;> simp only [childIdOK, Bool.and_eq_true, beq_iff_eq] at this <;> simp [ChildDef.seq, this.1]
  | x :: r, b, k + 1, c, hid, h => by
    simp only [childrenIdsOK, Bool.and_eq_true] at hid
    simp only [List.getElem?_cons_succ] at h
    have := seq_of_ids sid r (b + 1) k c hid.2 h
    rw [show b + 1 + k = b + (k + 1) from by omega] at this
    exact this

theorem filter_seq : ∀ (cs : List ChildDef) (b : Nat), (∀ k c, cs[k]? = some c → c.seq = b + k + 1) →
    ∀ (i : Nat) (c : ChildDef), cs[i]? = some c → cs.filter (fun c => c.seq == b + i + 1) = [c]
  | [], _, _, _, _, h => by simp at h
  | x :: r, b, hs, 0, c, h => by
    simp only [List.getElem?_cons_zero, Option.some.injEq] at h
    subst h
    have hx := hs 0 x (by simp)
    have hr : r.filter (fun c => c.seq == b + 0 + 1) = [] := by
      rw [List.filter_eq_nil_iff]
      intro y hy
      obtain ⟨k, hk⟩ := List.getElem?_of_mem hy
      have := hs (k + 1) y (by simpa using hk)
      simp [this]
    simp [hx, hr]
  | x :: r, b, hs, i + 1, c, h => by
    simp only [List.getElem?_cons_succ] at h
    have hx := hs 0 x (by simp)
    have ih := filter_seq r (b + 1) (fun k c hc => by have := hs (k + 1) c (by simpa using hc); omega) i c h
    rw [show b + 1 + i + 1 = b + (i + 1) + 1 from by omega] at ih
    have hne : (x.seq == b + (i + 1) + 1) = false := by simp [hx]
    simp [hne, ih]

theorem childByIdx_ok (sid : Str) (cs : List ChildDef) (hid : childrenIdsOK sid 0 cs = true) (i : Nat) (c : ChildDef)
    (hc : cs[i]? = some c) : childByIdx cs i = .ok (some c) := by
  have hlt := getElem?_lt hc
  have hn : ¬ cs.length ≤ i := by omega
  have hf := filter_seq cs 0 (fun k c' hk => by have := (seq_of_ids sid cs 0 k c' hid hk).1; omega) i c hc
  simp only [Nat.zero_add] at hf
  simp [childByIdx, hn, hf, uniqueChild]

/-- one iteration of the element loop of `seg()` -/
theorem elemStep_evs (node : SegDef) (seg : SegObj) (hid : childrenIdsOK node.sid 0 node.children = true) (i : Nat)
    (hi : i < 99) (c : ChildDef) (hc : node.children[i]? = some c) (e : Comp) (he : seg.elements[i]? = some e)
    (isa : Bool) (hfit : childFits isa i c e = true) (w : W) :
    elemStep node seg i w = .ok ⟨w.stack, w.out ++ itemsEvs node.sid (itemOf c e)⟩ := by
  simp only [elemStep, childByIdx_ok node.sid node.children hid i c hc]
  cases c with
  | elem seq xid nu =>
    by_cases hnu : nu = true
    · subst hnu; simp [ChildDef.notUsed, itemOf, itemsEvs]
    · have hnu' : nu = false := by simpa using hnu
      subst hnu'
      simp only [ChildDef.notUsed, Bool.false_eq_true, if_false, get_pad2 seg i hi e he, childOut, itemOf, Bool.false_or]
      by_cases hce : compIsEmpty e = true
      · simp [hce, itemsEvs]
      · simp only [hce, Bool.false_eq_true, if_false]
        simp only [childFits, Bool.false_or] at hfit
        split at hfit
        · rename_i v hv
          have hvne : v.isEmpty = false := by simpa [compIsEmpty, hv] using hce
          simp [getValue_pad2 seg i hi e he v hv, eleOut, hvne, hv, itemsEvs, itemEvs, W.elem]
        · simp at hfit
  | comp seq nu ids =>
    by_cases hnu : nu = true
    · subst hnu; simp [ChildDef.notUsed, itemOf, itemsEvs]
    · have hnu' : nu = false := by simpa using hnu
      subst hnu'
      simp only [ChildDef.notUsed, Bool.false_eq_true, if_false, get_pad2 seg i hi e he, childOut, itemOf, Bool.false_or]
      by_cases hce : compIsEmpty e = true
      · simp [hce, itemsEvs]
      · simp only [hce, Bool.false_eq_true, if_false]
        simp only [childFits, Bool.false_or, Bool.and_eq_true, decide_eq_true_eq] at hfit
        simp only [compOut, W.push]
        rw [subLoop_evs e.subs ids _ hfit.2]
        simp [pop_snoc, itemsEvs, itemEvs]

theorem fitsFrom_get (isa : Bool) : ∀ (cs : List ChildDef) (es : List Comp) (b : Nat), fitsFrom isa b cs es = true →
    ∀ (k : Nat) (e : Comp), es[k]? = some e → ∃ c, cs[k]? = some c ∧ childFits isa (b + k) c e = true
  | _, [], _, _, _, _, h => by simp at h
  | [], _ :: _, _, hf, _, _, _ => by simp [fitsFrom] at hf
  | c :: cs, e :: es, b, hf, 0, e', h => by
    simp only [fitsFrom, Bool.and_eq_true] at hf
    simp only [List.getElem?_cons_zero, Option.some.injEq] at h
    subst h
    exact ⟨c, rfl, hf.1⟩
  | c :: cs, e :: es, b, hf, k + 1, e', h => by
    simp only [fitsFrom, Bool.and_eq_true] at hf
    simp only [List.getElem?_cons_succ] at h
    obtain ⟨c', h1, h2⟩ := fitsFrom_get isa cs es (b + 1) hf.2 k e' h
    exact ⟨c', by simpa using h1, by rw [show b + (k + 1) = b + 1 + k from by omega]; exact h2⟩

theorem itemsOf_drop : ∀ (cs : List ChildDef) (es : List Comp) (i : Nat) (c : ChildDef) (e : Comp),
    cs[i]? = some c → es[i]? = some e →
    itemsOf (cs.drop i) (es.drop i) = itemOf c e ++ itemsOf (cs.drop (i + 1)) (es.drop (i + 1)) := by
  intro cs es i c e hc he
  have h1 : cs.drop i = c :: cs.drop (i + 1) := by
    have hlt := getElem?_lt hc
    rw [List.drop_eq_getElem_cons hlt]
    simp [List.getElem?_eq_getElem hlt] at hc
    rw [hc]
  have h2 : es.drop i = e :: es.drop (i + 1) := by
    have hlt := getElem?_lt he
    rw [List.drop_eq_getElem_cons hlt]
    simp [List.getElem?_eq_getElem hlt] at he
    rw [he]
  rw [h1, h2, itemsOf]

theorem itemsOf_nil_right : ∀ (cs : List ChildDef), itemsOf cs [] = []
  | [] => rfl
  | _ :: _ => rfl

/-- the element loop from position `i` on -/
theorem elemLoop_evs (node : SegDef) (seg : SegObj) (hid : childrenIdsOK node.sid 0 node.children = true)
    (isa : Bool) (hfit : fitsFrom isa 0 node.children seg.elements = true) (h99 : node.children.length ≤ 99) :
    ∀ (n i : Nat) (w : W), n + i = seg.elements.length →
    elemLoop node seg n i w = .ok ⟨w.stack, w.out ++ itemsEvs node.sid (itemsOf (node.children.drop i) (seg.elements.drop i))⟩
  | 0, i, w, h => by
    have : seg.elements.drop i = [] := List.drop_eq_nil_of_le (by omega)
    simp [elemLoop, this, itemsOf_nil_right, itemsEvs]
  | n + 1, i, w, h => by
    have hlt : i < seg.elements.length := by omega
    have he : seg.elements[i]? = some seg.elements[i] := List.getElem?_eq_getElem hlt
    obtain ⟨c, hc, hcf⟩ := fitsFrom_get isa _ _ 0 hfit i _ he
    simp only [Nat.zero_add] at hcf
    have hi : i < 99 := by have := getElem?_lt hc; omega
    simp only [elemLoop, elemStep_evs node seg hid i hi c hc _ he isa hcf w]
    rw [elemLoop_evs node seg hid isa hfit h99 n (i + 1) _ (by omega), itemsOf_drop _ _ i c _ hc he, itemsEvs_append]
    simp

/-- **the events of a fitting segment** -/
theorem segOut_evs (node : SegDef) (seg : SegObj) (hw : wfIds node = true) (hf : fits node seg = true) (s : List Str)
    (o : List Ev) :
    segOut node seg ⟨s, o⟩ = .ok ⟨s, o ++ (.start tagSeg (some node.sid) ::
      itemsEvs node.sid (itemsOf node.children seg.elements) ++ [.stop tagSeg])⟩ := by
  simp only [wfIds, Bool.and_eq_true, decide_eq_true_eq] at hw
  simp only [fits, Bool.and_eq_true] at hf
  have := elemLoop_evs node seg hw.2 _ hf.2 hw.1.2 seg.elements.length 0 (W.push ⟨s, o⟩ tagSeg (some node.sid)) (by simp)
  simp only [W.push, List.drop_zero] at this
  simp only [segOut, W.push, this, pop_snoc]
  simp

/-! ### tree -/

def subNode : Str × Str → XNode := fun p => .mk tagSubele (some p.1) (textOf p.2) []

def itemNode (sid : Str) : Item → XNode
  | .ele xid v => .mk tagEle (some xid) (textOf v) []
  | .comp subs => .mk tagComp (some sid) none (subs.map subNode)

theorem build_subs : ∀ (subs : List (Str × Str)) (f : Frame) (fs : List Frame) (roots : List XNode) (rest : List Ev),
    buildFrom (f :: fs) roots (subEvs subs ++ rest) = buildFrom (⟨f.tag, f.id, f.kids ++ subs.map subNode⟩ :: fs) roots rest
  | [], f, fs, roots, rest => by simp [subEvs]
  | (xid, v) :: r, f, fs, roots, rest => by
    simp only [subEvs, List.cons_append, buildFrom, attach]
    rw [build_subs r]
    simp [subNode]

theorem build_items (sid : Str) : ∀ (items : List Item) (f : Frame) (fs : List Frame) (roots : List XNode) (rest : List Ev),
    buildFrom (f :: fs) roots (itemsEvs sid items ++ rest)
      = buildFrom (⟨f.tag, f.id, f.kids ++ items.map (itemNode sid)⟩ :: fs) roots rest
  | [], f, fs, roots, rest => by simp [itemsEvs]
  | .ele xid v :: r, f, fs, roots, rest => by
    simp only [itemsEvs, itemEvs, List.cons_append, List.nil_append, buildFrom, attach]
    rw [build_items sid r]
    simp [itemNode]
  | .comp subs :: r, f, fs, roots, rest => by
    simp only [itemsEvs, itemEvs, List.cons_append, List.append_assoc, buildFrom]
    rw [build_subs subs]
    simp only [List.nil_append, List.cons_append, buildFrom, if_true, attach]
    rw [build_items sid r]
    simp [itemNode]

/-- the tree `xml.etree` hands to `get_segment` for the events of one segment -/
theorem buildTree_seg (sid : Str) (items : List Item) :
    buildTree (.start tagSeg (some sid) :: itemsEvs sid items ++ [.stop tagSeg])
      = some [.mk tagSeg (some sid) none (items.map (itemNode sid))] := by
  simp only [buildTree, List.cons_append, buildFrom]
  rw [build_items sid items]
  simp [buildFrom, attach]

/-! ### get_segment -/

theorem iterList_subs : ∀ (subs : List (Str × Str)), iterList (subs.map subNode) = subs.map subNode
  | [] => rfl
  | p :: r => by simp [iterList, iterNode, subNode, iterList_subs r]

theorem nodeLoop_skip_subs (s : SegObj) : ∀ (subs : List (Str × Str)) (rest : List XNode),
    nodeLoop s (subs.map subNode ++ rest) = nodeLoop s rest
  | [], rest => rfl
  | p :: r, rest => by
    have h1 : tagSubele ≠ tagEle := by decide
    have h2 : tagSubele ≠ tagComp := by decide
    simp only [List.map_cons, List.cons_append, nodeLoop, subNode, XNode.tag, h1, h2, if_false]
    exact nodeLoop_skip_subs s r rest

theorem compLoop_subs : ∀ (subs : List (Str × Str)) (s : SegObj), compLoop s (subs.map subNode) = applySubs s subs
  | [], s => rfl
  | (xid, v) :: r, s => by
    simp only [List.map_cons, compLoop, subNode, XNode.tag, if_true, XNode.id, XNode.text, applySubs]
    cases setSubele s (some xid) (textOf v) with
    | error e => rfl
    | ok s' => exact compLoop_subs r s'

theorem nodeLoop_items (sid : Str) : ∀ (items : List Item) (s : SegObj),
    nodeLoop s (iterList (items.map (itemNode sid))) = applyItems s items
  | [], s => rfl
  | .ele xid v :: r, s => by
    simp only [List.map_cons, iterList, itemNode, iterNode, List.cons_append, List.nil_append, nodeLoop, XNode.tag, if_true,
      XNode.id, XNode.text, applyItems, applyItem]
    cases setEle s (some xid) (textOf v) with
    | error e => rfl
    | ok s' => exact nodeLoop_items sid r s'
  | .comp subs :: r, s => by
    have h1 : tagComp ≠ tagEle := by decide
    simp only [List.map_cons, iterList, itemNode, iterNode, List.cons_append, nodeLoop, XNode.tag, h1, if_false, if_true,
      XNode.kids, applyItems, applyItem, iterList_subs, compLoop_subs]
    cases applySubs s subs with
    | error e => rfl
    | ok s' =>
      simp only [nodeLoop_skip_subs]
      exact nodeLoop_items sid r s'

theorem newSegment_sid (sid : Str) (hs : segIdOK sid = true) : newSegment (some sid) = rb sid [] := by
  have ns : isIdChar '~' = false := by decide
  have na : isIdChar '*' = false := by decide
  rcases segIdOK_cases sid hs with ⟨a, b, rfl, ha, hb⟩ | ⟨a, b, c, rfl, ha, hb, hc⟩
  · have h1 := idChar_ne b '~' hb ns
    have h2 := idChar_ne a '*' (upper_idChar a ha) na
    have h3 := idChar_ne b '*' hb na
    simp [newSegment, stripTerm, h1, splitOn, h2, h3, consHead, segOfParts, rb]
  · have h1 := idChar_ne c '~' hc ns
    have h2 := idChar_ne a '*' (upper_idChar a ha) na
    have h3 := idChar_ne b '*' hb na
    have h4 := idChar_ne c '*' hc na
    simp [newSegment, stripTerm, h1, splitOn, h2, h3, h4, consHead, segOfParts, rb]

theorem getSegment_seg (sid : Str) (hs : segIdOK sid = true) (items : List Item) :
    getSegment (.mk tagSeg (some sid) none (items.map (itemNode sid))) = applyItems (rb sid []) items := by
  have h1 : tagSeg ≠ tagEle := by decide
  have h2 : tagSeg ≠ tagComp := by decide
  simp only [getSegment, XNode.id, newSegment_sid sid hs, iterNode, nodeLoop, XNode.tag, h1, h2, if_false]
  exact nodeLoop_items sid items _

end Pyx12Verif.Xml
