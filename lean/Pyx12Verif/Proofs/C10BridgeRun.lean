/-
C10 bridge, the whole loop of `ctxDoc`: every tree yielded — for ANY text — has the children of every loop node in map
order, provided the requested loop is not ISA_LOOP.

Invariant of the loop (`RInvS`): the glue invariant `GInv` of Proofs/CtxFullGlue.lean; a tree under construction satisfies
`Ctx.CInv` (Proofs/CtxReader.lean: the zipper mirrors the open loops of the CURRENT map node, with their positions, and the
node last placed lies at or before that node) and `Ctx.ZSorted`; every tree yielded so far is sorted.

Why ISA_LOOP is excluded: a tree of any other requested loop starts at a node the walker matched (or at a pinned GS) and
every further segment of it is walked from the node before — the tree and the walker stay in step.  An ISA_LOOP tree contains
GS segments that are not walked: `iter_segments` makes up their pop / push lists, and a GS in the middle of a transaction set
is attached below whatever loop is open (Props/C10BridgeExample.lean: the counterexample).
-/
import Pyx12Verif.Proofs.C10BridgeGlue

namespace Pyx12Verif.Doc
open Pyx12Verif

/-- a tree under construction, against the current map node -/
structure TreeInv (l : Nat) (st : CState) (c : Ctx.Cursor) : Prop where
  node : ∃ n, st.node = some n ∧ Ctx.CInv (Wn n).open_ (Wn n).last c
  zs : Ctx.ZSorted c
  root : (Ctx.rootPath c.path c.up).getLast? = some l
  cnt : (Ctx.rootPath c.path c.up).count l ≤ 1

/-- every tree among the yields is sorted throughout -/
def YSorted (ys : List Ctx.Yield) : Prop := ∀ d, Ctx.Yield.tree d ∈ ys → Ctx.AllSortedC d

def RInvS (ms : Maps) (lid : Option Ctx.LoopId) (a : CAcc) : Prop :=
  GInv ms a.st ∧ FamInv ms a.st ∧ (∀ c, a.cur = some c → ∃ l, lid = some l ∧ TreeInv l a.st c) ∧ YSorted a.yields

theorem ysorted_nil : YSorted [] := fun _ h => by cases h

theorem ysorted_append {a b : List Ctx.Yield} (ha : YSorted a) (hb : YSorted b) : YSorted (a ++ b) := by
  intro d hd
  rcases List.mem_append.1 hd with h | h
  · exact ha d h
  · exact hb d h

theorem ysorted_emit {cur : Option Ctx.Cursor} (h : ∀ c, cur = some c → Ctx.ZSorted c) : YSorted (Ctx.emit cur) := by
  intro d hd
  obtain ⟨c, hc, rfl⟩ := Ctx.mem_emit hd
  exact Ctx.zsorted_tree (h c hc)

theorem ysorted_plain (s : Ctx.SegInfo) (p : Ctx.LPath) (n : Nat) : YSorted [Ctx.Yield.plain s p n] := by
  intro d hd
  simp at hd

/-- a new tree: the fresh root with its first segment mirrors the loop of the matched node -/
theorem fresh_inv {ms : Maps} (hmg : MapsGood ms) {l : Nat} {n : NodeRef} (hn : NodeOK ms n)
    (hlid : CtxWalk.LidOK n.map.root l) (a : Ctx.Answer) (ha : a = answerAt n a.seg a.pops a.pushes)
    (hst : Ctx.isStart (some l) a = true) (c' : Ctx.Cursor) (h : Ctx.addSegment (Ctx.freshTree a) a = .ok c')
    (st : CState) (hnode : st.node = some n) : TreeInv l st c' := by
  have hs := (mapGood_of_bool (hmg n.map hn.1)).static
  have hloop := nodeOK_loop hmg hn
  have hc' : c' = { path := a.path, pos := a.ppos, ch := [Ctx.DNode.seg a.seg a.path a.pos], up := [] } := by
    simp [Ctx.addSegment, Ctx.freshTree, Ctx.repeatArm, Ctx.parent, Ctx.appendSeg] at h
    exact h.symm
  have hpath : a.path = CtxWalk.lpathAt n.map.root n.ip.dropLast := by rw [ha]; simp [answerAt, cxPath_eq]
  have hpos : a.pos = WalkerGen.posAt n.map.root n.ip := by rw [ha]; simp [answerAt, cxPos_eq]
  have hppos : a.ppos = WalkerGen.posAt n.map.root n.ip.dropLast := by rw [ha]; simp [answerAt, cxPos_eq]
  refine ⟨⟨n, hnode, ?_⟩, Ctx.start_zsorted a c' h, ?_, ?_⟩
  · rw [hc']
    obtain ⟨p0, a', ch, lid', pos', u, r, w, sub, hL, h1, h2, _⟩ := hloop.split
    refine ⟨?_, trivial, ?_, ?_⟩
    · have hst1 : CtxWalk.stackAt n.map.root n.ip.dropLast = (lid', pos') :: CtxWalk.stackAt n.map.root p0 := by
        rw [hL, CtxWalk.stackAt_snoc h1 h2]; rfl
      have hpo : CtxWalk.lpathAt n.map.root n.ip.dropLast = Ctx.pathOf ((lid', pos') :: CtxWalk.stackAt n.map.root p0) := by
        rw [← hst1, CtxWalk.pathOf_stackAt]
      have hpp : WalkerGen.posAt n.map.root n.ip.dropLast = pos' := by
        rw [hL, CtxWalk.posAt_snoc h1 h2]; rfl
      simp only [Wn, hst1, Ctx.frames, List.map_nil, Ctx.FramesMatch]
      exact ⟨by rw [hpath, hpo], by rw [hppos, hpp], trivial⟩
    · simp [Ctx.shapedL, Ctx.shaped]
    · intro d hd
      simp only [List.getLast?_singleton, Option.some.injEq] at hd
      rw [← hd]
      simp [Ctx.DNode.pos, Wn, hpos]
  · rw [hc']
    simp only [Ctx.rootPath]
    exact (Ctx.isStart_some.mp hst).1
  · rw [hc']
    simp only [Ctx.rootPath, hpath]
    exact CtxWalk.lidOK_count hs hlid hn.2

/-- **the tree part of one round** -/
theorem treeStep_sorted {ms : Maps} (hmg : MapsGood ms) {lid : Option Ctx.LoopId} (hlidA : LidA ms lid)
    (hni : lid ≠ some ms.ids.isaLoop) (st0 st : CState) (cur : Option Ctx.Cursor) (hp : Bool) (r : CtxRound)
    (hinv : ∀ c, cur = some c → ∃ l, lid = some l ∧ TreeInv l st0 c)
    (hpos : ∃ n, st.node = some n ∧ NodeOK ms n ∧ r.ans = answerAt n r.ans.seg r.ans.pops r.ans.pushes ∧
      RoundKind ms lid st0.node n r.ans) :
    YSorted (treeStep lid cur hp r).1 ∧
      ∀ cur', (treeStep lid cur hp r).2 = .ok cur' → ∀ c', cur' = some c' → ∃ l, lid = some l ∧ TreeInv l st c' := by
  obtain ⟨n, hnode, hn, hans, hkind⟩ := hpos
  have hemit : YSorted (Ctx.emit cur) := ysorted_emit (fun c hc => by obtain ⟨l, _, ht⟩ := hinv c hc; exact ht.zs)
  unfold treeStep
  cases hin : Ctx.inReq lid r.ans with
  | true =>
    cases hl : lid with
    | none => rw [hl] at hin; simp [Ctx.inReq] at hin
    | some l =>
      subst hl
      have hmem : l ∈ r.ans.path := Ctx.inReq_some.mp hin
      simp only [if_true]
      cases hst : Ctx.isStart (some l) r.ans with
      | true =>
        simp only [if_true]
        cases ha : Ctx.addSegment (Ctx.freshTree r.ans) r.ans with
        | error e => exact ⟨hemit, fun cur' h => by cases h⟩
        | ok c =>
          refine ⟨hemit, fun cur' h c' hc' => ?_⟩
          simp only [TRes.ok.injEq] at h
          rw [← h] at hc'
          simp only [Option.some.injEq] at hc'
          subst hc'
          exact ⟨l, rfl, fresh_inv hmg hn (hlidA l rfl n.map hn.1) r.ans hans hst c ha st hnode⟩
      | false =>
        simp only [Bool.false_eq_true, if_false]
        cases cur with
        | none => exact ⟨ysorted_nil, fun cur' h => by cases h⟩
        | some c =>
          obtain ⟨l', hl', ht⟩ := hinv c rfl
          simp only [Option.some.injEq] at hl'
          subst hl'
          obtain ⟨n0, hn0, hc⟩ := ht.node
          have hns : ¬ Ctx.isStart (some l) r.ans = true := by rw [hst]; simp
          rcases hkind with ⟨o, ho, hstep, hmono⟩ | hisa | ⟨hgs, hfirst⟩
          · rw [hn0] at ho
            simp only [Option.some.injEq] at ho
            subst ho
            obtain ⟨c', ha, hci, _, hrt⟩ := Ctx.addSegment_ok hc hstep hin hns ht.root ht.cnt
            have hz' := Ctx.addSegment_zsorted hc ht.zs hstep hmono hin hns ht.root ht.cnt c' ha
            simp only [ha]
            refine ⟨ysorted_nil, fun cur' h c'' hc'' => ?_⟩
            simp only [TRes.ok.injEq] at h
            rw [← h] at hc''
            simp only [Option.some.injEq] at hc''
            subst hc''
            exact ⟨l, rfl, ⟨n, hnode, hci⟩, hz', by rw [hrt]; exact ht.root, by rw [hrt]; exact ht.cnt⟩
          · exfalso
            rw [hisa] at hmem
            simp only [isaLoopPath, List.mem_singleton] at hmem
            exact hni (by rw [hmem])
          · exfalso
            rw [hgs] at hmem
            simp only [gsLoopPath, List.mem_cons, List.not_mem_nil, or_false] at hmem
            rcases hmem with hmem | hmem
            · exact hni (by rw [hmem])
            · apply hns
              rw [Ctx.isStart_some, hgs]
              exact ⟨by simp [gsLoopPath, hmem], hfirst⟩
  | false =>
    simp only [Bool.false_eq_true, if_false]
    split
    · exact ⟨hemit, fun cur' h => by cases h⟩
    · split
      · exact ⟨hemit, fun cur' h => by cases h⟩
      · refine ⟨ysorted_append hemit (ysorted_plain _ _ _), fun cur' h c' hc' => ?_⟩
        simp only [TRes.ok.injEq] at h
        rw [← h] at hc'
        cases hc'

/-- how the loop ended: the yields so far are sorted, and so is a tree still open -/
def CLoopEnd.Sorted : CLoopEnd → Prop
  | .done a => YSorted a.yields ∧ ∀ c, a.cur = some c → Ctx.ZSorted c
  | .stopped _ a => YSorted a.yields

/-- **one round** -/
theorem cRound_sorted {ms : Maps} (hmg : MapsGood ms) (hwf : MapsPosWF ms) {lid : Option Ctx.LoopId} (hlid : LidA ms lid)
    (hni : lid ≠ some ms.ids.isaLoop) (henv : BhtAgree ms) {control : MapX} (hctl : control ∈ ms.maps)
    (hcf : control.file = ctl401 ∨ control.file = ctl501) (d : Delims)
    (k : Nat) (le : List SegText.RErr) (s : Seg) (a : CAcc) (hinv : RInvS ms lid a) :
    match cRound lid (a.read s) (cStepSeg ms control d k le s a.st) with
    | .inl e => e.Sorted
    | .inr a' => RInvS ms lid a' := by
  obtain ⟨hG, hF, hT, hY⟩ := hinv
  have hpost := cStepSeg_post hmg hctl d k le s hG
  have hpos := cStepSeg_pos hmg hwf hlid henv hctl hcf d k le s hG hF
  cases hstep : cStepSeg ms control d k le s a.st with
  | stop o => simp only [cRound]; exact hY
  | next st r =>
    rw [hstep] at hpost hpos
    obtain ⟨hG', _, _⟩ := hpost
    obtain ⟨hF', n, hnode, hans, hkind⟩ := hpos
    simp only [cRound]
    have hc1 : (a.read s).cur = a.cur := rfl
    have hc2 : (a.read s).hasPrev = a.hasPrev := rfl
    rw [hc1, hc2]
    obtain ⟨h1, h2⟩ := treeStep_sorted hmg hlid hni a.st st a.cur a.hasPrev r hT ⟨n, hnode, hG'.1 n hnode, hans, hkind⟩
    cases hres : (treeStep lid a.cur a.hasPrev r).2 with
    | crash site => simp only [cAfterTree]; exact ysorted_append hY h1
    | ok cur' =>
      simp only [cAfterTree]
      exact ⟨hG', hF', fun c hc => h2 cur' hres c hc, ysorted_append hY h1⟩

/-- **the loop of `ctxDoc`** -/
theorem cRunSegs_sorted {ms : Maps} (hmg : MapsGood ms) (hwf : MapsPosWF ms) {lid : Option Ctx.LoopId} (hlid : LidA ms lid)
    (hni : lid ≠ some ms.ids.isaLoop) (henv : BhtAgree ms) {control : MapX} (hctl : control ∈ ms.maps)
    (hcf : control.file = ctl401 ∨ control.file = ctl501) (d : Delims) :
    ∀ (ps : List (List SegText.RErr × Seg)) (k : Nat) (a : CAcc), RInvS ms lid a →
      (cRunSegs ms control d lid k a ps).Sorted := by
  intro ps
  induction ps with
  | nil =>
    intro k a hinv
    obtain ⟨_, _, hT, hY⟩ := hinv
    exact ⟨hY, fun c hc => by obtain ⟨l, _, ht⟩ := hT c hc; exact ht.zs⟩
  | cons p ps ih =>
    intro k a hinv
    have h1 := cRound_sorted hmg hwf hlid hni henv hctl hcf d k p.1 p.2 a hinv
    simp only [cRunSegs]
    cases hr : cRound lid (a.read p.2) (cStepSeg ms control d k p.1 p.2 a.st) with
    | inl e => rw [hr] at h1; exact h1
    | inr a' => rw [hr] at h1; exact ih _ _ h1

theorem cFinish_sorted (lid : Option Ctx.LoopId) (rr : SegText.ReadResult) (e : CLoopEnd) (he : e.Sorted) :
    YSorted (cFinish lid rr e).yields := by
  cases e with
  | stopped o a =>
    simp only [cFinish, outcomeOf, List.append_nil]
    exact he
  | done a =>
    simp only [cFinish]
    split
    · simp only [outcomeOf, List.append_nil]; exact he.1
    · simp only [outcomeOf]; exact ysorted_append he.1 (ysorted_emit he.2)

/-- **every tree `ctxDoc` yields is sorted throughout — for every text** -/
theorem ctxDoc_ysorted (ms : Maps) (lid : Option Ctx.LoopId) (text : List Char) (hmg : MapsGood ms) (hwf : MapsPosWF ms)
    (hlid : LidA ms lid) (hni : lid ≠ some ms.ids.isaLoop) (henv : BhtAgree ms) : YSorted (ctxDoc ms lid text).yields := by
  unfold ctxDoc
  cases SegText.readAll { rest := text, sizes := [] } with
  | error e => exact ysorted_nil
  | ok h rr =>
    simp only [ctxRead]
    cases hm : findMap ms (controlFile h) with
    | none => exact ysorted_nil
    | some control =>
      have hctl := findMap_mem hm
      have hcf : control.file = ctl401 ∨ control.file = ctl501 := by
        rw [findMap_file hm]
        unfold controlFile
        split
        · exact Or.inr rfl
        · exact Or.inl rfl
      apply cFinish_sorted
      apply cRunSegs_sorted hmg hwf hlid hni henv hctl hcf
      refine ⟨ginv_init hmg hctl, ⟨fun m hm' => (by cases hm'), fun n v _ hv => (by cases hv)⟩,
        fun c hc => (by cases hc), ysorted_nil⟩

end Pyx12Verif.Doc
