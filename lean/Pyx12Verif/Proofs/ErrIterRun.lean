/-
Facts about whole runs (`runH`, `runEnd`): splitting a history, the cursor invariant along a run, and what kind of
node can be handed over by which move.
-/
import Pyx12Verif.Proofs.ErrIterOrder

namespace Pyx12Verif.ErrIter
open Pyx12Verif.ErrTree

/-! ### splitting a history -/

def tailFrames (o : Option RState) (h : List Item) : List Frame :=
  match o with
  | some rs => runH rs h
  | none => []

theorem runH_append (rs : RState) (h1 h2 : List Item) :
    runH rs (h1 ++ h2) = runH rs h1 ++ tailFrames (runEnd rs h1) h2 := by
  induction h1 generalizing rs with
  | nil => simp [runH, runEnd, tailFrames]
  | cons it r ih =>
    cases it with
    | ev e =>
      simp only [List.cons_append, runH, runEnd]
      split
      · rename_i s1 _; exact ih _
      · simp [tailFrames]
    | seg sid =>
      simp only [List.cons_append, runH, runEnd, List.cons.injEq, true_and]
      exact ih _

theorem runEnd_append (rs : RState) (h1 h2 : List Item) :
    runEnd rs (h1 ++ h2) = (runEnd rs h1).bind (fun rs1 => runEnd rs1 h2) := by
  induction h1 generalizing rs with
  | nil => simp [runEnd]
  | cons it r ih =>
    cases it with
    | ev e =>
      simp only [List.cons_append, runEnd]
      split
      · exact ih _
      · simp
    | seg sid =>
      simp only [List.cons_append, runEnd]
      exact ih _

/-- number of source segments (drains) of a history -/
def nSegs : List Item → Nat
  | [] => 0
  | .ev _ :: r => nSegs r
  | .seg _ :: r => nSegs r + 1

theorem runH_length (rs rs' : RState) (h : List Item) (he : runEnd rs h = some rs') : (runH rs h).length = nSegs h := by
  induction h generalizing rs with
  | nil => simp [runH, nSegs]
  | cons it r ih =>
    cases it with
    | ev e =>
      simp only [runH, runEnd, nSegs] at he ⊢
      split at he
      · rename_i s1 hs; exact ih _ he
      · simp at he
    | seg sid =>
      simp only [runH, runEnd, nSegs, List.length_cons] at he ⊢
      rw [ih _ he]

/-! ### the invariant along a run -/

theorem runEnd_inv (h : List Item) (rs rs' : RState) (hi : Inv rs.cur) (he : runEnd rs h = some rs') :
    Inv rs'.cur ∧ Pos.le rs.cur.pos rs'.cur.pos ∧ ∀ v ∈ allVisits (runH rs h), Pos.le v.pos rs'.cur.pos := by
  induction h generalizing rs with
  | nil =>
    simp only [runEnd, Option.some.injEq] at he; subst he
    exact ⟨hi, Pos.le_refl _, by simp [runH, allVisits]⟩
  | cons it r ih =>
    cases it with
    | ev e =>
      simp only [runEnd, runH] at he ⊢
      split at he
      · rename_i s1 hs
        exact ih { st := s1, cur := rs.cur } hi he
      · simp at he
    | seg sid =>
      simp only [runEnd, runH] at he ⊢
      have d := drainV_ok rs.st.tree rs.cur hi
      obtain ⟨r1, r2, r3⟩ := ih { st := rs.st, cur := (drainV rs.st.tree rs.cur).2 } d.inv he
      refine ⟨r1, Pos.le_trans d.mono r2, ?_⟩
      intro v hv
      simp only [allVisits, List.flatMap_cons, List.mem_append] at hv
      rcases hv with hv | hv
      · exact Pos.le_trans (d.upto v hv) r2
      · exact r3 v hv

/-! ### which nodes a move can reach -/

def Addr.isSeg : Addr → Bool
  | .seg _ _ _ _ => true
  | _ => false

theorem step_moved_facts (t : Tree) (c c' : Cursor) (u : Bool) (h : step t c = .moved c' u) :
    c'.cur ≠ .root ∧ (u = true → c'.cur.isSeg = false ∧ parent c.cur = some c'.cur) := by
  unfold step at h
  split at h
  · rename_i n hd
    simp only [Step.moved.injEq] at h
    obtain ⟨hc, hu⟩ := h
    subst hc; subst hu
    unfold descendTarget at hd
    split at hd
    · simp at hd
    · refine ⟨?_, by simp⟩
      cases hcur : c.cur <;> simp only [hcur, firstChild] at hd <;> (try split at hd) <;> simp at hd <;> subst hd <;> simp
  · split at h
    · rename_i n hs
      simp only [Step.moved.injEq] at h
      obtain ⟨hc, hu⟩ := h
      subst hc; subst hu
      refine ⟨?_, by simp⟩
      cases hcur : c.cur <;> simp only [hcur, nextSibling] at hs <;> (try split at hs) <;> simp at hs <;> subst hs <;> simp
    · unfold ascend at h
      split at h
      · simp at h
      · split at h
        · simp at h
        · rename_i p hp
          split at h
          · simp at h
          · split at h
            · simp at h
            · rename_i hr
              simp only [Step.moved.injEq] at h
              obtain ⟨hc, hu⟩ := h
              subst hc
              refine ⟨hr, fun _ => ⟨?_, hp⟩⟩
              cases hcur : c.cur <;> simp [hcur, parent] at hp <;> subst hp <;> simp [Addr.isSeg]

theorem drainF_facts (t : Tree) (f : Nat) (c : Cursor) :
    ∀ v ∈ (drainF t f c).1, v.addr ≠ .root ∧ (v.up = true → v.addr.isSeg = false) := by
  induction f generalizing c with
  | zero => simp [drainF]
  | succ f ih =>
    unfold drainF
    split
    · rename_i c' u hs
      intro v hv
      simp only [consV, List.mem_cons] at hv
      rcases hv with e | e
      · subst e
        obtain ⟨h1, h2⟩ := step_moved_facts t c c' u hs
        exact ⟨h1, fun hu => (h2 hu).1⟩
      · exact ih c' v e
    · simp

theorem runH_facts (h : List Item) (rs : RState) :
    ∀ v ∈ allVisits (runH rs h), v.addr ≠ .root ∧ (v.up = true → v.addr.isSeg = false) := by
  induction h generalizing rs with
  | nil => simp [runH, allVisits]
  | cons it r ih =>
    cases it with
    | ev e =>
      simp only [runH]
      split
      · exact ih _
      · simp [allVisits]
    | seg sid =>
      simp only [runH, allVisits, List.flatMap_cons, List.mem_append]
      intro v hv
      rcases hv with hv | hv
      · exact drainF_facts _ _ _ v hv
      · exact ih _ v hv

theorem mem_allVisits (fs : List Frame) (v : Visit) : v ∈ allVisits fs ↔ ∃ f ∈ fs, v ∈ f.visits := by
  simp [allVisits, List.mem_flatMap]

/-- the frame with index `k` of a list, as a split of the list -/
theorem getElem?_split {α : Type} (l : List α) (k : Nat) (x : α) (h : l[k]? = some x) :
    ∃ pre post, l = pre ++ x :: post ∧ pre.length = k := by
  induction l generalizing k with
  | nil => simp at h
  | cons y r ih =>
    cases k with
    | zero => simp at h; subst h; exact ⟨[], r, rfl, rfl⟩
    | succ k =>
      obtain ⟨pre, post, h1, h2⟩ := ih k (by simpa using h)
      exact ⟨y :: pre, post, by simp [h1], by simp [h2]⟩

/-- two different frames of a run never hand over the same node by the same kind of move -/
theorem frames_disjoint (fs : List Frame) (hn : (allVisits fs).Nodup) (j k : Nat) (f1 f2 : Frame)
    (h1 : fs[j]? = some f1) (h2 : fs[k]? = some f2) (v : Visit) (hv1 : v ∈ f1.visits) (hv2 : v ∈ f2.visits) : j = k := by
  induction fs generalizing j k with
  | nil => simp at h1
  | cons f r ih =>
    simp only [allVisits, List.flatMap_cons] at hn
    have hn' := List.nodup_append.mp hn
    cases j with
    | zero =>
      cases k with
      | zero => rfl
      | succ k =>
        exfalso
        simp only [List.getElem?_cons_zero, Option.some.injEq] at h1
        subst h1
        have hm : v ∈ allVisits r := (mem_allVisits _ _).mpr ⟨f2, List.mem_of_getElem? (by simpa using h2), hv2⟩
        exact hn'.2.2 v hv1 v hm rfl
    | succ j =>
      cases k with
      | zero =>
        exfalso
        simp only [List.getElem?_cons_zero, Option.some.injEq] at h2
        subst h2
        have hm : v ∈ allVisits r := (mem_allVisits _ _).mpr ⟨f1, List.mem_of_getElem? (by simpa using h1), hv1⟩
        exact hn'.2.2 v hv2 v hm rfl
      | succ k =>
        have := ih hn'.2.1 j k (by simpa using h1) (by simpa using h2)
        omega

end Pyx12Verif.ErrIter
