/-
Helper lemmas for Props/DocSinks.lean `docXml_roundtrip_generated`: on a conformant document (the hypotheses of
`doc_accepts_of_runOK` / `doc_accepts_generated`, Props/DocAccept.lean) the per-segment results of `validateRead` name exactly
the intended nodes — the control map's ISA node, the transaction map's GS node, and for every body segment the node of the
derivation.  (`run_body` / `doc_accepts_of_runOK` prove verdict and silence but keep the per-segment results existential;
the inductions are repeated here with the node list carried along.)
-/
import Pyx12Verif.Props.DocAccept
import Pyx12Verif.Proofs.DocSinksNodes

namespace Pyx12Verif.Doc
open Pyx12Verif WalkerGen

/-- `run_body` with the reported nodes: every body segment is matched at the node the derivation gives it -/
theorem run_body_nodes (ms : Maps) (ctx : Ctx) (control : MapX) (d : Delims) (base : LState) (m : MapX)
    (hv : base.vriic ≠ some v278a ∧ base.vriic ≠ some v278b) :
    ∀ (body : List (Seg × List Nat)) (cur : List Nat) (cnt : Walker.Counter) (rs rs' : Envelope.RState) (seen : Bool) (a : Acc),
      a.st = bodyState base m cur cnt rs →
      WalkerGen.RunOK ms.consts m.root m.rootId cnt cur (emitsOf ms m d body) →
      EnvQuiet d rs (body.map (·.1)) rs' →
      (∀ b ∈ body, BodyOk ctx m d b) →
      SeOk seen (body.map (·.1.id)) →
      Ptr a.est seen → ErrTree.NoError a.est.tree ∧ a.est.lost = 0 →
      ∃ a' new, runSegs ms ctx control d a (body.map (fun b => ([], b.1))) = .done a' ∧
        a'.outs = a.outs ++ new ∧ new.map (fun o => o.node) = body.map (fun b => some (m.file, b.2)) := by
  intro body
  induction body with
  | nil =>
    intro cur cnt rs rs' seen a _ _ _ _ _ _ _
    exact ⟨a, [], rfl, by simp, rfl⟩
  | cons b body ih =>
    intro cur cnt rs rs' seen a hst hrun henv hok hse hp hc
    obtain ⟨hb1, hb2, hb3, sd, hdef, hadm⟩ := hok b (by simp)
    simp only [List.map_cons, EnvQuiet] at henv
    obtain ⟨v, rs1, hview, hstep, henv'⟩ := henv
    simp only [emitsOf, List.map_cons, WalkerGen.RunOK] at hrun
    obtain ⟨hnode, herrs, _, hrun'⟩ := hrun
    obtain ⟨out, tl, hstepseg, hout, hele, hquiet⟩ :=
      step_body ms ctx control d base m cur b.2 cnt rs rs1 b.1 v sd hb1 hb2 hv hview hb3 hstep hnode herrs hdef hadm
    simp only [List.map_cons, SeOk] at hse
    obtain ⟨est', hest, hp', hc1, hc2⟩ := run_seg_events a.est seen (headEvent d b.1 rs1) tl
      (headEvent_quiet d b.1 rs1) (fun h => hse.1 (headEvent_closeSt d b.1 rs1 h)) hele hquiet hp hc
    have hp'' : Ptr est' (seen || decide (b.1.id = Envelope.idST)) := by
      by_cases hid : b.1.id = Envelope.idST
      · have := headEvent_st d b.1 rs1 hid
        rw [this] at hp'
        simp only [hid, decide_true, Bool.or_true] at hp' ⊢
        exact hp'
      · simp only [hid, decide_false, Bool.or_false]
        exact hp'.weaken
    have hnodeOut : out.node = some (m.file, b.2) := by
      have := (stepSeg_node ms ctx control d [] b.1 _ _ out hstepseg).1
      rw [this]
      rfl
    obtain ⟨a', new, hdone, houts, hnew⟩ := ih b.2 (Walker.walk ms.consts m.root m.rootId cnt cur (segData ms m d b.1)).st.cnt rs1 rs'
      (seen || decide (b.1.id = Envelope.idST))
      (pushOut a (bodyState base m b.2 (Walker.walk ms.consts m.root m.rootId cnt cur (segData ms m d b.1)).st.cnt rs1) est' out)
      rfl hrun' henv' (fun x hx => hok x (List.mem_cons_of_mem _ hx)) hse.2 hp'' ⟨hc1, hc2⟩
    refine ⟨a', out :: new, ?_, ?_, ?_⟩
    · simp only [List.map_cons, runSegs, hst, hstepseg, hout, hest]
      exact hdone
    · rw [houts]; simp [pushOut]
    · simp [hnodeOut, hnew]

/-- **nodes of a conformant document** (hypotheses of `doc_accepts_of_runOK`): the run ends with a verdict and reports, in
    order, the control map's ISA node, the transaction map's GS node and the intended node of every body segment -/
theorem doc_nodes_of_runOK (ms : Maps) (ctx : Ctx) (h : Tokenizer.Header) (control m : MapX)
    (isa gs : Seg) (body : List (Seg × List Nat)) (a g : Nat) (cip cgp : List Nat) (isaDef gsDef : SegDef)
    (vISA vGS : Envelope.SegView) (rs1 rs2 rs3 : Envelope.RState)
    (hctl : findMap ms (controlFile h) = some control)
    (hisaNode : fetchIn ms control (isaPath ms) = some ⟨control, cip⟩)
    (hgsNode : fetchIn ms control (gsPath ms) = some ⟨control, cgp⟩)
    (hisaDef : lookupDef control cip = some isaDef)
    (hisaAdm : SegAdm ctx control.v5010 (SegText.delimsOf h) isaDef isa)
    (hidx : getFilename ms.index (gv (SegText.delimsOf h) isa 11) (gv (SegText.delimsOf h) gs 7)
              (gv (SegText.delimsOf h) gs 0) none = some m.file)
    (hmap : findMap ms m.file = some m)
    (hgsM : fetchIn ms m (gsPath ms) = some ⟨m, [a, g, 0]⟩)
    (hgsDef : lookupDef m [a, g, 0] = some gsDef)
    (hgsAdm : SegAdm ctx m.v5010 (SegText.delimsOf h) gsDef gs)
    (h278 : gv (SegText.delimsOf h) gs 7 ≠ some v278a ∧ gv (SegText.delimsOf h) gs 7 ≠ some v278b)
    (hisaId : isa.id = Envelope.idISA) (hgsId : gs.id = Envelope.idGS)
    (hbIsa : baseErrs isa = []) (hbGs : baseErrs gs = [])
    (hvIsa : Pipeline.viewOf (SegText.delimsOf h) isa = some vISA)
    (hsIsa : Envelope.step Envelope.Fixes.all (Envelope.RState.init false) vISA = .ok (rs1, []))
    (hvGs : Pipeline.viewOf (SegText.delimsOf h) gs = some vGS)
    (hsGs : Envelope.step Envelope.Fixes.all rs1 vGS = .ok (rs2, []))
    (henv : EnvQuiet (SegText.delimsOf h) { rs2 with chk837 := m.is837 } (body.map (·.1)) rs3)
    (hbody : ∀ b ∈ body, BodyOk ctx m (SegText.delimsOf h) b)
    (hse : SeOk false (body.map (·.1.id)))
    (hrun : RunOK ms.consts m.root m.rootId (pinnedCnt ms) [a, g, 0] (emitsOf ms m (SegText.delimsOf h) body)) :
    ((validateRead ms ctx h (readOf isa gs body)).segs.map (fun o => o.node) =
      some (control.file, cip) :: some (m.file, [a, g, 0]) :: body.map (fun b => some (m.file, b.2))) := by
  obtain ⟨evI, hevI, hqI⟩ := segEvents_clean ctx control.v5010 (SegText.delimsOf h) isaDef isa hisaAdm
  have heI := segEvents_eleOnly ctx control.v5010 (SegText.delimsOf h) isaDef isa
  rw [hevI] at heI
  obtain ⟨evG, hevG, hqG⟩ := segEvents_clean ctx m.v5010 (SegText.delimsOf h) gsDef gs hgsAdm
  have heG := segEvents_eleOnly ctx m.v5010 (SegText.delimsOf h) gsDef gs
  rw [hevG] at heG
  have hne1 : ¬ Envelope.idGS = Envelope.idISA := by decide
  have hne2 : ¬ Envelope.idGS = Envelope.idIEA := by decide
  have hstepI : stepSeg ms ctx control (SegText.delimsOf h) [] isa (initState ms control) =
      .next (isaSt ms control (SegText.delimsOf h) isa cip rs1) (isaOut control (SegText.delimsOf h) isa cip evI) := by
    simp only [stepSeg, hvIsa, withView, hbIsa, initState, List.map_nil, List.append_nil, hsIsa, afterReader, afterStep,
      findNode, hisaId, if_true, hisaNode, afterFind, branch, LState.popped, popEvents, validate, hisaDef, hevI,
      List.nil_append, Bool.and_self, NodeRef.key, List.cons_append, isaSt, isaOut]
  have hstepG : stepSeg ms ctx control (SegText.delimsOf h) [] gs (isaSt ms control (SegText.delimsOf h) isa cip rs1) =
      .next (bodyState (gsBase ms control m (SegText.delimsOf h) isa gs) m [a, g, 0] (pinnedCnt ms)
              { rs2 with chk837 := m.is837 })
        (gsOut m (SegText.delimsOf h) gs a g rs2 evG) := by
    simp only [stepSeg, hvGs, withView, hbGs, isaSt, initState, List.map_nil, List.append_nil, hsGs, afterReader, afterStep,
      findNode, hgsId, hne1, hne2, if_true, if_false, hgsNode, afterFind, branch, gsBranch, Option.isNone_none, or_true,
      withNewMap, hidx, hmap, gsTail, hgsM, LState.popped, popEvents, validate, hgsDef, hevG,
      List.nil_append, Bool.and_self, NodeRef.key, List.cons_append, bodyState, gsBase, gsOut, pinnedCnt]
  obtain ⟨e1, hrun1, hi1, _, hc1, hl1⟩ := run_isa_events (isaData (SegText.delimsOf h) isa) evI heI hqI
  obtain ⟨e2, hrun2, hp2, hc2, hl2⟩ :=
    run_gs_events e1 (gsData (SegText.delimsOf h) gs { rs2 with chk837 := m.is837 }) evG heG hqG hi1 ⟨hc1, hl1⟩
  obtain ⟨a', new, hbodyRun, houts, hnew⟩ :=
    run_body_nodes ms ctx control (SegText.delimsOf h) (gsBase ms control m (SegText.delimsOf h) isa gs)
      m h278 body [a, g, 0] (pinnedCnt ms) { rs2 with chk837 := m.is837 } rs3 false
      (pushOut (pushOut (initAcc ms control) (isaSt ms control (SegText.delimsOf h) isa cip rs1) e1
          (isaOut control (SegText.delimsOf h) isa cip evI))
        (bodyState (gsBase ms control m (SegText.delimsOf h) isa gs) m [a, g, 0] (pinnedCnt ms) { rs2 with chk837 := m.is837 })
        e2 (gsOut m (SegText.delimsOf h) gs a g rs2 evG))
      rfl hrun henv hbody hse hp2 ⟨hc2, hl2⟩
  have hloop : runSegs ms ctx control (SegText.delimsOf h) (initAcc ms control) (readOf isa gs body).segs = .done a' := by
    have hr1 : ErrTree.run (initAcc ms control).est (isaOut control (SegText.delimsOf h) isa cip evI).events = .ok e1 := hrun1
    have hr2 : ErrTree.run e1 (gsOut m (SegText.delimsOf h) gs a g rs2 evG).events = .ok e2 := hrun2
    have hi0 : (initAcc ms control).st = initState ms control := rfl
    have hst1 : (pushOut (initAcc ms control) (isaSt ms control (SegText.delimsOf h) isa cip rs1) e1
        (isaOut control (SegText.delimsOf h) isa cip evI)).st = isaSt ms control (SegText.delimsOf h) isa cip rs1 := rfl
    have he1 : (pushOut (initAcc ms control) (isaSt ms control (SegText.delimsOf h) isa cip rs1) e1
        (isaOut control (SegText.delimsOf h) isa cip evI)).est = e1 := rfl
    simp only [readOf, runSegs, hi0, hstepI, hr1, hst1, hstepG, he1, hr2]
    exact hbodyRun
  have hsegs : (validateRead ms ctx h (readOf isa gs body)).segs = a'.outs := by
    have hcr : (readOf isa gs body).crashed = false := rfl
    simp only [validateRead, hctl, hloop, finish, hcr, Bool.false_eq_true, if_false, finishDone]
    split <;> rfl
  rw [hsegs, houts]
  simp [pushOut, initAcc, isaOut, gsOut, hnew]

end Pyx12Verif.Doc
