/-
C02 helper lemmas, part 2: what `_is_loop_match`, `_goto_seg_match` and the child scan of `walk` do on
nodes the data segment cannot enter, and on the node it does enter.
-/
import Pyx12Verif.Proofs.WalkerBasic

namespace Pyx12Verif.WalkerGen
open Pyx12Verif.MapSkel Pyx12Verif.Walker

/-- `_flush_mandatory_segs` with nothing pending does nothing -/
theorem flush_nil (st : WState) (h : st.pending = []) (pos : Option Nat) : flush st pos = st := by
  cases st with
  | mk cnt pending errs =>
    simp only at h; subst h
    simp [flush]

theorem isMatch_false_of_noHit {K : Consts} {s : SegData} {c : Node} (h : NoHit s (nodeSKey K c)) :
    isMatch K c s = false := by
  cases hm : isMatch K c s with
  | false => rfl
  | true =>
    cases c with
    | loop => simp [isMatch] at hm
    | seg sid q p u m notes ch =>
      exact absurd (isMatch_hits K _ s hm (sid, segSKey K sid ch) (by simp [nodeSKey]))
        (h (sid, segSKey K sid ch) (by simp [nodeSKey]))

mutual
/-- `_is_loop_match` on a loop the segment cannot enter, whose required parts were all seen: no match, and
    nothing is added to `mandatory_segs_missing` -/
theorem isLoopMatch_false {K : Consts} {s : SegData} : ∀ (c : Node) (ip : List Nat) (key : PathKey) (st : WState),
    NoHit s (entry K c) → satisfied st.cnt key c = true → isLoopMatch K s ip key st c = (false, st)
  | .seg .., _, _, _, _, _ => by simp [isLoopMatch]
  | .loop lid p u r w [], _, _, _, _, _ => by simp [isLoopMatch]
  | .loop lid p u r w (.seg a b c d e f g :: rest), ip, key, st, hn, hs => by
    have hm : isMatch K (.seg a b c d e f g) s = false := by
      apply isMatch_false_of_noHit
      simpa [entry, entryHead, nodeSKey] using hn
    simp only [satisfied, satHead, Bool.or_eq_true, bne_iff_ne, decide_eq_true_eq] at hs
    have : (u == 0 && decide (st.cnt.get key < 1)) = false := by
      rcases hs with h | h
      · simp [h]
      · simp; omega
    simp only [isLoopMatch, Node.isSeg, ↓reduceIte, hm, this, Bool.false_eq_true]
  | .loop lid p u r w (.loop a b c d e ch :: rest), ip, key, st, hn, hs => by
    simp only [isLoopMatch, Node.isSeg]
    simp only [satisfied, satHead] at hs
    simp only [entry, entryHead] at hn
    exact anyLoopMatch_false (.loop a b c d e ch :: rest) ip key 0 st (by simpa [entryLoops] using hn) hs
theorem anyLoopMatch_false {K : Consts} {s : SegData} : ∀ (ch : List Node) (ip : List Nat) (key : PathKey) (i : Nat)
    (st : WState), NoHit s (entryLoops K ch) → satLoops st.cnt key ch = true →
    anyLoopMatch K s ip key i st ch = (false, st)
  | [], _, _, _, _, _, _ => by simp [anyLoopMatch]
  | .seg .. :: r, ip, key, i, st, hn, hs => by
    simp only [anyLoopMatch, Node.isSeg, ↓reduceIte]
    exact anyLoopMatch_false r ip key (i + 1) st (by simpa [entryLoops] using hn) (by simpa [satLoops] using hs)
  | .loop l a u b w ch :: r, ip, key, i, st, hn, hs => by
    simp only [entryLoops, NoHit.append] at hn
    simp only [satLoops, Bool.and_eq_true] at hs
    have h1 := isLoopMatch_false (.loop l a u b w ch) (ip ++ [i]) (key ++ [(l, 0)]) st
      (by simpa [entry] using hn.1) (by simpa [satisfied] using hs.1)
    simp only [anyLoopMatch, Node.isSeg, Node.comp, h1]
    exact anyLoopMatch_false r ip key (i + 1) st hn.2 hs.2
end

mutual
/-- `_goto_seg_match` below a node none of whose loops starts with a segment the data segment hits: nothing found,
    state untouched -/
theorem gotoSegMatch_none {K : Consts} {s : SegData} : ∀ (c : Node) (ip : List Nat) (key : PathKey) (st : WState),
    NoHit s (deep K c) → gotoSegMatch K s ip key st c = (none, st)
  | .seg .., _, _, _, _ => by simp [gotoSegMatch]
  | .loop lid p u r w [], _, _, _, _ => by simp [gotoSegMatch]
  | .loop lid p u r w (first :: rest), ip, key, st, hn => by
    simp only [deep, NoHit.append] at hn
    have hm : isMatch K first s = false := isMatch_false_of_noHit (by simpa [firstSegKey] using hn.1)
    simp only [gotoSegMatch, hm, Bool.and_false, Bool.false_eq_true, ↓reduceIte]
    exact gotoChildren_none (first :: rest) ip key 0 st hn.2
theorem gotoChildren_none {K : Consts} {s : SegData} : ∀ (ch : List Node) (ip : List Nat) (key : PathKey) (i : Nat)
    (st : WState), NoHit s (deepList K ch) → gotoChildren K s ip key i st ch = (none, st)
  | [], _, _, _, _, _ => by simp [gotoChildren]
  | c :: r, ip, key, i, st, hn => by
    simp only [deepList, NoHit.append] at hn
    simp only [gotoChildren]
    split
    · exact gotoChildren_none r ip key (i + 1) st hn.2
    · rw [gotoSegMatch_none c (ip ++ [i]) (key ++ [c.comp]) st hn.1]
      exact gotoChildren_none r ip key (i + 1) st hn.2
end

/-- state after entering a first-seg loop (`_check_loop_usage`, count the first segment, flush) when nothing is
    pending, the loop is used and its limit is not exceeded -/
def enterCnt (cnt : Counter) (key : PathKey) (firstComp : Nat × Nat) : Counter :=
  ((cnt.resetTo key).incr key).incr (key ++ [firstComp])

theorem isLoopMatch_first {K : Consts} {s : SegData} {lid p u r : Nat} {w : Bool} {first : Node} {rest : List Node}
    (ip : List Nat) (key : PathKey) (st : WState) (hseg : first.isSeg = true) (hm : isMatch K first s = true) :
    isLoopMatch K s ip key st (.loop lid p u r w (first :: rest)) = (true, st) := by
  simp [isLoopMatch, hseg, hm]

/-- `_goto_seg_match` on a loop whose first segment matches -/
theorem gotoSegMatch_first {K : Consts} {s : SegData} {lid p u r : Nat} {w : Bool} {first : Node} {rest : List Node}
    (ip : List Nat) (key : PathKey) (st : WState) (hseg : first.isSeg = true) (hm : isMatch K first s = true)
    (hp : st.pending = []) (hu : u ≠ 2) (hr : r = 0 ∨ st.cnt.get key < r) :
    gotoSegMatch K s ip key st (.loop lid p u r w (first :: rest)) =
      (some (ip ++ [0], [ip]), { cnt := enterCnt st.cnt key first.comp, pending := [], errs := st.errs }) := by
  have hex : exceeds (((st.cnt.resetTo key).incr key).get key) r = false := by
    rw [get_incr_same, get_resetTo_self]
    unfold exceeds maxRepeat
    rcases hr with h | h
    · simp [h]
    · have : (r == 0) = false := by simp; omega
      simp only [this, Bool.false_eq_true, ↓reduceIte, decide_eq_false_iff_not]; omega
  have hu' : (u == 2) = false := by simpa using hu
  simp only [gotoSegMatch, hseg, hm, Bool.and_self, ↓reduceIte, checkLoopUsage, hu', Bool.false_eq_true, hex]
  rw [flush_nil _ (by simpa using hp)]
  simp [enterCnt, hp]

/-! ### the child scan -/

/-- a child the scan passes without effect: below the start position, or not enterable by the segment and with
    nothing required outstanding -/
def Passes (K : Consts) (s : SegData) (cnt : Counter) (lkey : PathKey) (fromPos : Nat) (c : Node) : Prop :=
  c.pos < fromPos ∨ (NoHit s (entry K c) ∧ satisfied cnt (lkey ++ [c.comp]) c = true)

theorem entry_seg_eq (K : Consts) (c : Node) (h : c.isSeg = true) : entry K c = nodeSKey K c := by
  cases c with
  | seg => simp [entry, nodeSKey]
  | loop => simp [Node.isSeg] at h

/-- the scan skips children that cannot be entered -/
theorem scan_skips_nonmatching {K : Consts} {s : SegData} (lip : List Nat) (lkey : PathKey) (loopNode : Option Node)
    (loopNid origLoop : NodeId) (fromPos : Nat) (pops : List (List Nat)) (st : WState) :
    ∀ (pre post : List Node) (i : Nat), (∀ c ∈ pre, Passes K s st.cnt lkey fromPos c) →
      scanChildren K s lip lkey loopNode loopNid origLoop fromPos pops i st (pre ++ post) =
      scanChildren K s lip lkey loopNode loopNid origLoop fromPos pops (i + pre.length) st post
  | [], post, i, _ => by simp
  | c :: pre, post, i, h => by
    have hc := h c (by simp)
    have ih := scan_skips_nonmatching lip lkey loopNode loopNid origLoop fromPos pops st pre post (i + 1)
      (fun c' hc' => h c' (by simp [hc']))
    have hlen : i + (c :: pre).length = i + 1 + pre.length := by simp; omega
    rw [hlen, ← ih]
    simp only [List.cons_append]
    conv => lhs; simp only [scanChildren]
    rcases hc with hc | ⟨hn, hs⟩
    · simp [hc]
    · by_cases hpos : c.pos < fromPos
      · simp [hpos]
      · simp only [hpos, ↓reduceIte]
        cases hseg : c.isSeg with
        | true =>
          rw [entry_seg_eq K c hseg] at hn
          have hm := isMatch_false_of_noHit hn
          simp only [↓reduceIte, hm, Bool.false_eq_true]
          cases c with
          | loop => simp [Node.isSeg] at hseg
          | seg a b c d e f g =>
            simp only [satisfied, Bool.or_eq_true, bne_iff_ne, decide_eq_true_eq] at hs
            have : ((Node.seg a b c d e f g).usage == 0 &&
                decide (st.cnt.get (lkey ++ [(Node.seg a b c d e f g).comp]) < 1)) = false := by
              simp only [Node.usage]
              rcases hs with h | h
              · simp [h]
              · simp; omega
            simp only [this, Bool.false_eq_true, ↓reduceIte]
        | false =>
          simp only [Bool.false_eq_true, ↓reduceIte]
          rw [isLoopMatch_false c (lip ++ [i]) (lkey ++ [c.comp]) st hn hs]

theorem scan_all_pass {K : Consts} {s : SegData} (lip : List Nat) (lkey : PathKey) (loopNode : Option Node)
    (loopNid origLoop : NodeId) (fromPos : Nat) (pops : List (List Nat)) (st : WState)
    (ch : List Node) (i : Nat) (h : ∀ c ∈ ch, Passes K s st.cnt lkey fromPos c) :
    scanChildren K s lip lkey loopNode loopNid origLoop fromPos pops i st ch = .notHere st := by
  have := scan_skips_nonmatching (K := K) (s := s) lip lkey loopNode loopNid origLoop fromPos pops st ch [] i h
  simp only [List.append_nil] at this
  rw [this]; simp [scanChildren]

/-- the scan reaches a matching segment child that is not the start of a repeat of the enclosing loop -/
theorem scan_hit_seg {K : Consts} {s : SegData} (lip : List Nat) (lkey : PathKey) (loopNode : Option Node)
    (loopNid origLoop : NodeId) (fromPos : Nat) (pops : List (List Nat)) (st : WState) (c : Node) (r : List Node) (i : Nat)
    (hpos : ¬ c.pos < fromPos) (hseg : c.isSeg = true) (hm : isMatch K c s = true)
    (hl : loopNode = none ∨ ∃ ln, loopNode = some ln ∧ isLoopMatch K s lip lkey st ln = (false, st))
    (hp : st.pending = []) (hu : c.usage ≠ 2) (hr : c.rep = 0 ∨ st.cnt.get (lkey ++ [c.comp]) < c.rep) :
    scanChildren K s lip lkey loopNode loopNid origLoop fromPos pops i st (c :: r) =
      .found { node := some (lip ++ [i]), pops := pops, pushes := [],
               st := { cnt := st.cnt.incr (lkey ++ [c.comp]), pending := [], errs := st.errs } } := by
  have hex : exceeds ((st.cnt.incr (lkey ++ [c.comp])).get (lkey ++ [c.comp])) c.rep = false := by
    rw [get_incr_same]
    unfold exceeds maxRepeat
    rcases hr with h | h
    · simp [h]
    · have : (c.rep == 0) = false := by simp; omega
      simp only [this, Bool.false_eq_true, ↓reduceIte, decide_eq_false_iff_not]; omega
  have hu' : (c.usage == 2) = false := by simpa using hu
  have key : scanChildren.scanSegMatched lip lkey loopNid c i pops st =
      .found { node := some (lip ++ [i]), pops := pops, pushes := [],
               st := { cnt := st.cnt.incr (lkey ++ [c.comp]), pending := [], errs := st.errs } } := by
    simp only [scanChildren.scanSegMatched, hu', Bool.false_eq_true, ↓reduceIte, hex, List.append_nil, hp,
      List.filter_nil]
    rw [flush_nil _ rfl]
  simp only [scanChildren, hpos, ↓reduceIte, hseg, hm]
  rcases hl with hl | ⟨ln, hl, hlm⟩
  · subst hl; simp only; exact key
  · subst hl; simp only [hlm]; exact key

/-- the scan reaches a loop child that the segment enters -/
theorem scan_hit_loop {K : Consts} {s : SegData} (lip : List Nat) (lkey : PathKey) (loopNode : Option Node)
    (loopNid origLoop : NodeId) (fromPos : Nat) (pops : List (List Nat)) (st st2 : WState) (c : Node) (r : List Node) (i : Nat)
    (n : List Nat) (push : List (List Nat))
    (hpos : ¬ c.pos < fromPos) (hseg : c.isSeg = false)
    (hl : isLoopMatch K s (lip ++ [i]) (lkey ++ [c.comp]) st c = (true, st))
    (hg : gotoSegMatch K s (lip ++ [i]) (lkey ++ [c.comp]) st c = (some (n, push), st2)) :
    scanChildren K s lip lkey loopNode loopNid origLoop fromPos pops i st (c :: r) =
      .found { node := some n, pops := pops, pushes := push, st := st2 } := by
  simp only [scanChildren, hpos, ↓reduceIte, hseg, Bool.false_eq_true, hl, hg]

/-- the scan meets the first segment of the enclosing loop again: the loop repeats -/
theorem scan_hit_repeat {K : Consts} {s : SegData} (lip : List Nat) (lkey : PathKey) (ln : Node)
    (loopNid origLoop : NodeId) (fromPos : Nat) (pops : List (List Nat)) (st st2 : WState) (c : Node) (r : List Node) (i : Nat)
    (n : List Nat) (push : List (List Nat))
    (hpos : ¬ c.pos < fromPos) (hseg : c.isSeg = true) (hm : isMatch K c s = true)
    (hl : isLoopMatch K s lip lkey st ln = (true, st))
    (hg : gotoSegMatch K s lip lkey st ln = (some (n, push), st2)) :
    ∃ pops' pushes', scanChildren K s lip lkey (some ln) loopNid origLoop fromPos pops i st (c :: r) =
      .found { node := some n, pops := pops', pushes := pushes', st := st2 } := by
  simp only [scanChildren, hpos, ↓reduceIte, hseg, hm, hl, hg]
  split
  · exact ⟨_, _, rfl⟩
  · exact ⟨_, _, rfl⟩

/-! ### one level of the `while True` of `walk` -/

def posAt (root : List Node) (p : List Nat) : Nat :=
  match nodeAt root p with
  | some n => n.pos
  | none => 0

theorem walkUp_level {K : Consts} {root : List Node} {rootId : Nat} {s : SegData} {origLoop : NodeId} {orig : List Nat}
    {p : List Nat} {i : Nat} {ch : List Node} (h : chAt root (p ++ [i]) = some ch)
    (fromPos : Nat) (pops : List (List Nat)) (st : WState) :
    ∃ ln nid, nodeAt root (p ++ [i]) = some ln ∧ ln.children = ch ∧ ln.isSeg = false ∧
      walkUp K root rootId s origLoop orig (p ++ [i]).reverse fromPos pops st =
      (match scanChildren K s (p ++ [i]) (keyAt root (p ++ [i])) (some ln) nid origLoop fromPos pops 0 st ch with
       | .found r => r
       | .notHere st' => walkUp K root rootId s origLoop orig p.reverse (posAt root (p ++ [i])) (pops ++ [p ++ [i]]) st') := by
  obtain ⟨pch, lid, pos, u, r, w, hp, hi, hn⟩ := nodeAt_of_chAt h
  refine ⟨.loop lid pos u r w ch, (lid, idAt root p), hn, rfl, rfl, ?_⟩
  have hrev : (p ++ [i]).reverse = i :: p.reverse := by simp
  rw [hrev, walkUp]
  have hrev2 : (i :: p.reverse).reverse = p ++ [i] := by simp
  simp only [hrev2, hn, Node.children, Node.ident, Node.pos, posAt, List.reverse_reverse]
  rfl

theorem walkUp_root {K : Consts} {root : List Node} {rootId : Nat} {s : SegData} {origLoop : NodeId} {orig : List Nat}
    (fromPos : Nat) (pops : List (List Nat)) (st : WState) :
    walkUp K root rootId s origLoop orig [] fromPos pops st =
      (match scanChildren K s [] [] none (rootId, 0) origLoop fromPos pops 0 st root with
       | .found r => r
       | .notHere st' =>
         { node := none, pops := [], pushes := [], st := { st' with errs := st'.errs ++ [(ErrKind.notFound, orig)] } }) := by
  rw [walkUp]
  cases scanChildren K s [] [] none (rootId, 0) origLoop fromPos pops 0 st root <;> rfl

end Pyx12Verif.WalkerGen
