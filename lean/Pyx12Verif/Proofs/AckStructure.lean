/- Shape of the 997 visitor's output: what each `accept` level appends, and the value of the hand-kept counters. -/
import Pyx12Verif.Proofs.AckStrings

namespace Pyx12Verif.Ack
open Pyx12Verif.ErrTree

/-! ### `_write` -/

theorem writeAll_eq (v : V) (l : List PSeg) :
    v.writeAll l = { v with out := v.out ++ l, segCount := v.segCount + l.length } := by
  induction l generalizing v with
  | nil => simp [V.writeAll]
  | cons s r ih =>
    simp only [V.writeAll, ih, V.write, List.length_cons, List.append_assoc, List.singleton_append]
    congr 1; omega

theorem writeLines_eq (v : V) (l : Lines) :
    v.writeLines l = { v with out := v.out ++ l.segs, segCount := v.segCount + l.segs.length, crash := l.crash } := by
  simp [V.writeLines, writeAll_eq]

/-! ### one functional group -/

def gsLines (cfg : Cfg) (g : Gs) : Lines := stsLines (stLines997 cfg) g.children

/-- everything `err_gs.accept` writes for a group whose sets do not make the visitor raise; `n` = ST control number -/
def block997 (cfg : Cfg) (n : Nat) (g : Gs) : List PSeg :=
  [stSeg997 n, ak1Seg997 g] ++ (gsLines cfg g).segs ++ [ak9Seg997 g, seSeg997 ((gsLines cfg g).segs.length + 4) n]

def GsOk (cfg : Cfg) (g : Gs) : Prop := (gsLines cfg g).crash = none

theorem visitGs997_skip (cfg : Cfg) (v : V) (g : Gs) (c : ASite) (h : v.crash = some c) : visitGs997 cfg v g = v := by
  simp [visitGs997, V.andThen, h]

theorem visitGs997_ok (cfg : Cfg) (v : V) (g : Gs) (hv : v.crash = none) (hg : GsOk cfg g) :
    visitGs997 cfg v g =
      { out := v.out ++ block997 cfg (v.stCtl + 1) g, segCount := (gsLines cfg g).segs.length + 4,
        stCtl := v.stCtl + 1, stLoop := v.stLoop + 1, gsLoop := v.gsLoop, crash := none } := by
  unfold GsOk at hg
  unfold gsLines at hg
  simp only [visitGs997, V.andThen, hv, writeLines_eq, hg, gsPre997, V.write, V.bumpSt, V.resetCount,
    gsPost997, V.writeSe, block997, gsLines]
  simp only [List.append_assoc, List.cons_append, List.nil_append, V.mk.injEq, and_true]
  constructor
  · congr 7; omega
  · omega

theorem visitGs997_crash (cfg : Cfg) (v : V) (g : Gs) (c : ASite) (hv : v.crash = none)
    (hg : (gsLines cfg g).crash = some c) :
    (visitGs997 cfg v g).crash = some c ∧
    (visitGs997 cfg v g).out = v.out ++ [stSeg997 (v.stCtl + 1), ak1Seg997 g] ++ (gsLines cfg g).segs := by
  unfold gsLines at hg
  simp [visitGs997, V.andThen, hv, writeLines_eq, hg, gsPre997, V.write, V.bumpSt, V.resetCount, gsLines]

theorem visitGs997_crash_none (cfg : Cfg) (v : V) (g : Gs) (h : (visitGs997 cfg v g).crash = none) :
    v.crash = none ∧ GsOk cfg g := by
  cases hv : v.crash with
  | some c => rw [visitGs997_skip cfg v g c hv] at h; rw [hv] at h; cases h
  | none =>
    refine ⟨rfl, ?_⟩
    unfold GsOk
    cases hg : (gsLines cfg g).crash with
    | none => rfl
    | some c => rw [(visitGs997_crash cfg v g c hv hg).1] at h; cases h

/-! ### all groups -/

def blocks997 (cfg : Cfg) (n : Nat) : List Gs → List PSeg
  | [] => []
  | g :: r => block997 cfg (n + 1) g ++ blocks997 cfg (n + 1) r

def allGs : Tree → List Gs
  | [] => []
  | a :: r => a.children ++ allGs r

theorem visitGss997_append (cfg : Cfg) (v : V) (l1 l2 : List Gs) :
    visitGss997 cfg v (l1 ++ l2) = visitGss997 cfg (visitGss997 cfg v l1) l2 := by
  induction l1 generalizing v with
  | nil => rfl
  | cons g r ih => simp [visitGss997, ih]

theorem visitIsas997_eq (cfg : Cfg) (v : V) (t : Tree) : visitIsas997 cfg v t = visitGss997 cfg v (allGs t) := by
  induction t generalizing v with
  | nil => rfl
  | cons a r ih => simp [visitIsas997, allGs, visitGss997_append, ih]

theorem visitGss997_skip (cfg : Cfg) (v : V) (l : List Gs) (c : ASite) (h : v.crash = some c) :
    visitGss997 cfg v l = v := by
  induction l with
  | nil => rfl
  | cons g r ih => simp [visitGss997, visitGs997_skip cfg v g c h, ih]

theorem visitGss997_crash_none (cfg : Cfg) (v : V) (l : List Gs) (h : (visitGss997 cfg v l).crash = none) :
    v.crash = none ∧ ∀ g ∈ l, GsOk cfg g := by
  induction l generalizing v with
  | nil => exact ⟨h, by simp⟩
  | cons g r ih =>
    simp only [visitGss997] at h
    have h1 := ih _ h
    have h2 := visitGs997_crash_none cfg v g h1.1
    exact ⟨h2.1, by intro x hx; simp at hx; rcases hx with rfl | hx; exact h2.2; exact h1.2 x hx⟩

theorem visitGss997_ok (cfg : Cfg) (v : V) (l : List Gs) (hv : v.crash = none) (hl : ∀ g ∈ l, GsOk cfg g) :
    (visitGss997 cfg v l).out = v.out ++ blocks997 cfg v.stCtl l ∧
    (visitGss997 cfg v l).stCtl = v.stCtl + l.length ∧
    (visitGss997 cfg v l).stLoop = v.stLoop + l.length ∧
    (visitGss997 cfg v l).gsLoop = v.gsLoop ∧
    (visitGss997 cfg v l).crash = none := by
  induction l generalizing v with
  | nil => simp [visitGss997, blocks997, hv]
  | cons g r ih =>
    simp only [visitGss997]
    rw [visitGs997_ok cfg v g hv (hl g (by simp))]
    have := ih { out := v.out ++ block997 cfg (v.stCtl + 1) g, segCount := (gsLines cfg g).segs.length + 4,
                 stCtl := v.stCtl + 1, stLoop := v.stLoop + 1, gsLoop := v.gsLoop, crash := none } rfl
               (fun x hx => hl x (by simp [hx]))
    simp only at this
    refine ⟨?_, ?_, ?_, this.2.2.2.1, this.2.2.2.2⟩
    · rw [this.1]; simp [blocks997]
    · rw [this.2.1]; simp; omega
    · rw [this.2.2.1]; simp; omega

/-! ### the whole acknowledgement -/

theorem rootPre997_crash_none (cfg : Cfg) (s : State) (p : Params) (h : (rootPre997 cfg s p).1.crash = none) :
    ∃ a g isa gs, curIsaNode s = some a ∧ curGsNode s = some g ∧ isaSeg997 a p = some isa ∧
      gsSeg997 cfg a g p = some gs ∧
      rootPre997 cfg s p = ({ out := [isa, gs], segCount := 2, stCtl := 0, stLoop := 0, gsLoop := 1, crash := none }, some gs) := by
  cases ha : curIsaNode s with
  | none => simp [rootPre997, ha] at h
  | some a =>
    cases hi : isaSeg997 a p with
    | none => simp [rootPre997, ha, hi] at h
    | some isa =>
      cases hg : curGsNode s with
      | none => simp [rootPre997, ha, hi, hg] at h
      | some g =>
        cases hgs : gsSeg997 cfg a g p with
        | none => simp [rootPre997, ha, hi, hg, hgs] at h
        | some gs =>
          exact ⟨a, g, isa, gs, rfl, rfl, hi, hgs, by simp [rootPre997, ha, hi, hg, hgs, V.init, V.write]⟩

/-- shape of a complete 997 -/
theorem ack997_ok (cfg : Cfg) (s : State) (p : Params) (h : (ack997 cfg s p).crash = none) :
    ∃ a g isa gs, curIsaNode s = some a ∧ curGsNode s = some g ∧ isaSeg997 a p = some isa ∧
      gsSeg997 cfg a g p = some gs ∧ (∀ x ∈ allGs s.tree, GsOk cfg x) ∧
      (ta1Lines (getIsaErrors997 a) a).crash = none ∧
      (ack997 cfg s p).out =
        [isa, gs] ++ blocks997 cfg 0 (allGs s.tree) ++ [geSeg997 (allGs s.tree).length gs] ++
          (ta1Lines (getIsaErrors997 a) a).segs ++ [ieaSeg997 p] := by
  unfold ack997 at h ⊢
  rw [visitIsas997_eq] at h ⊢
  -- the visitor state after the groups
  have hpost : (visitGss997 cfg (rootPre997 cfg s p).1 (allGs s.tree)).crash = none := by
    cases hc : (visitGss997 cfg (rootPre997 cfg s p).1 (allGs s.tree)).crash with
    | none => rfl
    | some c => simp [rootPost997, V.andThen, hc] at h
  have hgs := visitGss997_crash_none cfg _ _ hpost
  obtain ⟨a, g, isa, gs, ha, hg, hi, hgsg, hpre⟩ := rootPre997_crash_none cfg s p hgs.1
  have hshape := visitGss997_ok cfg (rootPre997 cfg s p).1 (allGs s.tree) hgs.1 hgs.2
  rw [hpre] at hshape h ⊢
  simp only at hshape
  obtain ⟨hout, hctl, hloop, hgl, hcr⟩ := hshape
  refine ⟨a, g, isa, gs, ha, hg, hi, hgsg, hgs.2, ?_, ?_⟩
  · cases hc : (ta1Lines (getIsaErrors997 a) a).crash with
    | none => rfl
    | some c =>
      simp [rootPost997, V.andThen, hcr, ha, writeLines_eq, hc] at h
  · have hc : (ta1Lines (getIsaErrors997 a) a).crash = none := by
      cases hc : (ta1Lines (getIsaErrors997 a) a).crash with
      | none => rfl
      | some c => simp [rootPost997, V.andThen, hcr, ha, writeLines_eq, hc] at h
    simp [rootPost997, V.andThen, hcr, ha, writeLines_eq, hc, V.write, V.setGsLoop, hout, hloop]

end Pyx12Verif.Ack
