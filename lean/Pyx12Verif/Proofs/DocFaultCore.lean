/-
Core of `Props/DocFault.lean` (C03 at pipeline level): a run ISA, GS, conforming rounds, ONE deviating round, conforming
rounds, put together from the loop side (`validateRead_rounds`) and the error-handler side (`clean_rounds_run` and a
description `hX` of what the calls of the deviating round do once a set is open).

`EnvOk`, `GroupAt` bundle the hypotheses of `doc_accepts_generated` that do not concern the body.
`OneFaultRun` is the shape of the conclusion: verdict false; the outputs are those of conforming rounds (matched, no error
call) around the one output `oF`; the events are the outputs' events; the tree is one interchange, one group, and below the
group exactly one segment node `sg` (`OneFault`).
-/
import Pyx12Verif.Proofs.DocFaultBody

namespace Pyx12Verif.Doc
open Pyx12Verif WalkerGen MapSkel

/-- what `doc_accepts_generated` assumes about the control map, the index and the ISA / GS segments -/
structure EnvOk (ms : Maps) (ctx : Ctx) (h : Tokenizer.Header) (control m : MapX) (isa gs : Seg) (a g : Nat)
    (cip cgp : List Nat) (isaDef gsDef : SegDef) (vISA vGS : Envelope.SegView) (rs1 rs2 : Envelope.RState) : Prop where
  ctl : findMap ms (controlFile h) = some control
  isaNode : fetchIn ms control (isaPath ms) = some ⟨control, cip⟩
  gsNode : fetchIn ms control (gsPath ms) = some ⟨control, cgp⟩
  hisaDef : lookupDef control cip = some isaDef
  isaAdm : SegAdm ctx control.v5010 (SegText.delimsOf h) isaDef isa
  idx : getFilename ms.index (gv (SegText.delimsOf h) isa 11) (gv (SegText.delimsOf h) gs 7)
          (gv (SegText.delimsOf h) gs 0) none = some m.file
  map : findMap ms m.file = some m
  gsM : fetchIn ms m (gsPath ms) = some ⟨m, [a, g, 0]⟩
  hgsDef : lookupDef m [a, g, 0] = some gsDef
  gsAdm : SegAdm ctx m.v5010 (SegText.delimsOf h) gsDef gs
  no278 : gv (SegText.delimsOf h) gs 7 ≠ some v278a ∧ gv (SegText.delimsOf h) gs 7 ≠ some v278b
  isaId : isa.id = Envelope.idISA
  gsId : gs.id = Envelope.idGS
  bIsa : baseErrs isa = []
  bGs : baseErrs gs = []
  vIsa : Pipeline.viewOf (SegText.delimsOf h) isa = some vISA
  sIsa : Envelope.step Envelope.Fixes.all (Envelope.RState.init false) vISA = .ok (rs1, [])
  vGs : Pipeline.viewOf (SegText.delimsOf h) gs = some vGS
  sGs : Envelope.step Envelope.Fixes.all rs1 vGS = .ok (rs2, [])

/-- what `doc_accepts_generated` assumes about the map skeleton: well formed, unambiguous; `root[a]` is the interchange
    loop starting with the ISA node, its child `g` the group loop starting with the GS node (ids as the glue pins
    them), everything before them optional; `gsRest` = the children of the group loop after GS -/
structure GroupAt (ms : Maps) (m : MapX) (a g : Nat) (isaSeg : Node) (isaRest : List Node) (gsSeg : Node)
    (gsRest : List Node) : Prop where
  wf : WFMap m.root = true
  un : Unambiguous ms.consts m.root = true
  root : ∃ isaPos isaU isaRep isaW,
    m.root[a]? = some (.loop ms.ids.isaLoop isaPos isaU isaRep isaW (isaSeg :: isaRest))
  hisaSeg : isaSeg.isSeg = true
  isaComp : isaSeg.comp = (ms.ids.isa, 0)
  gsLoop : ∃ gsPos gsU gsRep gsW,
    (isaSeg :: isaRest)[g]? = some (.loop ms.ids.gsLoop gsPos gsU gsRep gsW (gsSeg :: gsRest))
  hgsSeg : gsSeg.isSeg = true
  gsComp : gsSeg.comp = (ms.ids.gs, 0)
  opt0 : ∀ (j : Nat) (c : Node), j < a → m.root[j]? = some c → optional c = true
  opt1 : ∀ (j : Nat) (c : Node), 0 < j → j < g → (isaSeg :: isaRest)[j]? = some c → optional c = true

/-- reader state with which the body starts (`check_837_lx` switched at GS as `x12n_document` does) -/
def bodyRs (m : MapX) (rs2 : Envelope.RState) : Envelope.RState := { rs2 with chk837 := m.is837 }

/-- the error tree: one interchange, one group, envelope nodes without error, `P` holds of the set nodes -/
def TreeIs (t : ErrTree.Tree) (P : List ErrTree.St → Prop) : Prop :=
  ∃ a g, t = [a] ∧ a.children = [g] ∧ a.errors = [] ∧ a.elements = [] ∧ g.errors = [] ∧ g.elements = [] ∧ P g.children

theorem treeIs_of_GS {s : ErrTree.State} {sets : List ErrTree.St} (h : GS s sets) (P : List ErrTree.St → Prop) (hp : P sets) :
    TreeIs s.tree P := by
  obtain ⟨a, g, h1, h2, h3, h4, h5, h6, h7⟩ := h.tree
  exact ⟨a, g, h1, h2, h4, h5, h6, h7, by rw [h3]; exact hp⟩

/-- the shape of a run with ONE deviating round among `npre + 1 + npost` body segments -/
structure OneFaultRun (r : DocResult) (npre npost : Nat) (oF : SegOut) (sg : ErrTree.Seg) : Prop where
  /-- the verdict -/
  outcome : r.outcome = .verdict false
  /-- every other segment is matched and hands no error to the handler -/
  segs : ∃ oI oG opre opost, r.segs = oI :: oG :: (opre ++ oF :: opost) ∧ opre.length = npre ∧ opost.length = npost ∧
    ∀ o ∈ oI :: oG :: (opre ++ opost), o.matched = true ∧ Quiet o.events
  /-- nothing else reaches the handler -/
  events : r.events = (r.segs.map (·.events)).flatten
  /-- the tree holds exactly the node `sg` below the one set that was open -/
  tree : TreeIs r.final.tree (OneFault sg)

theorem outsOf_clean (m : MapX) (d : Delims) : ∀ (rounds : List BRound) (cur : List Nat), (∀ r ∈ rounds, r.Clean) →
    ∀ o ∈ outsOf m d cur rounds, o.matched = true ∧ Quiet o.events := by
  intro rounds
  induction rounds with
  | nil => intro cur _ o ho; cases ho
  | cons r rest ih =>
    intro cur h o ho
    simp only [outsOf, List.mem_cons] at ho
    rcases ho with rfl | ho
    · exact ⟨(h r (by simp)).1, (h r (by simp)).quiet m d⟩
    · exact ih _ (fun x hx => h x (List.mem_cons_of_mem _ hx)) o ho

theorem verdict_false_of_pos (v : Bool) (t : ErrTree.Tree) (h : 0 < ErrTree.errorCount t) : ErrTree.verdict v t = false := by
  unfold ErrTree.verdict
  have : (ErrTree.errorCount t == 0) = false := by
    cases hc : ErrTree.errorCount t with
    | zero => omega
    | succ n => rfl
  rw [this, Bool.and_false]

/-- **core**: conforming rounds, one deviating round, conforming rounds.  `hX`: once a set is open and nothing has been
    reported yet, the calls of the deviating round do not raise and turn the set list `done ++ [x]` into `F done x`, which
    holds exactly the node `sg`.  Second part of the conclusion: the set list at the end, exactly. -/
theorem one_fault_core (ms : Maps) (ctx : Ctx) (h : Tokenizer.Header) (control m : MapX) (isa gs : Seg) (a g : Nat)
    (cip cgp : List Nat) (isaDef gsDef : SegDef) (vISA vGS : Envelope.SegView) (rs1 rs2 : Envelope.RState)
    (henv : EnvOk ms ctx h control m isa gs a g cip cgp isaDef gsDef vISA vGS rs1 rs2)
    (rpre rpost : List BRound) (rX : BRound)
    (hrounds : Rounds ms ctx m (SegText.delimsOf h) (pinnedCnt ms) [a, g, 0] (bodyRs m rs2) (rpre ++ rX :: rpost))
    (hclean : Envelope.cleanup (endRs (bodyRs m rs2) (rpre ++ rX :: rpost)) = [])
    (hpre : ∀ r ∈ rpre, r.Clean) (hpost : ∀ r ∈ rpost, r.Clean)
    (hse : SeOk false ((rpre ++ rX :: rpost).map (·.seg.id)))
    (hst : stIn (rpre.map (·.seg.id)) = true)
    (sg : ErrTree.Seg) (hsg : 0 < sg.errCount)
    (F : List ErrTree.St → ErrTree.St → List ErrTree.St)
    (hX : ∀ (s : ErrTree.State) (done : List ErrTree.St) (x : ErrTree.St), GS s (done ++ [x]) → NoFault (done ++ [x]) →
      ∃ s', ErrTree.run s (rX.events m (SegText.delimsOf h)) = .ok s' ∧ GS s' (F done x) ∧ OneFault sg (F done x)) :
    OneFaultRun (validateRead ms ctx h (readRounds isa gs (rpre ++ rX :: rpost))) rpre.length rpost.length
      (rX.out m (SegText.delimsOf h) (endCur [a, g, 0] rpre)) sg ∧
    ∃ done x evI evG, cleanSets (SegText.delimsOf h) [] rpre = done ++ [x] ∧
      TreeIs (validateRead ms ctx h (readRounds isa gs (rpre ++ rX :: rpost))).final.tree
        (fun sets => sets = cleanSets (SegText.delimsOf h) (F done x) rpost) ∧
      segEvents ctx control.v5010 (SegText.delimsOf h) isaDef isa = .ok true evI ∧
      segEvents ctx m.v5010 (SegText.delimsOf h) gsDef gs = .ok true evG ∧
      (validateRead ms ctx h (readRounds isa gs (rpre ++ rX :: rpost))).segs =
        isaOut control (SegText.delimsOf h) isa cip evI :: gsOut m (SegText.delimsOf h) gs a g rs2 evG ::
          outsOf m (SegText.delimsOf h) [a, g, 0] (rpre ++ rX :: rpost) := by
  obtain ⟨evI, evG, e2, hevI, hevG, hqI, hqG, hG, _, hall⟩ := validateRead_rounds ms ctx h control m isa gs (rpre ++ rX :: rpost) a g cip cgp
    isaDef gsDef vISA vGS rs1 rs2 henv.ctl henv.isaNode henv.gsNode henv.hisaDef henv.isaAdm henv.idx henv.map henv.gsM
    henv.hgsDef henv.gsAdm henv.no278 henv.isaId henv.gsId henv.bIsa henv.bGs henv.vIsa henv.sIsa henv.vGs henv.sGs
    hrounds hclean
  -- the reader's / handler's order condition, phase by phase
  have hids : (rpre ++ rX :: rpost).map (·.seg.id) = rpre.map (·.seg.id) ++ (rX.seg.id :: rpost.map (·.seg.id)) := by simp
  rw [hids, seOk_append] at hse
  obtain ⟨hse1, hse2⟩ := hse
  rw [seenAfter_false, hst] at hse2
  simp only [SeOk, Bool.true_or] at hse2
  -- conforming rounds before
  obtain ⟨s1, hs1, hg1, hn1⟩ := clean_rounds_run m (SegText.delimsOf h) rpre e2 [] false hG hpre hse1 (by simp)
  have hne1 : cleanSets (SegText.delimsOf h) [] rpre ≠ [] := hn1 (by rw [seenAfter_false, hst])
  have hnf1 : NoFault (cleanSets (SegText.delimsOf h) [] rpre) := noFault_cleanSets _ rpre [] NoFault.nil
  obtain ⟨done, x, hdx⟩ : ∃ done x, cleanSets (SegText.delimsOf h) [] rpre = done ++ [x] :=
    ⟨_, _, (List.dropLast_concat_getLast hne1).symm⟩
  rw [hdx] at hg1 hnf1
  -- the deviating round
  obtain ⟨s2, hs2, hg2, hof2⟩ := hX s1 done x hg1 hnf1
  have hne2 : F done x ≠ [] := by
    obtain ⟨d1, y, mo, hsets, _⟩ := hof2
    rw [hsets]; simp
  -- conforming rounds after
  obtain ⟨s3, hs3, hg3, _⟩ := clean_rounds_run m (SegText.delimsOf h) rpost s2 (F done x) true hg2 hpost hse2.2 (fun _ => hne2)
  have hof3 := oneFault_cleanSets sg (SegText.delimsOf h) rpost (F done x) hof2
  have hrun : ErrTree.run e2 (eventsOf m (SegText.delimsOf h) (rpre ++ rX :: rpost)) = .ok s3 := by
    rw [eventsOf_append, eventsOf_cons, run_append, hs1]
    simp only
    rw [run_append, hs2]
    exact hs3
  have hres := hall s3 hrun
  have hcount : 0 < ErrTree.errorCount s3.tree := by
    rw [errorCount_GTree hg3.tree]
    exact sumStErrors_pos_of_oneFault sg _ hof3 hsg
  refine ⟨⟨?_, ?_, ?_, ?_⟩, done, x, evI, evG, hdx, ?_, hevI, hevG, ?_⟩
  · rw [hres]
    simp only [verdict_false_of_pos _ _ hcount]
  · rw [hres]
    refine ⟨isaOut control (SegText.delimsOf h) isa cip evI, gsOut m (SegText.delimsOf h) gs a g rs2 evG,
      outsOf m (SegText.delimsOf h) [a, g, 0] rpre,
      outsOf m (SegText.delimsOf h) ((rX.node.getD (endCur [a, g, 0] rpre))) rpost, ?_, outsOf_length _ _ _ _,
      outsOf_length _ _ _ _, ?_⟩
    · simp only [outsOf_append, outsOf]
    · intro o ho
      simp only [List.mem_cons, List.mem_append] at ho
      rcases ho with rfl | rfl | ho | ho
      · refine ⟨rfl, ?_⟩
        intro e he
        simp only [isaOut, List.mem_cons] at he
        rcases he with rfl | he
        · rfl
        · exact hqI e he
      · refine ⟨rfl, ?_⟩
        intro e he
        simp only [gsOut, List.mem_cons] at he
        rcases he with rfl | he
        · rfl
        · exact hqG e he
      · exact outsOf_clean m _ rpre _ hpre o ho
      · exact outsOf_clean m _ rpost _ hpost o ho
  · rw [hres]
    simp only [List.map_cons, List.flatten_cons, outsOf_events, isaOut, gsOut, eventsOf]
  · rw [hres]
    exact treeIs_of_GS hg3 _ hof3
  · rw [hres]
    exact treeIs_of_GS hg3 _ rfl
  · rw [hres]

end Pyx12Verif.Doc
