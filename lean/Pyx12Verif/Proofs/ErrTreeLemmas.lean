/- Helper lemmas about the error-tree model: counting functions vs. "no error" predicates, path updates. -/
import Pyx12Verif.Model.ErrTree

namespace Pyx12Verif.ErrTree

/-! ### declarative "no error" predicates (the spec side) -/

def Seg.Clean (s : Seg) : Prop := s.errors = [] ∧ ∀ e ∈ s.elements, e.errors = []
/-- no error that `err_st.err_count` looks at: the set's own list and its segments (not its `elements`) -/
def St.CountedClean (s : St) : Prop := s.errors = [] ∧ ∀ sg ∈ s.children, sg.Clean
/-- no error at all inside the set, including element errors stored on the ST/SE node itself -/
def St.Clean (s : St) : Prop := s.CountedClean ∧ ∀ e ∈ s.elements, e.errors = []
def Gs.CountedClean (g : Gs) : Prop :=
  g.errors = [] ∧ (∀ e ∈ g.elements, e.errors = []) ∧ ∀ s ∈ g.children, s.CountedClean
def Gs.Clean (g : Gs) : Prop := g.errors = [] ∧ (∀ e ∈ g.elements, e.errors = []) ∧ ∀ s ∈ g.children, s.Clean
def Isa.CountedClean (a : Isa) : Prop :=
  a.errors = [] ∧ (∀ e ∈ a.elements, e.errors = []) ∧ ∀ g ∈ a.children, g.CountedClean
def Isa.Clean (a : Isa) : Prop := a.errors = [] ∧ (∀ e ∈ a.elements, e.errors = []) ∧ ∀ g ∈ a.children, g.Clean
def NoCountedError (t : Tree) : Prop := ∀ a ∈ t, a.CountedClean
def NoError (t : Tree) : Prop := ∀ a ∈ t, a.Clean

/-! ### counts are zero iff clean -/

theorem eleChildErrCount_zero (l : List Ele) : eleChildErrCount l = 0 ↔ ∀ e ∈ l, e.errors = [] := by
  induction l with
  | nil => simp [eleChildErrCount]
  | cons e r ih =>
    simp only [eleChildErrCount, Ele.errCount, List.mem_cons, forall_eq_or_imp]
    rw [← ih, ← List.length_eq_zero_iff]
    grind

theorem sumEleErrors_zero (l : List Ele) : sumEleErrors l = 0 ↔ ∀ e ∈ l, e.errors = [] := by
  induction l with
  | nil => simp [sumEleErrors]
  | cons e r ih =>
    simp only [sumEleErrors, Ele.errCount, List.mem_cons, forall_eq_or_imp]
    rw [← ih, ← List.length_eq_zero_iff]
    omega

theorem Seg.errCount_zero (s : Seg) : s.errCount = 0 ↔ s.Clean := by
  unfold Seg.errCount Seg.childErrCount Seg.Clean
  rw [← eleChildErrCount_zero, ← List.length_eq_zero_iff]
  grind

theorem segChildErrCount_zero (l : List Seg) : segChildErrCount l = 0 ↔ ∀ s ∈ l, s.Clean := by
  induction l with
  | nil => simp [segChildErrCount]
  | cons s r ih =>
    simp only [segChildErrCount, List.mem_cons, forall_eq_or_imp]
    rw [← ih, ← Seg.errCount_zero]
    grind

theorem St.errCount_zero (s : St) : s.errCount = 0 ↔ s.CountedClean := by
  unfold St.errCount St.childErrCount St.CountedClean
  rw [← segChildErrCount_zero, ← List.length_eq_zero_iff]
  grind

theorem sumStErrors_zero (l : List St) : sumStErrors l = 0 ↔ ∀ s ∈ l, s.CountedClean := by
  induction l with
  | nil => simp [sumStErrors]
  | cons s r ih =>
    simp only [sumStErrors, List.mem_cons, forall_eq_or_imp]
    rw [← ih, ← St.errCount_zero]; omega

theorem Gs.errorCount_zero (g : Gs) : g.errorCount = 0 ↔ g.CountedClean := by
  unfold Gs.errorCount Gs.CountedClean
  rw [← sumEleErrors_zero, ← sumStErrors_zero, ← List.length_eq_zero_iff]
  omega

theorem sumGsErrors_zero (l : List Gs) : sumGsErrors l = 0 ↔ ∀ g ∈ l, g.CountedClean := by
  induction l with
  | nil => simp [sumGsErrors]
  | cons g r ih =>
    simp only [sumGsErrors, List.mem_cons, forall_eq_or_imp]
    rw [← ih, ← Gs.errorCount_zero]; omega

theorem Isa.errorCount_zero (a : Isa) : a.errorCount = 0 ↔ a.CountedClean := by
  unfold Isa.errorCount Isa.CountedClean
  rw [← sumEleErrors_zero, ← sumGsErrors_zero, ← List.length_eq_zero_iff]
  omega

theorem errorCount_zero (t : Tree) : errorCount t = 0 ↔ NoCountedError t := by
  unfold NoCountedError
  induction t with
  | nil => simp [errorCount]
  | cons a r ih =>
    simp only [errorCount, List.mem_cons, forall_eq_or_imp]
    rw [← ih, ← Isa.errorCount_zero]; omega

theorem anyStHasErrors_false (l : List St) : anyStHasErrors l = false ↔ ∀ s ∈ l, s.CountedClean := by
  induction l with
  | nil => simp [anyStHasErrors]
  | cons s r ih =>
    simp only [anyStHasErrors, List.mem_cons, forall_eq_or_imp]
    rw [← ih, ← St.errCount_zero]
    split
    · simp; omega
    · simp; omega

/-! ### path updates -/

theorem modNth_get {α : Type} (f : α → α) (l : List α) (n : Nat) : (modNth f l n)[n]? = (l[n]?).map f := by
  induction l generalizing n with
  | nil => simp [modNth]
  | cons x xs ih =>
    cases n with
    | zero => simp [modNth]
    | succ n => simp [modNth, ih]

theorem modNth_get_ne {α : Type} (f : α → α) (l : List α) (n m : Nat) (h : n ≠ m) :
    (modNth f l n)[m]? = l[m]? := by
  induction l generalizing n m with
  | nil => simp [modNth]
  | cons x xs ih =>
    cases n with
    | zero =>
      cases m with
      | zero => exact absurd rfl h
      | succ m => simp [modNth]
    | succ n =>
      cases m with
      | zero => simp [modNth]
      | succ m => simp [modNth]; exact ih n m (by omega)

theorem modNth_length {α : Type} (f : α → α) (l : List α) (n : Nat) : (modNth f l n).length = l.length := by
  induction l generalizing n with
  | nil => simp [modNth]
  | cons x xs ih => cases n <;> simp [modNth, ih]

theorem modNth_forall {α : Type} (P : α → Prop) (f : α → α) (l : List α) (n : Nat)
    (hl : ∀ x ∈ l, P x) (hf : ∀ x, P x → P (f x)) : ∀ x ∈ modNth f l n, P x := by
  induction l generalizing n with
  | nil => simp [modNth]
  | cons x xs ih =>
    cases n with
    | zero =>
      simp only [modNth, List.mem_cons, forall_eq_or_imp]
      exact ⟨hf x (hl x (by simp)), fun y hy => hl y (by simp [hy])⟩
    | succ n =>
      simp only [modNth, List.mem_cons, forall_eq_or_imp]
      exact ⟨hl x (by simp), ih n (fun y hy => hl y (by simp [hy]))⟩

theorem getSt_modSt (t : Tree) (i g s : Nat) (f : St → St) :
    getSt (modSt t i g s f) i g s = (getSt t i g s).map f := by
  unfold getSt getGs modSt modGs modIsa
  rw [modNth_get]
  cases h : t[i]? with
  | none => simp
  | some a =>
    simp only [Option.map_some, Option.bind_some]
    rw [modNth_get]
    cases h2 : a.children[g]? with
    | none => simp
    | some x => simp [modNth_get]

theorem getGs_modGs (t : Tree) (i g : Nat) (f : Gs → Gs) :
    getGs (modGs t i g f) i g = (getGs t i g).map f := by
  unfold getGs modGs modIsa
  rw [modNth_get]
  cases h : t[i]? with
  | none => simp
  | some a => simp [modNth_get]

end Pyx12Verif.ErrTree
