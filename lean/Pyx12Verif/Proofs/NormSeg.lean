/-
C20 helper lemmas, part 1: `get_value` / `set` on the literal designators of x12norm, in direct form.

`getVal d s "IEA02"` (the C17 model applied to a parsed designator) is `valAt d s 1`: element 2 absent -> `None`,
present -> its text.  `setVal d s "IEA01" v` is `set01 d s v`: element 1 replaced by `Composite(v, sub)`, the rest
untouched (a segment without elements gets one).
-/
import Pyx12Verif.Props.C17
import Pyx12Verif.Model.Norm
import Pyx12Verif.Proofs.SegText

namespace Pyx12Verif.Norm
open Pyx12Verif SegText Envelope
open Pyx12Verif.Segment hiding Seg Err

/-- separator the composites of a segment are built with -/
def termOf (d : Delims) (id : Str) : Char := if isISA id then d.ele else d.sub

def fmtRes : Except Segment.Err (List Char) → Res (Option Str)
  | .error _ => .crash
  | .ok v => .ok (some v)

/-- `get_value` of element `k + 1`, directly on the data -/
def valAt (d : Delims) (s : Seg) (k : Nat) : Res (Option Str) :=
  match s.elems[k]? with
  | none => .ok none
  | some c => fmtRes (fmtComp ⟨termOf d s.id, c⟩)

theorem objOf_elements (d : Delims) (s : Seg) :
    (objOf d s).elements = s.elems.map (fun e => ⟨termOf d s.id, e⟩) := rfl

theorem objOf_id (d : Delims) (s : Seg) : (objOf d s).id = s.id := rfl

theorem getVal_eq (d : Delims) (s : Seg) (k : Nat) (h : WFDesig (some s.id) k) :
    getVal d s (refText (some s.id) k none) = valAt d s k := by
  unfold getVal valAt
  cases hk : s.elems[k]? with
  | none =>
    have hlen : s.elems.length ≤ k := by simpa using hk
    have hg : getAt (objOf d s) (.nat k) (Option.map PyIdx.nat none) = .ok .nothing := by
      simp [getAt, geLen, objOf_elements, hlen]
    rw [getValue_ok (objOf d s) (some s.id) k none _ h (Or.inr rfl) hg]
    rfl
  | some c =>
    have hlt : k < s.elems.length := by
      rcases Nat.lt_or_ge k s.elems.length with h1 | h1
      · exact h1
      · have : s.elems[k]? = none := by simpa using h1
        rw [this] at hk; cases hk
    have hg : getAt (objOf d s) (.nat k) (Option.map PyIdx.nat none) = .ok (.comp ⟨termOf d s.id, c⟩) := by
      simp [getAt, geLen, objOf_elements, pyGet, hk, Nat.not_le.mpr hlt]
    rw [getValue_ok (objOf d s) (some s.id) k none _ h (Or.inr rfl) hg]
    simp only [valueOf, fmtRes]
    cases fmtComp ⟨termOf d s.id, c⟩ <;> rfl

/-- element 1 replaced by `Composite(v, sub)` -/
def set01 (d : Delims) (s : Seg) (v : Str) : Seg := ⟨s.id, Path.splitOn d.sub v :: s.elems.tail⟩

theorem setVal_eq (d : Delims) (s : Seg) (v : Str) (h : WFDesig (some s.id) 0) (hisa : isISA s.id = false) :
    setVal d s (refText (some s.id) 0 none) v = .ok (set01 d s v) := by
  unfold setVal
  rw [set_whole_eq (objOf d s) (some s.id) 0 v h (Or.inr rfl)]
  simp only [toSeg, withElements, set01, objOf_id]
  congr 2
  simp only [padded, padTo, objOf_elements, wholeTerm, objOf_id, hisa, Bool.false_and, blankComp, mkComp]
  cases he : s.elems with
  | nil => simp [objOf, ofSeg]
  | cons a r =>
    simp [objOf, ofSeg]
    rw [show (Comp.subs ∘ fun e => ({ term := termOf d s.id, subs := e } : Comp)) = id from rfl, List.map_id]

/-! ### the literal designators -/

theorem segIdOK_of (s : Str) (a : Char) (r : Str) (hs : s = a :: r) (hl : s.length = 2 ∨ s.length = 3)
    (hc : ∀ x ∈ s, Path.isIdChar x = true) (hu : Path.isUpper a = true) : Path.SegIdOK s :=
  ⟨hl, hc, a, r, hs, hu⟩

theorem wf_ISA : WFDesig (some idISA) 12 := ⟨fun x hx => by cases hx; exact segIdOK_of _ 'I' _ rfl (by decide) (by decide) (by decide), by decide⟩
theorem wf_GS : WFDesig (some idGS) 5 := ⟨fun x hx => by cases hx; exact segIdOK_of _ 'G' _ rfl (by decide) (by decide) (by decide), by decide⟩
theorem wf_ST (k : Nat) (hk : k < 99) : WFDesig (some idST) k := ⟨fun x hx => by cases hx; exact segIdOK_of _ 'S' _ rfl (by decide) (by decide) (by decide), hk⟩
theorem wf_HL (k : Nat) (hk : k < 99) : WFDesig (some idHL) k := ⟨fun x hx => by cases hx; exact segIdOK_of _ 'H' _ rfl (by decide) (by decide) (by decide), hk⟩
theorem wf_IEA (k : Nat) (hk : k < 99) : WFDesig (some idIEA) k := ⟨fun x hx => by cases hx; exact segIdOK_of _ 'I' _ rfl (by decide) (by decide) (by decide), hk⟩
theorem wf_GE (k : Nat) (hk : k < 99) : WFDesig (some idGE) k := ⟨fun x hx => by cases hx; exact segIdOK_of _ 'G' _ rfl (by decide) (by decide) (by decide), hk⟩
theorem wf_SE (k : Nat) (hk : k < 99) : WFDesig (some idSE) k := ⟨fun x hx => by cases hx; exact segIdOK_of _ 'S' _ rfl (by decide) (by decide) (by decide), hk⟩

theorem des_ISA13 : desISA13 = refText (some idISA) 12 none := by decide
theorem des_GS06 : desGS06 = refText (some idGS) 5 none := by decide
theorem des_ST02 : desST02 = refText (some idST) 1 none := by decide
theorem des_HL01 : desHL01 = refText (some idHL) 0 none := by decide
theorem des_HL02 : desHL02 = refText (some idHL) 1 none := by decide
theorem des_IEA01 : desIEA01 = refText (some idIEA) 0 none := by decide
theorem des_IEA02 : desIEA02 = refText (some idIEA) 1 none := by decide
theorem des_GE01 : desGE01 = refText (some idGE) 0 none := by decide
theorem des_GE02 : desGE02 = refText (some idGE) 1 none := by decide
theorem des_SE01 : desSE01 = refText (some idSE) 0 none := by decide
theorem des_SE02 : desSE02 = refText (some idSE) 1 none := by decide

/-- the view, with `get_value` in direct form -/
def viewAt (d : Delims) (s : Seg) : Res SegView :=
  if s.id = idISA then
    (if s.elems.length = 16 then (valAt d s 12).bind fun c => .ok ⟨s.id, none, c, true⟩
     else .ok ⟨s.id, none, none, false⟩)
  else if s.id = idGS then (valAt d s 5).bind fun c => .ok ⟨s.id, none, c, false⟩
  else if s.id = idST then (valAt d s 1).bind fun c => .ok ⟨s.id, none, c, false⟩
  else if s.id = idHL ∨ s.id = idIEA ∨ s.id = idGE ∨ s.id = idSE then
    (valAt d s 0).bind fun n => (valAt d s 1).bind fun c => .ok ⟨s.id, n, c, false⟩
  else .ok ⟨s.id, none, none, false⟩

theorem viewOf_eq (d : Delims) (s : Seg) : viewOf d s = viewAt d s := by
  unfold viewOf viewAt
  by_cases h1 : s.id = idISA
  · simp only [h1, if_true]
    split
    · have := getVal_eq d s 12 (h1 ▸ wf_ISA)
      rw [h1] at this
      rw [des_ISA13, this]
    · rfl
  · simp only [h1, if_false]
    by_cases h2 : s.id = idGS
    · have := getVal_eq d s 5 (h2 ▸ wf_GS)
      rw [h2] at this
      simp only [h2, if_true, viewCtl, des_GS06, this]
    · simp only [h2, if_false]
      by_cases h3 : s.id = idST
      · have := getVal_eq d s 1 (h3 ▸ wf_ST 1 (by decide))
        rw [h3] at this
        simp only [h3, if_true, viewCtl, des_ST02, this]
      · simp only [h3, if_false]
        by_cases h4 : s.id = idHL
        · have a := getVal_eq d s 0 (h4 ▸ wf_HL 0 (by decide))
          have b := getVal_eq d s 1 (h4 ▸ wf_HL 1 (by decide))
          rw [h4] at a b
          simp only [h4, if_true, viewCntCtl, des_HL01, des_HL02, a, b, true_or]
        · simp only [h4, if_false, false_or]
          by_cases h5 : s.id = idIEA
          · have a := getVal_eq d s 0 (h5 ▸ wf_IEA 0 (by decide))
            have b := getVal_eq d s 1 (h5 ▸ wf_IEA 1 (by decide))
            rw [h5] at a b
            simp only [h5, if_true, viewCntCtl, des_IEA01, des_IEA02, a, b, true_or]
          · simp only [h5, if_false, false_or]
            by_cases h6 : s.id = idGE
            · have a := getVal_eq d s 0 (h6 ▸ wf_GE 0 (by decide))
              have b := getVal_eq d s 1 (h6 ▸ wf_GE 1 (by decide))
              rw [h6] at a b
              simp only [h6, if_true, viewCntCtl, des_GE01, des_GE02, a, b, true_or]
            · simp only [h6, if_false, false_or]
              by_cases h7 : s.id = idSE
              · have a := getVal_eq d s 0 (h7 ▸ wf_SE 0 (by decide))
                have b := getVal_eq d s 1 (h7 ▸ wf_SE 1 (by decide))
                rw [h7] at a b
                simp only [h7, if_true, viewCntCtl, des_SE01, des_SE02, a, b]
              · simp only [h7, if_false]

end Pyx12Verif.Norm
