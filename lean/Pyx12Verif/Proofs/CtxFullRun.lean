/-
`ctxDoc_total_full`, part 6: the whole loop of `ctxDoc`.

Hypothesis on the requested loop id (`LidPer`): in EACH loaded map it names segment-anchored loops only and occurs at most
once on a path (`LidOK`), or names no segment-anchored loop (`NoAnchor`); an id on the envelope path
ISA_LOOP/GS_LOOP/ST_LOOP/HEADER — the only loops an instance of which can span two maps — is of the same kind in all maps.

Two invariants, by cases on `LidB` (the id is anchored nowhere):
  `RInvB`  no tree exists;
  `RInvP`  a tree under construction satisfies `Ctx.TInv` for the loop of the current map node, and the requested id is
           `LidOK` in the map of that node.
Every round either stops with an outcome that is `Safe` (not one of `popMismatch`, `popPastRoot`, `pushOnNone`,
`appendOnNone`, `pushAssert`) or re-establishes the invariant.
-/
import Pyx12Verif.Proofs.CtxFullGlue
import Pyx12Verif.Proofs.CtxDocTotal

namespace Pyx12Verif.Doc
open Pyx12Verif

/-- the requested id names segment-anchored loops only and occurs at most once on a path — in every loaded map -/
def LidA (ms : Maps) (lid : Option Ctx.LoopId) : Prop := ∀ l, lid = some l → ∀ m ∈ ms.maps, CtxWalk.LidOK m.root l

/-- the requested id names no segment-anchored loop of any loaded map -/
def LidB (ms : Maps) (lid : Option Ctx.LoopId) : Prop := ∃ l, lid = some l ∧ ∀ m ∈ ms.maps, CtxWalk.NoAnchor m.root l

/-- map by map: anchored-only (and once on a path) or anchored nowhere; uniformly so for the envelope loops -/
def LidPer (ms : Maps) (lid : Option Ctx.LoopId) : Prop :=
  ∀ l, lid = some l →
    (∀ m ∈ ms.maps, CtxWalk.LidOK m.root l ∨ CtxWalk.NoAnchor m.root l) ∧
    (l ∈ bhtLoopPath ms → (∀ m ∈ ms.maps, CtxWalk.LidOK m.root l) ∨ (∀ m ∈ ms.maps, CtxWalk.NoAnchor m.root l))

theorem lidPer_of_A {ms : Maps} {lid : Option Ctx.LoopId} (h : LidA ms lid) : LidPer ms lid :=
  fun l hl => ⟨fun m hm => Or.inl (h l hl m hm), fun _ => Or.inl (h l hl)⟩

theorem lidPer_of_B {ms : Maps} {lid : Option Ctx.LoopId} (h : LidB ms lid) : LidPer ms lid := by
  obtain ⟨l, hl, hno⟩ := h
  intro l' hl'
  rw [hl] at hl'
  simp only [Option.some.injEq] at hl'
  subst hl'
  exact ⟨fun m hm => Or.inr (hno m hm), fun _ => Or.inr hno⟩

/-- the exits that stay possible -/
def CStop.Safe : CStop → Prop
  | .crash (.reader c) => c = .plainNodeAsLoop ∨ c = .noCurrentNode
  | _ => True

def CLoopEnd.Safe : CLoopEnd → Prop
  | .done _ => True
  | .stopped o _ => o.Safe

def RInvB (ms : Maps) (a : CAcc) : Prop := GInv ms a.st ∧ a.cur = none

def RInvP (ms : Maps) (lid : Option Ctx.LoopId) (a : CAcc) : Prop :=
  GInv ms a.st ∧ (∀ c, a.cur = some c → ∃ l, lid = some l ∧ Ctx.TInv l (Ctx.chainOf c) (Wof a.st)) ∧
    (∀ c l, a.cur = some c → lid = some l → ∃ n, a.st.node = some n ∧ CtxWalk.LidOK n.map.root l)

theorem safe_of_sites {site : CSite}
    (h : site = .reader .plainNodeAsLoop ∨ site = .reader .noCurrentNode ∨ site = .noParent) : (CStop.crash site).Safe := by
  rcases h with h | h | h <;> subst h
  · exact Or.inl rfl
  · exact Or.inr rfl
  · trivial

theorem glue_stop_safe {ms : Maps} {control : MapX} {d : Delims} {k : Nat} {le : List SegText.RErr} {s : Seg} {st : CState}
    (hs : Pipeline.NonEmptyComps s) {o : CStop} (h : cStepSeg ms control d k le s st = .stop o) : o.Safe := by
  have hok := cStepSeg_ok ms control d k le s st hs
  rw [h] at hok
  cases o with
  | crash site =>
    have : site = .nodeNone := hok
    subst this; trivial
  | _ => trivial

/-- **one round, the id is anchored nowhere** -/
theorem cRound_safeB {ms : Maps} (hmg : MapsGood ms) {control : MapX} (hctl : control ∈ ms.maps) (d : Delims)
    (lid : Option Ctx.LoopId) (hlid : LidB ms lid) (k : Nat) (le : List SegText.RErr) (s : Seg)
    (hs : Pipeline.NonEmptyComps s) (a : CAcc) (hinv : RInvB ms a) :
    match cRound lid (a.read s) (cStepSeg ms control d k le s a.st) with
    | .inl e => e.Safe
    | .inr a' => RInvB ms a' := by
  obtain ⟨hG, hcur⟩ := hinv
  have hpost := cStepSeg_post hmg hctl d k le s hG
  cases hstep : cStepSeg ms control d k le s a.st with
  | stop o => simp only [cRound]; exact glue_stop_safe hs hstep
  | next st r =>
    rw [hstep] at hpost
    obtain ⟨hG', ⟨n, hnode, hpath, hfirst, _⟩, hsh⟩ := hpost
    have hn := hG'.1 n hnode
    have hstat := (mapGood_of_bool (hmg n.map hn.1)).static
    simp only [cRound]
    have hc1 : (a.read s).cur = a.cur := rfl
    have hc2 : (a.read s).hasPrev = a.hasPrev := rfl
    rw [hc1, hc2, hcur]
    obtain ⟨l, hl, hno⟩ := hlid
    have hns : Ctx.isStart lid r.ans = false := by
      cases hst : Ctx.isStart lid r.ans with
      | false => rfl
      | true =>
        exfalso
        rw [hl, Ctx.isStart_some', hpath, hfirst, cxPath_eq] at hst
        exact CtxWalk.noAnchor_noStart hstat (hno n.map hn.1) hn.2 hst
    obtain ⟨h1, h2⟩ := Ctx.treeStep_modeB lid a.hasPrev r hns (Ctx.ansShape_pushIn hsh)
    cases hres : (treeStep lid none a.hasPrev r).2 with
    | crash site => simp only [cAfterTree]; exact safe_of_sites (h1 site hres)
    | ok cur' => simp only [cAfterTree]; exact ⟨hG', h2 cur' hres⟩

/-- **one round, the id is anchored somewhere** -/
theorem cRound_safeP {ms : Maps} (hmg : MapsGood ms) {control : MapX} (hctl : control ∈ ms.maps) (d : Delims)
    (lid : Option Ctx.LoopId) (hper : LidPer ms lid) (hnB : ¬ LidB ms lid) (k : Nat) (le : List SegText.RErr) (s : Seg)
    (hs : Pipeline.NonEmptyComps s) (a : CAcc) (hinv : RInvP ms lid a) :
    match cRound lid (a.read s) (cStepSeg ms control d k le s a.st) with
    | .inl e => e.Safe
    | .inr a' => RInvP ms lid a' := by
  obtain ⟨hG, hT, hL⟩ := hinv
  have hpost := cStepSeg_post hmg hctl d k le s hG
  cases hstep : cStepSeg ms control d k le s a.st with
  | stop o => simp only [cRound]; exact glue_stop_safe hs hstep
  | next st r =>
    rw [hstep] at hpost
    obtain ⟨hG', ⟨n, hnode, hpath, hfirst, hsame⟩, hsh⟩ := hpost
    have hn := hG'.1 n hnode
    have hstat := (mapGood_of_bool (hmg n.map hn.1)).static
    have hW' : Wof st = r.ans.path := by simp [Wof, WofN, hnode, hpath]
    simp only [cRound]
    have hc1 : (a.read s).cur = a.cur := rfl
    have hc2 : (a.read s).hasPrev = a.hasPrev := rfl
    rw [hc1, hc2]
    -- the round through `treeStep_modeA`
    have stepA : (∀ l, lid = some l → r.ans.path.count l ≤ 1) →
        (∀ l, lid = some l → CtxWalk.LidOK n.map.root l ∨ l ∉ r.ans.path) →
        (match cAfterTree (a.read s) st r (treeStep lid a.cur a.hasPrev r).1 (treeStep lid a.cur a.hasPrev r).2 with
         | .inl e => e.Safe
         | .inr a' => RInvP ms lid a') := by
      intro hcnt hnew
      have hwrap : ∀ l, lid = some l → a.cur ≠ none → ¬ WrapOld a.st.node l := by
        intro l hl hne
        cases hcur : a.cur with
        | none => exact absurd hcur hne
        | some c =>
          obtain ⟨o, ho, hLo⟩ := hL c l hcur hl
          rintro ⟨o', ho', hw⟩
          rw [ho] at ho'
          simp only [Option.some.injEq] at ho'
          subst ho'
          exact CtxWalk.lidOK_not_wrap hLo hw
      obtain ⟨h1, h2⟩ := Ctx.treeStep_modeA lid a.cur a.hasPrev r (Wof a.st) hsh hT hcnt hwrap
      cases hres : (treeStep lid a.cur a.hasPrev r).2 with
      | crash site => simp only [cAfterTree]; exact safe_of_sites (h1 site hres)
      | ok cur' =>
        simp only [cAfterTree]
        refine ⟨hG', fun c hc => ?_, fun c l hc hl => ?_⟩
        · rw [hW']; exact (h2 cur' c hres hc).2
        · refine ⟨n, hnode, ?_⟩
          rcases hnew l hl with h | h
          · exact h
          · exfalso
            have hin := (h2 cur' c hres hc).1
            rw [hl, Ctx.inReq_some'] at hin
            exact h hin
    cases hlid : lid with
    | none =>
      subst hlid
      exact stepA (fun l hl => by cases hl) (fun l hl => by cases hl)
    | some l =>
      subst hlid
      obtain ⟨hdisj, henv⟩ := hper l rfl
      have caseL : CtxWalk.LidOK n.map.root l →
          (match cAfterTree (a.read s) st r (treeStep (some l) a.cur a.hasPrev r).1 (treeStep (some l) a.cur a.hasPrev r).2 with
           | .inl e => e.Safe
           | .inr a' => RInvP ms (some l) a') := by
        intro hLn
        apply stepA
        · intro l' hl'
          simp only [Option.some.injEq] at hl'
          subst hl'
          rw [hpath, cxPath_eq]
          exact CtxWalk.lidOK_count hstat hLn hn.2
        · intro l' hl'
          simp only [Option.some.injEq] at hl'
          subst hl'
          exact Or.inl hLn
      rcases hdisj n.map hn.1 with hLn | hNn
      · exact caseL hLn
      · cases hcur : a.cur with
        | none =>
          -- no tree: nothing starts in a map where the id is anchored nowhere
          have hns : Ctx.isStart (some l) r.ans = false := by
            cases hst : Ctx.isStart (some l) r.ans with
            | false => rfl
            | true =>
              exfalso
              rw [Ctx.isStart_some', hpath, hfirst, cxPath_eq] at hst
              exact CtxWalk.noAnchor_noStart hstat hNn hn.2 hst
          obtain ⟨h1, h2⟩ := Ctx.treeStep_modeB (some l) a.hasPrev r hns (Ctx.ansShape_pushIn hsh)
          cases hres : (treeStep (some l) none a.hasPrev r).2 with
          | crash site => simp only [cAfterTree]; exact safe_of_sites (h1 site hres)
          | ok cur' =>
            simp only [cAfterTree]
            have hnone := h2 cur' hres
            exact ⟨hG', fun c hc => (by rw [hnone] at hc; cases hc), fun c l' hc _ => (by rw [hnone] at hc; cases hc)⟩
        | some c =>
          rw [← hcur]
          obtain ⟨o, ho, hLo⟩ := hL c l hcur rfl
          rcases hsame with ⟨o', ho', hmap⟩ | henvp
          · -- same map as before
            rw [ho] at ho'
            simp only [Option.some.injEq] at ho'
            subst ho'
            exact caseL (by rw [hmap]; exact hLo)
          · -- ISA, GS or the 278 switch: the new node lies on the envelope path
            by_cases hmem : l ∈ r.ans.path
            · have hmemE : l ∈ bhtLoopPath ms := List.IsPrefix.subset henvp hmem
              rcases henv hmemE with hall | hall
              · exact caseL (hall n.map hn.1)
              · exact absurd ⟨l, rfl, hall⟩ hnB
            · apply stepA
              · intro l' hl'
                simp only [Option.some.injEq] at hl'
                subst hl'
                rw [List.count_eq_zero_of_not_mem hmem]; omega
              · intro l' hl'
                simp only [Option.some.injEq] at hl'
                subst hl'
                exact Or.inr hmem

theorem cRunSegs_safeB {ms : Maps} (hmg : MapsGood ms) {control : MapX} (hctl : control ∈ ms.maps) (d : Delims)
    (lid : Option Ctx.LoopId) (hlid : LidB ms lid) :
    ∀ (ps : List (List SegText.RErr × Seg)) (k : Nat) (a : CAcc), (∀ p ∈ ps, Pipeline.NonEmptyComps p.2) →
      RInvB ms a → (cRunSegs ms control d lid k a ps).Safe := by
  intro ps
  induction ps with
  | nil => intro k a _ _; trivial
  | cons p ps ih =>
    intro k a hps hinv
    have h1 := cRound_safeB hmg hctl d lid hlid k p.1 p.2 (hps p (by simp)) a hinv
    simp only [cRunSegs]
    cases hr : cRound lid (a.read p.2) (cStepSeg ms control d k p.1 p.2 a.st) with
    | inl e => rw [hr] at h1; exact h1
    | inr a' =>
      rw [hr] at h1
      exact ih _ _ (fun q hq => hps q (List.mem_cons_of_mem _ hq)) h1

theorem cRunSegs_safeP {ms : Maps} (hmg : MapsGood ms) {control : MapX} (hctl : control ∈ ms.maps) (d : Delims)
    (lid : Option Ctx.LoopId) (hper : LidPer ms lid) (hnB : ¬ LidB ms lid) :
    ∀ (ps : List (List SegText.RErr × Seg)) (k : Nat) (a : CAcc), (∀ p ∈ ps, Pipeline.NonEmptyComps p.2) →
      RInvP ms lid a → (cRunSegs ms control d lid k a ps).Safe := by
  intro ps
  induction ps with
  | nil => intro k a _ _; trivial
  | cons p ps ih =>
    intro k a hps hinv
    have h1 := cRound_safeP hmg hctl d lid hper hnB k p.1 p.2 (hps p (by simp)) a hinv
    simp only [cRunSegs]
    cases hr : cRound lid (a.read p.2) (cStepSeg ms control d k p.1 p.2 a.st) with
    | inl e => rw [hr] at h1; exact h1
    | inr a' =>
      rw [hr] at h1
      exact ih _ _ (fun q hq => hps q (List.mem_cons_of_mem _ hq)) h1

/-- the glue state when the loop starts: the node is the control map's `/ISA_LOOP/ISA` (or None) -/
theorem ginv_init {ms : Maps} (hmg : MapsGood ms) {control : MapX} (hctl : control ∈ ms.maps) :
    GInv ms (cInitAcc ms control).st := by
  refine ⟨?_, ?_⟩
  · intro n hn
    have hf : fetchIn ms control (isaPath ms) = some n := hn
    obtain ⟨hmap, hseg, _, _⟩ := pinOK_spec (mapGood_of_bool (hmg control hctl)).isa hf
    exact ⟨by rw [hmap]; exact hctl, by rw [hmap]; exact hseg⟩
  · intro m hm; cases hm

/-- **the loop of `ctxDoc`** -/
theorem cRunSegs_safe {ms : Maps} (hmg : MapsGood ms) {control : MapX} (hctl : control ∈ ms.maps) (d : Delims)
    (lid : Option Ctx.LoopId) (hper : LidPer ms lid) (ps : List (List SegText.RErr × Seg))
    (hps : ∀ p ∈ ps, Pipeline.NonEmptyComps p.2) :
    (cRunSegs ms control d lid 0 (cInitAcc ms control) ps).Safe := by
  by_cases hB : LidB ms lid
  · exact cRunSegs_safeB hmg hctl d lid hB ps 0 _ hps ⟨ginv_init hmg hctl, rfl⟩
  · exact cRunSegs_safeP hmg hctl d lid hper hB ps 0 _ hps
      ⟨ginv_init hmg hctl, fun c hc => (by cases hc), fun c l hc _ => (by cases hc)⟩

theorem cFinish_safe (lid : Option Ctx.LoopId) (rr : SegText.ReadResult) (hcr : rr.crashed = false) (e : CLoopEnd)
    (he : e.Safe) : (cFinish lid rr e).stop.Safe := by
  cases e with
  | stopped o a => exact he
  | done a => simp only [cFinish, hcr, Bool.false_eq_true, if_false, outcomeOf]; trivial

/-! ### the hypotheses as Booleans (evaluated by the driver ops XGOOD / XLID) -/

def mapsGoodB (ms : Maps) : Bool := ms.maps.all (mapGoodB ms)

theorem mapsGood_of_bool {ms : Maps} (h : mapsGoodB ms = true) : MapsGood ms :=
  fun m hm => List.all_eq_true.1 h m hm

/-- the requested loop id is admissible (`LidPer`): none; or, map by map, anchored-only and at most once on a path, or
    anchored nowhere — and of one kind in all maps when it is ISA_LOOP, GS_LOOP, ST_LOOP or HEADER -/
def lidGoodB (ms : Maps) : Option Ctx.LoopId → Bool
  | none => true
  | some l =>
    ms.maps.all (fun m => CtxWalk.lidOKb m.root l || CtxWalk.noAnchorB m.root l) &&
      (!(bhtLoopPath ms).contains l || ms.maps.all (fun m => CtxWalk.lidOKb m.root l) ||
        ms.maps.all (fun m => CtxWalk.noAnchorB m.root l))

theorem lid_of_bool {ms : Maps} : ∀ {lid : Option Ctx.LoopId}, lidGoodB ms lid = true → LidPer ms lid
  | none, _ => fun l hl => by cases hl
  | some l, h => by
    simp only [lidGoodB, Bool.and_eq_true, Bool.or_eq_true, Bool.not_eq_true'] at h
    intro l' hl'
    simp only [Option.some.injEq] at hl'
    subst hl'
    refine ⟨fun m hm => ?_, fun hmem => ?_⟩
    · have := List.all_eq_true.1 h.1 m hm
      simp only [Bool.or_eq_true] at this
      rcases this with h1 | h1
      · exact Or.inl (CtxWalk.lidOK_of_bool h1)
      · exact Or.inr (CtxWalk.noAnchor_of_bool h1)
    · rcases h.2 with (h2 | h2) | h2
      · rw [List.contains_eq_mem] at h2
        simp only [decide_eq_false_iff_not] at h2
        exact absurd hmem h2
      · exact Or.inl (fun m hm => CtxWalk.lidOK_of_bool (List.all_eq_true.1 h2 m hm))
      · exact Or.inr (fun m hm => CtxWalk.noAnchor_of_bool (List.all_eq_true.1 h2 m hm))

/-- the maps that pass the checks -/
def goodPart (ms : Maps) : Maps := { ms with maps := ms.maps.filter (mapGoodB ms) }

theorem mapsGood_goodPart (ms : Maps) : MapsGood (goodPart ms) := by
  intro m hm
  have := (List.mem_filter.1 hm).2
  exact this

end Pyx12Verif.Doc
