/-
C03 run level, generalised simulation invariant (fork of Proofs/WalkerInv.lean, part "the invariant"):
a child *before* the path child of an open loop instance may be outstanding (required, never seen) provided it is a
segment positioned strictly before the path child — the walker then skips it by position.  This is the state after
a missing mandatory segment has been reported.  Everything else is as in the C02 development.
-/
import Pyx12Verif.Proofs.C03RunOver

namespace Pyx12Verif.WalkerGenW
open Pyx12Verif.MapSkel Pyx12Verif.Walker Pyx12Verif.WalkerGen

/-! ### the invariant -/

/-- counters of the children of one open loop instance (`lkey` its key, `i` the child the current node is in) -/
structure LevelInv (cnt : Counter) (lkey : PathKey) (ch : List Node) (i : Nat) : Prop where
  idx : ∃ c, ch[i]? = some c
  later : ∀ (j : Nat) (c : Node), i < j → ch[j]? = some c → ZeroUnder cnt (lkey ++ [c.comp])
  earlier : ∀ (j : Nat) (c : Node), j < i → ch[j]? = some c → satisfied cnt (lkey ++ [c.comp]) c = true ∨
    (c.isSeg = true ∧ ∀ ci, ch[i]? = some ci → c.pos < ci.pos)
  here : ∀ c, ch[i]? = some c → counted c = true → 1 ≤ cnt.get (lkey ++ [c.comp])

structure Inv (root : List Node) (cnt : Counter) (cur : List Nat) : Prop where
  seg : ∃ n, nodeAt root cur = some n ∧ n.isSeg = true
  lev : ∀ p i, p ++ [i] <+: cur → ∃ ch, chAt root p = some ch ∧ LevelInv cnt (keyAt root p) ch i

theorem Inv.ofGen {root : List Node} {cnt : Counter} {cur : List Nat} (h : Pyx12Verif.WalkerGen.Inv root cnt cur) :
    Inv root cnt cur := by
  refine ⟨h.seg, ?_⟩
  intro p i hp
  obtain ⟨ch, hch, hl⟩ := h.lev p i hp
  exact ⟨ch, hch, hl.idx, hl.later, fun j c hj hc => Or.inl (hl.earlier j c hj hc), hl.here⟩

theorem Inv.cur_ne_nil {root : List Node} {cnt : Counter} {cur : List Nat} (h : Inv root cnt cur) : cur ≠ [] := by
  obtain ⟨n, hn, _⟩ := h.seg
  intro e; subst e; simp [nodeAt] at hn

/-- the path child of every level satisfies its own requirement, provided the deeper levels are complete -/
theorem path_sat {root : List Node} {cnt : Counter} {cur : List Nat} (hinv : Inv root cnt cur) :
    ∀ (n : Nat) (p : List Nat) (i : Nat), p ++ [i] <+: cur → cur.length = p.length + 1 + n →
      (∀ p' i', p ++ [i] <+: p' → p' ++ [i'] <+: cur → Complete root cnt p' i') →
      ∀ ch c, chAt root p = some ch → ch[i]? = some c → satisfied cnt (keyAt root p ++ [c.comp]) c = true := by
  intro n
  induction n with
  | zero =>
    intro p i hp hlen _ ch c hch hc
    have hcur : p ++ [i] = cur := prefix_eq_of_length hp (by simp; omega)
    obtain ⟨nd, hnd, hseg⟩ := hinv.seg
    rw [← hcur, nodeAt_snoc hch, hc] at hnd
    simp only [Option.some.injEq] at hnd; subst hnd
    obtain ⟨ch', hch', hl⟩ := hinv.lev p i hp
    rw [hch] at hch'; simp only [Option.some.injEq] at hch'; subst hch'
    cases c with
    | loop => simp [Node.isSeg] at hseg
    | seg a b c d e f g =>
      have := hl.here _ hc rfl
      simp only [satisfied, Bool.or_eq_true, bne_iff_ne, decide_eq_true_eq]
      right; exact this
  | succ n ih =>
    intro p i hp hlen hcomp ch c hch hc
    have hne : p ++ [i] ≠ cur := by intro e; rw [← e] at hlen; simp at hlen
    obtain ⟨i', hi'⟩ := prefix_extend hp hne
    obtain ⟨sub, hsub, hl'⟩ := hinv.lev (p ++ [i]) i' hi'
    obtain ⟨ch', lid, pos, u, r, w, hch', hci, _⟩ := nodeAt_of_chAt hsub
    rw [hch] at hch'; simp only [Option.some.injEq] at hch'; subst hch'
    rw [hc] at hci; simp only [Option.some.injEq] at hci; subst hci
    obtain ⟨ch0, hch0, hl⟩ := hinv.lev p i hp
    rw [hch] at hch0; simp only [Option.some.injEq] at hch0; subst hch0
    obtain ⟨c', hc'⟩ := hl'.idx
    have hkey : keyAt root (p ++ [i]) = keyAt root p ++ [(Node.loop lid pos u r w sub).comp] := keyAt_snoc hch hc
    cases sub with
    | nil => simp at hc'
    | cons first rest =>
      cases first with
      | seg a b c d e f g =>
        have := hl.here _ hc (by simp [counted, firstIsSeg, Node.isSeg])
        simp only [satisfied, satHead, Bool.or_eq_true, bne_iff_ne, decide_eq_true_eq]
        right; exact this
      | loop a b c d e f =>
        simp only [satisfied, satHead]
        apply satLoops_of_forall
        intro j cj hcj hcs
        rw [← hkey]
        rcases Nat.lt_trichotomy j i' with hlt | heq | hgt
        · rcases hl'.earlier j cj hlt hcj with hs | ⟨hs, _⟩
          · exact hs
          · rw [hcs] at hs; cases hs
        · subst heq
          exact ih (p ++ [i]) j hi' (by simp at hlen ⊢; omega)
            (fun p' i'' h1 h2 => hcomp p' i'' (List.IsPrefix.trans (List.prefix_append _ _) h1) h2) _ cj hsub hcj
        · exact hcomp (p ++ [i]) i' (List.prefix_refl _) hi' _ hsub j cj hgt hcj

/-- every child of a complete level is satisfied -/
theorem level_all_sat {root : List Node} {cnt : Counter} {cur : List Nat} (hinv : Inv root cnt cur)
    {p : List Nat} {i : Nat} (hp : p ++ [i] <+: cur)
    (hcomp : ∀ p' i', p ++ [i] <+: p' → p' ++ [i'] <+: cur → Complete root cnt p' i')
    (hc0 : Complete root cnt p i) {ch : List Node} (hch : chAt root p = some ch) {j : Nat} {c : Node} (hc : ch[j]? = some c) :
    satisfied cnt (keyAt root p ++ [c.comp]) c = true ∨ c.pos < posAt root (p ++ [i]) := by
  obtain ⟨ch0, hch0, hl⟩ := hinv.lev p i hp
  rw [hch] at hch0; simp only [Option.some.injEq] at hch0; subst hch0
  rcases Nat.lt_trichotomy j i with hlt | heq | hgt
  · rcases hl.earlier j c hlt hc with hs | ⟨_, hpos⟩
    · exact Or.inl hs
    · right
      obtain ⟨ci, hci⟩ := hl.idx
      simp only [posAt, nodeAt_snoc hch, hci]
      exact hpos ci hci
  · subst heq
    have hlen : (p ++ [j]).length ≤ cur.length := List.IsPrefix.length_le hp
    exact Or.inl (path_sat hinv (cur.length - (p.length + 1)) p j hp (by simp at hlen; omega) hcomp _ c hch hc)
  · exact Or.inl (hc0 _ hch j c hgt hc)

/-! ### leaving complete levels -/

/-- all levels strictly between `P` and the level of `p` (inclusive `p`) are passed without effect: the walk
    continues at `P` with the same state -/
theorem walkUp_pop {K : Consts} {root : List Node} {rootId : Nat} {s : SegData} {origLoop : NodeId} {orig : List Nat}
    {cnt : Counter} {cur : List Nat} (hinv : Inv root cnt cur) (st : WState) (hst : st.cnt = cnt) (P : List Nat) :
    ∀ (n : Nat) (p : List Nat) (i : Nat), P <+: p → p.length = P.length + n → p ++ [i] <+: cur →
      (∀ p' i' ch', P <+: p' → p' ≠ P → p' ++ [i'] <+: p ++ [i] → chAt root p' = some ch' →
        ∀ c ∈ ch', Passes K s cnt (keyAt root p') (posAt root (p' ++ [i'])) c) →
      ∀ pops, ∃ iP pops', P ++ [iP] <+: cur ∧
        walkUp K root rootId s origLoop orig p.reverse (posAt root (p ++ [i])) pops st =
        walkUp K root rootId s origLoop orig P.reverse (posAt root (P ++ [iP])) pops' st := by
  intro n
  induction n with
  | zero =>
    intro p i hPp hlen hp _ pops
    have : P = p := prefix_eq_of_length hPp (by omega)
    subst this
    exact ⟨i, pops, hp, rfl⟩
  | succ n ih =>
    intro p i hPp hlen hp hdead pops
    have hpne : p ≠ [] := by intro e; subst e; simp at hlen
    obtain ⟨p0, a, rfl⟩ : ∃ p0 a, p = p0 ++ [a] := ⟨p.dropLast, p.getLast hpne, (List.dropLast_concat_getLast hpne).symm⟩
    obtain ⟨ch', hch', _⟩ := hinv.lev (p0 ++ [a]) i hp
    obtain ⟨ln, nid, hln, hlnch, _, hw⟩ := walkUp_level (K := K) (rootId := rootId) (s := s) (origLoop := origLoop)
      (orig := orig) hch' (posAt root (p0 ++ [a] ++ [i])) pops st
    have hPne : p0 ++ [a] ≠ P := by intro e; rw [e] at hlen; omega
    have hpass : ∀ c ∈ ch', Passes K s st.cnt (keyAt root (p0 ++ [a])) (posAt root (p0 ++ [a] ++ [i])) c := by
      intro c hc
      rw [hst]
      exact hdead (p0 ++ [a]) i ch' hPp hPne (List.prefix_refl _) hch' c hc
    rw [hw, scan_all_pass _ _ _ _ _ _ _ _ _ _ hpass]
    simp only
    have hP0 : P <+: p0 := by
      rcases prefix_snoc_cases hPp with h | h
      · exact h
      · exact absurd h.symm hPne
    have hp0 : p0 ++ [a] <+: cur := List.IsPrefix.trans (List.prefix_append _ _) hp
    exact ih p0 a hP0 (by simp at hlen; omega) hp0
      (fun p' i' ch'' h1 h2 h3 h4 => hdead p' i' ch'' h1 h2 (List.IsPrefix.trans h3 (List.prefix_append _ _)) h4) _

theorem walk_unfold {K : Consts} {root : List Node} {rootId : Nat} {cnt : Counter} {cur : List Nat}
    (hinv : Inv root cnt cur) (s : SegData) :
    ∃ oL i0, cur = cur.dropLast ++ [i0] ∧
      walk K root rootId cnt cur s =
        walkUp K root rootId s oL cur cur.dropLast.reverse (posAt root (cur.dropLast ++ [i0])) []
          { cnt := cnt, pending := [], errs := [] } := by
  obtain ⟨n, hn, _⟩ := hinv.seg
  have hne := hinv.cur_ne_nil
  refine ⟨(idAt root cur.dropLast, idAt root cur.dropLast.dropLast), cur.getLast hne,
    (List.dropLast_concat_getLast hne).symm, ?_⟩
  rw [List.dropLast_concat_getLast hne]
  simp only [walk, hn, posAt]

/-- two prefixes of one list: the shorter is a prefix of the longer -/
theorem prefix_of_longer {α : Type} {a b cur : List α} (ha : a <+: cur) (hb : b <+: cur) (hl : a.length ≤ b.length) :
    a <+: b := List.prefix_of_prefix_length_le ha hb hl

theorem path_idx_unique {cur p : List Nat} {i i' : Nat} (h1 : p ++ [i] <+: cur) (h2 : p ++ [i'] <+: cur) : i = i' :=
  prefix_snoc_inj h1 h2

/-- the walk leaves the complete levels below `P` and scans the children of `P` up to child `j` without effect -/
theorem reach_level {K : Consts} {root : List Node} {rootId : Nat} {s : SegData} {cnt : Counter} {cur : List Nat}
    (hinv : Inv root cnt cur) {P : List Nat} {iP : Nat} (hP : P ++ [iP] <+: cur)
    (hdead : ∀ p' i' ch', P <+: p' → p' ≠ P → p' ++ [i'] <+: cur → chAt root p' = some ch' →
      ∀ c ∈ ch', Passes K s cnt (keyAt root p') (posAt root (p' ++ [i'])) c)
    {ch : List Node} (hch : chAt root P = some ch) {j : Nat} {c : Node} (hc : ch[j]? = some c)
    (hpre : ∀ (j' : Nat) (c' : Node), j' < j → ch[j']? = some c' →
      Passes K s cnt (keyAt root P) (posAt root (P ++ [iP])) c') :
    ∃ loopNode nid oL pops,
      (P = [] ∧ loopNode = none ∨
        ∃ P0 a ln, P = P0 ++ [a] ∧ loopNode = some ln ∧ nodeAt root P = some ln ∧ ln.children = ch ∧ ln.isSeg = false) ∧
      ∀ r, scanChildren K s P (keyAt root P) loopNode nid oL (posAt root (P ++ [iP])) pops j
          { cnt := cnt, pending := [], errs := [] } (c :: ch.drop (j + 1)) = .found r →
        walk K root rootId cnt cur s = r := by
  obtain ⟨oL, i0, hcur, hwalk⟩ := walk_unfold (K := K) (rootId := rootId) hinv s
  have hcd : cur.dropLast ++ [i0] <+: cur := by rw [← hcur]; exact List.prefix_refl _
  have hPcd : P <+: cur.dropLast := by
    have h1 : P <+: cur := List.IsPrefix.trans (List.prefix_append _ _) hP
    have hlen : (P ++ [iP]).length ≤ cur.length := List.IsPrefix.length_le hP
    have h2 : cur.dropLast <+: cur := List.dropLast_prefix cur
    exact prefix_of_longer h1 h2 (by simp at hlen ⊢; omega)
  obtain ⟨iP', pops', hP', hpop⟩ := walkUp_pop (K := K) (rootId := rootId) (s := s) (origLoop := oL) (orig := cur)
    hinv { cnt := cnt, pending := [], errs := [] } rfl P (cur.dropLast.length - P.length) cur.dropLast i0 hPcd
    (by have := List.IsPrefix.length_le hPcd; omega) hcd
    (fun p' i' ch' h1 h2 h3 h4 => hdead p' i' ch' h1 h2 (List.IsPrefix.trans h3 hcd) h4) []
  have hiP : iP' = iP := path_idx_unique hP' hP
  subst hiP
  have hsplit : ch = ch.take j ++ c :: ch.drop (j + 1) := by
    have hj : j < ch.length := by
      rcases Nat.lt_or_ge j ch.length with h | h
      · exact h
      · rw [List.getElem?_eq_none h] at hc; cases hc
    have : ch[j] = c := by rw [List.getElem?_eq_getElem hj] at hc; simpa using hc
    rw [← this]; simp
  have hlen : (ch.take j).length = j := by
    have hj : j < ch.length := by
      rcases Nat.lt_or_ge j ch.length with h | h
      · exact h
      · rw [List.getElem?_eq_none h] at hc; cases hc
    simp; omega
  have hpass : ∀ c' ∈ ch.take j, Passes K s cnt (keyAt root P) (posAt root (P ++ [iP'])) c' := by
    intro c' hc'
    obtain ⟨j', hj'⟩ := List.mem_iff_getElem?.mp hc'
    rw [List.getElem?_take] at hj'
    split at hj'
    · rename_i hlt; exact hpre j' c' hlt hj'
    · cases hj'
  rcases List.eq_nil_or_concat P with hnil | ⟨P0, a, hPa⟩
  · subst hnil
    refine ⟨none, (rootId, 0), oL, pops', Or.inl ⟨rfl, rfl⟩, ?_⟩
    intro r hr
    rw [hwalk, hpop]
    simp only [List.reverse_nil]
    rw [walkUp_root]
    simp only [chAt, Option.some.injEq] at hch
    subst hch
    have hk : keyAt root [] = [] := by simp [keyAt]
    rw [hk] at hr hpass
    have hsk := scan_skips_nonmatching (K := K) (s := s) [] [] none (rootId, 0) oL (posAt root ([] ++ [iP'])) pops'
      { cnt := cnt, pending := [], errs := [] } (root.take j) (c :: root.drop (j + 1)) 0 hpass
    rw [← hsplit, hlen, Nat.zero_add] at hsk
    rw [hsk, hr]
  · rw [List.concat_eq_append] at hPa
    subst hPa
    obtain ⟨ln, nid, hln, hlnch, hlnseg, hw⟩ := walkUp_level (K := K) (rootId := rootId) (s := s) (origLoop := oL)
      (orig := cur) hch (posAt root (P0 ++ [a] ++ [iP'])) pops' { cnt := cnt, pending := [], errs := [] }
    refine ⟨some ln, nid, oL, pops', Or.inr ⟨P0, a, ln, rfl, rfl, hln, hlnch, hlnseg⟩, ?_⟩
    intro r hr
    rw [hwalk, hpop, hw]
    have hsk := scan_skips_nonmatching (K := K) (s := s) (P0 ++ [a]) (keyAt root (P0 ++ [a])) (some ln) nid oL
      (posAt root (P0 ++ [a] ++ [iP'])) pops' { cnt := cnt, pending := [], errs := [] } (ch.take j)
      (c :: ch.drop (j + 1)) 0 hpass
    rw [← hsplit, hlen, Nat.zero_add] at hsk
    rw [hsk, hr]

end Pyx12Verif.WalkerGenW
