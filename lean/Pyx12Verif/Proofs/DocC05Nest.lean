/-
C05 at pipeline level, document side (4): rounds over PROPERLY NESTED segments (`Envelope.nestStep`, the recogniser of
C04): the reader's stack of open envelopes follows the nesting level, so `get_gs_id` / `get_st_id` return the control
number of the GS / ST segment just read and the set counter counts the ST segments since the GS (`round_nested`); the
events of such rounds, split at the structural calls.
-/
import Pyx12Verif.Proofs.DocC05Run
import Pyx12Verif.Proofs.DocC05Reader
import Pyx12Verif.Props.DocTotal2

namespace Pyx12Verif.Doc
open Pyx12Verif DocC05

/-! ### the reader's view -/

theorem viewD_of {d : Delims} {s : Seg} {v : Envelope.SegView} (h : Pipeline.viewOf d s = some v) : viewD d s = v := by
  simp [viewD, h]

theorem viewD_id (d : Delims) (s : Seg) : (viewD d s).id = s.id := by
  unfold viewD
  cases h : Pipeline.viewOf d s with
  | none => rfl
  | some v => exact viewOf_sid h

theorem viewOf_ctl {d : Delims} {s : Seg} {v : Envelope.SegView} (h : Pipeline.viewOf d s = some v) (k : Nat)
    (hk : Pipeline.ctlIdx s.id = some k) : v.ctl = gv d s k := by
  unfold Pipeline.viewOf at h
  cases h1 : Pipeline.fetch d s (Pipeline.cntIdx s.id) with
  | crash => rw [h1] at h; cases h
  | got c =>
    cases h2 : Pipeline.fetch d s (Pipeline.ctlIdx s.id) with
    | crash => rw [h1, h2] at h; cases h
    | got k' =>
      rw [h1, h2] at h
      simp only [Pipeline.mkView, Pipeline.mkView2, Option.some.injEq] at h
      rw [hk] at h2
      simp only [Pipeline.fetch] at h2
      unfold gv
      rw [← h]
      cases hg : Pipeline.getValue d s k with
      | crash => rw [hg] at h2; cases h2
      | absent => rw [hg] at h2; simp only [Pipeline.fetchOf, Pipeline.Fetch.got.injEq] at h2; rw [← h2]; rfl
      | value x => rw [hg] at h2; simp only [Pipeline.fetchOf, Pipeline.Fetch.got.injEq] at h2; rw [← h2]; rfl

theorem ctlIdx_gs : Pipeline.ctlIdx Envelope.idGS = some 5 := by decide
theorem ctlIdx_st : Pipeline.ctlIdx Envelope.idST = some 1 := by decide

/-! ### `get_gs_id` / `get_st_id` -/

theorem find?_append_none {α : Type} (p : α → Bool) (a b : List α) (h : ∀ x ∈ a, p x = false) :
    (a ++ b).find? p = b.find? p := by
  induction a with
  | nil => rfl
  | cons x r ih =>
    simp only [List.cons_append, List.find?_cons, h x (by simp)]
    exact ih (fun y hy => h y (by simp [hy]))

theorem loopId_top (k : Envelope.Kind) (rs : Envelope.RState) (c : Option Str) (L : List (Envelope.Kind × Option Str))
    (hl : rs.loops = (k, c) :: L) (hn : ∀ p ∈ L, p.1 ≠ k) : loopId k rs = c := by
  unfold loopId
  rw [hl, List.reverse_cons, find?_append_none _ _ _ (by
    intro x hx
    have := hn x (by simpa using hx)
    simp [this])]
  simp

theorem nest_gs {l l1 : Envelope.Level} {v : Envelope.SegView} (h : Envelope.nestStep l v = some l1)
    (hid : v.id = Envelope.idGS) : l = .inIsa := by
  cases l <;> simp [Envelope.nestStep, hid, Envelope.idGS, Envelope.idISA, Envelope.idST, Envelope.idGE, Envelope.idSE,
    Envelope.isEnvId, Envelope.idIEA] at h ⊢

theorem nest_st {l l1 : Envelope.Level} {v : Envelope.SegView} (h : Envelope.nestStep l v = some l1)
    (hid : v.id = Envelope.idST) : l = .inGs := by
  cases l <;> simp [Envelope.nestStep, hid, Envelope.idGS, Envelope.idISA, Envelope.idST, Envelope.idGE, Envelope.idSE,
    Envelope.isEnvId, Envelope.idIEA] at h ⊢

/-! ### one round at a nesting level -/

/-- a matched round, with what the reader knows -/
def MatchedAt (d : Delims) (s : Seg) (st1 : LState) (o : SegOut) : Prop :=
  ∃ w mid tl pops rs', o.events = w ++ mid ++ tl ∧ WalkOnly w ∧ EleOnly tl ∧ RdOnly pops ∧ MidX d s rs' pops mid ∧
    rs'.stCount = st1.rs.stCount ∧ (s.id = Envelope.idGS → loopId .gs rs' = gv d s 5) ∧
    (s.id = Envelope.idST → loopId .st rs' = gv d s 1)

theorem round_nested (ms : Maps) (ctx : Ctx) (control : MapX) (d : Delims) (le : List SegText.RErr) (s : Seg)
    (st st1 : LState) (o : SegOut) (l l1 : Envelope.Level)
    (hs : stepSeg ms ctx control d le s st = .next st1 o) (hl : Envelope.LoopsAt l st.rs)
    (hn : Envelope.nestStep l (viewD d s) = some l1) :
    Envelope.LoopsAt l1 st1.rs ∧ o.sid = s.id ∧
      (s.id = Envelope.idGS → st1.rs.stCount = 0) ∧ (s.id = Envelope.idST → st1.rs.stCount = st.rs.stCount + 1) ∧
      (s.id ≠ Envelope.idGS → s.id ≠ Envelope.idST → st1.rs.stCount = st.rs.stCount) ∧
      ((o.matched = false ∧ WalkOnly o.events) ∨ (o.matched = true ∧ MatchedAt d s st1 o)) := by
  obtain ⟨v, rs', es, hview, hstep, ⟨c, hrs⟩, hsid, _, hcase⟩ := stepSeg_full ms ctx control d le s st st1 o hs
  rw [viewD_of hview] at hn
  have hvid : v.id = s.id := viewOf_sid hview
  obtain ⟨n1, n2, n3, n4⟩ := Envelope.step_nested l l1 st.rs rs' v es hstep hn hl
  have hcnt : st1.rs.stCount = rs'.stCount := by rw [hrs]
  have hloops : st1.rs.loops = rs'.loops := by rw [hrs]
  refine ⟨?_, hsid, ?_, ?_, ?_, ?_⟩
  · unfold Envelope.LoopsAt at n1 ⊢; rw [hloops]; exact n1
  · intro hid; rw [hcnt]; exact (n2 (hvid.trans hid)).2
  · intro hid; rw [hcnt]; exact (n3 (hvid.trans hid)).2
  · intro h1 h2; rw [hcnt]; exact n4 (fun e => h1 (hvid.symm.trans e)) (fun e => h2 (hvid.symm.trans e))
  · rcases hcase with ⟨hm, hw, _, _⟩ | ⟨hm, w, mid, tl, vv, n, sd, hev, hw, hmid, _, hse, _, _, _⟩
    · exact Or.inl ⟨hm, hw⟩
    · have he := segEvents_eleOnly ctx n.map.v5010 d sd s
      rw [hse] at he
      refine Or.inr ⟨hm, w, mid, tl, _, rs', hev, hw, he, map_rdEvent_rdOnly _, hmid, hcnt.symm, ?_, ?_⟩
      · intro hid
        have hv := hvid.trans hid
        have hlv := nest_gs hn hv
        subst hlv
        obtain ⟨a, _⟩ := n2 hv
        rw [← viewOf_ctl hview 5 (by rw [hid]; exact ctlIdx_gs)]
        apply loopId_top _ _ _ _ a
        intro p hp
        have : p.1 ∈ st.rs.loops.map (fun q => q.1) := List.mem_map_of_mem hp
        rw [hl] at this
        simp only [Envelope.kinds, List.mem_singleton] at this
        rw [this]; decide
      · intro hid
        have hv := hvid.trans hid
        have hlv := nest_st hn hv
        subst hlv
        obtain ⟨a, _⟩ := n3 hv
        rw [← viewOf_ctl hview 1 (by rw [hid]; exact ctlIdx_st)]
        apply loopId_top _ _ _ _ a
        intro p hp
        have : p.1 ∈ st.rs.loops.map (fun q => q.1) := List.mem_map_of_mem hp
        rw [hl] at this
        simp only [Envelope.kinds, List.mem_cons, List.mem_nil_iff, or_false] at this
        rcases this with h | h <;> rw [h] <;> decide

/-! ### traces -/

theorem Trace.split {ms : Maps} {ctx : Ctx} {control : MapX} {d : Delims} :
    ∀ (A B : List (List SegText.RErr × Seg)) (st st' : LState) (outs : List SegOut),
      Trace ms ctx control d st (A ++ B) outs st' →
      ∃ st1 oA oB, outs = oA ++ oB ∧ oA.length = A.length ∧ Trace ms ctx control d st A oA st1 ∧
        Trace ms ctx control d st1 B oB st' := by
  intro A
  induction A with
  | nil => intro B st st' outs h; exact ⟨st, [], outs, rfl, rfl, .nil _, h⟩
  | cons p A ih =>
    intro B st st' outs h
    cases h with
    | cons _ st1 _ _ _ o outs' hs ht =>
      obtain ⟨st2, oA, oB, e1, e2, e3, e4⟩ := ih B st1 st' outs' ht
      exact ⟨st2, o :: oA, oB, by rw [e1]; rfl, by simp [e2], .cons _ _ _ _ _ _ _ hs e3, e4⟩

theorem Trace.length {ms : Maps} {ctx : Ctx} {control : MapX} {d : Delims} {st st' : LState}
    {ps : List (List SegText.RErr × Seg)} {outs : List SegOut} (h : Trace ms ctx control d st ps outs st') :
    outs.length = ps.length := by
  induction h with
  | nil => rfl
  | cons _ _ _ _ _ _ _ _ _ ih => simp [ih]

def views (d : Delims) (ps : List (List SegText.RErr × Seg)) : List Envelope.SegView := ps.map (fun p => viewD d p.2)

/-- the nesting level after a list of views -/
def levelAfter : Envelope.Level → List Envelope.SegView → Option Envelope.Level
  | l, [] => some l
  | l, v :: r =>
    match Envelope.nestStep l v with
    | none => none
    | some l' => levelAfter l' r

theorem nested_append (l : Envelope.Level) (A B : List Envelope.SegView) (h : Envelope.nestedFrom l (A ++ B) = true) :
    ∃ l1, levelAfter l A = some l1 ∧ Envelope.nestedFrom l1 B = true := by
  induction A generalizing l with
  | nil => exact ⟨l, rfl, h⟩
  | cons v r ih =>
    simp only [List.cons_append, Envelope.nestedFrom] at h
    cases hn : Envelope.nestStep l v with
    | none => rw [hn] at h; cases h
    | some l' =>
      rw [hn] at h
      obtain ⟨l1, e1, e2⟩ := ih l' h
      exact ⟨l1, by simp [levelAfter, hn, e1], e2⟩

theorem nested_cons {l : Envelope.Level} {v : Envelope.SegView} {r : List Envelope.SegView}
    (h : Envelope.nestedFrom l (v :: r) = true) : ∃ l1, Envelope.nestStep l v = some l1 ∧ Envelope.nestedFrom l1 r = true := by
  simp only [Envelope.nestedFrom] at h
  cases hn : Envelope.nestStep l v with
  | none => rw [hn] at h; cases h
  | some l' => rw [hn] at h; exact ⟨l', rfl, h⟩

/-- every round of a header / trailer segment found its map node -/
def EnvMatched (outs : List SegOut) : Prop := ∀ o ∈ outs, Envelope.isEnvId o.sid = true → o.matched = true

theorem Trace.loopsAt {ms : Maps} {ctx : Ctx} {control : MapX} {d : Delims} {st st' : LState}
    {ps : List (List SegText.RErr × Seg)} {outs : List SegOut} (h : Trace ms ctx control d st ps outs st')
    (l l1 : Envelope.Level) (hl : Envelope.LoopsAt l st.rs) (hn : levelAfter l (views d ps) = some l1) :
    Envelope.LoopsAt l1 st'.rs := by
  induction h generalizing l with
  | nil st => simp only [views, List.map_nil, levelAfter, Option.some.injEq] at hn; subst hn; exact hl
  | cons st st1 st2 p ps o outs hs _ ih =>
    simp only [views, List.map_cons, levelAfter] at hn
    cases hs1 : Envelope.nestStep l (viewD d p.2) with
    | none => rw [hs1] at hn; cases hn
    | some l' =>
      rw [hs1] at hn
      exact ih l' (round_nested ms ctx control d p.1 p.2 st st1 o l l' hs hl hs1).1 hn

end Pyx12Verif.Doc
