/-
C02 helper lemmas, part 3: what `WFMap` and `Unambiguous` give at the loop reached by an index path.
-/
import Pyx12Verif.Proofs.WalkerBasic

namespace Pyx12Verif.WalkerGen
open Pyx12Verif.MapSkel Pyx12Verif.Walker

/-! ### well-formedness at a path -/

theorem wfList_get {ch : List Node} (h : wfList ch = true) {i : Nat} {c : Node} (hc : ch[i]? = some c) :
    wfNode c = true := by
  induction ch generalizing i with
  | nil => simp at hc
  | cons a r ih =>
    simp only [wfList, Bool.and_eq_true] at h
    cases i with
    | zero => simp at hc; subst hc; exact h.1
    | succ n => simp at hc; exact ih h.2 hc

structure WFAt (ch : List Node) : Prop where
  pos : posSorted ch = true
  comp : compDistinct ch = true
  wf : wfList ch = true

theorem wfAt_root {root : List Node} (h : WFMap root = true) : WFAt root := by
  simp only [WFMap, Bool.and_eq_true] at h
  exact ⟨h.1.1, h.1.2, h.2⟩

theorem wfAt_chAt {root : List Node} (h : WFAt root) {p : List Nat} {ch : List Node} (hc : chAt root p = some ch) :
    WFAt ch := by
  induction p generalizing root with
  | nil => simp only [chAt, Option.some.injEq] at hc; subst hc; exact h
  | cons i r ih =>
    simp only [chAt] at hc
    split at hc
    · rename_i lid pos u rep w sub heq
      have := wfList_get h.wf heq
      simp only [wfNode, Bool.and_eq_true] at this
      exact ih ⟨this.1.1.1, this.1.1.2, this.2⟩ hc
    · cases hc

/-- the node reached by a path is well-formed -/
theorem wfNode_at {root : List Node} (h : WFAt root) {p : List Nat} {ch : List Node} (hc : chAt root p = some ch)
    {i : Nat} {c : Node} (hi : ch[i]? = some c) : wfNode c = true :=
  wfList_get (wfAt_chAt h hc).wf hi

theorem compFresh_get {c : Node} {r : List Node} (h : compFresh c r = true) {i : Nat} {m : Node} (hm : r[i]? = some m) :
    m.comp ≠ c.comp := by
  induction r generalizing i with
  | nil => simp at hm
  | cons a r ih =>
    simp only [compFresh, Bool.and_eq_true, bne_iff_ne] at h
    cases i with
    | zero => simp at hm; subst hm; exact h.1
    | succ n => simp at hm; exact ih h.2 hm

theorem compDistinct_lt {ch : List Node} (h : compDistinct ch = true) {i j : Nat} {a b : Node}
    (ha : ch[i]? = some a) (hb : ch[j]? = some b) (hij : i < j) : a.comp ≠ b.comp := by
  induction ch generalizing i j with
  | nil => simp at ha
  | cons x r ih =>
    simp only [compDistinct, Bool.and_eq_true] at h
    cases i with
    | zero =>
      simp at ha; subst ha
      cases j with
      | zero => omega
      | succ m => simp at hb; exact fun e => compFresh_get h.1 hb e.symm
    | succ n =>
      cases j with
      | zero => omega
      | succ m => simp at ha hb; exact ih h.2 ha hb (by omega)

theorem compDistinct_ne {ch : List Node} (h : compDistinct ch = true) {i j : Nat} {a b : Node}
    (ha : ch[i]? = some a) (hb : ch[j]? = some b) (hij : i ≠ j) : a.comp ≠ b.comp := by
  rcases Nat.lt_or_gt_of_ne hij with h1 | h1
  · exact compDistinct_lt h ha hb h1
  · exact fun e => compDistinct_lt h hb ha h1 e.symm

theorem posSorted_le {ch : List Node} (h : posSorted ch = true) {i j : Nat} {a b : Node}
    (ha : ch[i]? = some a) (hb : ch[j]? = some b) (hij : i ≤ j) : a.pos ≤ b.pos := by
  induction ch generalizing i j a b with
  | nil => simp at ha
  | cons x r ih =>
    cases r with
    | nil =>
      cases i with
      | zero =>
        cases j with
        | zero => simp at ha hb; subst ha; subst hb; omega
        | succ m => simp at hb
      | succ n => simp at ha
    | cons y r' =>
      simp only [posSorted, Bool.and_eq_true, decide_eq_true_eq] at h
      cases i with
      | zero =>
        simp at ha; subst ha
        cases j with
        | zero => simp at hb; subst hb; omega
        | succ m =>
          have h0 : (y :: r')[0]? = some y := by simp
          have := ih (i := 0) (j := m) h.2 h0 (by simpa using hb) (by omega)
          omega
      | succ n =>
        cases j with
        | zero => omega
        | succ m => exact ih h.2 (by simpa using ha) (by simpa using hb) (by omega)

/-! ### (a) siblings -/

theorem localList_get {K : Consts} {ch : List Node} (h : localList K ch = true) {i : Nat} {c : Node}
    (hc : ch[i]? = some c) : localNode K c = true := by
  induction ch generalizing i with
  | nil => simp at hc
  | cons a r ih =>
    simp only [localList, Bool.and_eq_true] at h
    cases i with
    | zero => simp at hc; subst hc; exact h.1
    | succ n => simp at hc; exact ih h.2 hc

structure UAt (K : Consts) (ch : List Node) : Prop where
  sib : sibDisjoint K ch = true
  loc : localList K ch = true

theorem uAt_root {K : Consts} {root : List Node} (h : Unambiguous K root = true) : UAt K root := by
  simp only [Unambiguous, Bool.and_eq_true] at h
  exact ⟨h.1.1, h.1.2⟩

theorem uAt_chAt {K : Consts} {root : List Node} (h : UAt K root) {p : List Nat} {ch : List Node}
    (hc : chAt root p = some ch) : UAt K ch := by
  induction p generalizing root with
  | nil => simp only [chAt, Option.some.injEq] at hc; subst hc; exact h
  | cons i r ih =>
    simp only [chAt] at hc
    split at hc
    · rename_i lid pos u rep w sub heq
      have := localList_get h.loc heq
      simp only [localNode, Bool.and_eq_true] at this
      exact ih ⟨this.1.1, this.2⟩ hc
    · cases hc

theorem noOverlapWith_get {K : Consts} {c : Node} {r : List Node} (h : noOverlapWith K c r = true) {i : Nat} {m : Node}
    (hm : r[i]? = some m) : anyOverlapS (entry K c) (entry K m) = false := by
  induction r generalizing i with
  | nil => simp at hm
  | cons a r ih =>
    simp only [noOverlapWith, Bool.and_eq_true, Bool.not_eq_true'] at h
    cases i with
    | zero => simp at hm; subst hm; exact h.1
    | succ n => simp at hm; exact ih h.2 hm

theorem sib_noOverlap {K : Consts} {ch : List Node} (h : sibDisjoint K ch = true) {i j : Nat} {a b : Node}
    (ha : ch[i]? = some a) (hb : ch[j]? = some b) (hij : i < j) : anyOverlapS (entry K a) (entry K b) = false := by
  induction ch generalizing i j with
  | nil => simp at ha
  | cons x r ih =>
    simp only [sibDisjoint, Bool.and_eq_true] at h
    cases i with
    | zero =>
      simp at ha; subst ha
      cases j with
      | zero => omega
      | succ m => simp at hb; exact noOverlapWith_get h.1 hb
    | succ n =>
      cases j with
      | zero => omega
      | succ m => simp at ha hb; exact ih h.2 ha hb (by omega)

/-- a data segment that enters one child cannot enter any other child of the same parent -/
theorem sib_noHit {K : Consts} {s : SegData} {ch : List Node} (h : sibDisjoint K ch = true) {i j : Nat} {a b : Node}
    (ha : ch[i]? = some a) (hb : ch[j]? = some b) (hij : i ≠ j) {t : SKey} (ht : t ∈ entry K b) (hs : hits s t) :
    NoHit s (entry K a) := by
  rcases Nat.lt_or_gt_of_ne hij with h1 | h1
  · exact noHit_of_noOverlap (sib_noOverlap h ha hb h1) ht hs
  · exact anyOverlapS_symm_false (sib_noOverlap h hb ha h1) ht hs

/-! ### (c) what may follow after leaving a loop upwards -/

def selfKeys (K : Consts) (rep : Nat) (ch : List Node) : List SKey :=
  if firstIsSeg ch && rep != 1 then firstSegKey K ch else []

/-- the `later` / `self` arguments with which `followList` is evaluated on the children of the loop at a path -/
def laterFrom (K : Consts) (later self : List SKey) (ch : List Node) : List Nat → List SKey × List SKey
  | [] => (later, self)
  | i :: r =>
    match ch[i]? with
    | some (.loop _ _ _ rep _ sub) =>
      laterFrom K (later ++ self ++ entryAll K (ch.drop (i + 1))) (selfKeys K rep sub) sub r
    | _ => (later, self)

theorem followList_get {K : Consts} {later self : List SKey} {ch : List Node} (h : followList K later self ch = true)
    {i : Nat} {c : Node} (hc : ch[i]? = some c) :
    anyOverlapS (entry K c) later = false ∧ followNode K (later ++ self ++ entryAll K (ch.drop (i + 1))) c = true := by
  induction ch generalizing i with
  | nil => simp at hc
  | cons a r ih =>
    simp only [followList, Bool.and_eq_true, Bool.not_eq_true'] at h
    cases i with
    | zero => simp at hc; subst hc; exact ⟨h.1.1, by simpa using h.1.2⟩
    | succ n => simp at hc; simpa using ih h.2 hc

theorem followList_chAt {K : Consts} {later self : List SKey} {root : List Node}
    (h : followList K later self root = true) {p : List Nat} {ch : List Node} (hc : chAt root p = some ch) :
    followList K (laterFrom K later self root p).1 (laterFrom K later self root p).2 ch = true := by
  induction p generalizing root later self with
  | nil => simp only [chAt, Option.some.injEq] at hc; subst hc; exact h
  | cons i r ih =>
    simp only [chAt] at hc
    split at hc
    · rename_i lid pos u rep w sub heq
      have := (followList_get h heq).2
      simp only [followNode] at this
      simp only [laterFrom, heq]
      exact ih this hc
    · cases hc

theorem laterFrom_mono {K : Consts} {later self : List SKey} {root : List Node} (p : List Nat) {k : SKey}
    (hk : k ∈ later) : k ∈ (laterFrom K later self root p).1 := by
  induction p generalizing root later self with
  | nil => exact hk
  | cons i r ih =>
    simp only [laterFrom]
    split
    · exact ih (by simp [hk])
    · exact hk

theorem laterFrom_append {K : Consts} {later self : List SKey} {root : List Node} (p q : List Nat) {ch : List Node}
    (hc : chAt root p = some ch) :
    laterFrom K later self root (p ++ q) =
      laterFrom K (laterFrom K later self root p).1 (laterFrom K later self root p).2 ch q := by
  induction p generalizing root later self with
  | nil => simp only [chAt, Option.some.injEq] at hc; subst hc; rfl
  | cons i r ih =>
    simp only [chAt] at hc
    split at hc
    · rename_i lid pos u rep w sub heq
      simp only [List.cons_append, laterFrom, heq]
      exact ih hc
    · cases hc

theorem entryAll_mem {K : Consts} {ch : List Node} {j : Nat} {c : Node} (hc : ch[j]? = some c) {k : SKey}
    (hk : k ∈ entry K c) : k ∈ entryAll K ch := by
  induction ch generalizing j with
  | nil => simp at hc
  | cons a r ih =>
    simp only [entryAll, List.mem_append]
    cases j with
    | zero => simp at hc; subst hc; left; exact hk
    | succ n => simp at hc; right; exact ih hc

/-- after descending from level `p` through child `i`, the entry keys of the later children of `p` are in `later` -/
theorem laterFrom_later {K : Consts} {later self : List SKey} {root : List Node} {p : List Nat} {ch : List Node}
    (hc : chAt root p = some ch) {i j : Nat} {c : Node} (hj : ch[j]? = some c) (hij : i < j) (q : List Nat)
    {sub : List Node} (hs : chAt root (p ++ [i]) = some sub) {k : SKey} (hk : k ∈ entry K c) :
    k ∈ (laterFrom K later self root (p ++ [i] ++ q)).1 := by
  rw [laterFrom_append (p ++ [i]) q hs]
  apply laterFrom_mono
  rw [laterFrom_append p [i] hc]
  rw [chAt_snoc hc] at hs
  simp only [laterFrom]
  split at hs
  · rename_i lid pos u rep w sub' heq
    simp only [heq, List.mem_append]
    right
    have : (ch.drop (i + 1))[j - (i + 1)]? = some c := by
      rw [List.getElem?_drop]; rw [← hj]; congr 1; omega
    exact entryAll_mem this hk
  · cases hs

/-- after descending two levels below `p ++ [i]`, the first segment of the (repeatable) loop at `p ++ [i]` is in `later` -/
theorem laterFrom_self {K : Consts} {later self : List SKey} {root : List Node} {p : List Nat} {i : Nat} {ch : List Node}
    {lid pos u rep : Nat} {w : Bool} {sub : List Node}
    (hc : chAt root p = some ch) (hi : ch[i]? = some (.loop lid pos u rep w sub)) (i' : Nat) (q : List Nat)
    {sub' : List Node} (hs : chAt root (p ++ [i] ++ [i']) = some sub') {k : SKey} (hk : k ∈ selfKeys K rep sub) :
    k ∈ (laterFrom K later self root (p ++ [i] ++ [i'] ++ q)).1 := by
  rw [laterFrom_append (p ++ [i] ++ [i']) q hs]
  apply laterFrom_mono
  have hsub : chAt root (p ++ [i]) = some sub := by rw [chAt_snoc hc, hi]
  rw [laterFrom_append (p ++ [i]) [i'] hsub]
  rw [laterFrom_append p [i] hc]
  rw [chAt_snoc hsub] at hs
  simp only [laterFrom, hi]
  split at hs
  · rename_i heq
    simp only [heq, List.mem_append]
    left; right; exact hk
  · cases hs

end Pyx12Verif.WalkerGen
