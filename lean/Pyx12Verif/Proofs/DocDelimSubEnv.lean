/-
C12 at pipeline level, DIFFERENT component separators — the reader's envelope bookkeeping is EQUIVARIANT.

`X12Reader._parse_segment` stores control numbers and compares them with each other, reads counts with `int()` and
compares LX01 with a decimal numeral.  So for a function `f` on strings that is injective, invisible to `int()`, maps only
the empty string to the empty string and fixes decimal numerals (`StrIso f`), one step from the renamed state on the
renamed view is the renamed step, with the same reports (`step_ren`).
-/
import Pyx12Verif.Model.Envelope

namespace Pyx12Verif.Envelope

structure StrIso (f : Str → Str) : Prop where
  inj : ∀ x y, f x = f y → x = y
  int : ∀ x, pyInt (f x) = pyInt x
  nil : ∀ x, f x = [] ↔ x = []
  dec : ∀ n, f (decimal n) = decimal n

def RState.ren (f : Str → Str) (s : RState) : RState :=
  { s with loops := s.loops.map (fun p => (p.1, p.2.map f)), isaIds := s.isaIds.map (Option.map f),
           gsIds := s.gsIds.map (Option.map f), stIds := s.stIds.map (Option.map f) }

def SegView.ren (f : Str → Str) (v : SegView) : SegView := { v with cnt := v.cnt.map f, ctl := v.ctl.map f }

def renOut (f : Str → Str) : Outcome (RState × List Err) → Outcome (RState × List Err)
  | .ok r => .ok (r.1.ren f, r.2)
  | .raised => .raised
  | .crash e => .crash e

section
variable {f : Str → Str} (hf : StrIso f)
include hf

theorem optMap_inj (x y : Option Str) : x.map f = y.map f ↔ x = y := by
  cases x with
  | none => cases y <;> simp
  | some a =>
    cases y with
    | none => simp
    | some b =>
      simp only [Option.map_some, Option.some.injEq]
      exact ⟨hf.inj a b, fun h => by rw [h]⟩

theorem mem_optMap (x : Option Str) (l : List (Option Str)) : x.map f ∈ l.map (Option.map f) ↔ x ∈ l := by
  constructor
  · intro h
    obtain ⟨y, hy, e⟩ := List.mem_map.1 h
    rw [(optMap_inj hf y x).1 e] at hy
    exact hy
  · intro h
    exact List.mem_map.2 ⟨x, h, rfl⟩

theorem pyIntArg_ren (fx : Fixes) (o : Option Str) : pyIntArg fx (o.map f) = pyIntArg fx o := by
  cases o with
  | none => rfl
  | some t => simp only [Option.map_some, pyIntArg, hf.int]

theorem baseIsa_ren (s : RState) (v : SegView) : baseIsa (s.ren f) (v.ren f) = renOut f (baseIsa s v) := by
  unfold baseIsa
  cases hn : v.n16 with
  | false => simp [SegView.ren, hn, renOut]
  | true =>
    have hm := mem_optMap hf v.ctl s.isaIds
    simp [SegView.ren, hn, renOut, RState.ren, hm]

theorem baseGs_ren (s : RState) (v : SegView) :
    baseGs (s.ren f) (v.ren f) = ((baseGs s v).1.ren f, (baseGs s v).2) := by
  have hm := mem_optMap hf v.ctl s.gsIds
  simp only [baseGs, SegView.ren, RState.ren, List.map_cons, List.map_nil, hm]

theorem baseSt_ren (s : RState) (v : SegView) :
    baseSt (s.ren f) (v.ren f) = ((baseSt s v).1.ren f, (baseSt s v).2) := by
  have hm := mem_optMap hf v.ctl s.stIds
  simp only [baseSt, SegView.ren, RState.ren, List.map_cons, hm]

theorem hlParent_ren (fx : Fixes) (s : RState) (v : SegView) (es : List Err) :
    hlParent fx (s.ren f) (v.ren f) es = renOut f (hlParent fx s v es) := by
  unfold hlParent
  have h0 : (v.ren f).ctl = some [] ↔ v.ctl = some [] := by
    have := optMap_inj hf v.ctl (some [])
    simp only [Option.map_some, (hf.nil []).2 rfl] at this
    exact this
  by_cases hc : v.ctl = some []
  · have hc' := h0.2 hc
    simp only [hc, hc', if_true, renOut]
    rfl
  · have hc' : ¬ (v.ren f).ctl = some [] := fun h => hc (h0.1 h)
    simp only [hc, hc', if_false]
    have : (v.ren f).ctl = v.ctl.map f := rfl
    rw [this, pyIntArg_ren hf]
    cases pyIntArg fx v.ctl with
    | crash e => rfl
    | raised => rfl
    | ok p =>
      simp only [Outcome.bind]
      have hs : (s.ren f).hlStack = s.hlStack := rfl
      have hcnt : (s.ren f).hlCount = s.hlCount := rfl
      rw [hs, hcnt]
      split
      · rfl
      · split
        · rfl
        · rfl

theorem baseHl_ren (fx : Fixes) (s : RState) (v : SegView) :
    baseHl fx (s.ren f) (v.ren f) = renOut f (baseHl fx s v) := by
  unfold baseHl
  have : (v.ren f).cnt = v.cnt.map f := rfl
  rw [this, pyIntArg_ren hf]
  cases pyIntArg fx v.cnt with
  | crash e => rfl
  | raised => rfl
  | ok n =>
    simp only [Outcome.bind]
    have := hlParent_ren hf fx { s with hlCount := s.hlCount + 1 } v
      (if n = some (natInt (s.hlCount + 1)) then [] else [Err.hl1])
    exact this

theorem baseLx_ren (s : RState) (v : SegView) :
    baseLx (s.ren f) (v.ren f) = ((baseLx s v).1.ren f, (baseLx s v).2) := by
  have h0 : (v.ren f).cnt = some (decimal (s.lxCount + 1)) ↔ v.cnt = some (decimal (s.lxCount + 1)) := by
    have := optMap_inj hf v.cnt (some (decimal (s.lxCount + 1)))
    simp only [Option.map_some, hf.dec] at this
    exact this
  have hl : (s.ren f).lxCount = s.lxCount := rfl
  simp only [baseLx, hl, h0]
  rfl

theorem baseBranch_ren (fx : Fixes) (s : RState) (v : SegView) :
    baseBranch fx (s.ren f) (v.ren f) = renOut f (baseBranch fx s v) := by
  unfold baseBranch
  have hid : (v.ren f).id = v.id := rfl
  have hchk : (s.ren f).chk837 = s.chk837 := rfl
  rw [hid, hchk]
  split
  · exact baseIsa_ren hf s v
  · split
    · simp only [baseGs_ren hf, renOut]
    · split
      · simp only [baseSt_ren hf, renOut]
      · split
        · exact baseHl_ren hf fx s v
        · split
          · rfl
          · split
            · simp only [baseLx_ren hf, renOut]
            · rfl

omit hf in
theorem countSeg_ren (v : SegView) (s : RState) : countSeg (v.ren f) (s.ren f) = (countSeg v s).ren f := by
  unfold countSeg
  have hid : (v.ren f).id = v.id := rfl
  rw [hid]
  split <;> rfl

theorem baseStep_ren (fx : Fixes) (s : RState) (v : SegView) :
    baseStep fx (s.ren f) (v.ren f) = renOut f (baseStep fx s v) := by
  unfold baseStep
  rw [baseBranch_ren hf]
  cases baseBranch fx s v with
  | crash e => rfl
  | raised => rfl
  | ok r => simp only [renOut, Outcome.bind, countSeg_ren]

omit hf in
theorem popLoop_ren (fx : Fixes) (s : RState) (es : List Err) :
    popLoop fx (s.ren f) es = renOut f (popLoop fx s es) := by
  unfold popLoop
  cases hl : s.loops with
  | nil =>
    have : (s.ren f).loops = [] := by simp [RState.ren, hl]
    rw [this]
    simp only
    split <;> rfl
  | cons t r =>
    have : (s.ren f).loops = (t.1, t.2.map f) :: r.map (fun p => (p.1, p.2.map f)) := by simp [RState.ren, hl]
    rw [this]
    simp only [renOut, RState.ren, hl, List.map_cons]

theorem checkCount_ren (fx : Fixes) (s : RState) (es : List Err) (cnt : Option Str) (expected : Nat) (e : Err) :
    checkCount fx (s.ren f) es (cnt.map f) expected e = renOut f (checkCount fx s es cnt expected e) := by
  unfold checkCount
  rw [pyIntArg_ren hf]
  cases pyIntArg fx cnt with
  | crash e => rfl
  | raised => rfl
  | ok n => simp only [Outcome.bind, popLoop_ren]

theorem checkId_ren (fx : Fixes) (s : RState) (es : List Err) (v : SegView) (eId eCnt : Err) (expected : Nat) :
    checkId fx (s.ren f) es (v.ren f) eId eCnt expected = renOut f (checkId fx s es v eId eCnt expected) := by
  unfold checkId
  have hcnt : (v.ren f).cnt = v.cnt.map f := rfl
  cases hl : s.loops with
  | nil =>
    have : (s.ren f).loops = [] := by simp [RState.ren, hl]
    rw [this]
    simp only
    split
    · rw [hcnt]; exact checkCount_ren hf fx s _ v.cnt expected eCnt
    · rfl
  | cons t r =>
    have : (s.ren f).loops = (t.1, t.2.map f) :: r.map (fun p => (p.1, p.2.map f)) := by simp [RState.ren, hl]
    rw [this]
    have hctl : (t.2.map f = (v.ren f).ctl) ↔ t.2 = v.ctl := optMap_inj hf t.2 v.ctl
    simp only [hctl, hcnt]
    exact checkCount_ren hf fx s _ v.cnt expected eCnt

theorem closeEnv_ren (fx : Fixes) (k : Kind) (eOpen eId eCnt : Err) (expected : Nat) (s : RState) (v : SegView) :
    closeEnv fx k eOpen eId eCnt expected (s.ren f) (v.ren f) =
      renOut f (closeEnv fx k eOpen eId eCnt expected s v) := by
  unfold closeEnv
  cases hl : s.loops with
  | nil =>
    have : (s.ren f).loops = [] := by simp [RState.ren, hl]
    rw [this]
    simp only
    split
    · exact checkId_ren hf fx s [] v eId eCnt expected
    · rfl
  | cons t r =>
    have : (s.ren f).loops = (t.1, t.2.map f) :: r.map (fun p => (p.1, p.2.map f)) := by simp [RState.ren, hl]
    rw [this]
    simp only
    split
    · exact checkId_ren hf fx s [] v eId eCnt expected
    · exact checkId_ren hf fx { s with loops := r } [eOpen] v eId eCnt expected

theorem closeSet_ren (fx : Fixes) (s : RState) (v : SegView) :
    closeSet fx (s.ren f) (v.ren f) = renOut f (closeSet fx s v) := by
  unfold closeSet
  have hcnt : (v.ren f).cnt = v.cnt.map f := rfl
  have hsc : (s.ren f).segCount = s.segCount := rfl
  cases hl : s.loops with
  | nil =>
    have : (s.ren f).loops = [] := by simp [RState.ren, hl]
    rw [this]
    simp only
    split
    · rw [hcnt, hsc]; exact checkCount_ren hf fx s _ v.cnt _ _
    · rfl
  | cons t r =>
    have : (s.ren f).loops = (t.1, t.2.map f) :: r.map (fun p => (p.1, p.2.map f)) := by simp [RState.ren, hl]
    rw [this]
    have hctl : (t.2.map f = (v.ren f).ctl) ↔ t.2 = v.ctl := optMap_inj hf t.2 v.ctl
    simp only [hctl, hcnt, hsc]
    exact checkCount_ren hf fx s _ v.cnt _ _

theorem trailerStep_ren (fx : Fixes) (s : RState) (v : SegView) :
    trailerStep fx (s.ren f) (v.ren f) = renOut f (trailerStep fx s v) := by
  unfold trailerStep
  have hid : (v.ren f).id = v.id := rfl
  have h1 : (s.ren f).gsCount = s.gsCount := rfl
  have h2 : (s.ren f).stCount = s.stCount := rfl
  rw [hid, h1, h2]
  split
  · exact closeEnv_ren hf ..
  · split
    · exact closeEnv_ren hf ..
    · split
      · exact closeSet_ren hf ..
      · rfl

/-- **one reader step commutes with the renaming**, reports unchanged -/
theorem step_ren (fx : Fixes) (s : RState) (v : SegView) : step fx (s.ren f) (v.ren f) = renOut f (step fx s v) := by
  unfold step
  rw [baseStep_ren hf]
  cases baseStep fx s v with
  | crash e => rfl
  | raised => rfl
  | ok r =>
    simp only [renOut, Outcome.bind]
    rw [trailerStep_ren hf]
    cases trailerStep fx r.1 v with
    | crash e => rfl
    | raised => rfl
    | ok q => rfl

omit hf in
theorem cleanup_ren (s : RState) : cleanup (s.ren f) = cleanup s := by
  simp only [cleanup, RState.ren, List.map_reverse, List.map_map]
  congr 1
  apply List.map_congr_left
  intro p _
  obtain ⟨k, o⟩ := p
  cases k <;> rfl

end

end Pyx12Verif.Envelope
