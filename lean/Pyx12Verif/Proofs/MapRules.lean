/-
C16 helper lemmas: where the entries of `violations` come from.

`sibsAt root r` is the child list addressed by an index path (the root list for `[]`, else the children of the
loop at `r`); `nodeAt root (r ++ [j])` is its `j`-th entry.  `local_in_violations` says that every local check
(`siblingClash`, `compClash`, `segViols`, `posSorted`) that fires for a node addressed by an index path shows up
in `violations` under exactly that index path.  The per-rule theorems of `Props/C16Rules.lean` are its
contrapositives combined with the meaning of each Boolean check.
-/
import Pyx12Verif.Model.Walker

namespace Pyx12Verif.MapSkel
open Pyx12Verif.Walker

/-- the child list addressed by an index path: the root list for `[]`, the children of the loop at `r` else -/
def sibsAt : List Node → List Nat → Option (List Node)
  | ch, [] => some ch
  | ch, i :: r =>
    match ch[i]? with
    | some (.loop _ _ _ _ _ sub) => sibsAt sub r
    | _ => none

theorem nodeAt_snoc : ∀ (r : List Nat) (ch : List Node) (j : Nat) (n : Node),
    nodeAt ch (r ++ [j]) = some n ↔ ∃ sibs, sibsAt ch r = some sibs ∧ sibs[j]? = some n := by
  intro r
  induction r with
  | nil => intro ch j n; simp [nodeAt, sibsAt]
  | cons i r' ih =>
    intro ch j n
    obtain ⟨a, t, h⟩ : ∃ a t, r' ++ [j] = a :: t := by cases r' <;> simp
    rw [List.cons_append, h]
    simp only [nodeAt, sibsAt]
    cases hc : ch[i]? with
    | none => simp
    | some c =>
      cases c with
      | seg => simp
      | loop a1 a2 a3 a4 a5 sub =>
        simp only []
        rw [← h]
        exact ih sub j n

/-- `sibsAt` in terms of `nodeAt`: the root list, or the children of a loop node -/
theorem sibsAt_iff (root : List Node) (r : List Nat) (sibs : List Node) :
    sibsAt root r = some sibs ↔
      (r = [] ∧ sibs = root) ∨ ∃ a b c d e, nodeAt root r = some (.loop a b c d e sibs) := by
  induction r generalizing root with
  | nil => simp [sibsAt, nodeAt, eq_comm]
  | cons i r' ih =>
    simp only [sibsAt, List.cons_ne_nil, false_and, false_or]
    cases r' with
    | nil =>
      simp only [nodeAt]
      cases hc : root[i]? with
      | none => simp
      | some c =>
        cases c with
        | seg => simp
        | loop a1 a2 a3 a4 a5 sub => simp [sibsAt, eq_comm]
    | cons i2 r2 =>
      simp only [nodeAt]
      cases hc : root[i]? with
      | none => simp
      | some c =>
        cases c with
        | seg => simp
        | loop a1 a2 a3 a4 a5 sub =>
          simp only []
          rw [ih sub]
          simp

/-! ### one level of `listViols` -/

theorem listViols_level (ent hl ctx : Nat) (des exts : List Nat) (ip : List Nat) :
    ∀ (ch : List Node) (i j : Nat) (n : Node), ch[j]? = some n →
      (siblingClash ent hl ctx n (ch.drop (j + 1)) = true →
        (R_SIBLING, ip ++ [i + j]) ∈ listViols ent hl ctx des exts ip i ch) ∧
      (compClash n (ch.drop (j + 1)) = true →
        (R_PATHDUP, ip ++ [i + j]) ∈ listViols ent hl ctx des exts ip i ch) ∧
      (∀ v ∈ nodeViols ent hl ctx des exts (ip ++ [i + j]) n, v ∈ listViols ent hl ctx des exts ip i ch) := by
  intro ch
  induction ch with
  | nil => intro i j n hj; simp at hj
  | cons c r ih =>
    intro i j n hj
    cases j with
    | zero =>
      simp only [List.getElem?_cons_zero, Option.some.injEq] at hj
      subst hj
      simp only [Nat.zero_add, List.drop_succ_cons, List.drop_zero, Nat.add_zero]
      unfold listViols
      refine ⟨?_, ?_, ?_⟩
      · intro h; simp [h]
      · intro h; simp [h]
      · intro v hv; simp [hv]
    | succ j' =>
      simp only [List.getElem?_cons_succ] at hj
      have := ih (i + 1) j' n hj
      have e : i + 1 + j' = i + (j' + 1) := by omega
      rw [e] at this
      simp only [List.drop_succ_cons]
      unfold listViols
      obtain ⟨h1, h2, h3⟩ := this
      refine ⟨?_, ?_, ?_⟩
      · intro h; simp [h1 h]
      · intro h; simp [h2 h]
      · intro v hv; simp [h3 v hv]

theorem nodeViols_loop_sub (ent hl ctx : Nat) (des exts : List Nat) (ip : List Nat) (a b c d : Nat) (e : Bool)
    (sub : List Node) :
    ∀ v ∈ listViols ent hl ctx des exts ip 0 sub, v ∈ nodeViols ent hl ctx des exts ip (.loop a b c d e sub) := by
  intro v hv; unfold nodeViols; simp [hv]

theorem nodeViols_seg_sub (ent hl ctx : Nat) (des exts : List Nat) (ip : List Nat) (n : Node) :
    ∀ v ∈ segViols des exts ip n, v ∈ nodeViols ent hl ctx des exts ip n := by
  intro v hv
  cases n with
  | seg => simpa [nodeViols] using hv
  | loop => unfold nodeViols; simp [hv]

theorem nodeViols_pos (ent hl ctx : Nat) (des exts : List Nat) (ip : List Nat) (a b c d : Nat) (e : Bool)
    (sub : List Node) (h : posSorted sub = false) :
    (R_POS, ip) ∈ nodeViols ent hl ctx des exts ip (.loop a b c d e sub) := by
  unfold nodeViols; simp [h]

/-! ### all depths -/

theorem listViols_deep (ent hl ctx : Nat) (des exts : List Nat) :
    ∀ (r : List Nat) (ch : List Node) (ip : List Nat) (sibs : List Node), sibsAt ch r = some sibs →
      ∀ v ∈ listViols ent hl ctx des exts (ip ++ r) 0 sibs, v ∈ listViols ent hl ctx des exts ip 0 ch := by
  intro r
  induction r with
  | nil =>
    intro ch ip sibs hs v hv
    simp only [sibsAt, Option.some.injEq] at hs
    subst hs
    simpa using hv
  | cons i r' ih =>
    intro ch ip sibs hs v hv
    simp only [sibsAt] at hs
    cases hc : ch[i]? with
    | none => simp [hc] at hs
    | some c =>
      cases c with
      | seg => simp [hc] at hs
      | loop a1 a2 a3 a4 a5 sub =>
        simp only [hc] at hs
        have e : ip ++ i :: r' = (ip ++ [i]) ++ r' := by simp
        rw [e] at hv
        have h1 := ih sub (ip ++ [i]) sibs hs v hv
        have h2 := nodeViols_loop_sub ent hl ctx des exts (ip ++ [i]) a1 a2 a3 a4 a5 sub v h1
        have h3 := (listViols_level ent hl ctx des exts ip ch 0 i _ hc).2.2 v
        simp only [Nat.zero_add] at h3
        exact h3 h2

theorem listViols_in_violations (ent hl ctx : Nat) (des exts : List Nat) (m : MapFile) :
    ∀ v ∈ listViols ent hl ctx des exts [] 0 m.children, v ∈ violations ent hl ctx des exts m := by
  intro v hv; unfold violations; simp [hv]

/-- every local check that fires for the node at index path `r ++ [j]` is reported under that path -/
theorem local_in_violations (ent hl ctx : Nat) (des exts : List Nat) (m : MapFile)
    (r : List Nat) (sibs : List Node) (j : Nat) (n : Node)
    (hs : sibsAt m.children r = some sibs) (hj : sibs[j]? = some n) :
    (siblingClash ent hl ctx n (sibs.drop (j + 1)) = true →
      (R_SIBLING, r ++ [j]) ∈ violations ent hl ctx des exts m) ∧
    (compClash n (sibs.drop (j + 1)) = true →
      (R_PATHDUP, r ++ [j]) ∈ violations ent hl ctx des exts m) ∧
    (∀ v ∈ nodeViols ent hl ctx des exts (r ++ [j]) n, v ∈ violations ent hl ctx des exts m) := by
  have lvl := listViols_level ent hl ctx des exts r sibs 0 j n hj
  simp only [Nat.zero_add] at lvl
  have deep := listViols_deep ent hl ctx des exts r m.children [] sibs hs
  simp only [List.nil_append] at deep
  have top := listViols_in_violations ent hl ctx des exts m
  exact ⟨fun h => top _ (deep _ (lvl.1 h)), fun h => top _ (deep _ (lvl.2.1 h)),
         fun v hv => top _ (deep _ (lvl.2.2 v hv))⟩

/-- the same, addressed with `nodeAt` -/
theorem segViols_in_violations (ent hl ctx : Nat) (des exts : List Nat) (m : MapFile)
    (ip : List Nat) (n : Node) (hn : nodeAt m.children ip = some n) :
    ∀ v ∈ segViols des exts ip n, v ∈ violations ent hl ctx des exts m := by
  intro v hv
  cases hip : ip.reverse with
  | nil =>
    have : ip = [] := by simpa using hip
    subst this; simp [nodeAt] at hn
  | cons j rr =>
    have e : ip = rr.reverse ++ [j] := by
      have := congrArg List.reverse hip; simpa using this
    subst e
    obtain ⟨sibs, hs, hj⟩ := (nodeAt_snoc _ _ _ _).mp hn
    exact (local_in_violations ent hl ctx des exts m _ sibs j n hs hj).2.2 v
      (nodeViols_seg_sub ent hl ctx des exts _ n v hv)

/-- the position check of a child list is reported under the index path of its owner -/
theorem pos_in_violations (ent hl ctx : Nat) (des exts : List Nat) (m : MapFile)
    (ip : List Nat) (sibs : List Node) (hs : sibsAt m.children ip = some sibs) (h : posSorted sibs = false) :
    (R_POS, ip) ∈ violations ent hl ctx des exts m := by
  rcases (sibsAt_iff _ _ _).mp hs with ⟨h1, h2⟩ | ⟨a, b, c, d, e, hn⟩
  · subst h1; subst h2; unfold violations; simp [h]
  · cases hip : ip.reverse with
    | nil =>
      have : ip = [] := by simpa using hip
      subst this; simp [nodeAt] at hn
    | cons j rr =>
      have e' : ip = rr.reverse ++ [j] := by
        have := congrArg List.reverse hip; simpa using this
      subst e'
      obtain ⟨sibs', hs', hj⟩ := (nodeAt_snoc _ _ _ _).mp hn
      exact (local_in_violations ent hl ctx des exts m _ sibs' j _ hs' hj).2.2 _
        (nodeViols_pos ent hl ctx des exts _ a b c d e sibs h)

/-! ### the value position a segment keys on, and a Boolean check that same-id siblings agree on it -/

/-- which value of the data segment the cascade of `is_match` keys on for this map segment:
    1 = element 01, 2 = element 02 (ENT), 3 = element 03 (HL), 4 = first component of a leading composite,
    0 = none -/
def keySlot (ent hl : Nat) (sid : Nat) (ch : List Child) : Nat :=
  match nthChild ch 0 with
  | some (.elem e0) =>
    if e0.isID && e0.usage == 0 && e0.ncodes > 0 then 1
    else if sid == ent then 2 else if sid == hl then 3 else 0
  | some (.comp _ _ _ _ _) => 4
  | none => 0

def Node.slot (ent hl : Nat) : Node → Nat
  | .seg sid _ _ _ _ _ ch => keySlot ent hl sid ch
  | .loop .. => 0

/-- a later sibling segment with the same position and id keys on another value position -/
def slotMismatch (ent hl : Nat) (a : Node) : List Node → Bool
  | [] => false
  | b :: r => (a.isSeg && b.isSeg && b.pos == a.pos && b.ident == a.ident && b.slot ent hl != a.slot ent hl)
              || slotMismatch ent hl a r

mutual
def slotsOKNode (ent hl : Nat) : Node → Bool
  | .seg .. => true
  | .loop _ _ _ _ _ ch => slotsOKList ent hl ch
/-- in every child list at every depth, segment siblings with one position and one id key on one value position -/
def slotsOKList (ent hl : Nat) : List Node → Bool
  | [] => true
  | n :: r => !slotMismatch ent hl n r && slotsOKNode ent hl n && slotsOKList ent hl r
end

theorem slotMismatch_false (ent hl : Nat) (a : Node) (rest : List Node) (h : slotMismatch ent hl a rest = false) :
    ∀ b ∈ rest, a.isSeg = true → b.isSeg = true → a.pos = b.pos → a.ident = b.ident →
      a.slot ent hl = b.slot ent hl := by
  induction rest with
  | nil => intro b hb; simp at hb
  | cons c r ih =>
    simp only [slotMismatch, Bool.or_eq_false_iff] at h
    intro b hb sa sb hp hi
    rcases List.mem_cons.mp hb with e | e
    · subst e
      have h1 := h.1
      simp [sa, sb, hp, hi] at h1
      exact h1.symm
    · exact ih h.2 b e sa sb hp hi

theorem slotsOK_level (ent hl : Nat) : ∀ (ch : List Node), slotsOKList ent hl ch = true →
    ∀ (j : Nat) (n : Node), ch[j]? = some n →
      slotMismatch ent hl n (ch.drop (j + 1)) = false ∧ slotsOKNode ent hl n = true := by
  intro ch
  induction ch with
  | nil => intro _ j n hj; simp at hj
  | cons c r ih =>
    intro h j n hj
    simp only [slotsOKList, Bool.and_eq_true, Bool.not_eq_true'] at h
    cases j with
    | zero =>
      simp only [List.getElem?_cons_zero, Option.some.injEq] at hj
      subst hj
      exact ⟨by simpa using h.1.1, h.1.2⟩
    | succ j' =>
      simp only [List.getElem?_cons_succ] at hj
      simpa using ih h.2 j' n hj

theorem slots_sound (ent hl : Nat) (root : List Node) (h : slotsOKList ent hl root = true) :
    ∀ (ip : List Nat) (sibs : List Node), sibsAt root ip = some sibs →
      ∀ (i j : Nat) (a b : Node), i < j → sibs[i]? = some a → sibs[j]? = some b →
        a.isSeg = true → b.isSeg = true → a.pos = b.pos → a.ident = b.ident → a.slot ent hl = b.slot ent hl := by
  intro ip
  induction ip generalizing root with
  | nil =>
    intro sibs hs i j a b hij ha hb
    simp only [sibsAt, Option.some.injEq] at hs
    subst hs
    have hm := (slotsOK_level ent hl root h i a ha).1
    have : b ∈ root.drop (i + 1) := by
      have e : (root.drop (i + 1))[j - (i + 1)]? = some b := by
        rw [List.getElem?_drop]
        have : i + 1 + (j - (i + 1)) = j := by omega
        rw [this]; exact hb
      exact List.mem_of_getElem? e
    exact slotMismatch_false ent hl a _ hm b this
  | cons i0 r ih =>
    intro sibs hs
    simp only [sibsAt] at hs
    cases hc : root[i0]? with
    | none => simp [hc] at hs
    | some c =>
      cases c with
      | seg => simp [hc] at hs
      | loop a1 a2 a3 a4 a5 sub =>
        simp only [hc] at hs
        have := (slotsOK_level ent hl root h i0 _ hc).2
        simp only [slotsOKNode] at this
        exact ih sub this sibs hs

end Pyx12Verif.MapSkel
