/-
Every round of a completed run has a node the sinks can view.

`x12n_document` hands the sinks `node` at the end of every round.  `node` is
  * at the start: `/ISA_LOOP/ISA` of the control map (`initState`),
  * after a round in which a node was found: the node `node.is_valid` ran on — it has a definition in `Maps`, else the model
    stops with `noSegDef` (`validate`),
  * after a round in which the walker found nothing: the node of the previous round.
So the only node of a run that needs a hypothesis is the initial one (`CtlIsaOK`: the control map has `/ISA_LOOP/ISA` and
`Maps` has a definition for it): nothing forces the first yielded segment to be matched (a header whose element separator
is a letter of "ISA" makes the first segment id `IS`, `I`, …).

  CtlIsaOK / ctlIsaOK_of_b   the hypothesis and its decidable form
  stepSeg_def, runSegs_defs  the invariant `NodeDef` (node present, of a loaded map, with a definition) along the loop
  validateRead_defs          a verdict run: every reported `node` is the key of a node with a definition
  view_of_def, view_wfIds    `SinkMapsOK` turns a definition into a `NodeView` with well-formed ids
  validateRead_views         REUSABLE: under `SinkMapsOK` and `CtlIsaOK`, for a verdict run
                             `∀ o ∈ (validateRead ms ctx h rr).segs, ∃ v, nodeView ms o.node = some v`
  validateRead_views_wf      … and `Xml.wfIds (xmlDef v.sd) = true`
  sinkMapsOKB / sinkMapsOK_of_b   decidable form of `SinkMapsOK`
-/
import Pyx12Verif.Props.DocSinks

namespace Pyx12Verif.Doc
open Pyx12Verif

/-- each control map that `Maps` can load has the node `/ISA_LOOP/ISA`, and `Maps` has a definition for it -/
def CtlIsaOK (ms : Maps) : Prop :=
  ∀ f control, (f = ctl401 ∨ f = ctl501) → findMap ms f = some control →
    ∃ n sd, fetchIn ms control (isaPath ms) = some n ∧ lookupDef n.map n.ip = some sd

def isaDefOf : Option NodeRef → Bool
  | none => false
  | some n => (lookupDef n.map n.ip).isSome

def ctlIsaAt (ms : Maps) : Option MapX → Bool
  | none => true
  | some control => isaDefOf (fetchIn ms control (isaPath ms))

/-- decidable form of `CtlIsaOK` -/
def ctlIsaOKB (ms : Maps) : Bool := ctlIsaAt ms (findMap ms ctl401) && ctlIsaAt ms (findMap ms ctl501)

theorem ctlIsaAt_spec (ms : Maps) (f : Str) (control : MapX) (h : ctlIsaAt ms (findMap ms f) = true)
    (hf : findMap ms f = some control) :
    ∃ n sd, fetchIn ms control (isaPath ms) = some n ∧ lookupDef n.map n.ip = some sd := by
  rw [hf] at h
  simp only [ctlIsaAt] at h
  cases hn : fetchIn ms control (isaPath ms) with
  | none => rw [hn] at h; simp [isaDefOf] at h
  | some n =>
    rw [hn] at h
    simp only [isaDefOf] at h
    cases hd : lookupDef n.map n.ip with
    | none => rw [hd] at h; cases h
    | some sd => exact ⟨n, sd, rfl, hd⟩

theorem ctlIsaOK_of_b (ms : Maps) (h : ctlIsaOKB ms = true) : CtlIsaOK ms := by
  simp only [ctlIsaOKB, Bool.and_eq_true] at h
  intro f control hf hc
  rcases hf with rfl | rfl
  · exact ctlIsaAt_spec ms _ control h.1 hc
  · exact ctlIsaAt_spec ms _ control h.2 hc

/-- `node` is a node of a loaded map that has a definition -/
def NodeDef (ms : Maps) (o : Option NodeRef) : Prop :=
  ∃ n sd, o = some n ∧ n.map ∈ ms.maps ∧ lookupDef n.map n.ip = some sd

theorem validate_def (ctx : Ctx) (d : Delims) (s : Seg) (mevs : List Event) (popped : List RdErr) (b : Branch)
    (st' : LState) (out : SegOut) (h : validate ctx d s mevs popped b = .next st' out) :
    ∃ n sd, st'.node = some n ∧ lookupDef n.map n.ip = some sd := by
  unfold validate at h
  split at h
  · simp at h
  · rename_i st1 n evs
    split at h
    · simp at h
    · rename_i sd hsd
      split at h
      · simp at h
      · simp only [Step.next.injEq] at h
        obtain ⟨rfl, _⟩ := h
        exact ⟨n, sd, rfl, hsd⟩

/-- one round: `node` stays, or becomes a node with a definition -/
theorem stepSeg_def (ms : Maps) (ctx : Ctx) (control : MapX) (d : Delims) (le : List SegText.RErr) (s : Seg)
    (st st' : LState) (out : SegOut) (h : stepSeg ms ctx control d le s st = .next st' out) :
    st'.node = st.node ∨ ∃ n sd, st'.node = some n ∧ lookupDef n.map n.ip = some sd := by
  unfold stepSeg withView at h
  split at h
  · simp at h
  · unfold afterReader at h
    split at h
    · simp at h
    · simp at h
    · unfold afterStep afterFind at h
      split at h
      · simp at h
      · simp only [Step.next.injEq] at h
        obtain ⟨rfl, _⟩ := h
        exact Or.inl rfl
      · exact Or.inr (validate_def _ _ _ _ _ _ _ _ h)

theorem stepSeg_nodeDef (ms : Maps) (ctx : Ctx) (control : MapX) (hc : control ∈ ms.maps) (d : Delims)
    (le : List SegText.RErr) (s : Seg) (st st' : LState) (out : SegOut) (hst : st.Ok ms) (hd : NodeDef ms st.node)
    (h : stepSeg ms ctx control d le s st = .next st' out) : st'.Ok ms ∧ NodeDef ms st'.node := by
  obtain ⟨hok', _⟩ := stepSeg_trans ms ctx control hc d le s st st' out hst h
  refine ⟨hok', ?_⟩
  rcases stepSeg_def ms ctx control d le s st st' out h with he | ⟨n, sd, hn, hsd⟩
  · rw [he]; exact hd
  · exact ⟨n, sd, hn, hok'.1 n hn, hsd⟩

/-- what is reported for a round whose final `node` has a definition -/
def OutDef (ms : Maps) (o : SegOut) : Prop :=
  ∃ (n : NodeRef) (sd : SegDef), o.node = some n.key ∧ n.map ∈ ms.maps ∧ lookupDef n.map n.ip = some sd

theorem runSegs_defs (ms : Maps) (ctx : Ctx) (control : MapX) (hc : control ∈ ms.maps) (d : Delims) :
    ∀ (segs : List (List SegText.RErr × Seg)) (a a' : Acc), a.st.Ok ms → NodeDef ms a.st.node →
      runSegs ms ctx control d a segs = .done a' → ∃ new, a'.outs = a.outs ++ new ∧ ∀ o ∈ new, OutDef ms o
  | [], a, a', _, _ => by
    intro h
    simp only [runSegs, LoopEnd.done.injEq] at h
    subst h
    exact ⟨[], by simp, by intro o ho; cases ho⟩
  | p :: ps, a, a', hok, hd => by
    intro h
    simp only [runSegs] at h
    split at h
    · simp at h
    · rename_i st out hstep
      split at h
      · simp at h
      · rename_i est _
        obtain ⟨hok', hd'⟩ := stepSeg_nodeDef ms ctx control hc d _ _ _ _ _ hok hd hstep
        obtain ⟨new, h1, h2⟩ := runSegs_defs ms ctx control hc d ps _ a' (by simpa [pushOut] using hok')
          (by simpa [pushOut] using hd') h
        obtain ⟨hn, _⟩ := stepSeg_node ms ctx control d _ _ _ _ _ hstep
        refine ⟨out :: new, by simp [h1, pushOut], ?_⟩
        intro o ho
        rcases List.mem_cons.1 ho with rfl | ho
        · obtain ⟨n, sd, e, hm, hsd⟩ := hd'
          exact ⟨n, sd, by rw [hn, e]; rfl, hm, hsd⟩
        · exact h2 o ho

/-- a run that ends with a verdict: every reported `node` is the key of a node of a loaded map with a definition -/
theorem validateRead_defs (ms : Maps) (hci : CtlIsaOK ms) (ctx : Ctx) (h : Tokenizer.Header) (rr : SegText.ReadResult)
    (b : Bool) (hv : (validateRead ms ctx h rr).outcome = .verdict b) :
    ∀ o ∈ (validateRead ms ctx h rr).segs, OutDef ms o := by
  unfold validateRead at hv ⊢
  cases hc : findMap ms (controlFile h) with
  | none => simp [hc, emptyResult] at hv
  | some control =>
    simp only [hc] at hv ⊢
    have hcm : control ∈ ms.maps := findMap_mem hc
    have hinit : NodeDef ms (initAcc ms control).st.node := by
      have hf : controlFile h = ctl401 ∨ controlFile h = ctl501 := by
        unfold controlFile; split
        · exact Or.inr rfl
        · exact Or.inl rfl
      obtain ⟨n, sd, hn, hsd⟩ := hci (controlFile h) control hf hc
      exact ⟨n, sd, hn, by rw [fetchIn_map hn]; exact hcm, hsd⟩
    cases hl : runSegs ms ctx control (SegText.delimsOf h) (initAcc ms control) rr.segs with
    | stopped o a =>
      simp only [hl, finish] at hv
      have := runSegs_nv ms ctx control _ _ _ _ _ hl
      rw [hv] at this
      exact this.elim
    | done a =>
      obtain ⟨new, h1, h2⟩ := runSegs_defs ms ctx control hcm _ _ _ _ (initState_ok ms control hcm) hinit hl
      simp only [initAcc, List.nil_append] at h1
      simp only [hl, finish] at hv ⊢
      split at hv
      · simp at hv
      · split
        · rename_i hcr _; simp_all
        · unfold finishDone at hv ⊢
          split at hv
          · simp at hv
          · simp only [h1]; exact h2

theorem lookupDef_mem (m : MapX) (ip : List Nat) (sd : SegDef) (h : lookupDef m ip = some sd) : (ip, sd) ∈ m.defs := by
  unfold lookupDef at h
  split at h
  · rename_i p hp
    simp only [Option.some.injEq] at h
    have h1 := List.mem_of_find?_eq_some hp
    have h2 := List.find?_some hp
    simp only [beq_iff_eq] at h2
    have : p = (ip, sd) := by rw [← h2, ← h]
    rw [← this]; exact h1
  · cases h

/-- `SinkMapsOK` turns a definition into a view -/
theorem view_of_def (ms : Maps) (hs : SinkMapsOK ms) (n : NodeRef) (sd : SegDef) (hn : n.map ∈ ms.maps)
    (hd : lookupDef n.map n.ip = some sd) : ∃ v, nodeView ms (some n.key) = some v :=
  (hs n.map hn (n.ip, sd) (lookupDef_mem _ _ _ hd)).1

/-- every view is one of a definition with well-formed ids -/
theorem view_wfIds (ms : Maps) (hs : SinkMapsOK ms) (k : Option (Str × List Nat)) (v : NodeView)
    (h : nodeView ms k = some v) : Xml.wfIds (xmlDef v.sd) = true := by
  obtain ⟨_, hm, hd, _, _⟩ := nodeView_spec ms k v h
  exact (hs v.map (findMap_in_maps ms _ _ hm) (v.ip, v.sd) (lookupDef_mem _ _ _ hd)).2

/-- **every round of a completed run has a view.**  (REUSABLE: the XML and the HTML sink both need it.) -/
theorem validateRead_views (ms : Maps) (hs : SinkMapsOK ms) (hci : CtlIsaOK ms) (ctx : Ctx) (h : Tokenizer.Header)
    (rr : SegText.ReadResult) (b : Bool) (hv : (validateRead ms ctx h rr).outcome = .verdict b) :
    ∀ o ∈ (validateRead ms ctx h rr).segs, ∃ v, nodeView ms o.node = some v := by
  intro o ho
  obtain ⟨n, sd, hk, hn, hd⟩ := validateRead_defs ms hci ctx h rr b hv o ho
  rw [hk]
  exact view_of_def ms hs n sd hn hd

/-- … whose definition has well-formed ids -/
theorem validateRead_views_wf (ms : Maps) (hs : SinkMapsOK ms) (hci : CtlIsaOK ms) (ctx : Ctx) (h : Tokenizer.Header)
    (rr : SegText.ReadResult) (b : Bool) (hv : (validateRead ms ctx h rr).outcome = .verdict b) :
    ∀ o ∈ (validateRead ms ctx h rr).segs, ∃ v, nodeView ms o.node = some v ∧ Xml.wfIds (xmlDef v.sd) = true := by
  intro o ho
  obtain ⟨v, hview⟩ := validateRead_views ms hs hci ctx h rr b hv o ho
  exact ⟨v, hview, view_wfIds ms hs _ v hview⟩

/-- decidable form of `SinkMapsOK` (Props/DocSinks.lean) -/
def sinkMapsOKB (ms : Maps) : Bool :=
  ms.maps.all (fun m => m.defs.all (fun p => (nodeView ms (some (m.file, p.1))).isSome && Xml.wfIds (xmlDef p.2)))

theorem sinkMapsOK_of_b (ms : Maps) (h : sinkMapsOKB ms = true) : SinkMapsOK ms := by
  intro m hm p hp
  simp only [sinkMapsOKB, List.all_eq_true, Bool.and_eq_true] at h
  obtain ⟨h1, h2⟩ := h m hm p hp
  refine ⟨?_, h2⟩
  cases hv : nodeView ms (some (m.file, p.1)) with
  | none => rw [hv] at h1; cases h1
  | some v => exact ⟨v, rfl⟩

end Pyx12Verif.Doc
