/-
Completeness of the nesting recogniser: a sequence of (normalised) segment views accepted by `properlyNested` is the
flattening of a structured document.  A `Doc` with an open tail is exactly the state of a parser; `extend` appends
one segment to it.
-/
import Pyx12Verif.Proofs.EnvelopeNest

namespace Pyx12Verif.Envelope

/-- the view carries nothing but what the reader consults for that kind of segment (as the views built by `flatten`) -/
def Normal (v : SegView) : Prop :=
  (v.id = idISA → v = mkISA v.ctl) ∧ (v.id = idGS → v = mkGS v.ctl) ∧ (v.id = idST → v = mkST v.ctl) ∧
  (v.id = idSE → v = mkSE v.cnt v.ctl) ∧ (v.id = idGE → v = mkGE v.cnt v.ctl) ∧ (v.id = idIEA → v = mkIEA v.cnt v.ctl)

def levelOf (d : Doc) : Level :=
  match d.tail with
  | none => .top
  | some oi =>
    match oi.last with
    | none => .inIsa
    | some og =>
      match og.last with
      | none => .inGs
      | some _ => .inSt

def extend (d : Doc) (v : SegView) : Doc :=
  match d.tail with
  | none => { d with tail := some ⟨v.ctl, [], none⟩ }
  | some oi =>
    match oi.last with
    | none =>
      if v.id = idGS then { d with tail := some { oi with last := some ⟨v.ctl, [], none⟩ } }
      else { complete := d.complete ++ [⟨oi.isaCtl, oi.groups, v.cnt, v.ctl⟩], tail := none }
    | some og =>
      match og.last with
      | none =>
        if v.id = idST then { d with tail := some { oi with last := some { og with last := some ⟨v.ctl, []⟩ } } }
        else { d with tail := some { oi with groups := oi.groups ++ [⟨og.gsCtl, og.sets, v.cnt, v.ctl⟩], last := none } }
      | some os =>
        if v.id = idSE then
          { d with tail := some { oi with last := some { og with sets := og.sets ++ [⟨os.stCtl, os.body, v.cnt, v.ctl⟩],
                                                                 last := none } } }
        else { d with tail := some { oi with last := some { og with last := some { os with body := os.body ++ [v] } } } }

theorem flattenSets_append (a b : List TSet) : flattenSets (a ++ b) = flattenSets a ++ flattenSets b := by
  induction a with
  | nil => rfl
  | cons t r ih => simp [flattenSets, ih]

theorem flattenGroups_append (a b : List Group) : flattenGroups (a ++ b) = flattenGroups a ++ flattenGroups b := by
  induction a with
  | nil => rfl
  | cons t r ih => simp [flattenGroups, ih]

theorem flatten_append (a b : List Interchange) : flatten (a ++ b) = flatten a ++ flatten b := by
  induction a with
  | nil => rfl
  | cons t r ih => simp [flatten, ih]

/-- body segments of all (complete and open) sets are not envelope segments -/
def DocBodyOk (d : Doc) : Prop := DocDomain false d

theorem bodyDom_false (body : List SegView) : BodyDom false body ↔ BodyOk body := by
  simp [BodyDom]

theorem extend_spec (d : Doc) (v : SegView) (l' : Level) (hn : Normal v) (hs : nestStep (levelOf d) v = some l')
    (hd : DocBodyOk d) :
    flattenDoc (extend d v) = flattenDoc d ++ [v] ∧ levelOf (extend d v) = l' ∧ DocBodyOk (extend d v) := by
  obtain ⟨n1, n2, n3, n4, n5, n6⟩ := hn
  obtain ⟨complete, tail⟩ := d
  obtain ⟨hd1, hd2⟩ := hd
  simp only at hd1
  cases tail with
  | none =>
    simp only [levelOf, nestStep] at hs
    by_cases h : v.id = idISA
    · simp only [h, if_true] at hs; injection hs with hs; subst hs
      refine ⟨?_, rfl, ?_⟩
      · rw [n1 h]; simp [extend, flattenDoc, flattenTail, flattenGroups, flattenOpenGroup, mkISA]
      · simp only [DocBodyOk, DocDomain, extend]
        exact ⟨hd1, by simp [GroupsDom], by simp [OpenGroupDom]⟩
    · simp [h] at hs
  | some oi =>
    obtain ⟨ictl, groups, last⟩ := oi
    simp only at hd2
    obtain ⟨hd2, hd3⟩ := hd2
    cases last with
    | none =>
      simp only [levelOf, nestStep] at hs
      by_cases h : v.id = idGS
      · simp only [h, if_true] at hs; injection hs with hs; subst hs
        refine ⟨?_, by simp [extend, h, levelOf], ?_⟩
        · rw [n2 h]; simp [extend, flattenDoc, flattenTail, flattenOpenGroup, flattenSets, flattenOpenSet, mkGS, idGS]
        · simp only [DocBodyOk, DocDomain, extend, h, if_true]
          exact ⟨hd1, hd2, by simp [OpenGroupDom, SetsDom]⟩
      · by_cases h' : v.id = idIEA
        · simp only [h', if_true] at hs; injection hs with hs; subst hs
          refine ⟨?_, by simp [extend, h, levelOf], ?_⟩
          · rw [n6 h']
            simp [extend, flattenDoc, flattenTail, flattenOpenGroup, flatten_append, flatten, flattenInterchange, mkIEA,
              show idIEA ≠ idGS by decide]
          · simp only [DocBodyOk, DocDomain, extend, h, if_false, and_true]
            intro i hi
            rcases List.mem_append.mp hi with hi | hi
            · exact hd1 i hi
            · simp at hi; subst hi; exact hd2
        · simp [h, h'] at hs
    | some og =>
      obtain ⟨gctl, sets, last2⟩ := og
      simp only [OpenGroupDom] at hd3
      obtain ⟨hd3, hd4⟩ := hd3
      cases last2 with
      | none =>
        simp only [levelOf, nestStep] at hs
        by_cases h : v.id = idST
        · simp only [h, if_true] at hs; injection hs with hs; subst hs
          refine ⟨?_, by simp [extend, h, levelOf], ?_⟩
          · rw [n3 h]; simp [extend, flattenDoc, flattenTail, flattenOpenGroup, flattenOpenSet, mkST, idST]
          · simp only [DocBodyOk, DocDomain, extend, h, if_true, OpenGroupDom]
            exact ⟨hd1, hd2, hd3, by simp [BodyDom, BodyOk]⟩
        · by_cases h' : v.id = idGE
          · simp only [h', if_true] at hs; injection hs with hs; subst hs
            refine ⟨?_, by simp [extend, h, levelOf], ?_⟩
            · rw [n5 h']
              simp [extend, flattenDoc, flattenTail, flattenOpenGroup, flattenOpenSet, flattenGroups_append, flattenGroups,
                flattenGroup, mkGE, show idGE ≠ idST by decide]
            · simp only [DocBodyOk, DocDomain, extend, h, if_false, OpenGroupDom, and_true]
              refine ⟨hd1, ?_⟩
              intro g hg
              rcases List.mem_append.mp hg with hg | hg
              · exact hd2 g hg
              · simp at hg; subst hg; exact hd3
          · simp [h, h'] at hs
      | some os =>
        obtain ⟨sctl, body⟩ := os
        simp only at hd4
        simp only [levelOf, nestStep] at hs
        by_cases h : v.id = idSE
        · simp only [h, if_true] at hs; injection hs with hs; subst hs
          refine ⟨?_, by simp [extend, h, levelOf], ?_⟩
          · rw [n4 h]
            simp [extend, flattenDoc, flattenTail, flattenOpenGroup, flattenOpenSet, flattenSets_append, flattenSets,
              flattenSet, mkSE]
          · simp only [DocBodyOk, DocDomain, extend, h, if_true, OpenGroupDom, and_true]
            refine ⟨hd1, hd2, ?_⟩
            intro t ht
            rcases List.mem_append.mp ht with ht | ht
            · exact hd3 t ht
            · simp at ht; subst ht; exact hd4
        · by_cases h' : isEnvId v.id = true
          · simp [h, h'] at hs
          · simp only [h, h', if_false] at hs; injection hs with hs; subst hs
            refine ⟨?_, by simp [extend, h, levelOf], ?_⟩
            · simp [extend, h, flattenDoc, flattenTail, flattenOpenGroup, flattenOpenSet]
            · simp only [DocBodyOk, DocDomain, extend, h, if_false, OpenGroupDom]
              refine ⟨hd1, hd2, hd3, ?_⟩
              rw [bodyDom_false] at hd4 ⊢
              intro w hw
              rcases List.mem_append.mp hw with hw | hw
              · exact hd4 w hw
              · simp at hw; subst hw; simpa using h'

theorem parse_from (s : List SegView) : ∀ (d : Doc), DocBodyOk d → (∀ v ∈ s, Normal v) →
    nestedFrom (levelOf d) s = true → ∃ d', DocBodyOk d' ∧ flattenDoc d' = flattenDoc d ++ s := by
  induction s with
  | nil => intro d hd _ _; exact ⟨d, hd, by simp⟩
  | cons v r ih =>
    intro d hd hn h
    simp only [nestedFrom] at h
    cases hs : nestStep (levelOf d) v with
    | none => simp [hs] at h
    | some l' =>
      simp only [hs] at h
      obtain ⟨e1, e2, e3⟩ := extend_spec d v l' (hn v (by simp)) hs hd
      obtain ⟨d', hd', hf⟩ := ih (extend d v) e3 (fun w hw => hn w (by simp [hw])) (by rw [e2]; exact h)
      exact ⟨d', hd', by rw [hf, e1]; simp⟩

/-- an accepted sequence of normalised views is the flattening of a structured document -/
theorem nested_is_flattening (s : List SegView) (hn : ∀ v ∈ s, Normal v) (h : properlyNested s = true) :
    ∃ d : Doc, DocBodyOk d ∧ flattenDoc d = s := by
  obtain ⟨d', hd', hf⟩ := parse_from s ⟨[], none⟩ (by simp [DocBodyOk, DocDomain, InDomain]) hn h
  exact ⟨d', hd', by simpa [flattenDoc, flatten, flattenTail] using hf⟩

end Pyx12Verif.Envelope
