/-
Helper lemmas for C15: the Boolean tests of the element model against the declarative notions of
Spec/ElemValid.lean.
-/
import Pyx12Verif.Spec.ElemValid
import Pyx12Verif.Props.C13

namespace Pyx12Verif.ElemValid
open Pyx12Verif.Validation

theorem hasControl_iff (v : List Char) : hasControl v = true ↔ HasControl v := by
  induction v with
  | nil => simp [hasControl, HasControl]
  | cons c r ih =>
    simp only [hasControl, Bool.or_eq_true, ih, HasControl, List.mem_cons, exists_eq_or_imp, List.contains_iff_mem]

theorem stripSignPoint_length (v : List Char) :
    (stripSignPoint v).length + (v.count '-' + v.count '.') = v.length := by
  induction v with
  | nil => simp [stripSignPoint]
  | cons c r ih =>
    simp only [stripSignPoint, List.count_cons]
    by_cases h1 : c = '-'
    · subst h1; simp; omega
    · by_cases h2 : c = '.'
      · subst h2; simp; omega
      · simp [h1, h2]; omega

theorem startsWithN_iff (ty : List Char) : startsWithN ty = true ↔ ∃ sfx, ty = 'N' :: sfx := by
  cases ty with
  | nil => simp [startsWithN]
  | cons c r => simp [startsWithN]

theorem isNumType_iff (ty : List Char) : isNumType ty = true ↔ NumericType ty := by
  simp [isNumType, NumericType, startsWithN_iff]

theorem isDateType_iff (ty : List Char) : isDateType ty = true ↔ DateType ty := by
  simp [isDateType, DateType, or_assoc]

theorem isTextType_iff (ty : List Char) : isTextType ty = true ↔ TextType ty := by
  simp [isTextType, TextType]

theorem effLen_spec (ty v : List Char) (n : Nat) : LenOf ty v n ↔ n = effLen ty v := by
  unfold LenOf effLen EffLen
  have := stripSignPoint_length v
  by_cases h : isNumType ty = true
  · have h' := (isNumType_iff ty).1 h
    simp [h, h']; omega
  · have h' : ¬ NumericType ty := fun x => h ((isNumType_iff ty).2 x)
    simp [h, h']


theorem isValidDataType_iff (v ty : List Char) (e x : Bool) :
    isValidDataType v ty e x = true ↔ InLang ty (pickCharset e x) v := by
  by_cases h0 : ty = []
  · subst h0; simp [isValidDataType, InLang]
  by_cases hN : ∃ sfx, ty = 'N' :: sfx
  · obtain ⟨sfx, rfl⟩ := hN
    rw [dispatch_N]; simp [InLang, tyR, tyID, tyAN, tyRD8, tyDT, tyD8, tyD6, tyTM]
  by_cases hR : ty = tyR
  · subst hR; unfold tyR; rw [dispatch_R]; simp [InLang, tyR, tyID, tyAN, tyRD8, tyDT, tyD8, tyD6, tyTM]
  by_cases hID : ty = tyID
  · subst hID; unfold tyID; rw [dispatch_ID]; simp [InLang, tyR, tyID, tyAN, tyRD8, tyDT, tyD8, tyD6, tyTM]
  by_cases hAN : ty = tyAN
  · subst hAN; unfold tyAN; rw [dispatch_AN]; simp [InLang, tyR, tyID, tyAN, tyRD8, tyDT, tyD8, tyD6, tyTM]
  by_cases hRD8 : ty = tyRD8
  · subst hRD8; unfold tyRD8; rw [dispatch_RD8]; simp [InLang, tyR, tyID, tyAN, tyRD8, tyDT, tyD8, tyD6, tyTM]
  by_cases hDT : ty = tyDT
  · subst hDT; unfold tyDT; rw [dispatch_DT]; simp [InLang, tyR, tyID, tyAN, tyRD8, tyDT, tyD8, tyD6, tyTM]
  by_cases hD8 : ty = tyD8
  · subst hD8; unfold tyD8; rw [dispatch_D8]; simp [InLang, tyR, tyID, tyAN, tyRD8, tyDT, tyD8, tyD6, tyTM]
  by_cases hD6 : ty = tyD6
  · subst hD6; unfold tyD6; rw [dispatch_D6]; simp [InLang, tyR, tyID, tyAN, tyRD8, tyDT, tyD8, tyD6, tyTM]
  by_cases hTM : ty = tyTM
  · subst hTM; unfold tyTM; rw [dispatch_TM]; simp [InLang, tyR, tyID, tyAN, tyRD8, tyDT, tyD8, tyD6, tyTM]
  by_cases hB : ty = ['B']
  · subst hB; simp [isValidDataType, InLang, startsWithN]
  have hs : startsWithN ty = false := by
    cases hh : startsWithN ty with
    | false => rfl
    | true => exact absurd ((startsWithN_iff ty).1 hh) hN
  simp only [tyR, tyID, tyAN, tyRD8, tyDT, tyD8, tyD6, tyTM] at hR hID hAN hRD8 hDT hD8 hD6 hTM
  simp [isValidDataType, InLang, hs, h0, hN, hR, hID, hAN, hRD8, hDT, hD8, hD6, hTM, hB,
    tyR, tyID, tyAN, tyRD8, tyDT, tyD8, tyD6, tyTM]

theorem anyType_iff (ctx : Ctx) (v : List Char) (tl : List (List Char)) :
    anyType ctx v tl = true ↔ InSomeLang tl ctx.extended v := by
  induction tl with
  | nil => simp [anyType, InSomeLang]
  | cons t r ih =>
    simp only [anyType, Bool.or_eq_true, ih, isValidDataType_iff, InSomeLang, List.mem_cons,
      exists_eq_or_imp]


/-! ### trailing blanks -/

/-- strip trailing blanks only -/
def rstripB : List Char → List Char
  | [] => []
  | c :: r => if (rstripB r).isEmpty && c = ' ' then [] else c :: rstripB r

theorem rstripB_replicate (k : Nat) : rstripB (List.replicate k ' ') = [] := by
  induction k with
  | zero => simp [rstripB]
  | succ n ih => simp [List.replicate_succ, rstripB, ih]

theorem rstripB_append (body : List Char) (k : Nat) (h : body.getLast? ≠ some ' ') :
    rstripB (body ++ List.replicate k ' ') = body := by
  induction body with
  | nil => simpa using rstripB_replicate k
  | cons c b ih =>
    cases b with
    | nil =>
      have hc : c ≠ ' ' := by simpa using h
      simp [rstripB, rstripB_replicate, hc]
    | cons c2 b2 =>
      have h2 : (c2 :: b2).getLast? ≠ some ' ' := by simpa [List.getLast?_cons_cons] using h
      have := ih h2
      simp only [List.cons_append] at this ⊢
      rw [rstripB, this]; simp

theorem rstripB_decomp (v : List Char) :
    ∃ k, v = rstripB v ++ List.replicate k ' ' ∧ (rstripB v).getLast? ≠ some ' ' := by
  induction v with
  | nil => exact ⟨0, by simp [rstripB]⟩
  | cons c r ih =>
    obtain ⟨k, hk, hl⟩ := ih
    simp only [rstripB]
    by_cases hc : ((rstripB r).isEmpty && decide (c = ' ')) = true
    · simp only [hc, if_true]
      simp only [Bool.and_eq_true, List.isEmpty_iff, decide_eq_true_eq] at hc
      refine ⟨k + 1, ?_, by simp⟩
      rw [hc.1] at hk
      rw [hc.2, List.replicate_succ]; simpa using hk
    · simp only [hc]
      refine ⟨k, by simpa using hk, ?_⟩
      cases hr : rstripB r with
      | nil =>
        have : c ≠ ' ' := by
          intro e; apply hc; simp [hr, e]
        simpa using this
      | cons c2 r2 =>
        rw [hr] at hl
        simpa [List.getLast?_cons_cons] using hl

theorem endsBlank_iff (v : List Char) : endsBlank v = true ↔ v.getLast? = some ' ' := by
  induction v with
  | nil => simp [endsBlank]
  | cons c r ih =>
    cases r with
    | nil => simp [endsBlank]
    | cons c2 r2 => rw [endsBlank, List.getLast?_cons_cons]; simpa using ih

theorem getLast_append_blanks (body : List Char) (k : Nat) (hk : 0 < k) :
    (body ++ List.replicate k ' ').getLast? = some ' ' := by
  cases k with
  | zero => omega
  | succ n => simp [List.replicate_succ', ← List.append_assoc]

theorem needless_iff (m : Nat) (v : List Char) :
    NeedlessBlanks m v ↔ endsBlank v = true ∧ m ≤ (rstripB v).length := by
  constructor
  · rintro ⟨body, k, hk, rfl, hl, hm⟩
    rw [rstripB_append body k hl, endsBlank_iff]
    exact ⟨getLast_append_blanks body k hk, hm⟩
  · rintro ⟨he, hm⟩
    obtain ⟨k, hk, hl⟩ := rstripB_decomp v
    refine ⟨rstripB v, k, ?_, hk, hl, hm⟩
    cases k with
    | succ n => omega
    | zero =>
      exfalso
      simp only [List.replicate_zero, List.append_nil] at hk
      rw [endsBlank_iff, hk] at he
      exact hl he

theorem isSpace_blank : isSpace ' ' = true := by decide

theorem rstrip_eq_rstripB (v : List Char) (h : ∀ c ∈ v, isSpace c = true → c = ' ') :
    rstrip v = rstripB v := by
  induction v with
  | nil => simp [rstrip, rstripB]
  | cons c r ih =>
    have hr := ih (fun x hx => h x (List.mem_cons_of_mem _ hx))
    have hc : isSpace c = decide (c = ' ') := by
      by_cases e : c = ' '
      · subst e; simp [isSpace_blank]
      · have : isSpace c ≠ true := fun hs => e (h c (by simp) hs)
        simp [e, this]
    simp only [rstrip, rstripB, hr, hc]

theorem rstrip_le_rstripB (v : List Char) : (rstrip v).length ≤ (rstripB v).length := by
  induction v with
  | nil => simp [rstrip, rstripB]
  | cons c r ih =>
    simp only [rstrip, rstripB]
    by_cases h1 : ((rstrip r).isEmpty && isSpace c) = true
    · simp [h1]
    · by_cases h2 : ((rstripB r).isEmpty && decide (c = ' ')) = true
      · exfalso; apply h1
        simp only [Bool.and_eq_true, List.isEmpty_iff, decide_eq_true_eq] at h2
        have : (rstrip r).length = 0 := by rw [h2.1] at ih; simpa using ih
        simp [List.eq_nil_of_length_eq_zero this, h2.2, isSpace_blank]
      · simp only [h1, h2]; simp; omega

theorem ws_in_class (cs : Charset) : ∀ n ∈ wsCodes, n ∈ specCodes cs → n = 32 := by
  cases cs <;> decide

theorem inCharset_spaces (cs : Charset) (v : List Char) (h : InCharset cs v) :
    ∀ c ∈ v, isSpace c = true → c = ' ' := by
  intro c hc hs
  have h1 := h c hc
  have h2 : c.toNat ∈ wsCodes := by simpa [isSpace, List.contains_iff_mem] using hs
  have := ws_in_class cs _ h2 h1
  exact (char_eq_iff c ' ').2 (by simpa using this)

/-- for a value inside the character set, Python's `rstrip()` removes exactly the trailing blanks -/
theorem trailing_iff_of_inCharset (d : ElemDef) (v : List Char) (cs : Charset) (h : InCharset cs v) :
    (endsBlank v = true ∧ d.minLen ≤ (rstrip v).length) ↔ NeedlessBlanks d.minLen v := by
  rw [needless_iff, rstrip_eq_rstripB v (inCharset_spaces cs v h)]

/-- in general the model's test implies the declarative one -/
theorem trailing_imp_needless (d : ElemDef) (v : List Char)
    (h : endsBlank v = true ∧ d.minLen ≤ (rstrip v).length) : NeedlessBlanks d.minLen v := by
  rw [needless_iff]; exact ⟨h.1, Nat.le_trans h.2 (rstrip_le_rstripB v)⟩

end Pyx12Verif.ElemValid
