/- helper lemmas for C17: what the written-out regex search returns on a printed designator -/
import Pyx12Verif.Proofs.PathSplit
import Pyx12Verif.Spec.Path

namespace Pyx12Verif.Path

theorem char_le_iff (a c : Char) : a ≤ c ↔ a.toNat ≤ c.toNat := by
  rw [Char.le_def, UInt32.le_iff_toNat_le]; rfl

theorem isUpper_iff (c : Char) : isUpper c = true ↔ 65 ≤ c.toNat ∧ c.toNat ≤ 90 := by
  simp only [isUpper, Bool.and_eq_true, decide_eq_true_eq, char_le_iff]; rfl
theorem isDigit_iff (c : Char) : isDigit c = true ↔ 48 ≤ c.toNat ∧ c.toNat ≤ 57 := by
  simp only [isDigit, Bool.and_eq_true, decide_eq_true_eq, char_le_iff]; rfl

theorem digit_not_upper (c : Char) (h : isDigit c = true) : isUpper c = false := by
  rw [isDigit_iff] at h
  cases hu : isUpper c with
  | false => rfl
  | true => rw [isUpper_iff] at hu; omega

theorem digit_isIdChar (c : Char) (h : isDigit c = true) : isIdChar c = true := by
  simp [isIdChar, h]

theorem digit_ne (c d : Char) (h : isDigit c = true) (hd : isDigit d = false) : c ≠ d := by
  intro e; rw [e] at h; rw [h] at hd; cases hd

theorem idChar_ne (c d : Char) (h : isIdChar c = true) (hd : isIdChar d = false) : c ≠ d := by
  intro e; rw [e] at h; rw [h] at hd; cases hd

theorem upper_ne (c d : Char) (h : isUpper c = true) (hd : isUpper d = false) : c ≠ d := by
  intro e; rw [e] at h; rw [h] at hd; cases hd

/-- the text of an element index -/
def eleText : Option Nat → List Char
  | none => []
  | some e => pad2 e

/-! ### `(-digits)?$` -/

theorem matchSub_subPart (c : Option Nat) (hc : ∀ k, c = some k → 1 ≤ k) :
    matchSub (subPart c) = some c := by
  cases c with
  | none => rfl
  | some k =>
    have hk : k ≠ 0 := by have := hc k rfl; omega
    have hs : spanP isDigit (natDigits k) = (natDigits k, []) := by
      have := spanP_append isDigit (natDigits k) [] (natDigits_allDigits k) (by simp)
      simpa using this
    have hne : (natDigits k).isEmpty = false := by
      cases h : natDigits k with
      | nil => exact absurd h (natDigits_ne_nil k)
      | cons a b => rfl
    simp [subPart, hk, matchSub, subGroup, hs, hne, atEnd, num_natDigits]

/-- first character of a printed component index, if any -/
theorem subPart_head (c : Option Nat) :
    subPart c = [] ∨ ∃ d t, subPart c = '-' :: d :: t ∧ isDigit d = true := by
  cases c with
  | none => left; rfl
  | some k =>
    simp only [subPart]; split
    · left; rfl
    · right
      cases h : natDigits k with
      | nil => exact absurd h (natDigits_ne_nil k)
      | cons a b => exact ⟨a, b, rfl, natDigits_allDigits k a (by simp [h])⟩

/-! ### `(dd)?(-digits)?$` -/

theorem eleGroup_subPart (c : Option Nat) : eleGroup (subPart c) = none := by
  rcases subPart_head c with h | ⟨d, t, h, _⟩
  · rw [h]; rfl
  · rw [h]; simp [eleGroup, show isDigit '-' = false by decide]

theorem matchEle_text (e c : Option Nat) (he : ∀ k, e = some k → k ≤ 99)
    (hc : ∀ k, c = some k → 1 ≤ k) : matchEle (eleText e ++ subPart c) = some (e, c) := by
  cases e with
  | none =>
    simp [eleText, matchEle, eleGroup_subPart, matchSub_subPart c hc]
  | some k =>
    obtain ⟨d1, d2, hp, h1, h2, hn⟩ := pad2_two k (he k rfl)
    simp [eleText, hp, matchEle, eleGroup, h1, h2, matchSub_subPart c hc, hn]

/-- what a printed `ee-c` tail starts with -/
theorem eleTail_head (e c : Option Nat) (he : ∀ k, e = some k → k ≤ 99) :
    eleText e ++ subPart c = [] ∨
    ∃ x t, eleText e ++ subPart c = x :: t ∧ (isDigit x = true ∨ x = '-') := by
  cases e with
  | none =>
    rcases subPart_head c with h | ⟨d, t, h, _⟩
    · left; simp [eleText, h]
    · right; exact ⟨'-', d :: t, by simp [eleText, h], Or.inr rfl⟩
  | some k =>
    obtain ⟨d1, d2, hp, h1, _, _⟩ := pad2_two k (he k rfl)
    right; exact ⟨d1, d2 :: subPart c, by simp [eleText, hp], Or.inl h1⟩

/-! ### `(\[q\])?(dd)?(-digits)?$` -/

/-- the text of a qualifier -/
def qualText : Option (List Char) → List Char
  | none => []
  | some q => '[' :: q ++ [']']

theorem qualGroup_eleTail (e c : Option Nat) (he : ∀ k, e = some k → k ≤ 99) :
    qualGroup (eleText e ++ subPart c) = none := by
  rcases eleTail_head e c he with h | ⟨x, t, h, hx⟩
  · rw [h]; rfl
  · rw [h]
    have : x ≠ '[' := by
      rcases hx with hx | hx
      · exact digit_ne x '[' hx (by decide)
      · rw [hx]; decide
    simp [qualGroup, this]

theorem matchQual_text (q : Option (List Char)) (e c : Option Nat)
    (hq : ∀ s, q = some s → s ≠ [] ∧ ∀ x ∈ s, isIdChar x = true)
    (he : ∀ k, e = some k → k ≤ 99) (hc : ∀ k, c = some k → 1 ≤ k) :
    matchQual (qualText q ++ (eleText e ++ subPart c)) = some ⟨none, q, e, c⟩ := by
  cases q with
  | none =>
    simp [qualText, matchQual, qualGroup_eleTail e c he, matchEle_text e c he hc]
  | some s =>
    obtain ⟨hne, hall⟩ := hq s rfl
    have hs : spanP isIdChar (s ++ (']' :: (eleText e ++ subPart c))) =
        (s, ']' :: (eleText e ++ subPart c)) :=
      spanP_append isIdChar s _ hall (by
        intro ch r' h; simp only [List.cons.injEq] at h; rw [← h.1]; decide)
    have hemp : s.isEmpty = false := by
      cases s with
      | nil => exact absurd rfl hne
      | cons a b => rfl
    simp [qualText, matchQual, qualGroup, hs, qualClose, hemp, matchEle_text e c he hc]

/-- a digit followed by a printed component index is not matched by the tail of the pattern -/
theorem matchQual_digit_sub (d : Char) (hd : isDigit d = true) (c : Option Nat) :
    matchQual (d :: subPart c) = none := by
  have h1 : d ≠ '[' := digit_ne d '[' hd (by decide)
  have h2 : d ≠ '-' := digit_ne d '-' hd (by decide)
  have h3 : d ≠ '\n' := digit_ne d '\n' hd (by decide)
  rcases subPart_head c with h | ⟨x, t, h, _⟩
  · rw [h]; simp [matchQual, qualGroup, h1, matchEle, eleGroup, matchSub, subGroup, h2, atEnd, h3]
  · rw [h]
    simp [matchQual, qualGroup, h1, matchEle, eleGroup, matchSub, subGroup, h2, atEnd,
      show isDigit '-' = false by decide]

/-! ### the seg-id group -/

theorem trySeg_not_upper (n : Nat) (s : List Char)
    (h : ∀ c r, s = c :: r → isUpper c = false) : trySeg (n + 1) s = none := by
  cases s with
  | nil => simp [trySeg]
  | cons c r => simp [trySeg, segShape, h c r rfl]

theorem matchLast_no_seg (s : List Char) (h : ∀ c r, s = c :: r → isUpper c = false) :
    matchLast s = matchQual s := by
  simp [matchLast, trySeg_not_upper 2 s h, trySeg_not_upper 1 s h]

/-- the text that may follow a segment id -/
def tailText (q : Option (List Char)) (e c : Option Nat) : List Char :=
  qualText q ++ (eleText e ++ subPart c)

theorem tail_not_upper (q : Option (List Char)) (e c : Option Nat) (he : ∀ k, e = some k → k ≤ 99) :
    ∀ ch r, tailText q e c = ch :: r → isUpper ch = false := by
  intro ch r h
  cases q with
  | some s => simp [tailText, qualText] at h; rw [← h.1]; decide
  | none =>
    simp only [tailText, qualText, List.nil_append] at h
    rcases eleTail_head e c he with h0 | ⟨x, t, hx, hd⟩
    · rw [h0] at h; cases h
    · rw [hx] at h; simp only [List.cons.injEq] at h; rw [← h.1]
      rcases hd with hd | hd
      · exact digit_not_upper x hd
      · rw [hd]; decide

theorem matchLast_seg (s : List Char) (hs : SegIdOK s) (q : Option (List Char)) (e c : Option Nat)
    (hq : ∀ t, q = some t → t ≠ [] ∧ ∀ x ∈ t, isIdChar x = true)
    (he : ∀ k, e = some k → k ≤ 99) (hc : ∀ k, c = some k → 1 ≤ k) :
    matchLast (s ++ tailText q e c) = some ⟨some s, q, e, c⟩ := by
  have hm := matchQual_text q e c hq he hc
  obtain ⟨hlen, hall, a, r, rfl, ha⟩ := hs
  rcases hlen with h2 | h3
  · -- two characters: the three-character attempt fails, the two-character one succeeds
    match r, h2 with
    | [b], _ =>
      have hb : isIdChar b = true := hall b (by simp)
      have t3 : trySeg 3 ([a, b] ++ tailText q e c) = none := by
        cases q with
        | some t =>
          simp [tailText, qualText, trySeg, segShape, ha, hb, show isIdChar '[' = false by decide]
        | none =>
          cases e with
          | none =>
            rcases subPart_head c with h | ⟨x, t, h, _⟩
            · simp [tailText, qualText, eleText, h, trySeg]
            · simp [tailText, qualText, eleText, h, trySeg, segShape, ha, hb,
                show isIdChar '-' = false by decide]
          | some k =>
            obtain ⟨d1, d2, hp, h1, hd2, _⟩ := pad2_two k (he k rfl)
            simp [tailText, qualText, eleText, hp, trySeg, segShape, ha, hb, digit_isIdChar d1 h1,
              matchQual_digit_sub d2 hd2 c]
      have t2 : trySeg 2 ([a, b] ++ tailText q e c) = some ⟨some [a, b], q, e, c⟩ := by
        have : matchQual (tailText q e c) = some ⟨none, q, e, c⟩ := hm
        simp [trySeg, segShape, ha, hb, this, withSeg]
      simp only [matchLast, t3, t2]
  · match r, h3 with
    | [b, c3], _ =>
      have hb : isIdChar b = true := hall b (by simp)
      have hc3 : isIdChar c3 = true := hall c3 (by simp)
      have : matchQual (tailText q e c) = some ⟨none, q, e, c⟩ := hm
      simp [matchLast, trySeg, segShape, ha, hb, hc3, this, withSeg]

theorem matchLast_tail (q : Option (List Char)) (e c : Option Nat)
    (hq : ∀ t, q = some t → t ≠ [] ∧ ∀ x ∈ t, isIdChar x = true)
    (he : ∀ k, e = some k → k ≤ 99) (hc : ∀ k, c = some k → 1 ≤ k) :
    matchLast (tailText q e c) = some ⟨none, q, e, c⟩ := by
  rw [matchLast_no_seg _ (tail_not_upper q e c he)]
  exact matchQual_text q e c hq he hc

end Pyx12Verif.Path
