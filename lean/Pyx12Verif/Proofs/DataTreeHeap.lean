/- C10 helper (sharing): the heap-style variant refines the pure model; `copy()` allocates fresh cells. -/
import Pyx12Verif.Model.DataTreeH
import Pyx12Verif.Proofs.DataTree

namespace Pyx12Verif.DataTree

/-- every composite reference of the tree points into the heap -/
def WFH (H : Heap) (n : DNodeH) : Prop := ∀ l : Nat, l ∈ locs n → l < H.length
def WFHList (H : Heap) (cs : List DNodeH) : Prop := ∀ l : Nat, l ∈ locsList cs → l < H.length

/-! ## cells -/

theorem cell_append_lt (H ext : Heap) (l : Nat) (h : l < H.length) : cell (H ++ ext) l = cell H l := by
  simp [cell, List.getD, List.getElem?_append_left h]

theorem cell_append_new (H ext : Heap) :
    (List.range' H.length ext.length).map (cell (H ++ ext)) = ext := by
  apply List.ext_getElem
  · simp
  · intro i h1 h2
    simp only [List.getElem_map, List.getElem_range', cell, List.getD, Nat.one_mul]
    rw [List.getElem?_append_right (Nat.le_add_right _ _)]
    simp [h2]

theorem cell_set_ne (H : Heap) (l l' : Nat) (c : List Str) (h : l' ≠ l) : cell (H.set l c) l' = cell H l' := by
  simp [cell, List.getD, List.getElem?_set_ne (Ne.symm h)]

theorem derefSeg_ext (H ext : Heap) (s : SegH) (h : ∀ l ∈ s.els, l < H.length) :
    derefSeg (H ++ ext) s = derefSeg H s := by
  simp only [derefSeg, Seg.mk.injEq, and_true, true_and]
  exact List.map_congr_left (fun l hl => cell_append_lt H ext l (h l hl))

theorem derefSeg_set (H : Heap) (s : SegH) (l : Loc) (c : List Str) (h : l ∉ s.els) :
    derefSeg (H.set l c) s = derefSeg H s := by
  simp only [derefSeg, Seg.mk.injEq, and_true, true_and]
  exact List.map_congr_left (fun l' hl' => cell_set_ne H l l' c (fun e => h (e ▸ hl')))

/-! ## reading is insensitive to allocation and to writes elsewhere -/

theorem abstr_ext (H ext : Heap) (n : DNodeH) (h : WFH H n) : abstr (H ++ ext) n = abstr H n := by
  revert h
  refine DNodeH.rec (motive_1 := fun n => WFH H n → abstr (H ++ ext) n = abstr H n)
    (motive_2 := fun cs => WFHList H cs → abstrList (H ++ ext) cs = abstrList H cs) ?_ ?_ ?_ ?_ ?_ n
  · intro d s h
    simp only [abstr]
    rw [derefSeg_ext H ext s (fun l hl => h l (by simpa [locs] using hl))]
  · intro hd mk cs ih h
    simp only [abstr]
    rw [ih (fun l hl => h l (by simpa [locs] using hl))]
  · intro _; rfl
  · intro _; rfl
  · intro c r ihc ihr h
    simp only [abstrList]
    rw [ihc (fun l hl => h l (by simp [locsList, hl])), ihr (fun l hl => h l (by simp [locsList, hl]))]

theorem abstrList_ext (H ext : Heap) (cs : List DNodeH) (h : WFHList H cs) :
    abstrList (H ++ ext) cs = abstrList H cs := by
  induction cs with
  | nil => rfl
  | cons c r ih =>
    simp only [abstrList]
    rw [abstr_ext H ext c (fun l hl => h l (by simp [locsList, hl])),
      ih (fun l hl => h l (by simp [locsList, hl]))]

/-- **frame**: a write to a cell the tree does not reach leaves every read of the tree unchanged -/
theorem abstr_write_frame (H : Heap) (n : DNodeH) (l : Loc) (c : List Str) (h : l ∉ locs n) :
    abstr (H.set l c) n = abstr H n := by
  revert h
  refine DNodeH.rec (motive_1 := fun n => l ∉ locs n → abstr (H.set l c) n = abstr H n)
    (motive_2 := fun cs => l ∉ locsList cs → abstrList (H.set l c) cs = abstrList H cs) ?_ ?_ ?_ ?_ ?_ n
  · intro d s h
    simp only [abstr]
    rw [derefSeg_set H s l c (by simpa [locs] using h)]
  · intro hd mk cs ih h
    simp only [abstr]
    rw [ih (by simpa [locs] using h)]
  · intro _; rfl
  · intro _; rfl
  · intro c' r ihc ihr h
    simp only [locsList, List.mem_append, not_or] at h
    simp only [abstrList]
    rw [ihc h.1, ihr h.2]

theorem abstr_writes_frame (H : Heap) (n : DNodeH) (ws : List (Loc × List Str)) (h : ∀ w ∈ ws, w.1 ∉ locs n) :
    abstr (writeCells H ws) n = abstr H n := by
  induction ws generalizing H with
  | nil => rfl
  | cons w r ih =>
    simp only [writeCells, List.foldl_cons]
    have := ih (writeCell H w) (fun w' hw' => h w' (by simp [hw']))
    simp only [writeCells] at this
    rw [this]
    exact abstr_write_frame H n w.1 w.2 (h w (by simp))

/-- reading a tree depends on nothing but the cells it reaches -/
theorem abstr_congr (H1 H2 : Heap) (n : DNodeH) (h : ∀ l : Nat, l ∈ locs n → cell H1 l = cell H2 l) :
    abstr H1 n = abstr H2 n := by
  revert h
  refine DNodeH.rec (motive_1 := fun n => (∀ l : Nat, l ∈ locs n → cell H1 l = cell H2 l) → abstr H1 n = abstr H2 n)
    (motive_2 := fun cs => (∀ l : Nat, l ∈ locsList cs → cell H1 l = cell H2 l) → abstrList H1 cs = abstrList H2 cs)
    ?_ ?_ ?_ ?_ ?_ n
  · intro d s h
    simp only [abstr, derefSeg]
    rw [List.map_congr_left (fun l hl => h l (by simpa [locs] using hl))]
  · intro hd mk cs ih h
    simp only [abstr]
    rw [ih (fun l hl => h l (by simpa [locs] using hl))]
  · intro _; rfl
  · intro _; rfl
  · intro c r ihc ihr h
    simp only [abstrList]
    rw [ihc (fun l hl => h l (by simp [locsList, hl])), ihr (fun l hl => h l (by simp [locsList, hl]))]

/-- the cells below `k` hold in `H'` what they hold in `H` -/
def AgreeBelow (k : Nat) (H H' : Heap) : Prop := ∀ l : Nat, l < k → cell H' l = cell H l

theorem agreeBelow_step (k : Nat) (H H' : Heap) (st : HeapStep) (hk : k ≤ H'.length) (h : AgreeBelow k H H')
    (hw : ∀ l c, st = .write l c → k ≤ l) : AgreeBelow k H (heapStep H' st) ∧ k ≤ (heapStep H' st).length := by
  cases st with
  | write l c =>
    refine ⟨?_, by simp [heapStep, hk]⟩
    intro l' hl'
    have : k ≤ l := hw l c rfl
    simp only [heapStep]
    rw [cell_set_ne H' l l' c (by omega)]
    exact h l' hl'
  | alloc c =>
    refine ⟨?_, by simp [heapStep]; omega⟩
    intro l' hl'
    simp only [heapStep]
    rw [cell_append_lt H' [c] l' (by omega)]
    exact h l' hl'

/-- **frame for the fresh region**: whatever is written at locations `≥ k` and however many cells are allocated,
a tree whose cells all lie below `k` reads the same -/
theorem abstr_heapRun_frame (k : Nat) (H : Heap) (m : DNodeH) (hm : ∀ l : Nat, l ∈ locs m → l < k)
    (steps : List HeapStep) (hs : ∀ l c, HeapStep.write l c ∈ steps → k ≤ l) :
    ∀ H' : Heap, k ≤ H'.length → AgreeBelow k H H' → abstr (heapRun H' steps) m = abstr H m := by
  induction steps with
  | nil =>
    intro H' _ ha
    exact abstr_congr H' H m (fun l hl => ha l (hm l hl))
  | cons st r ih =>
    intro H' hk ha
    obtain ⟨h1, h2⟩ := agreeBelow_step k H H' st hk ha (fun l c e => hs l c (by simp [e]))
    simp only [heapRun, List.foldl_cons]
    exact ih (fun l c hm' => hs l c (by simp [hm'])) (heapStep H' st) h2 h1

/-! ## `copy()` -/

theorem segParse_terms (x : Str) (st et sb : Char) :
    (segParse x st et sb).st = st ∧ (segParse x st et sb).et = et ∧ (segParse x st et sb).sub = sb := by
  cases x with
  | nil => simp [segParse]
  | cons c r =>
    simp only [segParse]
    split <;> simp

/-- the copied segment, read out of the new heap, is the pure model's `segCopy` -/
theorem copySegH_spec (H : Heap) (s : SegH) :
    derefSeg (copySegH H s).1 (copySegH H s).2 = segCopy (derefSeg H s) := by
  obtain ⟨h1, h2, h3⟩ := segParse_terms (segFmt (derefSeg H s)) s.st s.et s.sub
  have e : segCopy (derefSeg H s) = segParse (segFmt (derefSeg H s)) s.st s.et s.sub := rfl
  rw [← e] at h1 h2 h3
  simp only [derefSeg, copySegH, cell_append_new]
  cases hc : segCopy { id := s.id, els := s.els.map (cell H), st := s.st, et := s.et, sub := s.sub } with
  | mk i el a b c =>
    have e2 : derefSeg H s = { id := s.id, els := s.els.map (cell H), st := s.st, et := s.et, sub := s.sub } := rfl
    rw [e2, hc] at h1 h2 h3
    simp only at h1 h2 h3
    simp [h1, h2, h3]

theorem isDead_abstr (H : Heap) (c : DNodeH) : isDead (abstr H c) = isDeadH c := by
  cases c <;> rfl

/-- `copy()` only appends cells; every cell of the copy is one of the appended ones; and reading the copy gives
the pure model's `copyNode` of what the original reads as -/
theorem copyH_spec (n : DNodeH) : ∀ H : Heap, WFH H n →
    ∃ ext, (copyH H n).1 = H ++ ext ∧
      (∀ l : Nat, l ∈ locs (copyH H n).2 → H.length ≤ l ∧ l < (copyH H n).1.length) ∧
      abstr (copyH H n).1 (copyH H n).2 = copyNode (abstr H n) := by
  refine DNodeH.rec
    (motive_1 := fun n => ∀ H : Heap, WFH H n →
      ∃ ext, (copyH H n).1 = H ++ ext ∧
        (∀ l : Nat, l ∈ locs (copyH H n).2 → H.length ≤ l ∧ l < (copyH H n).1.length) ∧
        abstr (copyH H n).1 (copyH H n).2 = copyNode (abstr H n))
    (motive_2 := fun cs => ∀ H : Heap, WFHList H cs →
      ∃ ext, (copyKidsH H cs).1 = H ++ ext ∧
        (∀ l : Nat, l ∈ locsList (copyKidsH H cs).2 → H.length ≤ l ∧ l < (copyKidsH H cs).1.length) ∧
        abstrList (copyKidsH H cs).1 (copyKidsH H cs).2 = copyKids (abstrList H cs)) ?_ ?_ ?_ ?_ ?_ n
  · intro d s H _
    refine ⟨(segCopy (derefSeg H s)).els, rfl, ?_, ?_⟩
    · intro l hl
      simp only [copyH, locs, copySegH, List.mem_range'_1] at hl
      simp only [copyH, copySegH, List.length_append]
      omega
    · simp only [copyH, abstr, copyNode, copySegH_spec]
  · intro hd mk cs ih H h
    obtain ⟨ext, h1, h2, h3⟩ := ih H (fun l hl => h l (by simpa [locs] using hl))
    refine ⟨ext, by simp [copyH, h1], ?_, ?_⟩
    · intro l hl; simp only [copyH, locs] at hl ⊢; exact h2 l hl
    · simp only [copyH, abstr, copyNode, h3]
  · intro H _
    exact ⟨[], by simp [copyH], by simp [copyH, locs], by simp [copyH, abstr, copyNode]⟩
  · intro H _
    exact ⟨[], by simp [copyKidsH], by simp [copyKidsH, locsList], by simp [copyKidsH, abstrList, copyKids]⟩
  · intro c r ihc ihr H h
    have hc : WFH H c := fun l hl => h l (by simp [locsList, hl])
    have hr : WFHList H r := fun l hl => h l (by simp [locsList, hl])
    by_cases hd : isDeadH c = true
    · obtain ⟨ext, h1, h2, h3⟩ := ihr H hr
      refine ⟨ext, by simp [copyKidsH, hd, h1], ?_, ?_⟩
      · intro l hl; simp only [copyKidsH, hd, if_true] at hl ⊢; exact h2 l hl
      · simp only [copyKidsH, hd, if_true, abstrList, copyKids, isDead_abstr, h3]
    · obtain ⟨e1, a1, a2, a3⟩ := ihc H hc
      have hlen : (copyH H c).1.length = H.length + e1.length := by rw [a1]; simp
      have hr1 : WFHList (copyH H c).1 r := by
        intro l hl; have := hr l hl; omega
      obtain ⟨e2, b1, b2, b3⟩ := ihr (copyH H c).1 hr1
      have hd' : isDeadH c = false := by simpa using hd
      have hlen2 : (copyKidsH (copyH H c).1 r).1.length = (copyH H c).1.length + e2.length := by rw [b1]; simp
      refine ⟨e1 ++ e2, ?_, ?_, ?_⟩
      · simp only [copyKidsH, hd', Bool.false_eq_true, if_false]
        rw [b1, a1, List.append_assoc]
      · intro l hl
        simp only [copyKidsH, hd', Bool.false_eq_true, if_false, locsList, List.mem_append] at hl ⊢
        rcases hl with hl | hl
        · obtain ⟨p1, p2⟩ := a2 l hl
          exact ⟨p1, by omega⟩
        · obtain ⟨p1, p2⟩ := b2 l hl
          exact ⟨by omega, p2⟩
      · simp only [copyKidsH, hd', Bool.false_eq_true, if_false, abstrList, copyKids, isDead_abstr]
        have hwc : WFH (copyH H c).1 (copyH H c).2 := fun l hl => (a2 l hl).2
        rw [b1, abstr_ext (copyH H c).1 e2 (copyH H c).2 hwc, a3, ← b1, b3, a1, abstrList_ext H e1 r hr]

/-- the sharing mutant reads, in the same heap, as a copy without re-parsing: it reaches the SAME cells -/
theorem copyShareH_locs (n : DNodeH) : ∀ l, l ∈ locs (copyShareH n) → l ∈ locs n := by
  refine DNodeH.rec (motive_1 := fun n => ∀ l, l ∈ locs (copyShareH n) → l ∈ locs n)
    (motive_2 := fun cs => ∀ l, l ∈ locsList (copyShareKidsH cs) → l ∈ locsList cs) ?_ ?_ ?_ ?_ ?_ n
  · intro d s l hl; exact hl
  · intro hd mk cs ih l hl; simp only [copyShareH, locs] at hl ⊢; exact ih l hl
  · intro l hl; exact hl
  · intro l hl; exact hl
  · intro c r ihc ihr l hl
    simp only [copyShareKidsH] at hl
    split at hl
    · simp only [locsList, List.mem_append]; exact Or.inr (ihr l hl)
    · simp only [locsList, List.mem_append] at hl ⊢
      rcases hl with hl | hl
      · exact Or.inl (ihc l hl)
      · exact Or.inr (ihr l hl)

end Pyx12Verif.DataTree
