/- C08 helper lemmas: `Segment.get` / `Segment.set` at well-formed designators, on the segment `get_segment` builds. -/
import Pyx12Verif.Proofs.XmlRefdes
import Pyx12Verif.Proofs.XmlTrim

namespace Pyx12Verif.Xml
open Pyx12Verif.Path Pyx12Verif.Segment

theorem getElem?_lt {α : Type} {l : List α} {i : Nat} {a : α} (h : l[i]? = some a) : i < l.length := by
  by_cases hl : i < l.length
  · exact hl
  · simp [List.getElem?_eq_none (Nat.le_of_not_lt hl)] at h

/-- `seg_data.get('%02i' % (i + 1))` -/
theorem get_pad2 (s : SegObj) (i : Nat) (hi : i < 99) (e : Comp) (he : s.elements[i]? = some e) :
    Segment.get s (pad2 (i + 1)) = .ok (.comp e) := by
  have hlt := getElem?_lt he
  have hn : ¬ s.elements.length ≤ i := by omega
  simp [Segment.get, parseRefdes, parse_pad2 (i + 1) (by omega), refOfPath, pyPred, getRef, getAt, geLen, pyGet, he, hn]

/-- `seg_data.get_value('%02i' % (i + 1))` of a one-value element -/
theorem getValue_pad2 (s : SegObj) (i : Nat) (hi : i < 99) (e : Comp) (he : s.elements[i]? = some e) (v : Str)
    (hv : e.subs = [v]) : Segment.getValue s (pad2 (i + 1)) = .ok (some v) := by
  simp [Segment.getValue, get_pad2 s i hi e he, valueOf, fmtComp, hv, dropTrailingEmpty, joinWith]

theorem padSet_map {α β : Type} (f : α → β) (blank : α) (xs : List α) (k : Nat) (item : α) :
    (padSet blank xs k item).map f = padSet (f blank) (xs.map f) k (f item) := by
  simp [padSet]

/-- the segment object `get_segment` works on -/
def rb (sid : Str) (es : List Comp) : SegObj := ⟨sid, es, '*', ':'⟩

def blankC : Comp := ⟨':', [[]]⟩

theorem padTo_len {α : Type} (blank : α) (xs : List α) (i : Nat) :
    (padTo blank xs (.nat i)).length = max xs.length (i + 1) := by
  simp [padTo]; omega

/-- `seg_data.set(<segment id><two digits>, v)` beyond the current end: pad with blank composites and store one value -/
theorem set_ele (sid : Str) (hs : segIdOK sid = true) (es : List Comp) (i : Nat) (hi : i < 99) (hL : es.length ≤ i) (v : Str)
    (hv : valueOK (isISA sid) i v = true) :
    ∃ c, c.subs = [v] ∧ Segment.set (rb sid es) (sid ++ pad2 (i + 1)) v = .ok (rb sid (padSet blankC es i c)) := by
  have hp := parse_desig sid hs (i + 1) (by omega) Tail.none trivial
  simp only [Tail.text, List.append_nil, Tail.val] at hp
  by_cases hc : (isISA sid && i == 15) = true
  · have hstar : '*' ∉ v := by simpa [valueOK, hc] using hv
    refine ⟨mkComp '*' v, by simp [mkComp, splitOn_plain '*' v hstar], ?_⟩
    have h15 : i = 15 := by simp only [Bool.and_eq_true, beq_iff_eq] at hc; exact hc.2
    have hisa : isISA sid = true := by simp only [Bool.and_eq_true] at hc; exact hc.1
    subst h15
    simp only [Segment.set, parseRefdes, hp, refOfPath, rb, if_true, Option.map_some, pyPred, Option.map_none, setRef, setAt,
      hisa, Bool.true_and, decide_true, storeComp, pySet, padTo, blankComp]
    have hlen : 15 < (es ++ List.replicate (15 + 1 - es.length) (⟨':', [[]]⟩ : Comp)).length := by simp; omega
    simp only [hlen, if_true, withElements]
    rw [set_pad _ _ es 15 hL]
    rfl
  · have hcolon : ':' ∉ v := by simpa [valueOK, hc] using hv
    refine ⟨mkComp ':' v, by simp [mkComp, splitOn_plain ':' v hcolon], ?_⟩
    have hc' : (isISA sid && decide (PyIdx.nat i = PyIdx.nat 15)) = false := by
      simp only [Bool.and_eq_true, beq_iff_eq, not_and] at hc
      cases h : isISA sid
      · simp
      · simp only [Bool.true_and, decide_eq_false_iff_not]; intro e; exact hc h (PyIdx.nat.inj e)
    simp only [Segment.set, parseRefdes, hp, refOfPath, rb, if_true, Option.map_some, pyPred, Option.map_none, setRef, setAt,
      hc', Bool.false_eq_true, if_false, storeComp, pySet, padTo, blankComp]
    have hlen : i < (es ++ List.replicate (i + 1 - es.length) (⟨':', [[]]⟩ : Comp)).length := by simp; omega
    simp only [hlen, if_true, withElements]
    rw [set_pad _ _ es i hL]
    rfl

theorem not_isa15 (sid : Str) (i : Nat) (h : (isISA sid && i == 15) = false) :
    (isISA sid && decide (PyIdx.nat i = PyIdx.nat 15)) = false := by
  cases hi : isISA sid
  · simp
  · simp only [hi, Bool.true_and, beq_eq_false_iff_ne, ne_eq] at h
    simp only [Bool.true_and, decide_eq_false_iff_not]
    intro e; exact h (PyIdx.nat.inj e)

theorem subTail_ok (ds : List Char) (hne : ds ≠ []) (hd : ∀ c ∈ ds, isDigit c = true) : (Tail.sub ds).ok := ⟨hne, hd⟩

/-- first value of a composite beyond the current end: pad with blank composites, then the sub-elements up to `j` -/
theorem set_sub_new (sid : Str) (hs : segIdOK sid = true) (es : List Comp) (i : Nat) (hi : i < 99) (hL : es.length ≤ i)
    (hni : (isISA sid && i == 15) = false) (ds : List Char) (hne : ds ≠ []) (hd : ∀ c ∈ ds, isDigit c = true) (j : Nat)
    (hj : num ds = j + 1) (v : Str) :
    Segment.set (rb sid es) (sid ++ pad2 (i + 1) ++ '-' :: ds) v
      = .ok (rb sid (padSet blankC es i ⟨':', padSet [] [] j v⟩)) := by
  have hp := parse_desig sid hs (i + 1) (by omega) (Tail.sub ds) (subTail_ok ds hne hd)
  simp only [Tail.text, Tail.val, hj] at hp
  have hlen : i < (es ++ List.replicate (i + 1 - es.length) (⟨':', [[]]⟩ : Comp)).length := by simp; omega
  have hget : (es ++ List.replicate (i + 1 - es.length) (⟨':', [[]]⟩ : Comp))[i]? = some ⟨':', [[]]⟩ := by
    rw [List.getElem?_append_right hL, List.getElem?_replicate]
    have : i - es.length < i + 1 - es.length := by omega
    simp [this]
  have hsub : ([([] : Str)] ++ List.replicate (j + 1 - 1) ([] : Str)).set j v = padSet [] [] j v := by
    have := set_pad ([] : Str) v [] j (Nat.zero_le _)
    simpa [List.replicate_succ] using this
  have hjl : j < ([([] : Str)] ++ List.replicate (j + 1 - 1) ([] : Str)).length := by simp
  simp only [Segment.set, parseRefdes, hp, refOfPath, rb, if_true, Option.map_some, pyPred, setRef, setAt,
    not_isa15 sid i hni, Bool.false_eq_true, if_false, setComponent, pyGet, padTo, blankComp, hget, setSub, pySet,
    List.length_singleton, hjl, hsub, storeComp, hlen, withElements]
  rw [set_pad _ _ es i hL]
  rfl

/-- a further value of the composite that is the current last element: pad its sub-elements up to `j` -/
theorem set_sub_more (sid : Str) (hs : segIdOK sid = true) (pre : List Comp) (c : Comp) (i : Nat) (hi : i < 99)
    (hL : pre.length = i) (hni : (isISA sid && i == 15) = false) (ds : List Char) (hne : ds ≠ [])
    (hd : ∀ c ∈ ds, isDigit c = true) (j : Nat) (hj : num ds = j + 1) (hcj : c.subs.length ≤ j) (v : Str) :
    Segment.set (rb sid (pre ++ [c])) (sid ++ pad2 (i + 1) ++ '-' :: ds) v
      = .ok (rb sid (pre ++ [⟨c.term, padSet [] c.subs j v⟩])) := by
  have hp := parse_desig sid hs (i + 1) (by omega) (Tail.sub ds) (subTail_ok ds hne hd)
  simp only [Tail.text, Tail.val, hj] at hp
  have hpad : pre ++ [c] ++ List.replicate (i + 1 - (pre ++ [c]).length) (⟨':', [[]]⟩ : Comp) = pre ++ [c] := by
    simp [hL]
  have hget : (pre ++ [c])[i]? = some c := by
    rw [List.getElem?_append_right (by omega)]; simp [hL]
  have hlen : i < (pre ++ [c]).length := by simp [hL]
  have hjl : j < (c.subs ++ List.replicate (j + 1 - c.subs.length) ([] : Str)).length := by simp; omega
  simp only [Segment.set, parseRefdes, hp, refOfPath, rb, if_true, Option.map_some, pyPred, setRef, setAt,
    not_isa15 sid i hni, Bool.false_eq_true, if_false, setComponent, pyGet, padTo, blankComp, hpad, hget, setSub, pySet,
    hjl, set_pad _ _ c.subs j hcj, storeComp, hlen, withElements]
  congr 2
  rw [← hL]
  simp

end Pyx12Verif.Xml
