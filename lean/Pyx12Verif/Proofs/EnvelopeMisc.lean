/-
Totality of the guarded reader, what the stack does notice, inputs that stop inside open envelopes,
consistency, and soundness of the nesting recogniser.
-/
import Pyx12Verif.Proofs.EnvelopeLevels

namespace Pyx12Verif.Envelope

/-! ### totality -/

def Outcome.NoCrash {α : Type} (o : Outcome α) : Prop := ∀ e, o ≠ .crash e

theorem noCrash_bind {α β : Type} (o : Outcome α) (f : α → Outcome β) (h1 : o.NoCrash) (h2 : ∀ a, (f a).NoCrash) :
    (o.bind f).NoCrash := by
  cases o with
  | ok a => exact h2 a
  | raised => intro e h; cases h
  | crash e => exact absurd rfl (h1 e)

theorem noCrash_ok {α : Type} (a : α) : (Outcome.ok a).NoCrash := by intro e h; cases h

theorem popLoop_noCrash (s : RState) (es : List Err) : (popLoop Fixes.all s es).NoCrash := by
  unfold popLoop; split <;> simp [Fixes.all, Outcome.NoCrash]

theorem checkCount_noCrash (s : RState) (es : List Err) (c : Option Str) (n : Nat) (e : Err) :
    (checkCount Fixes.all s es c n e).NoCrash := by
  unfold checkCount; rw [pyIntArg_all]; exact popLoop_noCrash _ _

theorem checkId_noCrash (s : RState) (es : List Err) (v : SegView) (e1 e2 : Err) (n : Nat) :
    (checkId Fixes.all s es v e1 e2 n).NoCrash := by
  unfold checkId; split
  · simp only [Fixes.all, if_true]; exact checkCount_noCrash _ _ _ _ _
  · exact checkCount_noCrash _ _ _ _ _

theorem closeEnv_noCrash (k : Kind) (e0 e1 e2 : Err) (n : Nat) (s : RState) (v : SegView) :
    (closeEnv Fixes.all k e0 e1 e2 n s v).NoCrash := by
  unfold closeEnv; split
  · simp only [Fixes.all, if_true]; exact checkId_noCrash _ _ _ _ _ _
  · split <;> exact checkId_noCrash _ _ _ _ _ _

theorem closeSet_noCrash (s : RState) (v : SegView) : (closeSet Fixes.all s v).NoCrash := by
  unfold closeSet; split
  · simp only [Fixes.all, if_true]; exact checkCount_noCrash _ _ _ _ _
  · exact checkCount_noCrash _ _ _ _ _

theorem trailerStep_noCrash (s : RState) (v : SegView) : (trailerStep Fixes.all s v).NoCrash := by
  unfold trailerStep
  split
  · exact closeEnv_noCrash _ _ _ _ _ _ _
  · split
    · exact closeEnv_noCrash _ _ _ _ _ _ _
    · split
      · exact closeSet_noCrash _ _
      · exact noCrash_ok _

theorem baseHl_noCrash (s : RState) (v : SegView) : (baseHl Fixes.all s v).NoCrash := by
  unfold baseHl; rw [pyIntArg_all]; simp only [Outcome.bind]
  unfold hlParent
  split
  · exact noCrash_ok _
  · rw [pyIntArg_all]; simp only [Outcome.bind]
    split
    · exact noCrash_ok _
    · split
      · rename_i h; simp [Fixes.all] at h
      · exact noCrash_ok _

theorem baseBranch_noCrash (s : RState) (v : SegView) : (baseBranch Fixes.all s v).NoCrash := by
  unfold baseBranch
  split
  · unfold baseIsa; split
    · intro e h; cases h
    · exact noCrash_ok _
  · split
    · exact noCrash_ok _
    · split
      · exact noCrash_ok _
      · split
        · exact baseHl_noCrash _ _
        · split
          · exact noCrash_ok _
          · split <;> exact noCrash_ok _

theorem step_noCrash (s : RState) (v : SegView) : (step Fixes.all s v).NoCrash := by
  unfold step baseStep
  refine noCrash_bind _ _ (noCrash_bind _ _ (baseBranch_noCrash s v) (fun _ => noCrash_ok _)) (fun a => ?_)
  exact noCrash_bind _ _ (trailerStep_noCrash _ _) (fun _ => noCrash_ok _)

theorem runSegs_noCrash (segs : List SegView) : ∀ s, (runSegs Fixes.all s segs).NoCrash := by
  induction segs with
  | nil => intro s; exact noCrash_ok _
  | cons v r ih =>
    intro s
    unfold runSegs
    exact noCrash_bind _ _ (step_noCrash s v) (fun a => noCrash_bind _ _ (ih a.1) (fun _ => noCrash_ok _))

/-! ### splitting a run -/

theorem Runs.cons_inv {s s2 : RState} {v : SegView} {r : List SegView} {o : List (List Err)}
    (h : Runs s (v :: r) s2 o) :
    ∃ s1 es o', step Fixes.all s v = .ok (s1, es) ∧ Runs s1 r s2 o' ∧ o = es :: o' := by
  unfold Runs at h
  simp only [runSegs] at h
  cases hs : step Fixes.all s v with
  | raised => simp [hs, Outcome.bind] at h
  | crash e => simp [hs, Outcome.bind] at h
  | ok a =>
    simp only [hs, Outcome.bind] at h
    cases hr : runSegs Fixes.all a.1 r with
    | raised => simp [hr] at h
    | crash e => simp [hr] at h
    | ok b =>
      simp only [hr] at h
      injection h with h
      injection h with e1 e2
      exact ⟨a.1, a.2, b.2, rfl, by unfold Runs; rw [hr, ← e1], e2.symm⟩

theorem Runs.append_inv {a b : List SegView} : ∀ {s s2 : RState} {o : List (List Err)},
    Runs s (a ++ b) s2 o → ∃ s1 o1 o2, Runs s a s1 o1 ∧ Runs s1 b s2 o2 ∧ o = o1 ++ o2 := by
  induction a with
  | nil => intro s s2 o h; exact ⟨s, [], o, Runs.nil s, h, rfl⟩
  | cons v r ih =>
    intro s s2 o h
    obtain ⟨s1, es, o', hs, hr, eo⟩ := Runs.cons_inv (by simpa using h)
    obtain ⟨s1', o1, o2, h1, h2, e⟩ := ih hr
    exact ⟨s1', es :: o1, o2, Runs.cons hs h1, h2, by rw [eo, e]; simp⟩

theorem Runs.det {s s1 s2 : RState} {a : List SegView} {o1 o2 : List (List Err)}
    (h1 : Runs s a s1 o1) (h2 : Runs s a s2 o2) : s1 = s2 ∧ o1 = o2 := by
  unfold Runs at h1 h2
  rw [h1] at h2
  injection h2 with h2
  injection h2 with e1 e2
  exact ⟨e1, e2⟩

/-! ### what the stack does notice -/

/-- the kind of header a trailer segment closes -/
def trailerKind (v : SegView) : Option Kind :=
  if v.id = idIEA then some Kind.isa else if v.id = idGE then some Kind.gs else if v.id = idSE then some Kind.st
  else none

theorem popLoop_errs (s : RState) (es : List Err) :
    ∃ s', popLoop Fixes.all s es = .ok (s', es) := by
  unfold popLoop; split <;> simp [Fixes.all]

theorem checkCount_errs (s : RState) (es : List Err) (c : Option Str) (n : Nat) (e : Err) (h : es ≠ []) :
    ∃ s' es', checkCount Fixes.all s es c n e = .ok (s', es') ∧ es' ≠ [] := by
  unfold checkCount; rw [pyIntArg_all]; simp only [Outcome.bind]
  split
  · obtain ⟨s', hs⟩ := popLoop_errs s es; exact ⟨s', es, hs, h⟩
  · obtain ⟨s', hs⟩ := popLoop_errs s (es ++ [e]); exact ⟨s', _, hs, by simp⟩

theorem checkId_errs (s : RState) (es : List Err) (v : SegView) (e1 e2 : Err) (n : Nat)
    (h : es ≠ [] ∨ ∀ t, s.loops.head? = some t → t.2 ≠ v.ctl) :
    ∃ s' es', checkId Fixes.all s es v e1 e2 n = .ok (s', es') ∧ es' ≠ [] := by
  unfold checkId
  split
  · simp only [Fixes.all, if_true]; exact checkCount_errs _ _ _ _ _ (by simp)
  · rename_i top rest hl
    rcases h with h | h
    · apply checkCount_errs; split
      · exact h
      · simp
    · have := h top (by simp [hl])
      apply checkCount_errs; simp [this]

theorem closeEnv_errs (k : Kind) (e0 e1 e2 : Err) (n : Nat) (s : RState) (v : SegView)
    (h : s.loops.head? ≠ some (k, v.ctl)) :
    ∃ s' es', closeEnv Fixes.all k e0 e1 e2 n s v = .ok (s', es') ∧ es' ≠ [] := by
  unfold closeEnv
  split
  · rename_i hl
    simp only [Fixes.all, if_true]
    exact checkId_errs _ _ _ _ _ _ (Or.inr (fun t ht => by simp [hl] at ht))
  · rename_i top rest hl
    split
    · rename_i hk
      refine checkId_errs _ _ _ _ _ _ (Or.inr (fun t ht => ?_))
      simp [hl] at ht; subst ht
      intro hc; apply h; rw [hl]; simp; exact Prod.ext hk hc
    · exact checkId_errs _ _ _ _ _ _ (Or.inl (by simp))

theorem closeSet_errs (s : RState) (v : SegView) (h : s.loops.head? ≠ some (Kind.st, v.ctl)) :
    ∃ s' es', closeSet Fixes.all s v = .ok (s', es') ∧ es' ≠ [] := by
  unfold closeSet
  split
  · simp only [Fixes.all, if_true]; exact checkCount_errs _ _ _ _ _ (by simp)
  · rename_i top rest hl
    apply checkCount_errs
    split
    · rename_i hc; exfalso; apply h; rw [hl]; simp; exact Prod.ext hc.1 hc.2
    · simp

theorem baseStep_trailer (s : RState) (v : SegView) (k : Kind) (hk : trailerKind v = some k) :
    baseStep Fixes.all s v = .ok (s, []) := by
  unfold trailerKind at hk
  by_cases h1 : v.id = idIEA
  · simp [baseStep, baseBranch, h1, countSeg, isEnvId, Outcome.bind, idISA, idIEA, idGS, idGE, idST, idSE, idHL, idCLM, idLX]
  · by_cases h2 : v.id = idGE
    · simp [baseStep, baseBranch, h2, countSeg, isEnvId, Outcome.bind, idISA, idIEA, idGS, idGE, idST, idSE, idHL, idCLM, idLX]
    · by_cases h3 : v.id = idSE
      · simp [baseStep, baseBranch, h3, countSeg, isEnvId, Outcome.bind, idISA, idIEA, idGS, idGE, idST, idSE, idHL, idCLM, idLX]
      · simp [h1, h2, h3] at hk

/-- a trailer that does not meet its own header (same kind, same control number) on top of the stack — because
the innermost open envelope is of another kind, has another control number, or nothing is open — draws an error -/
theorem unmatched_trailer_step (s : RState) (v : SegView) (k : Kind) (hk : trailerKind v = some k)
    (hu : s.loops.head? ≠ some (k, v.ctl)) :
    ∃ s' es, step Fixes.all s v = .ok (s', es) ∧ es ≠ [] := by
  unfold step
  rw [baseStep_trailer s v k hk]
  simp only [Outcome.bind]
  unfold trailerKind at hk
  unfold trailerStep
  by_cases h1 : v.id = idIEA
  · simp only [h1, if_true] at hk ⊢
    injection hk with hk; subst hk
    obtain ⟨s', es', he, hne⟩ := closeEnv_errs Kind.isa Err.isa024 Err.isa001 Err.isa021 s.gsCount s v hu
    exact ⟨s', es', by simp [he], hne⟩
  · by_cases h2 : v.id = idGE
    · simp only [h2, if_true] at hk
      simp only [h2, if_true]
      injection hk with hk; subst hk
      obtain ⟨s', es', he, hne⟩ := closeEnv_errs Kind.gs Err.gs3 Err.gs4 Err.gs5 s.stCount s v hu
      exact ⟨s', es', by simp [he, show idGE ≠ idIEA by decide], hne⟩
    · by_cases h3 : v.id = idSE
      · simp only [h3, if_true] at hk
        simp only [h3, if_true]
        injection hk with hk; subst hk
        obtain ⟨s', es', he, hne⟩ := closeSet_errs s v hu
        exact ⟨s', es', by simp [he, show idSE ≠ idIEA by decide, show idSE ≠ idGE by decide], hne⟩
      · simp [h1, h2, h3] at hk

theorem cleanup_ne_nil (s : RState) (h : s.loops ≠ []) : cleanup s ≠ [] := by
  unfold cleanup
  cases hl : s.loops with
  | nil => exact absurd hl h
  | cons a r => simp

end Pyx12Verif.Envelope
