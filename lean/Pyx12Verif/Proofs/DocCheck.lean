/-
Boolean checkers for the hypotheses of `doc_accepts_of_runOK` / `doc_accepts_generated` (Props/DocAccept.lean), with soundness:
for a concrete document the hypotheses "every segment conforms to its definition" (`SegAdm`), "the reader reports nothing"
(`EnvQuiet`) and "the walker answers as intended" (`RunOK`) are decided by evaluation.
-/
import Pyx12Verif.Proofs.DocRun

namespace Pyx12Verif.Doc
open Pyx12Verif ElemValid

/-! ### conformance of a segment to its definition -/

def tlOkB (tl : List Str) : Bool := tl.isEmpty || tl.contains tyTM || tl.any isDateType

theorem tlOk_wf (e : ElemX) (tl : List Str) (h : tlOkB tl = true) : TypeListWF (defWith e tl) := by
  unfold TypeListWF
  simp only [defWith]
  simp only [tlOkB, Bool.or_eq_true] at h
  rcases h with (h | h) | h
  · exact Or.inl (by simpa using h)
  · exact Or.inr (Or.inl (by simpa using h))
  · obtain ⟨t, ht, hd⟩ := List.any_eq_true.1 h
    exact Or.inr (Or.inr ⟨t, ht, (isDateType_iff t).1 hd⟩)

def elemAdmB (ctx : Ctx) (v5 : Bool) (e : ElemX) (tl : List Str) (i : EIn) : Bool :=
  (!needsLookup e i || e.defined) && tlOkB tl &&
    (elemValidIn (defWith e tl) (elemCtx ctx v5 e i.value) i.toInput).2.isEmpty

theorem elemAdm_of_b (ctx : Ctx) (v5 : Bool) (e : ElemX) (tl : List Str) (i : EIn) (h : elemAdmB ctx v5 e tl i = true) :
    ElemAdm ctx v5 e tl i := by
  simp only [elemAdmB, Bool.and_eq_true, Bool.or_eq_true, Bool.not_eq_true'] at h
  obtain ⟨⟨h1, h2⟩, h3⟩ := h
  refine ⟨?_, ?_⟩
  · intro hn
    rcases h1 with h1 | h1
    · rw [hn] at h1; cases h1
    · exact h1
  · apply no_error_admissible _ _ _ (tlOk_wf e tl h2)
    intro c hc
    have := (elemErrors_spec _ _ _ c).2 hc
    rw [List.isEmpty_iff.1 h3] at this
    cases this

def kidsAdmB (ctx : Ctx) (v5 : Bool) : List ElemX → List Str → Bool
  | [], _ => true
  | k :: ks, [] => elemAdmB ctx v5 k [] .absent && kidsAdmB ctx v5 ks []
  | k :: ks, v :: vs => elemAdmB ctx v5 k [] (.simple v) && kidsAdmB ctx v5 ks vs

theorem kidsAdm_of_b (ctx : Ctx) (v5 : Bool) : ∀ (ks : List ElemX) (vs : List Str), kidsAdmB ctx v5 ks vs = true →
    KidsAdm ctx v5 ks vs := by
  intro ks
  induction ks with
  | nil => intro vs _; trivial
  | cons k ks ih =>
    intro vs h
    cases vs with
    | nil =>
      simp only [kidsAdmB, Bool.and_eq_true] at h
      exact ⟨elemAdm_of_b _ _ _ _ _ h.1, ih [] h.2⟩
    | cons v vs =>
      simp only [kidsAdmB, Bool.and_eq_true] at h
      exact ⟨elemAdm_of_b _ _ _ _ _ h.1, ih vs h.2⟩

def compAdmB (ctx : Ctx) (v5 : Bool) (u : Usage) (kids : List ElemX) : Option (List Str) → Bool
  | none => !decide (u = .R)
  | some vs =>
    (allEmpty vs && !decide (u = .R)) ||
    (!allEmpty vs && !decide (u = .N) && decide (vs.length ≤ kids.length) && kidsAdmB ctx v5 kids vs)

theorem compAdm_of_b (ctx : Ctx) (v5 : Bool) (u : Usage) (kids : List ElemX) (data : Option (List Str))
    (h : compAdmB ctx v5 u kids data = true) : CompAdm ctx v5 u kids data := by
  cases data with
  | none => simpa [compAdmB, CompAdm] using h
  | some vs =>
    simp only [compAdmB, Bool.or_eq_true, Bool.and_eq_true, Bool.not_eq_true', decide_eq_false_iff_not,
      decide_eq_true_eq] at h
    rcases h with ⟨h1, h2⟩ | ⟨⟨⟨h1, h2⟩, h3⟩, h4⟩
    · exact Or.inl ⟨h1, h2⟩
    · exact Or.inr ⟨h1, h2, h3, kidsAdm_of_b _ _ _ _ h4⟩

def childAbsentAdmB (ctx : Ctx) (v5 : Bool) : ChildX → Bool
  | .elem x => elemAdmB ctx v5 x [] .absent
  | .comp u _ _ _ _ kids => compAdmB ctx v5 u kids none

def childPresentAdmB (ctx : Ctx) (v5 : Bool) (sid : Str) (i : Nat) (dt tl : List Str) (data : List Str) : ChildX → Bool
  | .elem x =>
    (match data with
     | [v] => elemAdmB ctx v5 x (pickTl sid i x dt tl) (.simple v)
     | _ => false)
  | .comp u _ _ _ _ kids => compAdmB ctx v5 u kids (some data)

def childrenAdmB (ctx : Ctx) (v5 : Bool) (sid : Str) (v02 : Option Str) :
    Nat → List Str → List Str → List ChildX → List (List Str) → Bool
  | _, _, _, [], _ => true
  | i, dt, tl, c :: cs, [] => childAbsentAdmB ctx v5 c && childrenAdmB ctx v5 sid v02 (i + 1) dt tl cs []
  | i, dt, tl, c :: cs, e :: es =>
    childPresentAdmB ctx v5 sid i (stepDtype sid i v02 dt c) (stepTl tl c) e c &&
      childrenAdmB ctx v5 sid v02 (i + 1) (stepDtype sid i v02 dt c) (stepTl tl c) cs es

theorem childAbsentAdm_of_b (ctx : Ctx) (v5 : Bool) (c : ChildX) (h : childAbsentAdmB ctx v5 c = true) :
    ChildAbsentAdm ctx v5 c := by
  cases c with
  | elem x => exact elemAdm_of_b _ _ _ _ _ h
  | comp u seq nm rd de kids => exact compAdm_of_b ctx v5 u kids none h

theorem childPresentAdm_of_b (ctx : Ctx) (v5 : Bool) (sid : Str) (i : Nat) (dt tl : List Str) (data : List Str) (c : ChildX)
    (h : childPresentAdmB ctx v5 sid i dt tl data c = true) : ChildPresentAdm ctx v5 sid i dt tl data c := by
  cases c with
  | elem x =>
    cases data with
    | nil => simp [childPresentAdmB] at h
    | cons v r =>
      cases r with
      | nil => exact ⟨v, rfl, elemAdm_of_b _ _ _ _ _ h⟩
      | cons w r2 => simp [childPresentAdmB] at h
  | comp u seq nm rd de kids => exact compAdm_of_b ctx v5 u kids (some data) h

theorem childrenAdm_of_b (ctx : Ctx) (v5 : Bool) (sid : Str) (v02 : Option Str) :
    ∀ (cs : List ChildX) (i : Nat) (dt tl : List Str) (es : List (List Str)),
      childrenAdmB ctx v5 sid v02 i dt tl cs es = true → ChildrenAdm ctx v5 sid v02 i dt tl cs es := by
  intro cs
  induction cs with
  | nil => intro i dt tl es _; simp only [ChildrenAdm]
  | cons c cs ih =>
    intro i dt tl es h
    cases es with
    | nil =>
      simp only [childrenAdmB, Bool.and_eq_true] at h
      exact ⟨childAbsentAdm_of_b _ _ _ h.1, ih _ _ _ [] h.2⟩
    | cons e es =>
      simp only [childrenAdmB, Bool.and_eq_true] at h
      exact ⟨childPresentAdm_of_b _ _ _ _ _ _ _ _ h.1, ih _ _ _ es h.2⟩

def notesOkB (notes : List Syn.Note) : Option (List Str) → Bool
  | none => false
  | some vals => notes.all (fun n => decide (Syn.isSyntaxValid vals n = .valid))

/-- `SegAdm` decided by evaluation -/
def segAdmB (ctx : Ctx) (v5 : Bool) (d : Delims) (sd : SegDef) (s : Seg) : Bool :=
  decide (s.elems.length ≤ sd.children.length) &&
  childrenAdmB ctx v5 s.id (gv d s 1) 0 [] [] sd.children s.elems &&
  notesOkB sd.notes (SegText.formatComps (Pipeline.sepOf d s.id) s.elems)

theorem segAdm_of_b (ctx : Ctx) (v5 : Bool) (d : Delims) (sd : SegDef) (s : Seg) (h : segAdmB ctx v5 d sd s = true) :
    SegAdm ctx v5 d sd s := by
  simp only [segAdmB, Bool.and_eq_true, decide_eq_true_eq] at h
  obtain ⟨⟨h1, h2⟩, h3⟩ := h
  refine ⟨h1, childrenAdm_of_b _ _ _ _ _ _ _ _ _ h2, ?_⟩
  cases hv : SegText.formatComps (Pipeline.sepOf d s.id) s.elems with
  | none => rw [hv] at h3; cases h3
  | some vals =>
    rw [hv] at h3
    refine ⟨vals, rfl, ?_⟩
    intro n hn
    simp only [notesOkB, List.all_eq_true, decide_eq_true_eq] at h3
    exact h3 n hn

def bodyOkB (ctx : Ctx) (m : MapX) (d : Delims) (b : Seg × List Nat) : Bool :=
  !decide (b.1.id = Envelope.idISA) && !decide (b.1.id = Envelope.idGS) && (baseErrs b.1).isEmpty &&
    (match lookupDef m b.2 with
     | some sd => segAdmB ctx m.v5010 d sd b.1
     | none => false)

theorem bodyOk_of_b (ctx : Ctx) (m : MapX) (d : Delims) (b : Seg × List Nat) (h : bodyOkB ctx m d b = true) :
    BodyOk ctx m d b := by
  simp only [bodyOkB, Bool.and_eq_true, Bool.not_eq_true', decide_eq_false_iff_not] at h
  obtain ⟨⟨⟨h1, h2⟩, h3⟩, h4⟩ := h
  refine ⟨h1, h2, List.isEmpty_iff.1 h3, ?_⟩
  cases hl : lookupDef m b.2 with
  | none => rw [hl] at h4; cases h4
  | some sd =>
    rw [hl] at h4
    exact ⟨sd, rfl, segAdm_of_b _ _ _ _ _ h4⟩

/-! ### the reader -/

/-- the reader state after these segments when `_parse_segment` reports nothing; `none` otherwise -/
def envQuietB (d : Delims) : Envelope.RState → List Seg → Option Envelope.RState
  | rs, [] => some rs
  | rs, s :: r =>
    match Pipeline.viewOf d s with
    | none => none
    | some v =>
      match Envelope.step Envelope.Fixes.all rs v with
      | .ok (rs1, []) => envQuietB d rs1 r
      | _ => none

theorem envQuiet_of_b (d : Delims) : ∀ (segs : List Seg) (rs rs' : Envelope.RState),
    envQuietB d rs segs = some rs' → EnvQuiet d rs segs rs' := by
  intro segs
  induction segs with
  | nil => intro rs rs' h; simp only [envQuietB, Option.some.injEq] at h; exact h.symm
  | cons s r ih =>
    intro rs rs' h
    simp only [envQuietB] at h
    cases hv : Pipeline.viewOf d s with
    | none => rw [hv] at h; cases h
    | some v =>
      rw [hv] at h
      simp only at h
      cases hs : Envelope.step Envelope.Fixes.all rs v with
      | crash e => rw [hs] at h; cases h
      | raised => rw [hs] at h; cases h
      | ok p =>
        obtain ⟨rs1, errs⟩ := p
        rw [hs] at h
        cases errs with
        | nil => exact ⟨v, rs1, hv, hs, ih rs1 rs' h⟩
        | cons e es => cases h


/-- the reader's view of a segment (total: the fallback is never used on reader output, `Pipeline.viewOf_isSome`) -/
def viewD (d : Delims) (s : Seg) : Envelope.SegView := (Pipeline.viewOf d s).getD ⟨s.id, none, none, false⟩

/-- bridge to C04: when the reader model run over the views of these segments pops only empty error lists
    (the conclusion of `C04.consistent_no_error_segs` for a consistent envelope), the reader is quiet on them -/
theorem envQuiet_of_runSegs (d : Delims) : ∀ (segs : List Seg) (rs rs' : Envelope.RState) (outs : List (List Envelope.Err)),
    (∀ s ∈ segs, ∃ v, Pipeline.viewOf d s = some v) →
    Envelope.runSegs Envelope.Fixes.all rs (segs.map (viewD d)) = .ok (rs', outs) → (∀ l ∈ outs, l = []) →
    EnvQuiet d rs segs rs' := by
  intro segs
  induction segs with
  | nil =>
    intro rs rs' outs _ h _
    simp only [List.map_nil, Envelope.runSegs] at h
    injection h with h
    injection h with h1 _
    exact h1.symm
  | cons s segs ih =>
    intro rs rs' outs hv h hall
    obtain ⟨v, hvs⟩ := hv s (by simp)
    have hvd : viewD d s = v := by simp [viewD, hvs]
    simp only [List.map_cons, Envelope.runSegs, Envelope.Outcome.bind, hvd] at h
    cases hs : Envelope.step Envelope.Fixes.all rs v with
    | crash e => rw [hs] at h; cases h
    | raised => rw [hs] at h; cases h
    | ok a =>
      rw [hs] at h
      simp only at h
      cases hr : Envelope.runSegs Envelope.Fixes.all a.1 (segs.map (viewD d)) with
      | crash e => rw [hr] at h; cases h
      | raised => rw [hr] at h; cases h
      | ok b =>
        rw [hr] at h
        simp only at h
        injection h with h
        injection h with h1 h2
        subst h1 h2
        have ha : a.2 = [] := hall a.2 (by simp)
        refine ⟨v, a.1, hvs, ?_, ih a.1 b.1 b.2 (fun x hx => hv x (List.mem_cons_of_mem _ hx)) (by rw [hr])
          (fun l hl => hall l (List.mem_cons_of_mem _ hl))⟩
        cases a with
        | mk a1 a2 => simp only at ha; subst ha; exact hs

/-! ### the walker -/

theorem runOK_of_b (K : Walker.Consts) (root : List MapSkel.Node) (rootId : Nat) : ∀ (es : List WalkerGen.Emit)
    (cnt : Walker.Counter) (cur : List Nat), WalkerGen.runOKb K root rootId cnt cur es = true →
      WalkerGen.RunOK K root rootId cnt cur es := by
  intro es
  induction es with
  | nil => intro cnt cur _; trivial
  | cons e r ih =>
    intro cnt cur h
    simp only [WalkerGen.runOKb, Bool.and_eq_true, beq_iff_eq, List.isEmpty_iff] at h
    obtain ⟨⟨⟨h1, h2⟩, h3⟩, h4⟩ := h
    exact ⟨h1, h2, h3, ih _ _ h4⟩

/-- `SeOk` decided by evaluation -/
def seOkB : Bool → List Str → Bool
  | _, [] => true
  | seen, i :: r => (!decide (i = Envelope.idSE) || seen) && seOkB (seen || decide (i = Envelope.idST)) r

theorem seOk_of_b : ∀ (ids : List Str) (seen : Bool), seOkB seen ids = true → SeOk seen ids := by
  intro ids
  induction ids with
  | nil => intro _ _; trivial
  | cons i r ih =>
    intro seen h
    simp only [seOkB, Bool.and_eq_true, Bool.or_eq_true, Bool.not_eq_true', decide_eq_false_iff_not] at h
    refine ⟨?_, ih _ h.2⟩
    intro hi
    rcases h.1 with h1 | h1
    · exact absurd hi h1
    · exact h1

end Pyx12Verif.Doc
