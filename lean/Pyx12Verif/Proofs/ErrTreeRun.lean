/- Invariants of the attach state machine along a run. -/
import Pyx12Verif.Proofs.ErrTreeLemmas

namespace Pyx12Verif.ErrTree

instance (s : Seg) : Decidable s.Clean := by unfold Seg.Clean; infer_instance
instance (s : St) : Decidable s.CountedClean := by unfold St.CountedClean; infer_instance
instance (s : St) : Decidable s.Clean := by unfold St.Clean; infer_instance
instance (g : Gs) : Decidable g.CountedClean := by unfold Gs.CountedClean; infer_instance
instance (g : Gs) : Decidable g.Clean := by unfold Gs.Clean; infer_instance
instance (a : Isa) : Decidable a.CountedClean := by unfold Isa.CountedClean; infer_instance
instance (a : Isa) : Decidable a.Clean := by unfold Isa.Clean; infer_instance
instance (t : Tree) : Decidable (NoCountedError t) := by unfold NoCountedError; infer_instance
instance (t : Tree) : Decidable (NoError t) := by unfold NoError; infer_instance

def Event.isError : Event → Bool
  | .isaError _ => true
  | .gsError _ => true
  | .stError _ => true
  | .segError _ _ => true
  | .eleError _ _ _ => true
  | .addIsa _ => false
  | .addGs _ => false
  | .addSt _ => false
  | .addSeg _ _ _ => false
  | .addEle _ _ _ => false
  | .closeSt => false
  | .closeGs _ _ => false
  | .closeIsa => false

theorem NoError_of_clean (t : Tree) (h : NoError t) : NoCountedError t := by
  intro a ha
  obtain ⟨h1, h2, h3⟩ := h a ha
  refine ⟨h1, h2, fun g hg => ?_⟩
  obtain ⟨g1, g2, g3⟩ := h3 g hg
  exact ⟨g1, g2, fun s hs => (g3 s hs).1⟩

theorem modIsa_clean (t : Tree) (i : Nat) (f : Isa → Isa) (h : NoError t) (hf : ∀ a, a.Clean → (f a).Clean) :
    NoError (modIsa t i f) := modNth_forall _ f t i h hf

theorem modGs_clean (t : Tree) (i g : Nat) (f : Gs → Gs) (h : NoError t) (hf : ∀ x, x.Clean → (f x).Clean) :
    NoError (modGs t i g f) := by
  apply modIsa_clean t i _ h
  intro a ha
  exact ⟨ha.1, ha.2.1, modNth_forall _ f a.children g ha.2.2 hf⟩

theorem modSt_clean (t : Tree) (i g s : Nat) (f : St → St) (h : NoError t) (hf : ∀ x, x.Clean → (f x).Clean) :
    NoError (modSt t i g s f) := by
  apply modGs_clean t i g _ h
  intro x hx
  exact ⟨hx.1, hx.2.1, modNth_forall _ f x.children s hx.2.2 hf⟩

theorem mem_append_single {α : Type} (P : α → Prop) (l : List α) (x : α) (hl : ∀ y ∈ l, P y) (hx : P x) :
    ∀ y ∈ l ++ [x], P y := by
  intro y hy
  simp at hy
  rcases hy with hy | rfl
  · exact hl y hy
  · exact hx

/-- a step that is not an error report leaves a clean tree clean and drops nothing -/
theorem step_clean (s s' : State) (e : Event) (he : e.isError = false) (h : NoError s.tree ∧ s.lost = 0)
    (hs : step s e = .ok s') : NoError s'.tree ∧ s'.lost = 0 := by
  cases e with
  | isaError _ => simp [Event.isError] at he
  | gsError _ => simp [Event.isError] at he
  | stError _ => simp [Event.isError] at he
  | segError _ _ => simp [Event.isError] at he
  | eleError _ _ _ => simp [Event.isError] at he
  | addIsa d =>
    simp only [step, Res.ok.injEq] at hs
    subst hs
    refine ⟨?_, h.2⟩
    exact mem_append_single _ _ _ h.1 (by simp [Isa.Clean, mkIsa])
  | addGs d =>
    simp only [step, addGsLoop] at hs
    split at hs
    · cases hs
    · simp only [Res.ok.injEq] at hs
      subst hs
      refine ⟨?_, h.2⟩
      apply modIsa_clean _ _ _ h.1
      intro a ha
      exact ⟨ha.1, ha.2.1, mem_append_single _ _ _ ha.2.2 (by simp [Gs.Clean, mkGs])⟩
  | addSt d =>
    simp only [step, addStLoop] at hs
    split at hs
    · cases hs
    · simp only [Res.ok.injEq] at hs
      subst hs
      refine ⟨?_, h.2⟩
      apply modGs_clean _ _ _ _ h.1
      intro x hx
      exact ⟨hx.1, hx.2.1, mem_append_single _ _ _ hx.2.2 (by simp [St.Clean, St.CountedClean, mkSt])⟩
  | addSeg a b c =>
    simp only [step, addSeg, Res.ok.injEq] at hs
    subst hs; exact h
  | addEle a b c =>
    simp only [step, addEle] at hs
    split at hs
    · cases hs
    · simp only [Res.ok.injEq] at hs; subst hs; exact h
    · simp only [Res.ok.injEq] at hs; subst hs; exact h
  | closeSt =>
    simp only [step, closeStLoop] at hs
    split at hs
    · cases hs
    · simp only [Res.ok.injEq] at hs
      subst hs
      refine ⟨?_, h.2⟩
      apply modSt_clean _ _ _ _ _ h.1
      intro x hx
      exact hx
  | closeGs ge recv =>
    simp only [step, closeGsLoop] at hs
    split at hs
    · cases hs
    · simp only [Res.ok.injEq] at hs
      subst hs
      refine ⟨?_, h.2⟩
      apply modGs_clean _ _ _ _ h.1
      intro x hx
      exact hx
  | closeIsa =>
    simp only [step, closeIsaLoop] at hs
    split at hs
    · cases hs
    · simp only [Res.ok.injEq] at hs
      subst hs
      refine ⟨?_, h.2⟩
      apply modIsa_clean _ _ _ h.1
      intro x hx
      exact hx

theorem run_clean (evs : List Event) (s s' : State) (he : ∀ e ∈ evs, e.isError = false)
    (h : NoError s.tree ∧ s.lost = 0) (hr : run s evs = .ok s') : NoError s'.tree ∧ s'.lost = 0 := by
  induction evs generalizing s with
  | nil => simp [run] at hr; subst hr; exact h
  | cons e r ih =>
    simp only [run] at hr
    cases hs : step s e with
    | crash c => simp [hs] at hr
    | ok s1 =>
      simp only [hs] at hr
      exact ih s1 (fun x hx => he x (by simp [hx])) (step_clean s s1 e (he e (by simp)) h hs) hr

end Pyx12Verif.ErrTree
