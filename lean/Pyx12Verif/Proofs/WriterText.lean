/-
From written segments to written text: what the reader parses back (`normSeg` of every segment, C01) shows the same
envelope views, and everything the writer puts on the stream is clean when the history is.
-/
import Pyx12Verif.Proofs.WriterRun

namespace Pyx12Verif.Writer
open Pyx12Verif.Envelope (RState SegView Kind Fixes Str Level Err idISA idIEA idGS idGE idST idSE idHL idLX idCLM decimal
  isEnvId mkISA mkGS mkST mkSE mkGE mkIEA)
open Pyx12Verif.SegText (Seg Delims joinWith normComp normSeg normElems splitOn trimTrail isEmptyComp isEmptyVal Clean
  ValuesClean HeadOk)

/-! ### trimming trailing empties does not touch a non-empty position -/

theorem dropWhile_keep {α : Type} (p : α → Bool) (x : α) (v : List α) (hx : p x = false) :
    ∀ u : List α, ∃ u', List.dropWhile p (u ++ x :: v) = u' ++ x :: v := by
  intro u
  induction u with
  | nil => exact ⟨[], by simp [hx]⟩
  | cons h t ih =>
    by_cases hp : p h = true
    · obtain ⟨u', hu⟩ := ih
      exact ⟨u', by simp [hp, hu]⟩
    · exact ⟨h :: t, by simp [hp]⟩

theorem trimTrail_getElem? {α : Type} (p : α → Bool) (l : List α) (i : Nat) (x : α) (h : l[i]? = some x)
    (hx : p x = false) : (trimTrail p l)[i]? = some x := by
  obtain ⟨hi, hxi⟩ := List.getElem?_eq_some_iff.mp h
  have hl : l = l.take i ++ x :: l.drop (i + 1) := by
    rw [← hxi]; simp
  have hrev : l.reverse = (l.drop (i + 1)).reverse ++ x :: (l.take i).reverse := by
    conv => lhs; rw [hl]
    simp
  obtain ⟨u', hu⟩ := dropWhile_keep p x (l.take i).reverse hx (l.drop (i + 1)).reverse
  unfold trimTrail
  rw [hrev, hu]
  simp only [List.reverse_append, List.reverse_cons, List.reverse_reverse, List.append_assoc, List.singleton_append]
  rw [List.getElem?_append_right (by simp; omega)]
  simp [Nat.min_eq_left (Nat.le_of_lt hi)]

theorem trimTrail_snoc {α : Type} (p : α → Bool) (es : List α) (x : α) (hx : p x = false) :
    trimTrail p (es ++ [x]) = es ++ [x] := by
  simp [trimTrail, hx]

theorem joinWith_nil_of_empty (t : Char) (c : List (List Char)) (h : isEmptyComp c = true) :
    joinWith t (normComp c) = [] := by
  rw [SegText.normComp_of_empty c h]; rfl

/-- a non-empty value survives the normalisation the text round trip applies -/
theorem valueAt_normSeg (t : Char) (s : Seg) (i : Nat) (c : Str) (h : valueAt t s i = some c) (hc : c ≠ []) :
    valueAt t (normSeg s) i = some c := by
  unfold valueAt at h
  cases he : s.elems[i]? with
  | none => simp [he] at h
  | some comp =>
    simp only [he, Option.map_some, Option.some.injEq] at h
    have hemp : isEmptyComp comp = false := by
      cases hh : isEmptyComp comp with
      | false => rfl
      | true =>
        exfalso
        rw [SegText.normComp_of_empty comp hh] at h
        exact hc (by rw [← h]; rfl)
    have ht := trimTrail_getElem? isEmptyComp s.elems i comp he hemp
    have hne : trimTrail isEmptyComp s.elems ≠ [] := by
      intro e; rw [e] at ht; simp at ht
    simp only [valueAt, normSeg, normElems, hne, if_false, List.getElem?_map, ht, Option.map_some,
      SegText.normComp_idem, h]

/-! ### the view of a written segment read back from the text -/

theorem normSeg_trailer (id : Str) (a b : Str) (hb : b ≠ []) : normSeg ⟨id, [[a], [b]]⟩ = ⟨id, [[a], [b]]⟩ := by
  have hne : isEmptyComp [b] = false := by
    cases b with
    | nil => exact absurd rfl hb
    | cons x r => simp [isEmptyComp, isEmptyVal]
  have : trimTrail isEmptyComp [[a], [b]] = [[a], [b]] := trimTrail_snoc isEmptyComp [[a]] [b] hne
  simp [normSeg, normElems, this, SegText.normComp_single]

theorem ctlOf_normSeg (d : Delims) (s : Seg) (h : GoodCtl d (ctlOf d s)) : ctlOf d (normSeg s) = ctlOf d s := by
  obtain ⟨c, hc, hok⟩ := h
  have hid : (normSeg s).id = s.id := rfl
  unfold ctlOf at hc ⊢
  rw [hid]
  split
  · rename_i h1; rw [if_pos h1] at hc; rw [hc]; exact valueAt_normSeg _ s _ c hc hok.1
  · split
    · rename_i h1 h2; rw [if_neg h1, if_pos h2] at hc; rw [hc]; exact valueAt_normSeg _ s _ c hc hok.1
    · split
      · rename_i h1 h2 h3
        rw [if_neg h1, if_neg h2, if_pos h3] at hc; rw [hc]; exact valueAt_normSeg _ s _ c hc hok.1
      · rename_i h1 h2 h3; rw [if_neg h1, if_neg h2, if_neg h3] at hc

theorem isaOut_elems (c : Cfg) (s : Seg) (icvn : Option Str) (h16 : s.elems.length = 16) :
    ∃ es, es.length = 15 ∧ (isaOut c s icvn).elems = es ++ [splitOn c.d.ele [c.d.sub]] := by
  unfold isaOut
  simp only
  split
  · refine ⟨(s.elems.set 10 (splitOn c.d.sub [c.rep])).take 15, by simp [h16], ?_⟩
    rw [List.set_eq_take_append_cons_drop]
    simp [h16]
  · refine ⟨s.elems.take 15, by simp [h16], ?_⟩
    rw [List.set_eq_take_append_cons_drop]
    simp [h16]

theorem rvOk_norm (c : Cfg) (hd : DelimsOk c.d) : RvOk c (fun s => rview c.d (normSeg s)) := by
  refine ⟨fun s => by rw [rview_id]; rfl, ?_, ?_, ?_, ?_⟩
  · intro id hid a b hb
    simp only [normSeg_trailer id a b hb]
    exact rview_trailer c.d id hid a b
  · intro s hid hg
    have : (normSeg s).id = idGS := hid
    simp only [rview_GS c.d (normSeg s) this, ctlOf_normSeg c.d s hg]
  · intro s hid hg
    have : (normSeg s).id = idST := hid
    simp only [rview_ST c.d (normSeg s) this, ctlOf_normSeg c.d s hg]
  · intro s icvn hid h16 _ hg
    obtain ⟨es, hes, hel⟩ := isaOut_elems c s icvn h16
    have hsub : splitOn c.d.ele [c.d.sub] = [[c.d.sub]] := by
      have : c.d.sub ≠ c.d.ele := fun e => hd.distinct.2.2 e.symm
      simp [splitOn, this, SegText.consHead]
    have hid' : (isaOut c s icvn).id = idISA := hid
    have hidn : (normSeg (isaOut c s icvn)).id = idISA := hid
    have hlen : (normSeg (isaOut c s icvn)).elems.length = 16 := by
      have hne : isEmptyComp [[c.d.sub]] = false := by simp [isEmptyComp, isEmptyVal]
      simp only [normSeg, normElems, hel, hsub, trimTrail_snoc isEmptyComp es _ hne]
      simp [hes]
    have hctl : ctlOf c.d (isaOut c s icvn) = ctlOf c.d s := by
      have h12 : (isaOut c s icvn).elems[12]? = s.elems[12]? := by
        unfold isaOut
        split <;> simp
      simp only [ctlOf, hid', hid, if_true, valueAt, h12]
    have hg' : GoodCtl c.d (ctlOf c.d (isaOut c s icvn)) := by rw [hctl]; exact hg
    have := ctlOf_normSeg c.d (isaOut c s icvn) hg'
    simp only [rview, hidn, if_true, hlen, mkISA]
    have e : valueAt c.d.ele (normSeg (isaOut c s icvn)) 12 = ctlOf c.d (normSeg (isaOut c s icvn)) := by
      simp [ctlOf, hidn]
    rw [e, this, hctl]

/-! ### everything on the stream is clean when the history is -/

theorem genTrailer_clean (d : Delims) (hd : DelimsOk d) (s : Seg) (h : GenTrailer d s) : Clean d s := by
  obtain ⟨id, n, x, hid, ⟨hne, hxt, hxe, hxs⟩, rfl⟩ := h
  have hal := trailerId_alnum hid
  refine ⟨⟨not_mem_of_alnum hd.term hal, not_mem_of_alnum hd.ele hal, ?_⟩, ?_⟩
  · intro c hc
    simp only [List.mem_cons, List.not_mem_nil, or_false] at hc
    rcases hc with rfl | rfl
    · refine ⟨by simp, fun h => absurd h (trailerId_not_isa hid), ?_⟩
      intro v hv
      simp only [List.mem_singleton] at hv
      subst hv
      exact ⟨decimal_free hd.term n, decimal_free hd.ele n, fun _ => decimal_free hd.sub n⟩
    · refine ⟨by simp, fun h => absurd h (trailerId_not_isa hid), ?_⟩
      intro v hv
      simp only [List.mem_singleton] at hv
      subst hv
      exact ⟨hxt, hxe, fun _ => hxs⟩
  · intro ch hch
    rcases trailer_cases hid with e | e | e <;> subst e <;>
      (simp [idIEA, idGE, idSE] at hch; subst hch; decide)

theorem fixISA_clean (c : Cfg) (hd : DelimsOk c.d) (hrt : c.rep ≠ c.d.term) (hre : c.rep ≠ c.d.ele) (hrs : c.rep ≠ c.d.sub)
    (s : Seg) (hc : Clean c.d s) : Clean c.d (fixISA c s) := by
  unfold fixISA
  split
  · rename_i hid
    obtain ⟨⟨h1, h2, h3⟩, hh⟩ := hc
    have hisa : s.id = SegText.isaId := hid
    have hsub : splitOn c.d.ele [c.d.sub] = [[c.d.sub]] := by
      have : c.d.sub ≠ c.d.ele := fun e => hd.distinct.2.2 e.symm
      simp [splitOn, this, SegText.consHead]
    have hrep : splitOn c.d.sub [c.rep] = [[c.rep]] := by simp [splitOn, hrs, SegText.consHead]
    refine ⟨⟨h1, h2, ?_⟩, hh⟩
    intro comp hm
    have hcases : comp ∈ s.elems ∨ comp = [[c.rep]] ∨ comp = [[c.d.sub]] := by
      unfold isaOut at hm
      simp only [hsub, hrep] at hm
      rcases List.mem_or_eq_of_mem_set hm with hm | hm
      · split at hm
        · rcases List.mem_or_eq_of_mem_set hm with hm | hm
          · exact Or.inl hm
          · exact Or.inr (Or.inl hm)
        · exact Or.inl hm
      · exact Or.inr (Or.inr hm)
    rcases hcases with hm | rfl | rfl
    · exact h3 comp hm
    · refine ⟨by simp, fun _ => rfl, ?_⟩
      intro v hv
      simp only [List.mem_singleton] at hv
      subst hv
      exact ⟨by simpa using fun e => hrt e.symm, by simpa using fun e => hre e.symm, fun h => absurd hisa h⟩
    · refine ⟨by simp, fun _ => rfl, ?_⟩
      intro v hv
      simp only [List.mem_singleton] at hv
      subst hv
      exact ⟨by simpa using hd.distinct.2.1, by simpa using hd.distinct.2.2, fun h => absurd hisa h⟩
  · exact hc

end Pyx12Verif.Writer
