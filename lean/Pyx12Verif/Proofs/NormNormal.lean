/-
C20 helper lemmas, part 6: segments already in the normal form of `Segment.format` (no trailing empty element, no
trailing empty component) stay in normal form when element 1 is rewritten by a non-empty simple value.
-/
import Pyx12Verif.Proofs.NormShape

namespace Pyx12Verif.Norm
open Pyx12Verif SegText Envelope

theorem trimTrail_keep {α : Type} (p : α → Bool) (l : List α) (a : α) (h : l.getLast? = some a) (ha : p a = false) :
    trimTrail p l = l := by
  unfold trimTrail
  have : l.reverse.head? = some a := by rw [List.head?_reverse]; exact h
  cases hr : l.reverse with
  | nil => rw [hr] at this; cases this
  | cons b r =>
    rw [hr] at this
    simp only [List.head?_cons, Option.some.injEq] at this
    subst this
    rw [List.dropWhile_cons_of_neg (by simp [ha]), ← hr, List.reverse_reverse]

theorem length_dropWhile_le' {α : Type} (p : α → Bool) (r : List α) : (r.dropWhile p).length ≤ r.length := by
  induction r with
  | nil => simp
  | cons a t ih =>
    simp only [List.dropWhile_cons]
    split
    · simp only [List.length_cons]; omega
    · simp

theorem dropWhile_eq_self {α : Type} (p : α → Bool) (m : List α) (h : m.dropWhile p = m) :
    ∀ a, m.head? = some a → p a = false := by
  intro a ha
  cases m with
  | nil => cases ha
  | cons b r =>
    simp only [List.head?_cons, Option.some.injEq] at ha
    subst ha
    cases hp : p b with
    | false => rfl
    | true =>
      rw [List.dropWhile_cons_of_pos hp] at h
      have := length_dropWhile_le' p r
      rw [h] at this
      simp only [List.length_cons] at this
      omega

theorem trimTrail_self_last {α : Type} (p : α → Bool) (l : List α) (h : trimTrail p l = l) (a : α)
    (hl : l.getLast? = some a) : p a = false := by
  unfold trimTrail at h
  have h' : l.reverse.dropWhile p = l.reverse := by
    have := congrArg List.reverse h
    rwa [List.reverse_reverse] at this
  exact dropWhile_eq_self p _ h' a (by rw [List.head?_reverse]; exact hl)

theorem map_eq_self {α : Type} (f : α → α) (l : List α) (h : l.map f = l) : ∀ x ∈ l, f x = x := by
  induction l with
  | nil => intro x hx; simp at hx
  | cons a r ih =>
    simp only [List.map_cons, List.cons.injEq] at h
    intro x hx
    rcases List.mem_cons.mp hx with rfl | hx
    · exact h.1
    · exact ih h.2 x hx

theorem normElems_fixed (es : List (List (List Char))) (h : normElems es = es) :
    es = [[[]]] ∨ (trimTrail isEmptyComp es = es ∧ ∀ c ∈ es, normComp c = c) := by
  unfold normElems at h
  split at h
  · exact Or.inl h.symm
  · right
    have hlen : (trimTrail isEmptyComp es).length = es.length := by
      have := congrArg List.length h
      simpa using this
    have hpre := trimTrail_prefix isEmptyComp es
    rw [hlen, List.take_length] at hpre
    rw [← hpre] at h
    exact ⟨hpre.symm, map_eq_self normComp es h⟩

theorem isEmptyComp_single (x : List Char) (hx : x ≠ []) : isEmptyComp [x] = false := by
  cases x with
  | nil => exact absurd rfl hx
  | cons a r => rfl

theorem normElems_single (x : List Char) (hx : x ≠ []) : normElems [[x]] = [[x]] := by
  unfold normElems
  rw [trimTrail_keep isEmptyComp [[x]] [x] rfl (isEmptyComp_single x hx)]
  simp [normComp_single]

theorem normSeg_set01 (d : Delims) (s : Seg) (x : List Char) (hn : normSeg s = s) (hx : x ≠ []) (hsub : d.sub ∉ x) :
    normSeg (set01 d s x) = set01 d s x := by
  have hes : normElems s.elems = s.elems := congrArg Segment.Seg.elems hn
  unfold normSeg set01
  simp only [Path.splitOn_no_sep _ _ hsub]
  congr 1
  rcases normElems_fixed s.elems hes with h | ⟨h1, h2⟩
  · rw [h]; exact normElems_single x hx
  · cases he : s.elems with
    | nil => exact normElems_single x hx
    | cons a r =>
      cases r with
      | nil => exact normElems_single x hx
      | cons b r' =>
        rw [he] at h1 h2
        simp only [List.tail_cons]
        obtain ⟨z, hz⟩ : ∃ z, (b :: r').getLast? = some z := ⟨(b :: r').getLast (by simp), List.getLast?_eq_some_getLast _⟩
        have hz1 : (a :: b :: r').getLast? = some z := by rw [List.getLast?_cons_cons]; exact hz
        have hz2 : ([x] :: b :: r').getLast? = some z := by rw [List.getLast?_cons_cons]; exact hz
        have hpz := trimTrail_self_last isEmptyComp _ h1 z hz1
        unfold normElems
        rw [trimTrail_keep isEmptyComp _ z hz2 hpz]
        simp only [if_false, List.map_cons, normComp_single, reduceCtorEq]
        have hb := h2 b (by simp)
        have hr : r'.map normComp = r' := by
          conv => rhs; rw [← List.map_id r']
          apply List.map_congr_left
          intro c hc
          exact h2 c (by simp [hc])
        rw [hb, hr]

end Pyx12Verif.Norm
