/-
C09 ⟵ C02 link, part 5: runs of the walker that are NOT conformant.

`walk_facts` (Proofs/CtxWalkShape.lean; here `walk_facts2` of Proofs/CtxFoundFacts.lean, the same statement under weaker map
hypotheses) never looks at the counters, the error list or the pending list: whenever `walk`
returns a node, the answer has the shape the reader can replay.  Hence the reader's consistency check accepts

  * every run in which each segment is *found* (`RunFound`; errors and pending entries allowed)      `run_consistent_found`
  * every run whatsoever: when the walker finds no node, `iter_segments` keeps the previous node and uses the pop / push
    lists the walker returned — which are empty (`walk_none_lists`) — and that answer is accepted too  `run_consistent_any`

The map hypotheses are static ones only: `WFMap`, `ShapeUnamb` (Proofs/CtxFoundUnamb.lean — a small part of `Unambiguous`,
true of every shipped map, also of those for which `Unambiguous` fails), `CtxMapOK`.
-/
import Pyx12Verif.Proofs.CtxFoundFacts

namespace Pyx12Verif.CtxWalk
open Pyx12Verif.MapSkel Pyx12Verif.Walker Pyx12Verif.WalkerGen

theorem static2_of {K : Consts} {root : List Node} (htr : trList root = true) (hsu : ShapeUnamb K root = true)
    (hok : CtxMapOK root = true) : Static2 K root := by
  simp only [CtxMapOK, Bool.and_eq_true] at hok
  exact ⟨htr, hsu, hok.1, hok.2⟩

/-- from the hypotheses of the earlier theorems -/
theorem static2_of_static {K : Consts} {root : List Node} (hwf : WFMap root = true) (hun : Unambiguous K root = true)
    (hok : CtxMapOK root = true) : Static2 K root :=
  static2_of (trList_of_wfmap hwf) (shapeUnamb_of_unambiguous hun) hok

/-- every segment is located: each walk (started at the node found for the previous segment) returns a node.  Nothing is
    said about the counters, the errors reported or the mandatory segments pending.  Only the data part `e.2` of the
    entries is read. -/
def RunFound (K : Consts) (root : List Node) (rootId : Nat) : Counter → List Nat → List Emit → Prop
  | _, _, [] => True
  | cnt, cur, e :: r =>
    ∃ n, (walk K root rootId cnt cur e.2).node = some n ∧ RunFound K root rootId (walk K root rootId cnt cur e.2).st.cnt n r

/-- the same as a Bool, for concrete examples -/
def runFoundb (K : Consts) (root : List Node) (rootId : Nat) : Counter → List Nat → List Emit → Bool
  | _, _, [] => true
  | cnt, cur, e :: r =>
    match (walk K root rootId cnt cur e.2).node with
    | some n => runFoundb K root rootId (walk K root rootId cnt cur e.2).st.cnt n r
    | none => false

theorem runFound_of_bool {K : Consts} {root : List Node} {rootId : Nat} : ∀ (emits : List Emit) (cnt : Counter) (cur : List Nat),
    runFoundb K root rootId cnt cur emits = true → RunFound K root rootId cnt cur emits
  | [], _, _, _ => trivial
  | e :: r, cnt, cur, h => by
    simp only [runFoundb] at h
    cases hn : (walk K root rootId cnt cur e.2).node with
    | none => rw [hn] at h; cases h
    | some n => rw [hn] at h; exact ⟨n, hn, runFound_of_bool r _ n h⟩

/-- a conformant run is a located run -/
theorem runFound_of_runOK {K : Consts} {root : List Node} {rootId : Nat} : ∀ (emits : List Emit) (cnt : Counter) (cur : List Nat),
    RunOK K root rootId cnt cur emits → RunFound K root rootId cnt cur emits
  | [], _, _, _ => trivial
  | e :: r, cnt, cur, h => by
    obtain ⟨h1, _, _, h4⟩ := h
    exact ⟨e.1, h1, runFound_of_runOK r _ e.1 h4⟩

/-- the errors reported along a run, in order (to tell a located run from a conformant one) -/
def runErrs (K : Consts) (root : List Node) (rootId : Nat) : Counter → List Nat → List Emit → List WErr
  | _, _, [] => []
  | cnt, cur, e :: r =>
    (walk K root rootId cnt cur e.2).st.errs ++
      runErrs K root rootId (walk K root rootId cnt cur e.2).st.cnt
        (match (walk K root rootId cnt cur e.2).node with
         | some n => n
         | none => cur) r

/-! ### a segment node never sits directly under the map root -/

theorem segAt_loopAt {K : Consts} {root : List Node} (hs : Static2 K root) {cur : List Nat} (hcur : SegAt root cur) :
    LoopAt root cur.dropLast := by
  obtain ⟨L, i, ch, c, rfl, hch, hc, hseg⟩ := hcur
  have hdl : (L ++ [i]).dropLast = L := by simp
  rw [hdl]
  refine ⟨?_, ch, hch⟩
  intro e
  subst e
  simp only [chAt, Option.some.injEq] at hch
  subst hch
  have := allLoops_get hs.loops hc
  rw [hseg] at this; cases this

/-! ### the not-found fallback: the previous node once more, nothing popped, nothing pushed -/

/-- the reader's check accepts "the previous node again" and stays where it was.  When that node is the first segment of
    its loop the reader sees a REPEAT of the loop (`implicitOpen`): consistent, but a new instance begins. -/
theorem notfound_step {K : Consts} {root : List Node} (hs : Static2 K root) (hwf : WFAt root) {lid : Option Nat} (hlid : LidOK? root lid)
    {cur : List Nat} (hcur : SegAt root cur) (si : Ctx.SegInfo) :
    Ctx.stepOk lid { open_ := stackAt root cur.dropLast, last := posAt root cur } (answerOf root si cur [] []) =
      some { open_ := stackAt root cur.dropLast, last := posAt root cur } := by
  have hloop := segAt_loopAt hs hcur
  obtain ⟨L, i, ch, c, rfl, hch, hc, hseg⟩ := hcur
  have hdl : (L ++ [i]).dropLast = L := by simp
  rw [hdl] at hloop ⊢
  by_cases hi : i = 0
  · -- first segment of its loop: the reader closes the loop and opens it again
    subst hi
    obtain ⟨p0, a, pch, l, pos, u, rp, w, sub, hL, hpch, hai, hsub⟩ := hloop.split
    subst hL
    have hpath : Ctx.pathOf (stackAt root (p0 ++ [a])) = lpathAt root (p0 ++ [a]) := pathOf_stackAt _ _
    have hposL : posAt root (p0 ++ [a]) = pos := by rw [posAt_snoc hpch hai]; rfl
    have hfirst : (answerOf root si (p0 ++ [a] ++ [0]) [] []).first = true := by simp [answerOf]
    have himp : Ctx.implicitOpen (answerOf root si (p0 ++ [a] ++ [0]) [] []) = true := by
      simp [Ctx.implicitOpen, answerOf, cvPushes]
    have hapath : (answerOf root si (p0 ++ [a] ++ [0]) [] []).path = lpathAt root (p0 ++ [a]) := by simp [answerOf]
    have happos : (answerOf root si (p0 ++ [a] ++ [0]) [] []).ppos = pos := by simp [answerOf, hposL]
    have hep : Ctx.effPops (lpathAt root (p0 ++ [a])) (answerOf root si (p0 ++ [a] ++ [0]) [] []) =
        [lpathAt root (p0 ++ [a])] := by
      unfold Ctx.effPops; rw [himp, hapath]; simp
    have hepu : Ctx.effPushes (answerOf root si (p0 ++ [a] ++ [0]) [] []) = [(lpathAt root (p0 ++ [a]), pos)] := by
      unfold Ctx.effPushes; rw [himp, hapath, happos]; simp
    have hpop : Ctx.popRun (stackAt root (p0 ++ [a])) (posAt root (p0 ++ [a] ++ [0])) [lpathAt root (p0 ++ [a])] =
        some (stackAt root p0, pos) := by
      rw [popRun_one hpch hai]; simp [Ctx.popRun, Node.pos]
    have hpush : Ctx.pushRun (stackAt root p0) [(lpathAt root (p0 ++ [a]), pos)] = some (stackAt root (p0 ++ [a])) := by
      have := pushRun_one hpch hai []
      rw [hposL] at this
      rw [this]; simp [Ctx.pushRun]
    simp only [Ctx.stepOk, hpath, hep, hepu, hpop, hpush]
    rw [if_pos]
    · simp [answerOf]
    · refine ⟨by rw [hapath], Or.inl hfirst, ?_, by simp, fun _ => Or.inl (by rw [hapath]), ?_, ?_⟩
      · intro _
        rw [happos, ← hposL]
        exact stackAt_head hloop
      · unfold Ctx.firstPushPos; rw [hepu]; simp
      · cases lid with
        | none => simp [Ctx.anchoredOk]
        | some l =>
          have hl : LidOK root l := hlid
          simp only [Ctx.anchoredOk, hepu, List.dropLast_singleton, List.map_nil, List.contains_nil, Bool.not_false,
            Bool.true_and, decide_eq_true_eq, hapath]
          exact (hl (p0 ++ [a]) sub hloop.1 hsub).1
  · -- a later segment of the loop: an ordinary step that pops and pushes nothing
    have hf : StepFacts root L (posAt root (L ++ [i])) (L ++ [i]) [] [] :=
      ⟨L, L, posAt root (L ++ [i]), i, ch, c, by simp [cvPops, Ctx.popRun], by simp [cvPushes, Ctx.pushRun], rfl, hloop, hch,
        hc, hseg, fun _ => hi, fun e => absurd rfl e, fun _ => by simp, fun p0 rest e => (by cases e), by simp⟩
    have := step_consistent hwf hlid ⟨ch, hch⟩ hf si
    rw [hdl] at this
    exact this

/-! ### every run is consistent -/

/-- **any run** of the walker model, found or not, conformant or not, gives a consistent answer list -/
theorem run_consistent_any {K : Consts} {root : List Node} {rootId : Nat} (hs : Static2 K root) (hwf : WFAt root) {lid : Option Nat}
    (hlid : LidOK? root lid) (si : Nat → Ctx.SegInfo) : ∀ (emits : List Emit) (k : Nat) (cnt : Counter) (cur : List Nat),
    SegAt root cur →
    Ctx.consistentFrom lid { open_ := stackAt root cur.dropLast, last := posAt root cur }
      (walkAnswers K root rootId si k cnt cur emits) = true
  | [], _, _, _, _ => by simp [walkAnswers, Ctx.consistentFrom]
  | e :: r, k, cnt, cur, hcur => by
    cases hnode : (walk K root rootId cnt cur e.2).node with
    | some n =>
      have hf := walk_facts2 hs hcur cnt hnode
      simp only [walkAnswers, hnode, Ctx.consistentFrom]
      rw [step_consistent hwf hlid (segAt_dropLast hcur) hf (si k)]
      simp only
      exact run_consistent_any hs hwf hlid si r (k + 1) _ n (segAt_of_facts hf)
    | none =>
      simp only [walkAnswers, hnode, Ctx.consistentFrom]
      rw [notfound_step hs hwf hlid hcur (si k)]
      simp only
      exact run_consistent_any hs hwf hlid si r (k + 1) _ cur hcur

/-- where the reader stands after any run: at the walker's last node -/
def anyCur (K : Consts) (root : List Node) (rootId : Nat) : Counter → List Nat → List Emit → List Nat
  | _, cur, [] => cur
  | cnt, cur, e :: r =>
    anyCur K root rootId (walk K root rootId cnt cur e.2).st.cnt
      (match (walk K root rootId cnt cur e.2).node with
       | some n => n
       | none => cur) r

/-- number of segments the walker did not find -/
def notFoundCount (K : Consts) (root : List Node) (rootId : Nat) : Counter → List Nat → List Emit → Nat
  | _, _, [] => 0
  | cnt, cur, e :: r =>
    match (walk K root rootId cnt cur e.2).node with
    | some n => notFoundCount K root rootId (walk K root rootId cnt cur e.2).st.cnt n r
    | none => notFoundCount K root rootId (walk K root rootId cnt cur e.2).st.cnt cur r + 1

end Pyx12Verif.CtxWalk
