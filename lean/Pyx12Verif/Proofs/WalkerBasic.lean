/-
C02 helper lemmas, part 1: match keys (`hits`), counters (`ZeroUnder`), index paths (`chAt`, `nodeAt`, `keyAt`).
-/
import Pyx12Verif.Spec.WalkerGen
import Pyx12Verif.Props.C02

namespace Pyx12Verif.WalkerGen
open Pyx12Verif.MapSkel Pyx12Verif.Walker

/-! ### a data segment hits a key -/

/-- the data segment passes the id test and the (first) qualifier test recorded in the key -/
def hits (s : SegData) (k : SKey) : Prop :=
  s.sid = k.1 ∧ ∀ x, k.2 = some x → slotVal s x.1 ∈ x.2

def NoHit (s : SegData) (ks : List SKey) : Prop := ∀ k ∈ ks, ¬ hits s k

theorem NoHit.nil (s : SegData) : NoHit s [] := by intro k hk; cases hk

theorem NoHit.append {s : SegData} {a b : List SKey} : NoHit s (a ++ b) ↔ NoHit s a ∧ NoHit s b := by
  unfold NoHit; constructor
  · intro h; exact ⟨fun k hk => h k (List.mem_append_left _ hk), fun k hk => h k (List.mem_append_right _ hk)⟩
  · intro ⟨h1, h2⟩ k hk
    rcases List.mem_append.mp hk with h | h
    · exact h1 k h
    · exact h2 k h

macro "fin_key" : tactic => `(tactic| (
  split
  · trivial
  · rename_i y heq
    repeat' split at heq
    all_goals (first | (cases heq; done) | skip)
    all_goals (first | (cases heq; simp_all [slotVal]; done) | (cases heq; simp_all [slotVal]; omega) | (cases heq; grind [slotVal]))))

theorem matchChildren_hits' (K : Consts) (ch : List Child) (s : SegData)
    (h : matchChildren K ch s = true) :
    match segSKey K s.sid ch with
    | none => True
    | some x => slotVal s x.1 ∈ x.2 := by
  unfold matchChildren at h
  unfold segSKey
  cases h0 : nthChild ch 0 with
  | none => simp
  | some c0 =>
    cases c0 with
    | elem e0 =>
      simp only [h0] at h ⊢
      cases h1 : nthChild ch 1 with
      | none =>
        cases h2 : nthChild ch 2 with
        | none => simp [h1, h2] at h ⊢; fin_key
        | some c2 => cases c2 <;> simp [h1, h2] at h ⊢ <;> fin_key
      | some c1 =>
        cases h2 : nthChild ch 2 with
        | none => cases c1 <;> simp [h1, h2] at h ⊢ <;> fin_key
        | some c2 => cases c1 <;> cases c2 <;> simp [h1, h2] at h ⊢ <;> fin_key
    | comp a b c d subs =>
      simp only [h0] at h ⊢
      cases hs0 : firstSub subs with
      | none => simp
      | some s0 => simp [hs0] at h ⊢; fin_key

theorem isMatch_hits (K : Consts) (n : Node) (s : SegData) (h : isMatch K n s = true) :
    ∀ k ∈ nodeSKey K n, hits s k := by
  cases n with
  | loop => simp [isMatch] at h
  | seg sid q p u m notes ch =>
    intro k hk
    simp only [nodeSKey, List.mem_singleton] at hk
    subst hk
    simp only [isMatch, Bool.and_eq_true, beq_iff_eq] at h
    refine ⟨h.1, ?_⟩
    intro x hx
    have := matchChildren_hits' K ch s h.2
    rw [h.1] at this
    simp only at hx
    rw [hx] at this
    exact this

theorem overlapCodes_of_mem {v : Nat} : ∀ {x y : List Nat}, v ∈ x → v ∈ y → overlapCodes x y = true
  | [], _, h, _ => by cases h
  | c :: r, y, h, hy => by
    simp only [overlapCodes, Bool.or_eq_true]
    rcases List.mem_cons.mp h with h | h
    · subst h; left; simpa using hy
    · right; exact overlapCodes_of_mem h hy

theorem hits_overlap {s : SegData} {a b : SKey} (ha : hits s a) (hb : hits s b) : overlapS a b = true := by
  obtain ⟨a1, a2⟩ := a
  obtain ⟨b1, b2⟩ := b
  obtain ⟨ha1, ha2⟩ := ha
  obtain ⟨hb1, hb2⟩ := hb
  simp only at ha1 ha2 hb1 hb2
  simp only [overlapS, Bool.and_eq_true, beq_iff_eq]
  refine ⟨by omega, ?_⟩
  cases a2 with
  | none => rfl
  | some x =>
    cases b2 with
    | none => rfl
    | some y =>
      simp only [overlapQ, Bool.or_eq_true, bne_iff_ne]
      by_cases hxy : x.1 = y.1
      · right
        have h1 := ha2 x rfl
        have h2 := hb2 y rfl
        rw [hxy] at h1
        exact overlapCodes_of_mem h1 h2
      · left; exact hxy

theorem noHit_of_noOverlap {s : SegData} {ka kb : List SKey} (h : anyOverlapS ka kb = false)
    {t : SKey} (ht : t ∈ kb) (hs : hits s t) : NoHit s ka := by
  intro k hk hh
  have := hits_overlap hh hs
  have : anyOverlapS ka kb = true := by
    simp only [anyOverlapS, List.any_eq_true]
    exact ⟨k, hk, t, ht, this⟩
  rw [h] at this; cases this

theorem anyOverlapS_symm_false {ka kb : List SKey} {s : SegData} (h : anyOverlapS ka kb = false)
    {t : SKey} (ht : t ∈ ka) (hs : hits s t) : NoHit s kb := by
  intro k hk hh
  have := hits_overlap hs hh
  have : anyOverlapS ka kb = true := by
    simp only [anyOverlapS, List.any_eq_true]
    exact ⟨t, ht, k, hk, this⟩
  rw [h] at this; cases this

/-! ### counters -/

/-- every count at or below `key` is 0 -/
def ZeroUnder (cnt : Counter) (key : PathKey) : Prop := ∀ k', key <+: k' → cnt.get k' = 0

theorem isStrictPrefix_iff : ∀ (k k' : PathKey), isStrictPrefix k k' = true ↔ (k <+: k' ∧ k ≠ k')
  | [], [] => by simp [isStrictPrefix]
  | [], _ :: _ => by simp [isStrictPrefix]
  | _ :: _, [] => by simp [isStrictPrefix]
  | a :: r, b :: s => by
    simp only [isStrictPrefix, Bool.and_eq_true, beq_iff_eq, isStrictPrefix_iff r s, List.cons_prefix_cons]
    constructor
    · rintro ⟨rfl, h1, h2⟩; exact ⟨⟨rfl, h1⟩, by simpa using h2⟩
    · rintro ⟨⟨rfl, h1⟩, h2⟩; exact ⟨rfl, h1, by simpa using h2⟩

theorem isStrictPrefix_self (k : PathKey) : isStrictPrefix k k = false := by
  cases h : isStrictPrefix k k with
  | false => rfl
  | true => exact absurd rfl ((isStrictPrefix_iff k k).mp h).2

theorem get_resetTo_self (c : Counter) (k : PathKey) : (c.resetTo k).get k = c.get k :=
  get_resetTo_other c k k (isStrictPrefix_self k)

theorem get_resetTo_le (c : Counter) (k k' : PathKey) : (c.resetTo k).get k' = 0 ∨ (c.resetTo k).get k' = c.get k' := by
  cases h : isStrictPrefix k k' with
  | true => left; exact get_resetTo_below c k k' h
  | false => right; exact get_resetTo_other c k k' h

theorem ZeroUnder.resetTo {cnt : Counter} {key : PathKey} (h : ZeroUnder cnt key) (k : PathKey) :
    ZeroUnder (cnt.resetTo k) key := by
  intro k' hk'
  rcases get_resetTo_le cnt k k' with h1 | h1
  · exact h1
  · rw [h1]; exact h k' hk'

theorem ZeroUnder.incr {cnt : Counter} {key : PathKey} (h : ZeroUnder cnt key) {k : PathKey} (hk : ¬ key <+: k) :
    ZeroUnder (cnt.incr k) key := by
  intro k' hk'
  have : k ≠ k' := by intro e; subst e; exact hk hk'
  rw [get_incr_other _ _ _ this]; exact h k' hk'

theorem ZeroUnder.mono {cnt : Counter} {key key' : PathKey} (h : ZeroUnder cnt key) (hp : key <+: key') :
    ZeroUnder cnt key' := fun k' hk' => h k' (List.IsPrefix.trans hp hk')

/-- two extensions of one key by different components have no common extension -/
theorem prefix_snoc_inj {α : Type} {l : List α} {a b : α} {k : List α} (ha : l ++ [a] <+: k) (hb : l ++ [b] <+: k) :
    a = b := by
  obtain ⟨t1, h1⟩ := ha
  obtain ⟨t2, h2⟩ := hb
  rw [← h2] at h1
  simp only [List.append_assoc, List.append_cancel_left_eq, List.cons_append, List.nil_append, List.cons.injEq] at h1
  exact h1.1

/-! ### "required and not yet seen", as the walker's scan would report it -/

mutual
/-- scanning past this node while it does not match adds nothing to `mandatory_segs_missing` -/
def satisfied (cnt : Counter) (key : PathKey) : Node → Bool
  | .seg _ _ _ u _ _ _ => u != 0 || decide (1 ≤ cnt.get key)
  | .loop _ _ u _ _ ch => satHead cnt key u ch
def satHead (cnt : Counter) (key : PathKey) (u : Nat) : List Node → Bool
  | [] => true
  | .seg .. :: _ => u != 0 || decide (1 ≤ cnt.get key)
  | .loop a b c d e ch :: r => satLoops cnt key (.loop a b c d e ch :: r)
def satLoops (cnt : Counter) (key : PathKey) : List Node → Bool
  | [] => true
  | .seg .. :: r => satLoops cnt key r
  | .loop l a u b w ch :: r => satHead cnt (key ++ [(l, 0)]) u ch && satLoops cnt key r
end

/-! ### index paths -/

/-- children of the loop at an index path (`[]` = the map root) -/
def chAt : List Node → List Nat → Option (List Node)
  | ch, [] => some ch
  | ch, i :: r =>
    match ch[i]? with
    | some (.loop _ _ _ _ _ sub) => chAt sub r
    | _ => none

theorem chAt_append (root : List Node) (p q : List Nat) :
    chAt root (p ++ q) = (chAt root p).bind (fun ch => chAt ch q) := by
  induction p generalizing root with
  | nil => simp [chAt]
  | cons i r ih =>
    simp only [List.cons_append, chAt]
    split
    · exact ih _
    · simp

theorem chAt_snoc {root : List Node} {p : List Nat} {ch : List Node} (h : chAt root p = some ch) (i : Nat) :
    chAt root (p ++ [i]) = (match ch[i]? with
      | some (.loop _ _ _ _ _ sub) => some sub
      | _ => none) := by
  rw [chAt_append, h]
  simp only [Option.bind_some, chAt]

theorem nodeAt_cons_cons (root : List Node) (i j : Nat) (r : List Nat) :
    nodeAt root (i :: j :: r) = (match root[i]? with
      | some (.loop _ _ _ _ _ sub) => nodeAt sub (j :: r)
      | _ => none) := by
  cases h : root[i]? with
  | none => simp [nodeAt, h]
  | some n => cases n <;> simp [nodeAt, h]

theorem nodeAt_snoc {root : List Node} {p : List Nat} {ch : List Node} (h : chAt root p = some ch) (i : Nat) :
    nodeAt root (p ++ [i]) = ch[i]? := by
  induction p generalizing root with
  | nil => simp only [chAt, Option.some.injEq] at h; subst h; simp [nodeAt]
  | cons a r ih =>
    simp only [chAt] at h
    cases r with
    | nil =>
      simp only [List.cons_append, List.nil_append, nodeAt_cons_cons]
      split at h
      · rename_i sub heq
        simp only [chAt, Option.some.injEq] at h; subst h
        simp [nodeAt]
      · cases h
    | cons b r' =>
      simp only [List.cons_append, nodeAt_cons_cons]
      split at h
      · rename_i sub heq
        exact ih h
      · cases h

theorem keyAt_snoc {root : List Node} {p : List Nat} {ch : List Node} (h : chAt root p = some ch) {i : Nat} {c : Node}
    (hc : ch[i]? = some c) : keyAt root (p ++ [i]) = keyAt root p ++ [c.comp] := by
  induction p generalizing root with
  | nil => simp only [chAt, Option.some.injEq] at h; subst h; simp [keyAt, hc]
  | cons a r ih =>
    simp only [chAt] at h
    split at h
    · rename_i sub heq
      simp only [List.cons_append, keyAt, heq, Node.children, List.cons_append, List.cons.injEq, true_and]
      exact ih h
    · cases h

/-- the loop node whose children `chAt` returns -/
theorem nodeAt_of_chAt {root : List Node} {p : List Nat} {i : Nat} {sub : List Node}
    (h : chAt root (p ++ [i]) = some sub) :
    ∃ ch lid pos u r w, chAt root p = some ch ∧ ch[i]? = some (.loop lid pos u r w sub) ∧
      nodeAt root (p ++ [i]) = some (.loop lid pos u r w sub) := by
  rw [chAt_append] at h
  cases hp : chAt root p with
  | none => simp [hp] at h
  | some ch =>
    simp only [hp, Option.bind_some, chAt] at h
    split at h
    · rename_i lid pos u r w sub' heq
      simp only [Option.some.injEq] at h; subst h
      exact ⟨ch, lid, pos, u, r, w, rfl, heq, by rw [nodeAt_snoc hp]; exact heq⟩
    · cases h

theorem chAt_prefix {root : List Node} {p q : List Nat} {ch : List Node} (h : chAt root q = some ch) (hp : p <+: q) :
    ∃ ch', chAt root p = some ch' := by
  obtain ⟨t, rfl⟩ := hp
  rw [chAt_append] at h
  cases hq : chAt root p with
  | none => simp [hq] at h
  | some ch' => exact ⟨ch', rfl⟩

end Pyx12Verif.WalkerGen
