/-
C06 re-validation, part V (generic machinery): conformance of a written segment to a segment definition, split into
  * ECHO slots  — values copied from the input's error tree / the clock: admissible by hypothesis (`EchoAdm`, the "echoed
                  values fit" of the property), and
  * OWN slots   — values the writer produces from its own tables and counters: admissible by a DECIDABLE check of the
                  definition (`slotsOk`), sound for every context (`ownAdm_of_slotsOk`).
`SimpleAdm` is `Doc.ChildrenAdm` for segments without qualifier-selected type lists (no DTP, no data element 1250).
-/
import Pyx12Verif.Proofs.C06RevalDefs

namespace Pyx12Verif.C06R
open Pyx12Verif Pyx12Verif.Doc Pyx12Verif.ElemValid

/-! ### conformance without type lists -/

/-- no child selects a type list for a later one (`data_ele == '1250'`) -/
def noTl : List ChildX → Bool
  | [] => true
  | .elem x :: r => !(x.dataEle == some s1250) && noTl r
  | .comp .. :: r => noTl r

/-- element `e` meets the definition of child `c` -/
def PresentAdm0 (ctx : Doc.Ctx) (v5 : Bool) (e : List Str) : ChildX → Prop
  | .elem x => ∃ v, e = [v] ∧ ElemAdm ctx v5 x [] (.simple v)
  | .comp u _ _ _ _ kids => CompAdm ctx v5 u kids (some e)

def SimpleAdm (ctx : Doc.Ctx) (v5 : Bool) : List ChildX → List (List Str) → Prop
  | [], _ => True
  | c :: cs, [] => ChildAbsentAdm ctx v5 c ∧ SimpleAdm ctx v5 cs []
  | c :: cs, e :: es => PresentAdm0 ctx v5 e c ∧ SimpleAdm ctx v5 cs es

theorem childrenAdm_of_simple (ctx : Doc.Ctx) (v5 : Bool) (sid : Str) (v02 : Option Str) (hsid : sid ≠ sDTP) :
    ∀ (cs : List ChildX) (i : Nat) (es : List (List Str)), noTl cs = true → SimpleAdm ctx v5 cs es →
      ChildrenAdm ctx v5 sid v02 i [] [] cs es := by
  intro cs
  induction cs with
  | nil => intro i es _ _; simp only [ChildrenAdm]
  | cons c cs ih =>
    intro i es hn h
    have hn' : noTl cs = true := by
      cases c with
      | elem x => simp only [noTl, Bool.and_eq_true] at hn; exact hn.2
      | comp u seq nm rd de kids => simpa [noTl] using hn
    cases es with
    | nil => exact ⟨h.1, ih (i + 1) [] hn' h.2⟩
    | cons e es =>
      have hdt : stepDtype sid i v02 [] c = [] := by
        cases c with
        | elem x => simp [stepDtype, newDtype, hsid]
        | comp u seq nm rd de kids => rfl
      have htl : stepTl [] c = [] := by
        cases c with
        | elem x =>
          simp only [noTl, Bool.and_eq_true, Bool.not_eq_true', beq_eq_false_iff_ne, ne_eq] at hn
          simp [stepTl, newTl, hn.1]
        | comp u seq nm rd de kids => rfl
      simp only [ChildrenAdm, hdt, htl]
      refine ⟨?_, ih (i + 1) es hn' h.2⟩
      cases c with
      | elem x =>
        obtain ⟨v, hv, ha⟩ := h.1
        refine ⟨v, hv, ?_⟩
        have : pickTl sid i x [] [] = [] := by simp [pickTl, hsid]
        rw [this]; exact ha
      | comp u seq nm rd de kids => exact h.1

/-! ### echo slots and own slots -/

/-- which written elements are the writer's own (position, value) -/
abbrev Own := Nat → List Str → Bool

/-- the echoed part: every element that is not the writer's own meets its definition, nothing is written beyond the
    definition's last element, and an element the writer always writes (`i < minLen`) is not missing -/
def EchoAdm (ctx : Doc.Ctx) (v5 : Bool) (own : Own) (minLen : Nat) : Nat → List ChildX → List (List Str) → Prop
  | _, [], es => es = []
  | i, c :: cs, [] => (i < minLen → ChildAbsentAdm ctx v5 c) ∧ EchoAdm ctx v5 own minLen (i + 1) cs []
  | i, c :: cs, e :: es => (own i e = false → PresentAdm0 ctx v5 e c) ∧ EchoAdm ctx v5 own minLen (i + 1) cs es

/-- the writer's part: its own values meet the definitions, and what it may leave out is optional -/
def OwnAdm (ctx : Doc.Ctx) (v5 : Bool) (own : Own) (minLen : Nat) : Nat → List ChildX → List (List Str) → Prop
  | _, [], _ => True
  | i, c :: cs, [] => (minLen ≤ i → ChildAbsentAdm ctx v5 c) ∧ OwnAdm ctx v5 own minLen (i + 1) cs []
  | i, c :: cs, e :: es => (own i e = true → PresentAdm0 ctx v5 e c) ∧ OwnAdm ctx v5 own minLen (i + 1) cs es

theorem simpleAdm_of_echo_own (ctx : Doc.Ctx) (v5 : Bool) (own : Own) (minLen : Nat) :
    ∀ (cs : List ChildX) (i : Nat) (es : List (List Str)), EchoAdm ctx v5 own minLen i cs es →
      OwnAdm ctx v5 own minLen i cs es → SimpleAdm ctx v5 cs es ∧ es.length ≤ cs.length := by
  intro cs
  induction cs with
  | nil => intro i es h _; simp only [EchoAdm] at h; subst h; exact ⟨trivial, Nat.le_refl _⟩
  | cons c cs ih =>
    intro i es he ho
    cases es with
    | nil =>
      obtain ⟨r1, r2⟩ := ih (i + 1) [] he.2 ho.2
      refine ⟨⟨?_, r1⟩, by simp⟩
      by_cases h : i < minLen
      · exact he.1 h
      · exact ho.1 (by omega)
    | cons e es =>
      obtain ⟨r1, r2⟩ := ih (i + 1) es he.2 ho.2
      refine ⟨⟨?_, r1⟩, by simp only [List.length_cons]; omega⟩
      cases h : own i e with
      | false => exact he.1 h
      | true => exact ho.1 h

/-! ### the decidable check of the own slots -/

/-- context with constant external-code / regex answers: the checks below only look at definitions that use neither -/
def ctx0 (extended : Bool) : Doc.Ctx := { extended := extended, extMember := fun _ _ => false, regexFound := fun _ _ => false }

/-- the definition consults neither an external code set nor a regular expression -/
def plainDef (x : ElemX) : Bool := !x.d.extDeclared && !x.d.hasRegex

theorem elemValidIn_plain (ctx : Doc.Ctx) (v5 : Bool) (x : ElemX) (hp : plainDef x = true) (i : EIn) :
    elemValidIn (defWith x []) (elemCtx ctx v5 x i.value) i.toInput =
      elemValidIn (defWith x []) (elemCtx (ctx0 ctx.extended) v5 x i.value) i.toInput := by
  simp only [plainDef, Bool.and_eq_true, Bool.not_eq_true'] at hp
  cases i with
  | absent => rfl
  | composite r => rfl
  | simple v =>
    simp only [EIn.toInput, EIn.value, elemValidIn, checkValue, codeOk, regexBad, typeOk, tlBad, defWith, elemCtx, ctx0, hp.1,
      hp.2, Bool.false_and, Bool.and_false, Bool.or_false, trailing, tooShort, tooLong, anyType, List.isEmpty_nil,
      Bool.not_true]

/-- Boolean form of `ElemAdm … [] (.simple v)` for a plain definition, for both character-set settings -/
def valOkB (v5 : Bool) (x : ElemX) (v : Str) : Bool :=
  plainDef x && elemAdmB (ctx0 true) v5 x [] (.simple v) && elemAdmB (ctx0 false) v5 x [] (.simple v)

theorem elemAdmB_plain (ctx : Doc.Ctx) (v5 : Bool) (x : ElemX) (hp : plainDef x = true) (i : EIn) :
    elemAdmB ctx v5 x [] i = elemAdmB (ctx0 ctx.extended) v5 x [] i := by
  unfold elemAdmB
  rw [elemValidIn_plain ctx v5 x hp i]

theorem elemAdm_of_valOk (ctx : Doc.Ctx) (v5 : Bool) (x : ElemX) (v : Str) (h : valOkB v5 x v = true) :
    ElemAdm ctx v5 x [] (.simple v) := by
  simp only [valOkB, Bool.and_eq_true] at h
  obtain ⟨⟨hp, h1⟩, h2⟩ := h
  apply elemAdm_of_b
  rw [elemAdmB_plain ctx v5 x hp]
  generalize ctx.extended = b
  cases b
  · exact h2
  · exact h1

/-- a table value `e` (an element as a list of components) against child `c`: simple children only -/
def presentOkB (v5 : Bool) (e : List Str) : ChildX → Bool
  | .elem x =>
    (match e with
     | [v] => valOkB v5 x v
     | _ => false)
  | .comp .. => false

theorem presentAdm0_of_ok (ctx : Doc.Ctx) (v5 : Bool) (e : List Str) (c : ChildX) (h : presentOkB v5 e c = true) :
    PresentAdm0 ctx v5 e c := by
  cases c with
  | comp u seq nm rd de kids => cases h
  | elem x =>
    cases e with
    | nil => cases h
    | cons v r =>
      cases r with
      | nil => exact ⟨v, rfl, elemAdm_of_valOk ctx v5 x v h⟩
      | cons w r2 => cases h

/-- may be left out: not required -/
def absentOkB : ChildX → Bool
  | .elem x => !decide (x.d.usage = .R)
  | .comp u _ _ _ _ _ => !decide (u = .R)

theorem childAbsentAdm_of_ok (ctx : Doc.Ctx) (v5 : Bool) (c : ChildX) (h : absentOkB c = true) : ChildAbsentAdm ctx v5 c := by
  cases c with
  | elem x =>
    simp only [absentOkB, Bool.not_eq_true', decide_eq_false_iff_not] at h
    show ElemAdm ctx v5 x [] .absent
    exact ⟨fun hn => (by cases hn), Or.inl h⟩
  | comp u seq nm rd de kids =>
    simp only [absentOkB, Bool.not_eq_true', decide_eq_false_iff_not] at h
    exact h

/-! ### numeric own values -/

def isDig (c : Char) : Bool := Validation.isDigit c

/-- every string of `lo … hi` ASCII digits meets the definition: numeric or text type, no code list, length bounds inside
    the definition's, plain -/
def numDefOk (x : ElemX) (lo hi : Nat) : Bool :=
  plainDef x && x.defined && !decide (x.d.usage = .N) && x.d.codes.isEmpty &&
  (Validation.startsWithN x.d.dataType || x.d.dataType == tyAN || x.d.dataType == tyID) &&
  decide (1 ≤ lo) && decide (x.d.minLen ≤ lo) && decide (hi ≤ x.d.maxLen)

theorem allDigits_of (v : Str) (h : ∀ c ∈ v, isDig c = true) : Validation.allDigits v = true := by
  induction v with
  | nil => rfl
  | cons c r ih =>
    simp only [Validation.allDigits, Bool.and_eq_true]
    exact ⟨h c (by simp), ih (fun x hx => h x (by simp [hx]))⟩

theorem spanDigits_all (v : Str) (h : ∀ c ∈ v, isDig c = true) : Validation.spanDigits v = (v, []) := by
  induction v with
  | nil => rfl
  | cons c r ih =>
    have hc : Validation.isDigit c = true := h c (by simp)
    simp only [Validation.spanDigits, hc, if_true, ih (fun x hx => h x (by simp [hx]))]

theorem dig_ne_minus (c : Char) (h : isDig c = true) : c ≠ '-' := by
  intro e; subst e; revert h; decide

theorem matchN_digits (v : Str) (hne : v ≠ []) (h : ∀ c ∈ v, isDig c = true) : Validation.matchN v = true := by
  cases v with
  | nil => exact absurd rfl hne
  | cons c r =>
    have hc : Validation.isDigit c = true := h c (by simp)
    have hm := dig_ne_minus c hc
    simp only [Validation.matchN, Validation.stripMinus, hm, if_false, spanDigits_all _ h, Validation.hasDigit, hc]
    simp

theorem idOk_digits (cs : Validation.Charset) (v : Str) (h : ∀ c ∈ v, isDig c = true) : Validation.idOk cs v = true := by
  induction v with
  | nil => rfl
  | cons c r ih =>
    have hc : Validation.isDigit c = true := h c (by simp)
    simp only [Validation.idOk, Bool.and_eq_true]
    refine ⟨?_, ih (fun x hx => h x (by simp [hx]))⟩
    cases cs <;> simp [Validation.inClass, hc]

theorem dig_not_control (c : Char) (h : isDig c = true) : Validation.controlCodes.contains c.toNat = false := by
  simp only [isDig, Validation.isDigit, Bool.and_eq_true, decide_eq_true_eq] at h
  have h1 : 48 ≤ c.toNat := h.1
  have h2 : c.toNat ≤ 57 := h.2
  simp [Validation.controlCodes]
  omega

theorem hasControl_digits (v : Str) (h : ∀ c ∈ v, isDig c = true) : Validation.hasControl v = false := by
  induction v with
  | nil => rfl
  | cons c r ih =>
    simp only [Validation.hasControl, dig_not_control c (h c (by simp)), ih (fun x hx => h x (by simp [hx])), Bool.or_self]

theorem stripSignPoint_digits (v : Str) (h : ∀ c ∈ v, isDig c = true) : stripSignPoint v = v := by
  induction v with
  | nil => rfl
  | cons c r ih =>
    have hc := h c (by simp)
    have h1 : c ≠ '-' := dig_ne_minus c hc
    have h2 : c ≠ '.' := by intro e; subst e; revert hc; decide
    simp only [stripSignPoint, h1, h2, if_false, ih (fun x hx => h x (by simp [hx]))]

theorem endsBlank_digits (v : Str) (h : ∀ c ∈ v, isDig c = true) : endsBlank v = false := by
  induction v with
  | nil => rfl
  | cons c r ih =>
    simp only [endsBlank]
    split
    · have hc := h c (by simp)
      simp only [decide_eq_false_iff_not]
      intro e; subst e; revert hc; decide
    · exact ih (fun x hx => h x (by simp [hx]))

theorem elemAdm_digits (ctx : Doc.Ctx) (v5 : Bool) (x : ElemX) (lo hi : Nat) (hd : numDefOk x lo hi = true) (v : Str)
    (hv : ∀ c ∈ v, isDig c = true) (h1 : lo ≤ v.length) (h2 : v.length ≤ hi) : ElemAdm ctx v5 x [] (.simple v) := by
  simp only [numDefOk, Bool.and_eq_true, Bool.not_eq_true', decide_eq_false_iff_not, decide_eq_true_eq, Bool.or_eq_true,
    beq_iff_eq, List.isEmpty_iff] at hd
  obtain ⟨⟨⟨⟨⟨⟨⟨hp, hdef⟩, hus⟩, hco⟩, hty⟩, hlo⟩, hmin⟩, hmax⟩ := hd
  have hne : v ≠ [] := by intro e; subst e; simp at h1; omega
  have hne' : v.isEmpty = false := by simpa using hne
  apply elemAdm_of_b
  rw [elemAdmB_plain ctx v5 x hp]
  simp only [plainDef, Bool.and_eq_true, Bool.not_eq_true'] at hp
  have heff : effLen x.d.dataType v = v.length := by
    unfold effLen; split
    · rw [stripSignPoint_digits v hv]
    · rfl
  have hts : tooShort (defWith x []) v = false := by simp [tooShort, defWith, heff]; omega
  have htl : tooLong (defWith x []) v = false := by simp [tooLong, defWith, heff]; omega
  have htr : trailing (defWith x []) v = false := by simp [trailing, endsBlank_digits v hv]
  have htype : typeOk (defWith x []) (elemCtx (ctx0 ctx.extended) v5 x v) v = true := by
    simp only [typeOk, defWith, elemCtx, ctx0, Validation.isValidDataType]
    rcases hty with (hN | hA) | hI
    · have : x.d.dataType.isEmpty = false := by
        cases hdt : x.d.dataType with
        | nil => rw [hdt] at hN; cases hN
        | cons a b => rfl
      simp [this, hN, matchN_digits v hne hv]
    · simp [hA, tyAN, idOk_digits _ v hv, Validation.startsWithN]
    · simp [hI, tyID, idOk_digits _ v hv, Validation.startsWithN]
  have hus' : ¬ (defWith x []).usage = .N := hus
  have hcode : codeOk (defWith x []) (elemCtx (ctx0 ctx.extended) v5 x v) v = true := by
    simp [codeOk, defWith, hco, hp.1]
  have htlb : tlBad (defWith x []) (elemCtx (ctx0 ctx.extended) v5 x v) v = false := by simp [tlBad, defWith]
  have hrx : regexBad (defWith x []) (elemCtx (ctx0 ctx.extended) v5 x v) = false := by simp [regexBad, defWith, hp.2]
  have hval : elemValidIn (defWith x []) (elemCtx (ctx0 ctx.extended) v5 x v) (.simple v) = (true, []) := by
    simp only [elemValidIn, hne', Bool.false_eq_true, if_false, hus', checkValue, hasControl_digits v hv, hts, htl, htr, hcode,
      htype, htlb, hrx, ElemValid.cond, Bool.not_false, Bool.and_self, Bool.not_true, List.append_nil]
  simp only [elemAdmB, needsLookup, hne', Bool.not_false, hus, decide_false, Bool.and_self, Bool.not_true, hdef, Bool.or_true,
    tlOkB, List.isEmpty_nil, Bool.true_or, EIn.toInput, EIn.value, hval]

end Pyx12Verif.C06R
