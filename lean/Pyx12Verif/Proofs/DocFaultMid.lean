/-
`one_fault_body`: `one_fault_core` with the conforming stretches given as in `doc_accepts_generated` — a body of segments
with their nodes, C02 `RunOK` on what the walker sees (`emitsOf`), C04 `EnvQuiet`, C15/C14 `BodyOk` — and ONE segment `bX`
in between that is answered differently (walker: `nodeX`, `werrsX`; validation: `validX`, `evsX`).
-/
import Pyx12Verif.Proofs.DocFaultCore

namespace Pyx12Verif.Doc
open Pyx12Verif WalkerGen MapSkel

/-- walker counter / current node after the conforming stretch `pre` -/
def cntAfter (ms : Maps) (m : MapX) (d : Delims) (a g : Nat) (pre : List (Seg × List Nat)) : Walker.Counter :=
  runCnt ms.consts m.root m.rootId (pinnedCnt ms) [a, g, 0] (emitsOf ms m d pre)

def curAfter (ms : Maps) (m : MapX) (d : Delims) (a g : Nat) (pre : List (Seg × List Nat)) : List Nat :=
  runCur [a, g, 0] (emitsOf ms m d pre)

theorem one_fault_body (ms : Maps) (ctx : Ctx) (h : Tokenizer.Header) (control m : MapX) (isa gs : Seg) (a g : Nat)
    (cip cgp : List Nat) (isaDef gsDef : SegDef) (vISA vGS : Envelope.SegView) (rs1 rs2 rs3 : Envelope.RState)
    (henv : EnvOk ms ctx h control m isa gs a g cip cgp isaDef gsDef vISA vGS rs1 rs2)
    (pre post : List (Seg × List Nat)) (bX : Seg × List Nat)
    (nodeX : Option (List Nat)) (werrsX : List Walker.WErr) (validX : Bool) (evsX : List Event)
    (hrunPre : RunOK ms.consts m.root m.rootId (pinnedCnt ms) [a, g, 0] (emitsOf ms m (SegText.delimsOf h) pre))
    (hnodeX : (walkOf ms m (SegText.delimsOf h) (cntAfter ms m (SegText.delimsOf h) a g pre)
      (curAfter ms m (SegText.delimsOf h) a g pre) bX.1).node = nodeX)
    (hwerrsX : (walkOf ms m (SegText.delimsOf h) (cntAfter ms m (SegText.delimsOf h) a g pre)
      (curAfter ms m (SegText.delimsOf h) a g pre) bX.1).st.errs = werrsX)
    (hrunPost : RunOK ms.consts m.root m.rootId
      (walkOf ms m (SegText.delimsOf h) (cntAfter ms m (SegText.delimsOf h) a g pre)
        (curAfter ms m (SegText.delimsOf h) a g pre) bX.1).st.cnt
      (nodeX.getD (curAfter ms m (SegText.delimsOf h) a g pre)) (emitsOf ms m (SegText.delimsOf h) post))
    (hquiet : EnvQuiet (SegText.delimsOf h) (bodyRs m rs2) ((pre ++ bX :: post).map (·.1)) rs3)
    (hclean : Envelope.cleanup rs3 = [])
    (hse : SeOk false ((pre ++ bX :: post).map (·.1.id)))
    (hpre : ∀ b ∈ pre, BodyOk ctx m (SegText.delimsOf h) b) (hpost : ∀ b ∈ post, BodyOk ctx m (SegText.delimsOf h) b)
    (hst : stIn (pre.map (·.1.id)) = true)
    (hXid : bX.1.id ≠ Envelope.idISA ∧ bX.1.id ≠ Envelope.idGS) (hXbase : baseErrs bX.1 = [])
    (hval : match nodeX with
      | some ip => ∃ sd, lookupDef m ip = some sd ∧ segEvents ctx m.v5010 (SegText.delimsOf h) sd bX.1 = .ok validX evsX
      | none => validX = true ∧ evsX = [])
    (sg : Envelope.RState → ErrTree.Seg) (hsg : ∀ rsF, 0 < (sg rsF).errCount)
    (F : Envelope.RState → List ErrTree.St → ErrTree.St → List ErrTree.St)
    (hX : ∀ (rsF : Envelope.RState) (s : ErrTree.State) (done : List ErrTree.St) (x : ErrTree.St),
      GS s (done ++ [x]) → NoFault (done ++ [x]) →
      ∃ s', ErrTree.run s ((BRound.mk bX.1 rsF nodeX werrsX validX evsX).events m (SegText.delimsOf h)) = .ok s' ∧
        GS s' (F rsF done x) ∧ OneFault (sg rsF) (F rsF done x)) :
    ∃ rsF, EnvQuiet (SegText.delimsOf h) (bodyRs m rs2) (pre.map (·.1) ++ [bX.1]) rsF ∧
      OneFaultRun (validateRead ms ctx h (readOf isa gs (pre ++ bX :: post))) pre.length post.length
        ((BRound.mk bX.1 rsF nodeX werrsX validX evsX).out m (SegText.delimsOf h) (curAfter ms m (SegText.delimsOf h) a g pre))
        (sg rsF) ∧
      ∃ (rpre rpost : List BRound) (done : List ErrTree.St) (x : ErrTree.St),
        rpre.map (·.seg) = pre.map (·.1) ∧ rpost.map (·.seg) = post.map (·.1) ∧
        cleanSets (SegText.delimsOf h) [] rpre = done ++ [x] ∧
        TreeIs (validateRead ms ctx h (readOf isa gs (pre ++ bX :: post))).final.tree
          (fun sets => sets = cleanSets (SegText.delimsOf h) (F rsF done x) rpost) ∧
        -- the rounds, and the outputs as a function of them
        Rounds ms ctx m (SegText.delimsOf h) (pinnedCnt ms) [a, g, 0] (bodyRs m rs2)
          (rpre ++ BRound.mk bX.1 rsF nodeX werrsX validX evsX :: rpost) ∧
        ∃ evI evG, segEvents ctx control.v5010 (SegText.delimsOf h) isaDef isa = .ok true evI ∧
          segEvents ctx m.v5010 (SegText.delimsOf h) gsDef gs = .ok true evG ∧
          (validateRead ms ctx h (readOf isa gs (pre ++ bX :: post))).segs =
            isaOut control (SegText.delimsOf h) isa cip evI :: gsOut m (SegText.delimsOf h) gs a g rs2 evG ::
              outsOf m (SegText.delimsOf h) [a, g, 0] (rpre ++ BRound.mk bX.1 rsF nodeX werrsX validX evsX :: rpost) := by
  -- the reader, stretch by stretch
  have hmapfst : (pre ++ bX :: post).map (·.1) = pre.map (·.1) ++ (bX.1 :: post.map (·.1)) := by simp
  rw [hmapfst, envQuiet_append] at hquiet
  obtain ⟨rsA, hqA, hqB⟩ := hquiet
  simp only [EnvQuiet] at hqB
  obtain ⟨vw, rsF, hview, hstep, hqC⟩ := hqB
  -- conforming rounds before / after
  obtain ⟨rpre, p1, _, p3, p4, p5, p6, p7⟩ := clean_body_rounds ms ctx m (SegText.delimsOf h) pre (pinnedCnt ms) [a, g, 0]
    (bodyRs m rs2) rsA hrunPre hqA hpre
  obtain ⟨rpost, q1, _, q3, q4, _, _, q7⟩ := clean_body_rounds ms ctx m (SegText.delimsOf h) post _ _ rsF rs3 hrunPost hqC hpost
  have hcur : endCur [a, g, 0] rpre = curAfter ms m (SegText.delimsOf h) a g pre := p6
  have hcnt : endCnt ms m (SegText.delimsOf h) (pinnedCnt ms) [a, g, 0] rpre = cntAfter ms m (SegText.delimsOf h) a g pre := p5
  -- the round in between
  have hrX : RoundOk ms ctx m (SegText.delimsOf h) (cntAfter ms m (SegText.delimsOf h) a g pre)
      (curAfter ms m (SegText.delimsOf h) a g pre) rsA (BRound.mk bX.1 rsF nodeX werrsX validX evsX) :=
    ⟨hXid.1, hXid.2, hXbase, ⟨vw, hview, hstep⟩, hnodeX, hwerrsX, hval⟩
  have hrounds : Rounds ms ctx m (SegText.delimsOf h) (pinnedCnt ms) [a, g, 0] (bodyRs m rs2)
      (rpre ++ BRound.mk bX.1 rsF nodeX werrsX validX evsX :: rpost) := by
    rw [rounds_append]
    refine ⟨p3, ?_⟩
    rw [hcnt, hcur, p7]
    exact ⟨hrX, q3⟩
  have hend : endRs (bodyRs m rs2) (rpre ++ BRound.mk bX.1 rsF nodeX werrsX validX evsX :: rpost) = rs3 := by
    rw [endRs_append]
    simp only [endRs]
    exact q7
  have hsegs : (rpre ++ BRound.mk bX.1 rsF nodeX werrsX validX evsX :: rpost).map (·.seg) = (pre ++ bX :: post).map (·.1) := by
    simp only [List.map_append, List.map_cons, p1, q1]
  have hids := map_seg_id _ _ hsegs
  have hidsPre := map_seg_id _ _ p1
  have hcore := one_fault_core ms ctx h control m isa gs a g cip cgp isaDef gsDef vISA vGS rs1 rs2 henv rpre rpost
    (BRound.mk bX.1 rsF nodeX werrsX validX evsX) hrounds (by rw [hend]; exact hclean) p4 q4 (by rw [hids]; exact hse)
    (by rw [hidsPre]; exact hst) (sg rsF) (hsg rsF) (F rsF) (hX rsF)
  obtain ⟨hcore1, done, x, evI, evG, hdx, htree, hevI, hevG, hsegsEq⟩ := hcore
  refine ⟨rsF, ?_, ?_, rpre, rpost, done, x, p1, q1, hdx, ?_, hrounds, evI, evG, hevI, hevG, ?_⟩
  · rw [envQuiet_append]
    exact ⟨rsA, hqA, by simp only [EnvQuiet]; exact ⟨vw, rsF, hview, hstep, rfl⟩⟩
  · rw [readOf_eq_readRounds isa gs _ _ hsegs]
    have hl1 : rpre.length = pre.length := by
      have := congrArg List.length p1; simpa using this
    have hl2 : rpost.length = post.length := by
      have := congrArg List.length q1; simpa using this
    rw [← hl1, ← hl2, ← hcur]
    exact hcore1
  · rw [readOf_eq_readRounds isa gs _ _ hsegs]
    exact htree
  · rw [readOf_eq_readRounds isa gs _ _ hsegs]
    exact hsegsEq

/-! ### the unknown segment with no set open (finding D27) -/

theorem step_lost (s s' : ErrTree.State) (e : Event) (he : ErrTree.Event.isError e = false)
    (hs : ErrTree.step s e = .ok s') : s'.lost = s.lost := by
  cases e with
  | isaError _ => simp [ErrTree.Event.isError] at he
  | gsError _ => simp [ErrTree.Event.isError] at he
  | stError _ => simp [ErrTree.Event.isError] at he
  | segError _ _ => simp [ErrTree.Event.isError] at he
  | eleError _ _ _ => simp [ErrTree.Event.isError] at he
  | addIsa d => simp only [ErrTree.step, ErrTree.Res.ok.injEq] at hs; subst hs; rfl
  | addGs d =>
    simp only [ErrTree.step, ErrTree.addGsLoop] at hs
    split at hs
    · cases hs
    · simp only [ErrTree.Res.ok.injEq] at hs; subst hs; rfl
  | addSt d =>
    simp only [ErrTree.step, ErrTree.addStLoop] at hs
    split at hs
    · cases hs
    · simp only [ErrTree.Res.ok.injEq] at hs; subst hs; rfl
  | addSeg a b c => simp only [ErrTree.step, ErrTree.Res.ok.injEq] at hs; subst hs; rfl
  | addEle a b c =>
    simp only [ErrTree.step, ErrTree.addEle] at hs
    split at hs
    · cases hs
    · simp only [ErrTree.Res.ok.injEq] at hs; subst hs; rfl
    · simp only [ErrTree.Res.ok.injEq] at hs; subst hs; rfl
  | closeSt =>
    simp only [ErrTree.step, ErrTree.closeStLoop] at hs
    split at hs
    · cases hs
    · simp only [ErrTree.Res.ok.injEq] at hs; subst hs; rfl
  | closeGs a b =>
    simp only [ErrTree.step, ErrTree.closeGsLoop] at hs
    split at hs
    · cases hs
    · simp only [ErrTree.Res.ok.injEq] at hs; subst hs; rfl
  | closeIsa =>
    simp only [ErrTree.step, ErrTree.closeIsaLoop] at hs
    split at hs
    · cases hs
    · simp only [ErrTree.Res.ok.injEq] at hs; subst hs; rfl

theorem run_lost : ∀ (evs : List Event) (s s' : ErrTree.State), Quiet evs → ErrTree.run s evs = .ok s' → s'.lost = s.lost := by
  intro evs
  induction evs with
  | nil => intro s s' _ h; simp only [ErrTree.run, ErrTree.Res.ok.injEq] at h; subst h; rfl
  | cons e r ih =>
    intro s s' hq h
    simp only [ErrTree.run] at h
    cases hs : ErrTree.step s e with
    | crash c => rw [hs] at h; cases h
    | ok s1 =>
      rw [hs] at h
      rw [ih s1 s' (fun x hx => hq x (List.mem_cons_of_mem _ hx)) h, step_lost s s1 e (hq e (by simp)) hs]

theorem eventsOf_quiet (m : MapX) (d : Delims) (rounds : List BRound) (h : ∀ r ∈ rounds, r.Clean) :
    Quiet (eventsOf m d rounds) := by
  intro e he
  simp only [eventsOf, List.mem_flatten, List.mem_map] at he
  obtain ⟨l, ⟨r, hr, rfl⟩, hel⟩ := he
  exact (h r hr).quiet m d e hel

/-- without ST there is — the order condition granted — no SE either: the set list stays empty -/
theorem cleanSets_noST (d : Delims) : ∀ (rounds : List BRound) (seen : Bool), seen = false →
    SeOk seen (rounds.map (·.seg.id)) → stIn (rounds.map (·.seg.id)) = false → cleanSets d [] rounds = [] := by
  intro rounds
  induction rounds with
  | nil => intro _ _ _ _; rfl
  | cons r rest ih =>
    intro seen hseen hse hst
    simp only [List.map_cons, SeOk] at hse
    simp only [List.map_cons, stIn, List.any_cons, Bool.or_eq_false_iff, decide_eq_false_iff_not] at hst
    have h1 : r.seg.id ≠ Envelope.idST := hst.1
    have h2 : r.seg.id ≠ Envelope.idSE := by
      intro h; have := hse.1 h; rw [hseen] at this; cases this
    simp only [cleanSets, headSets_plain d r.seg r.rs [] h1 h2]
    apply ih (seen || decide (r.seg.id = Envelope.idST))
    · simp [hseen, h1]
    · exact hse.2
    · simpa [stIn] using hst.2

theorem allValid_clean (rounds : List BRound) (h : ∀ r ∈ rounds, r.Clean) : allValid rounds = true := by
  simp only [allValid, List.all_eq_true]
  intro r hr
  exact (h r hr).2.2.1

/-- **unknown segment while no set is open**: the walker's report is swallowed by the bare `except` of `seg_error`
    (ghost counter `lost`), `valid` is untouched, the tree stays clean: the verdict is TRUE -/
theorem unknown_outside_set_body (ms : Maps) (ctx : Ctx) (h : Tokenizer.Header) (control m : MapX) (isa gs : Seg) (a g : Nat)
    (cip cgp : List Nat) (isaDef gsDef : SegDef) (vISA vGS : Envelope.SegView) (rs1 rs2 rs3 : Envelope.RState)
    (henv : EnvOk ms ctx h control m isa gs a g cip cgp isaDef gsDef vISA vGS rs1 rs2)
    (pre post : List (Seg × List Nat)) (bU : Seg × List Nat) (e : Walker.WErr) (hw : WithSeg e)
    (hrunPre : RunOK ms.consts m.root m.rootId (pinnedCnt ms) [a, g, 0] (emitsOf ms m (SegText.delimsOf h) pre))
    (hnodeX : (walkOf ms m (SegText.delimsOf h) (cntAfter ms m (SegText.delimsOf h) a g pre)
      (curAfter ms m (SegText.delimsOf h) a g pre) bU.1).node = none)
    (hwerrsX : (walkOf ms m (SegText.delimsOf h) (cntAfter ms m (SegText.delimsOf h) a g pre)
      (curAfter ms m (SegText.delimsOf h) a g pre) bU.1).st.errs = [e])
    (hrunPost : RunOK ms.consts m.root m.rootId
      (walkOf ms m (SegText.delimsOf h) (cntAfter ms m (SegText.delimsOf h) a g pre)
        (curAfter ms m (SegText.delimsOf h) a g pre) bU.1).st.cnt
      (curAfter ms m (SegText.delimsOf h) a g pre) (emitsOf ms m (SegText.delimsOf h) post))
    (hquiet : EnvQuiet (SegText.delimsOf h) (bodyRs m rs2) ((pre ++ bU :: post).map (·.1)) rs3)
    (hclean : Envelope.cleanup rs3 = [])
    (hse : SeOk false ((pre ++ bU :: post).map (·.1.id)))
    (hpre : ∀ b ∈ pre, BodyOk ctx m (SegText.delimsOf h) b) (hpost : ∀ b ∈ post, BodyOk ctx m (SegText.delimsOf h) b)
    (hst : stIn (pre.map (·.1.id)) = false)
    (hUid : bU.1.id ≠ Envelope.idISA ∧ bU.1.id ≠ Envelope.idGS ∧ bU.1.id ≠ Envelope.idST) (hUbase : baseErrs bU.1 = []) :
    (validateRead ms ctx h (readOf isa gs (pre ++ bU :: post))).outcome = .verdict true ∧
    (validateRead ms ctx h (readOf isa gs (pre ++ bU :: post))).final.lost = 1 ∧
    ErrTree.NoCountedError (validateRead ms ctx h (readOf isa gs (pre ++ bU :: post))).final.tree ∧
    ∃ (rsF : Envelope.RState) (opre opost : List SegOut),
      (validateRead ms ctx h (readOf isa gs (pre ++ bU :: post))).segs.drop 2 =
        opre ++ { sid := bU.1.id, matched := false, node := some (m.file, curAfter ms m (SegText.delimsOf h) a g pre),
                  popped := [], events := [.addSeg (werrSid m bU.1.id e) rsF.segCount none, .segError (werrCodeOf e) none] }
          :: opost ∧
      opre.length = pre.length ∧ opost.length = post.length ∧ ∀ o ∈ opre ++ opost, o.matched = true ∧ Quiet o.events := by
  have hmapfst : (pre ++ bU :: post).map (·.1) = pre.map (·.1) ++ (bU.1 :: post.map (·.1)) := by simp
  rw [hmapfst, envQuiet_append] at hquiet
  obtain ⟨rsA, hqA, hqB⟩ := hquiet
  simp only [EnvQuiet] at hqB
  obtain ⟨vw, rsF, hview, hstep, hqC⟩ := hqB
  obtain ⟨rpre, p1, _, p3, p4, p5, p6, p7⟩ := clean_body_rounds ms ctx m (SegText.delimsOf h) pre (pinnedCnt ms) [a, g, 0]
    (bodyRs m rs2) rsA hrunPre hqA hpre
  obtain ⟨rpost, q1, _, q3, q4, _, _, q7⟩ := clean_body_rounds ms ctx m (SegText.delimsOf h) post _ _ rsF rs3 hrunPost hqC hpost
  have hcur : endCur [a, g, 0] rpre = curAfter ms m (SegText.delimsOf h) a g pre := p6
  have hcnt : endCnt ms m (SegText.delimsOf h) (pinnedCnt ms) [a, g, 0] rpre = cntAfter ms m (SegText.delimsOf h) a g pre := p5
  have hrX : RoundOk ms ctx m (SegText.delimsOf h) (cntAfter ms m (SegText.delimsOf h) a g pre)
      (curAfter ms m (SegText.delimsOf h) a g pre) rsA (BRound.mk bU.1 rsF none [e] true []) :=
    ⟨hUid.1, hUid.2.1, hUbase, ⟨vw, hview, hstep⟩, hnodeX, hwerrsX, rfl, rfl⟩
  have hrounds : Rounds ms ctx m (SegText.delimsOf h) (pinnedCnt ms) [a, g, 0] (bodyRs m rs2)
      (rpre ++ BRound.mk bU.1 rsF none [e] true [] :: rpost) := by
    rw [rounds_append]
    refine ⟨p3, ?_⟩
    rw [hcnt, hcur, p7]
    exact ⟨hrX, q3⟩
  have hend : endRs (bodyRs m rs2) (rpre ++ BRound.mk bU.1 rsF none [e] true [] :: rpost) = rs3 := by
    rw [endRs_append]; simp only [endRs]; exact q7
  have hsegs : (rpre ++ BRound.mk bU.1 rsF none [e] true [] :: rpost).map (·.seg) = (pre ++ bU :: post).map (·.1) := by
    simp only [List.map_append, List.map_cons, p1, q1]
  have hids := map_seg_id _ _ hsegs
  have hidsPre := map_seg_id _ _ p1
  obtain ⟨evI, evG, e2, _, _, hqI, hqG, hG, hlost, hall⟩ := validateRead_rounds ms ctx h control m isa gs
    (rpre ++ BRound.mk bU.1 rsF none [e] true [] :: rpost) a g cip cgp isaDef gsDef vISA vGS rs1 rs2 henv.ctl henv.isaNode
    henv.gsNode henv.hisaDef henv.isaAdm henv.idx henv.map henv.gsM henv.hgsDef henv.gsAdm henv.no278 henv.isaId henv.gsId
    henv.bIsa henv.bGs henv.vIsa henv.sIsa henv.vGs henv.sGs hrounds (by have := hclean; rw [← hend] at this; exact this)
  -- order condition, phase by phase
  rw [← hids] at hse
  have hids' : (rpre ++ BRound.mk bU.1 rsF none [e] true [] :: rpost).map (·.seg.id) =
      rpre.map (·.seg.id) ++ (bU.1.id :: rpost.map (·.seg.id)) := by simp
  rw [hids', seOk_append] at hse
  obtain ⟨hse1, hse2⟩ := hse
  have hst' : stIn (rpre.map (·.seg.id)) = false := by rw [hidsPre]; exact hst
  rw [seenAfter_false, hst'] at hse2
  simp only [SeOk] at hse2
  have hseen : (false || decide (bU.1.id = Envelope.idST)) = false := by simp [hUid.2.2]
  rw [hseen] at hse2
  -- before
  obtain ⟨s1, hs1, hg1, _⟩ := clean_rounds_run m (SegText.delimsOf h) rpre e2 [] false hG p4 hse1 (by simp)
  rw [cleanSets_noST (SegText.delimsOf h) rpre false rfl hse1 hst'] at hg1
  have hl1 : s1.lost = 0 := by rw [run_lost _ e2 s1 (eventsOf_quiet m _ rpre p4) hs1]; exact hlost
  -- the unknown segment
  have hr : (BRound.mk bU.1 rsF none [e] true []).WErrAt e := ⟨rfl, hw, rfl, EleOnly.nil, Quiet.nil⟩
  obtain ⟨s2, hs2, hg2, hl2⟩ := werr_round_run_noSet hg1 m (SegText.delimsOf h) _ e hr rfl
  -- after
  obtain ⟨s3, hs3, hg3, _⟩ := clean_rounds_run m (SegText.delimsOf h) rpost s2 [] false hg2 q4 hse2.2 (by simp)
  have hl3 : s3.lost = 1 := by rw [run_lost _ s2 s3 (eventsOf_quiet m _ rpost q4) hs3, hl2, hl1]
  have hnf3 : NoFault (cleanSets (SegText.delimsOf h) [] rpost) := noFault_cleanSets _ rpost [] NoFault.nil
  have hrun : ErrTree.run e2 (eventsOf m (SegText.delimsOf h) (rpre ++ BRound.mk bU.1 rsF none [e] true [] :: rpost)) = .ok s3 := by
    rw [eventsOf_append, eventsOf_cons, run_append, hs1]
    simp only
    rw [run_append, hs2]
    exact hs3
  have hres := hall s3 hrun
  have hcount : ErrTree.errorCount s3.tree = 0 := by
    rw [errorCount_GTree hg3.tree]; exact sumStErrors_zero_of_noFault _ hnf3
  have hvalid : allValid (rpre ++ BRound.mk bU.1 rsF none [e] true [] :: rpost) = true := by
    rw [allValid_append, allValid_clean rpre p4]
    simp only [allValid, List.all_cons, Bool.true_and]
    exact allValid_clean rpost q4
  rw [readOf_eq_readRounds isa gs _ _ hsegs, hres]
  refine ⟨?_, hl3, (ErrTree.errorCount_zero _).1 hcount, rsF, outsOf m (SegText.delimsOf h) [a, g, 0] rpre,
    outsOf m (SegText.delimsOf h) (curAfter ms m (SegText.delimsOf h) a g pre) rpost, ?_, ?_, ?_, ?_⟩
  · simp only [ErrTree.verdict, hvalid, hcount]; rfl
  · simp only [List.drop_succ_cons, List.drop_zero, outsOf_append, outsOf, hcur, Option.getD_none]
    simp [BRound.out, BRound.events, werrEvs, werrEvents_eq m _ _ e hw]
  · rw [outsOf_length]; have := congrArg List.length p1; simpa using this
  · rw [outsOf_length]; have := congrArg List.length q1; simpa using this
  · intro o ho
    rcases List.mem_append.1 ho with ho | ho
    · exact outsOf_clean m _ rpre _ p4 o ho
    · exact outsOf_clean m _ rpost _ q4 o ho

/-- **the conformant run, with its outputs**: `doc_accepts_of_runOK` once more through `Rounds` — verdict true, no error
    call — and what the model reports per segment, as a function of the rounds -/
theorem clean_body_segs (ms : Maps) (ctx : Ctx) (h : Tokenizer.Header) (control m : MapX) (isa gs : Seg) (a g : Nat)
    (cip cgp : List Nat) (isaDef gsDef : SegDef) (vISA vGS : Envelope.SegView) (rs1 rs2 rs3 : Envelope.RState)
    (henv : EnvOk ms ctx h control m isa gs a g cip cgp isaDef gsDef vISA vGS rs1 rs2)
    (body : List (Seg × List Nat))
    (hrun : RunOK ms.consts m.root m.rootId (pinnedCnt ms) [a, g, 0] (emitsOf ms m (SegText.delimsOf h) body))
    (hquiet : EnvQuiet (SegText.delimsOf h) (bodyRs m rs2) (body.map (·.1)) rs3)
    (hclean : Envelope.cleanup rs3 = [])
    (hse : SeOk false (body.map (·.1.id)))
    (hok : ∀ b ∈ body, BodyOk ctx m (SegText.delimsOf h) b) :
    (validateRead ms ctx h (readOf isa gs body)).outcome = .verdict true ∧
    Quiet (validateRead ms ctx h (readOf isa gs body)).events ∧
    ∃ (rounds : List BRound) (evI evG : List Event), rounds.map (·.seg) = body.map (·.1) ∧
      Rounds ms ctx m (SegText.delimsOf h) (pinnedCnt ms) [a, g, 0] (bodyRs m rs2) rounds ∧
      segEvents ctx control.v5010 (SegText.delimsOf h) isaDef isa = .ok true evI ∧
      segEvents ctx m.v5010 (SegText.delimsOf h) gsDef gs = .ok true evG ∧
      (validateRead ms ctx h (readOf isa gs body)).segs =
        isaOut control (SegText.delimsOf h) isa cip evI :: gsOut m (SegText.delimsOf h) gs a g rs2 evG ::
          outsOf m (SegText.delimsOf h) [a, g, 0] rounds := by
  obtain ⟨rounds, p1, _, p3, p4, _, _, p7⟩ := clean_body_rounds ms ctx m (SegText.delimsOf h) body (pinnedCnt ms) [a, g, 0]
    (bodyRs m rs2) rs3 hrun hquiet hok
  obtain ⟨evI, evG, e2, hevI, hevG, hqI, hqG, hG, _, hall⟩ := validateRead_rounds ms ctx h control m isa gs rounds a g cip cgp
    isaDef gsDef vISA vGS rs1 rs2 henv.ctl henv.isaNode henv.gsNode henv.hisaDef henv.isaAdm henv.idx henv.map henv.gsM
    henv.hgsDef henv.gsAdm henv.no278 henv.isaId henv.gsId henv.bIsa henv.bGs henv.vIsa henv.sIsa henv.vGs henv.sGs p3
    (by have := hclean; rw [← p7] at this; exact this)
  have hids := map_seg_id _ _ p1
  obtain ⟨s1, hs1, hg1, _⟩ := clean_rounds_run m (SegText.delimsOf h) rounds e2 [] false hG p4 (by rw [hids]; exact hse) (by simp)
  have hres := hall s1 hs1
  have hcount : ErrTree.errorCount s1.tree = 0 := by
    rw [errorCount_GTree hg1.tree]
    exact sumStErrors_zero_of_noFault _ (noFault_cleanSets _ rounds [] NoFault.nil)
  rw [readOf_eq_readRounds isa gs _ _ p1, hres]
  refine ⟨?_, ?_, rounds, evI, evG, p1, p3, hevI, hevG, rfl⟩
  · simp only [ErrTree.verdict, allValid_clean rounds p4, hcount]; rfl
  · intro e he
    simp only [List.mem_append, List.mem_cons] at he
    rcases he with (rfl | he) | (rfl | he) | he
    · rfl
    · exact hqI e he
    · rfl
    · exact hqG e he
    · exact eventsOf_quiet m _ rounds p4 e he

end Pyx12Verif.Doc
