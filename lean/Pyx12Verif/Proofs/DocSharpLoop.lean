/-
Helper lemmas for `Props/DocTotal2.lean`: the invariant of the segment loop of `x12n_document` that ties the reader's stack
of open envelopes, the segments already processed and the pointers of the error handler together (`Inv`), its preservation
by one round (`round_ok`), and the classification of the handler's exception when a round fails (`round_crash`).
-/
import Pyx12Verif.Proofs.DocSharpRun

namespace Pyx12Verif.Doc
open Pyx12Verif

/-- witness for `add_st_loop` without a group node: the failing round matched an ST although no GS was ever yielded -/
def StWithoutGs (outs : List SegOut) : Prop :=
  ∃ pre o, outs = pre ++ [o] ∧ o.sid = Envelope.idST ∧ o.matched = true ∧ ∀ p ∈ pre, p.sid ≠ Envelope.idGS

/-- witness for `close_st_loop` without a set node: the failing round matched an SE although no ST was ever matched -/
def SeWithoutSt (outs : List SegOut) : Prop :=
  ∃ pre o, outs = pre ++ [o] ∧ o.sid = Envelope.idSE ∧ o.matched = true ∧
    ∀ p ∈ pre, ¬ (p.sid = Envelope.idST ∧ p.matched = true)

/-- the `err_handler` sites an exception can come from, given the segments processed up to and including the failing round -/
def SiteOk (c : ErrTree.Site) (outs : List SegOut) : Prop :=
  c = .stErrorNoSt ∨ c = .gsErrorNoGs ∨ c = .eleErrorNoSt ∨ (c = .addStNoGs ∧ StWithoutGs outs) ∨
    (c = .closeStNoSt ∧ SeWithoutSt outs)

structure Inv (a : Acc) : Prop where
  good : Good a.est
  loopsGs : (∃ p ∈ a.st.rs.loops, p.1 = Envelope.Kind.gs) → a.est.curGs ≠ none
  outsGs : ∀ o ∈ a.outs, o.sid = Envelope.idGS → a.est.curGs ≠ none
  outsSt : ∀ o ∈ a.outs, o.sid = Envelope.idST → o.matched = true → a.est.curSt ≠ none

/-! ### list plumbing -/

theorem split_unique {α : Type} (P : α → Prop) : ∀ (A B pre post : List α) (x y : α),
    A ++ x :: B = pre ++ y :: post → P y → (∀ z ∈ A, ¬ P z) → (∀ z ∈ B, ¬ P z) → pre = A := by
  intro A
  induction A with
  | nil =>
    intro B pre post x y h hy _ hB
    cases pre with
    | nil => rfl
    | cons p pre' =>
      simp only [List.nil_append, List.cons_append, List.cons.injEq] at h
      exact absurd hy (hB y (by rw [h.2]; simp))
  | cons a A' ih =>
    intro B pre post x y h hy hA hB
    cases pre with
    | nil =>
      simp only [List.nil_append, List.cons_append, List.cons.injEq] at h
      exact absurd (h.1 ▸ hy) (hA a (by simp))
    | cons p pre' =>
      simp only [List.cons_append, List.cons.injEq] at h
      rw [h.1, ih B pre' post x y h.2 hy (fun z hz => hA z (List.mem_cons_of_mem _ hz)) hB]

def isCloseGs : Event → Bool
  | .closeGs _ _ => true
  | _ => false
def isCloseSt : Event → Bool
  | .closeSt => true
  | _ => false

theorem not_walk_of {e : Event} (h : isWalk e = true) :
    isAddSt e = false ∧ isCloseGs e = false ∧ isCloseSt e = false ∧ isAddGs e = false := by
  cases e <;> simp [isWalk] at h <;> exact ⟨rfl, rfl, rfl, rfl⟩

theorem not_rd_of {e : Event} (h : isRd e = true) :
    isAddSt e = false ∧ isCloseGs e = false ∧ isCloseSt e = false ∧ isAddGs e = false := by
  cases e <;> simp [isRd] at h <;> exact ⟨rfl, rfl, rfl, rfl⟩

theorem not_ele_of {e : Event} (h : isEle e = true) :
    isAddSt e = false ∧ isCloseGs e = false ∧ isCloseSt e = false ∧ isAddGs e = false ∧ isGsError e = false := by
  cases e <;> simp [isEle] at h <;> exact ⟨rfl, rfl, rfl, rfl, rfl⟩

/-- where the structural calls of one round can sit -/
theorem mid_cases {sid : Str} {pops mid : List Event} (hm : Mid sid pops mid) (hp : RdOnly pops) :
    (∀ e ∈ mid, isAddSt e = true → sid = Envelope.idST) ∧
    (∀ e ∈ mid, isCloseSt e = true → sid = Envelope.idSE) ∧
    (∀ e ∈ mid, isCloseGs e = true → sid = Envelope.idGE ∧ ∃ g r, mid = pops ++ [.closeGs g r]) ∧
    (sid = Envelope.idGS → ∃ e ∈ mid, isAddGs e = true) ∧ (sid = Envelope.idST → ∃ e ∈ mid, isAddSt e = true) := by
  have hpop : ∀ e ∈ pops, isAddSt e = false ∧ isCloseGs e = false ∧ isCloseSt e = false ∧ isAddGs e = false :=
    fun e he => not_rd_of (hp e he)
  cases hm with
  | isa x hid =>
    refine ⟨?_, ?_, ?_, fun e => by rw [hid] at e; exact absurd e (by decide),
      fun e => by rw [hid] at e; exact absurd e (by decide)⟩
    · intro e he h; rcases List.mem_cons.1 he with rfl | he
      · cases h
      · rw [(hpop e he).1] at h; cases h
    · intro e he h; rcases List.mem_cons.1 he with rfl | he
      · cases h
      · rw [(hpop e he).2.2.1] at h; cases h
    · intro e he h; rcases List.mem_cons.1 he with rfl | he
      · cases h
      · rw [(hpop e he).2.1] at h; cases h
  | iea hid =>
    refine ⟨?_, ?_, ?_, fun e => by rw [hid] at e; exact absurd e (by decide),
      fun e => by rw [hid] at e; exact absurd e (by decide)⟩
    · intro e he h; rcases List.mem_append.1 he with he | he
      · rw [(hpop e he).1] at h; cases h
      · simp only [List.mem_singleton] at he; subst he; cases h
    · intro e he h; rcases List.mem_append.1 he with he | he
      · rw [(hpop e he).2.2.1] at h; cases h
      · simp only [List.mem_singleton] at he; subst he; cases h
    · intro e he h; rcases List.mem_append.1 he with he | he
      · rw [(hpop e he).2.1] at h; cases h
      · simp only [List.mem_singleton] at he; subst he; cases h
  | gs x hid =>
    refine ⟨?_, ?_, ?_, fun _ => ⟨.addGs x, List.mem_cons_self, rfl⟩, fun e => by rw [hid] at e; exact absurd e (by decide)⟩
    · intro e he h; rcases List.mem_cons.1 he with rfl | he
      · cases h
      · rw [(hpop e he).1] at h; cases h
    · intro e he h; rcases List.mem_cons.1 he with rfl | he
      · cases h
      · rw [(hpop e he).2.2.1] at h; cases h
    · intro e he h; rcases List.mem_cons.1 he with rfl | he
      · cases h
      · rw [(hpop e he).2.1] at h; cases h
  | ge g r hid =>
    refine ⟨?_, ?_, ?_, fun e => by rw [hid] at e; exact absurd e (by decide),
      fun e => by rw [hid] at e; exact absurd e (by decide)⟩
    · intro e he h; rcases List.mem_append.1 he with he | he
      · rw [(hpop e he).1] at h; cases h
      · simp only [List.mem_singleton] at he; subst he; cases h
    · intro e he h; rcases List.mem_append.1 he with he | he
      · rw [(hpop e he).2.2.1] at h; cases h
      · simp only [List.mem_singleton] at he; subst he; cases h
    · intro e _ _; exact ⟨hid, g, r, rfl⟩
  | st x hid =>
    refine ⟨fun _ _ _ => hid, ?_, ?_, fun e => by rw [hid] at e; exact absurd e (by decide), fun _ => ⟨.addSt x, List.mem_cons_self, rfl⟩⟩
    · intro e he h; rcases List.mem_cons.1 he with rfl | he
      · cases h
      · rw [(hpop e he).2.2.1] at h; cases h
    · intro e he h; rcases List.mem_cons.1 he with rfl | he
      · cases h
      · rw [(hpop e he).2.1] at h; cases h
  | se hid =>
    refine ⟨?_, fun _ _ _ => hid, ?_, fun e => by rw [hid] at e; exact absurd e (by decide),
      fun e => by rw [hid] at e; exact absurd e (by decide)⟩
    · intro e he h; rcases List.mem_append.1 he with he | he
      · rw [(hpop e he).1] at h; cases h
      · simp only [List.mem_singleton] at he; subst he; cases h
    · intro e he h; rcases List.mem_append.1 he with he | he
      · rw [(hpop e he).2.1] at h; cases h
      · simp only [List.mem_singleton] at he; subst he; cases h
  | plain a b c h1 h2 h3 h4 h5 =>
    refine ⟨?_, ?_, ?_, fun e => absurd e h2, fun e => absurd e h3⟩
    · intro e he h; rcases List.mem_cons.1 he with rfl | he
      · cases h
      · rw [(hpop e he).1] at h; cases h
    · intro e he h; rcases List.mem_cons.1 he with rfl | he
      · cases h
      · rw [(hpop e he).2.2.1] at h; cases h
    · intro e he h; rcases List.mem_cons.1 he with rfl | he
      · cases h
      · rw [(hpop e he).2.1] at h; cases h

/-! ### one round against the invariant -/

theorem mem_events_split {w mid tl : List Event} {e : Event} (he : e ∈ w ++ mid ++ tl) (hw : WalkOnly w) (htl : EleOnly tl)
    (h : isAddSt e = true ∨ isCloseGs e = true ∨ isCloseSt e = true) : e ∈ mid := by
  rcases List.mem_append.1 he with he | he
  · rcases List.mem_append.1 he with he | he
    · obtain ⟨a, b, c, _⟩ := not_walk_of (hw e he)
      rcases h with h | h | h
      · rw [a] at h; cases h
      · rw [b] at h; cases h
      · rw [c] at h; cases h
    · exact he
  · obtain ⟨a, b, c, _⟩ := not_ele_of (htl e he)
    rcases h with h | h | h
    · rw [a] at h; cases h
    · rw [b] at h; cases h
    · rw [c] at h; cases h

/-- **a failing round**: which `err_handler` site raised, given the invariant at the start of the round -/
theorem round_crash (a : Acc) (hinv : Inv a) (out : SegOut) (sid : Str) (w mid tl pops : List Event)
    (hsid : out.sid = sid) (hev : out.events = w ++ mid ++ tl) (hw : WalkOnly w) (htl : EleOnly tl) (hp : RdOnly pops)
    (hm : (out.matched = false ∧ mid = []) ∨ (out.matched = true ∧ Mid sid pops mid))
    (hge : sid = Envelope.idGE → (∀ p ∈ a.st.rs.loops, p.1 ≠ Envelope.Kind.gs) → ∃ e ∈ pops, isGsError e = true)
    (c : ErrTree.Site) (hc : ErrTree.run a.est out.events = .crash c) : SiteOk c (a.outs ++ [out]) := by
  obtain ⟨pre, e, post, s', hsplit, hrun, _, hreach⟩ := run_crash_good out.events a.est c hinv.good hc
  obtain ⟨_, q2, q3, _, _, _, _, q8⟩ := run_ok_props pre a.est s' hrun
  have hemem : e ∈ w ++ mid ++ tl := by rw [← hev, hsplit]; simp
  have hmid : ∀ x, x ∈ mid → out.matched = true ∧ Mid sid pops mid := by
    intro x hx
    rcases hm with ⟨_, rfl⟩ | hm
    · cases hx
    · exact hm
  cases hreach with
  | gsErr cc he hn => exact Or.inr (Or.inl rfl)
  | stErr cc he hn => exact Or.inl rfl
  | eleErr cc m v he hn => exact Or.inr (Or.inr (Or.inl rfl))
  | addSt d he hn =>
    subst he
    have hin := mem_events_split hemem hw htl (Or.inl rfl)
    obtain ⟨hmat, hM⟩ := hmid _ hin
    have hid := (mid_cases hM hp).1 _ hin rfl
    refine Or.inr (Or.inr (Or.inr (Or.inl ⟨rfl, a.outs, out, rfl, hsid.trans hid, hmat, ?_⟩)))
    intro p hp' hgs
    exact q2 (hinv.outsGs p hp' hgs) hn
  | closeSt he hn =>
    subst he
    have hin := mem_events_split hemem hw htl (Or.inr (Or.inr rfl))
    obtain ⟨hmat, hM⟩ := hmid _ hin
    have hid := (mid_cases hM hp).2.1 _ hin rfl
    refine Or.inr (Or.inr (Or.inr (Or.inr ⟨rfl, a.outs, out, rfl, hsid.trans hid, hmat, ?_⟩)))
    intro p hp' hst
    exact q3 (hinv.outsSt p hp' hst.1 hst.2) hn
  | closeGs g r he hn =>
    subst he
    exfalso
    have hin := mem_events_split hemem hw htl (Or.inr (Or.inl rfl))
    obtain ⟨_, hM⟩ := hmid _ hin
    obtain ⟨hid, g', r', hmideq⟩ := (mid_cases hM hp).2.2.1 _ hin rfl
    have hno : ∀ p ∈ a.st.rs.loops, p.1 ≠ Envelope.Kind.gs := by
      intro p hp' hk
      exact q2 (hinv.loopsGs ⟨p, hp', hk⟩) hn
    obtain ⟨x, hx, hxg⟩ := hge hid hno
    have hlist : (w ++ pops) ++ ErrTree.Event.closeGs g' r' :: tl = pre ++ ErrTree.Event.closeGs g r :: post := by
      rw [← hsplit, hev, hmideq]; simp
    have hpre : pre = w ++ pops := by
      refine split_unique (fun e => isCloseGs e = true) (w ++ pops) tl pre post _ _ hlist rfl ?_ ?_
      · intro z hz
        rcases List.mem_append.1 hz with hz | hz
        · rw [(not_walk_of (hw z hz)).2.1]; simp
        · rw [(not_rd_of (hp z hz)).2.1]; simp
      · intro z hz
        rw [(not_ele_of (htl z hz)).2.1]; simp
    have := q8 hn x (by rw [hpre]; exact List.mem_append_right _ hx)
    rw [hxg] at this
    cases this

/-- **a round that goes through** re-establishes the invariant -/
theorem round_ok (a : Acc) (hinv : Inv a) (st : LState) (out : SegOut) (sid : Str) (w mid tl pops : List Event)
    (est : ErrTree.State)
    (hsid : out.sid = sid) (hev : out.events = w ++ mid ++ tl) (hp : RdOnly pops)
    (hm : (out.matched = false ∧ mid = []) ∨ (out.matched = true ∧ Mid sid pops mid))
    (hloops : (∃ p ∈ st.rs.loops, p.1 = Envelope.Kind.gs) →
      (∃ p ∈ a.st.rs.loops, p.1 = Envelope.Kind.gs) ∨ sid = Envelope.idGS)
    (hgsm : sid = Envelope.idGS → out.matched = true)
    (hrun : ErrTree.run a.est out.events = .ok est) : Inv (pushOut a st est out) := by
  obtain ⟨_, q2, q3, _, _, q6, q7, _⟩ := run_ok_props out.events a.est est hrun
  have hgsev : sid = Envelope.idGS → est.curGs ≠ none := by
    intro hid
    rcases hm with ⟨hf, _⟩ | ⟨_, hM⟩
    · rw [hgsm hid] at hf; cases hf
    · obtain ⟨e, he, hg⟩ := (mid_cases hM hp).2.2.2.1 hid
      exact q6 ⟨e, by rw [hev]; simp [he], hg⟩
  refine ⟨run_good out.events a.est est hinv.good hrun, ?_, ?_, ?_⟩
  · intro hg
    rcases hloops hg with h | h
    · exact q2 (hinv.loopsGs h)
    · exact hgsev h
  · intro o ho hid
    simp only [pushOut, List.mem_append, List.mem_singleton] at ho
    rcases ho with ho | rfl
    · exact q2 (hinv.outsGs o ho hid)
    · exact hgsev (hsid ▸ hid)
  · intro o ho hid hmat
    simp only [pushOut, List.mem_append, List.mem_singleton] at ho
    rcases ho with ho | rfl
    · exact q3 (hinv.outsSt o ho hid hmat)
    · rcases hm with ⟨hf, _⟩ | ⟨_, hM⟩
      · rw [hmat] at hf; cases hf
      · obtain ⟨e, he, hg⟩ := (mid_cases hM hp).2.2.2.2 (hsid ▸ hid)
        exact q7 ⟨e, by rw [hev]; simp [he], hg⟩

end Pyx12Verif.Doc
