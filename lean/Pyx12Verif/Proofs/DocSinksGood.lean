/-
C08's per-run hypothesis `GoodFrom` for the `seg()` calls of EVERY document, from a side condition that the shipped maps
satisfy all together (`MapsOK2`, decidable as `mapsOK2B`):
  * file names of the loaded maps are distinct,
  * per map: `noSiblingLoopIdPrefix` over its loop paths, no segment directly under the root,
  * across maps: the loop path of an envelope node reached by path (`/ISA_LOOP/ISA`, `/ISA_LOOP/GS_LOOP/GS`,
    `…/HEADER/BHT` of any map) and any loop path of any map part at ids that are not textual prefixes of one another.
(The union of all loop paths of all maps does NOT satisfy `noSiblingLoopIdPrefix`: `2000` of one map, `2000A` of another.)
The proof follows `node` through the run (`Proofs/DocSinksTrans.lean : validateRead_chain`).
-/
import Pyx12Verif.Proofs.DocSinksTrans
import Pyx12Verif.Proofs.DocSinksMaps
import Pyx12Verif.Props.C08

namespace Pyx12Verif.Doc
open Pyx12Verif

structure MapsOK2 (ms : Maps) : Prop where
  unique : ∀ m ∈ ms.maps, findMap ms m.file = some m
  perMap : ∀ m ∈ ms.maps, Xml.noSiblingLoopIdPrefix (pathsOf m) = true
  nonempty : ∀ m ∈ ms.maps, ∀ p ∈ pathsOf m, p ≠ []
  cross : ∀ m2 ∈ ms.maps, ∀ q ∈ envPaths ms m2, ∀ m1 ∈ ms.maps, ∀ p ∈ pathsOf m1, Xml.sibOK q p = true

theorem find_of_unique : ∀ (l : List MapX), filesUnique l = true → ∀ m ∈ l, l.find? (fun x => x.file == m.file) = some m
  | [], _, m, hm => by cases hm
  | a :: r, h, m, hm => by
    simp only [filesUnique, Bool.and_eq_true, List.all_eq_true] at h
    rcases List.mem_cons.1 hm with rfl | hm
    · simp
    · have hne : (a.file == m.file) = false := by
        have := h.1 m hm
        simp only [bne_iff_ne, ne_eq] at this
        simpa using fun e => this e.symm
      simp only [List.find?, hne]
      exact find_of_unique r h.2 m hm

theorem mapsOK2_of_b (ms : Maps) (h : mapsOK2B ms = true) : MapsOK2 ms := by
  simp only [mapsOK2B, Bool.and_eq_true] at h
  obtain ⟨⟨h1, h2⟩, h3⟩ := h
  refine ⟨fun m hm => find_of_unique ms.maps h1 m hm, ?_, ?_, ?_⟩
  · intro m hm
    have := List.all_eq_true.1 h2 m hm
    simp only [perMapOK, Bool.and_eq_true] at this
    exact this.1
  · intro m hm p hp
    have := List.all_eq_true.1 h2 m hm
    simp only [perMapOK, Bool.and_eq_true, List.all_eq_true] at this
    have := this.2 p hp
    simpa using this
  · intro m2 hm2 q hq m1 hm1 p hp
    simp only [crossOK, List.all_eq_true] at h3
    exact h3 m2 hm2 q hq m1 hm1 p hp

theorem pathAt_mem (m : MapX) (ip : List Nat) (p : List Str) (h : pathAt m ip = some p) : p ∈ pathsOf m := by
  unfold pathAt at h
  split at h
  · simp at h
  · rename_i l hl
    simp only [pathsOf, List.mem_filterMap, id]
    exact ⟨some p, by rw [← h]; exact List.mem_map.2 ⟨l, loopsTo_mem ip m.root l hl, rfl⟩, rfl⟩

theorem fetchIn_ip {ms : Maps} {m : MapX} {p : List (Nat × Nat)} {n : NodeRef} (h : fetchIn ms m p = some n) :
    MapSkel.fetch ms.consts.ent ms.consts.hl m.root p = some n.ip := by
  unfold fetchIn at h
  split at h
  · rename_i ip hip
    injection h with h
    rw [← h]; exact hip
  · cases h

theorem env_mem (ms : Maps) (n : NodeRef) (q : List Str) (he : EnvNode ms n) (hq : pathAt n.map n.ip = some q) :
    q ∈ envPaths ms n.map := by
  simp only [envPaths, List.mem_filterMap, id, List.mem_cons, List.mem_nil_iff, or_false]
  rcases he with h | h | h
  · exact ⟨some q, Or.inl (by simp only [envPathOf, fetchIn_ip h, hq]), rfl⟩
  · exact ⟨some q, Or.inr (Or.inl (by simp only [envPathOf, fetchIn_ip h, hq])), rfl⟩
  · exact ⟨some q, Or.inr (Or.inr (by simp only [envPathOf, fetchIn_ip h, hq])), rfl⟩

theorem key_view (ms : Maps) (hok : MapsOK2 ms) (n : NodeRef) (hn : n.map ∈ ms.maps) (v : NodeView)
    (h : nodeView ms (some n.key) = some v) : pathAt n.map n.ip = some v.path := by
  obtain ⟨hk, hm, _, hl, hp⟩ := nodeView_spec ms _ v h
  simp only [NodeRef.key, Option.some.injEq, Prod.mk.injEq] at hk
  have hu := hok.unique n.map hn
  rw [hk.1] at hu
  rw [hm] at hu
  simp only [Option.some.injEq] at hu
  rw [← hu, hk.2]
  simp only [pathAt, hl, hp]

theorem ids_of_perMap (ms : Maps) (hok : MapsOK2 ms) (m : MapX) (hm : m ∈ ms.maps) (p : List Str) (hp : p ∈ pathsOf m) :
    Xml.idsOK p = true := by
  have := hok.perMap m hm
  simp only [Xml.noSiblingLoopIdPrefix, Bool.and_eq_true, List.all_eq_true] at this
  exact this.1 p hp

theorem sib_of_perMap (ms : Maps) (hok : MapsOK2 ms) (m : MapX) (hm : m ∈ ms.maps) (p q : List Str) (hp : p ∈ pathsOf m)
    (hq : q ∈ pathsOf m) : Xml.sibOK p q = true := by
  have := hok.perMap m hm
  simp only [Xml.noSiblingLoopIdPrefix, Bool.and_eq_true, List.all_eq_true, Xml.allPairs] at this
  exact this.2 p hp q hq

/-- the chain of nodes gives C08's run hypothesis -/
theorem good_of_chain (ms : Maps) (hok : MapsOK2 ms) : ∀ (nodes : List (Option NodeRef)) (steps : List Xml.Step)
    (prev : Option NodeRef) (last : List Str), (∀ p, prev = some p → p.map ∈ ms.maps) →
    (last = [] ∨ ∃ p, prev = some p ∧ pathAt p.map p.ip = some last) →
    ChainT ms prev nodes →
    Paired (fun (c : Option NodeRef) (x : Xml.Step) => ∃ v, nodeView ms (nodeKey c) = some v ∧ x.path = v.path) nodes steps →
    Xml.GoodFrom last steps
  | _, _, _, _, _, _, _, .nil => trivial
  | c :: nodes, x :: steps, prev, last, hprev, hlast, hch, .cons ⟨v, hv, hx⟩ hrest => by
    obtain ⟨htr, hch'⟩ := hch
    -- the current node
    obtain ⟨n, rfl⟩ : ∃ n, c = some n := by
      cases c with
      | none => simp [nodeKey, nodeView] at hv
      | some n => exact ⟨n, rfl⟩
    have hn : n.map ∈ ms.maps := by
      rcases htr with h | ⟨n', h1, h2, _⟩
      · exact hprev n h.symm
      · injection h1 with h1; rw [h1]; exact h2
    have hpath : pathAt n.map n.ip = some x.path := by
      rw [hx]; exact key_view ms hok n hn v hv
    have hmem : x.path ∈ pathsOf n.map := pathAt_mem _ _ _ hpath
    have hids : Xml.idsOK x.path = true := ids_of_perMap ms hok _ hn _ hmem
    refine ⟨fun _ => hok.nonempty _ hn _ hmem, ?_, ?_⟩
    · rcases hlast with rfl | ⟨p, hp, hlp⟩
      · exact Xml.agree_of_sibOK _ _ hids rfl (by cases x.path <;> rfl)
      · have hpm : p.map ∈ ms.maps := hprev p hp
        have hlmem : last ∈ pathsOf p.map := pathAt_mem _ _ _ hlp
        have hlids : Xml.idsOK last = true := ids_of_perMap ms hok _ hpm _ hlmem
        refine Xml.agree_of_sibOK _ _ hids hlids ?_
        rcases htr with h | ⟨n', h1, _, h3⟩
        · -- same node
          rw [hp] at h
          injection h with h
          subst h
          exact sib_of_perMap ms hok _ hn _ _ hmem hlmem
        · injection h1 with h1
          subst h1
          rcases h3 with ⟨p', hp', hsame⟩ | henv
          · rw [hp] at hp'
            injection hp' with hp'
            subst hp'
            rw [← hsame] at hlmem
            exact sib_of_perMap ms hok _ hn _ _ hmem hlmem
          · exact hok.cross _ hn _ (env_mem ms _ _ henv hpath) _ hpm _ hlmem
    · exact good_of_chain ms hok nodes steps (some n) x.path
        (fun p hp => by injection hp with hp; rw [← hp]; exact hn) (Or.inr ⟨n, rfl, hpath⟩) hch' hrest

theorem paired_nodes (ms : Maps) (d : Delims) : ∀ (rounds : List Round) (steps : List Xml.Step) (nodes : List (Option NodeRef)),
    Paired (fun (p : Round) (x : Xml.Step) => ∃ v, nodeView ms p.1.node = some v ∧ x = xmlStepOf d p.2 v) rounds steps →
    rounds.map (fun p => p.1.node) = nodes.map nodeKey →
    Paired (fun (c : Option NodeRef) (x : Xml.Step) => ∃ v, nodeView ms (nodeKey c) = some v ∧ x.path = v.path) nodes steps
  | _, _, nodes, .nil, h => by
    cases nodes with
    | nil => exact .nil
    | cons c r => simp at h
  | _, _, nodes, .cons ⟨v, hv, hx⟩ t, h => by
    cases nodes with
    | nil => simp at h
    | cons c r =>
      simp only [List.map_cons, List.cons.injEq] at h
      refine .cons ⟨v, by rw [← h.1]; exact hv, by rw [hx]; rfl⟩ (paired_nodes ms d _ _ r t h.2)

/-- **the run hypothesis of C08 holds for the `seg()` calls of every document, for all loaded maps together** -/
theorem docSteps_good2 (ms : Maps) (hok : MapsOK2 ms) (ctx : Ctx) (text : List Char) (steps : List Xml.Step)
    (h : docSteps ms ctx text = some steps) : Xml.GoodFrom [] steps := by
  obtain ⟨hd, rr, rounds, _, hr, hp⟩ := docSteps_spec ms ctx text steps h
  obtain ⟨⟨b, hb⟩, h1, _⟩ := roundsOf_spec _ _ _ hr
  obtain ⟨control, nodes, hc, hn, hch⟩ := validateRead_chain ms ctx hd rr b hb
  have hkeys : rounds.map (fun p => p.1.node) = nodes.map nodeKey := by
    rw [← hn, ← h1, List.map_map]; rfl
  refine good_of_chain ms hok nodes steps _ [] ?_ (Or.inl rfl) hch (paired_nodes ms _ rounds steps nodes hp hkeys)
  intro p hp'
  rw [fetchIn_map hp']
  exact findMap_mem hc

end Pyx12Verif.Doc
