/- helper lemmas for the set_value laws: Segment.set / get_value, and stability of path targets when the data of
one segment is replaced -/
import Pyx12Verif.Model.DataTree
import Pyx12Verif.Proofs.DataTree

namespace Pyx12Verif.DataTree


theorem padTo_length {α : Type} (x : α) (n : Nat) (l : List α) : n ≤ (padTo x n l).length := by
  simp [padTo]; omega

theorem padTo_getD {α : Type} (x : α) (n : Nat) (l : List α) (j : Nat) : (padTo x n l).getD j x = l.getD j x := by
  simp only [padTo, List.getD_eq_getElem?_getD, List.getElem?_append]
  split
  · rfl
  · rename_i h
    have : l[j]? = none := by simp at h; simp [h]
    rw [this]
    cases hr : (List.replicate (n - l.length) x)[j - l.length]? with
    | none => rfl
    | some y =>
      have := List.mem_of_getElem? hr
      simp at this
      simp [this.2]

theorem setLast_getLast? {α : Type} (x : α) (l : List α) : (setLast x l).getLast? = some x := by
  simp [setLast]

theorem setLast_getD {α : Type} (x d : α) (l : List α) (j : Nat) (h : j ≠ l.length - 1) :
    (setLast x l).getD j d = l.getD j d := by
  simp only [setLast, List.getD_eq_getElem?_getD, List.getElem?_append, List.length_dropLast]
  split
  · rename_i hj
    rw [List.getElem?_dropLast]; simp [hj]
  · rename_i hj
    have h1 : l.length ≤ j := by omega
    have : l[j]? = none := by simp [h1]
    rw [this]
    have h2 : j - (l.length - 1) ≠ 0 := by omega
    cases hk : j - (l.length - 1) with
    | zero => exact absurd hk h2
    | succ k => simp

/-- index of the element written by `Segment.set` -/
def eleIndex (s : Seg) : Option Nat → Nat
  | none => 0
  | some 0 => s.els.length - 1
  | some (k + 1) => k

/-- `Segment.set` changes no other element (an absent element and a blank one are the same element) and nothing
else of the segment -/
theorem segSet_frame (s s2 : Seg) (v : Str) (e sb : Option Nat) (h : segSet s v e sb = .ok s2) :
    s2.id = s.id ∧ s2.st = s.st ∧ s2.et = s.et ∧ s2.sub = s.sub ∧
    ∀ j, j ≠ eleIndex s e → s2.els.getD j [[]] = s.els.getD j [[]] := by
  cases e with
  | none => simp [segSet] at h
  | some e =>
    cases e with
    | zero =>
      simp only [segSet] at h
      split at h
      · simp at h
      · simp at h; subst h
        refine ⟨rfl, rfl, rfl, rfl, ?_⟩
        intro j hj
        exact setLast_getD _ _ _ _ hj
    | succ k =>
      simp only [segSet] at h
      simp at h; subst h
      refine ⟨rfl, rfl, rfl, rfl, ?_⟩
      intro j hj
      simp only [eleIndex] at hj
      simp only [List.getD_eq_getElem?_getD, List.getElem?_set, Ne.symm hj, if_false]
      have := padTo_getD [[]] (k + 1) s.els j
      simpa [List.getD_eq_getElem?_getD] using this

/-- what `get_value` returns for a value written by `set_value`: the value itself for a sub-element designator,
the composite text (split on the sub-element separator, trailing empties dropped) otherwise -/
def writtenValue (sb : Char) (v : Str) : Option Nat → Str
  | none => compFmt sb (splitOn sb v)
  | some _ => v

theorem compPart_compSet (sbc : Char) (c : List Str) (v : Str) (sb : Option Nat) :
    compPart sbc (compSet sbc c v sb) sb = .ok (some (writtenValue sbc v sb)) := by
  cases sb with
  | none => simp [compPart, compSet, writtenValue]
  | some k =>
    cases k with
    | zero => simp [compPart, compSet, writtenValue, setLast_getLast?]
    | succ j =>
      have : j < (padTo ([] : Str) (j + 1) c).length := Nat.lt_of_lt_of_le (Nat.lt_succ_self j) (padTo_length _ _ _)
      simp [compPart, compSet, writtenValue, this]

/-- `Segment.get_value` right after `Segment.set` with the same designator -/
theorem segGet_segSet (s s2 : Seg) (v : Str) (e sb : Option Nat) (h : segSet s v e sb = .ok s2) :
    segGet s2 e sb = .ok (some (writtenValue s.sub v sb)) := by
  cases e with
  | none => simp [segSet] at h
  | some e =>
    cases e with
    | zero =>
      simp only [segSet] at h
      split at h
      · simp at h
      · rename_i c hc
        simp at h; subst h
        simp only [segGet, setLast_getLast?]
        exact compPart_compSet _ _ _ _
    | succ k =>
      simp only [segSet] at h
      simp at h; subst h
      have : k < (padTo ([[]] : List Str) (k + 1) s.els).length :=
        Nat.lt_of_lt_of_le (Nat.lt_succ_self k) (padTo_length _ _ _)
      simp only [segGet, List.getElem?_set, this, if_true]
      exact compPart_compSet _ _ _ _

theorem splitOn_no_sep (c : Char) (v : Str) (h : c ∉ v) : splitOn c v = [v] := by
  induction v with
  | nil => simp [splitOn]
  | cons x r ih =>
    simp at h
    have hx : ¬ x = c := fun e => h.1 e.symm
    simp [splitOn, hx, ih h.2]

theorem writtenValue_plain (sb : Char) (v : Str) (o : Option Nat) (h : sb ∉ v) : writtenValue sb v o = v := by
  cases o with
  | some _ => rfl
  | none =>
    simp only [writtenValue, splitOn_no_sep sb v h, compFmt, trimKeepOne, dropTrailing]
    cases v with
    | nil => simp [List.dropWhile, strEmpty, joinWith]
    | cons x r => simp [strEmpty, joinWith]



/-- a node without the children of a loop -/
def hv : DNode → DNode
  | .seg d s => .seg d s
  | .loop h mk _ => .loop h mk []
  | .dead => .dead

theorem getAt_putSeg_hv (s2 : Seg) (sa b : List Nat) (t : DNode) (hne : b ≠ sa) :
    (getAt b (modifyAt (putSeg s2) sa t)).map hv = (getAt b t).map hv := by
  induction sa generalizing b t with
  | nil =>
    cases b with
    | nil => exact absurd rfl hne
    | cons j r' => cases t <;> simp [getAt, modifyAt, putSeg]
  | cons i r ih =>
    cases t with
    | seg d s => simp [modifyAt]
    | dead => simp [modifyAt]
    | loop hd mk cs =>
      cases b with
      | nil => simp [getAt, modifyAt, hv]
      | cons j r' =>
        simp only [modifyAt, getAt_cons_loop, List.getElem?_modify]
        by_cases hij : i = j
        · subst hij
          cases hc : cs[i]? with
          | none => simp
          | some c =>
            have hr : r' ≠ r := fun e => hne (by rw [e])
            simpa using ih r' c hr
        · cases hc : cs[j]? <;> simp [hij]

/-- children of corresponding nodes before / after replacing the data of the segment `d` -/
def KidRel (d : SegDef) (s s2 : Seg) (c' c : Option DNode) : Prop :=
  c'.map hv = c.map hv ∨ (c' = some (.seg d s2) ∧ c = some (.seg d s))

theorem firstSegIdx_congr (d : SegDef) (s s2 : Seg) (sid q : Option Str)
    (hq : isMatchQual d s2 sid q = isMatchQual d s sid q) (cs cs' : List DNode) (k : Nat)
    (h : ∀ j : Nat, KidRel d s s2 (cs'[j]?) (cs[j]?)) : firstSegIdx sid q k cs' = firstSegIdx sid q k cs := by
  induction cs generalizing cs' k with
  | nil =>
    have := h 0
    cases cs' with
    | nil => rfl
    | cons c' r' => simp [KidRel] at this
  | cons c r ih =>
    cases cs' with
    | nil => have := h 0; simp [KidRel] at this
    | cons c' r' =>
      have h0 := h 0
      have ht : ∀ j : Nat, KidRel d s s2 (r'[j]?) (r[j]?) := fun j => by simpa using h (j + 1)
      have iht := ih r' (k + 1) ht
      simp only [List.getElem?_cons_zero, KidRel, Option.map_some, Option.some.injEq] at h0
      rcases h0 with h0 | ⟨h1, h2⟩
      · cases c <;> cases c' <;> simp [hv] at h0
        · obtain ⟨rfl, rfl⟩ := h0
          simp [firstSegIdx, iht]
        · simp [firstSegIdx, iht]
        · simp [firstSegIdx, iht]
      · subst h1 h2
        simp [firstSegIdx, iht, hq]

theorem firstLoopIdx_congr (d : SegDef) (s s2 : Seg) (lid : Str) (cs cs' : List DNode) (k : Nat)
    (h : ∀ j : Nat, KidRel d s s2 (cs'[j]?) (cs[j]?)) : firstLoopIdx lid k cs' = firstLoopIdx lid k cs := by
  induction cs generalizing cs' k with
  | nil =>
    have := h 0
    cases cs' with
    | nil => rfl
    | cons c' r' => simp [KidRel] at this
  | cons c r ih =>
    cases cs' with
    | nil => have := h 0; simp [KidRel] at this
    | cons c' r' =>
      have h0 := h 0
      have ht : ∀ j : Nat, KidRel d s s2 (r'[j]?) (r[j]?) := fun j => by simpa using h (j + 1)
      have iht := ih r' (k + 1) ht
      simp only [List.getElem?_cons_zero, KidRel, Option.map_some, Option.some.injEq] at h0
      rcases h0 with h0 | ⟨h1, h2⟩
      · cases c <;> cases c' <;> simp [hv] at h0
        · simp [firstLoopIdx, iht]
        · obtain ⟨rfl, rfl⟩ := h0
          simp [firstLoopIdx, iht]
        · simp [firstLoopIdx, iht]
      · subst h1 h2
        simp [firstLoopIdx, iht]

theorem childrenOf_hv (o o' : Option DNode) (h : o'.map hv = o.map hv) :
    (childrenOf o' = none ↔ childrenOf o = none) := by
  cases o with
  | none => cases o' <;> simp at h; simp [childrenOf]
  | some n =>
    cases o' with
    | none => simp at h
    | some n' =>
      simp at h
      cases n <;> cases n' <;> simp [hv] at h <;> simp [childrenOf]

theorem kids_rel (t : DNode) (sa : List Nat) (d : SegDef) (s s2 : Seg) (hsa : getAt sa t = some (.seg d s)) (b : List Nat) (cs cs' : List DNode)
    (h : childrenOf (getAt b t) = some cs) (h' : childrenOf (getAt b (modifyAt (putSeg s2) sa t)) = some cs') :
    ∀ j : Nat, KidRel d s s2 (cs'[j]?) (cs[j]?) := by
  intro j
  rw [← childrenOf_getAt _ b cs h j, ← childrenOf_getAt _ b cs' h' j]
  by_cases hb : b ++ [j] = sa
  · right
    rw [hb, getAt_modifyAt_same, hsa]
    simp [putSeg]
  · left
    exact getAt_putSeg_hv s2 sa (b ++ [j]) t hb

theorem childrenOf_stable (t : DNode) (sa : List Nat) (d : SegDef) (s s2 : Seg) (hsa : getAt sa t = some (.seg d s)) (b : List Nat) :
    (childrenOf (getAt b (modifyAt (putSeg s2) sa t)) = none ↔ childrenOf (getAt b t) = none) := by
  by_cases hb : b = sa
  · subst hb
    rw [getAt_modifyAt_same, hsa]
    simp [putSeg, childrenOf]
  · exact childrenOf_hv _ _ (getAt_putSeg_hv s2 sa b t hb)

theorem gfmsLoop_stable (t : DNode) (sa : List Nat) (d : SegDef) (s s2 : Seg) (hsa : getAt sa t = some (.seg d s)) (hq : ∀ sid q, isMatchQual d s2 sid q = isMatchQual d s sid q) (f : Nat) (a : List Nat) (ps : Str) :
    gfmsLoop (modifyAt (putSeg s2) sa t) f a ps = gfmsLoop t f a ps := by
  induction f generalizing a ps with
  | zero => simp [gfmsLoop]
  | succ f ih =>
    simp only [gfmsLoop]
    split
    · rfl
    · split
      · rfl
      · rename_i b xp hst
        split
        · rfl
        · cases hc : childrenOf (getAt b t) with
          | none =>
            have := (childrenOf_stable t sa d s s2 hsa b).mpr hc
            rw [this]
          | some cs =>
            cases hc' : childrenOf (getAt b (modifyAt (putSeg s2) sa t)) with
            | none =>
              have := (childrenOf_stable t sa d s s2 hsa b).mp hc'
              rw [this] at hc; simp at hc
            | some cs' =>
              have hrel := kids_rel t sa d s s2 hsa b cs cs' hc hc'
              simp only []
              split
              · rw [firstSegIdx_congr d s s2 _ _ (hq _ _) cs cs' 0 hrel]
              · rename_i l0 lr _
                rw [firstLoopIdx_congr d s s2 l0 cs cs' 0 hrel]
                split
                · rfl
                · exact ih _ _

theorem isSegNode_stable (t : DNode) (sa : List Nat) (d : SegDef) (s s2 : Seg) (hsa : getAt sa t = some (.seg d s)) (a : List Nat) :
    isSegNode (getAt a (modifyAt (putSeg s2) sa t)) = isSegNode (getAt a t) := by
  by_cases hb : a = sa
  · subst hb
    rw [getAt_modifyAt_same, hsa]; simp [putSeg, isSegNode]
  · have := getAt_putSeg_hv s2 sa a t hb
    cases h1 : getAt a t with
    | none => cases h2 : getAt a (modifyAt (putSeg s2) sa t) <;> simp [h1, h2] at this ⊢
    | some n =>
      cases h2 : getAt a (modifyAt (putSeg s2) sa t) with
      | none => simp [h1, h2] at this
      | some n' =>
        simp [h1, h2] at this
        cases n <;> cases n' <;> simp [hv] at this <;> simp [isSegNode]

theorem gfmsSeg_stable (t : DNode) (sa : List Nat) (d : SegDef) (s s2 : Seg) (hsa : getAt sa t = some (.seg d s)) (hq : ∀ sid q, isMatchQual d s2 sid q = isMatchQual d s sid q) (a : List Nat) (ps : Str) :
    gfmsSeg (modifyAt (putSeg s2) sa t) a ps = gfmsSeg t a ps := by
  simp only [gfmsSeg]
  split
  · rfl
  · rename_i b xp hst
    split
    · rfl
    · split
      · rfl
      · by_cases hb : b = sa
        · subst hb
          rw [getAt_modifyAt_same, hsa]
          simp [putSeg, hq]
        · have := getAt_putSeg_hv s2 sa b t hb
          cases h1 : getAt b t with
          | none => cases h2 : getAt b (modifyAt (putSeg s2) sa t) <;> simp [h1, h2] at this ⊢
          | some n =>
            cases h2 : getAt b (modifyAt (putSeg s2) sa t) with
            | none => simp [h1, h2] at this
            | some n' =>
              simp [h1, h2] at this
              cases n <;> cases n' <;> simp [hv] at this
              · obtain ⟨rfl, rfl⟩ := this; rfl
              · rfl
              · rfl

/-- after the data of one segment was replaced by data that matches the same (segment id, qualifier) queries,
every path designates the same segment as before -/
theorem targetOf_stable (t : DNode) (sa : List Nat) (d : SegDef) (s s2 : Seg) (hsa : getAt sa t = some (.seg d s)) (hq : ∀ sid q, isMatchQual d s2 sid q = isMatchQual d s sid q) (a : List Nat) (ps : Str) :
    targetOf (modifyAt (putSeg s2) sa t) a ps = targetOf t a ps := by
  simp only [targetOf, isSegNode_stable t sa d s s2 hsa a, targetSeg, targetLoop, gfmsLoopAt,
    gfmsSeg_stable t sa d s s2 hsa hq, gfmsLoop_stable t sa d s s2 hsa hq]


end Pyx12Verif.DataTree
