/-
The invariant of the segment loop of `x12n_document` behind Props/DocTotalFull.lean.

  stepSeg_from     where `node` of a round that goes on comes from: unchanged (walker found nothing), the pinned ISA / GS
                   node, the walker's answer in the map of the previous node, the BHT node of the map the 278 switch loads
  NoOrphanR        reading the rounds backwards: a matched ST has a GS round before it, a matched SE a matched ST
  RunInv           the loop invariant: `NoOrphan` so far; while no ST was matched `node` is at an `okPath h` position of
                   its map (`h` = the map's ST guard), while no GS was yielded it is at an `okPath g` position of the
                   control map
  round_inv        one round keeps it (walker rounds by `walk_guarded`, pinned rounds by `pinAt`)
  runSegs_orphan / validateDoc_orphan   every run, however it ends
-/
import Pyx12Verif.Proofs.DocNestWalk
import Pyx12Verif.Proofs.DocSinksTrans

namespace Pyx12Verif.Doc
open Pyx12Verif Pyx12Verif.EnvNest

/-! ### interning -/

theorem tight_sound {m : MapX} {unk : Nat} {x : Str} {h : Nat} (ht : tightB m unk x h = true) {v : Str}
    (hv : internV m unk (some v) = h) : v = x := by
  simp only [tightB, Bool.and_eq_true, bne_iff_ne, ne_eq, List.all_eq_true, Bool.or_eq_true, beq_iff_eq] at ht
  obtain ⟨⟨h0, hu⟩, hall⟩ := ht
  simp only [internV] at hv
  split at hv
  · exact absurd hv.symm h0
  · simp only [lookupStr] at hv
    split at hv
    · rename_i p hp
      have hmem := List.mem_of_find?_eq_some hp
      have hpv : p.1 = v := by
        have := List.find?_some hp
        simpa using this
      rcases hall p hmem with h1 | h1
      · exact absurd hv h1
      · rw [← hpv, h1]
    · exact absurd hv.symm hu

theorem segData_sid (ms : Maps) (m : MapX) (d : Delims) (s : Seg) : (segData ms m d s).sid = idNum ms m s.id := rfl

theorem pinAt_fetch {h : Nat} {ms : Maps} {m : MapX} {path : List (Nat × Nat)} (hp : pinAt h ms m path = true)
    {n : NodeRef} (hn : fetchIn ms m path = some n) : n.map = m ∧ okPath h m.root n.ip = true := by
  unfold fetchIn at hn
  unfold pinAt at hp
  cases hf : MapSkel.fetch ms.consts.ent ms.consts.hl m.root path with
  | none => rw [hf] at hn; cases hn
  | some ip =>
    rw [hf] at hn hp
    simp only [Option.some.injEq] at hn
    subst hn
    exact ⟨rfl, hp⟩

/-! ### where the node of a round comes from -/

theorem findNode_from (ms : Maps) (control : MapX) (d : Delims) (s : Seg) (k : Nat) (st : LState) (n : NodeRef)
    (cnt : Walker.Counter) (evs : List Event) (h : findNode ms control d s k st = .res (some n) cnt evs) :
    (s.id = Envelope.idISA ∧ fetchIn ms control (isaPath ms) = some n) ∨
    (s.id = Envelope.idGS ∧ fetchIn ms control (gsPath ms) = some n) ∨
    (s.id ≠ Envelope.idISA ∧ s.id ≠ Envelope.idGS ∧ ∃ cur ip, st.node = some cur ∧
      (Walker.walk ms.consts cur.map.root cur.map.rootId st.cnt cur.ip (segData ms cur.map d s)).node = some ip ∧
      n = ⟨cur.map, ip⟩) := by
  unfold findNode at h
  split at h
  · rename_i hid
    simp only [Found.res.injEq] at h
    exact Or.inl ⟨hid, h.1⟩
  · rename_i h1
    split at h
    · rename_i hid
      simp only [Found.res.injEq] at h
      exact Or.inr (Or.inl ⟨hid, h.1⟩)
    · rename_i h2
      split at h
      · simp at h
      · rename_i cur hcur
        simp only [walkFound, foundOf, Found.res.injEq] at h
        obtain ⟨h3, _, _⟩ := h
        split at h3
        · rename_i ip hip
          simp only [Option.some.injEq] at h3
          exact Or.inr (Or.inr ⟨h1, h2, cur, ip, hcur, hip, h3.symm⟩)
        · simp at h3

/-- the node `is_valid` runs on: the node found, the GS node of the transaction map (GS rounds), or the BHT node of a map
    loaded at a BHT segment -/
def BranchFrom (ms : Maps) (s : Seg) (n n' : NodeRef) : Prop :=
  n' = n ∨ (s.id = Envelope.idGS ∧ fetchIn ms n'.map (gsPath ms) = some n') ∨
    (s.id = sBHT ∧ fetchIn ms n'.map (bhtPath ms) = some n')

theorem gsTail_from (ms : Maps) (d : Delims) (s : Seg) (st : LState) (m : MapX) (st1 : LState) (n' : NodeRef)
    (evs : List Event) (h : gsTail ms d s st m = .go st1 n' evs) : fetchIn ms n'.map (gsPath ms) = some n' := by
  unfold gsTail at h
  split at h
  · simp at h
  · rename_i x hx
    simp only [Branch.go.injEq] at h
    obtain ⟨_, rfl, _⟩ := h
    exact fetchIn_self hx

theorem bhtSwitch_from (ms : Maps) (s : Seg) (st : LState) (m : MapX) (st1 : LState) (n' : NodeRef)
    (evs : List Event) (h : bhtSwitch ms s st m = .go st1 n' evs) : fetchIn ms n'.map (bhtPath ms) = some n' := by
  unfold bhtSwitch at h
  split at h
  · simp at h
  · rename_i x hx
    simp only [plainTail, Branch.go.injEq] at h
    obtain ⟨_, rfl, _⟩ := h
    exact fetchIn_self hx

theorem branch_from (ms : Maps) (d : Delims) (s : Seg) (st : LState) (n : NodeRef) (st1 : LState) (n' : NodeRef)
    (evs : List Event) (h : branch ms d s st n = .go st1 n' evs) : BranchFrom ms s n n' := by
  unfold branch at h
  split at h
  · simp only [Branch.go.injEq] at h; exact Or.inl h.2.1.symm
  · split at h
    · simp only [Branch.go.injEq] at h; exact Or.inl h.2.1.symm
    · split at h
      · rename_i hid
        refine Or.inr (Or.inl ⟨hid, ?_⟩)
        unfold gsBranch at h
        split at h
        · obtain ⟨st0, m, hk⟩ := withNewMap_go _ _ _ _ _ _ _ h
          exact gsTail_from ms d s st0 m _ _ _ hk
        · split at h
          · simp at h
          · exact gsTail_from ms d s _ _ _ _ _ h
      · split at h
        · rename_i hid
          unfold bhtBranch at h
          split at h
          · split at h
            · obtain ⟨st0, m, hk⟩ := withNewMap_go _ _ _ _ _ _ _ h
              exact Or.inr (Or.inr ⟨hid, bhtSwitch_from ms s st0 m _ _ _ hk⟩)
            · simp only [plainTail, Branch.go.injEq] at h; exact Or.inl h.2.1.symm
          · simp only [plainTail, Branch.go.injEq] at h; exact Or.inl h.2.1.symm
        · split at h
          · simp only [Branch.go.injEq] at h; exact Or.inl h.2.1.symm
          · split at h
            · simp only [Branch.go.injEq] at h; exact Or.inl h.2.1.symm
            · split at h
              · simp only [Branch.go.injEq] at h; exact Or.inl h.2.1.symm
              · simp only [plainTail, Branch.go.injEq] at h; exact Or.inl h.2.1.symm

/-- **one round that goes on**: the reported id is the segment's; `node` is unchanged when nothing was matched, else it
    comes from the search and the branch as `findNode_from` / `BranchFrom` say -/
theorem stepSeg_from (ms : Maps) (ctx : Ctx) (control : MapX) (d : Delims) (le : List SegText.RErr) (s : Seg)
    (st st' : LState) (out : SegOut) (h : stepSeg ms ctx control d le s st = .next st' out) :
    out.sid = s.id ∧
    ((out.matched = false ∧ st'.node = st.node) ∨
     (out.matched = true ∧ ∃ n n', st'.node = some n' ∧ BranchFrom ms s n n' ∧
        ((s.id = Envelope.idISA ∧ fetchIn ms control (isaPath ms) = some n) ∨
         (s.id = Envelope.idGS ∧ fetchIn ms control (gsPath ms) = some n) ∨
         (s.id ≠ Envelope.idISA ∧ s.id ≠ Envelope.idGS ∧ ∃ cur ip, st.node = some cur ∧
            (Walker.walk ms.consts cur.map.root cur.map.rootId st.cnt cur.ip (segData ms cur.map d s)).node = some ip ∧
            n = ⟨cur.map, ip⟩)))) := by
  unfold stepSeg withView at h
  split at h
  · simp at h
  · unfold afterReader at h
    split at h
    · simp at h
    · simp at h
    · rename_i r _
      unfold afterStep at h
      generalize hst1 : ({ st with rs := r.1, pend := st.pend ++ List.map lineErr le ++ baseErrs s ++ List.map envErr r.2 } : LState) = st1 at h
      have hnode : st1.node = st.node := by rw [← hst1]
      have hcnt : st1.cnt = st.cnt := by rw [← hst1]
      cases hf : findNode ms control d s st1.rs.segCount st1 with
      | crash site => simp [hf, afterFind] at h
      | res no cnt evs =>
        rw [hf] at h
        cases no with
        | none =>
          simp only [afterFind, Step.next.injEq] at h
          obtain ⟨rfl, rfl⟩ := h
          exact ⟨rfl, Or.inl ⟨rfl, hnode⟩⟩
        | some n =>
          simp only [afterFind] at h
          obtain ⟨hmat, _⟩ := validate_node _ _ _ _ _ _ _ _ h
          have hsid : out.sid = s.id := by
            unfold validate at h
            split at h
            · simp at h
            · split at h
              · simp at h
              · split at h
                · simp at h
                · simp only [Step.next.injEq] at h
                  rw [← h.2]
          obtain ⟨st2, n', evs2, hb, hnode', _⟩ := validate_next _ _ _ _ _ _ _ _ h
          refine ⟨hsid, Or.inr ⟨hmat, n, n', hnode', branch_from ms d s _ n st2 n' evs2 hb, ?_⟩⟩
          have := findNode_from ms control d s _ st1 n cnt evs hf
          rw [hnode, hcnt] at this
          exact this

/-! ### the order of the envelope rounds -/

/-- rounds listed latest first: a matched ST has a GS round before it, a matched SE a matched ST -/
def NoOrphanR : List SegOut → Prop
  | [] => True
  | o :: earlier =>
    (o.matched = true →
      (o.sid = Envelope.idST → ∃ p ∈ earlier, p.sid = Envelope.idGS) ∧
      (o.sid = Envelope.idSE → ∃ p ∈ earlier, p.sid = Envelope.idST ∧ p.matched = true)) ∧ NoOrphanR earlier

def NoOrphan (outs : List SegOut) : Prop := NoOrphanR outs.reverse

theorem noOrphanR_drop : ∀ (A B : List SegOut), NoOrphanR (A ++ B) → NoOrphanR B
  | [], _, h => h
  | _ :: r, B, h => noOrphanR_drop r B h.2

/-- the readable form -/
theorem noOrphan_split {outs : List SegOut} (h : NoOrphan outs) (pre : List SegOut) (o : SegOut) (post : List SegOut)
    (e : outs = pre ++ o :: post) (hm : o.matched = true) :
    (o.sid = Envelope.idST → ∃ p ∈ pre, p.sid = Envelope.idGS) ∧
    (o.sid = Envelope.idSE → ∃ p ∈ pre, p.sid = Envelope.idST ∧ p.matched = true) := by
  subst e
  unfold NoOrphan at h
  have e : (pre ++ o :: post).reverse = post.reverse ++ o :: pre.reverse := by simp
  rw [e] at h
  have := (noOrphanR_drop _ _ h).1 hm
  simpa using this

/-- the loop invariant -/
structure RunInv (ms : Maps) (control : MapX) (g : Nat) (st : LState) (outs : List SegOut) : Prop where
  ok : st.Ok ms
  orphan : NoOrphan outs
  setI : (∀ o ∈ outs, ¬ (o.sid = Envelope.idST ∧ o.matched = true)) → ∀ n, st.node = some n →
    ∃ h, setNestedB ms n.map h = true ∧ okPath h n.map.root n.ip = true
  grpI : (∀ o ∈ outs, o.sid ≠ Envelope.idGS) → ∀ n, st.node = some n → n.map = control ∧ okPath g control.root n.ip = true

theorem setNested_parts {ms : Maps} {m : MapX} {h : Nat} (hh : setNestedB ms m h = true) :
    tightB m ms.unk Envelope.idST h = true ∧
    guardList h [idNum ms m Envelope.idSE, idNum ms m sBHT] m.root = true ∧
    pinAt h ms m (isaPath ms) = true ∧ pinAt h ms m (gsPath ms) = true := by
  simp only [setNestedB, Bool.and_eq_true] at hh
  exact ⟨hh.1.1.1, hh.1.1.2, hh.1.2, hh.2⟩

theorem ctlNested_parts {ms : Maps} {m : MapX} {g : Nat} (hh : ctlNestedB ms m g = true) :
    tightB m ms.unk Envelope.idGS g = true ∧
    guardList g [idNum ms m Envelope.idST, idNum ms m sBHT] m.root = true ∧
    pinAt g ms m (isaPath ms) = true := by
  simp only [ctlNestedB, Bool.and_eq_true] at hh
  exact ⟨hh.1.1, hh.1.2, hh.2⟩

/-- a walker round in a set-nested map, started outside every set: the id is not SE, not BHT, and the answer is again
    outside every set — unless the id is ST -/
theorem walk_set {ms : Maps} {cur : NodeRef} {h : Nat} (hh : setNestedB ms cur.map h = true)
    (hcur : okPath h cur.map.root cur.ip = true) (d : Delims) (s : Seg) (cnt : Walker.Counter) {ip : List Nat}
    (hw : (Walker.walk ms.consts cur.map.root cur.map.rootId cnt cur.ip (segData ms cur.map d s)).node = some ip)
    (hst : s.id ≠ Envelope.idST) :
    okPath h cur.map.root ip = true ∧ s.id ≠ Envelope.idSE ∧ s.id ≠ sBHT := by
  obtain ⟨ht, hg, _, _⟩ := setNested_parts hh
  have hs : (segData ms cur.map d s).sid ≠ h := by
    intro e
    rw [segData_sid] at e
    exact hst (tight_sound ht e)
  obtain ⟨h1, h2⟩ := walk_guarded ms.consts cur.map.root cur.map.rootId h _ hg cnt cur.ip _ hs hcur hw
  rw [segData_sid] at h2
  refine ⟨h1, ?_, ?_⟩
  · intro e; rw [e] at h2; exact h2 (by simp)
  · intro e; rw [e] at h2; exact h2 (by simp)

/-- a walker round in a group-nested control map, started outside every group: the id is not ST, not BHT, and the answer
    is again outside every group — unless the id is GS -/
theorem walk_ctl {ms : Maps} {cur : NodeRef} {g : Nat} (hh : ctlNestedB ms cur.map g = true)
    (hcur : okPath g cur.map.root cur.ip = true) (d : Delims) (s : Seg) (cnt : Walker.Counter) {ip : List Nat}
    (hw : (Walker.walk ms.consts cur.map.root cur.map.rootId cnt cur.ip (segData ms cur.map d s)).node = some ip)
    (hgs : s.id ≠ Envelope.idGS) :
    okPath g cur.map.root ip = true ∧ s.id ≠ Envelope.idST ∧ s.id ≠ sBHT := by
  obtain ⟨ht, hg, _⟩ := ctlNested_parts hh
  have hs : (segData ms cur.map d s).sid ≠ g := by
    intro e
    rw [segData_sid] at e
    exact hgs (tight_sound ht e)
  obtain ⟨h1, h2⟩ := walk_guarded ms.consts cur.map.root cur.map.rootId g _ hg cnt cur.ip _ hs hcur hw
  rw [segData_sid] at h2
  refine ⟨h1, ?_, ?_⟩
  · intro e; rw [e] at h2; exact h2 (by simp)
  · intro e; rw [e] at h2; exact h2 (by simp)

theorem sBHT_ne : sBHT ≠ Envelope.idISA ∧ sBHT ≠ Envelope.idGS ∧ sBHT ≠ Envelope.idST := by decide

/-- **one round keeps the invariant** -/
theorem round_inv (ms : Maps) (ctx : Ctx) (control : MapX) (g : Nat) (hc : control ∈ ms.maps)
    (hset : ∀ m ∈ ms.maps, ∃ h, setNestedB ms m h = true) (hctl : ctlNestedB ms control g = true)
    (d : Delims) (le : List SegText.RErr) (s : Seg) (st st' : LState) (outs : List SegOut) (out : SegOut)
    (hinv : RunInv ms control g st outs) (hstep : stepSeg ms ctx control d le s st = .next st' out) :
    RunInv ms control g st' (outs ++ [out]) := by
  obtain ⟨hok', _⟩ := stepSeg_trans ms ctx control hc d le s st st' out hinv.ok hstep
  obtain ⟨hsid, hfrom⟩ := stepSeg_from ms ctx control d le s st st' out hstep
  obtain ⟨gt, gg, gpin⟩ := ctlNested_parts hctl
  -- the two facts about a matched ST / SE round
  have hST : out.matched = true → out.sid = Envelope.idST → ∃ p ∈ outs, p.sid = Envelope.idGS := by
    intro hm hid
    apply Classical.byContradiction
    intro hno
    have hprem : ∀ o ∈ outs, o.sid ≠ Envelope.idGS := fun o ho e => hno ⟨o, ho, e⟩
    rw [hsid] at hid
    rcases hfrom with ⟨hf, _⟩ | ⟨_, n, n', _, _, hsrc⟩
    · rw [hm] at hf; cases hf
    · rcases hsrc with ⟨e, _⟩ | ⟨e, _⟩ | ⟨_, hgs, cur, ip, hcur, hw, _⟩
      · rw [hid] at e; exact absurd e (by decide)
      · rw [hid] at e; exact absurd e (by decide)
      · obtain ⟨hmap, hpath⟩ := hinv.grpI hprem cur hcur
        have hh : ctlNestedB ms cur.map g = true := by rw [hmap]; exact hctl
        have hp : okPath g cur.map.root cur.ip = true := by rw [hmap]; exact hpath
        exact (walk_ctl hh hp d s st.cnt hw hgs).2.1 hid
  have hSE : out.matched = true → out.sid = Envelope.idSE →
      ∃ p ∈ outs, p.sid = Envelope.idST ∧ p.matched = true := by
    intro hm hid
    apply Classical.byContradiction
    intro hno
    have hprem : ∀ o ∈ outs, ¬ (o.sid = Envelope.idST ∧ o.matched = true) := fun o ho e => hno ⟨o, ho, e⟩
    rw [hsid] at hid
    rcases hfrom with ⟨hf, _⟩ | ⟨_, n, n', _, _, hsrc⟩
    · rw [hm] at hf; cases hf
    · rcases hsrc with ⟨e, _⟩ | ⟨e, _⟩ | ⟨_, _, cur, ip, hcur, hw, _⟩
      · rw [hid] at e; exact absurd e (by decide)
      · rw [hid] at e; exact absurd e (by decide)
      · obtain ⟨h, hh, hp⟩ := hinv.setI hprem cur hcur
        exact (walk_set hh hp d s st.cnt hw (by rw [hid]; decide)).2.1 hid
  refine ⟨hok', ?_, ?_, ?_⟩
  · unfold NoOrphan
    have e : (outs ++ [out]).reverse = out :: outs.reverse := by simp
    rw [e]
    refine ⟨fun hm => ⟨fun hid => ?_, fun hid => ?_⟩, hinv.orphan⟩
    · obtain ⟨p, hp, h1⟩ := hST hm hid
      exact ⟨p, List.mem_reverse.2 hp, h1⟩
    · obtain ⟨p, hp, h1⟩ := hSE hm hid
      exact ⟨p, List.mem_reverse.2 hp, h1⟩
  · -- no set was opened so far
    intro hprem n1 hn1
    have hprem0 : ∀ o ∈ outs, ¬ (o.sid = Envelope.idST ∧ o.matched = true) :=
      fun o ho => hprem o (List.mem_append_left _ ho)
    have hout : ¬ (out.sid = Envelope.idST ∧ out.matched = true) := hprem out (by simp)
    rcases hfrom with ⟨_, hsame⟩ | ⟨hm, n, n', hnode', hbr, hsrc⟩
    · rw [hsame] at hn1; exact hinv.setI hprem0 n1 hn1
    · rw [hnode'] at hn1
      simp only [Option.some.injEq] at hn1
      subst hn1
      have hnst : s.id ≠ Envelope.idST := fun e => hout ⟨hsid.trans e, hm⟩
      have hmem : n'.map ∈ ms.maps := hok'.1 n' hnode'
      rcases hbr with rfl | ⟨_, hfetch⟩ | ⟨hb, _⟩
      · rcases hsrc with ⟨_, hf⟩ | ⟨_, hf⟩ | ⟨_, _, cur, ip, hcur, hw, rfl⟩
        · obtain ⟨h, hh⟩ := hset control hc
          obtain ⟨hmap, hp⟩ := pinAt_fetch (setNested_parts hh).2.2.1 hf
          exact ⟨h, by rw [hmap]; exact hh, by rw [hmap]; exact hp⟩
        · obtain ⟨h, hh⟩ := hset control hc
          obtain ⟨hmap, hp⟩ := pinAt_fetch (setNested_parts hh).2.2.2 hf
          exact ⟨h, by rw [hmap]; exact hh, by rw [hmap]; exact hp⟩
        · obtain ⟨h, hh, hp⟩ := hinv.setI hprem0 cur hcur
          exact ⟨h, hh, (walk_set hh hp d s st.cnt hw hnst).1⟩
      · obtain ⟨h, hh⟩ := hset n'.map hmem
        obtain ⟨_, hp⟩ := pinAt_fetch (setNested_parts hh).2.2.2 hfetch
        exact ⟨h, hh, hp⟩
      · exfalso
        rcases hsrc with ⟨e, _⟩ | ⟨e, _⟩ | ⟨_, _, cur, ip, hcur, hw, _⟩
        · rw [hb] at e; exact sBHT_ne.1 e
        · rw [hb] at e; exact sBHT_ne.2.1 e
        · obtain ⟨h, hh, hp⟩ := hinv.setI hprem0 cur hcur
          exact (walk_set hh hp d s st.cnt hw hnst).2.2 hb
  · -- no group was opened so far
    intro hprem n1 hn1
    have hprem0 : ∀ o ∈ outs, o.sid ≠ Envelope.idGS := fun o ho => hprem o (List.mem_append_left _ ho)
    have hngs : s.id ≠ Envelope.idGS := by
      have := hprem out (by simp)
      rw [hsid] at this
      exact this
    rcases hfrom with ⟨_, hsame⟩ | ⟨hm, n, n', hnode', hbr, hsrc⟩
    · rw [hsame] at hn1; exact hinv.grpI hprem0 n1 hn1
    · rw [hnode'] at hn1
      simp only [Option.some.injEq] at hn1
      subst hn1
      rcases hbr with rfl | ⟨e, _⟩ | ⟨hb, _⟩
      · rcases hsrc with ⟨_, hf⟩ | ⟨e, _⟩ | ⟨_, _, cur, ip, hcur, hw, rfl⟩
        · exact pinAt_fetch gpin hf
        · exact absurd e hngs
        · obtain ⟨hmap, hpath⟩ := hinv.grpI hprem0 cur hcur
          have hh : ctlNestedB ms cur.map g = true := by rw [hmap]; exact hctl
          have hp : okPath g cur.map.root cur.ip = true := by rw [hmap]; exact hpath
          have := (walk_ctl hh hp d s st.cnt hw hngs).1
          exact ⟨hmap, by rw [hmap] at this; exact this⟩
      · exact absurd e hngs
      · exfalso
        rcases hsrc with ⟨e, _⟩ | ⟨e, _⟩ | ⟨_, _, cur, ip, hcur, hw, _⟩
        · rw [hb] at e; exact sBHT_ne.1 e
        · rw [hb] at e; exact sBHT_ne.2.1 e
        · obtain ⟨hmap, hpath⟩ := hinv.grpI hprem0 cur hcur
          have hh : ctlNestedB ms cur.map g = true := by rw [hmap]; exact hctl
          have hp : okPath g cur.map.root cur.ip = true := by rw [hmap]; exact hpath
          exact (walk_ctl hh hp d s st.cnt hw hngs).2.2 hb

/-- the rounds a loop ended with -/
def LoopEnd.outs : LoopEnd → List SegOut
  | .done a => a.outs
  | .stopped _ a => a.outs

theorem runSegs_orphan (ms : Maps) (ctx : Ctx) (control : MapX) (g : Nat) (hc : control ∈ ms.maps)
    (hset : ∀ m ∈ ms.maps, ∃ h, setNestedB ms m h = true) (hctl : ctlNestedB ms control g = true) (d : Delims) :
    ∀ (ps : List (List SegText.RErr × Seg)) (a : Acc), RunInv ms control g a.st a.outs →
      NoOrphan (runSegs ms ctx control d a ps).outs := by
  intro ps
  induction ps with
  | nil => intro a ha; exact ha.orphan
  | cons p ps ih =>
    intro a ha
    simp only [runSegs]
    cases hs : stepSeg ms ctx control d p.1 p.2 a.st with
    | stop o => exact ha.orphan
    | next st out =>
      have hr := round_inv ms ctx control g hc hset hctl d p.1 p.2 a.st st a.outs out ha hs
      simp only
      cases ErrTree.run a.est out.events with
      | crash site => exact hr.orphan
      | ok est => exact ih _ hr

theorem initAcc_inv (ms : Maps) (control : MapX) (g : Nat) (hc : control ∈ ms.maps)
    (hset : ∀ m ∈ ms.maps, ∃ h, setNestedB ms m h = true) (hctl : ctlNestedB ms control g = true) :
    RunInv ms control g (initAcc ms control).st (initAcc ms control).outs := by
  refine ⟨initState_ok ms control hc, trivial, ?_, ?_⟩
  · intro _ n hn
    simp only [initAcc, initState] at hn
    obtain ⟨h, hh⟩ := hset control hc
    obtain ⟨hmap, hp⟩ := pinAt_fetch (setNested_parts hh).2.2.1 hn
    exact ⟨h, by rw [hmap]; exact hh, by rw [hmap]; exact hp⟩
  · intro _ n hn
    simp only [initAcc, initState] at hn
    exact pinAt_fetch (ctlNested_parts hctl).2.2 hn

theorem finish_segs (rr : SegText.ReadResult) (e : LoopEnd) : (finish rr e).segs = e.outs := by
  cases e with
  | stopped o a => rfl
  | done a =>
    simp only [finish, LoopEnd.outs]
    split
    · rfl
    · unfold finishDone
      split <;> rfl

/-- **every run**: in the rounds `validateDoc` reports, a matched ST is preceded by a GS round and a matched SE by a matched
    ST — for maps with the envelope nesting of `EnvNested`, whatever the text and however the run ends -/
theorem validateDoc_orphan (ms : Maps) (ctx : Ctx) (text : List Char) (hnest : EnvNested ms) :
    NoOrphan (validateDoc ms ctx text).segs := by
  unfold validateDoc
  cases SegText.readAll { rest := text, sizes := [] } with
  | error e => exact trivial
  | ok hd rr =>
    simp only [validateRead]
    cases hm : findMap ms (controlFile hd) with
    | none => exact trivial
    | some control =>
      simp only
      have hc : control ∈ ms.maps := findMap_mem hm
      have hf : controlFile hd = ctl401 ∨ controlFile hd = ctl501 := by
        unfold controlFile
        split
        · exact Or.inr rfl
        · exact Or.inl rfl
      obtain ⟨g, hg⟩ := hnest.ctl (controlFile hd) control hf hm
      rw [finish_segs]
      exact runSegs_orphan ms ctx control g hc hnest.sets hg _ _ _ (initAcc_inv ms control g hc hnest.sets hg)

end Pyx12Verif.Doc
