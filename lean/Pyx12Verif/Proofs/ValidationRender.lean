/-
C13 helper lemmas: zero-padded decimal rendering (`render1`, `render2`, `render4`) and its inverse `num` on
strings of ASCII digits.  Used by `Props/C13Render.lean` to restate the date and time languages without any
reference to string positions.
-/
import Pyx12Verif.Spec.Validation
import Pyx12Verif.Proofs.ValidationChars

namespace Pyx12Verif.Validation

/-- the ASCII digit for a value 0..9 -/
def digitChar (d : Nat) : Char := Char.ofNat (48 + d)

/-- one decimal digit (the value modulo 10) -/
def render1 (n : Nat) : List Char := [digitChar (n % 10)]
/-- two decimal digits, zero padded (exact for `n < 100`) -/
def render2 (n : Nat) : List Char := [digitChar (n / 10 % 10), digitChar (n % 10)]
/-- four decimal digits, zero padded (exact for `n < 10000`) -/
def render4 (n : Nat) : List Char :=
  [digitChar (n / 1000 % 10), digitChar (n / 100 % 10), digitChar (n / 10 % 10), digitChar (n % 10)]

theorem lt10_cases (d : Nat) (h : d < 10) :
    d = 0 ∨ d = 1 ∨ d = 2 ∨ d = 3 ∨ d = 4 ∨ d = 5 ∨ d = 6 ∨ d = 7 ∨ d = 8 ∨ d = 9 := by omega

theorem isDigit_digitChar (d : Nat) (h : d < 10) : isDigit (digitChar d) = true := by
  rcases lt10_cases d h with e | e | e | e | e | e | e | e | e | e <;> subst e <;> decide

theorem digitVal_digitChar (d : Nat) (h : d < 10) : digitVal (digitChar d) = d := by
  rcases lt10_cases d h with e | e | e | e | e | e | e | e | e | e <;> subst e <;> decide

theorem digitVal_lt (c : Char) (h : isDigit c = true) : digitVal c < 10 := by
  have := (isDigit_iff c).mp h
  unfold digitVal
  have e : '0'.toNat = 48 := by decide
  omega

theorem digitChar_digitVal (c : Char) (h : isDigit c = true) : digitChar (digitVal c) = c := by
  have hc := (isDigit_iff c).mp h
  unfold digitChar digitVal
  have e : '0'.toNat = 48 := by decide
  rw [e, show 48 + (c.toNat - 48) = c.toNat by omega]
  exact Char.ofNat_toNat c

/-! ### `num` on short digit strings -/

theorem num1 (a : Char) : num [a] = digitVal a := by simp [num]
theorem num2 (a b : Char) : num [a, b] = digitVal a * 10 + digitVal b := by simp [num]
theorem num4 (a b c d : Char) :
    num [a, b, c, d] = ((digitVal a * 10 + digitVal b) * 10 + digitVal c) * 10 + digitVal d := by simp [num]

theorem num_render1 (n : Nat) (h : n < 10) : num (render1 n) = n := by
  unfold render1; rw [num1, digitVal_digitChar _ (by omega)]; omega

theorem num_render2 (n : Nat) (h : n < 100) : num (render2 n) = n := by
  unfold render2
  rw [num2, digitVal_digitChar _ (by omega), digitVal_digitChar _ (by omega)]; omega

theorem num_render4 (n : Nat) (h : n < 10000) : num (render4 n) = n := by
  unfold render4
  rw [num4, digitVal_digitChar _ (by omega), digitVal_digitChar _ (by omega), digitVal_digitChar _ (by omega),
    digitVal_digitChar _ (by omega)]; omega

theorem render1_num (a : Char) (ha : isDigit a = true) : render1 (num [a]) = [a] := by
  have la := digitVal_lt a ha
  unfold render1
  rw [num1, show digitVal a % 10 = digitVal a by omega, digitChar_digitVal a ha]

theorem render2_num (a b : Char) (ha : isDigit a = true) (hb : isDigit b = true) : render2 (num [a, b]) = [a, b] := by
  have la := digitVal_lt a ha
  have lb := digitVal_lt b hb
  unfold render2
  rw [num2, show (digitVal a * 10 + digitVal b) / 10 % 10 = digitVal a by omega,
    show (digitVal a * 10 + digitVal b) % 10 = digitVal b by omega, digitChar_digitVal a ha, digitChar_digitVal b hb]

theorem render4_num (a b c d : Char) (ha : isDigit a = true) (hb : isDigit b = true) (hc : isDigit c = true)
    (hd : isDigit d = true) : render4 (num [a, b, c, d]) = [a, b, c, d] := by
  have la := digitVal_lt a ha
  have lb := digitVal_lt b hb
  have lc := digitVal_lt c hc
  have ld := digitVal_lt d hd
  unfold render4
  rw [num4]
  have e1 : (((digitVal a * 10 + digitVal b) * 10 + digitVal c) * 10 + digitVal d) / 1000 % 10 = digitVal a := by
    omega
  have e2 : (((digitVal a * 10 + digitVal b) * 10 + digitVal c) * 10 + digitVal d) / 100 % 10 = digitVal b := by
    omega
  have e3 : (((digitVal a * 10 + digitVal b) * 10 + digitVal c) * 10 + digitVal d) / 10 % 10 = digitVal c := by
    omega
  have e4 : (((digitVal a * 10 + digitVal b) * 10 + digitVal c) * 10 + digitVal d) % 10 = digitVal d := by
    omega
  rw [e1, e2, e3, e4, digitChar_digitVal a ha, digitChar_digitVal b hb, digitChar_digitVal c hc,
    digitChar_digitVal d hd]

theorem num2_lt (a b : Char) (ha : isDigit a = true) (hb : isDigit b = true) : num [a, b] < 100 := by
  have la := digitVal_lt a ha
  have lb := digitVal_lt b hb
  rw [num2]; omega

theorem num4_lt (a b c d : Char) (ha : isDigit a = true) (hb : isDigit b = true) (hc : isDigit c = true)
    (hd : isDigit d = true) : num [a, b, c, d] < 10000 := by
  have la := digitVal_lt a ha
  have lb := digitVal_lt b hb
  have lc := digitVal_lt c hc
  have ld := digitVal_lt d hd
  rw [num4]; omega

theorem allDigits_render1 (n : Nat) : AllDigits (render1 n) := by
  intro c hc
  simp only [render1, List.mem_singleton] at hc
  subst hc; exact isDigit_digitChar _ (by omega)

theorem allDigits_render2 (n : Nat) : AllDigits (render2 n) := by
  intro c hc
  simp only [render2, List.mem_cons, List.not_mem_nil, or_false] at hc
  rcases hc with e | e <;> subst e <;> exact isDigit_digitChar _ (by omega)

theorem allDigits_render4 (n : Nat) : AllDigits (render4 n) := by
  intro c hc
  simp only [render4, List.mem_cons, List.not_mem_nil, or_false] at hc
  rcases hc with e | e | e | e <;> subst e <;> exact isDigit_digitChar _ (by omega)

theorem allDigits_append (a b : List Char) : AllDigits (a ++ b) ↔ AllDigits a ∧ AllDigits b := by
  unfold AllDigits
  simp only [List.mem_append]
  constructor
  · intro h; exact ⟨fun c hc => h c (Or.inl hc), fun c hc => h c (Or.inr hc)⟩
  · rintro ⟨h1, h2⟩ c (hc | hc)
    · exact h1 c hc
    · exact h2 c hc

/-! ### destructuring strings of known length -/

theorem len4 (s : List Char) (h : s.length = 4) : ∃ a b c d, s = [a, b, c, d] := by
  match s, h with
  | [a, b, c, d], _ => exact ⟨a, b, c, d, rfl⟩

theorem len6 (s : List Char) (h : s.length = 6) : ∃ a b c d e f, s = [a, b, c, d, e, f] := by
  match s, h with
  | [a, b, c, d, e, f], _ => exact ⟨a, b, c, d, e, f, rfl⟩

theorem len7 (s : List Char) (h : s.length = 7) : ∃ a b c d e f g, s = [a, b, c, d, e, f, g] := by
  match s, h with
  | [a, b, c, d, e, f, g], _ => exact ⟨a, b, c, d, e, f, g, rfl⟩

theorem len8 (s : List Char) (h : s.length = 8) : ∃ a b c d e f g i, s = [a, b, c, d, e, f, g, i] := by
  match s, h with
  | [a, b, c, d, e, f, g, i], _ => exact ⟨a, b, c, d, e, f, g, i, rfl⟩

theorem len12 (s : List Char) (h : s.length = 12) :
    ∃ a b c d e f g i j k l m, s = [a, b, c, d, e, f, g, i, j, k, l, m] := by
  match s, h with
  | [a, b, c, d, e, f, g, i, j, k, l, m], _ => exact ⟨a, b, c, d, e, f, g, i, j, k, l, m, rfl⟩

end Pyx12Verif.Validation
