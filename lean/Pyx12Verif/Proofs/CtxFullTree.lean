/-
`ctxDoc_total_full`, part 1: the tree part of one round, at the level of loop PATHS only.

`Props/C09.lean` proves "no exception" for answer lists satisfying `Ctx.Consistent`, an invariant that also carries map
positions (needed for the partition).  `ctxDoc` meets answer lists that are NOT consistent in that sense — an ISA or a GS in
the middle of a transaction set, a 278 map switch, documents spanning several maps with different positions — and still must
not take the five tree exits.  The invariant here (`TInv`) forgets positions and tolerates what a misplaced GS leaves behind:

  * `chainOf c`   the map paths of the open data nodes, innermost first (the cursor and its ancestors)
  * `Linked`      a node whose path has ≥ 3 loops hangs under the node of its parent loop (below `ISA_LOOP/GS_LOOP` a
                  misplaced GS may have attached anything)
  * `TInv l C W`  `C` starts with the loop `W` of the current map node (when `W` has ≥ 2 loops), is linked, ends at a tree
                  root whose loop is the requested one, and the requested id occurs exactly once in `W`

Answers come in three shapes (`AnsShape`): `Regular` (the walker's: pop `j` enclosing loops, push a chain of child loops;
also "not found" with `j = 0`, nothing pushed), `GsLike` (the made-up lists at GS), `IsaLike` (ISA: nothing popped or pushed).
`treeStep_modeA`: under `TInv`, with the requested id not naming a wrapper (of the walked map) and occurring at most once on
the new path, the
round takes none of `popMismatch`, `popPastRoot`, `pushOnNone`, `appendOnNone`, `pushAssert`, and `TInv` holds again.
`treeStep_modeB`: when the requested id never starts a tree, no tree exists and the same five exits are closed.
-/
import Pyx12Verif.Model.CtxDoc

namespace Pyx12Verif.Ctx

/-- map paths of the open data nodes, innermost first -/
def chainOf (c : Cursor) : List LPath := c.path :: c.up.map (fun f => f.path)

/-- `[W, parent of W, …]`, `j` entries: what the walker pops -/
def popsOf : LPath → Nat → List LPath
  | _, 0 => []
  | W, j + 1 => W :: popsOf W.dropLast j

/-- `base/x₁, base/x₁/x₂, …`: what the walker pushes -/
def pushesOf : LPath → List LoopId → List LPath
  | _, [] => []
  | base, x :: r => (base ++ [x]) :: pushesOf (base ++ [x]) r

def Linked : List LPath → Prop
  | [] => True
  | [_] => True
  | p :: q :: r => (3 ≤ p.length → q = p.dropLast) ∧ Linked (q :: r)

structure TInv (l : LoopId) (C : List LPath) (W : LPath) : Prop where
  head : 2 ≤ W.length → C.head? = some W
  linked : Linked C
  root : ∃ T, C.getLast? = some T ∧ T.getLast? = some l
  cnt : W.count l ≤ 1
  mem : l ∈ W

/-! ### shapes of answers -/

structure Regular (wrap : LoopId → Prop) (W : LPath) (a : Answer) (j : Nat) (ids : List LoopId) : Prop where
  pops : a.pops = popsOf W j
  pushes : a.pushes.map (fun p => p.1) = pushesOf (W.take (W.length - j)) ids
  path : a.path = W.take (W.length - j) ++ ids
  first : ids ≠ [] → a.first = true
  wrap : ∀ x ∈ ids.dropLast, wrap x

def GsLike (W : LPath) (a : Answer) : Prop :=
  ∃ x y, a.path = [x, y] ∧ a.first = true ∧ a.pushes.map (fun p => p.1) = [[x, y]] ∧
    (a.pops = [] ∨ (a.pops = [W] ∧ W.getLast? = some y))

def IsaLike (a : Answer) : Prop := ∃ x, a.path = [x] ∧ a.first = true ∧ a.pops = [] ∧ a.pushes = []

inductive AnsShape (wrap : LoopId → Prop) (W : LPath) (a : Answer) : Prop
  | reg (j : Nat) (ids : List LoopId) : Regular wrap W a j ids → AnsShape wrap W a
  | gs : GsLike W a → AnsShape wrap W a
  | isa : IsaLike a → AnsShape wrap W a

/-- the id of every pushed loop lies on the new path -/
def PushIn (a : Answer) : Prop := ∀ p ∈ a.pushes, ∀ x, idOf p.1 = some x → x ∈ a.path

/-! ### lists -/

theorem idOf_pushesOf : ∀ (ids : List LoopId) (base : LPath),
    (pushesOf base ids).map idOf = ids.map some
  | [], _ => rfl
  | x :: r, base => by
    simp only [pushesOf, List.map_cons, idOf_pushesOf r (base ++ [x]), List.cons.injEq, and_true]
    simp [idOf]

theorem pushesOf_length : ∀ (ids : List LoopId) (base : LPath), (pushesOf base ids).length = ids.length
  | [], _ => rfl
  | x :: r, base => by simp [pushesOf, pushesOf_length r]

theorem pushesOf_getLast : ∀ (ids : List LoopId) (base : LPath), ids ≠ [] →
    (pushesOf base ids).getLast? = some (base ++ ids)
  | [], _, h => absurd rfl h
  | [x], base, _ => by simp [pushesOf]
  | x :: y :: r, base, _ => by
    have := pushesOf_getLast (y :: r) (base ++ [x]) (by simp)
    simp only [pushesOf, List.append_assoc, List.cons_append, List.nil_append] at this ⊢
    rw [List.getLast?_cons_cons]
    exact this

theorem regular_pushIn {wrap : LoopId → Prop} {W : LPath} {a : Answer} {j : Nat} {ids : List LoopId}
    (h : Regular wrap W a j ids) : PushIn a := by
  intro p hp x hx
  have h1 : some x ∈ (a.pushes.map (fun p => p.1)).map idOf := by
    simp only [List.map_map, List.mem_map, Function.comp]
    exact ⟨p, hp, hx⟩
  rw [h.pushes, idOf_pushesOf] at h1
  simp only [List.mem_map, Option.some.injEq] at h1
  obtain ⟨y, hy, rfl⟩ := h1
  rw [h.path]
  exact List.mem_append_right _ hy

theorem ansShape_pushIn {wrap : LoopId → Prop} {W : LPath} {a : Answer} (h : AnsShape wrap W a) : PushIn a := by
  cases h with
  | reg j ids hr => exact regular_pushIn hr
  | gs hg =>
    obtain ⟨x, y, hp, _, hpu, _⟩ := hg
    intro p hpm z hz
    have : p.1 ∈ a.pushes.map (fun p => p.1) := List.mem_map_of_mem hpm
    rw [hpu] at this
    simp only [List.mem_singleton] at this
    rw [this] at hz
    simp only [idOf, List.getLast?_cons_cons, List.getLast?_singleton, Option.some.injEq] at hz
    rw [hp, ← hz]; simp
  | isa hi =>
    obtain ⟨x, _, _, _, hpu⟩ := hi
    intro p hpm
    rw [hpu] at hpm; cases hpm

/-! ### `Linked` -/

theorem linked_tail : ∀ {C : List LPath}, Linked C → Linked C.tail
  | [], _ => trivial
  | [_], _ => trivial
  | _ :: _ :: _, h => h.2

theorem linked_drop : ∀ (j : Nat) {C : List LPath}, Linked C → Linked (C.drop j)
  | 0, _, h => h
  | j + 1, [], _ => by simp [Linked]
  | j + 1, _ :: C, h => by
    simp only [List.drop_succ_cons]
    exact linked_drop j (linked_tail (C := _ :: C) h)

theorem linked_cons {p : LPath} {C : List LPath} (h : Linked C) (hl : 3 ≤ p.length → C.head? = some p.dropLast ∨ C = []) :
    Linked (p :: C) := by
  cases C with
  | nil => trivial
  | cons q r =>
    refine ⟨fun h3 => ?_, h⟩
    rcases hl h3 with h1 | h1
    · simpa using h1
    · cases h1

/-- pushing a chain of child loops on a linked chain -/
theorem linked_pushes : ∀ (ids : List LoopId) (base : LPath) (D : List LPath), Linked D →
    (2 ≤ base.length → D.head? = some base ∨ D = []) → Linked ((pushesOf base ids).reverse ++ D)
  | [], _, D, h, _ => by simpa [pushesOf] using h
  | x :: r, base, D, h, hb => by
    simp only [pushesOf, List.reverse_cons, List.append_assoc, List.singleton_append]
    apply linked_pushes r (base ++ [x]) ((base ++ [x]) :: D)
    · apply linked_cons h
      intro h3
      simp only [List.length_append, List.length_singleton] at h3
      simp only [List.dropLast_concat]
      exact hb (by omega)
    · intro _; left; rfl

theorem getLast?_append_ne {α : Type} (a : List α) {b : List α} (h : b ≠ []) : (a ++ b).getLast? = b.getLast? := by
  cases b with
  | nil => exact absurd rfl h
  | cons x r =>
    obtain ⟨y, hy⟩ : ∃ y, (x :: r).getLast? = some y := ⟨_, List.getLast?_eq_some_getLast (by simp)⟩
    rw [List.getLast?_append, hy]; rfl

theorem head?_append_ne {α : Type} {a : List α} (b : List α) (h : a ≠ []) : (a ++ b).head? = a.head? := by
  cases a with
  | nil => exact absurd rfl h
  | cons x r => rfl

theorem popsOf_length : ∀ (j : Nat) (W : LPath), (popsOf W j).length = j
  | 0, _ => rfl
  | j + 1, W => by simp [popsOf, popsOf_length j]

/-! ### the zipper -/

theorem parent_none {c : Cursor} (h : c.up = []) : parent c = none := by simp [parent, h]

theorem parent_chain {c : Cursor} {q : LPath} {r : List LPath} (h : chainOf c = c.path :: q :: r) :
    ∃ p, parent c = some p ∧ chainOf p = q :: r := by
  simp only [chainOf, List.cons.injEq, true_and] at h
  cases hu : c.up with
  | nil => rw [hu] at h; cases h
  | cons f fs =>
    rw [hu] at h
    simp only [List.map_cons, List.cons.injEq] at h
    refine ⟨{ path := f.path, pos := f.pos, ch := f.before ++ DNode.loop c.path c.pos c.ch :: f.after, up := fs },
      by simp only [parent, hu], ?_⟩
    simp only [chainOf, h.1, h.2]

theorem parent_some {c p : Cursor} (h : parent c = some p) : chainOf c = c.path :: chainOf p := by
  unfold parent at h
  cases hu : c.up with
  | nil => rw [hu] at h; cases h
  | cons f fs =>
    rw [hu] at h
    simp only [Option.some.injEq] at h
    rw [← h]
    simp [chainOf, hu]

theorem chainOf_ne (c : Cursor) : chainOf c ≠ [] := by simp [chainOf]

theorem chainOf_head (c : Cursor) : (chainOf c).head? = some c.path := rfl

theorem chainOf_addLoopNode (c : Cursor) (l : LPath) (n : Nat) : chainOf (addLoopNode c l n) = l :: chainOf c := by
  simp [chainOf, addLoopNode]

/-- popping the innermost open nodes -/
theorem popLoops_take : ∀ (ps : List LPath) (c : Cursor), ps <+: chainOf c → ps.length < (chainOf c).length →
    ∃ c', popLoops (some c) ps = .ok (some c') ∧ chainOf c' = (chainOf c).drop ps.length
  | [], c, _, _ => ⟨c, rfl, rfl⟩
  | l :: r, c, hpre, hlen => by
    obtain ⟨t, ht⟩ := hpre
    have hl : l = c.path := by
      have := congrArg List.head? ht
      simpa [chainOf] using this
    subst hl
    cases r with
    | nil =>
      cases t with
      | nil =>
        rw [← ht] at hlen; simp at hlen
      | cons q t' =>
        obtain ⟨p, hp, hcp⟩ := parent_chain (c := c) (q := q) (r := t') (by rw [← ht]; rfl)
        refine ⟨p, by simp [popLoops, hp], ?_⟩
        rw [hcp, ← ht]; rfl
    | cons q r' =>
      obtain ⟨p, hp, hcp⟩ := parent_chain (c := c) (q := q) (r := r' ++ t) (by rw [← ht]; rfl)
      have hpre' : (q :: r') <+: chainOf p := ⟨t, by rw [hcp]; rfl⟩
      have hlen' : (q :: r').length < (chainOf p).length := by
        rw [hcp]; rw [← ht] at hlen; simp at hlen ⊢; omega
      obtain ⟨c', h1, h2⟩ := popLoops_take (q :: r') p hpre' hlen'
      refine ⟨c', by simp only [popLoops, ↓reduceIte, hp]; exact h1, ?_⟩
      rw [h2, hcp, ← ht]; simp

theorem pushLoops_chain : ∀ (ps : List (LPath × Nat)) (c : Cursor),
    ∃ c', pushLoops (some c) ps = .ok (some c') ∧ chainOf c' = (ps.map (fun p => p.1)).reverse ++ chainOf c
  | [], c => ⟨c, rfl, by simp⟩
  | l :: r, c => by
    obtain ⟨c', h1, h2⟩ := pushLoops_chain r (addLoopNode c l.1 l.2)
    refine ⟨c', by simp only [pushLoops]; exact h1, ?_⟩
    rw [h2, chainOf_addLoopNode]; simp

theorem appendSeg_chain (c : Cursor) (a : Answer) : ∃ c', appendSeg (some c) a = .ok c' ∧ chainOf c' = chainOf c :=
  ⟨_, rfl, rfl⟩

/-- the loop-repeat arm of `_add_segment` raises nothing and leaves the chain of paths as it is -/
theorem repeatArm_chain (c : Cursor) (a : Answer) (h : c.path = a.path) :
    ∃ c', repeatArm c a = .ok c' ∧ chainOf c' = chainOf c := by
  unfold repeatArm
  cases hpar : parent c with
  | none => exact appendSeg_chain c a
  | some p =>
    simp only
    split
    · obtain ⟨c', h1, h2⟩ := appendSeg_chain (addLoopNode p a.path a.ppos) a
      refine ⟨c', h1, ?_⟩
      rw [h2, chainOf_addLoopNode, parent_some hpar, h]
    · exact appendSeg_chain c a

/-- a new tree: `_add_segment(cur_tree, …)` with the fresh root takes the repeat arm -/
theorem start_chain (a : Answer) : ∃ c', addSegment (freshTree a) a = .ok c' ∧ chainOf c' = [a.path] := by
  have hp : (freshTree a).path = a.path := rfl
  obtain ⟨c', h1, h2⟩ := repeatArm_chain (freshTree a) a hp
  refine ⟨c', by simp only [addSegment, hp, ↓reduceIte]; exact h1, ?_⟩
  rw [h2]; rfl

/-! ### the popped nodes are the innermost open ones -/

theorem take_dropLast {α : Type} (l : List α) (k : Nat) (h : k < l.length) : l.dropLast.take k = l.take k := by
  rw [List.dropLast_eq_take, List.take_take]
  congr 1
  omega

/-- under `TInv`-like hypotheses the first `j` open nodes are the loops the walker pops, one more node stays open, and that
    node is the loop the walker arrives at (when it has at least two loops on its path) -/
theorem popsChain (l : LoopId) : ∀ (j : Nat) (C : List LPath) (W : LPath), Linked C → C.head? = some W →
    (∃ T, C.getLast? = some T ∧ T.getLast? = some l) → l ∈ W.take (W.length - j) → W.count l ≤ 1 →
    popsOf W j <+: C ∧ j < C.length ∧ (2 ≤ W.length - j → (C.drop j).head? = some (W.take (W.length - j)))
  | 0, C, W, _, hh, _, _, _ => by
    cases C with
    | nil => cases hh
    | cons p r =>
      refine ⟨⟨_, rfl⟩, by simp, fun _ => ?_⟩
      simpa using hh
  | j + 1, C, W, hl, hh, hroot, hmem, hcnt => by
    cases C with
    | nil => cases hh
    | cons p C' =>
      simp only [List.head?_cons, Option.some.injEq] at hh
      subst hh
      have hlen : j + 2 ≤ p.length := by
        have : p.take (p.length - (j + 1)) ≠ [] := List.ne_nil_of_mem hmem
        have h2 : 0 < p.length - (j + 1) := by
          apply Nat.pos_of_ne_zero
          intro e; rw [e] at this; simp at this
        omega
      have hmemDL : l ∈ p.dropLast := by
        rw [← take_dropLast p (p.length - (j + 1)) (by omega)] at hmem
        exact List.mem_of_mem_take hmem
      cases C' with
      | nil =>
        -- `p` would be the tree root: the requested id is its last loop and occurs before it as well
        exfalso
        obtain ⟨T, hT, hTl⟩ := hroot
        simp only [List.getLast?_singleton, Option.some.injEq] at hT
        subst hT
        have hsplit : p = p.dropLast ++ [l] := by
          have hne : p ≠ [] := by intro e; rw [e] at hlen; simp at hlen
          have := List.dropLast_concat_getLast hne
          rw [List.getLast?_eq_some_getLast hne] at hTl
          simp only [Option.some.injEq] at hTl
          rw [hTl] at this; exact this.symm
        rw [hsplit, List.count_append] at hcnt
        have : 1 ≤ List.count l p.dropLast := List.count_pos_iff.mpr hmemDL
        simp at hcnt
        omega
      | cons q r =>
        have hroot' : ∃ T, (q :: r).getLast? = some T ∧ T.getLast? = some l := by
          obtain ⟨T, hT, hTl⟩ := hroot
          exact ⟨T, by simpa [List.getLast?_cons_cons] using hT, hTl⟩
        by_cases h3 : 3 ≤ p.length
        · have hq : q = p.dropLast := hl.1 h3
          subst hq
          have hdl : p.dropLast.length = p.length - 1 := by simp
          have hmem' : l ∈ p.dropLast.take (p.dropLast.length - j) := by
            rw [hdl, take_dropLast p _ (by omega)]
            have : p.length - 1 - j = p.length - (j + 1) := by omega
            rw [this]; exact hmem
          have hcnt' : List.count l p.dropLast ≤ 1 :=
            Nat.le_trans (List.Sublist.count_le l (List.dropLast_sublist p)) hcnt
          obtain ⟨h1, h2, h4⟩ := popsChain l j (p.dropLast :: r) p.dropLast hl.2 rfl hroot' hmem' hcnt'
          refine ⟨?_, by simp at h2 ⊢; omega, ?_⟩
          · obtain ⟨t, ht⟩ := h1
            exact ⟨t, by simp only [popsOf, List.cons_append, ht]⟩
          · intro h5
            simp only [List.drop_succ_cons]
            have := h4 (by rw [hdl]; omega)
            rw [this, hdl, take_dropLast p _ (by omega)]
            congr 2; omega
        · -- `p` has two loops: only one pop is possible, and nothing is claimed about what lies below
          have hj : j = 0 := by omega
          subst hj
          exact ⟨⟨q :: r, rfl⟩, by simp, fun h5 => by omega⟩

/-! ### one round, the requested loop names segment-anchored loops only -/

theorem inReq_some' {lid : LoopId} {a : Answer} : inReq (some lid) a = true ↔ lid ∈ a.path := by
  simp [inReq, List.contains_eq_mem]

theorem isStart_some' {lid : LoopId} {a : Answer} :
    isStart (some lid) a = true ↔ a.path.getLast? = some lid ∧ a.first = true := by
  simp [isStart]

theorem pushAssert_of_pushIn {l : LoopId} {hp : Bool} {a : Answer} (hpi : PushIn a) (hn : l ∉ a.path) :
    pushAssertFails (some l) hp a = false := by
  simp only [pushAssertFails, Bool.and_eq_false_iff]
  right
  rw [List.contains_eq_mem]
  simp only [decide_eq_false_iff_not, List.mem_map, not_exists, not_and]
  intro p hpm hid
  exact hn (hpi p hpm l hid)

/-- the tree built for a new instance satisfies the invariant -/
theorem tinv_start {l : LoopId} {a : Answer} (hl : a.path.getLast? = some l) (hc : a.path.count l ≤ 1) :
    TInv l [a.path] a.path :=
  ⟨fun _ => rfl, trivial, ⟨a.path, rfl, hl⟩, hc, List.mem_of_getLast? hl⟩

/-- `_add_segment` inside a tree, `Regular` answer -/
theorem addSegment_regular {wrap : LoopId → Prop} {l : LoopId} {c : Cursor} {W : LPath} {a : Answer} {j : Nat}
    {ids : List LoopId} (hinv : TInv l (chainOf c) W) (hr : Regular wrap W a j ids) (hin : l ∈ a.path)
    (hns : isStart (some l) a = false) (hcnt : a.path.count l ≤ 1) (hw : ¬ wrap l) :
    ∃ c', addSegment c a = .ok c' ∧ TInv l (chainOf c') a.path := by
  by_cases hpe : c.path = a.path
  · obtain ⟨c', h1, h2⟩ := repeatArm_chain c a hpe
    refine ⟨c', by simp only [addSegment, hpe, ↓reduceIte]; exact h1, ?_⟩
    rw [h2]
    refine ⟨fun _ => by rw [chainOf_head, hpe], hinv.linked, hinv.root, hcnt, hin⟩
  · -- the requested loop lies above everything popped
    have hbase : l ∈ W.take (W.length - j) := by
      rw [hr.path, List.mem_append] at hin
      rcases hin with h | h
      · exact h
      · exfalso
        have hne : ids ≠ [] := List.ne_nil_of_mem h
        have hlast : ids.getLast? = some l := by
          have hsplit := List.dropLast_concat_getLast hne
          rw [← hsplit, List.mem_append] at h
          rcases h with h | h
          · exact absurd (hr.wrap l h) hw
          · simp only [List.mem_singleton] at h
            rw [List.getLast?_eq_some_getLast hne, h]
        have : isStart (some l) a = true := by
          rw [isStart_some']
          refine ⟨?_, hr.first hne⟩
          rw [hr.path, getLast?_append_ne _ hne]; exact hlast
        rw [this] at hns; cases hns
    have hW2 : j ≠ 0 → 2 ≤ W.length := by
      intro hj
      have : W.take (W.length - j) ≠ [] := List.ne_nil_of_mem hbase
      have h2 : 0 < W.length - j := by
        apply Nat.pos_of_ne_zero
        intro e; rw [e] at this; simp at this
      omega
    -- the pops
    have hpops : ∃ c1, popLoops (some c) a.pops = .ok (some c1) ∧ chainOf c1 = (chainOf c).drop j ∧
        (2 ≤ W.length - j → (chainOf c1).head? = some (W.take (W.length - j))) := by
      rw [hr.pops]
      by_cases hj : j = 0
      · subst hj
        refine ⟨c, rfl, rfl, fun h2 => ?_⟩
        simp only [Nat.sub_zero, List.take_length] at h2 ⊢
        exact hinv.head h2
      · obtain ⟨h1, h2, h3⟩ := popsChain l j (chainOf c) W hinv.linked (hinv.head (hW2 hj)) hinv.root hbase hinv.cnt
        have hlenp : (popsOf W j).length = j := popsOf_length j W
        obtain ⟨c1, hc1, hch⟩ := popLoops_take (popsOf W j) c h1 (by rw [hlenp]; exact h2)
        rw [hlenp] at hch
        exact ⟨c1, hc1, hch, fun h5 => by rw [hch]; exact h3 h5⟩
    obtain ⟨c1, hp1, hch1, hhead1⟩ := hpops
    obtain ⟨c2, hp2, hch2⟩ := pushLoops_chain a.pushes c1
    obtain ⟨c3, hp3, hch3⟩ := appendSeg_chain c2 a
    refine ⟨c3, by simp only [addSegment, hpe, ↓reduceIte, replay, hp1, hp2]; exact hp3, ?_⟩
    rw [hch3, hch2, hr.pushes]
    have hbl : (W.take (W.length - j)).length = W.length - j := by simp
    refine ⟨?_, ?_, ?_, hcnt, hin⟩
    · intro h2
      by_cases hids : ids = []
      · subst hids
        simp only [pushesOf, List.reverse_nil, List.nil_append]
        rw [hr.path, List.append_nil] at h2 ⊢
        exact hhead1 (by rw [hbl] at h2; exact h2)
      · have hl := pushesOf_getLast ids (W.take (W.length - j)) hids
        rw [← hr.path] at hl
        have hne : (pushesOf (W.take (W.length - j)) ids).reverse ≠ [] := by
          intro e
          have := congrArg List.length e
          simp [pushesOf_length] at this
          exact hids this
        rw [head?_append_ne _ hne, List.head?_reverse]
        exact hl
    · apply linked_pushes ids _ _ (by rw [hch1]; exact linked_drop j hinv.linked)
      intro h2
      left
      exact hhead1 (by rw [hbl] at h2; exact h2)
    · have hne : chainOf c1 ≠ [] := chainOf_ne c1
      rw [getLast?_append_ne _ hne, hch1]
      obtain ⟨T, hT, hTl⟩ := hinv.root
      refine ⟨T, ?_, hTl⟩
      have hne' : (chainOf c).drop j ≠ [] := by rw [← hch1]; exact hne
      obtain ⟨t, ht⟩ : ∃ t, chainOf c = (chainOf c).take j ++ (chainOf c).drop j := ⟨(), (List.take_append_drop j _).symm⟩
      rw [ht, getLast?_append_ne _ hne'] at hT
      exact hT

/-- `_add_segment` inside a tree at a GS -/
theorem addSegment_gs {l : LoopId} {c : Cursor} {W : LPath} {a : Answer}
    (hinv : TInv l (chainOf c) W) (hg : GsLike W a) (hin : l ∈ a.path)
    (hns : isStart (some l) a = false) (hcnt : a.path.count l ≤ 1) :
    ∃ c', addSegment c a = .ok c' ∧ TInv l (chainOf c') a.path := by
  by_cases hpe : c.path = a.path
  · obtain ⟨c', h1, h2⟩ := repeatArm_chain c a hpe
    refine ⟨c', by simp only [addSegment, hpe, ↓reduceIte]; exact h1, ?_⟩
    rw [h2]
    exact ⟨fun _ => by rw [chainOf_head, hpe], hinv.linked, hinv.root, hcnt, hin⟩
  · obtain ⟨x, y, hpath, hfirst, hpu, hpo⟩ := hg
    -- the requested loop is the outer one
    have hly : l ≠ y := by
      intro e
      have : isStart (some l) a = true := by
        rw [isStart_some']; exact ⟨by rw [hpath, e]; rfl, hfirst⟩
      rw [this] at hns; cases hns
    have hpops : ∃ c1, popLoops (some c) a.pops = .ok (some c1) ∧ Linked (chainOf c1) ∧
        (∃ T, (chainOf c1).getLast? = some T ∧ T.getLast? = some l) := by
      rcases hpo with h0 | ⟨h1, hWl⟩
      · rw [h0]; exact ⟨c, rfl, hinv.linked, hinv.root⟩
      · rw [h1]
        have hW2 : 2 ≤ W.length := by
          cases W with
          | nil => simp at hWl
          | cons w0 wr =>
            cases wr with
            | nil =>
              exfalso
              simp only [List.getLast?_singleton, Option.some.injEq] at hWl
              have := hinv.mem
              simp only [List.mem_singleton] at this
              exact hly (this.trans hWl)
            | cons w1 wr' => simp
        have hhead := hinv.head hW2
        -- `W` is not the tree root: its last loop is not the requested one
        have hlen : 1 < (chainOf c).length := by
          cases hcc : chainOf c with
          | nil => exact absurd hcc (chainOf_ne c)
          | cons p r =>
            cases r with
            | nil =>
              exfalso
              rw [hcc] at hhead
              simp only [List.head?_cons, Option.some.injEq] at hhead
              obtain ⟨T, hT, hTl⟩ := hinv.root
              rw [hcc] at hT
              simp only [List.getLast?_singleton, Option.some.injEq] at hT
              rw [← hT, hhead, hWl] at hTl
              simp only [Option.some.injEq] at hTl
              exact hly hTl.symm
            | cons q r' => simp
        have hpre : [W] <+: chainOf c := by
          cases hcc : chainOf c with
          | nil => exact absurd hcc (chainOf_ne c)
          | cons p r =>
            rw [hcc] at hhead
            simp only [List.head?_cons, Option.some.injEq] at hhead
            exact ⟨r, by rw [hhead]; rfl⟩
        obtain ⟨c1, hc1, hch⟩ := popLoops_take [W] c hpre (by simpa using hlen)
        refine ⟨c1, hc1, by rw [hch]; exact linked_drop 1 hinv.linked, ?_⟩
        obtain ⟨T, hT, hTl⟩ := hinv.root
        refine ⟨T, ?_, hTl⟩
        rw [hch]
        have hne' : (chainOf c).drop 1 ≠ [] := by
          intro e
          have := congrArg List.length e
          simp at this; omega
        have ht : chainOf c = (chainOf c).take 1 ++ (chainOf c).drop 1 := (List.take_append_drop 1 _).symm
        rw [ht, getLast?_append_ne _ hne'] at hT
        exact hT
    obtain ⟨c1, hp1, hl1, hroot1⟩ := hpops
    obtain ⟨c2, hp2, hch2⟩ := pushLoops_chain a.pushes c1
    obtain ⟨c3, hp3, hch3⟩ := appendSeg_chain c2 a
    refine ⟨c3, by simp only [addSegment, hpe, ↓reduceIte, replay, hp1, hp2]; exact hp3, ?_⟩
    rw [hch3, hch2, hpu]
    simp only [List.reverse_cons, List.reverse_nil, List.nil_append, List.singleton_append]
    refine ⟨fun _ => by rw [hpath]; rfl, ?_, ?_, hcnt, hin⟩
    · apply linked_cons hl1
      intro h3; simp at h3
    · obtain ⟨T, hT, hTl⟩ := hroot1
      refine ⟨T, ?_, hTl⟩
      have := getLast?_append_ne [[x, y]] (chainOf_ne c1)
      simp only [List.singleton_append] at this
      rw [this]; exact hT

/-- **one round, mode A.**  Hypotheses: the answer has one of the three shapes relative to the loop `W` of the previous
    map node; a tree under construction satisfies `TInv`; the requested id occurs at most once on the new path and names no
    wrapper.  Then the round can raise only `plainNodeAsLoop`, `noCurrentNode` or the `has no parent` assertion, and a tree
    under construction afterwards satisfies `TInv` for the new path. -/
theorem treeStep_modeA {wrap : LoopId → Prop} (lid : Option LoopId) (cur : Option Cursor) (hp : Bool) (r : Doc.CtxRound)
    (W : LPath) (hsh : AnsShape wrap W r.ans)
    (hinv : ∀ c, cur = some c → ∃ l, lid = some l ∧ TInv l (chainOf c) W)
    (hcnt : ∀ l, lid = some l → r.ans.path.count l ≤ 1) (hwrap : ∀ l, lid = some l → cur ≠ none → ¬ wrap l) :
    (∀ site, (Doc.treeStep lid cur hp r).2 = .crash site →
      site = .reader .plainNodeAsLoop ∨ site = .reader .noCurrentNode ∨ site = .noParent) ∧
    (∀ cur' c', (Doc.treeStep lid cur hp r).2 = .ok cur' → cur' = some c' →
      inReq lid r.ans = true ∧ ∃ l, lid = some l ∧ TInv l (chainOf c') r.ans.path) := by
  unfold Doc.treeStep
  cases hin : inReq lid r.ans with
  | true =>
    cases lid with
    | none => simp [inReq] at hin
    | some l =>
      have hmem : l ∈ r.ans.path := inReq_some'.mp hin
      simp only [if_true]
      cases hst : isStart (some l) r.ans with
      | true =>
        simp only [if_true]
        obtain ⟨c', h1, h2⟩ := start_chain r.ans
        rw [h1]
        refine ⟨fun site h => (by cases h), fun cur' c'' h hc => ?_⟩
        simp only [Doc.TRes.ok.injEq] at h
        rw [← h] at hc
        simp only [Option.some.injEq] at hc
        subst hc
        rw [h2]
        exact ⟨trivial, l, rfl, tinv_start (isStart_some'.mp hst).1 (hcnt l rfl)⟩
      | false =>
        simp only [Bool.false_eq_true, if_false]
        cases cur with
        | none =>
          refine ⟨fun site h => ?_, fun cur' c'' h _ => (by cases h)⟩
          simp only [Doc.TRes.crash.injEq] at h
          rw [← h]
          cases hp <;> simp
        | some c =>
          obtain ⟨l', hl', hti⟩ := hinv c rfl
          simp only [Option.some.injEq] at hl'
          subst hl'
          have key : ∃ c', addSegment c r.ans = .ok c' ∧ TInv l (chainOf c') r.ans.path := by
            cases hsh with
            | reg j ids hr => exact addSegment_regular hti hr hmem hst (hcnt l rfl) (hwrap l rfl (by simp))
            | gs hg => exact addSegment_gs hti hg hmem hst (hcnt l rfl)
            | isa hi =>
              exfalso
              obtain ⟨x, hpath, hfirst, _, _⟩ := hi
              have : isStart (some l) r.ans = true := by
                rw [isStart_some']
                rw [hpath] at hmem ⊢
                simp only [List.mem_singleton] at hmem
                exact ⟨by rw [hmem]; rfl, hfirst⟩
              rw [this] at hst; cases hst
          obtain ⟨c', h1, h2⟩ := key
          simp only [h1]
          refine ⟨fun site h => (by cases h), fun cur' c'' h hc => ?_⟩
          simp only [Doc.TRes.ok.injEq] at h
          rw [← h] at hc
          simp only [Option.some.injEq] at hc
          subst hc
          exact ⟨trivial, l, rfl, h2⟩
  | false =>
    simp only [Bool.false_eq_true, if_false]
    have hpa : pushAssertFails lid hp r.ans = false := by
      cases lid with
      | none => rfl
      | some l =>
        apply pushAssert_of_pushIn (ansShape_pushIn hsh)
        intro hm
        rw [inReq_some'.mpr hm] at hin; cases hin
    simp only [hpa, Bool.false_eq_true, if_false]
    split
    · exact ⟨fun site h => (by simp only [Doc.TRes.crash.injEq] at h; exact Or.inr (Or.inr h.symm)),
        fun cur' c'' h _ => (by cases h)⟩
    · exact ⟨fun site h => (by cases h), fun cur' c'' h hc => (by
        simp only [Doc.TRes.ok.injEq] at h; rw [← h] at hc; cases hc)⟩

/-- **one round, mode B**: the requested id never starts a tree, so none exists -/
theorem treeStep_modeB (lid : Option LoopId) (hp : Bool) (r : Doc.CtxRound)
    (hns : isStart lid r.ans = false) (hpi : PushIn r.ans) :
    (∀ site, (Doc.treeStep lid none hp r).2 = .crash site →
      site = .reader .plainNodeAsLoop ∨ site = .reader .noCurrentNode ∨ site = .noParent) ∧
    (∀ cur', (Doc.treeStep lid none hp r).2 = .ok cur' → cur' = none) := by
  unfold Doc.treeStep
  cases hin : inReq lid r.ans with
  | true =>
    simp only [if_true, hns, Bool.false_eq_true, if_false]
    refine ⟨fun site h => ?_, fun cur' h => (by cases h)⟩
    simp only [Doc.TRes.crash.injEq] at h
    rw [← h]
    cases hp <;> simp
  | false =>
    simp only [Bool.false_eq_true, if_false]
    have hpa : pushAssertFails lid hp r.ans = false := by
      cases lid with
      | none => rfl
      | some l =>
        apply pushAssert_of_pushIn hpi
        intro hm
        rw [inReq_some'.mpr hm] at hin; cases hin
    simp only [hpa, Bool.false_eq_true, if_false]
    split
    · exact ⟨fun site h => (by simp only [Doc.TRes.crash.injEq] at h; exact Or.inr (Or.inr h.symm)),
        fun cur' h => (by cases h)⟩
    · exact ⟨fun site h => (by cases h), fun cur' h => (by simp only [Doc.TRes.ok.injEq] at h; exact h.symm)⟩

end Pyx12Verif.Ctx
