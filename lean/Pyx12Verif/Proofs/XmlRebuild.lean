/- C08 helper lemmas: the sequence of `Segment.set` calls `get_segment` makes for the items of one `seg` element builds
   the expected segment (`applyItems_spec`). -/
import Pyx12Verif.Proofs.XmlSet
import Pyx12Verif.Model.XmlIn

namespace Pyx12Verif.Xml
open Pyx12Verif.Path Pyx12Verif.Segment

/-- what one `seg` element carries: simple values, and composites with all their sub-element values -/
inductive Item
  | ele (xid v : Str)
  | comp (subs : List (Str × Str))

def itemOf : ChildDef → Comp → List Item
  | .elem _ xid nu, e =>
    if nu || compIsEmpty e then []
    else
      (match e.subs with
       | [v] => [.ele xid v]
       | _ => [])
  | .comp _ nu ids, e => if nu || compIsEmpty e then [] else [.comp (List.zip ids e.subs)]

def itemsOf : List ChildDef → List Comp → List Item
  | [], _ => []
  | _ :: _, [] => []
  | c :: cs, e :: es => itemOf c e ++ itemsOf cs es

def applySubs (s : SegObj) : List (Str × Str) → Except XErr SegObj
  | [] => .ok s
  | (xid, v) :: r =>
    match setSubele s (some xid) (textOf v) with
    | .error e => .error e
    | .ok s' => applySubs s' r

def applyItem (s : SegObj) : Item → Except XErr SegObj
  | .ele xid v => setEle s (some xid) (textOf v)
  | .comp subs => applySubs s subs

theorem setSubele_empty (s : SegObj) (x v : Str) (h : v.isEmpty = true) : setSubele s (some x) (textOf v) = .ok s := by
  simp [textOf, h, setSubele]

theorem setSubele_full (s : SegObj) (x v : Str) (h : v.isEmpty = false) :
    setSubele s (some x) (textOf v) = liftSeg (Segment.set s x v) := by
  simp [textOf, h, setSubele]

theorem setEle_full (s : SegObj) (x v : Str) (h : v.isEmpty = false) :
    setEle s (some x) (textOf v) = liftSeg (Segment.set s x v) := by
  simp [textOf, h, setEle]

def applyItems (s : SegObj) : List Item → Except XErr SegObj
  | [] => .ok s
  | it :: r =>
    match applyItem s it with
    | .error e => .error e
    | .ok s' => applyItems s' r

theorem applyItems_append (s : SegObj) (a b : List Item) :
    applyItems s (a ++ b) = (match applyItems s a with | .error e => .error e | .ok s' => applyItems s' b) := by
  induction a generalizing s with
  | nil => rfl
  | cons it r ih =>
    simp only [List.cons_append, applyItems]
    cases applyItem s it with
    | error e => rfl
    | ok s' => exact ih s'

theorem isCharPrefix_eq : ∀ (p x : Str), isCharPrefix p x = true → x = p ++ x.drop p.length
  | [], _, _ => rfl
  | _ :: _, [], h => by simp [isCharPrefix] at h
  | a :: p, b :: x, h => by
    simp only [isCharPrefix, Bool.and_eq_true, beq_iff_eq] at h
    obtain ⟨rfl, h2⟩ := h
    have := isCharPrefix_eq p x h2
    simp only [List.length_cons, List.drop_succ_cons, List.cons_append]
    rw [← this]

theorem isNumSuffix_elim (pre : Str) (k : Nat) (xid : Str) (h : isNumSuffix pre k xid = true) :
    ∃ ds, xid = pre ++ ds ∧ ds ≠ [] ∧ (∀ c ∈ ds, isDigit c = true) ∧ num ds = k := by
  simp only [isNumSuffix, Bool.and_eq_true, Bool.not_eq_true', List.isEmpty_eq_false_iff, List.all_eq_true, beq_iff_eq] at h
  obtain ⟨⟨⟨h1, h2⟩, h3⟩, h4⟩ := h
  exact ⟨xid.drop pre.length, isCharPrefix_eq pre xid h1, h2, h3, h4⟩

def strEmpty : Str → Bool := fun v => v.isEmpty

theorem str_canon : ∀ (xs : List Str), ∀ x ∈ xs, strEmpty x = true → x = [] := by
  intro xs x _ h; simpa [strEmpty] using h

theorem trimGen_ne_nil {α : Type} (isE : α → Bool) : ∀ (xs : List α), xs.all isE = false → trimGen isE xs ≠ []
  | [], h => by simp at h
  | x :: r, h => by
    simp only [trimGen]
    split
    · rename_i hc
      simp only [Bool.and_eq_true, List.isEmpty_iff] at hc
      simp only [List.all_cons, Bool.and_eq_false_iff] at h
      rcases h with h | h
      · simp [hc.2] at h
      · exact absurd hc.1 (trimGen_ne_nil isE r h)
    · simp

theorem allEmpty_trimGen (vs : List Str) (h : allEmpty vs = false) : allEmpty (trimGen strEmpty vs) = false := by
  cases ha : allEmpty (trimGen strEmpty vs) with
  | false => rfl
  | true =>
    exfalso
    have hd := trimGen_decomp strEmpty [] vs (str_canon vs)
    rw [hd] at h
    simp only [allEmpty, List.all_append, Bool.and_eq_false_iff] at h ha
    rcases h with h | h
    · simp [ha] at h
    · simp at h

/-! ### the sub-elements of one composite -/

section comp
variable (sid : Str) (hs : segIdOK sid = true) (es : List Comp) (i : Nat) (hi : i < 99) (hL : es.length ≤ i)
  (hni : (isISA sid && i == 15) = false)

/-- the element list while a composite at position `i` is being filled: untouched as long as no value was set -/
def stateOf (es : List Comp) (i : Nat) (cs : List Str) : List Comp :=
  if cs.isEmpty then es else es ++ List.replicate (i - es.length) blankC ++ [⟨':', cs⟩]

include hs hi hL hni in
theorem set_sub_step (cs : List Str) (ds : List Char) (hne : ds ≠ []) (hd : ∀ c ∈ ds, isDigit c = true) (j : Nat)
    (hj : num ds = j + 1) (hcj : cs.length ≤ j) (v : Str) :
    Segment.set (rb sid (stateOf es i cs)) (sid ++ pad2 (i + 1) ++ '-' :: ds) v
      = .ok (rb sid (stateOf es i (padSet [] cs j v))) := by
  have hne' : (padSet [] cs j v).isEmpty = false := by simp [padSet]
  by_cases hc : cs.isEmpty = true
  · have : cs = [] := by simpa using hc
    subst this
    simp only [stateOf, List.isEmpty_nil, if_true, hne', Bool.false_eq_true, if_false]
    rw [set_sub_new sid hs es i hi hL hni ds hne hd j hj v]
    rfl
  · simp only [stateOf, hc, if_false, hne', Bool.false_eq_true]
    have := set_sub_more sid hs (es ++ List.replicate (i - es.length) blankC) ⟨':', cs⟩ i hi (by simp; omega) hni ds hne hd j hj hcj v
    rw [this]

include hs hi hL hni in
theorem applySubs_spec : ∀ (vs ids : List Str) (j : Nat), subIdsOK (sid ++ pad2 (i + 1) ++ ['-']) j ids = true →
    vs.length ≤ ids.length → ∀ (done : List Str), done.length = j →
    applySubs (rb sid (stateOf es i (trimGen strEmpty done))) (List.zip ids vs)
      = .ok (rb sid (stateOf es i (trimGen strEmpty (done ++ vs))))
  | [], ids, j, _, _, done, _ => by simp [applySubs]
  | v :: vs, [], j, _, hl, done, _ => by simp at hl
  | v :: vs, xid :: ids, j, hids, hl, done, hdone => by
    simp only [subIdsOK, Bool.and_eq_true] at hids
    have ih := applySubs_spec vs ids (j + 1) hids.2 (by simpa using hl) (done ++ [v]) (by simp [hdone])
    simp only [List.append_assoc, List.singleton_append] at ih
    simp only [List.zip_cons_cons, applySubs]
    by_cases hv : v.isEmpty = true
    · simp only [setSubele_empty _ _ _ hv]
      rw [trimGen_snoc_empty strEmpty v hv done] at ih
      exact ih
    · have hvf : v.isEmpty = false := by simpa using hv
      simp only [setSubele_full _ _ _ hvf]
      obtain ⟨ds, hx, hne, hd, hnum⟩ := isNumSuffix_elim _ _ _ hids.1
      have hx' : xid = sid ++ pad2 (i + 1) ++ '-' :: ds := by simp [hx]
      have hv' : strEmpty v = false := by simpa [strEmpty] using hv
      have hlen : (trimGen strEmpty done).length ≤ j := by
        have := trimGen_length_le strEmpty done; omega
      rw [hx', set_sub_step sid hs es i hi hL hni _ ds hne hd j hnum hlen v]
      simp only [liftSeg]
      have hp := padSet_trim strEmpty [] done (str_canon done) v hv'
      rw [hdone] at hp
      rw [hp.1, ← hp.2]
      exact ih
end comp

/-! ### one element, all elements -/

/-- empty elements of the expected list are the one-empty-string element -/
def canonE (E : List (List Str)) : Prop := ∀ x ∈ E, allEmpty x = true → x = [[]]

theorem canonE_snoc (E : List (List Str)) (x : List Str) (h : canonE E) (hx : allEmpty x = true → x = [[]]) : canonE (E ++ [x]) := by
  intro y hy
  simp only [List.mem_append, List.mem_singleton] at hy
  rcases hy with hy | rfl
  · exact h y hy
  · exact hx

theorem item_step (sid : Str) (hs : segIdOK sid = true) (i : Nat) (hi : i < 99) (c : ChildDef) (e : Comp)
    (hid : childIdOK sid i c = true) (hfit : childFits (isISA sid) i c e = true)
    (E : List (List Str)) (hE : E.length = i) (hcan : canonE E) (acc : List Comp) (hacc : acc.map Comp.subs = trimElems E) :
    ∃ acc1, applyItems (rb sid acc) (itemOf c e) = .ok (rb sid acc1) ∧
      acc1.map Comp.subs = trimElems (E ++ [expectedElem (some c) e.subs]) ∧ canonE (E ++ [expectedElem (some c) e.subs]) := by
  have hLacc : acc.length ≤ i := by
    have h1 : acc.length = (trimElems E).length := by rw [← hacc]; simp
    have h2 := trimGen_length_le allEmpty E
    rw [← trimElems_eq] at h2
    omega
  have hblank : allEmpty [([] : Str)] = true := by decide
  cases c with
  | elem seq xid nu =>
    by_cases hskip : (nu || compIsEmpty e) = true
    · have hx : expectedElem (some (ChildDef.elem seq xid nu)) e.subs = [[]] := by
        have : (nu || allEmpty e.subs) = true := hskip
        simp [expectedElem, ChildDef.notUsed, this]
      refine ⟨acc, by simp [itemOf, hskip, applyItems], ?_, ?_⟩
      · rw [hx, trimElems_eq, trimGen_snoc_empty allEmpty _ hblank, ← trimElems_eq, hacc]
      · rw [hx]; exact canonE_snoc E _ hcan (fun _ => rfl)
    · have hnu : nu = false := by cases nu <;> simp_all
      have hne : compIsEmpty e = false := by cases h : compIsEmpty e <;> simp_all
      subst hnu
      simp only [childFits, Bool.false_or] at hfit
      split at hfit
      · rename_i v hv
        have hvne : v.isEmpty = false := by simpa [compIsEmpty, hv] using hne
        have hxid : xid = sid ++ pad2 (i + 1) := by
          simp only [childIdOK, Bool.and_eq_true, beq_iff_eq] at hid; exact hid.2
        obtain ⟨c', hc', hset⟩ := set_ele sid hs acc i hi hLacc v hfit
        have hae : allEmpty [v] = false := by simp [allEmpty, hvne]
        have hx : expectedElem (some (ChildDef.elem seq xid false)) e.subs = [v] := by
          have : allEmpty e.subs = false := hne
          simp [expectedElem, ChildDef.notUsed, hv, trimSubs, allEmpty]
        have hp := padSet_trim allEmpty [[]] E hcan [v] hae
        rw [hE] at hp
        refine ⟨padSet blankC acc i c', ?_, ?_, ?_⟩
        · simp [itemOf, hne, hv, applyItems, applyItem, setEle_full _ _ _ hvne, hxid, hset, liftSeg]
        · rw [hx, padSet_map, hacc, hc', trimElems_eq E, trimElems_eq (E ++ [[v]]), hp.2]
          exact hp.1
        · rw [hx]; exact canonE_snoc E _ hcan (fun h => by simp [hae] at h)
      · simp at hfit
  | comp seq nu ids =>
    by_cases hskip : (nu || compIsEmpty e) = true
    · have hx : expectedElem (some (ChildDef.comp seq nu ids)) e.subs = [[]] := by
        have : (nu || allEmpty e.subs) = true := hskip
        simp [expectedElem, ChildDef.notUsed, this]
      refine ⟨acc, by simp [itemOf, hskip, applyItems], ?_, ?_⟩
      · rw [hx, trimElems_eq, trimGen_snoc_empty allEmpty _ hblank, ← trimElems_eq, hacc]
      · rw [hx]; exact canonE_snoc E _ hcan (fun _ => rfl)
    · have hnu : nu = false := by cases nu <;> simp_all
      have hne : compIsEmpty e = false := by cases h : compIsEmpty e <;> simp_all
      subst hnu
      simp only [childFits, Bool.false_or, Bool.and_eq_true, Bool.not_eq_true', decide_eq_true_eq] at hfit
      obtain ⟨⟨hni, _⟩, hlen⟩ := hfit
      have hids : subIdsOK (sid ++ pad2 (i + 1) ++ ['-']) 0 ids = true := by
        simp only [childIdOK, Bool.and_eq_true] at hid; exact hid.2
      have hae0 : allEmpty e.subs = false := hne
      have hae := allEmpty_trimGen e.subs hae0
      have hsp := applySubs_spec sid hs acc i hi hLacc hni e.subs ids 0 hids hlen [] rfl
      have hnn : (trimGen strEmpty e.subs).isEmpty = false := by
        have := trimGen_ne_nil strEmpty e.subs hae0
        cases h : trimGen strEmpty e.subs <;> simp_all
      simp only [trimGen, stateOf, List.isEmpty_nil, if_true, List.nil_append, hnn, Bool.false_eq_true, if_false] at hsp
      have hx : expectedElem (some (ChildDef.comp seq false ids)) e.subs = trimGen strEmpty e.subs := by
        simp only [expectedElem, ChildDef.notUsed, Bool.false_or, hae0, Bool.false_eq_true, if_false]
        exact trimSubs_eq e.subs hae0
      have hp := padSet_trim allEmpty [[]] E hcan (trimGen strEmpty e.subs) hae
      rw [hE] at hp
      refine ⟨acc ++ List.replicate (i - acc.length) blankC ++ [⟨':', trimGen strEmpty e.subs⟩], ?_, ?_, ?_⟩
      · simp [itemOf, hne, applyItems, applyItem, hsp]
      · rw [hx, trimElems_eq, hp.2, ← hp.1, ← trimElems_eq, ← hacc]
        simp [padSet, blankC]
      · rw [hx]; exact canonE_snoc E _ hcan (fun h => by simp [hae] at h)

/-- **the set calls of one `seg` element build the expected elements** -/
theorem applyItems_spec (sid : Str) (hs : segIdOK sid = true) : ∀ (cs : List ChildDef) (es : List Comp) (i : Nat),
    childrenIdsOK sid i cs = true → fitsFrom (isISA sid) i cs es = true → i + cs.length ≤ 99 →
    ∀ (E : List (List Str)), E.length = i → canonE E → ∀ (acc : List Comp), acc.map Comp.subs = trimElems E →
    ∃ acc', applyItems (rb sid acc) (itemsOf cs es) = .ok (rb sid acc') ∧
      acc'.map Comp.subs = trimElems (E ++ expectedElems cs (es.map Comp.subs))
  | [], [], i, _, _, _, E, _, _, acc, hacc => ⟨acc, rfl, by simpa [expectedElems] using hacc⟩
  | [], _ :: _, i, _, hf, _, _, _, _, _, _ => by simp [fitsFrom] at hf
  | c :: cs, [], i, _, _, _, E, _, _, acc, hacc => ⟨acc, rfl, by simpa [expectedElems] using hacc⟩
  | c :: cs, e :: es, i, hid, hf, hlen, E, hE, hcan, acc, hacc => by
    simp only [childrenIdsOK, Bool.and_eq_true] at hid
    simp only [fitsFrom, Bool.and_eq_true] at hf
    simp only [List.length_cons] at hlen
    obtain ⟨acc1, h1, h2, h3⟩ := item_step sid hs i (by omega) c e hid.1 hf.1 E hE hcan acc hacc
    obtain ⟨acc', h4, h5⟩ := applyItems_spec sid hs cs es (i + 1) hid.2 hf.2 (by omega) _ (by simp [hE]) h3 acc1 h2
    refine ⟨acc', ?_, ?_⟩
    · simp only [itemsOf, applyItems_append, h1, h4]
    · simpa [expectedElems] using h5

end Pyx12Verif.Xml
