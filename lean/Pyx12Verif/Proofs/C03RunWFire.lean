/-
C03 run level, missing mandatory segment: the step that reports the hole.

`fire_seg`: the next segment instantiates a later segment child of the hole's loop instance or of an enclosing one;
`fire_loop`: it opens a first instance of a later first-seg loop child there.  Both answer with the intended node, count
as usual and report exactly `mandatoryMissing` at the hole.  `post_segH` / `post_loopH`: the invariant afterwards.
-/
import Pyx12Verif.Proofs.C03RunWHole

namespace Pyx12Verif.WalkerGenW
open Pyx12Verif.MapSkel Pyx12Verif.Walker Pyx12Verif.WalkerGen

/-- `_goto_seg_match` on a loop whose first segment matches, with entries pending: all of them are reported -/
theorem gotoSegMatch_first_pend {K : Consts} {s : SegData} {lid p u r : Nat} {w : Bool} {first : Node} {rest : List Node}
    (ip : List Nat) (key : PathKey) (st : WState) (hseg : first.isSeg = true) (hm : isMatch K first s = true)
    (hu : u ≠ 2) (hr : r = 0 ∨ st.cnt.get key < r) :
    gotoSegMatch K s ip key st (.loop lid p u r w (first :: rest)) =
      (some (ip ++ [0], [ip]),
        { cnt := enterCnt st.cnt key first.comp, pending := [],
          errs := st.errs ++ st.pending.map (fun p => (ErrKind.mandatoryMissing, p.ip)) }) := by
  have hex : exceeds (((st.cnt.resetTo key).incr key).get key) r = false := by
    rw [get_incr_same, get_resetTo_self]
    exact exceeds_false_of_le (by omega)
  have hu' : (u == 2) = false := by simpa using hu
  have hall : ∀ l : List Pending, l.filter (fun p => some p.pos != none) = l := by
    intro l; apply List.filter_eq_self.mpr; intro a _; simp
  simp only [gotoSegMatch, hseg, hm, Bool.and_self, ↓reduceIte, checkLoopUsage, hu', Bool.false_eq_true, hex]
  simp [flush, enterCnt, hall]

/-- a plain segment child matched with one foreign entry pending at another position: the entry is reported -/
theorem segMatched_pend (lip : List Nat) (lkey : PathKey) (nid : NodeId) (c : Node) (i : Nat) (pops : List (List Nat))
    (cnt : Counter) (p0 : Pending) (hu : c.usage ≠ 2) (hrep : c.rep = 0 ∨ cnt.get (lkey ++ [c.comp]) < c.rep)
    (hnid : p0.nid ≠ (c.ident, nid.1)) (hpos : p0.pos ≠ c.pos) :
    scanChildren.scanSegMatched lip lkey nid c i pops { cnt := cnt, pending := [p0], errs := [] } =
      .found { node := some (lip ++ [i]), pops := pops, pushes := [],
               st := { cnt := cnt.incr (lkey ++ [c.comp]), pending := [], errs := [(ErrKind.mandatoryMissing, p0.ip)] } } := by
  have hex : exceeds ((cnt.incr (lkey ++ [c.comp])).get (lkey ++ [c.comp])) c.rep = false := by
    rw [get_incr_same]; exact exceeds_false_of_le (by omega)
  have hu' : (c.usage == 2) = false := by simpa using hu
  simp [scanChildren.scanSegMatched, hu', hex, flush, hnid, hpos]

set_option linter.unusedSectionVars false
section
variable {K : Consts} {root : List Node} (rootId : Nat) (h : MapOK K root) {s : SegData} {cnt : Counter} {cur : List Nat}
  {q0 : List Nat} {i0 j0 : Nat} {ch0 : List Node} {c0 : Node} {q : List Nat} {i j : Nat}
include h

/-- what the cursor with the hole gives the walk for a target entered through key `t` that lies after every deeper
    level: the hole does not match, every other child on the way is passed -/
theorem hole_passes (hinv : Inv root cnt cur) (H : Hole root cur q0 i0 j0 ch0 c0)
    (R : ReadyAtH root cnt cur q0 j0 q i j) {ch : List Node} (hch : chAt root q = some ch) {c : Node}
    (hc : ch[j]? = some c) {t : SKey} (hte : t ∈ entry K c) (ht : hits s t)
    (hlater : ∀ p' i', q <+: p' → p' ≠ q → p' ++ [i'] <+: cur → t ∈ (laterFrom K [] [] root p').1) :
    isMatch K c0 s = false ∧
    (∀ p' i' ch' (jc : Nat) (c' : Node), q <+: p' → p' ≠ q → p' ++ [i'] <+: cur → chAt root p' = some ch' →
      ch'[jc]? = some c' → p' ++ [jc] ≠ q0 ++ [j0] → Passes K s cnt (keyAt root p') (posAt root (p' ++ [i'])) c') ∧
    (∀ (j' : Nat) (c' : Node), j' < j → ch[j']? = some c' → q ++ [j'] ≠ q0 ++ [j0] →
      Passes K s cnt (keyAt root q) (posAt root (q ++ [i])) c') := by
  have hdeeper : ∀ {p' : List Nat} {i' : Nat}, q <+: p' → p' ≠ q → p' ++ [i'] <+: cur → q ++ [i] <+: p' := by
    intro p' i' h1 h2 h3
    have hp'cur : p' <+: cur := List.IsPrefix.trans (List.prefix_append _ _) h3
    have hlen1 := List.IsPrefix.length_le h1
    have hlenne : q.length ≠ p'.length := fun e => h2 (prefix_eq_of_length h1 e).symm
    exact prefix_of_longer R.on hp'cur (by simp; omega)
  refine ⟨?_, ?_, ?_⟩
  · apply isMatch_false_of_noHit
    rw [← entry_seg_eq K c0 H.seg]
    by_cases hq : q = q0
    · subst hq
      rw [H.ch] at hch; simp only [Option.some.injEq] at hch; subst hch
      have := R.past rfl
      exact sib_noHit (uAt_chAt (uAt_root h.un) H.ch).sib H.get hc (by omega) hte ht
    · exact follow_noHit h H.ch H.get (hlater q0 i0 R.above (fun e => hq e.symm) H.path) ht
  · intro p' i' ch' jc c' h1 h2 h3 hch' hjc hne
    rcases R.child h hinv H (hdeeper h1 h2 h3) h3 hch' hjc hne with hs | hp
    · right; exact ⟨follow_noHit h hch' hjc (hlater p' i' h1 h2 h3) ht, hs⟩
    · left; exact hp
  · intro j' c' hj' hc' hne
    rcases R.pre h hinv H hch hj' hc' hne with hs | hp
    · right; exact ⟨sib_noHit (uAt_chAt (uAt_root h.un) hch).sib hc' hc (by omega) hte ht, hs⟩
    · left; exact hp

/-- the target lies strictly after the path child of its level -/
theorem ReadyAtH.lt_of_seg (hinv : Inv root cnt cur) (H : Hole root cur q0 i0 j0 ch0 c0)
    (R : ReadyAtH root cnt cur q0 j0 q i j) {ch : List Node} (hch : chAt root q = some ch) {c : Node}
    (hc : ch[j]? = some c) (hseg : c.isSeg = true) : i < j := by
  rcases Nat.lt_or_ge i j with hlt | hge
  · exact hlt
  · exfalso
    have hij : i = j := Nat.le_antisymm R.le hge
    subst hij
    have hcur : q ++ [i] = cur := by
      apply Classical.byContradiction
      intro hne
      obtain ⟨lid, pos, u, r, w, sub, hci, _⟩ := path_child_loop hinv R.on hne hch
      rw [hc] at hci; simp only [Option.some.injEq] at hci; subst hci
      simp [Node.isSeg] at hseg
    by_cases hq : q = q0
    · subst hq
      have := R.past rfl
      have := path_idx_unique H.path R.on
      have := H.lt
      omega
    · have l1 := List.IsPrefix.length_le H.path
      have l2 := List.IsPrefix.length_le R.above
      rw [← hcur] at l1
      simp at l1
      exact hq (prefix_eq_of_length R.above (by omega))

/-- **the reporting step, segment target** -/
theorem fire_seg (hinv : Inv root cnt cur) (H : Hole root cur q0 i0 j0 ch0 c0)
    (R : ReadyAtH root cnt cur q0 j0 q i j) {ch : List Node} (hch : chAt root q = some ch) {c : Node}
    (hc : ch[j]? = some c) (hseg : c.isSeg = true) (hm : isMatch K c s = true) (hu : c.usage ≠ 2)
    (hrep : c.rep = 0 ∨ cnt.get (keyAt root q ++ [c.comp]) < c.rep) (hnf : q = [] ∨ 0 < j ∨ firstIsLoop ch = true)
    (hid : c0.ident ≠ c.ident) (hps : c0.pos ≠ c.pos) :
    (walk K root rootId cnt cur s).node = some (q ++ [j]) ∧
    (walk K root rootId cnt cur s).st =
      { cnt := cnt.incr (keyAt root q ++ [c.comp]), pending := [], errs := [(ErrKind.mandatoryMissing, q0 ++ [j0])] } := by
  have hqi := R.on
  have hij := R.le
  have hlt := R.lt_of_seg h hinv H hch hc hseg
  have hte : ∃ t, t ∈ entry K c ∧ hits s t := by
    cases c with
    | loop => simp [Node.isSeg] at hseg
    | seg a b c d e f g =>
      exact ⟨(a, segSKey K a g), by simp [entry], isMatch_hits K _ s hm (a, segSKey K a g) (by simp [nodeSKey])⟩
  obtain ⟨t, hte, ht⟩ := hte
  obtain ⟨hm0, hdead, hpre⟩ := hole_passes h hinv H R hch hc hte ht
    (deeper_levels_later hinv hqi hij hch hc (by omega) hte)
  obtain ⟨loopNode, nid, nid0, oL, pops, hln, hfound⟩ := reach_hole (K := K) rootId h (s := s) hinv H hm0 hqi R.above hch hc
    R.past hdead hpre
  obtain ⟨chx, hchx, hl⟩ := hinv.lev q i hqi
  rw [hch] at hchx; simp only [Option.some.injEq] at hchx; subst hchx
  obtain ⟨ci, hci⟩ := hl.idx
  have hwf := wfAt_chAt (wfAt_root h.wf) hch
  have hpos : ¬ c.pos < posAt root (q ++ [i]) := by
    have := posSorted_le hwf.pos hci hc hij
    simp only [posAt, nodeAt_snoc hch, hci]; omega
  have hres := scan_hit_seg_gen (K := K) (s := s) q (keyAt root q) loopNode nid oL (posAt root (q ++ [i])) pops
    { cnt := cnt, pending := [holeEntry q0 nid0 j0 c0], errs := [] } c (ch.drop (j + 1)) j hpos hseg hm ?_
  · rw [segMatched_pend q (keyAt root q) nid c j pops cnt (holeEntry q0 nid0 j0 c0) hu hrep
      (by simp only [holeEntry]; intro e; exact hid (by simpa using congrArg Prod.fst e))
      (by simpa [holeEntry] using hps)] at hres
    rw [hfound _ hres]; exact ⟨rfl, rfl⟩
  · rcases hln with ⟨_, hn⟩ | ⟨P0, a, ln, hq, hn, hnode, hlnch, hlnseg⟩
    · left; exact hn
    · right
      refine ⟨ln, hn, ?_⟩
      have hnf' : 0 < j ∨ firstIsLoop ch = true := by
        rcases hnf with e | e
        · subst e; simp at hq
        · exact e
      subst hq
      have hP0 : P0 ++ [a] <+: cur := List.IsPrefix.trans (List.prefix_append _ _) hqi
      obtain ⟨pch, hpch, hpl⟩ := hinv.lev P0 a hP0
      obtain ⟨pch', lid, pos, u, r, w, hpch', hai, hnode'⟩ := nodeAt_of_chAt hch
      rw [hpch] at hpch'; simp only [Option.some.injEq] at hpch'; subst hpch'
      rw [hnode] at hnode'; simp only [Option.some.injEq] at hnode'; subst hnode'
      have hkey : keyAt root (P0 ++ [a]) = keyAt root P0 ++ [(Node.loop lid pos u r w ch).comp] := keyAt_snoc hpch hai
      cases ch with
      | nil => simp at hc
      | cons first rest =>
        have hf0 : (first :: rest)[0]? = some first := by simp
        cases hfs : first.isSeg with
        | true =>
          have hj0 : 0 < j := by
            rcases hnf' with e | e
            · exact e
            · simp [firstIsLoop, hfs] at e
          apply isLoopMatch_false
          · rw [entry_loop_first hfs]
            exact sib_noHit (uAt_chAt (uAt_root h.un) hch).sib hf0 hc (by omega) hte ht
          · have h1 := hpl.here _ hai (by simp [counted, firstIsSeg, hfs])
            cases first with
            | loop => simp [Node.isSeg] at hfs
            | seg a1 a2 a3 a4 a5 a6 a7 =>
              simp only [satisfied, satHead, Bool.or_eq_true, bne_iff_ne, decide_eq_true_eq]
              right; rw [hkey]; exact h1
        | false =>
          exfalso
          have hwn := wfNode_at (wfAt_root h.wf) hpch hai
          simp only [wfNode, Bool.and_eq_true, transparentOK, firstIsLoop, hfs, Bool.not_false, Bool.not_true,
            Bool.false_or, bne_iff_ne] at hwn
          have := allLoops_get hwn.1.2.2 hc
          rw [hseg] at this; cases this

/-- **the reporting step, first instance of a later first-seg loop** -/
theorem fire_loop (hinv : Inv root cnt cur) (H : Hole root cur q0 i0 j0 ch0 c0)
    (R : ReadyAtH root cnt cur q0 j0 q i j) (hlt : i < j) {ch : List Node} (hch : chAt root q = some ch)
    {lid pos u r : Nat} {w : Bool} {first : Node} {rest : List Node}
    (hc : ch[j]? = some (.loop lid pos u r w (first :: rest)))
    (hseg : first.isSeg = true) (hm : isMatch K first s = true) (hu : u ≠ 2)
    (hrep : r = 0 ∨ cnt.get (keyAt root q ++ [(lid, 0)]) < r) :
    (walk K root rootId cnt cur s).node = some (q ++ [j] ++ [0]) ∧
    (walk K root rootId cnt cur s).st =
      { cnt := enterCnt cnt (keyAt root q ++ [(lid, 0)]) first.comp, pending := [],
        errs := [(ErrKind.mandatoryMissing, q0 ++ [j0])] } := by
  have hqi := R.on
  have hij := R.le
  have hte : ∃ t, t ∈ entry K (.loop lid pos u r w (first :: rest)) ∧ hits s t := by
    rw [entry_loop_first hseg]
    cases first with
    | loop => simp [Node.isSeg] at hseg
    | seg a b c d e f g =>
      exact ⟨(a, segSKey K a g), by simp [entry], isMatch_hits K _ s hm (a, segSKey K a g) (by simp [nodeSKey])⟩
  obtain ⟨t, hte, ht⟩ := hte
  obtain ⟨hm0, hdead, hpre⟩ := hole_passes h hinv H R hch hc hte ht
    (deeper_levels_later hinv hqi hij hch hc (by omega) hte)
  obtain ⟨loopNode, nid, nid0, oL, pops, hln, hfound⟩ := reach_hole (K := K) rootId h (s := s) hinv H hm0 hqi R.above hch hc
    R.past hdead hpre
  obtain ⟨chx, hchx, hl⟩ := hinv.lev q i hqi
  rw [hch] at hchx; simp only [Option.some.injEq] at hchx; subst hchx
  obtain ⟨ci, hci⟩ := hl.idx
  have hwf := wfAt_chAt (wfAt_root h.wf) hch
  have hpos : ¬ (Node.loop lid pos u r w (first :: rest)).pos < posAt root (q ++ [i]) := by
    have := posSorted_le hwf.pos hci hc hij
    simp only [posAt, nodeAt_snoc hch, hci]; omega
  have hres := scan_hit_loop (K := K) (s := s) q (keyAt root q) loopNode nid oL (posAt root (q ++ [i])) pops
    { cnt := cnt, pending := [holeEntry q0 nid0 j0 c0], errs := [] } _ (.loop lid pos u r w (first :: rest))
    (ch.drop (j + 1)) j _ _ hpos rfl
    (isLoopMatch_first _ _ _ hseg hm)
    (gotoSegMatch_first_pend (q ++ [j]) _ { cnt := cnt, pending := [holeEntry q0 nid0 j0 c0], errs := [] } hseg hm hu hrep)
  rw [hfound _ hres]; exact ⟨rfl, rfl⟩

omit rootId in
/-- state after the reporting step on a segment -/
theorem post_segH (hinv : Inv root cnt cur) (H : Hole root cur q0 i0 j0 ch0 c0)
    (R : ReadyAtH root cnt cur q0 j0 q i j) {ch : List Node} (hch : chAt root q = some ch) {c : Node}
    (hc : ch[j]? = some c) (hseg : c.isSeg = true) (hpos0 : q = q0 → c0.pos < c.pos) :
    Inv root (cnt.incr (keyAt root q ++ [c.comp])) (q ++ [j]) := by
  refine ⟨⟨c, by rw [nodeAt_snoc hch]; exact hc, hseg⟩, ?_⟩
  exact inv_levelsH h hinv R H hch hc hpos0 (agreeOff_incr _ _) (by intro _; rw [get_incr_same]; omega)

omit rootId in
/-- state after the reporting step that enters a loop -/
theorem post_loopH (hinv : Inv root cnt cur) (H : Hole root cur q0 i0 j0 ch0 c0)
    (R : ReadyAtH root cnt cur q0 j0 q i j) {ch : List Node} (hch : chAt root q = some ch)
    {lid pos u r : Nat} {w : Bool} {first : Node} {rest : List Node}
    (hc : ch[j]? = some (.loop lid pos u r w (first :: rest))) (hseg : first.isSeg = true)
    (hpos0 : q = q0 → c0.pos < pos) :
    Inv root (enterCnt cnt (keyAt root q ++ [(lid, 0)]) first.comp) (q ++ [j] ++ [0]) := by
  have hsub : chAt root (q ++ [j]) = some (first :: rest) := by rw [chAt_snoc hch, hc]
  have hkey : keyAt root (q ++ [j]) = keyAt root q ++ [(lid, 0)] := keyAt_snoc hch hc
  refine ⟨⟨first, by rw [nodeAt_snoc hsub]; simp, hseg⟩, ?_⟩
  intro p i' hp
  rcases prefix_snoc_cases hp with hpq | heq
  · exact inv_levelsH h hinv R H hch hc hpos0 (agreeOff_enter _ _ _)
      (by intro _; simp only [Node.comp]; rw [get_enterCnt_self]; omega)
      p i' hpq
  · have hpe : p = q ++ [j] ∧ i' = 0 := by
      have := List.append_inj' heq (by simp)
      exact ⟨this.1, by simpa using this.2⟩
    obtain ⟨rfl, rfl⟩ := hpe
    refine ⟨first :: rest, hsub, ⟨first, by simp⟩, ?_, ?_, ?_⟩
    · intro j'' c'' hj hc''
      rw [hkey]
      have hwf := wfAt_chAt (wfAt_root h.wf) hsub
      have hf0 : (first :: rest)[0]? = some first := by simp
      exact zeroUnder_enterCnt _ _ _ _ (compDistinct_ne hwf.comp hf0 hc'' (by omega))
    · intro j'' c'' hj; omega
    · intro c1 hc1 _
      simp only [List.getElem?_cons_zero, Option.some.injEq] at hc1; subst hc1
      rw [hkey]; exact get_enterCnt_first _ _ _

end

end Pyx12Verif.WalkerGenW
