/-
C05 at pipeline level, error-tree side (6): the two error calls that go through `_add_cur_seg` (`seg_error`, `ele_error`),
then `step_sim` and `run_sim`.
-/
import Pyx12Verif.Proofs.DocC05Step

namespace Pyx12Verif.DocC05
open Pyx12Verif.ErrTree

/-- an update of an `elements` list, seen through the parts of the views that do not depend on it -/
theorem sim_hostMod_core (s1 s' : State) (L L' : Ledger) (h : SimV s1 L) (x : Host) (fe : List Ele → List Ele)
    (ht : s'.tree = hostMod s1.tree x fe) (l1 : L'.gs = L.gs) (l2 : L'.st.map SV.core = L.st.map SV.core)
    (l3 : L'.isaErrs = L.isaErrs) (l4 : L'.ok = false) (ha : L'.anchored = segAnch s'.curSeg)
    (he : L'.fresh = true → EleOk s') : Sim s' L' := by
  refine ⟨⟨ha, he, ?_, ?_, ?_, ?_⟩, ?_⟩
  · rw [ht, gviews_hostMod, l1]; exact h.gcore
  · rw [ht, score_hostMod, l2]; exact h.score
  · rw [ht, isaErrs_hostMod, l3]; exact h.ierr
  · intro hok; rw [l4] at hok; cases hok
  · intro hok; rw [l4] at hok; cases hok

/-- the same for an envelope node: nothing the views read changes -/
theorem sim_hostMod_env (s1 s' : State) (L L' : Ledger) (h : SimV s1 L) (x : Host) (fe : List Ele → List Ele)
    (hx : ∀ i g k j, x ≠ .seg i g k j) (ht : s'.tree = hostMod s1.tree x fe) (hc : s'.curSeg = .host x)
    (l1 : L'.gs = L.gs) (l2 : L'.st = L.st) (l3 : L'.isaErrs = L.isaErrs) (l4 : L'.ok = true → L.ok = true)
    (ha : L'.anchored = segAnch s'.curSeg) (he : L'.fresh = true → EleOk s') : Sim s' L' := by
  refine ⟨⟨ha, he, ?_, ?_, ?_, ?_⟩, ?_⟩
  · rw [ht, gviews_hostMod, l1]; exact h.gcore
  · rw [ht, sviews_hostMod_env _ _ _ hx, l2]; exact h.score
  · rw [ht, isaErrs_hostMod, l3]; exact h.ierr
  · intro hok
    rw [ht, gviews_hostMod, sviews_hostMod_env _ _ _ hx, l1, l2]
    exact h.full (l4 hok)
  · intro _ i g k j hc'
    rw [hc] at hc'
    injection hc' with hc'
    exact absurd hc' (hx i g k j)

theorem attach_st_of_not (L : Ledger) (h : L.anchored = false) : attach L = L := by
  unfold attach; simp [h]

theorem attach_st_of (L : Ledger) (h : L.anchored = true) : (attach L).st = modLast markDirty L.st := by
  unfold attach; simp [h]

theorem host_cases (x : Host) : (∃ i g k j, x = .seg i g k j) ∨ (∀ i g k j, x ≠ .seg i g k j) := by
  cases x with
  | seg i g k j => exact Or.inl ⟨i, g, k, j, rfl⟩
  | isa i => exact Or.inr (by intro _ _ _ _ h; cases h)
  | gs i g => exact Or.inr (by intro _ _ _ _ h; cases h)
  | st i g k => exact Or.inr (by intro _ _ _ _ h; cases h)

theorem segAnch_env (x : Host) (hx : ∀ i g k j, x ≠ .seg i g k j) : segAnch (.host x) = false := by
  cases x with
  | seg i g k j => exact absurd rfl (hx i g k j)
  | isa i => rfl
  | gs i g => rfl
  | st i g k => rfl

/-! ### `seg_error` -/

theorem sim_segError (s : State) (L : Ledger) (c : Str) (v : Option Str) (hp : PInv s) (h : Sim s L) :
    Sim (segError s c v) (lstep L (.segError c v)) := by
  show Sim (segError s c v) (attach L)
  unfold segError
  cases h1 : addCurSeg s with
  | none =>
    -- dropped by the bare `except`: no set node, or no current segment node at all
    have hst : (attach L).st = L.st := by
      unfold attach
      split
      · rename_i ha
        have hanch := h.anch
        rw [ha] at hanch
        have : L.st = [] := by
          unfold addCurSeg at h1
          cases hc : s.curSeg with
          | none => rw [hc] at hanch; cases hanch
          | host x => rw [hc] at h1; cases h1
          | pending sg =>
            rw [hc] at h1
            cases hpp : s.curSt with
            | some p => rw [hpp] at h1; cases h1
            | none =>
              have h0 := hp.nost hpp
              have h2 : sviews s.tree = [] := by
                unfold segCounts at h0
                unfold sviews
                rw [List.map_eq_nil_iff] at h0 ⊢
                exact h0
              have h3 := h.score
              rw [h2] at h3
              simpa using h3.symm
        simp [this, modLast_nil]
      · rfl
    exact Sim.of_same h rfl rfl rfl (attach_gs L) hst (attach_isaErrs L) (attach_ok L)
      ((attach_anchored L).trans h.anch) (fun hf => (h.ele ((attach_fresh L) ▸ hf)).congr rfl rfl)
      (fun _ i g k j hc => hc)
  | some s1 =>
    have hp1 := addCurSeg_pinv s s1 hp h1
    have hv1 := addCurSeg_simV s s1 L hp h.toSimV h1
    obtain ⟨_, _, _, a4, ⟨y, hy⟩, _⟩ := addCurSeg_shape s s1 h1
    simp only
    cases h2 : segAddError s1 { code := c, value := v } with
    | none =>
      -- the current node is an envelope node: `add_error` takes no value there
      have hy' : ∀ i g k j, y ≠ .seg i g k j := by
        intro i g k j e
        rw [e] at hy
        simp [segAddError, hy] at h2
      have hna : L.anchored = false := by rw [hv1.anch, hy]; exact segAnch_env y hy'
      rw [attach_st_of_not L hna]
      refine ⟨⟨hv1.anch, ?_, hv1.gcore, hv1.score, hv1.ierr, hv1.full⟩, ?_⟩
      · intro hf; exact (hv1.ele hf).congr rfl rfl
      · intro _ i g k j hc
        have : s1.curSeg = .host (.seg i g k j) := hc
        rw [hy] at this
        injection this with this
        exact absurd this (hy' i g k j)
    | some s2 =>
      obtain ⟨i, g, k, j, hc, rfl⟩ := segAddError_some s1 s2 _ h2
      obtain ⟨S, st, e1, e2, e3⟩ := host_seg_extract s1 hp1 i g k j hc
      have ha : L.anchored = true := by rw [hv1.anch, hc]; rfl
      refine sim_dirty_last s1 _ L _ hv1 S st _ e1 (e3 _) ?_ (gviews_modSeg _ _ _ _ _ _) ?_ (attach_gs L)
        (attach_st_of L ha) (attach_isaErrs L) (fun x => (attach_ok L) ▸ x) ((attach_anchored L).trans hv1.anch) ?_
      · exact st_dirty_of_seg st _ j e2 (fun sg => seg_err_pos sg _)
      · simp only [isaErrs_modSeg]
      · intro hf
        exact (hv1.ele ((attach_fresh L) ▸ hf)).congr rfl rfl

/-! ### `ele_error` -/

theorem eleOk_linked (st : State) (x : Host) (h1 : st.curEle = .linked x) (h2 : st.curSeg = .host x) : EleOk st := by
  unfold EleOk; rw [h1]; exact h2

def eleL (L : Ledger) : Ledger := { attach L with ok := L.ok && L.fresh }

theorem eleL_gs (L : Ledger) : (eleL L).gs = L.gs := attach_gs L
theorem eleL_isaErrs (L : Ledger) : (eleL L).isaErrs = L.isaErrs := attach_isaErrs L
theorem eleL_anchored (L : Ledger) : (eleL L).anchored = L.anchored := attach_anchored L
theorem eleL_fresh (L : Ledger) : (eleL L).fresh = L.fresh := attach_fresh L
theorem eleL_core (L : Ledger) : (eleL L).st.map SV.core = L.st.map SV.core := attach_core L
theorem eleL_ok (L : Ledger) : (eleL L).ok = (L.ok && L.fresh) := rfl

theorem sim_eleError (s s' : State) (L : Ledger) (c m : Str) (v : Option Str) (hp : PInv s) (h : Sim s L)
    (hs : eleError s c m v = .ok s') : Sim s' (lstep L (.eleError c m v)) := by
  show Sim s' (eleL L)
  unfold eleError at hs
  cases h1 : addCurSeg s with
  | none => rw [h1] at hs; cases hs
  | some s1 =>
    rw [h1] at hs
    have hp1 := addCurSeg_pinv s s1 hp h1
    have hv1 := addCurSeg_simV s s1 L hp h.toSimV h1
    obtain ⟨_, _, _, a4, ⟨y, hy⟩, _⟩ := addCurSeg_shape s s1 h1
    simp only [eleErrorLinked] at hs
    cases he : s1.curEle with
    | none => rw [he] at hs; cases hs
    | linked x =>
      rw [he, hy] at hs
      simp only [Res.ok.injEq] at hs
      subst hs
      have hanch : (eleL L).anchored = segAnch (.host y) := by rw [← hy]; exact (eleL_anchored L).trans hv1.anch
      -- when `fresh`, the linked element node sits on the current segment node
      have hxy : L.fresh = true → s1 = s ∧ y = x := by
        intro hf
        have h0 := h.ele hf
        unfold EleOk at h0
        rw [← a4, he] at h0
        have e1 := addCurSeg_host s s1 x h0 h1
        refine ⟨e1, ?_⟩
        rw [e1, h0] at hy
        injection hy with hy
        exact hy.symm
      by_cases hok : (L.ok && L.fresh) = true
      · have hok1 : L.ok = true := by revert hok; cases L.ok <;> simp
        have hfr : L.fresh = true := by revert hok; cases L.fresh <;> simp
        obtain ⟨es, exy⟩ := hxy hfr
        subst exy
        rcases host_cases y with ⟨i, g, k, j, rfl⟩ | hx
        · have ha : L.anchored = true := by rw [hv1.anch, hy]; rfl
          obtain ⟨S, st, e1, e2, e3⟩ := host_seg_extract s1 hp1 i g k j hy
          have hdirty : (sv st).dirty = true := by
            have hs1 : s.curSeg = .host (.seg i g k j) := by rw [← es]; exact hy
            obtain ⟨S', w, f1, f2⟩ := h.hd hok1 i g k j hs1
            have f3 := (h.full hok1).2
            rw [← es] at f3
            unfold sviews at f3
            rw [e1, f1] at f3
            simp only [List.map_append, List.map_cons, List.map_nil] at f3
            rw [(snoc_inj f3).2]; exact f2
          refine sim_dirty_last s1 _ L _ hv1 S st _ e1 (e3 _) ?_ ?_ ?_ (eleL_gs L)
            (attach_st_of L ha) (eleL_isaErrs L) (fun _ => hok1) hanch (fun _ => eleOk_linked _ _ rfl rfl)
          · exact st_dirty_mono st _ j hdirty (fun sg hsg => seg_ele_mono sg _ hsg)
          · simp only [addErrLastEle_eq, gviews_hostMod]
          · simp only [addErrLastEle_eq, isaErrs_hostMod]
        · have hna : L.anchored = false := by rw [hv1.anch, hy]; exact segAnch_env y hx
          refine sim_hostMod_env s1 _ L _ hv1 y _ hx (addErrLastEle_eq _ _ _) rfl (eleL_gs L) ?_ (eleL_isaErrs L)
            (fun _ => hok1) hanch (fun _ => eleOk_linked _ _ rfl rfl)
          show (attach L).st = L.st
          rw [attach_st_of_not L hna]
      · have hok' : (eleL L).ok = false := by rw [eleL_ok]; simpa using hok
        refine sim_hostMod_core s1 _ L _ hv1 x _ (addErrLastEle_eq _ _ _) (eleL_gs L) (eleL_core L) (eleL_isaErrs L) hok'
          hanch ?_
        intro hf
        rw [eleL_fresh] at hf
        obtain ⟨_, e2⟩ := hxy hf
        subst e2
        exact eleOk_linked _ _ rfl rfl
    | pending el =>
      rw [he, hy] at hs
      simp only [Res.ok.injEq] at hs
      subst hs
      have hanch : (eleL L).anchored = segAnch (.host y) := by rw [← hy]; exact (eleL_anchored L).trans hv1.anch
      by_cases hok : (L.ok && L.fresh) = true
      · have hok1 : L.ok = true := by revert hok; cases L.ok <;> simp
        rcases host_cases y with ⟨i, g, k, j, rfl⟩ | hx
        · have ha : L.anchored = true := by rw [hv1.anch, hy]; rfl
          obtain ⟨S, st, e1, e2, e3⟩ := host_seg_extract s1 hp1 i g k j hy
          refine sim_dirty_last s1 _ L _ hv1 S st _ e1 (e3 _) ?_ ?_ ?_ (eleL_gs L)
            (attach_st_of L ha) (eleL_isaErrs L) (fun _ => hok1) hanch (fun _ => eleOk_linked _ _ rfl rfl)
          · exact st_dirty_of_seg st _ j e2 (fun sg => seg_ele_pos sg el _)
          · simp only [appendEle_eq, gviews_hostMod]
          · simp only [appendEle_eq, isaErrs_hostMod]
        · have hna : L.anchored = false := by rw [hv1.anch, hy]; exact segAnch_env y hx
          refine sim_hostMod_env s1 _ L _ hv1 y _ hx (appendEle_eq _ _ _) rfl (eleL_gs L) ?_ (eleL_isaErrs L)
            (fun _ => hok1) hanch (fun _ => eleOk_linked _ _ rfl rfl)
          show (attach L).st = L.st
          rw [attach_st_of_not L hna]
      · have hok' : (eleL L).ok = false := by rw [eleL_ok]; simpa using hok
        exact sim_hostMod_core s1 _ L _ hv1 y _ (appendEle_eq _ _ _) (eleL_gs L) (eleL_core L) (eleL_isaErrs L) hok'
          hanch (fun _ => eleOk_linked _ _ rfl rfl)

/-! ### all calls -/

theorem step_sim (s s' : State) (e : Event) (L : Ledger) (hp : PInv s) (h : Sim s L) (hs : step s e = .ok s') :
    Sim s' (lstep L e) := by
  cases e with
  | addIsa d => simp only [step, Res.ok.injEq] at hs; subst hs; exact sim_addIsa s L d h
  | addGs d => exact sim_addGs s s' L d hp h hs
  | addSt d => exact sim_addSt s s' L d hp h hs
  | addSeg a b c => simp only [step, Res.ok.injEq] at hs; subst hs; exact sim_addSeg s L a b c h
  | addEle a b c => exact sim_addEle s s' L a b c h hs
  | isaError c => exact sim_isaError s s' L c hp h hs
  | gsError c => exact sim_gsError s s' L c hp h hs
  | stError c => exact sim_stError s s' L c hp h hs
  | segError c v => simp only [step, Res.ok.injEq] at hs; subst hs; exact sim_segError s L c v hp h
  | eleError c m v => exact sim_eleError s s' L c m v hp h hs
  | closeSt => exact sim_closeSt s s' L hp h hs
  | closeGs ge recv => exact sim_closeGs s s' L ge recv hp h hs
  | closeIsa => exact sim_closeIsa s s' L h hs

theorem Sim.init : Sim State.init Ledger.init := by
  refine ⟨⟨rfl, (fun hf => by cases hf), rfl, rfl, rfl, fun _ => ⟨rfl, rfl⟩⟩, ?_⟩
  intro _ i g k j hc; cases hc

theorem run_sim : ∀ (evs : List Event) (s s' : State) (L : Ledger), PInv s → Sim s L → run s evs = .ok s' →
    PInv s' ∧ Sim s' (lrun L evs) := by
  intro evs
  induction evs with
  | nil => intro s s' L hp h hr; simp only [run, Res.ok.injEq] at hr; subst hr; exact ⟨hp, h⟩
  | cons e r ih =>
    intro s s' L hp h hr
    simp only [run] at hr
    cases hs : step s e with
    | crash c => rw [hs] at hr; cases hr
    | ok s1 =>
      rw [hs] at hr
      exact ih s1 s' (lstep L e) (step_pinv s s1 e hp hs) (step_sim s s1 e L hp h hs) hr

/-- **the tree refines the ledger**: after any run from the fresh handler -/
theorem run_init_sim (evs : List Event) (s : State) (hr : run State.init evs = .ok s) :
    PInv s ∧ Sim s (ledger evs) := run_sim evs State.init s Ledger.init PInv.init Sim.init hr

end Pyx12Verif.DocC05
