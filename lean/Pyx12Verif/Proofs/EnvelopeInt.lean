/-
C04 helper lemmas about `pyInt` (Python `int(str)` for every string, not only ASCII):
  * the two tables in a second, independent form: `isPySpace` against the plain list of the 29 code points,
    `pyDigitVal` against "some zero of an Nd run lies `d < 10` below the code point";
  * step 1 (`toAscii`) is the identity on texts below U+007F, so on those `pyInt` is the ASCII reader `pyIntAscii`
    (what `pyInt` was before the extension);
  * what `int()` skips: `dropSpace_toAscii_skip`, `pyInt_skip_left`; a character that is neither below U+007F, nor a
    space, nor a decimal digit makes the text a non-number wherever it stands (`pyInt_bad_char`);
  * a non-empty run of at most 4300 decimal digits of any scripts, mixed freely, reads as its positional value
    (`pyInt_unicode_digits`).
-/
import Pyx12Verif.Model.Envelope

namespace Pyx12Verif.Envelope

/-! ### the tables, restated -/

/-- the code points for which `str.isspace()` holds, one by one -/
def pySpaceCodes : List Nat :=
  [0x9, 0xA, 0xB, 0xC, 0xD, 0x1C, 0x1D, 0x1E, 0x1F, 0x20, 0x85, 0xA0, 0x1680,
   0x2000, 0x2001, 0x2002, 0x2003, 0x2004, 0x2005, 0x2006, 0x2007, 0x2008, 0x2009, 0x200A,
   0x2028, 0x2029, 0x202F, 0x205F, 0x3000]

theorem isPySpace_iff (c : Char) : isPySpace c = true ↔ c.toNat ∈ pySpaceCodes := by
  simp only [isPySpace, pySpaceRanges, inRanges, pySpaceCodes, Bool.or_eq_true, Bool.and_eq_true, decide_eq_true_eq,
    Bool.or_false, List.mem_cons, List.not_mem_nil, or_false]
  omega

example : pySpaceCodes.length = 29 ∧ pyDigitZeros.length = 68 := by decide

/-- the zeros of the Nd runs are in increasing order and at least ten apart: the runs do not overlap -/
def Apart : List Nat → Prop
  | [] => True
  | z :: r => (∀ y ∈ r, z + 10 ≤ y) ∧ Apart r

instance : ∀ l, Decidable (Apart l)
  | [] => isTrue trivial
  | z :: r => by
    unfold Apart
    have := instDecidableApart r
    exact inferInstance

theorem pyDigitZeros_apart : Apart pyDigitZeros := by decide

theorem digitIn_eq_some (l : List Nat) (hl : Apart l) (n d : Nat) :
    digitIn l n = some d ↔ d < 10 ∧ ∃ z ∈ l, n = z + d := by
  induction l with
  | nil => simp [digitIn]
  | cons z r ih =>
    unfold digitIn
    split
    · rename_i hz
      constructor
      · intro h
        have hd : n - z = d := by simpa using h
        exact ⟨by omega, z, by simp, by omega⟩
      · rintro ⟨hd, y, hy, hn⟩
        rcases List.mem_cons.mp hy with rfl | hy'
        · simp; omega
        · have := hl.1 y hy'
          omega
    · rename_i hz
      rw [ih hl.2]
      constructor
      · rintro ⟨hd, y, hy, hn⟩
        exact ⟨hd, y, List.mem_cons_of_mem _ hy, hn⟩
      · rintro ⟨hd, y, hy, hn⟩
        rcases List.mem_cons.mp hy with rfl | hy'
        · omega
        · exact ⟨hd, y, hy', hn⟩

/-- `c` has decimal value `d` iff `c` is the `d`-th character of one of the 68 runs -/
theorem pyDigitVal_eq_some (c : Char) (d : Nat) :
    pyDigitVal c = some d ↔ d < 10 ∧ ∃ z ∈ pyDigitZeros, c.toNat = z + d :=
  digitIn_eq_some _ pyDigitZeros_apart _ _

theorem pyDigitVal_lt {c : Char} {d : Nat} (h : pyDigitVal c = some d) : d < 10 :=
  ((pyDigitVal_eq_some c d).mp h).1

/-! ### ASCII -/

theorem toNat_le_iff (a b : Char) : a ≤ b ↔ a.toNat ≤ b.toNat := by
  rw [Char.le_def, UInt32.le_iff_toNat_le]; rfl

theorem isDigit_iff_toNat (c : Char) : isDigit c = true ↔ 48 ≤ c.toNat ∧ c.toNat ≤ 57 := by
  simp only [isDigit, Bool.and_eq_true, decide_eq_true_eq, toNat_le_iff]
  rfl

theorem toNat_digitChar {d : Nat} (h : d < 10) : (Nat.digitChar d).toNat = 48 + d := by
  have h10 : ∀ k : Fin 10, (Nat.digitChar k.val).toNat = 48 + k.val := by decide
  exact h10 ⟨d, h⟩

/-- the ASCII digits are the first run -/
theorem pyDigitVal_ascii (c : Char) (h : isDigit c = true) : pyDigitVal c = some (digitVal c) := by
  rw [isDigit_iff_toNat] at h
  rw [pyDigitVal_eq_some]
  refine ⟨by unfold digitVal; simp only [show '0'.toNat = 48 from rfl]; omega, 48, by decide, ?_⟩
  unfold digitVal; simp only [show '0'.toNat = 48 from rfl]; omega

/-- below U+007F only `0 .. 9` are decimal digits -/
theorem isDigit_of_pyDigitVal {c : Char} {d : Nat} (hc : c.toNat < 127) (h : pyDigitVal c = some d) :
    isDigit c = true ∧ digitVal c = d := by
  rw [pyDigitVal_eq_some] at h
  obtain ⟨hd, z, hz, hn⟩ := h
  have hz48 : z = 48 := by
    simp only [pyDigitZeros, List.mem_cons, List.not_mem_nil, or_false] at hz
    omega
  subst hz48
  rw [isDigit_iff_toNat]
  refine ⟨by omega, ?_⟩
  unfold digitVal; simp only [show '0'.toNat = 48 from rfl]; omega

theorem toAscii_of_ascii (s : Str) (h : ∀ c ∈ s, c.toNat < 127) : toAscii s = s := by
  induction s with
  | nil => rfl
  | cons c r ih =>
    have hc := h c (by simp)
    simp only [toAscii, asciiOf, hc, if_true, toAsciiStep]
    rw [ih (fun x hx => h x (List.mem_cons_of_mem _ hx))]

/-- on a text below U+007F `int()` is the ASCII reader — the whole of `pyInt` before non-ASCII text was modelled -/
theorem pyInt_of_ascii (s : Str) (h : ∀ c ∈ s, c.toNat < 127) : pyInt s = pyIntAscii s := by
  unfold pyInt; rw [toAscii_of_ascii s h]

theorem toAscii_of_digits (s : Str) (h : ∀ c ∈ s, isDigit c = true) : toAscii s = s :=
  toAscii_of_ascii s (fun c hc => by have := (isDigit_iff_toNat c).mp (h c hc); omega)

/-- a text of ASCII digits is read by step 2 directly -/
theorem pyInt_of_digits (s : Str) (h : ∀ c ∈ s, isDigit c = true) : pyInt s = signedInt (dropSpace s) := by
  unfold pyInt pyIntAscii; rw [toAscii_of_digits s h]

/-! ### what is skipped, what is fatal -/

/-- the characters `int()` skips on either side: the six ASCII ones, and every `isspace` character from U+007F up
(U+001C .. U+001F are `isspace` but not skipped) -/
def isSkipped (c : Char) : Bool := isIntSpace c || (decide (127 ≤ c.toNat) && isPySpace c)

theorem isIntSpace_lt {c : Char} (h : isIntSpace c = true) : c.toNat < 127 := by
  simp only [isIntSpace, Bool.or_eq_true, beq_iff_eq] at h
  rcases h with ((((h | h) | h) | h) | h) | h <;> (subst h; decide)

theorem asciiOf_skipped {c : Char} (h : isSkipped c = true) : ∃ a, asciiOf c = some a ∧ isIntSpace a = true := by
  simp only [isSkipped, Bool.or_eq_true, Bool.and_eq_true, decide_eq_true_eq] at h
  rcases h with h | ⟨h1, h2⟩
  · exact ⟨c, by simp [asciiOf, isIntSpace_lt h], h⟩
  · refine ⟨' ', ?_, by decide⟩
    have : ¬ c.toNat < 127 := by omega
    simp [asciiOf, this, h2]

theorem pyInt_skip_left (c : Char) (s : Str) (h : isSkipped c = true) : pyInt (c :: s) = pyInt s := by
  obtain ⟨a, ha, hs⟩ := asciiOf_skipped h
  simp only [pyInt, pyIntAscii, toAscii, ha, toAsciiStep, dropSpace, hs, if_true]

/-- neither kept, nor a space, nor a decimal digit -/
def isFatal (c : Char) : Prop := 127 ≤ c.toNat ∧ isPySpace c = false ∧ pyDigitVal c = none

theorem toAscii_fatal {c : Char} (h : isFatal c) (r : Str) : toAscii (c :: r) = ['?'] := by
  have : ¬ c.toNat < 127 := by have := h.1; omega
  simp [toAscii, asciiOf, this, h.2.1, h.2.2, asciiOfDigit, toAsciiStep]

theorem scanDigits_q (a : Str) : ∀ us acc n, scanDigits us acc n (a ++ ['?']) = none := by
  induction a with
  | nil => intro us acc n; simp [scanDigits, show isDigit '?' = false by decide, show isIntSpace '?' = false by decide]
  | cons c r ih =>
    intro us acc n
    simp only [List.cons_append, scanDigits]
    split
    · exact ih _ _ _
    · split
      · split
        · rfl
        · exact ih _ _ _
      · split
        · split
          · rfl
          · have : allSpace (r ++ ['?']) = false := by
              clear ih
              induction r with
              | nil => decide
              | cons x t iht => simp [allSpace, iht]
            simp [this]
        · rfl

theorem startDigits_q (a : Str) : startDigits (a ++ ['?']) = none := by
  cases a with
  | nil => decide
  | cons c r =>
    simp only [List.cons_append, startDigits]
    split
    · exact scanDigits_q r _ _ _
    · rfl

theorem signedInt_q (a : Str) : signedInt (a ++ ['?']) = none := by
  cases a with
  | nil => decide
  | cons c r =>
    simp only [List.cons_append, signedInt]
    split
    · rw [startDigits_q]; rfl
    · split
      · rw [startDigits_q]; rfl
      · have := startDigits_q (c :: r)
        simp only [List.cons_append] at this
        rw [this]; rfl

theorem dropSpace_q (a : Str) : ∃ b, dropSpace (a ++ ['?']) = b ++ ['?'] := by
  induction a with
  | nil => exact ⟨[], by decide⟩
  | cons c r ih =>
    simp only [List.cons_append, dropSpace]
    split
    · exact ih
    · exact ⟨c :: r, rfl⟩

theorem toAscii_append_fatal (a : Str) {c : Char} (h : isFatal c) (b : Str) :
    ∃ a', toAscii (a ++ c :: b) = a' ++ ['?'] := by
  induction a with
  | nil => exact ⟨[], by simp [toAscii_fatal h]⟩
  | cons x r ih =>
    obtain ⟨a', ha'⟩ := ih
    simp only [List.cons_append, toAscii]
    cases asciiOf x with
    | none => exact ⟨[], rfl⟩
    | some y => exact ⟨y :: a', by simp [toAsciiStep, ha']⟩

/-- one character that step 1 cannot convert, anywhere in the text: not a number -/
theorem pyInt_bad_char (a b : Str) (c : Char) (h : isFatal c) : pyInt (a ++ c :: b) = none := by
  obtain ⟨a', ha'⟩ := toAscii_append_fatal a h b
  obtain ⟨b', hb'⟩ := dropSpace_q a'
  simp only [pyInt, pyIntAscii, ha', hb', signedInt_q]

/-! ### digits of any script -/

/-- positional value of a run of decimal digits, read left to right from `acc` -/
def uniVal (acc : Nat) : Str → Nat
  | [] => acc
  | c :: r => uniVal (acc * 10 + (pyDigitVal c).getD 0) r

theorem asciiOf_digit {c : Char} {d : Nat} (h : pyDigitVal c = some d) :
    ∃ a, asciiOf c = some a ∧ isDigit a = true ∧ digitVal a = d := by
  have hd := pyDigitVal_lt h
  by_cases hc : c.toNat < 127
  · exact ⟨c, by simp [asciiOf, hc], isDigit_of_pyDigitVal hc h⟩
  · have hns : isPySpace c = false := by
      cases hs : isPySpace c with
      | false => rfl
      | true =>
        exfalso
        rw [isPySpace_iff] at hs
        obtain ⟨_, z, hz, hn⟩ := (pyDigitVal_eq_some c d).mp h
        simp only [pySpaceCodes, List.mem_cons, List.not_mem_nil, or_false] at hs
        simp only [pyDigitZeros, List.mem_cons, List.not_mem_nil, or_false] at hz
        omega
    refine ⟨Nat.digitChar d, by simp [asciiOf, hc, hns, h, asciiOfDigit], ?_, ?_⟩
    · rw [isDigit_iff_toNat, toNat_digitChar hd]; omega
    · unfold digitVal; rw [toNat_digitChar hd]; simp [show '0'.toNat = 48 from rfl]

theorem toAscii_uniDigits (s : Str) (h : ∀ c ∈ s, pyDigitVal c ≠ none) :
    (∀ a ∈ toAscii s, isDigit a = true) ∧ (toAscii s).length = s.length ∧
      ∀ acc n, scanDigits false acc n (toAscii s) = some (uniVal acc s, n + s.length) := by
  induction s with
  | nil => simp [toAscii, scanDigits, uniVal]
  | cons c r ih =>
    obtain ⟨ih1, ih2, ih3⟩ := ih (fun x hx => h x (List.mem_cons_of_mem _ hx))
    have hc := h c (by simp)
    cases hv : pyDigitVal c with
    | none => exact absurd hv hc
    | some d =>
      obtain ⟨a, ha, hda, hva⟩ := asciiOf_digit hv
      simp only [toAscii, ha, toAsciiStep]
      refine ⟨?_, by simp [ih2], ?_⟩
      · intro x hx
        rcases List.mem_cons.mp hx with rfl | hx'
        · exact hda
        · exact ih1 x hx'
      · intro acc n
        simp only [scanDigits, hda, if_true, ih3, uniVal, hv, Option.getD_some, hva, List.length_cons]
        congr 2; omega

/-- a non-empty run of at most 4300 decimal digits, of any scripts, reads as its positional value -/
theorem pyInt_unicode_digits (s : Str) (hne : s ≠ []) (h : ∀ c ∈ s, pyDigitVal c ≠ none)
    (hlen : s.length ≤ maxStrDigits) : pyInt s = some (uniVal 0 s : Nat) := by
  cases s with
  | nil => exact absurd rfl hne
  | cons c r =>
    have hc := h c (by simp)
    obtain ⟨_, _, h3⟩ := toAscii_uniDigits r (fun x hx => h x (List.mem_cons_of_mem _ hx))
    cases hv : pyDigitVal c with
    | none => exact absurd hv hc
    | some d =>
      obtain ⟨a, ha, hda, hva⟩ := asciiOf_digit hv
      have hsp : isIntSpace a = false := by
        cases hsp : isIntSpace a with
        | false => rfl
        | true =>
          exfalso
          rw [isDigit_iff_toNat] at hda
          simp only [isIntSpace, Bool.or_eq_true, beq_iff_eq] at hsp
          rcases hsp with ((((e | e) | e) | e) | e) | e <;> (subst e; revert hda; decide)
      have hm : a ≠ '-' := by rintro rfl; revert hda; decide
      have hp : a ≠ '+' := by rintro rfl; revert hda; decide
      simp only [pyInt, pyIntAscii, toAscii, ha, toAsciiStep, dropSpace, hsp, Bool.false_eq_true, if_false, signedInt, hm, hp,
        startDigits, hda, if_true, h3, finishInt, uniVal, hv, Option.getD_some, hva, Nat.zero_mul, Nat.zero_add]
      have : ¬ (1 + r.length > maxStrDigits) := by simp only [List.length_cons] at hlen; omega
      simp [this]

end Pyx12Verif.Envelope
