/-
Helper lemmas for Props/DocSinksTotalHtml.lean, part (b): everything the finished lemmas say about the writes of a completed
HTML sink, about ONE decomposition `ws = Html.report date delims pairs tail` (the finished lemmas each produce their own
existential witnesses), plus the shape of the highlighting markup (`shapeTags` is `k` copies of one empty span).
-/
import Pyx12Verif.Proofs.DocSinksPlain

namespace Pyx12Verif.Doc
open Pyx12Verif

/-! ### the highlighting markup of a segment line: `k` copies of `<span class="ele_err"></span>` -/

/-- `k` copies of the empty highlighting span -/
def emptySpans (k : Nat) : List Char := (List.replicate k Html.errSpan).flatten

theorem emptySpans_succ (k : Nat) : Html.errSpan ++ emptySpans k = emptySpans (k + 1) := by
  simp [emptySpans, List.replicate_succ]

theorem emptySpans_add (a b : Nat) : emptySpans a ++ emptySpans b = emptySpans (a + b) := by
  induction a with
  | zero => simp [emptySpans]
  | succ a ih =>
    rw [← emptySpans_succ, List.append_assoc, ih, emptySpans_succ]
    congr 1; omega

theorem subTags_spans (m : Option (Option Nat)) : ∀ (k j : Nat), ∃ n, Html.subTags m j k = emptySpans n
  | 0, _ => ⟨0, rfl⟩
  | k + 1, j => by
    obtain ⟨n, hn⟩ := subTags_spans m k (j + 1)
    simp only [Html.subTags, hn]
    split
    · exact ⟨n + 1, emptySpans_succ n⟩
    · exact ⟨n, rfl⟩

theorem elemTags_spans (m : Option (Option Nat)) (k : Nat) : ∃ n, Html.elemTags m k = emptySpans n := by
  unfold Html.elemTags
  split
  · split
    · exact ⟨1, by simp [emptySpans]⟩
    · exact ⟨0, rfl⟩
  · exact subTags_spans m _ _

/-- the markup the marks add to a segment line is a number of copies of the empty span `<span class="ele_err"></span>` -/
theorem shapeTags_spans (marks : List (Nat × Option Nat)) : ∀ (ks : List Nat) (i : Nat), ∃ n, Html.shapeTags marks i ks = emptySpans n
  | [], _ => ⟨0, rfl⟩
  | k :: r, i => by
    obtain ⟨a, ha⟩ := elemTags_spans (Html.findMark marks i) k
    obtain ⟨b, hb⟩ := shapeTags_spans marks r (i + 1)
    exact ⟨a + b, by simp only [Html.shapeTags, ha, hb, emptySpans_add]⟩

/-- an information line whose text has no `<` (loop id and loop name of the shipped maps): fixed markup -/
theorem infoLine_markup (i : List Char) (h : ∀ c ∈ i, c ≠ '<') :
    Html.tags (Html.infoLine i) = "<span class=\"info\"></span><br />".toList := by
  unfold Html.tags Html.infoLine
  refine Html.Ctx.eval ?_ (by simp [Html.tagsAux])
  have ho : Html.Ctx (Html.tagsAux false) Html.spanInfoOpen Html.spanInfoOpen := by
    intro r; simp [Html.spanInfoOpen, Html.tagsAux]
  have h := (((ho.app (Html.tags_plain Html.entNbsp (by simp [Html.entNbsp]))).app
    (Html.tags_plain Html.entNbsp (by simp [Html.entNbsp]))).app (Html.tags_plain i h)).app Html.tags_lineClose
  have e : Html.spanInfoOpen ++ "</span><br />".toList = "<span class=\"info\"></span><br />".toList := by decide
  rw [← e]; simpa using h

/-! ### the segments handed to `gen_seg` are the reader's -/

theorem htmlSegs_faithful : ∀ (l : List Seg) (hs : List Html.Seg), htmlSegs l = some hs →
    hs.map (fun s => (s.id, s.elems.map Html.Elem.subs)) = l.map (fun s => (s.id, s.elems))
  | [], hs, h => by simp only [htmlSegs, Option.some.injEq] at h; subst h; rfl
  | a :: r, hs, h => by
    simp only [htmlSegs] at h
    split at h
    · simp at h
    · rename_i x hx
      obtain ⟨t, ht, rfl⟩ := consOpt_eq_some _ _ _ h
      obtain ⟨h1, h2⟩ := htmlSeg_spec a x hx
      simp [h1, h2, htmlSegs_faithful r t ht]

/-! ### one decomposition -/

/-- the writes of a completed run, with every finished fact about the SAME `pairs` and `tail` -/
theorem docHtmlWrites_facts (ms : Maps) (ctx : Ctx) (sc : SinkCtx) (text : List Char) (ws : List (List Char))
    (h : docHtmlWrites ms ctx sc text = some ws) :
    ∃ hd rr pairs tail, SegText.readAll { rest := text, sizes := [] } = .ok hd rr ∧
      (∃ b, (validateRead ms ctx hd rr).outcome = .verdict b) ∧
      ws = Html.report sc.date (htmlDelims (SegText.delimsOf hd)) pairs tail ∧
      htmlSegs (rr.segs.map (·.2)) = some (pairs.map (·.1)) ∧
      (∀ sa ∈ pairs, AnnPlain sa.2) ∧ (∀ m ∈ tail, Html.plainCode m.code) ∧
      ∀ sa ∈ pairs, ∀ i, sa.2.info = some i → ∃ v lid, i = loopInfoText sc v lid := by
  unfold docHtmlWrites at h
  split at h
  · simp at h
  · rename_i hd rr hread
    cases hr : roundsOf (validateRead ms ctx hd rr) rr with
    | none => simp [hr, htmlOfRounds] at h
    | some rounds =>
      simp only [hr, htmlOfRounds] at h
      cases hl : htmlLoop ms sc ErrIter.RState.init rounds with
      | none => simp [hl, htmlWritesOf] at h
      | some q =>
        simp only [hl, htmlWritesOf, Option.some.injEq] at h
        obtain ⟨⟨b, hb⟩, h1, h3⟩ := roundsOf_spec _ _ _ hr
        obtain ⟨hev, hfin⟩ := validateRead_codes ms ctx hd rr b hb
        have hev' : ∀ p ∈ rounds, EvP p.1.events := by
          intro p hp
          apply hev
          rw [← h1]
          exact List.mem_map.2 ⟨p, hp, rfl⟩
        obtain ⟨g1, g2⟩ := htmlLoop_spec ms sc rounds _ q hl
        rw [h3] at g1
        exact ⟨hd, rr, q.1, _, hread, ⟨b, hb⟩, h.symm, g1, htmlLoop_plain ms sc rounds _ q Codes.init_P hev' hl,
          footer_plain sc _ hfin, g2⟩

theorem report_head (date : List Char) (d : Html.Delims) (segs : List (Html.Seg × Html.Ann)) (tail : List Html.Msg) :
    (Html.report date d segs tail).head? = some (Html.headerText date) := by
  simp [Html.report]

theorem report_last (date : List Char) (d : Html.Delims) (segs : List (Html.Seg × Html.Ann)) (tail : List Html.Msg) :
    (Html.report date d segs tail).getLast? = some Html.footerText := by
  unfold Html.report
  rw [List.getLast?_append]
  simp

end Pyx12Verif.Doc
