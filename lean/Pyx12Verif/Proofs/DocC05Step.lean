/-
C05 at pipeline level, error-tree side (5): `step_sim` — one call of `err_handler` against one step of the ledger,
case by case.
-/
import Pyx12Verif.Proofs.DocC05Sim

namespace Pyx12Verif.DocC05
open Pyx12Verif.ErrTree

theorem EleOk.congr {s s' : State} (h : EleOk s) (h1 : s'.curEle = s.curEle) (h2 : s'.curSeg = s.curSeg) : EleOk s' := by
  unfold EleOk at h ⊢
  rw [h1, h2]; exact h

/-- a call that changes neither what the views read nor the two pointers the ledger follows -/
theorem Sim.of_same {s s' : State} {L L' : Ledger} (h : Sim s L) (hg : gviews s'.tree = gviews s.tree)
    (hsv : sviews s'.tree = sviews s.tree) (hi : (isaErrs s'.tree).sum = (isaErrs s.tree).sum)
    (l1 : L'.gs = L.gs) (l2 : L'.st = L.st) (l3 : L'.isaErrs = L.isaErrs) (l4 : L'.ok = L.ok)
    (ha : L'.anchored = segAnch s'.curSeg) (he : L'.fresh = true → EleOk s')
    (hd : L.ok = true → ∀ i g k j, s'.curSeg = .host (.seg i g k j) → s.curSeg = .host (.seg i g k j)) : Sim s' L' := by
  refine ⟨⟨ha, he, ?_, ?_, ?_, ?_⟩, ?_⟩
  · rw [hg, l1]; exact h.gcore
  · rw [hsv, l2]; exact h.score
  · rw [hi, l3]; exact h.ierr
  · intro hok; rw [hg, hsv, l1, l2]; exact h.full (l4 ▸ hok)
  · intro hok i g k j hc
    rw [l2]
    exact h.hd (l4 ▸ hok) i g k j (hd (l4 ▸ hok) i g k j hc)

/-! ### structural calls -/

theorem sim_addIsa (s : State) (L : Ledger) (d : IsaData) (h : Sim s L) :
    Sim (addIsaLoop s d) (lstep L (.addIsa d)) := by
  refine Sim.of_same h ?_ ?_ ?_ rfl rfl rfl rfl rfl (fun hf => by cases hf) ?_
  · show gviews (s.tree ++ [mkIsa d]) = _
    unfold gviews; rw [allG_snoc_isa]
  · show sviews (s.tree ++ [mkIsa d]) = _
    unfold sviews allS; rw [allG_snoc_isa]
  · show (isaErrs (s.tree ++ [mkIsa d])).sum = _
    simp [isaErrs, mkIsa]
  · intro _ i g k j hc; cases hc

theorem gv_mkGs (d : GsData) : gv (mkGs d) = newGV d := rfl
theorem sv_mkSt (d : StData) : sv (mkSt d) = newSV d := by
  simp [sv, mkSt, newSV, St.errCount, St.childErrCount, segChildErrCount]

theorem sim_addGs (s s' : State) (L : Ledger) (d : GsData) (hp : PInv s) (h : Sim s L)
    (hs : addGsLoop s d = .ok s') : Sim s' (lstep L (.addGs d)) := by
  unfold addGsLoop at hs
  cases hi : s.curIsa with
  | none => rw [hi] at hs; cases hs
  | some i =>
    rw [hi] at hs
    simp only [Res.ok.injEq] at hs
    subst hs
    obtain ⟨T, a, e1, e2, e3⟩ := isaLast_extract s.tree i (hp.isa i hi)
    have hG : allG (modIsa s.tree i (fun a => { a with children := a.children ++ [mkGs d] })) = allG s.tree ++ [mkGs d] := by
      rw [e3, e1]; simp [allG_append, allG]
    have hg : gviews (modIsa s.tree i (fun a => { a with children := a.children ++ [mkGs d] })) =
        gviews s.tree ++ [newGV d] := by
      unfold gviews; rw [hG]; simp [gv_mkGs]
    have hsv : sviews (modIsa s.tree i (fun a => { a with children := a.children ++ [mkGs d] })) = sviews s.tree := by
      unfold sviews allS; rw [hG, stsOf_append]; simp [stsOf, mkGs]
    refine ⟨⟨rfl, (fun hf => by cases hf), ?_, ?_, ?_, ?_⟩, ?_⟩
    · simp only [hg, lstep, List.map_append, h.gcore]
    · simp only [hsv, lstep]; exact h.score
    · have : isaErrs (modIsa s.tree i (fun a => { a with children := a.children ++ [mkGs d] })) = isaErrs s.tree :=
        isaErrs_modIsa _ _ _ (fun _ => rfl)
      exact (congrArg List.sum this).trans h.ierr
    · intro hok
      have := h.full hok
      simp only [hg, hsv, lstep, this.1, this.2, and_self]
    · intro _ i' g k j hc; cases hc

theorem core_bumpSets (v a : GV) (h : v.core = a.core) : (bumpSets v).core = (bumpSets a).core := by
  cases v; cases a; simp_all [GV.core, bumpSets]

theorem core_bumpErrs (v a : GV) (h : v.core = a.core) : (bumpErrs v).core = (bumpErrs a).core := by
  cases v; cases a; simp_all [GV.core, bumpErrs]

theorem sim_addSt (s s' : State) (L : Ledger) (d : StData) (hp : PInv s) (h : Sim s L)
    (hs : addStLoop s d = .ok s') : Sim s' (lstep L (.addSt d)) := by
  unfold addStLoop at hs
  cases hg : s.curGs with
  | none => rw [hg] at hs; cases hs
  | some p =>
    rw [hg] at hs
    simp only [Res.ok.injEq] at hs
    subst hs
    obtain ⟨i, g⟩ := p
    obtain ⟨m, hm⟩ := hp.gs i g hg
    obtain ⟨G, x, e1, _, _, e4⟩ := gsLast_extract s.tree i g m hm
    have hG := e4 (fun x => { x with children := x.children ++ [mkSt d] })
    have hS : allS (modGs s.tree i g (fun x => { x with children := x.children ++ [mkSt d] })) = allS s.tree ++ [mkSt d] := by
      rw [allS_of_allG _ G _ hG, allS_of_allG _ G x e1]; simp
    have hgv : gviews s.tree = G.map gv ++ [gv x] := by unfold gviews; rw [e1]; simp
    have hgv' : gviews (modGs s.tree i g (fun x => { x with children := x.children ++ [mkSt d] })) =
        G.map gv ++ [bumpSets (gv x)] := by
      unfold gviews; rw [hG]; simp [gv, bumpSets]
    have hsv : sviews (modGs s.tree i g (fun x => { x with children := x.children ++ [mkSt d] })) =
        sviews s.tree ++ [newSV d] := by
      unfold sviews; rw [hS]; simp [sv_mkSt]
    refine ⟨⟨rfl, (fun hf => by cases hf), ?_, ?_, ?_, ?_⟩, ?_⟩
    · simp only [hgv', lstep]
      exact core_modLast GV.core _ (gv x) _ L.gs bumpSets (by rw [← hgv]; exact h.gcore)
        (fun v hv => core_bumpSets v (gv x) hv)
    · simp only [hsv, lstep, List.map_append, h.score]
    · simp only [lstep, isaErrs_modGs]; exact h.ierr
    · intro hok
      have := h.full hok
      simp only [hgv', hsv, lstep]
      exact ⟨full_modLast _ (gv x) _ L.gs bumpSets (by rw [← hgv]; exact this.1) rfl, by rw [this.2]⟩
    · intro _ i' g' k j hc; cases hc

theorem sim_closeIsa (s s' : State) (L : Ledger) (h : Sim s L) (hs : closeIsaLoop s = .ok s') :
    Sim s' (lstep L .closeIsa) := by
  unfold closeIsaLoop at hs
  cases hi : s.curIsa with
  | none => rw [hi] at hs; cases hs
  | some i =>
    rw [hi] at hs
    simp only [Res.ok.injEq] at hs
    subst hs
    have hgm : gviews (modIsa s.tree i (fun a => { a with closed := true })) = gviews s.tree :=
      gviews_modIsa _ _ _ (fun _ => rfl)
    have hsm : sviews (modIsa s.tree i (fun a => { a with closed := true })) = sviews s.tree :=
      sviews_modIsa _ _ _ (fun _ => rfl)
    have him : isaErrs (modIsa s.tree i (fun a => { a with closed := true })) = isaErrs s.tree :=
      isaErrs_modIsa _ _ _ (fun _ => rfl)
    exact Sim.of_same h hgm hsm (congrArg List.sum him) rfl rfl rfl rfl rfl
      (fun hf => by cases hf) (by intro _ i' g k j hc; cases hc)

theorem sim_addSeg (s : State) (L : Ledger) (a : Str) (b : Nat) (c : Option Str) (h : Sim s L) :
    Sim (addSeg s a b c) (lstep L (.addSeg a b c)) :=
  Sim.of_same h rfl rfl rfl rfl rfl rfl rfl rfl (fun hf => by cases hf) (by intro _ i' g k j hc; cases hc)

theorem sim_addEle (s s' : State) (L : Ledger) (a : Nat) (b : Option Nat) (c : Option Str) (h : Sim s L)
    (hs : addEle s a b c = .ok s') : Sim s' (lstep L (.addEle a b c)) := by
  unfold addEle at hs
  split at hs
  · cases hs
  · simp only [Res.ok.injEq] at hs; subst hs
    exact Sim.of_same h rfl rfl rfl rfl rfl rfl rfl h.anch (fun _ => trivial) (by intro _ i' g k j hc; exact hc)
  · simp only [Res.ok.injEq] at hs; subst hs
    exact Sim.of_same h rfl rfl rfl rfl rfl rfl rfl h.anch (fun _ => trivial) (by intro _ i' g k j hc; exact hc)

/-! ### errors of the three loop levels -/

theorem sim_isaError (s s' : State) (L : Ledger) (c : Str) (hp : PInv s) (h : Sim s L) (hs : isaError s c = .ok s') :
    Sim s' (lstep L (.isaError c)) := by
  unfold isaError at hs
  cases hi : s.curIsa with
  | none => rw [hi] at hs; cases hs
  | some i =>
    rw [hi] at hs
    simp only [Res.ok.injEq] at hs
    subst hs
    obtain ⟨T, a, e1, e2, e3⟩ := isaLast_extract s.tree i (hp.isa i hi)
    have hsum : (isaErrs (modIsa s.tree i (fun a => { a with errors := a.errors ++ [c] }))).sum = (isaErrs s.tree).sum + 1 := by
      rw [e3, e1]; simp [isaErrs]; omega
    have hgm : gviews (modIsa s.tree i (fun a => { a with errors := a.errors ++ [c] })) = gviews s.tree :=
      gviews_modIsa _ _ _ (fun _ => rfl)
    have hsm : sviews (modIsa s.tree i (fun a => { a with errors := a.errors ++ [c] })) = sviews s.tree :=
      sviews_modIsa _ _ _ (fun _ => rfl)
    refine ⟨⟨h.anch, fun hf => (h.ele hf).congr rfl rfl, ?_, ?_, ?_, ?_⟩, ?_⟩
    · exact (congrArg (List.map GV.core) hgm).trans h.gcore
    · exact (congrArg (List.map SV.core) hsm).trans h.score
    · simp only [lstep, hsum, h.ierr]
    · intro hok
      have := h.full hok
      exact ⟨hgm.trans this.1, hsm.trans this.2⟩
    · intro hok i' g k j hc; exact h.hd hok i' g k j hc

theorem sim_gsError (s s' : State) (L : Ledger) (c : Str) (hp : PInv s) (h : Sim s L) (hs : gsError s c = .ok s') :
    Sim s' (lstep L (.gsError c)) := by
  unfold gsError at hs
  cases hg : s.curGs with
  | none => rw [hg] at hs; cases hs
  | some p =>
    rw [hg] at hs
    simp only [Res.ok.injEq] at hs
    subst hs
    obtain ⟨i, g⟩ := p
    obtain ⟨m, hm⟩ := hp.gs i g hg
    obtain ⟨G, x, e1, _, _, e4⟩ := gsLast_extract s.tree i g m hm
    have hgv : gviews s.tree = G.map gv ++ [gv x] := by unfold gviews; rw [e1]; simp
    have hgv' : gviews (modGs s.tree i g (fun a => { a with errors := a.errors ++ [c] })) =
        G.map gv ++ [bumpErrs (gv x)] := by
      unfold gviews; rw [e4]; simp [gv, bumpErrs]
    have hsv := sviews_modGs s.tree i g (fun a => { a with errors := a.errors ++ [c] }) (fun _ => rfl)
    refine ⟨⟨h.anch, fun hf => (h.ele hf).congr rfl rfl, ?_, ?_, ?_, ?_⟩, ?_⟩
    · simp only [hgv', lstep]
      exact core_modLast GV.core _ (gv x) _ L.gs bumpErrs (by rw [← hgv]; exact h.gcore)
        (fun v hv => core_bumpErrs v (gv x) hv)
    · simp only [hsv, lstep]; exact h.score
    · simp only [lstep, isaErrs_modGs]; exact h.ierr
    · intro hok
      have := h.full hok
      simp only [hgv', hsv, lstep]
      exact ⟨full_modLast _ (gv x) _ L.gs bumpErrs (by rw [← hgv]; exact this.1) rfl, this.2⟩
    · intro hok i' g' k j hc; exact h.hd hok i' g' k j hc

theorem core_markDirty (v : SV) : (markDirty v).core = v.core := rfl

/-- an update of the last set that leaves the `core` alone and makes the set dirty -/
theorem sim_dirty_last (s s' : State) (L L' : Ledger) (h : SimV s L) (S : List St) (st st' : St)
    (hS : allS s.tree = S ++ [st]) (hS' : allS s'.tree = S ++ [st']) (hst : sv st' = markDirty (sv st))
    (hg : gviews s'.tree = gviews s.tree) (hi : (isaErrs s'.tree).sum = (isaErrs s.tree).sum)
    (l1 : L'.gs = L.gs) (l2 : L'.st = modLast markDirty L.st) (l3 : L'.isaErrs = L.isaErrs) (l4 : L'.ok = true → L.ok = true)
    (ha : L'.anchored = segAnch s'.curSeg) (he : L'.fresh = true → EleOk s') : Sim s' L' := by
  have hsv : sviews s.tree = S.map sv ++ [sv st] := by unfold sviews; rw [hS]; simp
  have hsv' : sviews s'.tree = S.map sv ++ [markDirty (sv st)] := by unfold sviews; rw [hS', ← hst]; simp
  refine ⟨⟨ha, he, ?_, ?_, ?_, ?_⟩, ?_⟩
  · rw [hg, l1]; exact h.gcore
  · rw [hsv', l2, map_core_markDirty, ← h.score, hsv]; simp [core_markDirty]
  · rw [hi, l3]; exact h.ierr
  · intro hok
    have := h.full (l4 hok)
    rw [hg, l1, hsv', l2]
    exact ⟨this.1, full_modLast _ (sv st) _ L.st markDirty (by rw [← hsv]; exact this.2) rfl⟩
  · intro hok i g k j _
    have := (h.full (l4 hok)).2
    rw [l2, ← this, hsv, modLast_snoc]
    exact ⟨_, _, rfl, rfl⟩

theorem sim_stError (s s' : State) (L : Ledger) (c : Str) (hp : PInv s) (h : Sim s L) (hs : stError s c = .ok s') :
    Sim s' (lstep L (.stError c)) := by
  unfold stError at hs
  cases hpp : s.curSt with
  | none => rw [hpp] at hs; cases hs
  | some p =>
    rw [hpp] at hs
    simp only [Res.ok.injEq] at hs
    subst hs
    obtain ⟨i, g, k⟩ := p
    obtain ⟨S, st, e1, _, e3⟩ := stLast_extract s.tree i g k (hp.st i g k hpp)
    refine sim_dirty_last s _ L _ h.toSimV S st _ e1 (e3 _) ?_ (gviews_modSt _ _ _ _ _) ?_ rfl rfl rfl (fun x => x) h.anch
      (fun hf => (h.ele hf).congr rfl rfl)
    · refine sv_dirty_eq st _ rfl rfl rfl rfl ?_
      simp only [St.errCount, List.length_append, List.length_singleton]
      omega
    · simp only [isaErrs_modSt]

theorem core_closeSV (v a : SV) (h : v.core = a.core) : (closeSV v).core = (closeSV a).core := by
  cases v; cases a; simp_all [SV.core, closeSV]

theorem sv_close (st : St) : sv st.close = closeSV (sv st) := by
  simp only [sv, St.close, closeSV, St.errCount, St.childErrCount, SV.mk.injEq, true_and]
  by_cases h : st.errors.length + (if segChildErrCount st.children > 0 then 1 else 0) > 0 <;> simp [h]

theorem sim_closeSt (s s' : State) (L : Ledger) (hp : PInv s) (h : Sim s L) (hs : closeStLoop s = .ok s') :
    Sim s' (lstep L .closeSt) := by
  unfold closeStLoop at hs
  cases hpp : s.curSt with
  | none => rw [hpp] at hs; cases hs
  | some p =>
    rw [hpp] at hs
    simp only [Res.ok.injEq] at hs
    subst hs
    obtain ⟨i, g, k⟩ := p
    obtain ⟨S, st, e1, _, e3⟩ := stLast_extract s.tree i g k (hp.st i g k hpp)
    have hsv : sviews s.tree = S.map sv ++ [sv st] := by unfold sviews; rw [e1]; simp
    have hsv' : sviews (modSt s.tree i g k St.close) = S.map sv ++ [closeSV (sv st)] := by
      unfold sviews; rw [e3, ← sv_close]; simp
    refine ⟨⟨rfl, (fun hf => by cases hf), ?_, ?_, ?_, ?_⟩, ?_⟩
    · simp only [lstep, gviews_modSt]; exact h.gcore
    · simp only [lstep, hsv']
      exact core_modLast SV.core _ (sv st) _ L.st closeSV (by rw [← hsv]; exact h.score)
        (fun v hv => core_closeSV v (sv st) hv)
    · simp only [lstep, isaErrs_modSt]; exact h.ierr
    · intro hok
      have := h.full hok
      simp only [lstep, gviews_modSt, hsv']
      exact ⟨this.1, full_modLast _ (sv st) _ L.st closeSV (by rw [← hsv]; exact this.2) rfl⟩
    · intro _ i' g' k' j hc; cases hc

theorem core_closeGV (sets : List SV) (o : Int) (r : Nat) (v a : GV) (h : v.core = a.core) :
    (closeGV sets o r v).core = ({ a with closed := true, orig := o, recv := r } : GV).core := by
  cases v; cases a; simp_all [GV.core, closeGV]

theorem gv_closeWith (x : Gs) (o : Int) (r : Nat) (sets : List SV) (A : List SV) (hs : sets = A ++ x.children.map sv) :
    gv (x.closeWith o r) = closeGV sets o r (gv x) := by
  have h1 : lastN (gv x).nsets sets = x.children.map sv := by
    rw [hs]; exact lastN_append _ _ _ (by simp [gv])
  simp only [gv, Gs.closeWith, closeGV, Gs.getAckCode, GV.mk.injEq, true_and, and_true]
  have h1' : lastN x.children.length sets = x.children.map sv := h1
  simp only [h1', anyDirty_map_sv]
  rfl

theorem sim_closeGs (s s' : State) (L : Ledger) (ge : GeCount) (recv : Nat) (hp : PInv s) (h : Sim s L)
    (hs : closeGsLoop s ge recv = .ok s') : Sim s' (lstep L (.closeGs ge recv)) := by
  unfold closeGsLoop at hs
  cases hg : s.curGs with
  | none => rw [hg] at hs; cases hs
  | some p =>
    rw [hg] at hs
    simp only [Res.ok.injEq] at hs
    subst hs
    obtain ⟨i, g⟩ := p
    obtain ⟨m, hm⟩ := hp.gs i g hg
    obtain ⟨G, x, e1, _, _, e4⟩ := gsLast_extract s.tree i g m hm
    have hgv : gviews s.tree = G.map gv ++ [gv x] := by unfold gviews; rw [e1]; simp
    have hgv' : gviews (modGs s.tree i g (fun g => g.closeWith ge.value recv)) =
        G.map gv ++ [gv (x.closeWith ge.value recv)] := by
      unfold gviews; rw [e4]; simp
    have hsv := sviews_modGs s.tree i g (fun g => g.closeWith ge.value recv) (fun _ => rfl)
    refine ⟨⟨rfl, (fun hf => by cases hf), ?_, ?_, ?_, ?_⟩, ?_⟩
    · simp only [hgv', lstep]
      refine core_modLast GV.core _ (gv x) _ L.gs (closeGV L.st ge.value recv) (by rw [← hgv]; exact h.gcore) ?_
      intro v hv
      rw [core_closeGV L.st ge.value recv v (gv x) hv]
      rfl
    · simp only [hsv, lstep]; exact h.score
    · simp only [lstep, isaErrs_modGs]; exact h.ierr
    · intro hok
      have := h.full hok
      simp only [hgv', hsv, lstep]
      refine ⟨full_modLast _ (gv x) _ L.gs _ (by rw [← hgv]; exact this.1) ?_, this.2⟩
      refine (gv_closeWith x ge.value recv L.st ((stsOf G).map sv) ?_).symm
      rw [← this.2]
      unfold sviews
      rw [allS_of_allG _ G x e1]; simp
    · intro _ i' g' k j hc; cases hc

end Pyx12Verif.DocC05
