/-
C05 at pipeline level, ledger side: `Ledger.ok` read off the event list (`eleFresh`): every `ele_error` comes after an
`add_ele` with no pointer-setting call (`add_seg`, a loop call) in between.
-/
import Pyx12Verif.Proofs.DocC05Spec

namespace Pyx12Verif.DocC05
open Pyx12Verif.ErrTree

def evAddEle : Event → Bool
  | .addEle _ _ _ => true
  | _ => false

def freshNext (f : Bool) (e : Event) : Bool :=
  if evStruct e || evAddSeg e then false else if evAddEle e then true else f

/-- every `ele_error` of the list meets a prepared element node; `f` = one is prepared before the list -/
def eleFresh : Bool → List Event → Bool
  | _, [] => true
  | f, e :: r => (!evEleError e || f) && eleFresh (freshNext f e) r

def freshAfter : Bool → List Event → Bool
  | f, [] => f
  | f, e :: r => freshAfter (freshNext f e) r

theorem lstep_fresh (L : Ledger) (e : Event) : (lstep L e).fresh = freshNext L.fresh e := by
  cases e <;> simp [lstep, freshNext, evStruct, evAddSeg, evAddEle, attach_fresh]

theorem lstep_ok' (L : Ledger) (e : Event) : (lstep L e).ok = (L.ok && (!evEleError e || L.fresh)) := by
  cases e <;> simp [lstep, evEleError, attach_ok]

theorem lrun_ok_fresh : ∀ (evs : List Event) (L : Ledger),
    (lrun L evs).ok = (L.ok && eleFresh L.fresh evs) ∧ (lrun L evs).fresh = freshAfter L.fresh evs := by
  intro evs
  induction evs with
  | nil => intro L; simp [lrun, eleFresh, freshAfter]
  | cons e r ih =>
    intro L
    obtain ⟨h1, h2⟩ := ih (lstep L e)
    rw [lrun_cons, h1, h2, lstep_ok', lstep_fresh]
    simp [eleFresh, freshAfter, Bool.and_assoc]

theorem ledger_ok (evs : List Event) : (ledger evs).ok = eleFresh false evs := by
  unfold ledger
  rw [(lrun_ok_fresh evs Ledger.init).1]
  simp [Ledger.init]

theorem eleFresh_append : ∀ (a b : List Event) (f : Bool),
    eleFresh f (a ++ b) = (eleFresh f a && eleFresh (freshAfter f a) b) := by
  intro a
  induction a with
  | nil => intro b f; simp [eleFresh, freshAfter]
  | cons e r ih => intro b f; simp [eleFresh, freshAfter, ih, Bool.and_assoc]

theorem freshAfter_append : ∀ (a b : List Event) (f : Bool), freshAfter f (a ++ b) = freshAfter (freshAfter f a) b := by
  intro a
  induction a with
  | nil => intro b f; rfl
  | cons e r ih => intro b f; simp [freshAfter, ih]

theorem freshNext_mono (e : Event) (f : Bool) (h : freshNext false e = true) : freshNext f e = true := by
  unfold freshNext at h ⊢
  split
  · rename_i h1; rw [if_pos h1] at h; exact h
  · rename_i h1
    rw [if_neg h1] at h
    split
    · rfl
    · rename_i h2; rw [if_neg h2] at h; cases h

theorem eleFresh_mono : ∀ (l : List Event) (f f' : Bool), (f = true → f' = true) → eleFresh f l = true →
    eleFresh f' l = true := by
  intro l
  induction l with
  | nil => intro _ _ _ _; rfl
  | cons e r ih =>
    intro f f' hff h
    simp only [eleFresh, Bool.and_eq_true, Bool.or_eq_true, Bool.not_eq_true'] at h ⊢
    refine ⟨?_, ih (freshNext f e) (freshNext f' e) ?_ h.2⟩
    · rcases h.1 with h1 | h1
      · exact Or.inl h1
      · exact Or.inr (hff h1)
    · intro hn
      unfold freshNext at hn ⊢
      split
      · rename_i h1; rw [if_pos h1] at hn; exact hn
      · rename_i h1
        rw [if_neg h1] at hn
        split
        · rfl
        · rename_i h2; rw [if_neg h2] at hn; exact hff hn

theorem eleFresh_of_noEle : ∀ (l : List Event) (f : Bool), (∀ e ∈ l, evEleError e = false) → eleFresh f l = true := by
  intro l
  induction l with
  | nil => intro _ _; rfl
  | cons e r ih =>
    intro f h
    simp only [eleFresh, h e (by simp), Bool.not_false, Bool.true_or, Bool.true_and]
    exact ih _ (fun x hx => h x (by simp [hx]))

/-- a list that is fresh on its own stays so after anything -/
theorem eleFresh_append_of (a b : List Event) (f : Bool) (ha : eleFresh f a = true) (hb : eleFresh false b = true) :
    eleFresh f (a ++ b) = true := by
  rw [eleFresh_append, ha, Bool.true_and]
  exact eleFresh_mono b false _ (fun h => by cases h) hb

end Pyx12Verif.DocC05
