/-
C02 helper lemmas, part 4: the simulation invariant between walker state `(cnt, cur)` and generator cursor.
-/
import Pyx12Verif.Proofs.WalkerScan
import Pyx12Verif.Proofs.WalkerStatic

namespace Pyx12Verif.WalkerGen
open Pyx12Verif.MapSkel Pyx12Verif.Walker

/-! ### more on counters and `satisfied` -/

theorem get_incr_ge (c : Counter) (k k' : PathKey) : c.get k' ≤ (c.incr k).get k' := by
  by_cases h : k = k'
  · subst h; rw [get_incr_same]; omega
  · rw [get_incr_other _ _ _ h]; omega

mutual
theorem satisfied_congr {cnt cnt' : Counter} : ∀ (c : Node) (key : PathKey),
    (∀ k', key <+: k' → cnt'.get k' = cnt.get k') → satisfied cnt' key c = satisfied cnt key c
  | .seg .., key, h => by simp [satisfied, h key (List.prefix_refl _)]
  | .loop _ _ u _ _ ch, key, h => by simp only [satisfied]; exact satHead_congr ch key u h
theorem satHead_congr {cnt cnt' : Counter} : ∀ (ch : List Node) (key : PathKey) (u : Nat),
    (∀ k', key <+: k' → cnt'.get k' = cnt.get k') → satHead cnt' key u ch = satHead cnt key u ch
  | [], _, _, _ => by simp [satHead]
  | .seg .. :: _, key, u, h => by simp [satHead, h key (List.prefix_refl _)]
  | .loop a b c d e ch :: r, key, u, h => by
    simp only [satHead]; exact satLoops_congr (.loop a b c d e ch :: r) key h
theorem satLoops_congr {cnt cnt' : Counter} : ∀ (ch : List Node) (key : PathKey),
    (∀ k', key <+: k' → cnt'.get k' = cnt.get k') → satLoops cnt' key ch = satLoops cnt key ch
  | [], _, _ => by simp [satLoops]
  | .seg .. :: r, key, h => by simp only [satLoops]; exact satLoops_congr r key h
  | .loop l a u b w ch :: r, key, h => by
    simp only [satLoops]
    rw [satHead_congr ch (key ++ [(l, 0)]) u (fun k' hk' => h k' (List.IsPrefix.trans (List.prefix_append _ _) hk')),
      satLoops_congr r key h]
end

mutual
theorem satisfied_of_optional {cnt : Counter} : ∀ (c : Node) (key : PathKey), optional c = true → satisfied cnt key c = true
  | .seg .., key, h => by simp only [optional] at h; simp [satisfied, h]
  | .loop _ _ u _ _ ch, key, h => by
    simp only [optional] at h; simp only [satisfied]; exact satHead_of_optional ch key u h
theorem satHead_of_optional {cnt : Counter} : ∀ (ch : List Node) (key : PathKey) (u : Nat),
    optHead u ch = true → satHead cnt key u ch = true
  | [], _, _, _ => by simp [satHead]
  | .seg .. :: _, key, u, h => by simp only [optHead] at h; simp [satHead, h]
  | .loop a b c d e ch :: r, key, u, h => by
    simp only [optHead] at h; simp only [satHead]; exact satLoops_of_optional (.loop a b c d e ch :: r) key h
theorem satLoops_of_optional {cnt : Counter} : ∀ (ch : List Node) (key : PathKey),
    optLoops ch = true → satLoops cnt key ch = true
  | [], _, _ => by simp [satLoops]
  | .seg .. :: r, key, h => by simp only [optLoops] at h; simp only [satLoops]; exact satLoops_of_optional r key h
  | .loop l a u b w ch :: r, key, h => by
    simp only [optLoops, Bool.and_eq_true] at h
    simp only [satLoops, Bool.and_eq_true]
    exact ⟨satHead_of_optional ch _ u h.1, satLoops_of_optional r key h.2⟩
end

theorem satLoops_of_forall {cnt : Counter} {key : PathKey} : ∀ (ch : List Node),
    (∀ (j : Nat) (c : Node), ch[j]? = some c → c.isSeg = false → satisfied cnt (key ++ [c.comp]) c = true) →
      satLoops cnt key ch = true
  | [], _ => by simp [satLoops]
  | .seg .. :: r, h => by
    simp only [satLoops]
    exact satLoops_of_forall r (fun j c hc hs => h (j + 1) c (by simpa using hc) hs)
  | .loop l a u b w ch :: r, h => by
    simp only [satLoops, Bool.and_eq_true]
    constructor
    · have := h 0 (.loop l a u b w ch) (by simp) rfl
      simpa [satisfied, Node.comp] using this
    · exact satLoops_of_forall r (fun j c hc hs => h (j + 1) c (by simpa using hc) hs)

/-- the two counters agree on every key that is not at or below `kk` -/
def AgreeOff (cnt cnt' : Counter) (kk : PathKey) : Prop := ∀ k', ¬ kk <+: k' → cnt'.get k' = cnt.get k'

theorem AgreeOff.refl (cnt : Counter) (kk : PathKey) : AgreeOff cnt cnt kk := fun _ _ => rfl

theorem AgreeOff.trans {a b c : Counter} {kk : PathKey} (h1 : AgreeOff a b kk) (h2 : AgreeOff b c kk) : AgreeOff a c kk :=
  fun k' hk' => by rw [h2 k' hk', h1 k' hk']

theorem AgreeOff.mono {a b : Counter} {kk kk' : PathKey} (h : AgreeOff a b kk') (hp : kk <+: kk') : AgreeOff a b kk :=
  fun k' hk' => h k' (fun hh => hk' (List.IsPrefix.trans hp hh))

theorem agreeOff_incr (cnt : Counter) (kk : PathKey) : AgreeOff cnt (cnt.incr kk) kk := by
  intro k' hk'
  exact get_incr_other _ _ _ (by intro e; subst e; exact hk' (List.prefix_refl _))

theorem agreeOff_enter (cnt : Counter) (kk : PathKey) (fc : Nat × Nat) : AgreeOff cnt (enterCnt cnt kk fc) kk := by
  intro k' hk'
  unfold enterCnt
  rw [get_incr_other _ _ _ (by intro e; subst e; exact hk' (List.prefix_append _ _)),
    get_incr_other _ _ _ (by intro e; subst e; exact hk' (List.prefix_refl _)),
    get_resetTo_other]
  cases h : isStrictPrefix kk k' with
  | false => rfl
  | true => exact absurd ((isStrictPrefix_iff _ _).mp h).1 hk'

/-- counts below a sibling's key are not affected by changes at or below `kk` -/
theorem sibling_not_prefix {lkey : PathKey} {a b : Nat × Nat} (hab : a ≠ b) {rest k' : PathKey}
    (hk : lkey ++ [a] <+: k') : ¬ (lkey ++ [b] ++ rest) <+: k' := by
  intro h
  have h2 : lkey ++ [b] <+: k' := List.IsPrefix.trans (List.prefix_append _ _) h
  exact hab (prefix_snoc_inj hk h2)

/-! ### list-prefix facts -/

theorem prefix_extend {α : Type} {l cur : List α} (h : l <+: cur) (hne : l ≠ cur) : ∃ a, l ++ [a] <+: cur := by
  obtain ⟨t, rfl⟩ := h
  cases t with
  | nil => simp at hne
  | cons a r => exact ⟨a, ⟨r, by simp⟩⟩

theorem prefix_snoc_cases {α : Type} {l cur : List α} {a : α} (h : l <+: cur ++ [a]) : l <+: cur ∨ l = cur ++ [a] := by
  rcases List.prefix_concat_iff.mp (by simpa using h) with h1 | h1
  · right; simpa using h1
  · left; exact h1

theorem prefix_eq_of_length {α : Type} {l cur : List α} (h : l <+: cur) (hl : l.length = cur.length) : l = cur :=
  List.IsPrefix.eq_of_length h hl

/-! ### the invariant -/

/-- counters of the children of one open loop instance (`lkey` its key, `i` the child the current node is in) -/
structure LevelInv (cnt : Counter) (lkey : PathKey) (ch : List Node) (i : Nat) : Prop where
  idx : ∃ c, ch[i]? = some c
  later : ∀ (j : Nat) (c : Node), i < j → ch[j]? = some c → ZeroUnder cnt (lkey ++ [c.comp])
  earlier : ∀ (j : Nat) (c : Node), j < i → ch[j]? = some c → satisfied cnt (lkey ++ [c.comp]) c = true
  here : ∀ c, ch[i]? = some c → counted c = true → 1 ≤ cnt.get (lkey ++ [c.comp])

structure Inv (root : List Node) (cnt : Counter) (cur : List Nat) : Prop where
  seg : ∃ n, nodeAt root cur = some n ∧ n.isSeg = true
  lev : ∀ p i, p ++ [i] <+: cur → ∃ ch, chAt root p = some ch ∧ LevelInv cnt (keyAt root p) ch i

/-- nothing required is outstanding after child `i` of the loop at `p` -/
def Complete (root : List Node) (cnt : Counter) (p : List Nat) (i : Nat) : Prop :=
  ∀ ch, chAt root p = some ch → ∀ (j : Nat) (c : Node), i < j → ch[j]? = some c →
    satisfied cnt (keyAt root p ++ [c.comp]) c = true

/-- the generator may emit child `j` of the loop at `q` next: `q` is on the path to the current node, all deeper
    open loops are complete, and the children between the current one and `j` are not outstanding -/
def ReadyOn (root : List Node) (cnt : Counter) (cur q : List Nat) (j : Nat) : Prop :=
  ∃ i, q ++ [i] <+: cur ∧ i ≤ j ∧
    (∀ ch, chAt root q = some ch → ∀ (j' : Nat) (c : Node), i < j' → j' < j → ch[j']? = some c →
      satisfied cnt (keyAt root q ++ [c.comp]) c = true) ∧
    (∀ p i', (q ++ [i]) <+: p → p ++ [i'] <+: cur → Complete root cnt p i')

theorem Inv.cur_ne_nil {root : List Node} {cnt : Counter} {cur : List Nat} (h : Inv root cnt cur) : cur ≠ [] := by
  obtain ⟨n, hn, _⟩ := h.seg
  intro e; subst e; simp [nodeAt] at hn

/-- the path child of every level satisfies its own requirement, provided the deeper levels are complete -/
theorem path_sat {root : List Node} {cnt : Counter} {cur : List Nat} (hinv : Inv root cnt cur) :
    ∀ (n : Nat) (p : List Nat) (i : Nat), p ++ [i] <+: cur → cur.length = p.length + 1 + n →
      (∀ p' i', p ++ [i] <+: p' → p' ++ [i'] <+: cur → Complete root cnt p' i') →
      ∀ ch c, chAt root p = some ch → ch[i]? = some c → satisfied cnt (keyAt root p ++ [c.comp]) c = true := by
  intro n
  induction n with
  | zero =>
    intro p i hp hlen _ ch c hch hc
    have hcur : p ++ [i] = cur := prefix_eq_of_length hp (by simp; omega)
    obtain ⟨nd, hnd, hseg⟩ := hinv.seg
    rw [← hcur, nodeAt_snoc hch, hc] at hnd
    simp only [Option.some.injEq] at hnd; subst hnd
    obtain ⟨ch', hch', hl⟩ := hinv.lev p i hp
    rw [hch] at hch'; simp only [Option.some.injEq] at hch'; subst hch'
    cases c with
    | loop => simp [Node.isSeg] at hseg
    | seg a b c d e f g =>
      have := hl.here _ hc rfl
      simp only [satisfied, Bool.or_eq_true, bne_iff_ne, decide_eq_true_eq]
      right; exact this
  | succ n ih =>
    intro p i hp hlen hcomp ch c hch hc
    have hne : p ++ [i] ≠ cur := by intro e; rw [← e] at hlen; simp at hlen
    obtain ⟨i', hi'⟩ := prefix_extend hp hne
    obtain ⟨sub, hsub, hl'⟩ := hinv.lev (p ++ [i]) i' hi'
    obtain ⟨ch', lid, pos, u, r, w, hch', hci, _⟩ := nodeAt_of_chAt hsub
    rw [hch] at hch'; simp only [Option.some.injEq] at hch'; subst hch'
    rw [hc] at hci; simp only [Option.some.injEq] at hci; subst hci
    obtain ⟨ch0, hch0, hl⟩ := hinv.lev p i hp
    rw [hch] at hch0; simp only [Option.some.injEq] at hch0; subst hch0
    obtain ⟨c', hc'⟩ := hl'.idx
    have hkey : keyAt root (p ++ [i]) = keyAt root p ++ [(Node.loop lid pos u r w sub).comp] := keyAt_snoc hch hc
    cases sub with
    | nil => simp at hc'
    | cons first rest =>
      cases first with
      | seg a b c d e f g =>
        have := hl.here _ hc (by simp [counted, firstIsSeg, Node.isSeg])
        simp only [satisfied, satHead, Bool.or_eq_true, bne_iff_ne, decide_eq_true_eq]
        right; exact this
      | loop a b c d e f =>
        simp only [satisfied, satHead]
        apply satLoops_of_forall
        intro j cj hcj _
        rw [← hkey]
        rcases Nat.lt_trichotomy j i' with hlt | heq | hgt
        · exact hl'.earlier j cj hlt hcj
        · subst heq
          exact ih (p ++ [i]) j hi' (by simp at hlen ⊢; omega)
            (fun p' i'' h1 h2 => hcomp p' i'' (List.IsPrefix.trans (List.prefix_append _ _) h1) h2) _ cj hsub hcj
        · exact hcomp (p ++ [i]) i' (List.prefix_refl _) hi' _ hsub j cj hgt hcj

/-- every child of a complete level is satisfied -/
theorem level_all_sat {root : List Node} {cnt : Counter} {cur : List Nat} (hinv : Inv root cnt cur)
    {p : List Nat} {i : Nat} (hp : p ++ [i] <+: cur)
    (hcomp : ∀ p' i', p ++ [i] <+: p' → p' ++ [i'] <+: cur → Complete root cnt p' i')
    (hc0 : Complete root cnt p i) {ch : List Node} (hch : chAt root p = some ch) {j : Nat} {c : Node} (hc : ch[j]? = some c) :
    satisfied cnt (keyAt root p ++ [c.comp]) c = true := by
  obtain ⟨ch0, hch0, hl⟩ := hinv.lev p i hp
  rw [hch] at hch0; simp only [Option.some.injEq] at hch0; subst hch0
  rcases Nat.lt_trichotomy j i with hlt | heq | hgt
  · exact hl.earlier j c hlt hc
  · subst heq
    have hlen : (p ++ [j]).length ≤ cur.length := List.IsPrefix.length_le hp
    exact path_sat hinv (cur.length - (p.length + 1)) p j hp (by simp at hlen; omega) hcomp _ c hch hc
  · exact hc0 _ hch j c hgt hc

/-! ### leaving complete levels -/

/-- all levels strictly between `P` and the level of `p` (inclusive `p`) are passed without effect: the walk
    continues at `P` with the same state -/
theorem walkUp_pop {K : Consts} {root : List Node} {rootId : Nat} {s : SegData} {origLoop : NodeId} {orig : List Nat}
    {cnt : Counter} {cur : List Nat} (hinv : Inv root cnt cur) (st : WState) (hst : st.cnt = cnt) (P : List Nat) :
    ∀ (n : Nat) (p : List Nat) (i : Nat), P <+: p → p.length = P.length + n → p ++ [i] <+: cur →
      (∀ p' i' ch', P <+: p' → p' ≠ P → p' ++ [i'] <+: p ++ [i] → chAt root p' = some ch' →
        ∀ c ∈ ch', Passes K s cnt (keyAt root p') (posAt root (p' ++ [i'])) c) →
      ∀ pops, ∃ iP pops', P ++ [iP] <+: cur ∧
        walkUp K root rootId s origLoop orig p.reverse (posAt root (p ++ [i])) pops st =
        walkUp K root rootId s origLoop orig P.reverse (posAt root (P ++ [iP])) pops' st := by
  intro n
  induction n with
  | zero =>
    intro p i hPp hlen hp _ pops
    have : P = p := prefix_eq_of_length hPp (by omega)
    subst this
    exact ⟨i, pops, hp, rfl⟩
  | succ n ih =>
    intro p i hPp hlen hp hdead pops
    have hpne : p ≠ [] := by intro e; subst e; simp at hlen
    obtain ⟨p0, a, rfl⟩ : ∃ p0 a, p = p0 ++ [a] := ⟨p.dropLast, p.getLast hpne, (List.dropLast_concat_getLast hpne).symm⟩
    obtain ⟨ch', hch', _⟩ := hinv.lev (p0 ++ [a]) i hp
    obtain ⟨ln, nid, hln, hlnch, _, hw⟩ := walkUp_level (K := K) (rootId := rootId) (s := s) (origLoop := origLoop)
      (orig := orig) hch' (posAt root (p0 ++ [a] ++ [i])) pops st
    have hPne : p0 ++ [a] ≠ P := by intro e; rw [e] at hlen; omega
    have hpass : ∀ c ∈ ch', Passes K s st.cnt (keyAt root (p0 ++ [a])) (posAt root (p0 ++ [a] ++ [i])) c := by
      intro c hc
      rw [hst]
      exact hdead (p0 ++ [a]) i ch' hPp hPne (List.prefix_refl _) hch' c hc
    rw [hw, scan_all_pass _ _ _ _ _ _ _ _ _ _ hpass]
    simp only
    have hP0 : P <+: p0 := by
      rcases prefix_snoc_cases hPp with h | h
      · exact h
      · exact absurd h.symm hPne
    have hp0 : p0 ++ [a] <+: cur := List.IsPrefix.trans (List.prefix_append _ _) hp
    exact ih p0 a hP0 (by simp at hlen; omega) hp0
      (fun p' i' ch'' h1 h2 h3 h4 => hdead p' i' ch'' h1 h2 (List.IsPrefix.trans h3 (List.prefix_append _ _)) h4) _

theorem walk_unfold {K : Consts} {root : List Node} {rootId : Nat} {cnt : Counter} {cur : List Nat}
    (hinv : Inv root cnt cur) (s : SegData) :
    ∃ oL i0, cur = cur.dropLast ++ [i0] ∧
      walk K root rootId cnt cur s =
        walkUp K root rootId s oL cur cur.dropLast.reverse (posAt root (cur.dropLast ++ [i0])) []
          { cnt := cnt, pending := [], errs := [] } := by
  obtain ⟨n, hn, _⟩ := hinv.seg
  have hne := hinv.cur_ne_nil
  refine ⟨(idAt root cur.dropLast, idAt root cur.dropLast.dropLast), cur.getLast hne,
    (List.dropLast_concat_getLast hne).symm, ?_⟩
  rw [List.dropLast_concat_getLast hne]
  simp only [walk, hn, posAt]

/-- two prefixes of one list: the shorter is a prefix of the longer -/
theorem prefix_of_longer {α : Type} {a b cur : List α} (ha : a <+: cur) (hb : b <+: cur) (hl : a.length ≤ b.length) :
    a <+: b := List.prefix_of_prefix_length_le ha hb hl

theorem path_idx_unique {cur p : List Nat} {i i' : Nat} (h1 : p ++ [i] <+: cur) (h2 : p ++ [i'] <+: cur) : i = i' :=
  prefix_snoc_inj h1 h2

/-- the walk leaves the complete levels below `P` and scans the children of `P` up to child `j` without effect -/
theorem reach_level {K : Consts} {root : List Node} {rootId : Nat} {s : SegData} {cnt : Counter} {cur : List Nat}
    (hinv : Inv root cnt cur) {P : List Nat} {iP : Nat} (hP : P ++ [iP] <+: cur)
    (hdead : ∀ p' i' ch', P <+: p' → p' ≠ P → p' ++ [i'] <+: cur → chAt root p' = some ch' →
      ∀ c ∈ ch', Passes K s cnt (keyAt root p') (posAt root (p' ++ [i'])) c)
    {ch : List Node} (hch : chAt root P = some ch) {j : Nat} {c : Node} (hc : ch[j]? = some c)
    (hpre : ∀ (j' : Nat) (c' : Node), j' < j → ch[j']? = some c' →
      Passes K s cnt (keyAt root P) (posAt root (P ++ [iP])) c') :
    ∃ loopNode nid oL pops,
      (P = [] ∧ loopNode = none ∨
        ∃ P0 a ln, P = P0 ++ [a] ∧ loopNode = some ln ∧ nodeAt root P = some ln ∧ ln.children = ch ∧ ln.isSeg = false) ∧
      ∀ r, scanChildren K s P (keyAt root P) loopNode nid oL (posAt root (P ++ [iP])) pops j
          { cnt := cnt, pending := [], errs := [] } (c :: ch.drop (j + 1)) = .found r →
        walk K root rootId cnt cur s = r := by
  obtain ⟨oL, i0, hcur, hwalk⟩ := walk_unfold (K := K) (rootId := rootId) hinv s
  have hcd : cur.dropLast ++ [i0] <+: cur := by rw [← hcur]; exact List.prefix_refl _
  have hPcd : P <+: cur.dropLast := by
    have h1 : P <+: cur := List.IsPrefix.trans (List.prefix_append _ _) hP
    have hlen : (P ++ [iP]).length ≤ cur.length := List.IsPrefix.length_le hP
    have h2 : cur.dropLast <+: cur := List.dropLast_prefix cur
    exact prefix_of_longer h1 h2 (by simp at hlen ⊢; omega)
  obtain ⟨iP', pops', hP', hpop⟩ := walkUp_pop (K := K) (rootId := rootId) (s := s) (origLoop := oL) (orig := cur)
    hinv { cnt := cnt, pending := [], errs := [] } rfl P (cur.dropLast.length - P.length) cur.dropLast i0 hPcd
    (by have := List.IsPrefix.length_le hPcd; omega) hcd
    (fun p' i' ch' h1 h2 h3 h4 => hdead p' i' ch' h1 h2 (List.IsPrefix.trans h3 hcd) h4) []
  have hiP : iP' = iP := path_idx_unique hP' hP
  subst hiP
  have hsplit : ch = ch.take j ++ c :: ch.drop (j + 1) := by
    have hj : j < ch.length := by
      rcases Nat.lt_or_ge j ch.length with h | h
      · exact h
      · rw [List.getElem?_eq_none h] at hc; cases hc
    have : ch[j] = c := by rw [List.getElem?_eq_getElem hj] at hc; simpa using hc
    rw [← this]; simp
  have hlen : (ch.take j).length = j := by
    have hj : j < ch.length := by
      rcases Nat.lt_or_ge j ch.length with h | h
      · exact h
      · rw [List.getElem?_eq_none h] at hc; cases hc
    simp; omega
  have hpass : ∀ c' ∈ ch.take j, Passes K s cnt (keyAt root P) (posAt root (P ++ [iP'])) c' := by
    intro c' hc'
    obtain ⟨j', hj'⟩ := List.mem_iff_getElem?.mp hc'
    rw [List.getElem?_take] at hj'
    split at hj'
    · rename_i hlt; exact hpre j' c' hlt hj'
    · cases hj'
  rcases List.eq_nil_or_concat P with hnil | ⟨P0, a, hPa⟩
  · subst hnil
    refine ⟨none, (rootId, 0), oL, pops', Or.inl ⟨rfl, rfl⟩, ?_⟩
    intro r hr
    rw [hwalk, hpop]
    simp only [List.reverse_nil]
    rw [walkUp_root]
    simp only [chAt, Option.some.injEq] at hch
    subst hch
    have hk : keyAt root [] = [] := by simp [keyAt]
    rw [hk] at hr hpass
    have hsk := scan_skips_nonmatching (K := K) (s := s) [] [] none (rootId, 0) oL (posAt root ([] ++ [iP'])) pops'
      { cnt := cnt, pending := [], errs := [] } (root.take j) (c :: root.drop (j + 1)) 0 hpass
    rw [← hsplit, hlen, Nat.zero_add] at hsk
    rw [hsk, hr]
  · rw [List.concat_eq_append] at hPa
    subst hPa
    obtain ⟨ln, nid, hln, hlnch, hlnseg, hw⟩ := walkUp_level (K := K) (rootId := rootId) (s := s) (origLoop := oL)
      (orig := cur) hch (posAt root (P0 ++ [a] ++ [iP'])) pops' { cnt := cnt, pending := [], errs := [] }
    refine ⟨some ln, nid, oL, pops', Or.inr ⟨P0, a, ln, rfl, rfl, hln, hlnch, hlnseg⟩, ?_⟩
    intro r hr
    rw [hwalk, hpop, hw]
    have hsk := scan_skips_nonmatching (K := K) (s := s) (P0 ++ [a]) (keyAt root (P0 ++ [a])) (some ln) nid oL
      (posAt root (P0 ++ [a] ++ [iP'])) pops' { cnt := cnt, pending := [], errs := [] } (ch.take j)
      (c :: ch.drop (j + 1)) 0 hpass
    rw [← hsplit, hlen, Nat.zero_add] at hsk
    rw [hsk, hr]

end Pyx12Verif.WalkerGen
