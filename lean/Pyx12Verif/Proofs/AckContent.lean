/- Identifiers and contents of the lines the 997 visitor writes. -/
import Pyx12Verif.Proofs.AckStructure

namespace Pyx12Verif.Ack
open Pyx12Verif.ErrTree

/-! ### `Segment(seg_str)` keeps the identifier -/

theorem splitOn_head (sep : Char) (a b : Str) (h : sep ∉ a) : (splitOn sep (a ++ sep :: b)).head? = some a := by
  rw [splitOn_append_sep sep a b h]; rfl

theorem dropLast_prefix (a : Str) (x : Char) (t : Str) : (a ++ x :: t).dropLast = a ++ (x :: t).dropLast := by
  induction a with
  | nil => rfl
  | cons c r ih =>
    cases r with
    | nil => simp
    | cons d r' => simp [List.dropLast] at ih ⊢

theorem mkSegOf_id (l : List Str) (a : Str) (h : l.head? = some a) : (mkSegOf l).id = a := by
  cases l with
  | nil => simp at h
  | cons x r => simp at h; simp [mkSegOf, h]

theorem splitOn_head_self (sep : Char) (a : Str) (h : sep ∉ a) : (splitOn sep a).head? = some a := by
  rw [splitOn_no_sep sep a h]; rfl

/-- the identifier of `Segment(a + '*' + rest)` is `a` -/
theorem mkSeg_id (a rest : Str) (h : '*' ∉ a) : (mkSeg (a ++ '*' :: rest)).id = a := by
  unfold mkSeg stripTerm
  split
  · rw [dropLast_prefix]
    cases rest with
    | nil => simp [List.dropLast]; exact mkSegOf_id _ _ (splitOn_head_self '*' a h)
    | cons c r =>
      have : ('*' :: c :: r).dropLast = '*' :: (c :: r).dropLast := by simp [List.dropLast]
      rw [this]; exact mkSegOf_id _ _ (splitOn_head '*' a _ h)
  · exact mkSegOf_id _ _ (splitOn_head '*' a _ h)

theorem format_eq (s : PSeg) : s.format = s.id ++ '*' :: (joinWith '*' (fmtFields s) ++ ['~']) := rfl

theorem mkSeg_format_id (s : PSeg) (h : '*' ∉ s.id) : (mkSeg s.format).id = s.id := by
  rw [format_eq]; exact mkSeg_id _ _ h

theorem starJoin_cons (a b : Str) (r : List Str) : starJoin (a :: b :: r) = a ++ '*' :: starJoin (b :: r) := rfl

theorem mkSeg_starJoin_id (a b : Str) (r : List Str) (h : '*' ∉ a) : (mkSeg (starJoin (a :: b :: r))).id = a := by
  rw [starJoin_cons]; exact mkSeg_id _ _ h

/-! ### identifiers of the written lines -/

theorem no_star_AK3 : '*' ∉ sAK3 := by decide
theorem no_star_AK4 : '*' ∉ sAK4 := by decide
theorem no_star_IK3 : '*' ∉ sIK3 := by decide
theorem no_star_IK4 : '*' ∉ sIK4 := by decide

theorem segLinesWith_id (i : Str) (b : PSeg) (hb : b.id = i) (hi : '*' ∉ i) (valid : List Str) (s : Seg) :
    ∀ l ∈ segLinesWith b.format valid s, l.id = i := by
  intro l hl
  have hid : (mkSeg b.format).id = i := by rw [mkSeg_format_id b (hb ▸ hi), hb]
  simp only [segLinesWith, List.mem_append, List.mem_map] at hl
  rcases hl with ⟨c, _, rfl⟩ | hl
  · simp [hid]
  · split at hl
    · simp at hl; subst hl; simp [hid]
    · simp at hl

theorem segBase997_id (s : Seg) : ∀ l ∈ segLines997 s, l.id = sAK3 := by
  unfold segLines997 segBase997
  exact segLinesWith_id sAK3 _ (by simp [bare]) no_star_AK3 _ s

theorem eleLinesWith_id (i : Str) (b : PSeg) (hb : b.id = i) (hi : '*' ∉ i) (valid : List Str) (e : Ele) :
    ∀ l ∈ eleLinesWith b.format valid e, l.id = i := by
  intro l hl
  have hid : (mkSeg b.format).id = i := by rw [mkSeg_format_id b (hb ▸ hi), hb]
  simp only [eleLinesWith, List.mem_map] at hl
  rcases hl with ⟨x, _, rfl⟩
  unfold eleErrLine
  split <;> simp [hid]

theorem eleBase997_id (e : Ele) : ∀ l ∈ eleLines997 e, l.id = sAK4 := by
  unfold eleLines997 eleBase997
  apply eleLinesWith_id sAK4 _ _ no_star_AK4
  simp only [bare]
  split <;> split <;> simp

theorem elesLines_mem (f : Ele → List PSeg) (l : List Ele) (x : PSeg) (h : x ∈ elesLines f l) : ∃ e ∈ l, x ∈ f e := by
  induction l with
  | nil => simp [elesLines] at h
  | cons e r ih =>
    simp only [elesLines, List.mem_append] at h
    rcases h with h | h
    · exact ⟨e, by simp, h⟩
    · obtain ⟨e', he', hx⟩ := ih h; exact ⟨e', by simp [he'], hx⟩

theorem segsLines_mem (fs : Seg → List PSeg) (fe : Ele → List PSeg) (l : List Seg) (x : PSeg)
    (h : x ∈ segsLines fs fe l) : ∃ s ∈ l, x ∈ fs s ∨ ∃ e ∈ s.elements, x ∈ fe e := by
  induction l with
  | nil => simp [segsLines] at h
  | cons s r ih =>
    simp only [segsLines, List.mem_append] at h
    rcases h with (h | h) | h
    · exact ⟨s, by simp, Or.inl h⟩
    · exact ⟨s, by simp, Or.inr (elesLines_mem fe _ x h)⟩
    · obtain ⟨s', hs', hx⟩ := ih h; exact ⟨s', by simp [hs'], hx⟩

/-- body lines of a set are AK3 / AK4 -/
theorem segsLines997_ids (l : List Seg) : ∀ x ∈ segsLines segLines997 eleLines997 l, x.id = sAK3 ∨ x.id = sAK4 := by
  intro x hx
  obtain ⟨s, _, h | ⟨e, _, h⟩⟩ := segsLines_mem _ _ l x hx
  · exact Or.inl (segBase997_id s x h)
  · exact Or.inr (eleBase997_id e x h)

/-! ### a set whose lines are complete -/

def ak2Seg997 (i c : Str) : PSeg := ((bare sAK2).append i).append (strip c)
def ak5Seg997 (s : St) (codes : List Str) : PSeg := appendAll ((bare sAK5).append s.ackCode) (codes.take 5)

theorem andThen_crash_none (a b : Lines) (h : (a.andThen b).crash = none) :
    a.crash = none ∧ b.crash = none ∧ (a.andThen b).segs = a.segs ++ b.segs := by
  unfold Lines.andThen at h ⊢
  cases ha : a.crash with
  | some c => simp [ha] at h
  | none => simp [ha] at h ⊢; exact h

theorem stLines997_ok (cfg : Cfg) (s : St) (h : (stLines997 cfg s).crash = none) :
    ∃ i c codes, s.trnSetId = some i ∧ s.ctlNum = some c ∧ getStErrors cfg s = .ok codes ∧
      (stLines997 cfg s).segs =
        ak2Seg997 i c :: (segsLines segLines997 eleLines997 s.children ++ [ak5Seg997 s codes]) := by
  unfold stLines997 at h ⊢
  obtain ⟨h12, h3, e3⟩ := andThen_crash_none _ _ h
  obtain ⟨h1, _, e12⟩ := andThen_crash_none _ _ h12
  rw [e3, e12]
  cases hi : s.trnSetId with
  | none => simp [ak2Lines997, hi, Lines.fail] at h1
  | some i =>
    cases hc : s.ctlNum with
    | none => simp [ak2Lines997, hi, hc, Lines.fail] at h1
    | some c =>
      cases hk : getStErrors cfg s with
      | error e => simp [ak5Lines997, hk, Lines.fail] at h3
      | ok codes =>
        exact ⟨i, c, codes, rfl, rfl, rfl, by simp [ak2Lines997, hi, hc, ak5Lines997, hk, Lines.ok, ak2Seg997, ak5Seg997]⟩

theorem stsLines_cons_ok (f : St → Lines) (s : St) (r : List St) (h : (stsLines f (s :: r)).crash = none) :
    (f s).crash = none ∧ (stsLines f r).crash = none ∧ (stsLines f (s :: r)).segs = (f s).segs ++ (stsLines f r).segs := by
  simp only [stsLines] at h ⊢
  exact andThen_crash_none _ _ h

theorem ak2Seg997_id (i c : Str) : (ak2Seg997 i c).id = sAK2 := rfl
theorem ak5Seg997_id (s : St) (codes : List Str) : (ak5Seg997 s codes).id = sAK5 := by
  simp [ak5Seg997, appendAll_id, bare]

/-- every line written for the sets of a group is AK2 / AK3 / AK4 / AK5 -/
theorem gsLines_ids (cfg : Cfg) (l : List St) (h : (stsLines (stLines997 cfg) l).crash = none) :
    ∀ x ∈ (stsLines (stLines997 cfg) l).segs, x.id = sAK2 ∨ x.id = sAK3 ∨ x.id = sAK4 ∨ x.id = sAK5 := by
  induction l with
  | nil => simp [stsLines, Lines.ok]
  | cons s r ih =>
    obtain ⟨h1, h2, e⟩ := stsLines_cons_ok _ s r h
    obtain ⟨i, c, codes, _, _, _, es⟩ := stLines997_ok cfg s h1
    intro x hx
    rw [e, es] at hx
    simp only [List.mem_append, List.mem_cons, List.not_mem_nil, or_false] at hx
    rcases hx with (rfl | hx | rfl) | hx
    · exact Or.inl (ak2Seg997_id i c)
    · rcases segsLines997_ids _ x hx with h | h
      · exact Or.inr (Or.inl h)
      · exact Or.inr (Or.inr (Or.inl h))
    · exact Or.inr (Or.inr (Or.inr (ak5Seg997_id s codes)))
    · exact ih h2 x hx

end Pyx12Verif.Ack

namespace Pyx12Verif.Ack
open Pyx12Verif.ErrTree

/-! ### `Segment('a*b*c')` for delimiter-free parts -/

def Safe (v : Str) : Prop := '*' ∉ v ∧ ':' ∉ v ∧ '~' ∉ v

theorem mem_joinWith (sep : Char) (parts : List Str) (c : Char) (h : c ∈ joinWith sep parts) :
    c = sep ∨ ∃ p ∈ parts, c ∈ p := by
  induction parts with
  | nil => simp [joinWith] at h
  | cons x r ih =>
    cases r with
    | nil => simp [joinWith] at h; exact Or.inr ⟨x, by simp, h⟩
    | cons y t =>
      simp only [joinWith, List.mem_append, List.mem_cons] at h
      rcases h with h | rfl | h
      · exact Or.inr ⟨x, by simp, h⟩
      · exact Or.inl rfl
      · rcases ih h with h | ⟨p, hp, hc⟩
        · exact Or.inl h
        · exact Or.inr ⟨p, by simp [hp], hc⟩

theorem stripTerm_id (s : Str) (h : '~' ∉ s) : stripTerm s = s := by
  unfold stripTerm
  split
  · rename_i hl
    obtain ⟨l', rfl⟩ := List.getLast?_eq_some_iff.mp hl
    simp at h
  · rfl

theorem mkSeg_starJoin_safe (parts : List Str) (hne : parts ≠ []) (h : ∀ p ∈ parts, '*' ∉ p ∧ '~' ∉ p) :
    mkSeg (starJoin parts) = mkSegOf parts := by
  unfold mkSeg starJoin
  rw [stripTerm_id, splitOn_joinWith '*' parts hne (fun p hp => (h p hp).1)]
  intro hm
  rcases mem_joinWith _ _ _ hm with e | ⟨p, hp, hc⟩
  · revert e; decide
  · exact (h p hp).2 hc

theorem natStr_ne_nil (n : Nat) : natStr n ≠ [] := by
  unfold natStr
  have : ∀ f n acc, acc ≠ [] ∨ f > 0 → natDigitsAux f n acc ≠ [] := by
    intro f
    induction f with
    | zero => intro n acc h; rcases h with h | h; simpa [natDigitsAux] using h; omega
    | succ f ih =>
      intro n acc _
      simp only [natDigitsAux]
      split
      · simp
      · exact ih _ _ (Or.inl (by simp))
  exact this _ _ _ (Or.inr (by omega))

/-! ### `sorted(set(...))` keeps exactly the members -/

theorem mem_insertU (x y : Str) (l : List Str) : y ∈ insertU x l ↔ y = x ∨ y ∈ l := by
  induction l with
  | nil => simp [insertU]
  | cons z r ih =>
    simp only [insertU]
    split
    · rename_i h; subst h; simp
    · split
      · simp
      · simp [ih]; constructor
        · rintro (h | h | h) <;> simp [h]
        · rintro (h | h | h) <;> simp [h]

theorem mem_sortU (y : Str) (l : List Str) : y ∈ sortU l ↔ y ∈ l := by
  induction l with
  | nil => simp [sortU]
  | cons x r ih => simp [sortU, mem_insertU, ih]

/-! ### contiguous pieces of the output -/

def Infix (a b : List PSeg) : Prop := ∃ pre post, b = pre ++ a ++ post

theorem Infix.refl (a : List PSeg) : Infix a a := ⟨[], [], by simp⟩
theorem Infix.trans {a b c : List PSeg} (h1 : Infix a b) (h2 : Infix b c) : Infix a c := by
  obtain ⟨p1, q1, rfl⟩ := h1
  obtain ⟨p2, q2, rfl⟩ := h2
  exact ⟨p2 ++ p1, q1 ++ q2, by simp⟩
theorem Infix.left (a b : List PSeg) : Infix a (a ++ b) := ⟨[], b, by simp⟩
theorem Infix.right (a b : List PSeg) : Infix b (a ++ b) := ⟨a, [], by simp⟩
theorem Infix.mem {a b : List PSeg} (h : Infix a b) (x : PSeg) (hx : x ∈ a) : x ∈ b := by
  obtain ⟨p, q, rfl⟩ := h; simp [hx]

/-- the lines of every set of a group are a contiguous piece of the group's lines -/
theorem stLines_infix (cfg : Cfg) (l : List St) (st : St) (hst : st ∈ l)
    (h : (stsLines (stLines997 cfg) l).crash = none) :
    (stLines997 cfg st).crash = none ∧ Infix (stLines997 cfg st).segs (stsLines (stLines997 cfg) l).segs := by
  induction l with
  | nil => simp at hst
  | cons s r ih =>
    obtain ⟨h1, h2, e⟩ := stsLines_cons_ok _ s r h
    simp at hst
    rcases hst with rfl | hst
    · exact ⟨h1, by rw [e]; exact Infix.left _ _⟩
    · obtain ⟨i1, i2⟩ := ih hst h2
      exact ⟨i1, by rw [e]; exact i2.trans (Infix.right _ _)⟩

theorem block_infix (cfg : Cfg) (n : Nat) (g : Gs) : Infix (gsLines cfg g).segs (block997 cfg n g) := by
  unfold block997
  exact ⟨[stSeg997 n, ak1Seg997 g], [ak9Seg997 g, seSeg997 ((gsLines cfg g).segs.length + 4) n], by simp⟩

theorem blocks_infix (cfg : Cfg) (n : Nat) (l : List Gs) (g : Gs) (hg : g ∈ l) :
    ∃ m, Infix (block997 cfg m g) (blocks997 cfg n l) := by
  induction l generalizing n with
  | nil => simp at hg
  | cons x r ih =>
    simp at hg
    rcases hg with rfl | hg
    · exact ⟨n + 1, by simp only [blocks997]; exact Infix.left _ _⟩
    · obtain ⟨m, hm⟩ := ih (n + 1) hg
      exact ⟨m, by simp only [blocks997]; exact hm.trans (Infix.right _ _)⟩

theorem mem_allGs (t : Tree) (a : Isa) (g : Gs) (ha : a ∈ t) (hg : g ∈ a.children) : g ∈ allGs t := by
  induction t with
  | nil => simp at ha
  | cons x r ih =>
    simp at ha
    rcases ha with rfl | ha
    · simp [allGs, hg]
    · simp [allGs, ih ha]

end Pyx12Verif.Ack
