/-
Helper lemmas for `Props/Doc.lean` (1): which exceptions can leave the end-to-end model `Doc.validateDoc`.

Assembled from the component results (used unchanged): C01 `raw_chunk_independent`, `reader_never_crashes`,
`readLines_clean` (through `Pipeline.readAll_of_text`, `Pipeline.reader_segments_nonEmpty`), C04 `Envelope.step_noCrash`,
C14 `Syn.no_crash`, and the `get_value` lemmas of Props/C07.lean.
-/
import Pyx12Verif.Model.Document
import Pyx12Verif.Props.C07

namespace Pyx12Verif.Doc
open Pyx12Verif

/-- the crash sites that remain possible: the err_handler AttributeErrors (call-site findings of C07), the undefined data
    element (D30), and the two "`Maps` is not a consistent translation" sites of the model -/
def Site.Allowed (s : Site) : Prop := s = .dataEle ∨ s = .nodeNone ∨ s = .noSegDef ∨ ∃ e, s = .errTree e

/-- what the translator guarantees of every segment definition (C14 / C16 facts about the shipped maps) -/
def SegDefWF (sd : SegDef) : Prop := sd.children.length < 99 ∧ Syn.AllWF sd.notes

def MapsWF (ms : Maps) : Prop := ∀ m ∈ ms.maps, ∀ p ∈ m.defs, SegDefWF p.2

abbrev NonEmptyComps := Pipeline.NonEmptyComps

/-! ### node.is_valid -/

def ERes.Safe (r : ERes) : Prop := ∀ site, r = .crash site → site = .dataEle

theorem ERes.ok_safe (v : Bool) (evs : List Event) : (ERes.ok v evs).Safe := by
  intro site h; cases h

theorem andThen_safe {a b : ERes} (ha : a.Safe) (hb : b.Safe) : (a.andThen b).Safe := by
  intro site h
  cases a with
  | crash s => simp only [ERes.andThen] at h; exact ha site h
  | ok v x =>
    cases b with
    | crash s => simp only [ERes.andThen] at h; exact hb site h
    | ok w y => simp [ERes.andThen] at h

theorem elemEvents_safe (ctx : Ctx) (v5 : Bool) (pos : Nat) (sub : Option Nat) (e : ElemX) (tl : List Str) (i : EIn) :
    (elemEvents ctx v5 pos sub e tl i).Safe := by
  intro site h
  unfold elemEvents at h
  split at h
  · injection h with h; exact h.symm
  · cases h

theorem kidsEvents_safe (ctx : Ctx) (v5 : Bool) (pos : Nat) : ∀ (ks : List ElemX) (vs : List Str),
    (kidsEvents ctx v5 pos ks vs).Safe := by
  intro ks
  induction ks with
  | nil => intro vs; simp only [kidsEvents]; exact ERes.ok_safe _ _
  | cons k ks ih =>
    intro vs
    cases vs with
    | nil => simp only [kidsEvents]; exact andThen_safe (elemEvents_safe _ _ _ _ _ _ _) (ih [])
    | cons v vs => simp only [kidsEvents]; exact andThen_safe (elemEvents_safe _ _ _ _ _ _ _) (ih vs)

theorem compPresentEvents_safe (ctx : Ctx) (v5 : Bool) (u : Usage) (seq : Nat) (nm rd : Str) (de : Option Str)
    (kids : List ElemX) (vs : List Str) : (compPresentEvents ctx v5 u seq nm rd de kids vs).Safe := by
  unfold compPresentEvents
  split
  · exact ERes.ok_safe _ _
  · exact andThen_safe (ERes.ok_safe _ _) (kidsEvents_safe _ _ _ _ _)

theorem compEvents_safe (ctx : Ctx) (v5 : Bool) (u : Usage) (seq : Nat) (nm rd : Str) (de : Option Str)
    (kids : List ElemX) (data : Option (List Str)) : (compEvents ctx v5 u seq nm rd de kids data).Safe := by
  cases data with
  | none => cases u <;> exact ERes.ok_safe _ _
  | some vs =>
    simp only [compEvents]
    split
    · exact ERes.ok_safe _ _
    · split
      · exact ERes.ok_safe _ _
      · exact compPresentEvents_safe _ _ _ _ _ _ _ _ _

theorem elemIn_isSome (sep : Char) (data : List Str) (h : data ≠ []) : ∃ i, elemIn sep data = some i := by
  cases data with
  | nil => exact absurd rfl h
  | cons a r =>
    cases r with
    | nil => exact ⟨_, rfl⟩
    | cons b r2 =>
      simp only [elemIn]
      rw [SegText.formatComp_eq sep (a :: b :: r2) (by simp)]
      exact ⟨_, rfl⟩

theorem elemAt_safe (ctx : Ctx) (v5 : Bool) (sep : Char) (x : ElemX) (tl : List Str) (data : List Str) (h : data ≠ []) :
    (elemAt ctx v5 sep x tl data).Safe := by
  obtain ⟨i, hi⟩ := elemIn_isSome sep data h
  simp only [elemAt, hi]
  exact elemEvents_safe _ _ _ _ _ _ _

theorem childAbsent_safe (ctx : Ctx) (v5 : Bool) (c : ChildX) : (childAbsent ctx v5 c).Safe := by
  cases c with
  | elem x => exact elemEvents_safe _ _ _ _ _ _ _
  | comp u seq nm rd de kids => simp only [childAbsent]; exact compEvents_safe _ _ _ _ _ _ _ _ _

theorem childPresent_safe (ctx : Ctx) (v5 : Bool) (sep : Char) (sid : Str) (i : Nat) (dt tl : List Str) (data : List Str)
    (c : ChildX) (h : data ≠ []) : (childPresent ctx v5 sep sid i dt tl data c).Safe := by
  cases c with
  | elem x => exact elemAt_safe _ _ _ _ _ _ h
  | comp u seq nm rd de kids => simp only [childPresent]; exact compEvents_safe _ _ _ _ _ _ _ _ _

theorem childrenEvents_safe (ctx : Ctx) (v5 : Bool) (sep : Char) (sid : Str) (v02 : Option Str) :
    ∀ (cs : List ChildX) (i : Nat) (dt tl : List Str) (es : List (List Str)), (∀ e ∈ es, e ≠ []) →
      (childrenEvents ctx v5 sep sid v02 i dt tl cs es).Safe := by
  intro cs
  induction cs with
  | nil => intro i dt tl es _; simp only [childrenEvents]; exact ERes.ok_safe _ _
  | cons c cs ih =>
    intro i dt tl es hes
    cases es with
    | nil =>
      simp only [childrenEvents]
      exact andThen_safe (childAbsent_safe _ _ _) (ih _ _ _ [] (by simp))
    | cons e es =>
      simp only [childrenEvents]
      exact andThen_safe (childPresent_safe _ _ _ _ _ _ _ _ _ (hes e (by simp)))
        (ih _ _ _ es (fun x hx => hes x (List.mem_cons_of_mem _ hx)))

theorem tooManyEvents_safe (d : Delims) (sd : SegDef) (s : Seg) (hn : sd.children.length < 99) (hs : NonEmptyComps s) :
    (tooManyEvents d sd s).Safe := by
  intro site h
  unfold tooManyEvents at h
  split at h
  · have h100 : ¬ 100 ≤ sd.children.length + 1 := by omega
    simp only [h100, if_false] at h
    have := Pipeline.getValue_noCrash d s sd.children.length hs
    cases hv : Pipeline.getValue d s sd.children.length with
    | crash => exact absurd hv this
    | absent => simp [hv, tooManyValue] at h
    | value v => simp [hv, tooManyValue] at h
  · cases h

theorem routeNote_isSome (vals : List Str) (n : Syn.Note) (hw : Syn.WF n) : ∃ errs, Syn.routeNote vals n = some errs := by
  unfold Syn.routeNote
  have hnc := Syn.no_crash vals n hw
  cases hv : Syn.isSyntaxValid vals n with
  | crash => exact absurd hv hnc
  | valid => exact ⟨[], rfl⟩
  | violated =>
    simp only [Syn.routeVerdict]
    obtain ⟨hlen, _⟩ := hw
    cases hidx : n.idx with
    | nil => rw [hidx] at hlen; simp at hlen
    | cons k r => exact ⟨_, rfl⟩

theorem notesEvents_safe (sd : SegDef) (sid : Str) (vals : List Str) : ∀ (ns : List Syn.Note), Syn.AllWF ns →
    (notesEvents sd sid vals ns).Safe := by
  intro ns
  induction ns with
  | nil => intro _; simp only [notesEvents]; exact ERes.ok_safe _ _
  | cons n ns ih =>
    intro hw
    obtain ⟨errs, he⟩ := routeNote_isSome vals n (hw n (by simp)).1
    simp only [notesEvents, he]
    exact andThen_safe (ERes.ok_safe _ _) (ih (fun m hm => hw m (List.mem_cons_of_mem _ hm)))

theorem segEvents_safe (ctx : Ctx) (v5 : Bool) (d : Delims) (sd : SegDef) (s : Seg) (hw : SegDefWF sd)
    (hs : NonEmptyComps s) : (segEvents ctx v5 d sd s).Safe := by
  unfold segEvents
  refine andThen_safe (andThen_safe (tooManyEvents_safe d sd s hw.1 hs) (childrenEvents_safe _ _ _ _ _ _ _ _ _ _ hs)) ?_
  rw [SegText.formatComps_eq _ s.elems hs]
  simp only [notesOn]
  exact notesEvents_safe _ _ _ _ hw.2

/-! ### the loop body -/

/-- the maps a loop state refers to are maps of `ms` -/
def LState.Ok (ms : Maps) (st : LState) : Prop :=
  (∀ n, st.node = some n → n.map ∈ ms.maps) ∧ (∀ m, st.curMap = some m → m ∈ ms.maps)

theorem findMap_mem {ms : Maps} {f : Str} {m : MapX} (h : findMap ms f = some m) : m ∈ ms.maps :=
  List.mem_of_find?_eq_some h

theorem fetchIn_map {ms : Maps} {m : MapX} {p : List (Nat × Nat)} {n : NodeRef} (h : fetchIn ms m p = some n) :
    n.map = m := by
  unfold fetchIn at h
  split at h
  · injection h with h; rw [← h]
  · cases h

theorem lookupDef_wf {ms : Maps} (hwf : MapsWF ms) {m : MapX} (hm : m ∈ ms.maps) {ip : List Nat} {sd : SegDef}
    (h : lookupDef m ip = some sd) : SegDefWF sd := by
  unfold lookupDef at h
  split at h
  · rename_i p hp
    injection h with h
    rw [← h]
    exact hwf m hm p (List.mem_of_find?_eq_some hp)
  · cases h

def Found.Ok (ms : Maps) : Found → Prop
  | .crash s => s.Allowed
  | .res n _ _ => ∀ x, n = some x → x.map ∈ ms.maps

theorem findNode_ok (ms : Maps) (control : MapX) (d : Delims) (s : Seg) (k : Nat) (st : LState)
    (hc : control ∈ ms.maps) (hst : st.Ok ms) : (findNode ms control d s k st).Ok ms := by
  unfold findNode
  split
  · intro x hx; rw [fetchIn_map hx]; exact hc
  · split
    · intro x hx; rw [fetchIn_map hx]; exact hc
    · cases hn : st.node with
      | none => exact Or.inr (Or.inl rfl)
      | some cur =>
        simp only [walkFound, foundOf]
        intro x hx
        split at hx
        · injection hx with hx; rw [← hx]; exact hst.1 cur hn
        · cases hx

def Branch.Ok (ms : Maps) : Branch → Prop
  | .stop (.crash s) => s.Allowed
  | .stop _ => True
  | .go st n _ => st.Ok ms ∧ n.map ∈ ms.maps

theorem popped_ok {ms : Maps} {st : LState} (h : st.Ok ms) : st.popped.Ok ms := h

theorem plainTail_ok (ms : Maps) (s : Seg) (st : LState) (n : NodeRef) (hst : st.Ok ms) (hn : n.map ∈ ms.maps) :
    (plainTail s st n).Ok ms := ⟨popped_ok hst, hn⟩

theorem withNewMap_ok (ms : Maps) (st : LState) (file : Option Str) (k : LState → MapX → Branch)
    (hk : ∀ st' m, st'.Ok ms → m ∈ ms.maps → (k st' m).Ok ms) (hst : st.Ok ms) :
    (withNewMap ms st file k).Ok ms := by
  unfold withNewMap
  cases file with
  | none => trivial
  | some f =>
    simp only
    cases hm : findMap ms f with
    | none => trivial
    | some m =>
      simp only
      refine hk _ m ⟨hst.1, ?_⟩ (findMap_mem hm)
      intro m' hm'
      injection hm' with hm'
      rw [← hm']; exact findMap_mem hm

theorem gsTail_ok (ms : Maps) (d : Delims) (s : Seg) (st : LState) (m : MapX) (hst : st.Ok ms) (hm : m ∈ ms.maps) :
    (gsTail ms d s st m).Ok ms := by
  unfold gsTail
  cases hf : fetchIn ms m (gsPath ms) with
  | none => exact Or.inr (Or.inl rfl)
  | some n => exact ⟨popped_ok hst, by rw [fetchIn_map hf]; exact hm⟩

theorem gsBranch_ok (ms : Maps) (d : Delims) (s : Seg) (st : LState) (hst : st.Ok ms) : (gsBranch ms d s st).Ok ms := by
  unfold gsBranch
  split
  · exact withNewMap_ok ms _ _ _ (fun st' m h1 h2 => gsTail_ok ms d s st' m h1 h2) hst
  · cases hm : st.curMap with
    | none => exact Or.inr (Or.inl rfl)
    | some m =>
      refine gsTail_ok ms d s _ m ⟨hst.1, ?_⟩ (hst.2 m hm)
      intro m' h'
      exact hst.2 m' (by simpa [hm] using h')

theorem bhtSwitch_ok (ms : Maps) (s : Seg) (st : LState) (m : MapX) (hst : st.Ok ms) (hm : m ∈ ms.maps) :
    (bhtSwitch ms s st m).Ok ms := by
  unfold bhtSwitch
  cases hf : fetchIn ms m (bhtPath ms) with
  | none => exact Or.inr (Or.inl rfl)
  | some n => exact plainTail_ok ms s st n hst (by rw [fetchIn_map hf]; exact hm)

theorem bhtBranch_ok (ms : Maps) (d : Delims) (s : Seg) (st : LState) (n : NodeRef) (hst : st.Ok ms)
    (hn : n.map ∈ ms.maps) : (bhtBranch ms d s st n).Ok ms := by
  unfold bhtBranch
  split
  · split
    · exact withNewMap_ok ms _ _ _ (fun st' m h1 h2 => bhtSwitch_ok ms s st' m h1 h2) hst
    · exact plainTail_ok ms s st n hst hn
  · exact plainTail_ok ms s st n hst hn

theorem branch_ok (ms : Maps) (d : Delims) (s : Seg) (st : LState) (n : NodeRef) (hst : st.Ok ms)
    (hn : n.map ∈ ms.maps) : (branch ms d s st n).Ok ms := by
  unfold branch
  split
  · exact ⟨hst, hn⟩
  · split
    · exact ⟨popped_ok hst, hn⟩
    · split
      · exact gsBranch_ok ms d s st hst
      · split
        · exact bhtBranch_ok ms d s st n hst hn
        · split
          · exact ⟨popped_ok hst, hn⟩
          · split
            · exact ⟨popped_ok hst, hn⟩
            · split
              · exact ⟨popped_ok hst, hn⟩
              · exact plainTail_ok ms s st n hst hn

def Step.Ok (ms : Maps) : Step → Prop
  | .stop (.crash s) => s.Allowed
  | .stop _ => True
  | .next st _ => st.Ok ms

theorem validate_ok (ms : Maps) (hwf : MapsWF ms) (ctx : Ctx) (d : Delims) (s : Seg) (me : List Event) (pp : List RdErr)
    (b : Branch) (hb : b.Ok ms) (hs : NonEmptyComps s) : (validate ctx d s me pp b).Ok ms := by
  cases b with
  | stop o =>
    cases o with
    | crash site => exact hb
    | _ => trivial
  | go st n evs =>
    simp only [validate]
    cases hl : lookupDef n.map n.ip with
    | none => exact Or.inr (Or.inr (Or.inl rfl))
    | some sd =>
      simp only
      have hsafe := segEvents_safe ctx n.map.v5010 d sd s (lookupDef_wf hwf hb.2 hl) hs
      cases hv : segEvents ctx n.map.v5010 d sd s with
      | crash site => exact Or.inl (hsafe site hv)
      | ok v evs2 =>
        refine ⟨?_, hb.1.2⟩
        intro x hx
        injection hx with hx
        rw [← hx]; exact hb.2

theorem afterFind_ok (ms : Maps) (hwf : MapsWF ms) (ctx : Ctx) (d : Delims) (s : Seg) (st : LState) (f : Found)
    (hst : st.Ok ms) (hf : f.Ok ms) (hs : NonEmptyComps s) : (afterFind ms ctx d s st f).Ok ms := by
  cases f with
  | crash site => exact hf
  | res n cnt evs =>
    cases n with
    | none => exact hst
    | some x =>
      simp only [afterFind]
      exact validate_ok ms hwf ctx d s _ _ _ (branch_ok ms d s _ x hst (hf x rfl)) hs

theorem stepSeg_ok (ms : Maps) (hwf : MapsWF ms) (ctx : Ctx) (control : MapX) (hc : control ∈ ms.maps) (d : Delims)
    (le : List SegText.RErr) (s : Seg) (st : LState) (hst : st.Ok ms) (hs : NonEmptyComps s) :
    (stepSeg ms ctx control d le s st).Ok ms := by
  obtain ⟨v, hv⟩ := Pipeline.viewOf_isSome d s hs
  simp only [stepSeg, hv, withView]
  have hstep := Envelope.step_noCrash st.rs v
  cases hr : Envelope.step Envelope.Fixes.all st.rs v with
  | crash e => exact absurd hr (hstep e)
  | raised => trivial
  | ok r =>
    simp only [afterReader, afterStep]
    exact afterFind_ok ms hwf ctx d s _ _ hst (findNode_ok ms control d s _ _ hc hst) hs

def LoopEnd.Ok : LoopEnd → Prop
  | .done _ => True
  | .stopped (.crash s) _ => s.Allowed
  | .stopped _ _ => True

theorem runSegs_ok (ms : Maps) (hwf : MapsWF ms) (ctx : Ctx) (control : MapX) (hc : control ∈ ms.maps) (d : Delims) :
    ∀ (ps : List (List SegText.RErr × Seg)) (a : Acc), a.st.Ok ms → (∀ p ∈ ps, NonEmptyComps p.2) →
      (runSegs ms ctx control d a ps).Ok := by
  intro ps
  induction ps with
  | nil => intro a _ _; trivial
  | cons p ps ih =>
    intro a ha hps
    have h1 := stepSeg_ok ms hwf ctx control hc d p.1 p.2 a.st ha (hps p (by simp))
    simp only [runSegs]
    cases hs : stepSeg ms ctx control d p.1 p.2 a.st with
    | stop o =>
      rw [hs] at h1
      cases o with
      | crash site => exact h1
      | _ => trivial
    | next st out =>
      rw [hs] at h1
      simp only
      cases hr : ErrTree.run a.est out.events with
      | crash site => exact Or.inr (Or.inr (Or.inr ⟨site, rfl⟩))
      | ok est =>
        exact ih _ h1 (fun q hq => hps q (List.mem_cons_of_mem _ hq))

/-- outcome of a finished result is never one of the excluded crash sites -/
def Outcome.Ok : Outcome → Prop
  | .crash s => s.Allowed
  | _ => True

theorem finish_ok (rr : SegText.ReadResult) (hcr : rr.crashed = false) (e : LoopEnd) (he : e.Ok) :
    (finish rr e).outcome.Ok := by
  cases e with
  | stopped o a =>
    cases o with
    | crash site => exact he
    | _ => trivial
  | done a =>
    simp only [finish, hcr]
    cases hr : ErrTree.run a.est (List.map rdEvent (finalErrs rr a.st)) with
    | crash site => exact Or.inr (Or.inr (Or.inr ⟨site, rfl⟩))
    | ok est => trivial

theorem initState_ok (ms : Maps) (control : MapX) (hc : control ∈ ms.maps) : (initState ms control).Ok ms := by
  refine ⟨?_, ?_⟩
  · intro n hn
    simp only [initState] at hn
    rw [fetchIn_map hn]; exact hc
  · intro m hm; simp [initState] at hm

end Pyx12Verif.Doc
