/-
What `X12Writer` writes when it is handed a COMPLETE structured document — every set, group and interchange with its
supplied trailer, as `xmlx12_simple.convert` hands it the segments of an XML document: the document itself with every
trailer replaced by the one the writer generates from its counters (`trailerSeg` = `_get_trailer_segment`) and the ISA
carrying the writer's separators.  No `Close()` is involved: the stack is empty again after the last IEA.

The document is given as a datatype (interchange ⊃ group ⊃ set); the writer is the flat state machine of
`Model/Writer.lean`.
-/
import Pyx12Verif.Proofs.WriterSteps
import Pyx12Verif.Proofs.WriterMisc

namespace Pyx12Verif.Convert
open Pyx12Verif.Envelope (RState SegView Kind Fixes Str idISA idIEA idGS idGE idST idSE isEnvId SameEnv)
open Pyx12Verif.SegText (Seg Delims)
open Pyx12Verif.Writer

/-! ### complete documents -/

structure XSet where
  st : Seg
  body : List Seg
  se : Seg
structure XGroup where
  gs : Seg
  sets : List XSet
  ge : Seg
structure XInter where
  isa : Seg
  groups : List XGroup
  iea : Seg

def XSet.flat (t : XSet) : List Seg := t.st :: (t.body ++ [t.se])
def flatSets : List XSet → List Seg
  | [] => []
  | t :: r => t.flat ++ flatSets r
def XGroup.flat (g : XGroup) : List Seg := g.gs :: (flatSets g.sets ++ [g.ge])
def flatGroups : List XGroup → List Seg
  | [] => []
  | g :: r => g.flat ++ flatGroups r
def XInter.flat (i : XInter) : List Seg := i.isa :: (flatGroups i.groups ++ [i.iea])
def flatInters : List XInter → List Seg
  | [] => []
  | i :: r => i.flat ++ flatInters r

/-- identifiers in place, composites with a component (true of everything `Segment(...)` / `Segment.set` build), the
ISA with its 16 elements; the content of the supplied trailers is arbitrary -/
def XSet.Ok (t : XSet) : Prop :=
  t.st.id = idST ∧ WfSeg t.st ∧ (∀ b ∈ t.body, isEnvId b.id = false ∧ WfSeg b) ∧ t.se.id = idSE
def XGroup.Ok (g : XGroup) : Prop := g.gs.id = idGS ∧ WfSeg g.gs ∧ (∀ t ∈ g.sets, t.Ok) ∧ g.ge.id = idGE
def XInter.Ok (i : XInter) : Prop :=
  i.isa.id = idISA ∧ WfSeg i.isa ∧ i.isa.elems.length = 16 ∧ (∀ g ∈ i.groups, g.Ok) ∧ i.iea.id = idIEA

/-! ### the trailers the writer generates (`X12Writer._close_se / _close_ge / _close_iea`) -/

/-- `_get_trailer_segment('SE', seg_count + 1, ST02)`: the segments of the set, ST and SE included -/
def XSet.trueSE (d : Delims) (t : XSet) : Seg := trailerSeg d idSE (t.body.length + 2) (ctlOf d t.st)
/-- `_get_trailer_segment('GE', st_count, GS06)` -/
def XGroup.trueGE (d : Delims) (g : XGroup) : Seg := trailerSeg d idGE g.sets.length (ctlOf d g.gs)
/-- `_get_trailer_segment('IEA', gs_count, ISA13)` -/
def XInter.trueIEA (d : Delims) (i : XInter) : Seg := trailerSeg d idIEA i.groups.length (ctlOf d i.isa)

def XSet.retrailer (d : Delims) (t : XSet) : XSet := ⟨t.st, t.body, t.trueSE d⟩
def XGroup.retrailer (d : Delims) (g : XGroup) : XGroup := ⟨g.gs, g.sets.map (XSet.retrailer d), g.trueGE d⟩
/-- the document as the writer puts it on the stream: every trailer regenerated, the ISA with ISA11 / ISA16 set -/
def XInter.written (c : Cfg) (i : XInter) : XInter :=
  ⟨fixISA c i.isa, i.groups.map (XGroup.retrailer c.d), i.trueIEA c.d⟩

/-- every supplied trailer IS the one the writer generates: its header's control number and the true count, printed
`'{:d}'` -/
def XSet.TrueTrailer (d : Delims) (t : XSet) : Prop := t.se = t.trueSE d
def XGroup.TrueTrailers (d : Delims) (g : XGroup) : Prop := g.ge = g.trueGE d ∧ ∀ t ∈ g.sets, t.TrueTrailer d
def XInter.TrueTrailers (d : Delims) (i : XInter) : Prop := i.iea = i.trueIEA d ∧ ∀ g ∈ i.groups, g.TrueTrailers d

theorem map_id_of {α : Type} (f : α → α) : ∀ (l : List α), (∀ x ∈ l, f x = x) → l.map f = l
  | [], _ => rfl
  | a :: r, h => by
    simp only [List.map_cons, h a (by simp), map_id_of f r (fun x hx => h x (List.mem_cons_of_mem _ hx))]

theorem XSet.retrailer_of_true (d : Delims) (t : XSet) (h : t.TrueTrailer d) : t.retrailer d = t := by
  cases t with
  | mk st body se =>
    simp only [XSet.TrueTrailer] at h
    simp only [XSet.retrailer, ← h]

theorem XGroup.retrailer_of_true (d : Delims) (g : XGroup) (h : g.TrueTrailers d) : g.retrailer d = g := by
  cases g with
  | mk gs sets ge =>
    obtain ⟨h1, h2⟩ := h
    simp only at h1 h2
    simp only [XGroup.retrailer, ← h1, map_id_of _ sets (fun t ht => XSet.retrailer_of_true d t (h2 t ht))]

/-- with true trailers the writer changes nothing but the two separator elements of the ISA -/
theorem XInter.written_of_true (c : Cfg) (i : XInter) (h : i.TrueTrailers c.d) :
    i.written c = ⟨fixISA c i.isa, i.groups, i.iea⟩ := by
  obtain ⟨h1, h2⟩ := h
  simp only [XInter.written, ← h1, map_id_of _ i.groups (fun g hg => XGroup.retrailer_of_true c.d g (h2 g hg))]

/-! ### plumbing -/

theorem writeAll_append (c : Cfg) : ∀ (a b : List Seg) (w w1 w2 : RState) (o1 o2 : List Seg),
    writeAll c w a = .ok (w1, o1) → writeAll c w1 b = .ok (w2, o2) → writeAll c w (a ++ b) = .ok (w2, o1 ++ o2)
  | [], b, w, w1, w2, o1, o2, h1, h2 => by
    simp only [writeAll] at h1
    injection h1 with h1
    injection h1 with e1 e2
    subst e1; subst e2
    simpa using h2
  | s :: r, b, w, w1, w2, o1, o2, h1, h2 => by
    simp only [writeAll, List.cons_append] at h1 ⊢
    cases hs : write c w s with
    | raised => simp [hs, Outcome.bind] at h1
    | crash e => simp [hs, Outcome.bind] at h1
    | ok a =>
      simp only [hs, Outcome.bind] at h1 ⊢
      cases hr : writeAll c a.1 r with
      | raised => simp [hr] at h1
      | crash e => simp [hr] at h1
      | ok q =>
        simp only [hr] at h1
        injection h1 with h1
        injection h1 with e1 e2
        have := writeAll_append c r b a.1 q.1 w2 q.2 o2 hr (by rw [e1]; exact h2)
        simp only [this, ← e2, List.append_assoc]

theorem writeAll_one (c : Cfg) (w w' : RState) (s : Seg) (o : List Seg) (h : write c w s = .ok (w', o)) :
    writeAll c w [s] = .ok (w', o) := by
  simp [writeAll, h, Outcome.bind]

theorem writeAll_cons (c : Cfg) (w w1 w2 : RState) (s : Seg) (r o1 o2 : List Seg) (h1 : write c w s = .ok (w1, o1))
    (h2 : writeAll c w1 r = .ok (w2, o2)) : writeAll c w (s :: r) = .ok (w2, o1 ++ o2) :=
  writeAll_append c [s] r w w1 w2 o1 o2 (writeAll_one c w w1 s o1 h1) h2

/-! ### body segments -/

theorem write_bodies (c : Cfg) : ∀ (body : List Seg) (w : RState), (∀ b ∈ body, isEnvId b.id = false ∧ WfSeg b) →
    w.chk837 = false →
    ∃ w', writeAll c w body = .ok (w', body) ∧ SameEnv w w' ∧ w'.segCount = w.segCount + body.length
  | [], w, _, _ => ⟨w, rfl, SameEnv.refl w, rfl⟩
  | b :: r, w, h, hc => by
    obtain ⟨w1, hw1, hs1, hn1⟩ := write_body c w b (h b (by simp)).2 (h b (by simp)).1 hc
    obtain ⟨w2, hw2, hs2, hn2⟩ := write_bodies c r w1 (fun x hx => h x (List.mem_cons_of_mem _ hx))
      (by rw [hs1.chk837]; exact hc)
    refine ⟨w2, ?_, hs1.trans hs2, ?_⟩
    · have := writeAll_cons c w w1 w2 b r [b] r hw1 hw2
      simpa using this
    · rw [hn2, hn1]; simp only [List.length_cons]; omega

/-! ### one set -/

theorem popToLoop_top (d : Delims) (k : Kind) (w : RState) (ctl : Option Str) (L : List (Kind × Option Str))
    (h : w.loops = (k, ctl) :: L) :
    popToLoop d k w = ((closeLoop d { w with loops := L } (k, ctl)).1, [(closeLoop d { w with loops := L } (k, ctl)).2]) := by
  simp [popToLoop, h, popTo]

theorem write_set (c : Cfg) (t : XSet) (hok : t.Ok) (w : RState) (hc : w.chk837 = false) :
    ∃ w', writeAll c w t.flat = .ok (w', (t.retrailer c.d).flat) ∧ w'.loops = w.loops ∧ w'.chk837 = false ∧
      w'.stCount = w.stCount + 1 ∧ w'.gsCount = w.gsCount := by
  obtain ⟨hid, hwf, hbody, hse⟩ := hok
  have h1 := write_ST c w t.st hwf hid
  obtain ⟨w2, hw2, hs2, hn2⟩ := write_bodies c t.body _ hbody
    (show ({ w with hlStack := [], hlCount := 0, stCount := w.stCount + 1, stIds := ctlOf c.d t.st :: w.stIds,
                    loops := (Kind.st, ctlOf c.d t.st) :: w.loops, segCount := 1 } : RState).chk837 = false from hc)
  have hc2 : w2.chk837 = false := by rw [hs2.chk837]; exact hc
  have hn2 : w2.segCount = 1 + t.body.length := hn2
  have htr : isTrailerId t.se.id = true := by rw [hse]; decide
  have h3 := write_trailer c w2 t.se htr hc2
  have e1 : t.se.id ≠ idIEA := by rw [hse]; decide
  have e2 : t.se.id ≠ idGE := by rw [hse]; decide
  simp only [e1, e2, if_false] at h3
  have hl2 : w2.loops = (Kind.st, ctlOf c.d t.st) :: w.loops := hs2.loops
  rw [popToLoop_top c.d .st w2 _ _ hl2] at h3
  refine ⟨(closeLoop c.d { w2 with loops := w.loops } (Kind.st, ctlOf c.d t.st)).1, ?_, ?_, ?_, ?_, ?_⟩
  · have hb := writeAll_append c t.body [t.se] _ w2 _ t.body _ hw2 (writeAll_one c w2 _ t.se _ h3)
    have := writeAll_cons c w _ _ t.st (t.body ++ [t.se]) [t.st] _ h1 hb
    rw [XSet.flat, this]
    simp only [closeLoop, XSet.retrailer, XSet.flat, XSet.trueSE, hn2, List.cons_append, List.nil_append]
    rw [show 1 + t.body.length + 1 = t.body.length + 2 by omega]
  · simp [closeLoop]
  · simp [closeLoop, hc2]
  · simp [closeLoop, hs2.stCount]
  · simp [closeLoop, hs2.gsCount]

theorem write_sets (c : Cfg) : ∀ (ts : List XSet), (∀ t ∈ ts, t.Ok) → ∀ (w : RState), w.chk837 = false →
    ∃ w', writeAll c w (flatSets ts) = .ok (w', flatSets (ts.map (XSet.retrailer c.d))) ∧ w'.loops = w.loops ∧
      w'.chk837 = false ∧ w'.stCount = w.stCount + ts.length ∧ w'.gsCount = w.gsCount
  | [], _, w, hc => ⟨w, rfl, rfl, hc, rfl, rfl⟩
  | t :: r, h, w, hc => by
    obtain ⟨w1, a1, a2, a3, a4, a5⟩ := write_set c t (h t (by simp)) w hc
    obtain ⟨w2, b1, b2, b3, b4, b5⟩ := write_sets c r (fun x hx => h x (List.mem_cons_of_mem _ hx)) w1 a3
    refine ⟨w2, ?_, by rw [b2, a2], b3, ?_, by rw [b5, a5]⟩
    · simp only [flatSets, List.map_cons]
      exact writeAll_append c _ _ w w1 w2 _ _ a1 b1
    · rw [b4, a4]; simp only [List.length_cons]; omega

/-! ### one group -/

theorem write_group (c : Cfg) (g : XGroup) (hok : g.Ok) (w : RState) (hc : w.chk837 = false) :
    ∃ w', writeAll c w g.flat = .ok (w', (g.retrailer c.d).flat) ∧ w'.loops = w.loops ∧ w'.chk837 = false ∧
      w'.gsCount = w.gsCount + 1 := by
  obtain ⟨hid, hwf, hsets, hge⟩ := hok
  have h1 := write_GS c w g.gs hwf hid
  obtain ⟨w2, b1, b2, b3, b4, b5⟩ := write_sets c g.sets hsets
    ({ w with gsCount := w.gsCount + 1, gsIds := ctlOf c.d g.gs :: w.gsIds, loops := (Kind.gs, ctlOf c.d g.gs) :: w.loops,
              stCount := 0, stIds := [] } : RState) hc
  have htr : isTrailerId g.ge.id = true := by rw [hge]; decide
  have b4 : w2.stCount = 0 + g.sets.length := b4
  have h3 := write_trailer c w2 g.ge htr b3
  have e1 : g.ge.id ≠ idIEA := by rw [hge]; decide
  simp only [hge, if_true] at h3
  have hl2 : w2.loops = (Kind.gs, ctlOf c.d g.gs) :: w.loops := b2
  rw [popToLoop_top c.d .gs w2 _ _ hl2] at h3
  refine ⟨(closeLoop c.d { w2 with loops := w.loops } (Kind.gs, ctlOf c.d g.gs)).1, ?_, ?_, ?_, ?_⟩
  · have hb := writeAll_append c (flatSets g.sets) [g.ge] _ w2 _ _ _ b1 (writeAll_one c w2 _ g.ge _ h3)
    have := writeAll_cons c w _ _ g.gs (flatSets g.sets ++ [g.ge]) [g.gs] _ h1 hb
    rw [XGroup.flat, this]
    simp only [closeLoop, XGroup.retrailer, XGroup.flat, XGroup.trueGE, b4, List.cons_append, List.nil_append]
    simp only [Nat.zero_add]
  · simp [closeLoop]
  · simp [closeLoop, b3]
  · simp [closeLoop, b5]

theorem write_groups (c : Cfg) : ∀ (gs : List XGroup), (∀ g ∈ gs, g.Ok) → ∀ (w : RState), w.chk837 = false →
    ∃ w', writeAll c w (flatGroups gs) = .ok (w', flatGroups (gs.map (XGroup.retrailer c.d))) ∧ w'.loops = w.loops ∧
      w'.chk837 = false ∧ w'.gsCount = w.gsCount + gs.length
  | [], _, w, hc => ⟨w, rfl, rfl, hc, rfl⟩
  | g :: r, h, w, hc => by
    obtain ⟨w1, a1, a2, a3, a4⟩ := write_group c g (h g (by simp)) w hc
    obtain ⟨w2, b1, b2, b3, b4⟩ := write_groups c r (fun x hx => h x (List.mem_cons_of_mem _ hx)) w1 a3
    refine ⟨w2, ?_, by rw [b2, a2], b3, ?_⟩
    · simp only [flatGroups, List.map_cons]
      exact writeAll_append c _ _ w w1 w2 _ _ a1 b1
    · rw [b4, a4]; simp only [List.length_cons]; omega

/-! ### one interchange, several interchanges -/

theorem write_inter (c : Cfg) (i : XInter) (hok : i.Ok) (w : RState) (hc : w.chk837 = false) :
    ∃ w', writeAll c w i.flat = .ok (w', (i.written c).flat) ∧ w'.loops = w.loops ∧ w'.chk837 = false := by
  obtain ⟨hid, hwf, h16, hgroups, hiea⟩ := hok
  have h1 := write_ISA c w i.isa hwf hid h16
  obtain ⟨w2, b1, b2, b3, b4⟩ := write_groups c i.groups hgroups
    ({ w with loops := (Kind.isa, ctlOf c.d i.isa) :: w.loops, isaIds := ctlOf c.d i.isa :: w.isaIds, gsCount := 0,
              gsIds := [] } : RState) hc
  have htr : isTrailerId i.iea.id = true := by rw [hiea]; decide
  have b4 : w2.gsCount = 0 + i.groups.length := b4
  have h3 := write_trailer c w2 i.iea htr b3
  simp only [hiea, if_true] at h3
  have hl2 : w2.loops = (Kind.isa, ctlOf c.d i.isa) :: w.loops := b2
  rw [popToLoop_top c.d .isa w2 _ _ hl2] at h3
  refine ⟨(closeLoop c.d { w2 with loops := w.loops } (Kind.isa, ctlOf c.d i.isa)).1, ?_, ?_, ?_⟩
  · have hb := writeAll_append c (flatGroups i.groups) [i.iea] _ w2 _ _ _ b1 (writeAll_one c w2 _ i.iea _ h3)
    have := writeAll_cons c w _ _ i.isa (flatGroups i.groups ++ [i.iea]) _ _ h1 hb
    rw [XInter.flat, this]
    simp only [closeLoop, XInter.written, XInter.flat, XInter.trueIEA, b4, List.cons_append, List.nil_append, fixISA, hid,
      if_true]
    simp only [Nat.zero_add]
  · simp [closeLoop]
  · simp [closeLoop, b3]

/-- **the writer on complete documents.**  A sequence of complete interchanges — whatever their supplied trailers say —
is written as the same interchanges with every trailer regenerated from the writer's counters and the ISA separators set;
the stack of open envelopes is empty afterwards (as before), so `Close()` would add nothing. -/
theorem write_inters (c : Cfg) : ∀ (is : List XInter), (∀ i ∈ is, i.Ok) → ∀ (w : RState), w.chk837 = false →
    ∃ w', writeAll c w (flatInters is) = .ok (w', flatInters (is.map (XInter.written c))) ∧ w'.loops = w.loops ∧
      w'.chk837 = false
  | [], _, w, hc => ⟨w, rfl, rfl, hc⟩
  | i :: r, h, w, hc => by
    obtain ⟨w1, a1, a2, a3⟩ := write_inter c i (h i (by simp)) w hc
    obtain ⟨w2, b1, b2, b3⟩ := write_inters c r (fun x hx => h x (List.mem_cons_of_mem _ hx)) w1 a3
    refine ⟨w2, ?_, by rw [b2, a2], b3⟩
    simp only [flatInters, List.map_cons]
    exact writeAll_append c _ _ w w1 w2 _ _ a1 b1

/-- … from a fresh writer: nothing is left open, `Close()` writes nothing -/
theorem session_complete (c : Cfg) (is : List XInter) (hok : ∀ i ∈ is, i.Ok) :
    ∃ w', writeAll c (RState.init false) (flatInters is) = .ok (w', flatInters (is.map (XInter.written c))) ∧
      (close c w').2 = [] := by
  obtain ⟨w', h1, h2, _⟩ := write_inters c is hok (RState.init false) rfl
  refine ⟨w', h1, ?_⟩
  have : w'.loops = [] := h2
  simp [close, popToLoop, this, popTo]

end Pyx12Verif.Convert
