/-
C03 run level, missing mandatory segment: the generator cursor while the hole is open (`ReadyAtH`), what it gives
for the children the walk passes, and the invariant after the step that reports the hole.
-/
import Pyx12Verif.Proofs.C03RunWTrig

namespace Pyx12Verif.WalkerGenW
open Pyx12Verif.MapSkel Pyx12Verif.Walker Pyx12Verif.WalkerGen

/-- `path_sat` with completeness asked only of the transparent levels (the only ones it looks into) -/
theorem path_satT {root : List Node} {cnt : Counter} {cur : List Nat} (hinv : Inv root cnt cur) :
    ∀ (n : Nat) (p : List Nat) (i : Nat), p ++ [i] <+: cur → cur.length = p.length + 1 + n →
      (∀ p' i' sub, p ++ [i] <+: p' → p' ++ [i'] <+: cur → chAt root p' = some sub → firstIsLoop sub = true →
        Complete root cnt p' i') →
      ∀ ch c, chAt root p = some ch → ch[i]? = some c → satisfied cnt (keyAt root p ++ [c.comp]) c = true := by
  intro n
  induction n with
  | zero =>
    intro p i hp hlen _ ch c hch hc
    have hcur : p ++ [i] = cur := prefix_eq_of_length hp (by simp; omega)
    obtain ⟨nd, hnd, hseg⟩ := hinv.seg
    rw [← hcur, nodeAt_snoc hch, hc] at hnd
    simp only [Option.some.injEq] at hnd; subst hnd
    obtain ⟨ch', hch', hl⟩ := hinv.lev p i hp
    rw [hch] at hch'; simp only [Option.some.injEq] at hch'; subst hch'
    cases c with
    | loop => simp [Node.isSeg] at hseg
    | seg a b c d e f g =>
      have := hl.here _ hc rfl
      simp only [satisfied, Bool.or_eq_true, bne_iff_ne, decide_eq_true_eq]
      right; exact this
  | succ n ih =>
    intro p i hp hlen hcomp ch c hch hc
    have hne : p ++ [i] ≠ cur := by intro e; rw [← e] at hlen; simp at hlen
    obtain ⟨i', hi'⟩ := prefix_extend hp hne
    obtain ⟨sub, hsub, hl'⟩ := hinv.lev (p ++ [i]) i' hi'
    obtain ⟨ch', lid, pos, u, r, w, hch', hci, _⟩ := nodeAt_of_chAt hsub
    rw [hch] at hch'; simp only [Option.some.injEq] at hch'; subst hch'
    rw [hc] at hci; simp only [Option.some.injEq] at hci; subst hci
    obtain ⟨ch0, hch0, hl⟩ := hinv.lev p i hp
    rw [hch] at hch0; simp only [Option.some.injEq] at hch0; subst hch0
    obtain ⟨c', hc'⟩ := hl'.idx
    have hkey : keyAt root (p ++ [i]) = keyAt root p ++ [(Node.loop lid pos u r w sub).comp] := keyAt_snoc hch hc
    cases sub with
    | nil => simp at hc'
    | cons first rest =>
      cases first with
      | seg a b c d e f g =>
        have := hl.here _ hc (by simp [counted, firstIsSeg, Node.isSeg])
        simp only [satisfied, satHead, Bool.or_eq_true, bne_iff_ne, decide_eq_true_eq]
        right; exact this
      | loop a b c d e f =>
        simp only [satisfied, satHead]
        apply satLoops_of_forall
        intro j cj hcj hcs
        rw [← hkey]
        rcases Nat.lt_trichotomy j i' with hlt | heq | hgt
        · rcases hl'.earlier j cj hlt hcj with hs | ⟨hs, _⟩
          · exact hs
          · rw [hcs] at hs; cases hs
        · subst heq
          exact ih (p ++ [i]) j hi' (by simp at hlen ⊢; omega)
            (fun p' i'' sub' h1 h2 => hcomp p' i'' sub' (List.IsPrefix.trans (List.prefix_append _ _) h1) h2) _ cj hsub hcj
        · exact hcomp (p ++ [i]) i' _ (List.prefix_refl _) hi' hsub (by simp [firstIsLoop, Node.isSeg]) _ hsub j cj hgt hcj

/-- the generator cursor while the hole `(q0, j0)` is open: as `ReadyAt`, except that the hole is not asked to be
    satisfied; the cursor is at child `j` of the loop at `q`, at or above the level of the hole and past it -/
structure ReadyAtH (root : List Node) (cnt : Counter) (cur : List Nat) (q0 : List Nat) (j0 : Nat)
    (q : List Nat) (i j : Nat) : Prop where
  on : q ++ [i] <+: cur
  le : i ≤ j
  above : q <+: q0
  past : q = q0 → j0 < j
  mid : ∀ ch, chAt root q = some ch → ∀ (j' : Nat) (c : Node), i < j' → j' < j → ch[j']? = some c →
    q ++ [j'] ≠ q0 ++ [j0] → satisfied cnt (keyAt root q ++ [c.comp]) c = true
  deep : ∀ p i', q ++ [i] <+: p → p ++ [i'] <+: cur → ∀ ch, chAt root p = some ch → ∀ (j' : Nat) (c : Node), i' < j' →
    ch[j']? = some c → p ++ [j'] ≠ q0 ++ [j0] → satisfied cnt (keyAt root p ++ [c.comp]) c = true

section
variable {K : Consts} {root : List Node} (h : MapOK K root) {cnt : Counter} {cur : List Nat}
  {q0 : List Nat} {i0 j0 : Nat} {ch0 : List Node} {c0 : Node} {q : List Nat} {i j : Nat}
include h

/-- transparent levels below the cursor are complete (the hole is never at a transparent level) -/
theorem ReadyAtH.completeT (R : ReadyAtH root cnt cur q0 j0 q i j) (H : Hole root cur q0 i0 j0 ch0 c0) :
    ∀ p' i' sub, q ++ [i] <+: p' → p' ++ [i'] <+: cur → chAt root p' = some sub → firstIsLoop sub = true →
      Complete root cnt p' i' := by
  intro p' i' sub h1 h2 hsub hT ch hch j' c hj' hc
  refine R.deep p' i' h1 h2 ch hch j' c hj' hc ?_
  intro e
  have hpe : p' = q0 := (List.append_inj' e (by simp)).1
  subst hpe
  have hne : p' ≠ [] := by
    intro e'; subst e'
    have := List.IsPrefix.length_le h1; simp at this
  have := H.notTransparent h hne
  rw [H.ch] at hsub; simp only [Option.some.injEq] at hsub; subst hsub
  rw [hT] at this; cases this

/-- a child of a level at or below the cursor level, other than the hole: satisfied, or skipped by position -/
theorem ReadyAtH.child (hinv : Inv root cnt cur) (R : ReadyAtH root cnt cur q0 j0 q i j)
    (H : Hole root cur q0 i0 j0 ch0 c0) {p' : List Nat} {i' : Nat} (h1 : q ++ [i] <+: p') (h3 : p' ++ [i'] <+: cur)
    {ch' : List Node} (hch' : chAt root p' = some ch') {jc : Nat} {c' : Node} (hjc : ch'[jc]? = some c')
    (hne : p' ++ [jc] ≠ q0 ++ [j0]) :
    satisfied cnt (keyAt root p' ++ [c'.comp]) c' = true ∨ c'.pos < posAt root (p' ++ [i']) := by
  obtain ⟨chx, hchx, hl⟩ := hinv.lev p' i' h3
  rw [hch'] at hchx; simp only [Option.some.injEq] at hchx; subst hchx
  rcases Nat.lt_trichotomy jc i' with hlt | heq | hgt
  · rcases hl.earlier jc c' hlt hjc with hs | ⟨_, hpos⟩
    · exact Or.inl hs
    · right
      obtain ⟨ci, hci⟩ := hl.idx
      simp only [posAt, nodeAt_snoc hch', hci]
      exact hpos ci hci
  · subst heq
    have hlen : (p' ++ [jc]).length ≤ cur.length := List.IsPrefix.length_le h3
    left
    exact path_satT hinv (cur.length - (p'.length + 1)) p' jc h3 (by simp at hlen; omega)
      (fun p'' i'' sub h4 h5 => R.completeT h H p'' i'' sub
        (List.IsPrefix.trans h1 (List.IsPrefix.trans (List.prefix_append _ _) h4)) h5) _ c' hch' hjc
  · exact Or.inl (R.deep p' i' h1 h3 ch' hch' jc c' hgt hjc hne)

/-- the children of the cursor level before the cursor, other than the hole -/
theorem ReadyAtH.pre (hinv : Inv root cnt cur) (R : ReadyAtH root cnt cur q0 j0 q i j)
    (H : Hole root cur q0 i0 j0 ch0 c0) {ch : List Node} (hch : chAt root q = some ch) {j' : Nat} {c' : Node}
    (hj' : j' < j) (hc' : ch[j']? = some c') (hne : q ++ [j'] ≠ q0 ++ [j0]) :
    satisfied cnt (keyAt root q ++ [c'.comp]) c' = true ∨ c'.pos < posAt root (q ++ [i]) := by
  obtain ⟨chx, hchx, hl⟩ := hinv.lev q i R.on
  rw [hch] at hchx; simp only [Option.some.injEq] at hchx; subst hchx
  rcases Nat.lt_trichotomy j' i with hlt | heq | hgt
  · rcases hl.earlier j' c' hlt hc' with hs | ⟨_, hpos⟩
    · exact Or.inl hs
    · right
      obtain ⟨ci, hci⟩ := hl.idx
      simp only [posAt, nodeAt_snoc hch, hci]
      exact hpos ci hci
  · subst heq
    have hlen : (q ++ [j']).length ≤ cur.length := List.IsPrefix.length_le R.on
    left
    exact path_satT hinv (cur.length - (q.length + 1)) q j' R.on (by simp at hlen; omega)
      (fun p'' i'' sub h4 h5 => R.completeT h H p'' i'' sub h4 h5) _ c' hch hc'
  · exact Or.inl (R.mid ch hch j' c' hgt hj' hc' hne)

/-- levels down to `q`, with the path now going through child `j` of `q`, after the counters changed only at or
    below the key of that child; the hole, if it is a child of `q`, lies strictly before child `j` in position -/
theorem inv_levelsH {cnt' : Counter} (hinv : Inv root cnt cur) (R : ReadyAtH root cnt cur q0 j0 q i j)
    (H : Hole root cur q0 i0 j0 ch0 c0)
    {ch : List Node} (hch : chAt root q = some ch) {c : Node} (hc : ch[j]? = some c)
    (hpos0 : q = q0 → c0.pos < c.pos)
    (hag : AgreeOff cnt cnt' (keyAt root q ++ [c.comp]))
    (hhere : counted c = true → 1 ≤ cnt'.get (keyAt root q ++ [c.comp])) :
    ∀ p i', p ++ [i'] <+: q ++ [j] → ∃ ch', chAt root p = some ch' ∧ LevelInv cnt' (keyAt root p) ch' i' := by
  have hqi := R.on
  have hij := R.le
  intro p i' hp
  rcases prefix_snoc_cases hp with hpq | heq
  · -- a level above `q`
    have hpcur : p ++ [i'] <+: cur := List.IsPrefix.trans hpq (List.IsPrefix.trans (List.prefix_append _ _) hqi)
    obtain ⟨ch', hch', hl⟩ := hinv.lev p i' hpcur
    refine ⟨ch', hch', ?_⟩
    obtain ⟨pc, hpc⟩ := hl.idx
    have hkp : keyAt root p ++ [pc.comp] <+: keyAt root q ++ [c.comp] := by
      rw [← keyAt_snoc hch' hpc]
      obtain ⟨sub, hsub⟩ := chAt_prefix hch hpq
      exact List.IsPrefix.trans (keyAt_prefix hsub hpq) (List.prefix_append _ _)
    have hwf := wfAt_chAt (wfAt_root h.wf) hch'
    refine ⟨hl.idx, ?_, ?_, ?_⟩
    · intro j'' c'' hj hc''
      exact transfer_zero (hl.later j'' c'' hj hc'') hag hkp (compDistinct_ne hwf.comp hpc hc'' (by omega))
    · intro j'' c'' hj hc''
      rcases hl.earlier j'' c'' hj hc'' with hs | hx
      · exact Or.inl (transfer_sat hs hag hkp (compDistinct_ne hwf.comp hpc hc'' (by omega)))
      · exact Or.inr hx
    · intro c1 hc1 hcnt
      rw [hpc] at hc1; simp only [Option.some.injEq] at hc1; subst hc1
      have hlen : (keyAt root p ++ [pc.comp]).length < (keyAt root q ++ [c.comp]).length := by
        have hlen1 : (p ++ [i']).length ≤ q.length := List.IsPrefix.length_le hpq
        obtain ⟨sub, hsub⟩ := chAt_prefix hch hpq
        have := List.IsPrefix.length_le (keyAt_prefix hsub hpq)
        rw [keyAt_snoc hch' hpc] at this
        simp at this ⊢; omega
      rw [hag _ (fun hh => by have := List.IsPrefix.length_le hh; omega)]
      exact hl.here _ hpc hcnt
  · -- level `q` itself
    have hpe : p = q ∧ i' = j := by
      have := List.append_inj' heq (by simp)
      exact ⟨this.1, by simpa using this.2⟩
    obtain ⟨rfl, rfl⟩ := hpe
    refine ⟨ch, hch, ?_⟩
    obtain ⟨chx, hchx, hl⟩ := hinv.lev p i hqi
    rw [hch] at hchx; simp only [Option.some.injEq] at hchx; subst hchx
    have hwf := wfAt_chAt (wfAt_root h.wf) hch
    refine ⟨⟨c, hc⟩, ?_, ?_, ?_⟩
    · intro j'' c'' hj hc''
      exact transfer_zero (hl.later j'' c'' (by omega) hc'') hag (List.prefix_refl _)
        (compDistinct_ne hwf.comp hc hc'' (by omega))
    · intro j'' c'' hj hc''
      by_cases hh : p ++ [j''] = q0 ++ [j0]
      · -- the hole: skipped by position from now on
        have hpe : p = q0 ∧ j'' = j0 := by
          have := List.append_inj' hh (by simp)
          exact ⟨this.1, by simpa using this.2⟩
        obtain ⟨rfl, rfl⟩ := hpe
        rw [H.ch] at hch; simp only [Option.some.injEq] at hch; subst hch
        rw [H.get] at hc''; simp only [Option.some.injEq] at hc''; subst hc''
        right
        refine ⟨H.seg, ?_⟩
        intro cj hcj
        rw [hc] at hcj; simp only [Option.some.injEq] at hcj; subst hcj
        exact hpos0 rfl
      · have hs : satisfied cnt (keyAt root p ++ [c''.comp]) c'' = true ∨
            (c''.isSeg = true ∧ ∀ ci, ch[i]? = some ci → c''.pos < ci.pos) := by
          rcases Nat.lt_trichotomy j'' i with hlt | heq | hgt
          · exact hl.earlier j'' c'' hlt hc''
          · subst heq
            have hlen : (p ++ [j'']).length ≤ cur.length := List.IsPrefix.length_le hqi
            exact Or.inl (path_satT hinv (cur.length - (p.length + 1)) p j'' hqi (by simp at hlen; omega)
              (fun p'' i'' sub h4 h5 => R.completeT h H p'' i'' sub h4 h5) _ c'' hch hc'')
          · exact Or.inl (R.mid ch hch j'' c'' hgt hj hc'' hh)
        rcases hs with hs | ⟨hsg, hpos⟩
        · exact Or.inl (transfer_sat hs hag (List.prefix_refl _) (compDistinct_ne hwf.comp hc hc'' (by omega)))
        · right
          refine ⟨hsg, ?_⟩
          intro cj hcj
          obtain ⟨ci, hci⟩ := hl.idx
          have h1 := hpos ci hci
          have h2 := posSorted_le hwf.pos hci hcj hij
          omega
    · intro c1 hc1 hcnt1
      rw [hc] at hc1; simp only [Option.some.injEq] at hc1; subst hc1
      exact hhere hcnt1

end

end Pyx12Verif.WalkerGenW
