/- Helper lemmas about the string / segment primitives of the acknowledgement model. -/
import Pyx12Verif.Model.Ack

namespace Pyx12Verif.Ack
open Pyx12Verif.ErrTree

/-! ### split / join -/

theorem consHead_ne_nil (c : Char) (l : List Str) : consHead c l ≠ [] := by
  cases l <;> simp [consHead]

theorem splitOn_ne_nil (sep : Char) (s : Str) : splitOn sep s ≠ [] := by
  cases s with
  | nil => simp [splitOn]
  | cons c r => simp only [splitOn]; split; simp; exact consHead_ne_nil _ _

theorem splitOn_no_sep (sep : Char) (s : Str) (h : sep ∉ s) : splitOn sep s = [s] := by
  induction s with
  | nil => simp [splitOn]
  | cons c r ih =>
    have hc : c ≠ sep := fun e => h (by simp [e])
    have hr : sep ∉ r := fun e => h (by simp [e])
    simp [splitOn, hc, ih hr, consHead]

theorem splitOn_append_sep (sep : Char) (a b : Str) (h : sep ∉ a) :
    splitOn sep (a ++ sep :: b) = a :: splitOn sep b := by
  induction a with
  | nil => simp [splitOn]
  | cons c r ih =>
    have hc : c ≠ sep := fun e => h (by simp [e])
    have hr : sep ∉ r := fun e => h (by simp [e])
    simp [splitOn, hc, ih hr, consHead]

theorem splitOn_joinWith (sep : Char) (parts : List Str) (hne : parts ≠ []) (h : ∀ p ∈ parts, sep ∉ p) :
    splitOn sep (joinWith sep parts) = parts := by
  induction parts with
  | nil => exact absurd rfl hne
  | cons x r ih =>
    cases r with
    | nil => simp [joinWith, splitOn_no_sep sep x (h x (by simp))]
    | cons y t =>
      simp only [joinWith]
      rw [splitOn_append_sep sep x _ (h x (by simp))]
      rw [ih (by simp) (fun p hp => h p (by simp [hp]))]

theorem joinWith_singleton (sep : Char) (x : Str) : joinWith sep [x] = x := rfl

/-! ### composites -/

theorem fmtComp_single (v : Str) : fmtComp [v] = v := by
  unfold fmtComp
  cases v with
  | nil => simp [trimR, trimCons, joinWith]
  | cons c r => simp [trimR, trimCons, joinWith]

theorem fmtComp_split_safe (v : Str) (h : ':' ∉ v) : fmtComp (splitOn ':' v) = v := by
  rw [splitOn_no_sep ':' v h, fmtComp_single]

/-! ### `append`, `appendAll`, `getValue` -/

@[simp] theorem append_id (s : PSeg) (v : Str) : (s.append v).id = s.id := rfl
@[simp] theorem append_elems (s : PSeg) (v : Str) : (s.append v).elems = s.elems ++ [splitOn ':' v] := rfl

theorem appendAll_id (s : PSeg) (l : List Str) : (appendAll s l).id = s.id := by
  induction l generalizing s with
  | nil => rfl
  | cons c r ih => simp [appendAll, ih]

theorem appendAll_elems (s : PSeg) (l : List Str) : (appendAll s l).elems = s.elems ++ l.map (splitOn ':') := by
  induction l generalizing s with
  | nil => simp [appendAll]
  | cons c r ih => simp [appendAll, ih]

theorem getValue_append_left (s : PSeg) (l : List Comp) (i : Nat) (h : i < s.elems.length) :
    ({ s with elems := s.elems ++ l } : PSeg).getValue i = s.getValue i := by
  simp [PSeg.getValue, List.getElem?_append_left h]

theorem appendAll_getValue (s : PSeg) (l : List Str) (i : Nat) (h : i < s.elems.length) :
    (appendAll s l).getValue i = s.getValue i := by
  unfold PSeg.getValue
  rw [appendAll_elems, List.getElem?_append_left h]

@[simp] theorem setEle_id (s : PSeg) (i : Nat) (v : Str) : (s.setEle i v).id = s.id := rfl

theorem padComps_length (n : Nat) (l : List Comp) : n < (padComps n l).length := by
  simp [padComps]; omega

theorem setEle_getValue (s : PSeg) (i : Nat) (v : Str) :
    (s.setEle i v).getValue i = some (fmtComp (splitOn ':' v)) := by
  simp [PSeg.getValue, PSeg.setEle, padComps_length]

theorem padComps_get_lt (n : Nat) (l : List Comp) (j : Nat) (h : j < l.length) : (padComps n l)[j]? = l[j]? := by
  simp [padComps, List.getElem?_append_left h]

theorem setEle_getValue_ne (s : PSeg) (i j : Nat) (v : Str) (hij : i ≠ j) (hj : j < s.elems.length) :
    (s.setEle i v).getValue j = s.getValue j := by
  simp only [PSeg.getValue, PSeg.setEle]
  rw [List.getElem?_set_ne hij, padComps_get_lt _ _ _ hj]

/-! ### decimal rendering -/

def isDigitC (c : Char) : Bool := 48 ≤ c.toNat && c.toNat ≤ 57

theorem digitChar_isDigit (n : Nat) : isDigitC (digitChar n) = true := by
  unfold digitChar
  repeat' split
  all_goals decide

theorem natDigitsAux_digits (f n : Nat) (acc : Str) (h : ∀ c ∈ acc, isDigitC c = true) :
    ∀ c ∈ natDigitsAux f n acc, isDigitC c = true := by
  induction f generalizing n acc with
  | zero => simpa [natDigitsAux] using h
  | succ f ih =>
    simp only [natDigitsAux]
    split
    · intro c hc
      simp at hc
      rcases hc with rfl | hc
      · exact digitChar_isDigit n
      · exact h c hc
    · apply ih
      intro c hc
      simp at hc
      rcases hc with rfl | hc
      · exact digitChar_isDigit n
      · exact h c hc

theorem natStr_digits (n : Nat) : ∀ c ∈ natStr n, isDigitC c = true :=
  natDigitsAux_digits _ _ [] (by simp)

theorem digit_not_special (c : Char) (h : isDigitC c = true) : c ≠ '*' ∧ c ≠ ':' ∧ c ≠ '~' ∧ c ≠ '\n' := by
  simp only [isDigitC, Bool.and_eq_true, decide_eq_true_eq] at h
  refine ⟨?_, ?_, ?_, ?_⟩ <;> (intro e; subst e; revert h; decide)

theorem natStr_no (n : Nat) (x : Char) (hx : x = '*' ∨ x = ':' ∨ x = '~' ∨ x = '\n') : x ∉ natStr n := by
  intro hm
  have := digit_not_special x (natStr_digits n x hm)
  rcases hx with rfl | rfl | rfl | rfl <;> simp_all

theorem padZeros_mem (w : Nat) (s : Str) (c : Char) (h : c ∈ padZeros w s) : c = '0' ∨ c ∈ s := by
  simp [padZeros] at h
  rcases h with ⟨_, rfl⟩ | h
  · left; rfl
  · right; exact h

theorem fmt04_no (n : Nat) (x : Char) (hx : x = '*' ∨ x = ':' ∨ x = '~' ∨ x = '\n') : x ∉ fmt04 n := by
  intro hm
  rcases padZeros_mem _ _ _ hm with rfl | h
  · rcases hx with h | h | h | h <;> revert h <;> decide
  · exact natStr_no n x hx h

end Pyx12Verif.Ack
