/-
The part of `Unambiguous` that the SHAPE of a walker answer depends on (`ShapeUnamb`), much weaker than `Unambiguous`
and even than its local part (`sibDisjoint`, `localList`):

  * in a loop that starts with a segment, no later SEGMENT child can be entered by a data segment that matches the first
    segment (otherwise the walker, coming up from a child loop, reports a repeat of the enclosing loop without closing it);
  * inside a wrapper loop, no loop below an earlier child starts with a segment that also enters a later child (`deepDisjoint`;
    otherwise `_goto_seg_match` descends into another child than `_is_loop_match` accepted, and pushes non-wrapper loops).

Overlaps between two later children of a loop (two REF nodes with overlapping code lists, a segment and a loop entered by
the same segment, …) decide WHICH node the walker picks, not the shape of what it returns; they are irrelevant here.
-/
import Pyx12Verif.Proofs.CtxWalkStep

namespace Pyx12Verif.CtxWalk
open Pyx12Verif.MapSkel Pyx12Verif.Walker Pyx12Verif.WalkerGen

def headFresh (K : Consts) (first : Node) : List Node → Bool
  | [] => true
  | c :: r => (!c.isSeg || !anyOverlapS (entry K first) (entry K c)) && headFresh K first r

/-- no later segment child overlaps the first segment -/
def headDisjoint (K : Consts) : List Node → Bool
  | [] => true
  | first :: r => !first.isSeg || headFresh K first r

mutual
def shapeNode (K : Consts) : Node → Bool
  | .seg .. => true
  | .loop _ _ _ _ _ ch => headDisjoint K ch && (!firstIsLoop ch || deepDisjoint K ch) && shapeList K ch
def shapeList (K : Consts) : List Node → Bool
  | [] => true
  | c :: r => shapeNode K c && shapeList K r
end

def ShapeUnamb (K : Consts) (root : List Node) : Bool := shapeList K root

end Pyx12Verif.CtxWalk

namespace Pyx12Verif.CtxWalk
open Pyx12Verif.MapSkel Pyx12Verif.Walker Pyx12Verif.WalkerGen

mutual
/-- the one conjunct of `WFMap` the shape of an answer depends on: a loop that has a segment child starts with a segment
    (`transparentOK`), everywhere -/
def trNode : Node → Bool
  | .seg .. => true
  | .loop _ _ usage _ _ ch => transparentOK usage ch && trList ch
def trList : List Node → Bool
  | [] => true
  | c :: r => trNode c && trList r
end

/-! ### implied by `WFMap` / `Unambiguous` -/

mutual
theorem trNode_of_wf : ∀ (c : Node), wfNode c = true → trNode c = true
  | .seg .., _ => rfl
  | .loop _ _ u _ _ ch, h => by
    simp only [wfNode, Bool.and_eq_true] at h
    simp only [trNode, Bool.and_eq_true]
    exact ⟨h.1.2, trList_of_wf ch h.2⟩
theorem trList_of_wf : ∀ (ch : List Node), wfList ch = true → trList ch = true
  | [], _ => rfl
  | c :: r, h => by
    simp only [wfList, Bool.and_eq_true] at h
    simp only [trList, Bool.and_eq_true]
    exact ⟨trNode_of_wf c h.1, trList_of_wf r h.2⟩
end

theorem trList_of_wfmap {root : List Node} (h : WFMap root = true) : trList root = true := by
  simp only [WFMap, Bool.and_eq_true] at h
  exact trList_of_wf root h.2

theorem headFresh_of_noOverlapWith {K : Consts} {first : Node} : ∀ (r : List Node), noOverlapWith K first r = true →
    headFresh K first r = true
  | [], _ => rfl
  | m :: r, h => by
    simp only [noOverlapWith, Bool.and_eq_true, Bool.not_eq_true'] at h
    simp only [headFresh, Bool.and_eq_true, Bool.or_eq_true, Bool.not_eq_true']
    exact ⟨Or.inr h.1, headFresh_of_noOverlapWith r h.2⟩

theorem headDisjoint_of_sib {K : Consts} {ch : List Node} (h : sibDisjoint K ch = true) : headDisjoint K ch = true := by
  cases ch with
  | nil => rfl
  | cons first r =>
    simp only [sibDisjoint, Bool.and_eq_true] at h
    simp only [headDisjoint, Bool.or_eq_true, Bool.not_eq_true']
    exact Or.inr (headFresh_of_noOverlapWith r h.1)

mutual
theorem shapeNode_of_local {K : Consts} : ∀ (c : Node), localNode K c = true → shapeNode K c = true
  | .seg .., _ => rfl
  | .loop _ _ _ _ _ ch, h => by
    simp only [localNode, Bool.and_eq_true] at h
    simp only [shapeNode, Bool.and_eq_true]
    exact ⟨⟨headDisjoint_of_sib h.1.1, h.1.2⟩, shapeList_of_local ch h.2⟩
theorem shapeList_of_local {K : Consts} : ∀ (ch : List Node), localList K ch = true → shapeList K ch = true
  | [], _ => rfl
  | c :: r, h => by
    simp only [localList, Bool.and_eq_true] at h
    simp only [shapeList, Bool.and_eq_true]
    exact ⟨shapeNode_of_local c h.1, shapeList_of_local r h.2⟩
end

/-- `Unambiguous` implies `ShapeUnamb` (through its conjunct `localList`) -/
theorem shapeUnamb_of_unambiguous {K : Consts} {root : List Node} (h : Unambiguous K root = true) :
    ShapeUnamb K root = true := by
  simp only [Unambiguous, Bool.and_eq_true] at h
  exact shapeList_of_local root h.1.2

end Pyx12Verif.CtxWalk
