/-
C05 at pipeline level, error-tree side (2): the LEDGER — a flat recount of what the acknowledgement will say, computed from
the event list alone, with no tree, no index paths and no "current node" pointers:

  * `gs`  one record per `add_gs_loop` (identifier, control number, totals and code fixed by the latest `close_gs_loop`,
          number of `gs_error`s, number of sets),
  * `st`  one record per `add_st_loop` (identifier, control number, closed?, code fixed by the latest `close_st_loop`, and
          `dirty` = an error that `err_st.err_count` looks at has been attached),
  * `anchored`  the latest pointer-setting call was `add_seg` (so the next segment / element error lands on a SEGMENT node
                of the latest set rather than on an envelope node),
  * `fresh`     an `add_ele` came after the latest pointer-setting call,
  * `ok`        every `ele_error` so far came while `fresh` (otherwise it lands on the element node of some EARLIER segment —
                the stale `cur_ele_node`; the ledger does not follow those).

`lstep` is the recount; `PInv` is the invariant of the handler's pointers (each is the LAST node of its kind in document
order, Proofs/DocC05Flat.lean).
-/
import Pyx12Verif.Proofs.DocC05Flat

namespace Pyx12Verif.DocC05
open Pyx12Verif.ErrTree

/-! ### records -/

structure SV where
  id : Option Str
  ctl : Option Str
  code : Str
  closed : Bool
  dirty : Bool
deriving DecidableEq, Repr

structure GV where
  fic : Option Str
  ctl : Option Str
  code : Option Str
  orig : Int
  recv : Nat
  closed : Bool
  errs : Nat
  nsets : Nat
deriving DecidableEq, Repr

/-- what the acknowledgement reads off a set node -/
def sv (s : St) : SV := ⟨s.trnSetId, s.ctlNum, s.ackCode, s.closed, decide (s.errCount > 0)⟩
/-- what it reads off a group node -/
def gv (g : Gs) : GV :=
  ⟨g.fic, g.ctlNum, g.ackCode, g.countOrig, g.countRecv, g.closed, g.errors.length, g.children.length⟩

/-- the part of a record that does not depend on where element errors land -/
def SV.core (v : SV) : SV := { v with code := [], dirty := false }
def GV.core (v : GV) : GV := { v with code := none }

structure Ledger where
  gs : List GV
  st : List SV
  isaErrs : Nat
  anchored : Bool
  fresh : Bool
  ok : Bool
deriving DecidableEq, Repr

def Ledger.init : Ledger := ⟨[], [], 0, false, false, true⟩

def markDirty (v : SV) : SV := { v with dirty := true }
def closeSV (v : SV) : SV := { v with closed := true, code := if v.dirty then ['R'] else ['A'] }

def anyDirty : List SV → Bool
  | [] => false
  | v :: r => v.dirty || anyDirty r

def lastN {α : Type} (n : Nat) (l : List α) : List α := l.drop (l.length - n)

def closeGV (sets : List SV) (orig : Int) (recv : Nat) (v : GV) : GV :=
  { v with closed := true,
           code := some (if anyDirty (lastN v.nsets sets) then ['R'] else if v.errs > 0 then ['R'] else ['A']),
           orig := orig, recv := recv }

def newGV (d : GsData) : GV := ⟨d.e01, d.ctl, none, 0, 0, false, 0, 0⟩
def newSV (d : StData) : SV := ⟨d.e01, d.ctl, ['R'], false, false⟩
def bumpSets (v : GV) : GV := { v with nsets := v.nsets + 1 }
def bumpErrs (v : GV) : GV := { v with errs := v.errs + 1 }

/-- what an attached (segment or element) error does -/
def attach (L : Ledger) : Ledger := if L.anchored then { L with st := modLast markDirty L.st } else L

/-- the recount, one handler call at a time -/
def lstep (L : Ledger) : Event → Ledger
  | .addIsa _ => { L with anchored := false, fresh := false }
  | .addGs d => { L with gs := L.gs ++ [newGV d], anchored := false, fresh := false }
  | .addSt d => { L with gs := modLast bumpSets L.gs, st := L.st ++ [newSV d], anchored := false, fresh := false }
  | .addSeg _ _ _ => { L with anchored := true, fresh := false }
  | .addEle _ _ _ => { L with fresh := true }
  | .isaError _ => { L with isaErrs := L.isaErrs + 1 }
  | .gsError _ => { L with gs := modLast bumpErrs L.gs }
  | .stError _ => { L with st := modLast markDirty L.st }
  | .segError _ _ => attach L
  | .eleError _ _ _ => { attach L with ok := L.ok && L.fresh }
  | .closeSt => { L with st := modLast closeSV L.st, anchored := false, fresh := false }
  | .closeGs ge recv => { L with gs := modLast (closeGV L.st ge.value recv) L.gs, anchored := false, fresh := false }
  | .closeIsa => { L with anchored := false, fresh := false }

def lrun (L : Ledger) (evs : List Event) : Ledger := evs.foldl lstep L

def ledger (evs : List Event) : Ledger := lrun Ledger.init evs

theorem lrun_append (L : Ledger) (a b : List Event) : lrun L (a ++ b) = lrun (lrun L a) b := by
  simp [lrun, List.foldl_append]

theorem lrun_cons (L : Ledger) (e : Event) (r : List Event) : lrun L (e :: r) = lrun (lstep L e) r := rfl

/-! ### counting lemmas -/

theorem segChild_pos_of_modNth (F : Seg → Seg) (hF : ∀ sg, (F sg).errCount > 0) :
    ∀ (l : List Seg) (j : Nat), j < l.length → segChildErrCount (modNth F l j) > 0 := by
  intro l
  induction l with
  | nil => intro j h; simp at h
  | cons a r ih =>
    intro j h
    cases j with
    | zero =>
      simp only [modNth, segChildErrCount]
      rw [if_pos (hF a)]; omega
    | succ n =>
      simp only [modNth, segChildErrCount]
      have := ih n (by simpa using h)
      omega

theorem segChild_mono_modNth (F : Seg → Seg) (hF : ∀ sg, sg.errCount > 0 → (F sg).errCount > 0) :
    ∀ (l : List Seg) (j : Nat), segChildErrCount l > 0 → segChildErrCount (modNth F l j) > 0 := by
  intro l
  induction l with
  | nil => intro j h; simp [segChildErrCount] at h
  | cons a r ih =>
    intro j h
    cases j with
    | zero =>
      simp only [modNth, segChildErrCount] at h ⊢
      by_cases ha : a.errCount > 0
      · rw [if_pos (hF a ha)]; omega
      · simp only [ha, if_false] at h; omega
    | succ n =>
      simp only [modNth, segChildErrCount] at h ⊢
      by_cases ha : a.errCount > 0
      · rw [if_pos ha]; omega
      · simp only [ha, if_false] at h
        have := ih n (by omega)
        omega

theorem eleChild_append_pos (l : List Ele) (e : Ele) (he : e.errCount > 0) : eleChildErrCount (l ++ [e]) > 0 := by
  induction l with
  | nil => simp [eleChildErrCount, he]
  | cons a r ih => simp only [List.cons_append, eleChildErrCount]; omega

theorem eleChild_mono_modLast (x : EleErr) : ∀ (l : List Ele), eleChildErrCount l > 0 →
    eleChildErrCount (modLast (fun e => e.addError x) l) > 0 := by
  intro l
  induction l with
  | nil => intro h; simp [eleChildErrCount] at h
  | cons a r ih =>
    intro h
    cases r with
    | nil =>
      simp only [modLast, eleChildErrCount, Ele.errCount, Ele.addError, List.length_append, List.length_singleton]
      simp
    | cons b r' =>
      simp only [modLast, eleChildErrCount] at h ⊢
      by_cases ha : a.errCount > 0
      · rw [if_pos ha]; omega
      · simp only [ha, if_false] at h
        have := ih (by simp only [eleChildErrCount]; omega)
        omega

theorem segChild_snoc_clean (l : List Seg) (sg : Seg) (h1 : sg.errors = []) (h2 : sg.elements = []) :
    segChildErrCount (l ++ [sg]) = segChildErrCount l := by
  induction l with
  | nil => simp [segChildErrCount, Seg.errCount, Seg.childErrCount, eleChildErrCount, h1, h2]
  | cons a r ih => simp only [List.cons_append, segChildErrCount, ih]

theorem anyDirty_map_sv (l : List St) : anyDirty (l.map sv) = anyStHasErrors l := by
  induction l with
  | nil => rfl
  | cons a r ih =>
    simp only [List.map_cons, anyDirty, anyStHasErrors, ih, sv]
    by_cases h : a.errCount > 0 <;> simp [h]

theorem lastN_append {α : Type} (A B : List α) (n : Nat) (h : B.length = n) : lastN n (A ++ B) = B := by
  unfold lastN
  subst h
  simp

/-! ### the pointer invariant -/

/-- number of segment nodes of every set, in document order -/
def segCounts (t : Tree) : List Nat := (allS t).map (fun st => st.children.length)

def HostOk (s : State) : Host → Prop
  | .isa i => s.curIsa = some i
  | .gs i g => s.curGs = some (i, g)
  | .st i g k => s.curSt = some (i, g, k)
  | .seg i g k j => s.curSt = some (i, g, k) ∧ ∃ L, segCounts s.tree = L ++ [j + 1]

structure PInv (s : State) : Prop where
  isa : ∀ i, s.curIsa = some i → i + 1 = s.tree.length
  gs : ∀ i g, s.curGs = some (i, g) → ∃ m, GsLast (sh2 s.tree) i g m
  st : ∀ i g k, s.curSt = some (i, g, k) → StLast (sh2 s.tree) i g k
  nost : s.curSt = none → segCounts s.tree = []
  host : ∀ h, s.curSeg = .host h → HostOk s h
  pend : ∀ sg, s.curSeg = .pending sg → sg.errors = [] ∧ sg.elements = []

theorem PInv.init : PInv State.init :=
  ⟨fun i h => (by cases h), fun i g h => (by cases h), fun i g k h => (by cases h), fun _ => rfl,
   fun h e => (by cases e), fun sg e => (by cases e)⟩

theorem snoc_inj {α : Type} {A B : List α} {x y : α} (h : A ++ [x] = B ++ [y]) : A = B ∧ x = y := by
  have := List.append_inj' h rfl
  exact ⟨this.1, by simpa using this.2⟩

theorem HostOk.transfer {s s' : State} {x : Host} (h : HostOk s x) (hS : segCounts s'.tree = segCounts s.tree)
    (h1 : s'.curIsa = s.curIsa) (h2 : s'.curGs = s.curGs) (h3 : s'.curSt = s.curSt) : HostOk s' x := by
  cases x with
  | isa i => exact h1.trans h
  | gs i g => exact h2.trans h
  | st i g k => exact h3.trans h
  | seg i g k j =>
    obtain ⟨a, L, b⟩ := h
    exact ⟨h3.trans a, L, by rw [hS]; exact b⟩

/-- an update that keeps the skeleton, the number of segment nodes of every set and the three loop pointers -/
theorem PInv.of_same (s s' : State) (h : PInv s) (hsh : sh2 s'.tree = sh2 s.tree) (hlen : s'.tree.length = s.tree.length)
    (hS : segCounts s'.tree = segCounts s.tree) (h1 : s'.curIsa = s.curIsa) (h2 : s'.curGs = s.curGs)
    (h3 : s'.curSt = s.curSt) (hhost : ∀ x, s'.curSeg = .host x → HostOk s' x)
    (hpend : ∀ sg, s'.curSeg = .pending sg → sg.errors = [] ∧ sg.elements = []) : PInv s' := by
  refine ⟨?_, ?_, ?_, ?_, hhost, hpend⟩
  · intro i hi; rw [hlen]; exact h.isa i (h1 ▸ hi)
  · intro i g hg; rw [hsh]; exact h.gs i g (h2 ▸ hg)
  · intro i g k hk; rw [hsh]; exact h.st i g k (h3 ▸ hk)
  · intro hn; rw [hS]; exact h.nost (h3 ▸ hn)

/-- the same when the current-segment pointer did not move either -/
theorem PInv.of_same_seg (s s' : State) (h : PInv s) (hsh : sh2 s'.tree = sh2 s.tree)
    (hlen : s'.tree.length = s.tree.length) (hS : segCounts s'.tree = segCounts s.tree) (h1 : s'.curIsa = s.curIsa)
    (h2 : s'.curGs = s.curGs) (h3 : s'.curSt = s.curSt) (h4 : s'.curSeg = s.curSeg) : PInv s' :=
  PInv.of_same s s' h hsh hlen hS h1 h2 h3
    (fun x hx => (h.host x (h4 ▸ hx)).transfer hS h1 h2 h3) (fun sg hsg => h.pend sg (h4 ▸ hsg))

end Pyx12Verif.DocC05
