/-
C03 run level, missing mandatory segment — definitions.

* `HList / HChild / HReps / HOne`: a conformant derivation from which exactly ONE required segment (usage R, not the
  first segment of its loop: the "hole") was left out, split as `pre ++ x :: post` where `x` is the segment on which
  the walker reports the hole: the first segment emitted after it, which instantiates a later child (`TList`) of the
  loop instance with the hole or — when nothing more is emitted in that instance, `HListO …` — of an enclosing one.
* `AfterX` over the generalised invariant (fork of the one in Proofs/C03RunSpec.lean).
-/
import Pyx12Verif.Proofs.C03RunWRep

namespace Pyx12Verif.WalkerGenW
open Pyx12Verif.MapSkel Pyx12Verif.Walker Pyx12Verif.WalkerGen

/-- every child may be left out -/
def allOptional : List Node → Bool
  | [] => true
  | c :: r => optional c && allOptional r

mutual
/-- after the hole `c0`: children left out entirely, then the child that emits next.  `same`: the list is that of
    the hole's own loop instance (then the walker stays in the instance, and the hole must lie strictly before the
    next child in position, else it is met again).  A segment child must differ from the hole in id and position
    (`mandatory_segs_missing` is filtered by id and flushed by position). -/
inductive TList (K : Consts) (c0 : Node) (same : Bool) : List Nat → Nat → List Node → Emit → List Emit → Prop
  | skip {lip i c r x post} : optional c = true → TList K c0 same lip (i + 1) r x post →
      TList K c0 same lip i (c :: r) x post
  | hitSeg {lip i sid qq p u m notes ch r s o1 o2} :
      isMatch K (.seg sid qq p u m notes ch) s = true → u ≠ 2 → (m = 0 ∨ 0 < m) →
      c0.ident ≠ sid → c0.pos ≠ p →
      GenReps K (lip ++ [i]) (.seg sid qq p u m notes ch) 1 o1 → GenList K lip (i + 1) r o2 →
      TList K c0 same lip i (.seg sid qq p u m notes ch :: r) (lip ++ [i], s) (o1 ++ o2)
  | hitLoop {lip i lid p u rp w first rest r s o o1 o2} :
      first.isSeg = true → isMatch K first s = true → u ≠ 2 → (rp = 0 ∨ 0 < rp) → (same = true → c0.pos ≠ p) →
      GenList K (lip ++ [i]) 1 rest o → GenReps K (lip ++ [i]) (.loop lid p u rp w (first :: rest)) 1 o1 →
      GenList K lip (i + 1) r o2 →
      TList K c0 same lip i (.loop lid p u rp w (first :: rest) :: r) (lip ++ [i] ++ [0], s) (o ++ o1 ++ o2)
end

mutual
/-- children `i, …` of the loop at `lip` up to and including the hole (or the child below which the hole is open);
    nothing is emitted afterwards -/
inductive HListO (K : Consts) (e : WErr) (c0 : Node) : List Nat → Nat → List Node → List Emit → Prop
  | later {lip i c r o1 pre} : GenChild K (lip ++ [i]) c o1 → HListO K e c0 lip (i + 1) r pre →
      HListO K e c0 lip i (c :: r) (o1 ++ pre)
  | gap {lip i r} : c0.isSeg = true → c0.usage = 0 → e = (ErrKind.mandatoryMissing, lip ++ [i]) → allOptional r = true →
      HListO K e c0 lip i (c0 :: r) []
  | under {lip i c r pre} : HChildO K e c0 (lip ++ [i]) c pre → allOptional r = true → HListO K e c0 lip i (c :: r) pre
inductive HChildO (K : Consts) (e : WErr) (c0 : Node) : List Nat → Node → List Emit → Prop
  | counted {ip c pre} : counted c = true → HRepsO K e c0 ip c 0 pre → HChildO K e c0 ip c pre
  | wrapper {ip lid p u r w first rest pre} : first.isSeg = false → u ≠ 2 →
      HListO K e c0 ip 0 (first :: rest) pre → HChildO K e c0 ip (.loop lid p u r w (first :: rest)) pre
/-- instances `k+1, …`, the last of which is the one with the open hole -/
inductive HRepsO (K : Consts) (e : WErr) (c0 : Node) : List Nat → Node → Nat → List Emit → Prop
  | last {ip c k pre} : c.usage ≠ 2 → (c.rep = 0 ∨ k < c.rep) → HOneO K e c0 ip c pre → HRepsO K e c0 ip c k pre
  | later {ip c k o1 pre} : c.usage ≠ 2 → (c.rep = 0 ∨ k < c.rep) → GenOne K ip c o1 → HRepsO K e c0 ip c (k + 1) pre →
      HRepsO K e c0 ip c k (o1 ++ pre)
inductive HOneO (K : Consts) (e : WErr) (c0 : Node) : List Nat → Node → List Emit → Prop
  | loop {ip lid p u r w first rest s pre} : first.isSeg = true → isMatch K first s = true →
      HListO K e c0 ip 1 rest pre → HOneO K e c0 ip (.loop lid p u r w (first :: rest)) ((ip ++ [0], s) :: pre)
end

/-- index path of the last emitted segment -/
def lastPath (out : List Emit) : List Nat := runCur [] out

/-- the second child of a loop lies strictly after the first one in position -/
def secondAfterFirst : Node → Bool
  | .loop _ _ _ _ _ (first :: c1 :: _) => decide (first.pos < c1.pos)
  | _ => true

mutual
/-- children `i, …` of the loop at `lip`, the hole and the segment that reports it below or among them -/
inductive HList (K : Consts) (e : WErr) : List Nat → Nat → List Node → List Emit → Emit → List Emit → Prop
  | here {lip i c r pre x post o2} : HChild K e (lip ++ [i]) c pre x post → GenList K lip (i + 1) r o2 →
      HList K e lip i (c :: r) pre x (post ++ o2)
  | later {lip i c r o1 pre x post} : GenChild K (lip ++ [i]) c o1 → HList K e lip (i + 1) r pre x post →
      HList K e lip i (c :: r) (o1 ++ pre) x post
  | gap {lip i c0 r x post} : c0.isSeg = true → c0.usage = 0 → e = (ErrKind.mandatoryMissing, lip ++ [i]) →
      TList K c0 true lip (i + 1) r x post → HList K e lip i (c0 :: r) [] x post
  | under {lip i c c0 r pre x post} : HChildO K e c0 (lip ++ [i]) c pre → TList K c0 false lip (i + 1) r x post →
      HList K e lip i (c :: r) pre x post
inductive HChild (K : Consts) (e : WErr) : List Nat → Node → List Emit → Emit → List Emit → Prop
  | counted {ip c pre x post} : counted c = true → HReps K e ip c 0 pre x post → HChild K e ip c pre x post
  | wrapper {ip lid p u r w first rest pre x post} : first.isSeg = false → u ≠ 2 →
      HList K e ip 0 (first :: rest) pre x post → HChild K e ip (.loop lid p u r w (first :: rest)) pre x post
inductive HReps (K : Consts) (e : WErr) : List Nat → Node → Nat → List Emit → Emit → List Emit → Prop
  | inside {ip c k pre x post o2} : c.usage ≠ 2 → (c.rep = 0 ∨ k < c.rep) →
      HOne K e ip c pre x post → GenReps K ip c (k + 1) o2 → HReps K e ip c k pre x (post ++ o2)
  | later {ip c k o1 pre x post} : c.usage ≠ 2 → (c.rep = 0 ∨ k < c.rep) →
      GenOne K ip c o1 → HReps K e ip c (k + 1) pre x post → HReps K e ip c k (o1 ++ pre) x post
  /-- the instance with the open hole is followed by the next instance of the same loop, whose first segment
      reports the hole.  Excluded corner (there the hole goes unreported): the last segment before is the loop's own
      first segment, i.e. the walk still stands at the first segment's position. -/
  | again {ip c c0 k pre x post1 o2} : c.usage ≠ 2 → (c.rep = 0 ∨ k + 1 < c.rep) → HOneO K e c0 ip c pre →
      lastPath pre ≠ ip ++ [0] → secondAfterFirst c = true →
      GenOne K ip c (x :: post1) → GenReps K ip c (k + 2) o2 → HReps K e ip c k pre x (post1 ++ o2)
inductive HOne (K : Consts) (e : WErr) : List Nat → Node → List Emit → Emit → List Emit → Prop
  | loop {ip lid p u r w first rest s pre x post} :
      first.isSeg = true → isMatch K first s = true → HList K e ip 1 rest pre x post →
      HOne K e ip (.loop lid p u r w (first :: rest)) ((ip ++ [0], s) :: pre) x post
end

def AfterX (K : Consts) (root : List Node) (rootId : Nat) (cnt : Counter) (cur : List Nat)
    (pre : List Emit) (x : Emit) (post : List Emit) (e : WErr) (P : Counter → List Nat → Prop) : Prop :=
  RunErrAt K root rootId cnt cur pre x post e ∧
  Inv root (runCnt K root rootId cnt cur (pre ++ x :: post)) (runCur cur (pre ++ x :: post)) ∧
  P (runCnt K root rootId cnt cur (pre ++ x :: post)) (runCur cur (pre ++ x :: post))

theorem AfterX.mono {K : Consts} {root : List Node} {rootId : Nat} {cnt : Counter} {cur : List Nat}
    {pre : List Emit} {x : Emit} {post : List Emit} {e : WErr} {P Q : Counter → List Nat → Prop}
    (h : AfterX K root rootId cnt cur pre x post e P) (hpq : ∀ a b, P a b → Q a b) :
    AfterX K root rootId cnt cur pre x post e Q := ⟨h.1, h.2.1, hpq _ _ h.2.2⟩

/-- the faulty step itself, followed by an accepted run -/
theorem AfterX.fault {K : Consts} {root : List Node} {rootId : Nat} {cnt : Counter} {cur : List Nat} {ip : List Nat}
    {s : SegData} {cnt1 : Counter} {e : WErr}
    (hn : (walk K root rootId cnt cur s).node = some ip)
    (hs : (walk K root rootId cnt cur s).st = { cnt := cnt1, pending := [], errs := [e] })
    {o : List Emit} {P : Counter → List Nat → Prop} (h : After K root rootId cnt1 ip o P) :
    AfterX K root rootId cnt cur [] (ip, s) o e P := by
  obtain ⟨r, i, p⟩ := h
  have hc : (walk K root rootId cnt cur s).st.cnt = cnt1 := by rw [hs]
  refine ⟨⟨trivial, ?_, ?_, ?_, ?_⟩, ?_, ?_⟩
  · simpa [runCnt, runCur] using hn
  · simp [runCnt, runCur, hs]
  · simp [runCnt, runCur, hs]
  · simpa [runCnt, runCur, hc] using r
  · simpa [runCnt, runCur, hc] using i
  · simpa [runCnt, runCur, hc] using p

/-- an accepted step in front -/
theorem AfterX.step {K : Consts} {root : List Node} {rootId : Nat} {cnt : Counter} {cur : List Nat} {ip : List Nat}
    {s : SegData} {cnt1 : Counter}
    (hn : (walk K root rootId cnt cur s).node = some ip)
    (hs : (walk K root rootId cnt cur s).st = { cnt := cnt1, pending := [], errs := [] })
    {pre : List Emit} {x : Emit} {post : List Emit} {e : WErr} {P : Counter → List Nat → Prop}
    (h : AfterX K root rootId cnt1 ip pre x post e P) :
    AfterX K root rootId cnt cur ((ip, s) :: pre) x post e P := by
  obtain ⟨⟨r1, r2, r3, r4, r5⟩, i, p⟩ := h
  have hc : (walk K root rootId cnt cur s).st.cnt = cnt1 := by rw [hs]
  refine ⟨⟨?_, ?_, ?_, ?_, ?_⟩, ?_, ?_⟩
  · simp only [RunOK, hn, hs, true_and]; exact r1
  · simpa only [runCnt, runCur, hc] using r2
  · simpa only [runCnt, runCur, hc] using r3
  · simpa only [runCnt, runCur, hc] using r4
  · simpa only [runCnt, runCur, hc] using r5
  · simpa only [List.cons_append, runCnt, runCur, hc] using i
  · simpa only [List.cons_append, runCnt, runCur, hc] using p

/-- an accepted run in front -/
theorem AfterX.prepend {K : Consts} {root : List Node} {rootId : Nat} {cnt : Counter} {cur : List Nat} {o1 : List Emit}
    {pre : List Emit} {x : Emit} {post : List Emit} {e : WErr}
    {P : Counter → List Nat → Prop} {Q : Counter → Counter → List Nat → Prop} (h1 : After K root rootId cnt cur o1 P)
    (h2 : ∀ cnt1 cur1, Inv root cnt1 cur1 → P cnt1 cur1 → AfterX K root rootId cnt1 cur1 pre x post e (Q cnt1)) :
    AfterX K root rootId cnt cur (o1 ++ pre) x post e (Q (runCnt K root rootId cnt cur o1)) := by
  obtain ⟨r1, i1, p1⟩ := h1
  obtain ⟨⟨s1, s2, s3, s4, s5⟩, i2, p2⟩ := h2 _ _ i1 p1
  refine ⟨⟨(runOK_append K root rootId o1 pre cnt cur).mpr ⟨r1, s1⟩, ?_, ?_, ?_, ?_⟩, ?_, ?_⟩
  · rw [runCnt_append, runCur_append]; exact s2
  · rw [runCnt_append, runCur_append]; exact s3
  · rw [runCnt_append, runCur_append]; exact s4
  · rw [runCnt_append, runCur_append]; exact s5
  · rw [List.append_assoc, runCnt_append, runCur_append]; exact i2
  · rw [List.append_assoc, runCnt_append, runCur_append]; exact p2

/-- an accepted run behind -/
theorem AfterX.append {K : Consts} {root : List Node} {rootId : Nat} {cnt : Counter} {cur : List Nat}
    {pre : List Emit} {x : Emit} {post o2 : List Emit} {e : WErr}
    {P : Counter → List Nat → Prop} {Q : Counter → Counter → List Nat → Prop}
    (h1 : AfterX K root rootId cnt cur pre x post e P)
    (h2 : ∀ cnt1 cur1, Inv root cnt1 cur1 → P cnt1 cur1 → After K root rootId cnt1 cur1 o2 (Q cnt1)) :
    AfterX K root rootId cnt cur pre x (post ++ o2) e
      (Q (runCnt K root rootId cnt cur (pre ++ x :: post))) := by
  obtain ⟨⟨s1, s2, s3, s4, s5⟩, i1, p1⟩ := h1
  obtain ⟨r2, i2, p2⟩ := h2 _ _ i1 p1
  have hc : runCnt K root rootId cnt cur (pre ++ x :: post) =
      runCnt K root rootId (walk K root rootId (runCnt K root rootId cnt cur pre) (runCur cur pre) x.2).st.cnt x.1 post := by
    rw [runCnt_append]; rfl
  have hu : runCur cur (pre ++ x :: post) = runCur x.1 post := by rw [runCur_append]; rfl
  have e1 : pre ++ x :: (post ++ o2) = (pre ++ x :: post) ++ o2 := by simp
  have hA : runCnt K root rootId cnt cur (pre ++ x :: (post ++ o2)) =
      runCnt K root rootId (runCnt K root rootId cnt cur (pre ++ x :: post)) (runCur cur (pre ++ x :: post)) o2 := by
    rw [e1, runCnt_append]
  have hB : runCur cur (pre ++ x :: (post ++ o2)) = runCur (runCur cur (pre ++ x :: post)) o2 := by
    rw [e1, runCur_append]
  refine ⟨⟨s1, s2, s3, s4, ?_⟩, ?_, ?_⟩
  · rw [runOK_append]; refine ⟨s5, ?_⟩
    rw [← hc, ← hu]; exact r2
  · rw [hA, hB]; exact i2
  · rw [hA, hB]; exact p2

end Pyx12Verif.WalkerGenW
