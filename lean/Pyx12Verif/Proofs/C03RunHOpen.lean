/-
C03 run level, missing mandatory segment: the simulation up to the hole (`HListO …`): the run so far is accepted, and
the generator stands past the hole with nothing emitted since (`OpenAt`).
-/
import Pyx12Verif.Proofs.C03RunHCur

namespace Pyx12Verif.WalkerGenW
open Pyx12Verif.MapSkel Pyx12Verif.Walker Pyx12Verif.WalkerGen

/-- `OpenAt`, the hole lying at or below child `a` of the cursor level -/
def OpenBelow (root : List Node) (e : WErr) (c0 : Node) (cnt : Counter) (cur q : List Nat) (i j a : Nat) : Prop :=
  ∃ q0 j0 i0 ch0, e = (ErrKind.mandatoryMissing, q0 ++ [j0]) ∧ Hole root cur q0 i0 j0 ch0 c0 ∧
    ReadyAtH root cnt cur q0 j0 q i j ∧ q ++ [a] <+: q0

theorem OpenAt.up {root : List Node} {e : WErr} {c0 : Node} {cnt : Counter} {cur q : List Nat} {a i' n : Nat}
    {sub : List Node} (hsub : chAt root (q ++ [a]) = some sub) (ho : OpenAt root e c0 cnt cur (q ++ [a]) i' n)
    (hn : sub.length ≤ n) : OpenBelow root e c0 cnt cur q a a a := by
  obtain ⟨q0, j0, i0, ch0, he, H, R⟩ := ho
  exact ⟨q0, j0, i0, ch0, he, H, readyH_up hsub R hn, R.above⟩

theorem OpenBelow.next {root : List Node} {e : WErr} {c0 : Node} {cnt : Counter} {cur q : List Nat} {a : Nat}
    (ho : OpenBelow root e c0 cnt cur q a a a) : OpenBelow root e c0 cnt cur q a (a + 1) a := by
  obtain ⟨q0, j0, i0, ch0, he, H, R, hb⟩ := ho
  exact ⟨q0, j0, i0, ch0, he, H, readyH_next R, hb⟩

theorem OpenBelow.skip_all {root : List Node} {e : WErr} {c0 : Node} {cnt : Counter} {cur q : List Nat} {i j a : Nat}
    {ch : List Node} (hch : chAt root q = some ch) (ho : OpenBelow root e c0 cnt cur q i j a)
    (hopt : allOptional (ch.drop j) = true) : OpenAt root e c0 cnt cur q i (j + (ch.drop j).length) := by
  obtain ⟨q0, j0, i0, ch0, he, H, R, _⟩ := ho
  exact ⟨q0, j0, i0, ch0, he, H, readyH_skip_all hch _ j R hopt rfl⟩

set_option linter.unusedSectionVars false
section
variable {K : Consts} {root : List Node} (rootId : Nat) (h : MapOK K root) {e : WErr} {c0 : Node}
include h

mutual
theorem h_oneO : ∀ {ip : List Nat} {c : Node} {pre : List Emit}, HOneO K e c0 ip c pre →
    ∀ (q : List Nat) (j i : Nat) (ch : List Node) (cnt : Counter) (cur : List Nat),
    ip = q ++ [j] → chAt root q = some ch → ch[j]? = some c → Inv root cnt cur → ReadyAt root cnt cur q i j →
    c.usage ≠ 2 → (c.rep = 0 ∨ cnt.get (keyAt root q ++ [c.comp]) < c.rep) →
    (q = [] ∨ 0 < j ∨ firstIsLoop ch = true) →
    After K root rootId cnt cur pre (fun cnt' cur' =>
      OpenBelow root e c0 cnt' cur' q j j j ∧ AgreeOff cnt cnt' (keyAt root q ++ [c.comp]) ∧
      cnt'.get (keyAt root q ++ [c.comp]) = cnt.get (keyAt root q ++ [c.comp]) + 1)
  | _, _, _, .loop (lid := lid) (p := p) (u := u) (r := r) (w := w) (first := first) (rest := rest) hseg hm hl,
      q, j, i, ch, cnt, cur, hip, hch, hc, hinv, hr, hu, hrep, hnf => by
    simp only [Node.usage, Node.rep, Node.comp] at hu hrep ⊢
    obtain ⟨hn, hs⟩ := step_loop rootId h hinv hr.on hch hc hseg hm hu hrep
    have hinv1 := post_loop h hinv hr.on hch hc hseg
    have hsub : chAt root (q ++ [j]) = some (first :: rest) := by rw [chAt_snoc hch, hc]
    have hkey : keyAt root (q ++ [j]) = keyAt root q ++ [(lid, 0)] := keyAt_snoc hch hc
    have hr1 : ReadyAt root (enterCnt cnt (keyAt root q ++ [(lid, 0)]) first.comp) (q ++ [j] ++ [0]) (q ++ [j]) 0 1 :=
      ready_skip (ready_here _ _ _ _) (by intro hh; omega)
    have hrec := h_listO hl (q ++ [j]) 0 (first :: rest) _ _ hip hsub (by simp) hinv1 hr1 (by omega)
      (Or.inr (Or.inl (by omega)))
    subst hip
    apply After.step hn hs
    refine After.mono hrec ?_
    intro cnt' cur' ⟨⟨i', hi', hoa⟩, hso⟩
    rw [hkey] at hso
    refine ⟨hoa.up hsub (by simp; omega), AgreeOff.trans (agreeOff_enter _ _ _) hso.agree, ?_⟩
    rw [hso _ (fun hh => hh.2 rfl), get_enterCnt_self]
termination_by structural _ _ _ d => d
theorem h_repsO : ∀ {ip : List Nat} {c : Node} {k : Nat} {pre : List Emit}, HRepsO K e c0 ip c k pre →
    ∀ (q : List Nat) (j i : Nat) (ch : List Node) (cnt : Counter) (cur : List Nat),
    ip = q ++ [j] → chAt root q = some ch → ch[j]? = some c → counted c = true → Inv root cnt cur →
    ReadyAt root cnt cur q i j → cnt.get (keyAt root q ++ [c.comp]) = k →
    (q = [] ∨ 0 < j ∨ firstIsLoop ch = true) →
    After K root rootId cnt cur pre (fun cnt' cur' =>
      (∃ i', i' ≤ j ∧ OpenBelow root e c0 cnt' cur' q i' (j + 1) j) ∧ AgreeOff cnt cnt' (keyAt root q ++ [c.comp]))
  | _, _, _, _, .last hu hk hone, q, j, i, ch, cnt, cur, hip, hch, hc, hcnt, hinv, hr, hget, hnf => by
    have h1 := h_oneO hone q j i ch cnt cur hip hch hc hinv hr hu (by rw [hget]; exact hk) hnf
    refine After.mono h1 ?_
    intro cnt' cur' ⟨ho, hag, _⟩
    exact ⟨⟨j, Nat.le_refl _, ho.next⟩, hag⟩
  | _, _, _, _, .later hu hk hone hreps, q, j, i, ch, cnt, cur, hip, hch, hc, hcnt, hinv, hr, hget, hnf => by
    have h1 := g_one rootId h hone q j i ch cnt cur hip hch hc hinv hr hu (by rw [hget]; exact hk) hnf
    have := After.seq h1 (Q := fun cnt1 cnt' cur' =>
        (∃ i', i' ≤ j ∧ OpenBelow root e c0 cnt' cur' q i' (j + 1) j) ∧ AgreeOff cnt1 cnt' (keyAt root q ++ [_]))
      (fun cnt1 cur1 hinv1 ⟨hr1, _, hg1⟩ =>
        h_repsO hreps q j j ch cnt1 cur1 hip hch hc hcnt hinv1 hr1 (by rw [hg1, hget]) hnf)
    refine ⟨this.1, this.2.1, this.2.2.1, ?_⟩
    exact AgreeOff.trans h1.2.2.2.1 this.2.2.2
termination_by structural _ _ _ _ d => d
theorem h_childO : ∀ {ip : List Nat} {c : Node} {pre : List Emit}, HChildO K e c0 ip c pre →
    ∀ (q : List Nat) (j i : Nat) (ch : List Node) (cnt : Counter) (cur : List Nat),
    ip = q ++ [j] → chAt root q = some ch → ch[j]? = some c → Inv root cnt cur →
    ReadyAt root cnt cur q i j → i < j → (q = [] ∨ 0 < j ∨ firstIsLoop ch = true) →
    After K root rootId cnt cur pre (fun cnt' cur' =>
      (∃ i', i' ≤ j ∧ OpenBelow root e c0 cnt' cur' q i' (j + 1) j) ∧ AgreeOff cnt cnt' (keyAt root q ++ [c.comp]))
  | _, _, _, .counted hcnt hreps, q, j, i, ch, cnt, cur, hip, hch, hc, hinv, hr, hij, hnf => by
    obtain ⟨chx, hchx, hl⟩ := hinv.lev q i hr.1
    rw [hch] at hchx; simp only [Option.some.injEq] at hchx; subst hchx
    have hz := hl.later j _ hij hc _ (List.prefix_refl _)
    exact h_repsO hreps q j i ch cnt cur hip hch hc hcnt hinv hr hz hnf
  | _, _, _, .wrapper (lid := l) (p := p) (u := u) (r := r) (w := w) (first := first) (rest := rest) hfs hu hl,
      q, j, i, ch, cnt, cur, hip, hch, hc, hinv, hr, hij, hnf => by
    have hTT : firstIsLoop (first :: rest) = true := by simp [firstIsLoop, hfs]
    have hsubT : chAt root (q ++ [j]) = some (first :: rest) := by rw [chAt_snoc hch, hc]
    have hkeyT : keyAt root (q ++ [j]) = keyAt root q ++ [(Node.loop l p u r w (first :: rest)).comp] := keyAt_snoc hch hc
    have ha : Anchor root cnt cur q i j := ⟨hinv, hr, hij, ch, l, p, u, r, w, first :: rest, hch, hc, hTT⟩
    have haft := n_listO hl q i j (q ++ [j]) (first :: rest) cnt cur hip ha (List.prefix_refl _)
      (off_init hsubT hTT) hsubT (by simp)
    refine After.mono haft ?_
    intro cnt' cur' ⟨⟨i', hi', hoa⟩, hso⟩
    rw [hkeyT] at hso
    exact ⟨⟨j, Nat.le_refl _, (hoa.up hsubT (by simp)).next⟩, hso.agree⟩
termination_by structural _ _ _ d => d
theorem h_listO : ∀ {lip : List Nat} {j : Nat} {rest : List Node} {pre : List Emit}, HListO K e c0 lip j rest pre →
    ∀ (q : List Nat) (i : Nat) (ch : List Node) (cnt : Counter) (cur : List Nat),
    lip = q → chAt root q = some ch → ch.drop j = rest → Inv root cnt cur →
    ReadyAt root cnt cur q i j → i < j → (q = [] ∨ 0 < j ∨ firstIsLoop ch = true) →
    After K root rootId cnt cur pre (fun cnt' cur' =>
      (∃ i', i' < j + rest.length ∧ OpenAt root e c0 cnt' cur' q i' (j + rest.length)) ∧
      StrictOff cnt cnt' (keyAt root q))
  | _, _, _, _, .later (i := j) (c := c) (r := r) hchild hlist, q, i, ch, cnt, cur, hip, hch, hd, hinv, hr, hij, hnf => by
    obtain ⟨hc, hd'⟩ := drop_cons_get hd
    have h1 := g_child rootId h hchild q j i ch cnt cur (by rw [hip]) hch hc hinv hr hij hnf
    have := After.seq h1 (Q := fun cnt1 cnt' cur' =>
        (∃ i', i' < j + 1 + r.length ∧ OpenAt root e c0 cnt' cur' q i' (j + 1 + r.length)) ∧
        StrictOff cnt1 cnt' (keyAt root q))
      (fun cnt1 cur1 hinv1 ⟨⟨i', hi', hr1⟩, _⟩ =>
        h_listO hlist q i' ch cnt1 cur1 hip hch hd' hinv1 hr1 (by omega) (Or.inr (Or.inl (by omega))))
    refine ⟨this.1, this.2.1, ?_, ?_⟩
    · have := this.2.2.1
      simpa [Nat.add_assoc, Nat.add_comm 1] using this
    · exact StrictOff.trans h1.2.2.2.strict this.2.2.2
  | _, _, _, _, .gap (i := j) (r := r) hseg hu he hopt, q, i, ch, cnt, cur, hip, hch, hd, hinv, hr, hij, hnf => by
    obtain ⟨hc, hd'⟩ := drop_cons_get hd
    have hip' := hip.symm; subst hip'
    apply After.nil hinv
    obtain ⟨H, R⟩ := readyH_open hr hij hch hc hseg hu
    have R' := readyH_skip_all hch _ (j + 1) R (by rw [hd']; exact hopt) rfl
    refine ⟨⟨i, by simp; omega, q, j, i, ch, he, H, ?_⟩, StrictOff.refl _ _⟩
    rw [hd'] at R'
    have e1 : j + (c0 :: r).length = j + 1 + r.length := by simp; omega
    rw [e1]; exact R'
  | _, _, _, _, .under (i := j) (c := c) (r := r) hchild hopt, q, i, ch, cnt, cur, hip, hch, hd, hinv, hr, hij, hnf => by
    obtain ⟨hc, hd'⟩ := drop_cons_get hd
    have h1 := h_childO hchild q j i ch cnt cur (by rw [hip]) hch hc hinv hr hij hnf
    refine After.mono h1 ?_
    intro cnt' cur' ⟨⟨i', hi', ho⟩, hag⟩
    have := ho.skip_all hch (by rw [hd']; exact hopt)
    rw [hd'] at this
    have e1 : j + (c :: r).length = j + 1 + r.length := by simp; omega
    rw [e1]
    exact ⟨⟨i', by omega, this⟩, hag.strict⟩
termination_by structural _ _ _ _ d => d
theorem n_oneO : ∀ {ip : List Nat} {c : Node} {pre : List Emit}, HOneO K e c0 ip c pre →
    ∀ (q : List Nat) (i j : Nat) (bp : List Nat) (m : Nat) (sub : List Node) (cnt : Counter) (cur : List Nat),
    ip = bp ++ [m] → Anchor root cnt cur q i j → q ++ [j] <+: bp → Off root cnt (q ++ [j]) (bp ++ [m]) →
    chAt root bp = some sub → sub[m]? = some c → c.usage ≠ 2 →
    (c.rep = 0 ∨ cnt.get (keyAt root bp ++ [c.comp]) < c.rep) →
    After K root rootId cnt cur pre (fun cnt' cur' =>
      OpenBelow root e c0 cnt' cur' bp m m m ∧ AgreeOff cnt cnt' (keyAt root bp ++ [c.comp]) ∧
      cnt'.get (keyAt root bp ++ [c.comp]) = cnt.get (keyAt root bp ++ [c.comp]) + 1)
  | _, _, _, .loop (lid := lid) (p := p') (u := u') (r := r') (w := w') (first := first) (rest := rest) hseg hm hl,
      q, i, j, bp, m, sub, cnt, cur, hip, ha, hbp, hoff, hsub, hc, hu, hrep => by
    simp only [Node.usage, Node.rep, comp_loop] at hu hrep ⊢
    obtain ⟨ch, l, p, u, r, w, chT, hch, hT, hTT⟩ := ha.tr
    obtain ⟨rel, hrel⟩ := hbp
    subst hrel
    have hsubT : chAt root (q ++ [j]) = some chT := by rw [chAt_snoc hch, hT]
    have hsubL : chAt chT rel = some sub := by
      have := hsub; rw [chAt_append, hsubT] at this; exact this
    obtain ⟨hn, hs⟩ := step_enter rootId h ha.inv ha.rdy ha.lt hch hT hTT hoff hsubL hc hseg hm hu hrep
    have hinv1 := post_enter h ha.inv ha.rdy ha.lt hch hT hTT hoff hsubL hc hseg
    have hsub1 : chAt root (q ++ [j] ++ rel ++ [m]) = some (first :: rest) := by rw [chAt_snoc hsub, hc]
    have hkey : keyAt root (q ++ [j] ++ rel ++ [m]) = keyAt root (q ++ [j] ++ rel) ++ [(lid, 0)] := keyAt_snoc hsub hc
    have hr1 : ReadyAt root (enterCnt cnt (keyAt root (q ++ [j] ++ rel) ++ [(lid, 0)]) first.comp)
        (q ++ [j] ++ rel ++ [m] ++ [0]) (q ++ [j] ++ rel ++ [m]) 0 1 :=
      ready_skip (ready_here _ _ _ _) (by intro hh; omega)
    have hrec := h_listO hl (q ++ [j] ++ rel ++ [m]) 0 (first :: rest) _ _ hip hsub1 (by simp) hinv1 hr1 (by omega)
      (Or.inr (Or.inl (by omega)))
    subst hip
    apply After.step hn hs
    refine After.mono hrec ?_
    intro cnt' cur' ⟨⟨i', hi', hoa⟩, hso⟩
    rw [hkey] at hso
    refine ⟨hoa.up hsub1 (by simp; omega), AgreeOff.trans (agreeOff_enter _ _ _) hso.agree, ?_⟩
    rw [hso _ (fun hh => hh.2 rfl), get_enterCnt_self]
termination_by structural _ _ _ d => d
theorem n_repsO : ∀ {ip : List Nat} {c : Node} {k : Nat} {pre : List Emit}, HRepsO K e c0 ip c k pre →
    ∀ (q : List Nat) (i j : Nat) (bp : List Nat) (m : Nat) (sub : List Node) (cnt : Counter) (cur : List Nat),
    ip = bp ++ [m] → k = 0 → Anchor root cnt cur q i j → q ++ [j] <+: bp → Off root cnt (q ++ [j]) (bp ++ [m]) →
    chAt root bp = some sub → sub[m]? = some c → counted c = true →
    After K root rootId cnt cur pre (fun cnt' cur' =>
      (∃ i', i' ≤ m ∧ OpenBelow root e c0 cnt' cur' bp i' (m + 1) m) ∧ AgreeOff cnt cnt' (keyAt root bp ++ [c.comp]))
  | _, _, _, _, .last (c := c) hu hk hone, q, i, j, bp, m, sub, cnt, cur, hip, hk0, ha, hbp, hoff, hsub, hc, hcnt => by
    have hz := ha.zero hbp hsub c.comp
    have h1 := n_oneO hone q i j bp m sub cnt cur hip ha hbp hoff hsub hc hu (by rw [hz]; subst hk0; exact hk)
    refine After.mono h1 ?_
    intro cnt' cur' ⟨ho, hag, _⟩
    exact ⟨⟨m, Nat.le_refl _, ho.next⟩, hag⟩
  | _, _, _, _, .later (c := c) hu hk hone hreps, q, i, j, bp, m, sub, cnt, cur, hip, hk0, ha, hbp, hoff, hsub, hc, hcnt => by
    have hz := ha.zero hbp hsub c.comp
    have h1 := o_one rootId h hone q i j bp m sub cnt cur hip ha hbp hoff hsub hc hu (by rw [hz]; subst hk0; exact hk)
    have hTs : firstIsLoop sub = true := by
      obtain ⟨sub0, hsub0, hT0, _⟩ := hoff bp m hbp (List.prefix_refl _)
      rw [hsub] at hsub0; simp only [Option.some.injEq] at hsub0; subst hsub0; exact hT0
    have := After.seq h1 (Q := fun cnt1 cnt' cur' =>
        (∃ i', i' ≤ m ∧ OpenBelow root e c0 cnt' cur' bp i' (m + 1) m) ∧ AgreeOff cnt1 cnt' (keyAt root bp ++ [_]))
      (fun cnt1 cur1 hinv1 ⟨hr1, _, hg1⟩ =>
        h_repsO hreps bp m m sub cnt1 cur1 hip hsub hc hcnt hinv1 hr1 (by rw [hg1, hz]; subst hk0; rfl)
          (Or.inr (Or.inr hTs)))
    refine ⟨this.1, this.2.1, this.2.2.1, ?_⟩
    exact AgreeOff.trans h1.2.2.2.1 this.2.2.2
termination_by structural _ _ _ _ d => d
theorem n_childO : ∀ {ip : List Nat} {c : Node} {pre : List Emit}, HChildO K e c0 ip c pre →
    ∀ (q : List Nat) (i j : Nat) (bp : List Nat) (m : Nat) (sub : List Node) (cnt : Counter) (cur : List Nat),
    ip = bp ++ [m] → Anchor root cnt cur q i j → q ++ [j] <+: bp → Off root cnt (q ++ [j]) (bp ++ [m]) →
    chAt root bp = some sub → sub[m]? = some c →
    After K root rootId cnt cur pre (fun cnt' cur' =>
      (∃ i', i' ≤ m ∧ OpenBelow root e c0 cnt' cur' bp i' (m + 1) m) ∧ AgreeOff cnt cnt' (keyAt root bp ++ [c.comp]))
  | _, _, _, .counted hcnt hreps, q, i, j, bp, m, sub, cnt, cur, hip, ha, hbp, hoff, hsub, hc => by
    exact n_repsO hreps q i j bp m sub cnt cur hip rfl ha hbp hoff hsub hc hcnt
  | _, _, _, .wrapper (lid := l) (p := p) (u := u) (r := r) (w := w) (first := first) (rest := rest) hfs hu hl,
      q, i, j, bp, m, sub, cnt, cur, hip, ha, hbp, hoff, hsub, hc => by
    have hTT : firstIsLoop (first :: rest) = true := by simp [firstIsLoop, hfs]
    have hsubT : chAt root (bp ++ [m]) = some (first :: rest) := by rw [chAt_snoc hsub, hc]
    have hkeyT : keyAt root (bp ++ [m]) = keyAt root bp ++ [(Node.loop l p u r w (first :: rest)).comp] := keyAt_snoc hsub hc
    have haft := n_listO hl q i j (bp ++ [m]) (first :: rest) cnt cur hip ha
      (List.IsPrefix.trans hbp (List.prefix_append _ _)) (off_descend hoff hsubT hTT) hsubT (by simp)
    refine After.mono haft ?_
    intro cnt' cur' ⟨⟨i', hi', hoa⟩, hso⟩
    rw [hkeyT] at hso
    exact ⟨⟨m, Nat.le_refl _, (hoa.up hsubT (by simp)).next⟩, hso.agree⟩
termination_by structural _ _ _ d => d
theorem n_listO : ∀ {lip : List Nat} {m : Nat} {rest : List Node} {pre : List Emit}, HListO K e c0 lip m rest pre →
    ∀ (q : List Nat) (i j : Nat) (bp : List Nat) (sub : List Node) (cnt : Counter) (cur : List Nat),
    lip = bp → Anchor root cnt cur q i j → q ++ [j] <+: bp → Off root cnt (q ++ [j]) (bp ++ [m]) →
    chAt root bp = some sub → sub.drop m = rest →
    After K root rootId cnt cur pre (fun cnt' cur' =>
      (∃ i', i' < m + rest.length ∧ OpenAt root e c0 cnt' cur' bp i' (m + rest.length)) ∧
      StrictOff cnt cnt' (keyAt root bp))
  | _, _, _, _, .later (i := m) (c := c) (r := r) (o1 := o1) hchild hlist, q, i, j, bp, sub, cnt, cur, hip, ha, hbp,
      hoff, hsub, hd => by
    obtain ⟨hc, hd'⟩ := drop_cons_get hd
    have h1 := o_child rootId h hchild q i j bp m sub cnt cur (by rw [hip]) ha hbp hoff hsub hc
    have hlen : m + (c :: r).length = m + 1 + r.length := by simp; omega
    rcases h1 with ⟨hnil, hsat⟩ | haft
    · have hoff1 : Off root cnt (q ++ [j]) (bp ++ [m + 1]) := off_advance hoff hbp (by
        intro sub' c' hsub' hc'
        rw [hsub] at hsub'; simp only [Option.some.injEq] at hsub'; subst hsub'
        rw [hc] at hc'; simp only [Option.some.injEq] at hc'; subst hc'
        exact hsat)
      have h2 := n_listO hlist q i j bp sub cnt cur hip ha hbp hoff1 hsub hd'
      subst hnil
      rw [hlen]; simpa using h2
    · have hTs : firstIsLoop sub = true := by
        obtain ⟨sub0, hsub0, hT0, _⟩ := hoff bp m hbp (List.prefix_refl _)
        rw [hsub] at hsub0; simp only [Option.some.injEq] at hsub0; subst hsub0; exact hT0
      have := After.seq haft (Q := fun cnt1 cnt' cur' =>
          (∃ i', i' < m + 1 + r.length ∧ OpenAt root e c0 cnt' cur' bp i' (m + 1 + r.length)) ∧
          StrictOff cnt1 cnt' (keyAt root bp))
        (fun cnt1 cur1 hinv1 ⟨⟨i', hi', hr1⟩, _⟩ =>
          h_listO hlist bp i' sub cnt1 cur1 hip hsub hd' hinv1 hr1 (by omega) (Or.inr (Or.inr hTs)))
      refine ⟨this.1, this.2.1, ?_, ?_⟩
      · have := this.2.2.1
        simpa [Nat.add_assoc, Nat.add_comm 1] using this
      · exact StrictOff.trans haft.2.2.2.strict this.2.2.2
  | _, _, _, _, .gap (i := m) (r := r) hseg hu he hopt, q, i, j, bp, sub, cnt, cur, hip, ha, hbp, hoff, hsub, hd => by
    exfalso
    obtain ⟨hc, _⟩ := drop_cons_get hd
    have := off_child_loop h hbp hoff hsub hc
    rw [hseg] at this; cases this
  | _, _, _, _, .under (i := m) (c := c) (r := r) hchild hopt, q, i, j, bp, sub, cnt, cur, hip, ha, hbp, hoff, hsub, hd => by
    obtain ⟨hc, hd'⟩ := drop_cons_get hd
    have h1 := n_childO hchild q i j bp m sub cnt cur (by rw [hip]) ha hbp hoff hsub hc
    refine After.mono h1 ?_
    intro cnt' cur' ⟨⟨i', hi', ho⟩, hag⟩
    have := ho.skip_all hsub (by rw [hd']; exact hopt)
    rw [hd'] at this
    have e1 : m + (c :: r).length = m + 1 + r.length := by simp; omega
    rw [e1]
    exact ⟨⟨i', by omega, this⟩, hag.strict⟩
termination_by structural _ _ _ _ d => d
end

end

end Pyx12Verif.WalkerGenW
