/-
`ctxDoc_total_full`, part 3: the node `walk` returns is a segment node of the map that matches the data segment
(`walk_found_matches`).  No map hypothesis.  Needed at the 278 map switch: the segment walked is a BHT, so the node found is
one of the map's BHT nodes.
-/
import Pyx12Verif.Proofs.CtxFullShape

namespace Pyx12Verif.CtxWalk
open Pyx12Verif.MapSkel Pyx12Verif.Walker Pyx12Verif.WalkerGen

theorem head_matches_node {K : Consts} {s : SegData} {root : List Node} {q : List Nat} {sub : List Node}
    (hsub : chAt root q = some sub) (hm : headMatches K s sub = true) :
    ∃ c, nodeAt root (q ++ [0]) = some c ∧ isMatch K c s = true := by
  cases sub with
  | nil => simp [headMatches] at hm
  | cons first rest =>
    simp only [headMatches, Bool.and_eq_true] at hm
    exact ⟨first, by rw [nodeAt_snoc hsub]; rfl, hm.2⟩

/-- the node a successful child scan returns matches the data segment -/
theorem found_matches {K : Consts} {s : SegData} {root : List Node} {lip : List Nat} {ch : List Node}
    (hch : chAt root lip = some ch) {loopNode : Option Node}
    (hln : (lip = [] ∧ loopNode = none) ∨
      ∃ p0 a pch l p u r w, lip = p0 ++ [a] ∧ chAt root p0 = some pch ∧ pch[a]? = some (.loop l p u r w ch) ∧
        loopNode = some (.loop l p u r w ch))
    {loopNid origLoop : NodeId} {fromPos : Nat} {pops : List (List Nat)} {lkey : PathKey} {st : WState}
    {r : WalkResult} {n : List Nat}
    (h : scanChildren K s lip lkey loopNode loopNid origLoop fromPos pops 0 st ch = .found r) (hn : r.node = some n) :
    ∃ c, nodeAt root n = some c ∧ isMatch K c s = true := by
  rcases scan_found lip lkey loopNode loopNid origLoop fromPos pops ch 0 st r n h hn with
    ⟨j, c, hc, hseg, hm, hpos, hS | hM⟩ | ⟨j, c, d, hc, hns, hpos, hlm, hg, hnn, hpops, hpushes⟩
  · obtain ⟨ln, d, hlnode, hlm, hg, hnn, _⟩ := hS
    rcases hln with ⟨_, hnone⟩ | ⟨p0, a, pch, l, p, u, rp, w, hlip, hpch, hai, hsome⟩
    · rw [hnone] at hlnode; cases hlnode
    rw [hsome] at hlnode; simp only [Option.some.injEq] at hlnode; subst hlnode
    obtain ⟨_, sub, hsub, hhm⟩ := chain_push d p0 a pch _ hpch hai rfl (gotoPath_endsAt d _ hg)
    rw [hnn, hlip]
    exact head_matches_node hsub hhm
  · obtain ⟨_, hnn, _, _⟩ := hM
    simp only [Nat.zero_add] at hnn
    exact ⟨c, by rw [hnn, nodeAt_snoc hch]; exact hc, hm⟩
  · simp only [Nat.zero_add] at hnn
    obtain ⟨_, sub, hsub, hhm⟩ := chain_push d lip j ch c hch hc hns (gotoPath_endsAt d c hg)
    rw [hnn]
    exact head_matches_node hsub hhm

theorem walkUp_matches {K : Consts} {s : SegData} {root : List Node} {rootId : Nat} {L : List Nat}
    (hL : ∃ chL, chAt root L = some chL) {origLoop : NodeId} {orig : List Nat} :
    ∀ (k : Nat) (lip : List Nat) (fromPos : Nat) (pops : List (List Nat)) (st : WState), lip.length = k → lip <+: L →
      ∀ (r : WalkResult) (n : List Nat),
      walkUp K root rootId s origLoop orig lip.reverse fromPos pops st = r → r.node = some n →
      ∃ c, nodeAt root n = some c ∧ isMatch K c s = true := by
  intro k
  induction k with
  | zero =>
    intro lip fromPos pops st hlen _ r n hw hn
    have hnil : lip = [] := List.eq_nil_of_length_eq_zero hlen
    subst hnil
    simp only [List.reverse_nil] at hw
    rw [walkUp_root] at hw
    cases hsc : scanChildren K s [] [] none (rootId, 0) origLoop fromPos pops 0 st root with
    | found r' =>
      rw [hsc] at hw; simp only at hw; subst hw
      exact found_matches (lip := []) rfl (Or.inl ⟨rfl, rfl⟩) hsc hn
    | notHere st' =>
      rw [hsc] at hw; simp only at hw; subst hw
      simp at hn
  | succ k ih =>
    intro lip fromPos pops st hlen hpre r n hw hn
    have hne : lip ≠ [] := by intro e; subst e; simp at hlen
    obtain ⟨p, a, rfl⟩ : ∃ p a, lip = p ++ [a] := ⟨lip.dropLast, lip.getLast hne, (List.dropLast_concat_getLast hne).symm⟩
    obtain ⟨chL, hchL⟩ := hL
    obtain ⟨ch, hch⟩ := chAt_prefix hchL hpre
    obtain ⟨pch, l, pos, u, rp, w, hpch, hai, hwu⟩ := walkUp_level' (K := K) (rootId := rootId) (s := s)
      (origLoop := origLoop) (orig := orig) hch fromPos pops st
    rw [hwu] at hw
    cases hsc : scanChildren K s (p ++ [a]) (keyAt root (p ++ [a])) (some (.loop l pos u rp w ch)) (l, idAt root p)
        origLoop fromPos pops 0 st ch with
    | found r' =>
      rw [hsc] at hw; simp only at hw; subst hw
      exact found_matches hch (Or.inr ⟨p, a, pch, l, pos, u, rp, w, rfl, hpch, hai, rfl⟩) hsc hn
    | notHere st' =>
      rw [hsc] at hw; simp only at hw
      have hplen : p.length = k := by simp at hlen; omega
      exact ih p pos (pops ++ [p ++ [a]]) st' hplen (List.IsPrefix.trans (List.prefix_append _ _) hpre) r n hw hn

/-- **the node found matches the segment** -/
theorem walk_found_matches {K : Consts} {s : SegData} {root : List Node} {rootId : Nat} {cur : List Nat}
    (hcur : SegAt root cur) (cnt : Counter) {n : List Nat} (h : (walk K root rootId cnt cur s).node = some n) :
    ∃ c, nodeAt root n = some c ∧ isMatch K c s = true := by
  obtain ⟨L, i, ch, c, rfl, hch, hc, hseg⟩ := hcur
  have hnode : nodeAt root (L ++ [i]) = some c := by rw [nodeAt_snoc hch]; exact hc
  have hdl : (L ++ [i]).dropLast = L := by simp
  have hw : walk K root rootId cnt (L ++ [i]) s =
      walkUp K root rootId s (idAt root L, idAt root L.dropLast) (L ++ [i]) L.reverse c.pos []
        { cnt := cnt, pending := [], errs := [] } := by
    simp only [walk, hnode, hdl]
  exact walkUp_matches ⟨ch, hch⟩ L.length L c.pos [] _ rfl (List.prefix_refl _) _ n hw.symm h

/-- a segment node that matches carries the segment's id -/
theorem isMatch_sid {K : Consts} {c : Node} {s : SegData} (h : isMatch K c s = true) :
    ∃ q p u m notes ch, c = .seg s.sid q p u m notes ch := by
  cases c with
  | loop => simp [isMatch] at h
  | seg sid q p u m notes ch =>
    simp only [isMatch, Bool.and_eq_true, beq_iff_eq] at h
    exact ⟨q, p, u, m, notes, ch, by rw [h.1]⟩

end Pyx12Verif.CtxWalk
