/-
C05 at pipeline level, error-tree side (7): what the refinement `run_init_sim` says about the TREE, for event lists of
the shapes the document loop produces.

  * `tree_count_iff`     `get_error_count() == 0` exactly when every reported error was a swallowed segment error
                         (event lists without `ele_error`; those clear the `valid` flag of the caller anyway);
  * `tree_set_block`     the node of a set opened by `add_st_loop d` and closed once: position in document order,
                         identifier / control number of `d`, and `ack_code == 'A'` exactly when nothing was attached;
  * `tree_group_block`   the node of a group: position, identifier / control number, the totals `close_gs_loop` stored
                         and the number of set nodes.
-/
import Pyx12Verif.Proofs.DocC05Spec

namespace Pyx12Verif.DocC05
open Pyx12Verif.ErrTree

/-! ### the ledger's "no error counted" -/

def Good (L : Ledger) : Prop := L.isaErrs = 0 ∧ (∀ v ∈ L.gs, v.errs = 0) ∧ (∀ v ∈ L.st, v.dirty = false)

/-- the call attaches an error that `get_error_count` sees, given the ledger before it (`ele_error` not considered) -/
def countsL (L : Ledger) (e : Event) : Bool :=
  match e with
  | .isaError _ => true
  | .gsError _ => true
  | .stError _ => true
  | .segError _ _ => L.anchored && !L.st.isEmpty
  | _ => false

theorem forall_modLast {α : Type} (P : α → Prop) (f : α → α) (l : List α) (hP : ∀ x, P (f x) ↔ P x) :
    (∀ v ∈ modLast f l, P v) ↔ ∀ v ∈ l, P v := by
  rcases snoc_cases l with rfl | ⟨r, x, rfl⟩
  · rfl
  · rw [modLast_snoc]
    simp only [List.mem_append, List.mem_singleton]
    constructor
    · intro h v hv
      rcases hv with hv | rfl
      · exact h v (Or.inl hv)
      · exact (hP v).1 (h _ (Or.inr rfl))
    · intro h v hv
      rcases hv with hv | rfl
      · exact h v (Or.inl hv)
      · exact (hP x).2 (h x (Or.inr rfl))

theorem not_forall_modLast {α : Type} (P : α → Prop) (f : α → α) (l : List α) (hl : l ≠ []) (hP : ∀ x, ¬ P (f x)) :
    ¬ ∀ v ∈ modLast f l, P v := by
  rcases snoc_cases l with rfl | ⟨r, x, rfl⟩
  · exact absurd rfl hl
  · rw [modLast_snoc]
    intro h
    exact hP x (h _ (by simp))

theorem lstep_good (L : Ledger) (e : Event) (he : evEleError e = false)
    (hg : ∀ c, e = .gsError c → L.gs ≠ []) (hs : ∀ c, e = .stError c → L.st ≠ []) :
    Good (lstep L e) ↔ Good L ∧ countsL L e = false := by
  unfold Good
  cases e with
  | eleError c m v => cases he
  | addIsa d => simp [lstep, countsL]
  | closeIsa => simp [lstep, countsL]
  | addSeg a b c => simp [lstep, countsL]
  | addEle a b c => simp [lstep, countsL]
  | addGs d =>
    simp only [lstep, countsL, and_true, List.mem_append, List.mem_singleton]
    constructor
    · rintro ⟨h1, h2, h3⟩; exact ⟨h1, fun v hv => h2 v (Or.inl hv), h3⟩
    · rintro ⟨h1, h2, h3⟩
      refine ⟨h1, ?_, h3⟩
      intro v hv
      rcases hv with hv | rfl
      · exact h2 v hv
      · rfl
  | addSt d =>
    simp only [lstep, countsL, and_true, List.mem_append, List.mem_singleton]
    rw [forall_modLast (fun v => v.errs = 0) bumpSets L.gs (fun _ => Iff.rfl)]
    constructor
    · rintro ⟨h1, h2, h3⟩; exact ⟨h1, h2, fun v hv => h3 v (Or.inl hv)⟩
    · rintro ⟨h1, h2, h3⟩
      refine ⟨h1, h2, ?_⟩
      intro v hv
      rcases hv with hv | rfl
      · exact h3 v hv
      · rfl
  | isaError c => simp [lstep, countsL]
  | gsError c =>
    simp only [lstep, countsL, Bool.true_eq_false, and_false, iff_false]
    rintro ⟨_, h2, _⟩
    exact not_forall_modLast (fun v => v.errs = 0) bumpErrs L.gs (hg c rfl) (by intro x; simp [bumpErrs]) h2
  | stError c =>
    simp only [lstep, countsL, Bool.true_eq_false, and_false, iff_false]
    rintro ⟨_, _, h3⟩
    exact not_forall_modLast (fun v => v.dirty = false) markDirty L.st (hs c rfl) (by intro x; simp [markDirty]) h3
  | segError c v =>
    simp only [lstep, attach, countsL]
    cases ha : L.anchored
    · simp
    · simp only [if_true, Bool.true_and, Bool.not_eq_false', List.isEmpty_iff]
      by_cases hn : L.st = []
      · simp [hn, modLast_nil]
      · simp only [hn, and_false, iff_false]
        rintro ⟨_, _, h3⟩
        exact not_forall_modLast (fun v => v.dirty = false) markDirty L.st hn (by intro x; simp [markDirty]) h3
  | closeSt =>
    simp only [lstep, countsL, and_true]
    rw [forall_modLast (fun v => v.dirty = false) closeSV L.st (fun _ => Iff.rfl)]
  | closeGs ge r =>
    simp only [lstep, countsL, and_true]
    rw [forall_modLast (fun v => v.errs = 0) (closeGV L.st ge.value r) L.gs (fun _ => Iff.rfl)]

theorem split_cons {α : Type} (Q : List α → α → Prop) (e : α) (r : List α) :
    (∀ pre x post, e :: r = pre ++ x :: post → Q pre x) ↔
      Q [] e ∧ ∀ pre x post, r = pre ++ x :: post → Q (e :: pre) x := by
  constructor
  · intro h
    exact ⟨h [] e r rfl, fun pre x post hr => h (e :: pre) x post (by rw [hr]; rfl)⟩
  · rintro ⟨h1, h2⟩ pre x post hp
    cases pre with
    | nil => simp only [List.nil_append, List.cons.injEq] at hp; obtain ⟨rfl, _⟩ := hp; exact h1
    | cons y pre' =>
      simp only [List.cons_append, List.cons.injEq] at hp
      obtain ⟨rfl, hr⟩ := hp
      exact h2 pre' x post hr

theorem sim_gs_ne (s : State) (L : Ledger) (hp : PInv s) (h : Sim s L) (hg : s.curGs ≠ none) : L.gs ≠ [] := by
  cases hc : s.curGs with
  | none => exact absurd hc hg
  | some p =>
    obtain ⟨m, hm⟩ := hp.gs p.1 p.2 hc
    obtain ⟨G, x, e1, _⟩ := gsLast_extract s.tree p.1 p.2 m hm
    intro hn
    have := h.gcore
    unfold gviews at this
    rw [e1, hn] at this
    simp at this

theorem sim_st_ne (s : State) (L : Ledger) (hp : PInv s) (h : Sim s L) (hg : s.curSt ≠ none) : L.st ≠ [] := by
  cases hc : s.curSt with
  | none => exact absurd hc hg
  | some p =>
    obtain ⟨S, x, e1, _⟩ := stLast_extract s.tree p.1 p.2.1 p.2.2 (hp.st p.1 p.2.1 p.2.2 hc)
    intro hn
    have := h.score
    unfold sviews at this
    rw [e1, hn] at this
    simp at this

theorem run_good : ∀ (evs : List Event) (s s' : State) (L : Ledger), PInv s → Sim s L → run s evs = .ok s' →
    (∀ e ∈ evs, evEleError e = false) →
    (Good (lrun L evs) ↔ Good L ∧ ∀ pre e post, evs = pre ++ e :: post → countsL (lrun L pre) e = false) := by
  intro evs
  induction evs with
  | nil =>
    intro s s' L _ _ _ _
    simp only [lrun, List.foldl_nil, iff_self_and]
    intro _ pre e post h
    cases pre <;> cases h
  | cons e r ih =>
    intro s s' L hp h hr hne
    simp only [run] at hr
    cases hs : step s e with
    | crash c => rw [hs] at hr; cases hr
    | ok s1 =>
      rw [hs] at hr
      have hg : ∀ c, e = .gsError c → L.gs ≠ [] := by
        intro c hc
        subst hc
        apply sim_gs_ne s L hp h
        intro hn
        simp [step, gsError, hn] at hs
      have hst : ∀ c, e = .stError c → L.st ≠ [] := by
        intro c hc
        subst hc
        apply sim_st_ne s L hp h
        intro hn
        simp [step, stError, hn] at hs
      have h1 := lstep_good L e (hne e (by simp)) hg hst
      have h2 := ih s1 s' (lstep L e) (step_pinv s s1 e hp hs) (step_sim s s1 e L hp h hs) hr
        (fun x hx => hne x (by simp [hx]))
      rw [lrun_cons, h2, h1, split_cons (fun pre x => countsL (lrun L pre) x = false)]
      simp only [lrun_cons]
      constructor
      · rintro ⟨⟨a, b⟩, c⟩; exact ⟨a, b, c⟩
      · rintro ⟨a, b, c⟩; exact ⟨⟨a, b⟩, c⟩

theorem lstep_ok (L : Ledger) (e : Event) (he : evEleError e = false) : (lstep L e).ok = L.ok := by
  cases e <;> simp_all [lstep, evEleError, attach_ok]

theorem lrun_ok : ∀ (evs : List Event) (L : Ledger), (∀ e ∈ evs, evEleError e = false) → (lrun L evs).ok = L.ok := by
  intro evs
  induction evs with
  | nil => intro L _; rfl
  | cons e r ih =>
    intro L h
    rw [lrun_cons, ih _ (fun x hx => h x (by simp [hx])), lstep_ok L e (h e (by simp))]

theorem Good.init : Good Ledger.init := ⟨rfl, (fun v hv => by cases hv), (fun v hv => by cases hv)⟩

/-! ### the tree's "no error counted" -/

/-- no element error on an interchange or group node -/
def EnvClean (t : Tree) : Prop :=
  ∀ a ∈ t, (∀ e ∈ a.elements, e.errors = []) ∧ ∀ g ∈ a.children, ∀ e ∈ g.elements, e.errors = []

theorem envClean_modIsa (t : Tree) (i : Nat) (f : Isa → Isa) (h : EnvClean t)
    (hf : ∀ a, ((∀ e ∈ a.elements, e.errors = []) ∧ ∀ g ∈ a.children, ∀ e ∈ g.elements, e.errors = []) →
      ((∀ e ∈ (f a).elements, e.errors = []) ∧ ∀ g ∈ (f a).children, ∀ e ∈ g.elements, e.errors = [])) :
    EnvClean (modIsa t i f) := modNth_forall _ f t i h hf

theorem envClean_modGs (t : Tree) (i g : Nat) (F : Gs → Gs) (h : EnvClean t)
    (hF : ∀ x : Gs, (∀ e ∈ x.elements, e.errors = []) → ∀ e ∈ (F x).elements, e.errors = []) :
    EnvClean (modGs t i g F) := by
  apply envClean_modIsa t i _ h
  intro a ha
  exact ⟨ha.1, modNth_forall (fun x : Gs => ∀ e ∈ x.elements, e.errors = []) F a.children g ha.2 hF⟩

theorem step_env (s s' : State) (e : Event) (he : evEleError e = false) (h : EnvClean s.tree) (hs : step s e = .ok s') :
    EnvClean s'.tree := by
  cases e with
  | eleError c m v => cases he
  | addIsa d =>
    simp only [step, Res.ok.injEq] at hs; subst hs
    exact mem_append_single _ _ _ h (by simp [mkIsa])
  | addGs d =>
    simp only [step, addGsLoop] at hs
    split at hs
    · cases hs
    · simp only [Res.ok.injEq] at hs; subst hs
      apply envClean_modIsa _ _ _ h
      intro a ha
      exact ⟨ha.1, mem_append_single _ _ _ ha.2 (by simp [mkGs])⟩
  | addSt d =>
    simp only [step, addStLoop] at hs
    split at hs
    · cases hs
    · simp only [Res.ok.injEq] at hs; subst hs
      exact envClean_modGs _ _ _ _ h (fun _ hx => hx)
  | addSeg a b c => simp only [step, addSeg, Res.ok.injEq] at hs; subst hs; exact h
  | addEle a b c =>
    simp only [step, addEle] at hs
    split at hs
    · cases hs
    · simp only [Res.ok.injEq] at hs; subst hs; exact h
    · simp only [Res.ok.injEq] at hs; subst hs; exact h
  | isaError c =>
    simp only [step, isaError] at hs
    split at hs
    · cases hs
    · simp only [Res.ok.injEq] at hs; subst hs
      exact envClean_modIsa _ _ _ h (fun _ ha => ha)
  | gsError c =>
    simp only [step, gsError] at hs
    split at hs
    · cases hs
    · simp only [Res.ok.injEq] at hs; subst hs
      exact envClean_modGs _ _ _ _ h (fun _ hx => hx)
  | stError c =>
    simp only [step, stError] at hs
    split at hs
    · cases hs
    · simp only [Res.ok.injEq] at hs; subst hs
      exact envClean_modGs _ _ _ _ h (fun _ hx => hx)
  | segError c v =>
    simp only [step, Res.ok.injEq] at hs; subst hs
    unfold segError
    cases h1 : addCurSeg s with
    | none => exact h
    | some s1 =>
      have h1' : EnvClean s1.tree := by
        unfold addCurSeg at h1
        split at h1
        · split at h1
          · cases h1
          · injection h1 with h1; subst h1
            exact envClean_modGs _ _ _ _ h (fun _ hx => hx)
        · injection h1 with h1; subst h1; exact h
        · cases h1
      simp only
      cases h2 : segAddError s1 { code := c, value := v } with
      | none => exact h1'
      | some s2 =>
        obtain ⟨i, g, k, j, _, rfl⟩ := segAddError_some s1 s2 _ h2
        exact envClean_modGs _ _ _ _ h1' (fun _ hx => hx)
  | closeSt =>
    simp only [step, closeStLoop] at hs
    split at hs
    · cases hs
    · simp only [Res.ok.injEq] at hs; subst hs
      exact envClean_modGs _ _ _ _ h (fun _ hx => hx)
  | closeGs ge r =>
    simp only [step, closeGsLoop] at hs
    split at hs
    · cases hs
    · simp only [Res.ok.injEq] at hs; subst hs
      exact envClean_modGs _ _ _ _ h (fun _ hx => hx)
  | closeIsa =>
    simp only [step, closeIsaLoop] at hs
    split at hs
    · cases hs
    · simp only [Res.ok.injEq] at hs; subst hs
      exact envClean_modIsa _ _ _ h (fun _ ha => ha)

theorem run_env : ∀ (evs : List Event) (s s' : State), (∀ e ∈ evs, evEleError e = false) → EnvClean s.tree →
    run s evs = .ok s' → EnvClean s'.tree := by
  intro evs
  induction evs with
  | nil => intro s s' _ h hr; simp only [run, Res.ok.injEq] at hr; subst hr; exact h
  | cons e r ih =>
    intro s s' hne h hr
    simp only [run] at hr
    cases hs : step s e with
    | crash c => rw [hs] at hr; cases hr
    | ok s1 =>
      rw [hs] at hr
      exact ih s1 s' (fun x hx => hne x (by simp [hx])) (step_env s s1 e (hne e (by simp)) h hs) hr

theorem mem_allG (t : Tree) (g : Gs) : g ∈ allG t ↔ ∃ a ∈ t, g ∈ a.children := by
  induction t with
  | nil => simp [allG]
  | cons a r ih => simp [allG, ih]

theorem mem_stsOf (l : List Gs) (st : St) : st ∈ stsOf l ↔ ∃ g ∈ l, st ∈ g.children := by
  induction l with
  | nil => simp [stsOf]
  | cons a r ih => simp [stsOf, ih]

theorem sum_zero_iff (l : List Nat) : l.sum = 0 ↔ ∀ n ∈ l, n = 0 := by
  induction l with
  | nil => simp
  | cons a r ih => simp only [List.sum_cons, List.mem_cons, forall_eq_or_imp]; rw [← ih]; omega

theorem noCounted_iff (t : Tree) :
    NoCountedError t ↔ (isaErrs t).sum = 0 ∧ EnvClean t ∧ (∀ v ∈ gviews t, v.errs = 0) ∧ ∀ v ∈ sviews t, v.dirty = false := by
  rw [sum_zero_iff]
  constructor
  · intro h
    refine ⟨?_, ?_, ?_, ?_⟩
    · intro n hn
      obtain ⟨a, ha, rfl⟩ := List.mem_map.1 hn
      rw [(h a ha).1]; rfl
    · intro a ha
      exact ⟨(h a ha).2.1, fun g hg => ((h a ha).2.2 g hg).2.1⟩
    · intro v hv
      obtain ⟨g, hg, rfl⟩ := List.mem_map.1 hv
      obtain ⟨a, ha, hga⟩ := (mem_allG t g).1 hg
      show g.errors.length = 0
      rw [((h a ha).2.2 g hga).1]; rfl
    · intro v hv
      obtain ⟨st, hst, rfl⟩ := List.mem_map.1 hv
      obtain ⟨g, hg, hsg⟩ := (mem_stsOf _ st).1 hst
      obtain ⟨a, ha, hga⟩ := (mem_allG t g).1 hg
      have := (St.errCount_zero st).2 (((h a ha).2.2 g hga).2.2 st hsg)
      simp [sv, this]
  · rintro ⟨h1, h2, h3, h4⟩ a ha
    refine ⟨?_, (h2 a ha).1, fun g hg => ⟨?_, (h2 a ha).2 g hg, fun st hst => ?_⟩⟩
    · have := h1 _ (List.mem_map_of_mem (f := fun a : Isa => a.errors.length) ha)
      exact List.length_eq_zero_iff.1 this
    · have hg' : g ∈ allG t := (mem_allG t g).2 ⟨a, ha, hg⟩
      have := h3 _ (List.mem_map_of_mem (f := gv) hg')
      exact List.length_eq_zero_iff.1 this
    · have hg' : g ∈ allG t := (mem_allG t g).2 ⟨a, ha, hg⟩
      have hst' : st ∈ allS t := (mem_stsOf _ st).2 ⟨g, hg', hst⟩
      have := h4 _ (List.mem_map_of_mem (f := sv) hst')
      simp only [sv, decide_eq_false_iff_not, Nat.not_lt, Nat.le_zero_eq] at this
      exact (St.errCount_zero st).1 this

/-- **count zero ⇔ every report was a swallowed segment error** (event lists without `ele_error`) -/
theorem tree_count_iff (evs : List Event) (s : State) (hr : run State.init evs = .ok s)
    (hne : ∀ e ∈ evs, evEleError e = false) :
    errorCount s.tree = 0 ↔
      ∀ pre e post, evs = pre ++ e :: post → e.isError = true →
        evSegError e = true ∧ (anchoredBy pre = false ∨ setSeen pre = false) := by
  obtain ⟨_, hsim⟩ := run_init_sim evs s hr
  have hok : (ledger evs).ok = true := lrun_ok evs Ledger.init hne
  have henv : EnvClean s.tree := run_env evs State.init s hne (by intro a ha; cases ha) hr
  obtain ⟨f1, f2⟩ := hsim.full hok
  have hg := run_good evs State.init s Ledger.init PInv.init Sim.init hr hne
  rw [errorCount_zero, noCounted_iff, hsim.ierr, f1, f2]
  have : (Good (ledger evs)) ↔ ((ledger evs).isaErrs = 0 ∧ EnvClean s.tree ∧ (∀ v ∈ (ledger evs).gs, v.errs = 0) ∧
      ∀ v ∈ (ledger evs).st, v.dirty = false) := by
    unfold Good
    constructor
    · rintro ⟨a, b, c⟩; exact ⟨a, henv, b, c⟩
    · rintro ⟨a, _, b, c⟩; exact ⟨a, b, c⟩
  rw [← this]
  unfold ledger at hg ⊢
  rw [hg]
  simp only [Good.init, true_and]
  constructor
  · intro h pre e post hsplit herr
    have h0 := h pre e post hsplit
    have hne' : evEleError e = false := hne e (by rw [hsplit]; simp)
    have ha := ledger_anchored pre
    have hs := ledger_st_nil_iff pre
    unfold ledger at ha hs
    cases e with
    | segError c v =>
      refine ⟨rfl, ?_⟩
      have h0' : ((lrun Ledger.init pre).anchored && !(lrun Ledger.init pre).st.isEmpty) = false := h0
      rw [ha] at h0'
      cases h1 : anchoredBy pre
      · exact Or.inl rfl
      · right
        rw [h1] at h0'
        apply hs.1
        cases hl : (lrun Ledger.init pre).st with
        | nil => rfl
        | cons a r => rw [hl] at h0'; simp at h0'
    | isaError c => simp [countsL] at h0
    | gsError c => simp [countsL] at h0
    | stError c => simp [countsL] at h0
    | eleError c m v => cases hne'
    | addIsa d => cases herr
    | addGs d => cases herr
    | addSt d => cases herr
    | addSeg a b c => cases herr
    | addEle a b c => cases herr
    | closeSt => cases herr
    | closeGs ge r => cases herr
    | closeIsa => cases herr
  · intro h pre e post hsplit
    have ha := ledger_anchored pre
    have hs := ledger_st_nil_iff pre
    unfold ledger at ha hs
    cases e with
    | segError c v =>
      obtain ⟨_, h1⟩ := h pre _ post hsplit rfl
      show ((lrun Ledger.init pre).anchored && !(lrun Ledger.init pre).st.isEmpty) = false
      rw [ha]
      rcases h1 with h1 | h1
      · rw [h1]; rfl
      · rw [hs.2 h1]; simp
    | isaError c => exact absurd (h pre _ post hsplit rfl).1 (by simp [evSegError])
    | gsError c => exact absurd (h pre _ post hsplit rfl).1 (by simp [evSegError])
    | stError c => exact absurd (h pre _ post hsplit rfl).1 (by simp [evSegError])
    | eleError c m v => rfl
    | addIsa d => rfl
    | addGs d => rfl
    | addSt d => rfl
    | addSeg a b c => rfl
    | addEle a b c => rfl
    | closeSt => rfl
    | closeGs ge r => rfl
    | closeIsa => rfl

/-! ### one set, one group: the nodes -/

theorem getElem?_of_map_eq {α β : Type} (c : α → β) (l l' : List α) (h : l.map c = l'.map c) (n : Nat) (v : α)
    (hv : l'[n]? = some v) : ∃ x, l[n]? = some x ∧ c x = c v := by
  have h1 : (l.map c)[n]? = (l'.map c)[n]? := by rw [h]
  rw [List.getElem?_map, List.getElem?_map, hv] at h1
  cases hx : l[n]? with
  | none => rw [hx] at h1; cases h1
  | some x => rw [hx] at h1; exact ⟨x, rfl, by simpa using h1⟩

theorem ledger_st_length (pre : List Event) : (ledger pre).st.length = (pre.filter evAddSt).length := by
  unfold ledger; rw [lrun_st_length]; simp [Ledger.init]

theorem ledger_gs_length (pre : List Event) : (ledger pre).gs.length = (pre.filter evAddGs).length := by
  unfold ledger; rw [lrun_gs_length]; simp [Ledger.init]

/-- **one set**: the node the acknowledgement will read, in the tree a run leaves behind -/
theorem tree_set_block (pre : List Event) (d : StData) (body post : List Event) (s : State)
    (hr : run State.init (pre ++ .addSt d :: body ++ .closeSt :: post) = .ok s)
    (hb : ∀ e ∈ body, evStruct e = false) (hpost : NoReclose post) :
    ∃ st, (allS s.tree)[(pre.filter evAddSt).length]? = some st ∧ st.trnSetId = d.e01 ∧ st.ctlNum = d.ctl ∧
      st.closed = true ∧
      ((ledger (pre ++ .addSt d :: body ++ .closeSt :: post)).ok = true →
        st.ackCode = (if anyCounts false body then ['R'] else ['A']) ∧
        (st.ackCode = ['A'] ↔ anyCounts false body = false)) := by
  obtain ⟨_, hsim⟩ := run_init_sim _ s hr
  have hl : ledger (pre ++ .addSt d :: body ++ .closeSt :: post) =
      lrun (ledger pre) (.addSt d :: body ++ .closeSt :: post) := by
    unfold ledger; rw [List.append_assoc, lrun_append]
  obtain ⟨v, e1, e2, e3, e4, e5⟩ := lrun_set_block (ledger pre) d body post hb hpost
  rw [ledger_st_length] at e1
  rw [← hl] at e1
  obtain ⟨x, f1, f2⟩ := getElem?_of_map_eq SV.core _ _ hsim.score _ v e1
  unfold sviews at f1
  rw [List.getElem?_map] at f1
  cases hst : (allS s.tree)[(pre.filter evAddSt).length]? with
  | none => rw [hst] at f1; cases f1
  | some st =>
    rw [hst] at f1
    simp only [Option.map_some, Option.some.injEq] at f1
    subst f1
    have g1 : st.trnSetId = v.id := by have := congrArg SV.id f2; exact this
    have g2 : st.ctlNum = v.ctl := by have := congrArg SV.ctl f2; exact this
    have g3 : st.closed = v.closed := by have := congrArg SV.closed f2; exact this
    refine ⟨st, rfl, g1.trans e2, g2.trans e3, g3.trans e4, ?_⟩
    intro hok
    have f3 := (hsim.full hok).2
    have : (sviews s.tree)[(pre.filter evAddSt).length]? = some v := by rw [f3]; exact e1
    unfold sviews at this
    rw [List.getElem?_map, hst] at this
    simp only [Option.map_some, Option.some.injEq] at this
    have g4 : st.ackCode = v.code := congrArg SV.code this
    rw [g4, e5]
    refine ⟨rfl, ?_⟩
    cases anyCounts false body <;> simp

/-- **one group**: the node the acknowledgement will read -/
theorem tree_group_block (pre : List Event) (d : GsData) (gbody post : List Event) (ge : GeCount) (recv : Nat)
    (s : State) (hr : run State.init (pre ++ .addGs d :: gbody ++ .closeGs ge recv :: post) = .ok s)
    (hb : ∀ e ∈ gbody, evGsLevel e = false) (hpost : NoRegroup post) :
    ∃ g, (allG s.tree)[(pre.filter evAddGs).length]? = some g ∧ g.fic = d.e01 ∧ g.ctlNum = d.ctl ∧ g.closed = true ∧
      g.countOrig = ge.value ∧ g.countRecv = recv ∧ g.children.length = (gbody.filter evAddSt).length := by
  obtain ⟨_, hsim⟩ := run_init_sim _ s hr
  have hl : ledger (pre ++ .addGs d :: gbody ++ .closeGs ge recv :: post) =
      lrun (ledger pre) (.addGs d :: gbody ++ .closeGs ge recv :: post) := by
    unfold ledger; rw [List.append_assoc, lrun_append]
  obtain ⟨v, e1, e2, e3, e4, e5, e6, e7⟩ := lrun_group_block (ledger pre) d gbody post ge recv hb hpost
  rw [ledger_gs_length] at e1
  rw [← hl] at e1
  obtain ⟨x, f1, f2⟩ := getElem?_of_map_eq GV.core _ _ hsim.gcore _ v e1
  unfold gviews at f1
  rw [List.getElem?_map] at f1
  cases hg : (allG s.tree)[(pre.filter evAddGs).length]? with
  | none => rw [hg] at f1; cases f1
  | some g =>
    rw [hg] at f1
    simp only [Option.map_some, Option.some.injEq] at f1
    subst f1
    refine ⟨g, rfl, (show g.fic = v.fic from congrArg GV.fic f2).trans e2,
      (show g.ctlNum = v.ctl from congrArg GV.ctl f2).trans e3, (show g.closed = v.closed from congrArg GV.closed f2).trans e4,
      (show g.countOrig = v.orig from congrArg GV.orig f2).trans e5,
      (show g.countRecv = v.recv from congrArg GV.recv f2).trans e6,
      (show g.children.length = v.nsets from congrArg GV.nsets f2).trans e7⟩

end Pyx12Verif.DocC05
