/-
C10 bridge, reader side: the trees `X12ContextReader.iter_segments` builds have the children of EVERY loop node in map
order, provided the walker's answers are consistent (`Ctx.stepOk`, Props/C09.lean) and a segment that stays in an open
loop instance does not lie before the node last placed there (`segMonoOk` — `walk_pos_monotone`,
Proofs/C10BridgeWalk.lean, proves that of the Walker model).

`sortedC`, `AllSortedC`   map order of the children of a node / of every loop node of a reader tree
`ZSorted c`               the same for a tree under construction, read off the zipper
`addSegment_zsorted`      one more segment of the instance under construction keeps `ZSorted`
`toDNode_allSorted`       `AllSortedC t → DataTree.AllSorted (toDNode md segs t)`
-/
import Pyx12Verif.Proofs.CtxReader
import Pyx12Verif.Proofs.C10BridgeData
import Pyx12Verif.Model.CtxToData

namespace Pyx12Verif.Ctx

/-- children in map order -/
def sortedC (ch : List DNode) : Prop := ch.Pairwise (fun x y => x.pos ≤ y.pos)

mutual
/-- the children of every loop node of the tree are in map order -/
def AllSortedC : DNode → Prop
  | .seg _ _ _ => True
  | .loop _ _ ch => sortedC ch ∧ AllSortedCL ch
def AllSortedCL : List DNode → Prop
  | [] => True
  | d :: r => AllSortedC d ∧ AllSortedCL r
end

theorem allSortedCL_iff (ch : List DNode) : AllSortedCL ch ↔ ∀ d ∈ ch, AllSortedC d := by
  induction ch with
  | nil => simp [AllSortedCL]
  | cons d r ih => simp [AllSortedCL, ih]

theorem allSortedC_loop (p : LPath) (n : Nat) (ch : List DNode) :
    AllSortedC (.loop p n ch) ↔ sortedC ch ∧ ∀ d ∈ ch, AllSortedC d := by
  simp [AllSortedC, allSortedCL_iff]

theorem allSortedC_seg (s : SegInfo) (p : LPath) (n : Nat) : AllSortedC (.seg s p n) := by simp [AllSortedC]

/-! ### lists in map order -/

theorem sortedC_mid (b a : List DNode) (d : DNode) :
    sortedC (b ++ d :: a) ↔ sortedC b ∧ sortedC a ∧ (∀ x ∈ b, x.pos ≤ d.pos) ∧ (∀ y ∈ a, d.pos ≤ y.pos) ∧
      (∀ x ∈ b, ∀ y ∈ a, x.pos ≤ y.pos) := by
  simp only [sortedC, List.pairwise_append, List.pairwise_cons, List.mem_cons]
  constructor
  · rintro ⟨h1, ⟨h2, h3⟩, h4⟩
    exact ⟨h1, h3, fun x hx => h4 x hx d (Or.inl rfl), h2, fun x hx y hy => h4 x hx y (Or.inr hy)⟩
  · rintro ⟨h1, h2, h3, h4, h5⟩
    refine ⟨h1, ⟨h4, h2⟩, ?_⟩
    intro x hx y hy
    rcases hy with rfl | hy
    · exact h3 x hx
    · exact h5 x hx y hy

theorem sortedC_mid_congr (b a : List DNode) (d d' : DNode) (h : d.pos = d'.pos) :
    sortedC (b ++ d :: a) ↔ sortedC (b ++ d' :: a) := by
  rw [sortedC_mid, sortedC_mid, h]

theorem sortedC_snoc (ch : List DNode) (d : DNode) : sortedC (ch ++ [d]) ↔ sortedC ch ∧ ∀ x ∈ ch, x.pos ≤ d.pos := by
  rw [sortedC_mid]
  simp [sortedC]

/-- in a sorted list the last element is the largest -/
theorem all_le_of_lastLe {ch : List DNode} {n : Nat} (hs : sortedC ch) (hl : LastLe ch n) : ∀ x ∈ ch, x.pos ≤ n := by
  rcases List.eq_nil_or_concat ch with rfl | ⟨r, d, rfl⟩
  · intro x hx; cases hx
  · have hd : d.pos ≤ n := hl d (by simp)
    rw [List.concat_eq_append, sortedC_snoc] at hs
    intro x hx
    simp only [List.concat_eq_append, List.mem_append, List.mem_singleton] at hx
    rcases hx with hx | hx
    · exact Nat.le_trans (hs.2 x hx) hd
    · rw [hx]; exact hd

theorem lastLe_of_all {ch : List DNode} {n : Nat} (h : ∀ x ∈ ch, x.pos ≤ n) : LastLe ch n :=
  fun d hd => h d (List.mem_of_getLast? hd)

/-! ### the zipper -/

/-- the ancestors of an open node at position `p`: each child list is in map order around the open child, and every
    closed sibling is sorted throughout -/
def UpSorted : Nat → List Frame → Prop
  | _, [] => True
  | p, f :: r => sortedC (f.before ++ DNode.loop [] p [] :: f.after) ∧ (∀ d ∈ f.before, AllSortedC d) ∧
      (∀ d ∈ f.after, AllSortedC d) ∧ UpSorted f.pos r

/-- the tree under construction has the children of every loop node in map order -/
structure ZSorted (c : Cursor) : Prop where
  ch : sortedC c.ch
  all : ∀ d ∈ c.ch, AllSortedC d
  up : UpSorted c.pos c.up

theorem plug_sorted : ∀ (up : List Frame) (d : DNode), AllSortedC d → UpSorted d.pos up → AllSortedC (plug d up)
  | [], d, hd, _ => by simpa [plug] using hd
  | f :: r, d, hd, hu => by
    obtain ⟨h1, h2, h3, h4⟩ := hu
    simp only [plug]
    apply plug_sorted r
    · rw [allSortedC_loop]
      refine ⟨(sortedC_mid_congr _ _ _ _ (by simp [DNode.pos])).1 h1, ?_⟩
      intro x hx
      simp only [List.mem_append, List.mem_cons] at hx
      rcases hx with hx | hx | hx
      · exact h2 x hx
      · rw [hx]; exact hd
      · exact h3 x hx
    · simpa [DNode.pos] using h4

/-- the tree handed out -/
theorem zsorted_tree {c : Cursor} (h : ZSorted c) : AllSortedC c.tree := by
  unfold Cursor.tree
  apply plug_sorted
  · exact (allSortedC_loop _ _ _).2 ⟨h.ch, h.all⟩
  · simpa [DNode.pos] using h.up

theorem parent_zsorted {c p : Cursor} (hp : parent c = some p) (h : ZSorted c) : ZSorted p := by
  unfold parent at hp
  cases hu : c.up with
  | nil => rw [hu] at hp; cases hp
  | cons f r =>
    rw [hu] at hp
    simp only [Option.some.injEq] at hp
    have hup := h.up
    rw [hu] at hup
    obtain ⟨h1, h2, h3, h4⟩ := hup
    rw [← hp]
    refine ⟨(sortedC_mid_congr _ _ _ _ (by simp [DNode.pos])).1 h1, ?_, h4⟩
    intro x hx
    simp only [List.mem_append, List.mem_cons] at hx
    rcases hx with hx | hx | hx
    · exact h2 x hx
    · rw [hx]; exact (allSortedC_loop _ _ _).2 ⟨h.ch, h.all⟩
    · exact h3 x hx

theorem popLoops_zsorted : ∀ (pops : List LPath) (c c1 : Cursor), popLoops (some c) pops = .ok (some c1) →
    ZSorted c → ZSorted c1
  | [], c, c1, h, hz => by
    simp only [popLoops, Except.ok.injEq, Option.some.injEq] at h
    rw [← h]; exact hz
  | l :: r, c, c1, h, hz => by
    simp only [popLoops] at h
    split at h
    · cases hpar : parent c with
      | none =>
        rw [hpar] at h
        cases r with
        | nil => simp [popLoops] at h
        | cons _ _ => simp [popLoops] at h
      | some p =>
        rw [hpar] at h
        exact popLoops_zsorted r p c1 h (parent_zsorted hpar hz)
    · cases h

/-- a new empty loop node after every existing child -/
theorem addLoopNode_zsorted {c : Cursor} (l : LPath) (n : Nat) (hz : ZSorted c) (hle : ∀ x ∈ c.ch, x.pos ≤ n) :
    ZSorted (addLoopNode c l n) ∧ (addLoopNode c l n).ch = [] := by
  have hidx := insertIdx_end (lastLe_of_all hle)
  refine ⟨⟨by simp [addLoopNode, sortedC], by simp [addLoopNode], ?_⟩, rfl⟩
  simp only [addLoopNode, hidx, List.take_length, List.drop_length, UpSorted]
  refine ⟨?_, hz.all, by simp, hz.up⟩
  rw [sortedC_snoc]
  exact ⟨hz.ch, by simpa [DNode.pos] using hle⟩

theorem pushLoops_zsorted : ∀ (pushes : List (LPath × Nat)) (c c2 : Cursor), pushLoops (some c) pushes = .ok (some c2) →
    ZSorted c → (∀ l, pushes.head? = some l → ∀ x ∈ c.ch, x.pos ≤ l.2) →
    ZSorted c2 ∧ (pushes ≠ [] → c2.ch = []) ∧ (pushes = [] → c2 = c)
  | [], c, c2, h, hz, _ => by
    simp only [pushLoops, Except.ok.injEq, Option.some.injEq] at h
    rw [← h]; exact ⟨hz, fun e => absurd rfl e, fun _ => rfl⟩
  | l :: r, c, c2, h, hz, hle => by
    simp only [pushLoops] at h
    obtain ⟨hz1, hch1⟩ := addLoopNode_zsorted l.1 l.2 hz (hle l rfl)
    obtain ⟨k1, k2, k3⟩ := pushLoops_zsorted r _ c2 h hz1 (by intro l' _ x hx; rw [hch1] at hx; cases hx)
    refine ⟨k1, fun _ => ?_, fun e => by cases e⟩
    by_cases hr : r = []
    · rw [k3 hr]; exact hch1
    · exact k2 hr

theorem appendSeg_zsorted {c c' : Cursor} (a : Answer) (h : appendSeg (some c) a = .ok c') (hz : ZSorted c)
    (hle : ∀ x ∈ c.ch, x.pos ≤ a.pos) : ZSorted c' := by
  simp only [appendSeg, Except.ok.injEq] at h
  rw [← h]
  refine ⟨?_, ?_, hz.up⟩
  · rw [sortedC_snoc]; exact ⟨hz.ch, by simpa [DNode.pos] using hle⟩
  · intro x hx
    simp only [List.mem_append, List.mem_singleton] at hx
    rcases hx with hx | hx
    · exact hz.all x hx
    · rw [hx]; exact allSortedC_seg _ _ _

/-- a new instance: the fresh root with its first segment -/
theorem start_zsorted (a : Answer) (c' : Cursor) (h : addSegment (freshTree a) a = .ok c') : ZSorted c' := by
  have : c' = { path := a.path, pos := a.ppos, ch := [DNode.seg a.seg a.path a.pos], up := [] } := by
    simp [addSegment, freshTree, repeatArm, parent, appendSeg] at h
    exact h.symm
  rw [this]
  exact ⟨by simp [sortedC], by intro x hx; simp at hx; rw [hx]; exact allSortedC_seg _ _ _, trivial⟩

/-! ### the monotonicity condition on one answer (executable, evaluated next to `stepOk`) -/

/-- a segment that is placed into a loop instance that is already open (nothing is pushed) does not lie before the node
    last placed in that instance -/
def segMonoOk (w : Where) (a : Answer) : Bool :=
  match popRun w.open_ w.last (effPops (pathOf w.open_) a) with
  | none => true
  | some x => !(effPushes a).isEmpty || decide (x.2 ≤ a.pos)

def monoFrom (lid : Option LoopId) : Where → List Answer → Bool
  | _, [] => true
  | w, a :: r =>
    match stepOk lid w a with
    | none => true
    | some w' => segMonoOk w a && monoFrom lid w' r

/-- positions of segments do not decrease inside a loop instance (companion of `Consistent`) -/
def Mono (lid : Option LoopId) (answers : List Answer) : Prop :=
  monoFrom lid { open_ := [], last := 0 } answers = true

instance (lid : Option LoopId) (answers : List Answer) : Decidable (Mono lid answers) := by
  unfold Mono; infer_instance

theorem segMono_spec {w : Where} {a : Answer} (h : segMonoOk w a = true) {rs1 : List (LoopId × Nat)} {lastC : Nat}
    (hpop : popRun w.open_ w.last (effPops (pathOf w.open_) a) = some (rs1, lastC)) (he : effPushes a = []) :
    lastC ≤ a.pos := by
  simp only [segMonoOk, hpop, he, List.isEmpty_nil, Bool.not_true, Bool.false_or, decide_eq_true_eq] at h
  exact h

/-! ### one more segment of the instance under construction -/

theorem addSegment_zsorted {lid : LoopId} {w w' : Where} {a : Answer} {c : Cursor}
    (hc : CInv w.open_ w.last c) (hz : ZSorted c) (hs : stepOk (some lid) w a = some w') (hm : segMonoOk w a = true)
    (hin : inReq (some lid) a = true) (hns : ¬ isStart (some lid) a = true)
    (hroot : (rootPath c.path c.up).getLast? = some lid) (hcnt : (rootPath c.path c.up).count lid ≤ 1) :
    ∀ c', addSegment c a = .ok c' → ZSorted c' := by
  intro c' hadd
  obtain ⟨rs1, lastC, rs2, hpop, hpush, h3, h4, h5, h6, h7, h8, h9, hw'⟩ := stepOk_spec hs
  subst hw'
  obtain ⟨hcp, hne⟩ := hc.path_eq
  obtain ⟨hrp, hlen⟩ := rootPath_eq c.up c.path c.pos w.open_ (by simpa [frames] using hc.fm)
  have hin' := hin
  rw [inReq_some] at hin
  have hns' := hns
  rw [isStart_some] at hns
  obtain ⟨hrs1, hkle⟩ := popRun_spec _ _ _ _ _ hpop
  obtain ⟨top, htop, htoplen, _⟩ := pushRun_spec _ _ _ hpush
  unfold addSegment at hadd
  by_cases heq : c.path = a.path
  · rw [if_pos heq] at hadd
    have hk1 := h6 (by rw [← hcp]; exact heq)
    have hlen2 : rs2.length = w.open_.length := by
      rw [← pathOf_length, h3, ← heq, hcp, pathOf_length]
    have hmk : (effPushes a).length = (effPops (pathOf w.open_) a).length := by
      have hl3 : top.length + (w.open_.length - (effPops (pathOf w.open_) a).length) = w.open_.length := by
        rw [htop, hrs1] at hlen2
        simpa using hlen2
      omega
    by_cases hf : a.first = true
    · -- a new instance of the loop we are in
      have hm1 : (effPushes a).length ≥ 1 := by
        unfold effPushes
        by_cases hi : implicitOpen a = true
        · simp [hi]
        · simp only [hi]
          simp [implicitOpen, hf] at hi
          cases hp : a.pushes with
          | nil => simp [hp] at hi
          | cons _ _ => simp
      have hupne : 1 ≤ c.up.length := by
        cases hup : c.up with
        | nil =>
          exfalso; apply hns
          simp [hup, rootPath] at hroot
          exact ⟨by rw [← heq]; exact hroot, hf⟩
        | cons _ _ => simp
      obtain ⟨l', hl'⟩ : ∃ l', effPops (pathOf w.open_) a = [l'] := by
        cases h : effPops (pathOf w.open_) a with
        | nil => rw [h] at hmk; simp only [List.length_nil] at hmk; omega
        | cons l' r => cases r with
          | nil => exact ⟨l', rfl⟩
          | cons _ _ => simp [h] at hk1
      obtain ⟨l, hl⟩ : ∃ l, effPushes a = [l] := by
        cases h : effPushes a with
        | nil => simp [h] at hm1
        | cons l r => cases r with
          | nil => exact ⟨l, rfl⟩
          | cons _ _ => simp [h, hl'] at hmk
      rw [hl'] at hpop
      rw [hl] at hpush
      obtain ⟨c1, hp1, ht1, hc1, hr1, _⟩ := popLoops_ok [l'] _ _ c _ _ hc hpop (by simpa using hupne)
      have hpar : parent c = some c1 := by
        simp only [popLoops] at hp1
        split at hp1
        · cases hpc : parent c with
          | none => simp [hpc] at hp1
          | some p => simp [hpc] at hp1; simp [hp1]
        · simp at hp1
      have hz1 : ZSorted c1 := parent_zsorted hpar hz
      have hpos : ∀ l0, [l].head? = some l0 → lastC ≤ l0.2 := by
        intro l0 h0; simp at h0; subst h0
        simpa [firstPushPos, hl] using h8
      obtain ⟨c2, hp2, _, _, hc2, _⟩ := pushLoops_ok [l] _ _ c1 _ hc1 hpos hpush
      have hc2 := hc2 (by simp)
      have hc2eq : c2 = addLoopNode c1 l.1 l.2 := by
        simp [pushLoops] at hp2; exact hp2.symm
      have hl1 : l.1 = a.path := by
        have := hc2.path_eq.1
        rw [h3, hc2eq] at this
        simpa [addLoopNode] using this
      have hl2 : l.2 = a.ppos := by
        have hfm := hc2.fm
        cases hrs2 : rs2 with
        | nil => exact absurd hrs2 hc2.path_eq.2
        | cons y r =>
          rw [hrs2] at hfm
          simp only [frames, FramesMatch] at hfm
          have h5' := h5 hf
          rw [hrs2] at h5'
          simp at h5'
          rw [← h5', ← hfm.2.1, hc2eq]
          simp [addLoopNode]
      have hle1 : ∀ x ∈ c1.ch, x.pos ≤ a.ppos := by
        intro x hx
        have := all_le_of_lastLe hz1.ch hc1.ll x hx
        have h2 := hpos l rfl
        rw [hl2] at h2
        omega
      obtain ⟨hz2, hch2⟩ := addLoopNode_zsorted a.path a.ppos hz1 hle1
      simp only [repeatArm, hpar, hf, if_true] at hadd
      exact appendSeg_zsorted a hadd hz2 (by intro x hx; rw [hch2] at hx; cases hx)
    · -- same loop instance
      have hf' : a.first = false := by simpa using hf
      have hpu : a.pushes = [] := by rcases h4 with h | h; exact absurd h hf; exact h
      have hni : implicitOpen a = false := by simp [implicitOpen, hf']
      have hepu : effPushes a = [] := by simp [effPushes, hni, hpu]
      have hepo : effPops (pathOf w.open_) a = [] := by
        rw [hepu] at hmk
        exact List.eq_nil_of_length_eq_zero (by simpa using hmk.symm)
      have hmono := segMono_spec hm hpop hepu
      rw [hepo] at hpop
      simp [popRun] at hpop
      have hle : ∀ x ∈ c.ch, x.pos ≤ a.pos := by
        intro x hx
        have := all_le_of_lastLe hz.ch hc.ll x hx
        rw [hpop.2] at this
        omega
      have hadd' : appendSeg (some c) a = .ok c' := by
        simp only [repeatArm] at hadd
        cases hpc : parent c with
        | none => rw [hpc] at hadd; exact hadd
        | some p => rw [hpc] at hadd; simpa [hf'] using hadd
      exact appendSeg_zsorted a hadd' hz hle
  · rw [if_neg heq] at hadd
    have hni : implicitOpen a = false := by
      cases hi : implicitOpen a with
      | false => rfl
      | true =>
        exfalso
        rcases h7 hi with h | h
        · exact heq (by rw [hcp, h])
        · exact hne h
    have hepo : effPops (pathOf w.open_) a = a.pops := by simp [effPops, hni]
    have hepu : effPushes a = a.pushes := by simp [effPushes, hni]
    have hpop0 := hpop
    rw [hepo] at hpop hrs1 hkle
    rw [hepu] at hpush
    have hstart : a.pushes ≠ [] → a.path.getLast? = some lid → False := by
      intro hp hg
      rcases h4 with h | h
      · exact hns ⟨hg, h⟩
      · exact hp h
    have hanch : ¬ some lid ∈ a.pushes.dropLast.map (fun p => idOf p.1) := by
      simp only [anchoredOk, hepu] at h9
      simp only [Bool.and_eq_true, Bool.not_eq_true', decide_eq_true_eq] at h9
      intro hm'
      have := h9.1
      rw [List.contains_eq_mem] at this
      have hm'' := hm'
      simp at this hm''
      exact this hm''
    have hk : a.pops.length ≤ c.up.length :=
      pops_within (lid := lid) hlen (by rw [← hrp]; exact hroot) (by rw [← hrp]; exact hcnt) hrs1 hpush h3 hin hanch hstart
    obtain ⟨c1, hp1, _, hc1, _, _⟩ := popLoops_ok a.pops _ _ c _ _ hc hpop hk
    have hz1 : ZSorted c1 := popLoops_zsorted a.pops c c1 hp1 hz
    have hall1 := all_le_of_lastLe hz1.ch hc1.ll
    have hpos : ∀ l0, a.pushes.head? = some l0 → lastC ≤ l0.2 := by
      intro l0 h0
      cases hp : a.pushes with
      | nil => simp [hp] at h0
      | cons l r =>
        simp [hp] at h0; subst h0
        simpa [firstPushPos, hepu, hp] using h8
    obtain ⟨c2, hp2, _, _, _, _⟩ := pushLoops_ok a.pushes _ _ c1 _ hc1 hpos hpush
    obtain ⟨hz2, hch2, hsame⟩ := pushLoops_zsorted a.pushes c1 c2 hp2 hz1
      (by intro l hl x hx; exact Nat.le_trans (hall1 x hx) (hpos l hl))
    simp only [replay, hp1, hp2] at hadd
    refine appendSeg_zsorted a hadd hz2 ?_
    by_cases hp : a.pushes = []
    · rw [hsame hp]
      have hmono := segMono_spec hm hpop0 (by rw [hepu]; exact hp)
      intro x hx
      exact Nat.le_trans (hall1 x hx) hmono
    · intro x hx; rw [hch2 hp] at hx; cases hx

/-! ### every tree of a consistent, monotone run -/

theorem monoFrom_cons {lid : Option LoopId} {w w' : Where} {a : Answer} {r : List Answer}
    (hs : stepOk lid w a = some w') (h : monoFrom lid w (a :: r) = true) :
    segMonoOk w a = true ∧ monoFrom lid w' r = true := by
  simp only [monoFrom, hs, Bool.and_eq_true] at h
  exact h

theorem mem_prepend {ys : List Yield} {r : Run} {y : Yield} (h : y ∈ (r.prepend ys).yields) : y ∈ ys ∨ y ∈ r.yields := by
  simpa [Run.prepend] using h

theorem mem_emit {cur : Option Cursor} {d : DNode} (h : Yield.tree d ∈ emit cur) : ∃ c, cur = some c ∧ d = c.tree := by
  cases cur with
  | none => simp [emit] at h
  | some c => simp [emit] at h; exact ⟨c, rfl, h⟩

/-- the simulation of `Props/C09.lean : run_parts` once more, carrying `ZSorted` -/
theorem run_sorted (lid : Option LoopId) : ∀ (as : List Answer),
    (∀ (w : Where) (hp : Bool), consistentFrom lid w as = true → monoFrom lid w as = true →
      (∀ l, lid = some l → l ∉ pathOf w.open_) →
      ∀ d, Yield.tree d ∈ (runFrom lid none hp as).yields → AllSortedC d) ∧
    (∀ (l : LoopId) (w : Where) (hp : Bool) (c : Cursor),
      lid = some l → consistentFrom lid w as = true → monoFrom lid w as = true → CInv w.open_ w.last c → ZSorted c →
      (rootPath c.path c.up).getLast? = some l → (rootPath c.path c.up).count l ≤ 1 →
      ∀ d, Yield.tree d ∈ (runFrom lid (some c) hp as).yields → AllSortedC d) := by
  intro as
  induction as with
  | nil =>
    refine ⟨?_, ?_⟩
    · intro w hp _ _ _ d hd
      simp [runFrom, emit] at hd
    · intro l w hp c _ _ _ _ hz _ _ d hd
      simp [runFrom, emit] at hd
      rw [hd]; exact zsorted_tree hz
  | cons a r' ih =>
    obtain ⟨ih1, ih2⟩ := ih
    refine ⟨?_, ?_⟩
    · intro w hp hcons hmono hout d hd
      obtain ⟨w', hs, hcons'⟩ := consistentFrom_cons hcons
      obtain ⟨_, hmono'⟩ := monoFrom_cons hs hmono
      by_cases hin : inReq lid a = true
      · cases hlid : lid with
        | none => rw [hlid] at hin; simp [inReq] at hin
        | some l =>
          subst hlid
          obtain ⟨ho1, _, _, _⟩ := outside_step hs (hout l rfl)
          have hst := ho1 hin
          obtain ⟨c', ha, hci, _, hrt, hcnt⟩ := start_ok hs hst
          simp only [runFrom, hin, hst, if_true, ha] at hd
          rcases mem_prepend hd with hd | hd
          · simp [emit] at hd
          · exact ih2 l w' true c' rfl hcons' hmono' hci (start_zsorted a c' ha)
              (by rw [hrt]; exact (isStart_some.mp hst).1) (by rw [hrt]; exact hcnt) d hd
      · have hin' : inReq lid a = false := by simpa using hin
        have hout' : ∀ l, lid = some l → l ∉ pathOf w'.open_ := by
          intro l hl
          subst hl
          rw [(outside_step hs (hout l rfl)).2.2.1]
          intro hm; rw [← inReq_some] at hm; rw [hm] at hin'; simp at hin'
        simp only [runFrom, hin', Bool.false_eq_true, if_false] at hd
        split at hd
        · simp [emit] at hd
        · rcases mem_prepend hd with hd | hd
          · simp [emit] at hd
          · exact ih1 w' true hcons' hmono' hout' d hd
    · intro l w hp c hlid hcons hmono hc hz hroot hcnt d hd
      subst hlid
      obtain ⟨w', hs, hcons'⟩ := consistentFrom_cons hcons
      obtain ⟨hm1, hmono'⟩ := monoFrom_cons hs hmono
      by_cases hin : inReq (some l) a = true
      · by_cases hst : isStart (some l) a = true
        · obtain ⟨c', ha, hci, _, hrt, hcnt'⟩ := start_ok hs hst
          simp only [runFrom, hin, hst, if_true, ha] at hd
          rcases mem_prepend hd with hd | hd
          · obtain ⟨c0, h0, h1⟩ := mem_emit hd
            simp only [Option.some.injEq] at h0
            rw [h1, ← h0]; exact zsorted_tree hz
          · exact ih2 l w' true c' rfl hcons' hmono' hci (start_zsorted a c' ha)
              (by rw [hrt]; exact (isStart_some.mp hst).1) (by rw [hrt]; exact hcnt') d hd
        · obtain ⟨c', ha, hci, _, hrt⟩ := addSegment_ok hc hs hin hst hroot hcnt
          have hz' := addSegment_zsorted hc hz hs hm1 hin hst hroot hcnt c' ha
          have hst' : isStart (some l) a = false := by simpa using hst
          simp only [runFrom, hin, hst', if_true, Bool.false_eq_true, if_false, ha] at hd
          exact ih2 l w' true c' rfl hcons' hmono' hci hz' (by rw [hrt]; exact hroot) (by rw [hrt]; exact hcnt) d hd
      · have hin' : inReq (some l) a = false := by simpa using hin
        have hnin : l ∉ a.path := by
          intro hm; rw [← inReq_some] at hm; rw [hm] at hin'; simp at hin'
        obtain ⟨rs1, lastC, rs2, hpop, hpush, h3, h4, h5, h6, h7, h8, h9, hw'⟩ := stepOk_spec hs
        have hout' : ∀ l', some l = some l' → l' ∉ pathOf w'.open_ := by
          intro l' hl'
          simp at hl'; subst hl'
          rw [hw']; simp only; rw [h3]; exact hnin
        simp only [runFrom, hin', Bool.false_eq_true, if_false] at hd
        split at hd
        · have hd' : Yield.tree d ∈ emit (some c) := hd
          obtain ⟨c0, h0, h1⟩ := mem_emit hd'
          simp only [Option.some.injEq] at h0
          rw [h1, ← h0]; exact zsorted_tree hz
        · rcases mem_prepend hd with hd | hd
          · simp only [List.mem_append, List.mem_singleton] at hd
            rcases hd with hd | hd
            · obtain ⟨c0, h0, h1⟩ := mem_emit hd
              simp only [Option.some.injEq] at h0
              rw [h1, ← h0]; exact zsorted_tree hz
            · cases hd
          · exact ih1 w' true hcons' hmono' hout' d hd

/-- **every tree the reader yields for a consistent, monotone answer list has the children of every loop node in map
    order** -/
theorem trees_sorted {lid : Option LoopId} {answers : List Answer} (hc : Consistent lid answers) (hm : Mono lid answers) :
    ∀ d, Yield.tree d ∈ ctxRun lid answers → AllSortedC d := by
  intro d hd
  exact (run_sorted lid answers).1 { open_ := [], last := 0 } false hc hm (by intro l _; simp [pathOf]) d hd

end Pyx12Verif.Ctx

/-! ### across the conversion -/

namespace Pyx12Verif.Bridge
open Pyx12Verif

theorem toDNode_pos (md : MapData) (segs : Nat → DataTree.Seg) (t : Ctx.DNode) :
    DataTree.nodePos (toDNode md segs t) = t.pos := by
  cases t <;> simp [toDNode, DataTree.nodePos, Ctx.DNode.pos]

theorem toDNode_live (md : MapData) (segs : Nat → DataTree.Seg) (t : Ctx.DNode) :
    DataTree.isLive (toDNode md segs t) = true := by
  cases t <;> simp [toDNode, DataTree.isLive, DataTree.isDead]

theorem toDNodeL_mem (md : MapData) (segs : Nat → DataTree.Seg) : ∀ (ch : List Ctx.DNode) (x : DataTree.DNode),
    x ∈ toDNodeL md segs ch → ∃ d ∈ ch, x = toDNode md segs d
  | [], x, h => by simp [toDNodeL] at h
  | c :: r, x, h => by
    simp only [toDNodeL, List.mem_cons] at h
    rcases h with h | h
    · exact ⟨c, by simp, h⟩
    · obtain ⟨d, hd, hx⟩ := toDNodeL_mem md segs r x h
      exact ⟨d, by simp [hd], hx⟩

theorem toDNodeL_eq_map (md : MapData) (segs : Nat → DataTree.Seg) : ∀ (ch : List Ctx.DNode),
    toDNodeL md segs ch = ch.map (toDNode md segs)
  | [] => rfl
  | c :: r => by simp [toDNodeL, toDNodeL_eq_map md segs r]

/-- no tombstones in a converted tree -/
theorem toDNodeL_cleanup (md : MapData) (segs : Nat → DataTree.Seg) (ch : List Ctx.DNode) :
    DataTree.cleanup (toDNodeL md segs ch) = toDNodeL md segs ch := by
  apply DataTree.cleanup_live
  intro x hx
  obtain ⟨d, _, rfl⟩ := toDNodeL_mem md segs ch x hx
  exact toDNode_live md segs d

theorem toDNodeL_sorted (md : MapData) (segs : Nat → DataTree.Seg) (ch : List Ctx.DNode) :
    DataTree.posSorted (toDNodeL md segs ch) ↔ Ctx.sortedC ch := by
  rw [toDNodeL_eq_map]
  simp only [DataTree.posSorted, Ctx.sortedC, List.pairwise_map, toDNode_pos]

/-- **the conversion carries the invariant** -/
theorem toDNode_allSorted (md : MapData) (segs : Nat → DataTree.Seg) (t : Ctx.DNode) :
    Ctx.AllSortedC t → DataTree.AllSorted (toDNode md segs t) := by
  refine Ctx.DNode.rec (motive_1 := fun t => Ctx.AllSortedC t → DataTree.AllSorted (toDNode md segs t))
    (motive_2 := fun ch => (∀ d ∈ ch, Ctx.AllSortedC d) → ∀ x ∈ toDNodeL md segs ch, DataTree.AllSorted x) ?_ ?_ ?_ ?_ t
  · intro s p n _; simp [toDNode, DataTree.AllSorted]
  · intro p n ch ih h
    obtain ⟨h1, h2⟩ := (Ctx.allSortedC_loop p n ch).1 h
    simp only [toDNode]
    rw [DataTree.allSorted_loop, toDNodeL_cleanup, toDNodeL_sorted]
    exact ⟨h1, ih h2⟩
  · intro _ x hx; simp [toDNodeL] at hx
  · intro c r ihc ihr hall x hx
    simp only [toDNodeL, List.mem_cons] at hx
    rcases hx with hx | hx
    · rw [hx]; exact ihc (hall c (by simp))
    · exact ihr (fun d hd => hall d (List.mem_cons_of_mem _ hd)) x hx

/-- **`serialise (toDNode t)` = the tree's source segments in order** -/
theorem toDNode_serialise (md : MapData) (segs : Nat → DataTree.Seg) (t : Ctx.DNode) :
    DataTree.segsOf (toDNode md segs t) = treeSegs segs t := by
  unfold treeSegs
  refine Ctx.DNode.rec (motive_1 := fun t => DataTree.segsOf (toDNode md segs t) = (Ctx.leaves t).map (fun l => segs l.1.text))
    (motive_2 := fun ch => DataTree.segsOfList (toDNodeL md segs ch) = (Ctx.leavesL ch).map (fun l => segs l.1.text))
    ?_ ?_ ?_ ?_ t
  · intro s p n; simp [toDNode, DataTree.segsOf, Ctx.leaves]
  · intro p n ch ih; simp [toDNode, DataTree.segsOf, Ctx.leaves, ih]
  · simp [toDNodeL, DataTree.segsOfList, Ctx.leavesL]
  · intro c r ihc ihr; simp [toDNodeL, DataTree.segsOfList, Ctx.leavesL, ihc, ihr]

end Pyx12Verif.Bridge
