/-
C05 at pipeline level, document side (2): ONE round of `for seg in src:` — exactly which calls reach the error handler,
with their arguments (`stepSeg_full`): the walker's reports, then the structural call of the segment kind among the popped
reader errors (`MidX`: `add_gs_loop` with GS01 / the reader's group id, `close_gs_loop` with GE01 / the reader's set
counter, …), then what `node.is_valid` hands over; how `valid` and the pending reader errors move.
-/
import Pyx12Verif.Proofs.DocC05Valid
import Pyx12Verif.Proofs.DocTotal

namespace Pyx12Verif.Doc
open Pyx12Verif DocC05

/-- the structural call of a matched segment, with its arguments, among the popped reader errors `pops` -/
inductive MidX (d : Delims) (s : Seg) (rs : Envelope.RState) (pops : List Event) : List Event → Prop
  | isa : s.id = Envelope.idISA → MidX d s rs pops (.addIsa (isaData d s) :: pops)
  | iea : s.id = Envelope.idIEA → MidX d s rs pops (pops ++ [.closeIsa])
  | gs : s.id = Envelope.idGS → MidX d s rs pops (.addGs (gsData d s rs) :: pops)
  | ge : s.id = Envelope.idGE → MidX d s rs pops (pops ++ [.closeGs (geCount (gv d s 0)) rs.stCount])
  | st : s.id = Envelope.idST → MidX d s rs pops (.addSt (stData d s rs) :: pops)
  | se : s.id = Envelope.idSE → MidX d s rs pops (pops ++ [.closeSt])
  | plain : s.id ≠ Envelope.idISA → s.id ≠ Envelope.idIEA → s.id ≠ Envelope.idGS → s.id ≠ Envelope.idGE →
      s.id ≠ Envelope.idST → s.id ≠ Envelope.idSE → MidX d s rs pops (.addSeg s.id rs.segCount none :: pops)

theorem gsData_chk (d : Delims) (s : Seg) (rs : Envelope.RState) (c : Bool) :
    gsData d s { rs with chk837 := c } = gsData d s rs := rfl

theorem MidX.chk {d : Delims} {s : Seg} {rs : Envelope.RState} {c : Bool} {pops evs : List Event}
    (h : MidX d s { rs with chk837 := c } pops evs) : MidX d s rs pops evs := by
  cases h with
  | isa h => exact .isa h
  | iea h => exact .iea h
  | gs h => exact .gs h
  | ge h => exact .ge h
  | st h => exact .st h
  | se h => exact .se h
  | plain h1 h2 h3 h4 h5 h6 => exact .plain h1 h2 h3 h4 h5 h6

/-- what a branch that goes on leaves of the loop state -/
def BranchKeeps (st st' : LState) : Prop :=
  st'.valid = st.valid ∧ st'.pend = [] ∧ st'.cnt = st.cnt ∧ ∃ c, st'.rs = { st.rs with chk837 := c }

theorem keeps_popped (st : LState) : BranchKeeps st st.popped := ⟨rfl, rfl, rfl, st.rs.chk837, rfl⟩

theorem withNewMap_goX (ms : Maps) (st : LState) (file : Option Str) (k : LState → MapX → Branch) (st' : LState)
    (n' : NodeRef) (evs : List Event) (h : withNewMap ms st file k = .go st' n' evs) :
    ∃ f m, k { st with mapFile := some f, curMap := some m, rs := { st.rs with chk837 := m.is837 } } m = .go st' n' evs := by
  unfold withNewMap at h
  cases file with
  | none => cases h
  | some f =>
    simp only at h
    cases hm : findMap ms f with
    | none => rw [hm] at h; cases h
    | some m => simp only [hm] at h; exact ⟨f, m, h⟩

theorem plainTail_midX (d : Delims) (s : Seg) (st st' : LState) (n n' : NodeRef) (evs : List Event)
    (h : plainTail s st n = .go st' n' evs) (h1 : s.id ≠ Envelope.idISA) (h2 : s.id ≠ Envelope.idIEA)
    (h3 : s.id ≠ Envelope.idGS) (h4 : s.id ≠ Envelope.idGE) (h5 : s.id ≠ Envelope.idST) (h6 : s.id ≠ Envelope.idSE) :
    MidX d s st.rs (popEvents st) evs ∧ BranchKeeps st st' := by
  simp only [plainTail, Branch.go.injEq] at h
  obtain ⟨rfl, _, rfl⟩ := h
  exact ⟨.plain h1 h2 h3 h4 h5 h6, keeps_popped st⟩

theorem gsTail_midX (ms : Maps) (d : Delims) (s : Seg) (st st' : LState) (m : MapX) (n' : NodeRef) (evs : List Event)
    (h : gsTail ms d s st m = .go st' n' evs) (hid : s.id = Envelope.idGS) :
    MidX d s st.rs (popEvents st) evs ∧ BranchKeeps st st' := by
  unfold gsTail at h
  cases hf : fetchIn ms m (gsPath ms) with
  | none => rw [hf] at h; cases h
  | some n =>
    rw [hf] at h
    simp only [Branch.go.injEq] at h
    obtain ⟨rfl, _, rfl⟩ := h
    exact ⟨.gs hid, keeps_popped st⟩

theorem branch_midX (ms : Maps) (d : Delims) (s : Seg) (st st' : LState) (n n' : NodeRef) (evs : List Event)
    (h : branch ms d s st n = .go st' n' evs) : MidX d s st.rs (popEvents st) evs ∧ BranchKeeps st st' := by
  unfold branch at h
  split at h
  · rename_i hid
    simp only [Branch.go.injEq] at h
    obtain ⟨rfl, _, rfl⟩ := h
    exact ⟨.isa hid, rfl, rfl, rfl, st.rs.chk837, rfl⟩
  · rename_i h1
    split at h
    · rename_i hid
      simp only [Branch.go.injEq] at h
      obtain ⟨rfl, _, rfl⟩ := h
      exact ⟨.iea hid, keeps_popped st⟩
    · rename_i h2
      split at h
      · rename_i hid
        unfold gsBranch at h
        split at h
        · obtain ⟨f, m, hk⟩ := withNewMap_goX ms _ _ _ st' n' evs h
          obtain ⟨a, b1, b2, b3, c, b4⟩ := gsTail_midX ms d s _ st' m n' evs hk hid
          exact ⟨MidX.chk (c := m.is837) a, b1, b2, b3, c, b4⟩
        · cases hm : st.curMap with
          | none => rw [hm] at h; cases h
          | some m =>
            rw [hm] at h
            obtain ⟨a, b1, b2, b3, c, b4⟩ := gsTail_midX ms d s _ st' m n' evs h hid
            exact ⟨a, b1, b2, b3, c, b4⟩
      · rename_i h3
        split at h
        · rename_i hid
          have k4 : s.id ≠ Envelope.idGE := by rw [hid]; decide
          have k5 : s.id ≠ Envelope.idST := by rw [hid]; decide
          have k6 : s.id ≠ Envelope.idSE := by rw [hid]; decide
          unfold bhtBranch at h
          split at h
          · split at h
            · obtain ⟨f, m, hk⟩ := withNewMap_goX ms _ _ _ st' n' evs h
              unfold bhtSwitch at hk
              cases hf : fetchIn ms m (bhtPath ms) with
              | none => rw [hf] at hk; cases hk
              | some nn =>
                rw [hf] at hk
                obtain ⟨a, b1, b2, b3, c, b4⟩ := plainTail_midX d s _ st' nn n' evs hk h1 h2 h3 k4 k5 k6
                exact ⟨MidX.chk (c := m.is837) a, b1, b2, b3, c, b4⟩
            · exact plainTail_midX d s st st' n n' evs h h1 h2 h3 k4 k5 k6
          · exact plainTail_midX d s st st' n n' evs h h1 h2 h3 k4 k5 k6
        · rename_i h4
          split at h
          · rename_i hid
            simp only [Branch.go.injEq] at h
            obtain ⟨rfl, _, rfl⟩ := h
            exact ⟨.ge hid, keeps_popped st⟩
          · rename_i h5
            split at h
            · rename_i hid
              simp only [Branch.go.injEq] at h
              obtain ⟨rfl, _, rfl⟩ := h
              exact ⟨.st hid, keeps_popped st⟩
            · rename_i h6
              split at h
              · rename_i hid
                simp only [Branch.go.injEq] at h
                obtain ⟨rfl, _, rfl⟩ := h
                exact ⟨.se hid, keeps_popped st⟩
              · rename_i h7
                exact plainTail_midX d s st st' n n' evs h h1 h2 h3 h5 h6 h7

/-- everything one round that goes on does -/
theorem stepSeg_full (ms : Maps) (ctx : Ctx) (control : MapX) (d : Delims) (le : List SegText.RErr) (s : Seg)
    (st st' : LState) (out : SegOut) (h : stepSeg ms ctx control d le s st = .next st' out) :
    ∃ v rs' es, Pipeline.viewOf d s = some v ∧ Envelope.step Envelope.Fixes.all st.rs v = .ok (rs', es) ∧
      (∃ c, st'.rs = { rs' with chk837 := c }) ∧ out.sid = s.id ∧
      (st.Ok ms → control ∈ ms.maps → st'.Ok ms) ∧
      ((out.matched = false ∧ WalkOnly out.events ∧ st'.valid = st.valid ∧
          st'.pend = st.pend ++ le.map lineErr ++ baseErrs s ++ es.map envErr) ∨
       (out.matched = true ∧ ∃ (w mid tl : List Event) (vv : Bool) (n : NodeRef) (sd : SegDef), out.events = w ++ mid ++ tl ∧ WalkOnly w ∧
          MidX d s rs' ((st.pend ++ le.map lineErr ++ baseErrs s ++ es.map envErr).map rdEvent) mid ∧
          lookupDef n.map n.ip = some sd ∧ segEvents ctx n.map.v5010 d sd s = .ok vv tl ∧
          (st.Ok ms → control ∈ ms.maps → n.map ∈ ms.maps) ∧ st'.valid = (st.valid && vv) ∧ st'.pend = [])) := by
  unfold stepSeg at h
  cases hv : Pipeline.viewOf d s with
  | none => rw [hv] at h; cases h
  | some v =>
    rw [hv] at h
    simp only [withView] at h
    cases hr : Envelope.step Envelope.Fixes.all st.rs v with
    | crash e => rw [hr] at h; cases h
    | raised => rw [hr] at h; cases h
    | ok r =>
      rw [hr] at h
      simp only [afterReader, afterStep] at h
      cases hf : findNode ms control d s r.1.segCount
          { st with rs := r.1, pend := st.pend ++ le.map lineErr ++ baseErrs s ++ r.2.map envErr } with
      | crash site => rw [hf] at h; cases h
      | res n cnt evs =>
        rw [hf] at h
        obtain ⟨hw, _, _⟩ := findNode_shape _ _ _ _ _ _ _ _ _ hf
        have hfok : st.Ok ms → control ∈ ms.maps → ∀ x, n = some x → x.map ∈ ms.maps := by
          intro hst hc
          have := findNode_ok ms control d s r.1.segCount
            { st with rs := r.1, pend := st.pend ++ le.map lineErr ++ baseErrs s ++ r.2.map envErr } hc hst
          rw [hf] at this
          exact this
        cases n with
        | none =>
          simp only [afterFind, Step.next.injEq] at h
          obtain ⟨rfl, rfl⟩ := h
          refine ⟨v, r.1, r.2, rfl, hr, ⟨r.1.chk837, rfl⟩, rfl, fun hst _ => hst, Or.inl ⟨rfl, hw, rfl, rfl⟩⟩
        | some nd =>
          simp only [afterFind] at h
          cases hb : branch ms d s
              { st with rs := r.1, pend := st.pend ++ le.map lineErr ++ baseErrs s ++ r.2.map envErr, cnt := cnt } nd with
          | stop o => rw [hb] at h; cases h
          | go st2 n2 evs2 =>
            rw [hb] at h
            obtain ⟨hm, k1, k2, _, c, k4⟩ := branch_midX _ _ _ _ _ _ _ _ hb
            have hbok : st.Ok ms → control ∈ ms.maps → st2.Ok ms ∧ n2.map ∈ ms.maps := by
              intro hst hc
              have := branch_ok ms d s
                { st with rs := r.1, pend := st.pend ++ le.map lineErr ++ baseErrs s ++ r.2.map envErr, cnt := cnt } nd
                hst (hfok hst hc nd rfl)
              rw [hb] at this
              exact this
            simp only [validate] at h
            cases hl : lookupDef n2.map n2.ip with
            | none => rw [hl] at h; cases h
            | some sd =>
              rw [hl] at h
              simp only at h
              cases hs : segEvents ctx n2.map.v5010 d sd s with
              | crash site => rw [hs] at h; cases h
              | ok vv evs3 =>
                rw [hs] at h
                simp only [Step.next.injEq] at h
                obtain ⟨rfl, rfl⟩ := h
                refine ⟨v, r.1, r.2, rfl, hr, ⟨c, k4⟩, rfl, ?_, Or.inr ⟨rfl, evs, evs2, evs3, vv, n2, sd, rfl, hw, hm, hl,
                  hs, fun hst hc => (hbok hst hc).2, by simp only [k1], k2⟩⟩
                intro hst hc
                obtain ⟨b1, b2⟩ := hbok hst hc
                refine ⟨?_, b1.2⟩
                intro x hx
                injection hx with hx
                rw [← hx]; exact b2

end Pyx12Verif.Doc
