/-
The automaton `wellNested` accepts every history of the grammar
`Interchange* ; Interchange = ISA Group* [IEA] ; Group = GS Set* [GE] ; Set = ST body* [SE]`
(given as the datatype `HInter ⊃ HGroup ⊃ HSet` with the omission rule `LastOnly`).
-/
import Pyx12Verif.Spec.Writer
import Pyx12Verif.Proofs.EnvelopeSteps

namespace Pyx12Verif.Writer
open Pyx12Verif.Envelope (Str Level idISA idIEA idGS idGE idST idSE isEnvId)
open Pyx12Verif.SegText (Seg)

def hwalk : Level → List Seg → Option Level
  | l, [] => some l
  | l, s :: r =>
    match histStep l s.id with
    | none => none
    | some l' => hwalk l' r

theorem hwalk_append {a b : List Seg} : ∀ {l l1 l2 : Level}, hwalk l a = some l1 → hwalk l1 b = some l2 →
    hwalk l (a ++ b) = some l2 := by
  induction a with
  | nil => intro l l1 l2 h1 h2; simp [hwalk] at h1; subst h1; simpa using h2
  | cons v r ih =>
    intro l l1 l2 h1 h2
    simp only [hwalk, List.cons_append] at h1 ⊢
    cases hn : histStep l v.id with
    | none => simp [hn] at h1
    | some l' => simp only [hn] at h1 ⊢; exact ih h1 h2

theorem wellNested_of_hwalk {a : List Seg} : ∀ {l l1 : Level}, hwalk l a = some l1 → wellNestedFrom l a = true := by
  induction a with
  | nil => intro _ _ _; rfl
  | cons v r ih =>
    intro l l1 h
    simp only [hwalk, wellNestedFrom] at h ⊢
    cases hn : histStep l v.id with
    | none => simp [hn] at h
    | some l' => simp only [hn] at h ⊢; exact ih h

theorem hwalk_body (body : List Seg) (h : ∀ b ∈ body, isEnvId b.id = false) : hwalk .inSt body = some .inSt := by
  induction body with
  | nil => rfl
  | cons b r ih =>
    have hb := h b (by simp)
    obtain ⟨_, h2, _, h4, _, h6⟩ := Envelope.not_env hb
    simp only [hwalk, histStep, h2, h4, h6, hb, if_false, Bool.false_eq_true]
    exact ih (fun x hx => h x (by simp [hx]))

def endSet (_ : HSet) : Level := .inSt

theorem set_walk (t : HSet) (h : t.Ok) : hwalk .inGs t.flat = some (if t.se.isSome = true then .inGs else endSet t) := by
  obtain ⟨h1, h2, h3⟩ := h
  have hst : hwalk .inGs [t.st] = some .inSt := by simp [hwalk, histStep, h1]
  have hb := hwalk_body t.body h2
  unfold HSet.flat
  cases hse : t.se with
  | none =>
    simp only [optSeg, List.append_nil, Option.isSome_none, Bool.false_eq_true, if_false, endSet]
    exact hwalk_append hst hb
  | some s =>
    have hid := h3 s hse
    have hs : hwalk .inSt [s] = some .inGs := by simp [hwalk, histStep, hid]
    simp only [optSeg, Option.isSome_some, if_true]
    exact hwalk_append hst (hwalk_append hb hs)

def endSets (ts : List HSet) : Level :=
  match ts.getLast? with
  | none => .inGs
  | some t => if t.se.isSome = true then .inGs else endSet t

theorem sets_walk (ts : List HSet) (hok : ∀ t ∈ ts, t.Ok) (hlo : LastOnly (fun t : HSet => t.se.isSome) ts) :
    hwalk .inGs (flatSets ts) = some (endSets ts) ∧ (endSets ts = .inGs ∨ endSets ts = .inSt) := by
  -- members that are not `Ok` do not occur: replace the step hypothesis by a guarded one
  have key : ∀ xs : List HSet, (∀ t ∈ xs, t.Ok) → LastOnly (fun t : HSet => t.se.isSome) xs →
      hwalk .inGs (flatAll HSet.flat xs) = some (endSets xs) := by
    intro xs
    induction xs with
    | nil => intro _ _; rfl
    | cons x r ih =>
      intro hok hlo
      cases r with
      | nil => simpa [flatAll, endSets] using set_walk x (hok x (by simp))
      | cons y r' =>
        obtain ⟨hx, hr⟩ := hlo
        have h1 : hwalk .inGs x.flat = some .inGs := by rw [set_walk x (hok x (by simp)), if_pos hx]
        have h2 := ih (fun t ht => hok t (by simp [ht])) hr
        simp only [flatAll, endSets] at h2 ⊢
        rw [List.getLast?_cons_cons]
        exact hwalk_append h1 h2
  refine ⟨key ts hok hlo, ?_⟩
  unfold endSets
  split
  · exact Or.inl rfl
  · split
    · exact Or.inl rfl
    · exact Or.inr rfl

def endGroup (g : HGroup) : Level := endSets g.sets

theorem group_walk (g : HGroup) (h : g.Ok) :
    hwalk .inIsa g.flat = some (if g.ge.isSome = true then .inIsa else endGroup g) := by
  obtain ⟨h1, h2, h3, h4⟩ := h
  have hgs : hwalk .inIsa [g.gs] = some .inGs := by simp [hwalk, histStep, h1]
  obtain ⟨hsets, hend⟩ := sets_walk g.sets h2 h3
  unfold HGroup.flat
  cases hge : g.ge with
  | none =>
    simp only [optSeg, List.append_nil, Option.isSome_none, Bool.false_eq_true, if_false, endGroup]
    exact hwalk_append hgs hsets
  | some s =>
    have hid := h4 s hge
    have hs : hwalk (endSets g.sets) [s] = some .inIsa := by
      have e1 : idGE ≠ idST := by decide
      have e2 : idGE ≠ idSE := by decide
      rcases hend with e | e <;> simp [e, hwalk, histStep, hid, e1, e2]
    simp only [optSeg, Option.isSome_some, if_true]
    exact hwalk_append hgs (hwalk_append hsets hs)

def endGroups (gs : List HGroup) : Level :=
  match gs.getLast? with
  | none => .inIsa
  | some g => if g.ge.isSome = true then .inIsa else endGroup g

theorem groups_walk (gs : List HGroup) (hok : ∀ g ∈ gs, g.Ok) (hlo : LastOnly (fun g : HGroup => g.ge.isSome) gs) :
    hwalk .inIsa (flatGroups gs) = some (endGroups gs) ∧ endGroups gs ≠ .top := by
  have key : ∀ xs : List HGroup, (∀ g ∈ xs, g.Ok) → LastOnly (fun g : HGroup => g.ge.isSome) xs →
      hwalk .inIsa (flatAll HGroup.flat xs) = some (endGroups xs) := by
    intro xs
    induction xs with
    | nil => intro _ _; rfl
    | cons x r ih =>
      intro hok hlo
      cases r with
      | nil => simpa [flatAll, endGroups] using group_walk x (hok x (by simp))
      | cons y r' =>
        obtain ⟨hx, hr⟩ := hlo
        have h1 : hwalk .inIsa x.flat = some .inIsa := by rw [group_walk x (hok x (by simp)), if_pos hx]
        have h2 := ih (fun t ht => hok t (by simp [ht])) hr
        simp only [flatAll, endGroups] at h2 ⊢
        rw [List.getLast?_cons_cons]
        exact hwalk_append h1 h2
  refine ⟨key gs hok hlo, ?_⟩
  unfold endGroups
  split
  · decide
  · rename_i g hg
    split
    · decide
    · have hgm : g ∈ gs := List.mem_of_getLast? hg
      obtain ⟨_, h2, h3, _⟩ := hok g hgm
      rcases (sets_walk g.sets h2 h3).2 with e | e <;> simp [endGroup, e]

theorem inter_walk (i : HInter) (h : i.Ok) :
    hwalk .top i.flat = some (if i.iea.isSome = true then .top else endGroups i.groups) := by
  obtain ⟨h1, h2, h3, h4⟩ := h
  have hisa : hwalk .top [i.isa] = some .inIsa := by simp [hwalk, histStep, h1]
  obtain ⟨hgroups, hend⟩ := groups_walk i.groups h2 h3
  unfold HInter.flat
  cases hiea : i.iea with
  | none =>
    simp only [optSeg, List.append_nil, Option.isSome_none, Bool.false_eq_true, if_false]
    exact hwalk_append hisa hgroups
  | some s =>
    have hid := h4 s hiea
    have hs : hwalk (endGroups i.groups) [s] = some .top := by
      have e1 : idIEA ≠ idGS := by decide
      have e2 : idIEA ≠ idST := by decide
      have e3 : idIEA ≠ idGE := by decide
      have e4 : idIEA ≠ idSE := by decide
      cases he : endGroups i.groups with
      | top => exact absurd he hend
      | inIsa => simp [hwalk, histStep, hid, e1]
      | inGs => simp [hwalk, histStep, hid, e2, e3]
      | inSt => simp [hwalk, histStep, hid, e3, e4]
    simp only [optSeg, Option.isSome_some, if_true]
    exact hwalk_append hisa (hwalk_append hgroups hs)

/-- every history the grammar generates (structured form, trailers omitted only where the omission rule allows) is
accepted by the automaton the theorems quantify over -/
theorem grammar_wellNested (h : List HInter) (hok : HistOk h) : wellNested (flatInters h) = true := by
  obtain ⟨h1, h2⟩ := hok
  have key : ∀ xs : List HInter, (∀ i ∈ xs, i.Ok) → LastOnly (fun i : HInter => i.iea.isSome) xs →
      ∃ l, hwalk .top (flatAll HInter.flat xs) = some l := by
    intro xs
    induction xs with
    | nil => intro _ _; exact ⟨_, rfl⟩
    | cons x r ih =>
      intro hok hlo
      cases r with
      | nil => exact ⟨_, by simpa [flatAll] using inter_walk x (hok x (by simp))⟩
      | cons y r' =>
        obtain ⟨hx, hr⟩ := hlo
        have h1 : hwalk .top x.flat = some .top := by rw [inter_walk x (hok x (by simp)), if_pos hx]
        obtain ⟨l, h2⟩ := ih (fun t ht => hok t (by simp [ht])) hr
        exact ⟨l, by simp only [flatAll] at h2 ⊢; exact hwalk_append h1 h2⟩
  obtain ⟨l, hl⟩ := key h h1 h2
  exact wellNested_of_hwalk hl

end Pyx12Verif.Writer
