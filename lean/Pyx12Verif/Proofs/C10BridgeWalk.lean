/-
C10 bridge, walker side: `walk_pos_monotone`.

Inside one loop instance the map nodes the walker matches have non-decreasing positions: when `walk` returns a node
WITHOUT opening a loop (`pushes = []`: the segment is placed into a loop instance that is already open), the position of
that node is at least the position of the node last placed in that instance — the start node itself when nothing is
closed, else the child loop that was closed last (`Ctx.popRun … = some (_, lastC)`, `lastC ≤ pos`).  A repeat of the loop's
first segment is reported with `pushes ≠ []` (it starts a new instance) and is covered by `StepFacts` (`lastC ≤` position of
the first pushed loop).

No hypothesis on the map, the counters or the data: the scan of `walk` skips children with `pos < fromPos`
(`scan_found`), and `fromPos` is the position handed down by the `while True` (`Acc.pop`).
-/
import Pyx12Verif.Proofs.CtxFound
import Pyx12Verif.Proofs.C10BridgeCtx

namespace Pyx12Verif.CtxWalk
open Pyx12Verif.MapSkel Pyx12Verif.Walker Pyx12Verif.WalkerGen

/-- the positional fact about one walker answer -/
def SegPos (root : List Node) (L : List Nat) (curPos : Nat) (n : List Nat) (pops pushes : List (List Nat)) : Prop :=
  pushes = [] → ∃ P lastC, Ctx.popRun (stackAt root L) curPos (cvPops root pops) = some (stackAt root P, lastC) ∧
    lastC ≤ posAt root n

theorem found_pos {K : Consts} {s : SegData} {root : List Node} {L : List Nat} {curPos : Nat} {lip : List Nat}
    {ch : List Node} (hch : chAt root lip = some ch) {loopNode : Option Node} {loopNid origLoop : NodeId}
    {fromPos : Nat} {pops : List (List Nat)} (acc : Acc K s root L curPos lip fromPos pops) {lkey : PathKey} {st : WState}
    {r : WalkResult} {n : List Nat}
    (h : scanChildren K s lip lkey loopNode loopNid origLoop fromPos pops 0 st ch = .found r) (hn : r.node = some n) :
    SegPos root L curPos n r.pops r.pushes := by
  intro hpu
  rcases scan_found lip lkey loopNode loopNid origLoop fromPos pops ch 0 st r n h hn with
    ⟨j, c, hc, hseg, hm, hpos, hS | hM⟩ | ⟨j, c, d, hc, hns, hpos, hlm, hg, hnn, hpops, hpushes⟩
  · obtain ⟨ln, d, _, _, _, _, hcase⟩ := hS
    rcases hcase with ⟨_, _, hpushes⟩ | ⟨_, _, hpushes⟩
    · rw [hpushes] at hpu; cases hpu
    · obtain ⟨t, ht⟩ := chain_head lip d
      rw [hpushes, ht] at hpu; cases hpu
  · obtain ⟨_, hnn, hpops, _⟩ := hM
    simp only [Nat.zero_add] at hnn
    refine ⟨lip, fromPos, by rw [hpops]; exact acc.pop, ?_⟩
    rw [hnn, posAt_snoc hch hc]
    omega
  · obtain ⟨t, ht⟩ := chain_head (lip ++ [0 + j]) d
    rw [hpushes, ht] at hpu; cases hpu

theorem walkUp_pos {K : Consts} {s : SegData} {root : List Node} {rootId : Nat} {L : List Nat}
    (hL : ∃ chL, chAt root L = some chL) {curPos : Nat} {orig : List Nat} :
    ∀ (k : Nat) (lip : List Nat) (fromPos : Nat) (pops : List (List Nat)) (st : WState), lip.length = k →
      Acc K s root L curPos lip fromPos pops → ∀ (r : WalkResult) (n : List Nat),
      walkUp K root rootId s (idAt root L, idAt root L.dropLast) orig lip.reverse fromPos pops st = r →
      r.node = some n → SegPos root L curPos n r.pops r.pushes := by
  intro k
  induction k with
  | zero =>
    intro lip fromPos pops st hlen acc r n hw hn
    have hnil : lip = [] := List.eq_nil_of_length_eq_zero hlen
    subst hnil
    simp only [List.reverse_nil] at hw
    rw [walkUp_root] at hw
    cases hsc : scanChildren K s [] [] none (rootId, 0) (idAt root L, idAt root L.dropLast) fromPos pops 0 st root with
    | found r' =>
      rw [hsc] at hw; simp only at hw; subst hw
      exact found_pos (lip := []) rfl acc hsc hn
    | notHere st' =>
      rw [hsc] at hw; simp only at hw; subst hw
      simp at hn
  | succ k ih =>
    intro lip fromPos pops st hlen acc r n hw hn
    have hne : lip ≠ [] := by intro e; subst e; simp at hlen
    obtain ⟨p, a, rfl⟩ : ∃ p a, lip = p ++ [a] := ⟨lip.dropLast, lip.getLast hne, (List.dropLast_concat_getLast hne).symm⟩
    obtain ⟨chL, hchL⟩ := hL
    obtain ⟨ch, hch⟩ := chAt_prefix hchL acc.pre
    obtain ⟨pch, l, pos, u, rp, w, hpch, hai, hwu⟩ := walkUp_level' (K := K) (rootId := rootId) (s := s)
      (origLoop := (idAt root L, idAt root L.dropLast)) (orig := orig) hch fromPos pops st
    rw [hwu] at hw
    cases hsc : scanChildren K s (p ++ [a]) (keyAt root (p ++ [a])) (some (.loop l pos u rp w ch)) (l, idAt root p)
        (idAt root L, idAt root L.dropLast) fromPos pops 0 st ch with
    | found r' =>
      rw [hsc] at hw; simp only at hw; subst hw
      exact found_pos hch acc hsc hn
    | notHere st' =>
      rw [hsc] at hw; simp only at hw
      have hplen : p.length = k := by simp at hlen; omega
      refine ih p pos (pops ++ [p ++ [a]]) st' hplen ?_ r n hw hn
      have hpL : p <+: L := List.IsPrefix.trans (List.prefix_append _ _) acc.pre
      refine ⟨hpL, ?_, ?_, ?_, ?_⟩
      · have := acc.len; simp at this ⊢; omega
      · rw [cvPops_append, popRun_append, acc.pop]
        simp only [cvPops, List.map_cons, List.map_nil]
        rw [popRun_one hpch hai]; simp [Ctx.popRun, Node.pos]
      · intro _
        exact ⟨a, acc.pre, by rw [posAt_snoc hpch hai]; rfl⟩
      · intro h2
        by_cases h3 : 2 ≤ pops.length
        · exact acc.re h3
        · have hp1 : pops.length = 1 := by simp at h2; omega
          have hlL : p ++ [a] ≠ L := by
            intro e
            have := acc.len; rw [e] at this; omega
          obtain ⟨iM, hiM, hfrom⟩ := acc.from_ hlL
          have heq : p ++ [a] ++ [iM] = L := by
            apply prefix_eq_of_length hiM
            have := acc.len; simp at this ⊢; omega
          rw [← heq] at hchL
          obtain ⟨ch', lM, pM, uM, rM, wM, hch', hcM, hnM⟩ := nodeAt_of_chAt hchL
          rw [hch] at hch'; simp only [Option.some.injEq] at hch'; subst hch'
          refine ⟨_, by rw [← heq]; exact hnM, ?_⟩
          apply scan_notHere _ _ _ _ _ _ _ _ _ _ _ hsc iM _ hcM rfl
          rw [hfrom, posAt_snoc hch hcM]; simp [Node.pos]

/-- **`walk_pos_monotone`**: within one loop instance, successive matched nodes have non-decreasing `pos` -/
theorem walk_pos_monotone {K : Consts} {s : SegData} {root : List Node} {rootId : Nat} {cur : List Nat}
    (hcur : SegAt root cur) (cnt : Counter) {n : List Nat} (h : (walk K root rootId cnt cur s).node = some n) :
    SegPos root cur.dropLast (posAt root cur) n (walk K root rootId cnt cur s).pops (walk K root rootId cnt cur s).pushes := by
  obtain ⟨L, i, ch, c, rfl, hch, hc, hseg⟩ := hcur
  have hnode : nodeAt root (L ++ [i]) = some c := by rw [nodeAt_snoc hch]; exact hc
  have hdl : (L ++ [i]).dropLast = L := by simp
  have hw : walk K root rootId cnt (L ++ [i]) s =
      walkUp K root rootId s (idAt root L, idAt root L.dropLast) (L ++ [i]) L.reverse c.pos []
        { cnt := cnt, pending := [], errs := [] } := by
    simp only [walk, hnode, hdl]
  rw [hdl]
  refine walkUp_pos ⟨ch, hch⟩ L.length L c.pos [] _ rfl ?_ _ n hw.symm h
  refine ⟨List.prefix_refl _, by simp, ?_, fun e => absurd rfl e, fun e => by simp at e⟩
  simp [cvPops, Ctx.popRun, posAt, hnode]

/-- the reader's monotonicity check accepts every answer of the walker -/
theorem step_mono {root : List Node} {L : List Nat} {curPos : Nat} {n : List Nat} {pops pushes : List (List Nat)}
    (hf : StepFacts root L curPos n pops pushes) (hp : SegPos root L curPos n pops pushes) (si : Ctx.SegInfo) :
    Ctx.segMonoOk { open_ := stackAt root L, last := curPos } (answerOf root si n pops pushes) = true := by
  obtain ⟨P, nd, lastC, i, ch, c, hpop, hpush, hn, hloop, hch, hc, hseg, hi1, hi2, hlen, hpos, htr⟩ := hf
  subst hn
  have hgl : (nd ++ [i]).getLast? = some i := by simp
  have hfirst : (answerOf root si (nd ++ [i]) pops pushes).first = decide (i = 0) := by
    simp only [answerOf, hgl]
    by_cases h0 : i = 0 <;> simp [h0]
  have hemp : (answerOf root si (nd ++ [i]) pops pushes).pushes.isEmpty = decide (pushes = []) := by
    simp only [answerOf, cvPushes]
    cases pushes <;> simp
  have himp : Ctx.implicitOpen (answerOf root si (nd ++ [i]) pops pushes) = false := by
    simp only [Ctx.implicitOpen, hfirst, hemp, Bool.and_eq_false_iff, decide_eq_false_iff_not]
    by_cases hp : pushes = []
    · left; exact hi1 hp
    · right; exact hp
  have hep : ∀ cur, Ctx.effPops cur (answerOf root si (nd ++ [i]) pops pushes) = cvPops root pops := by
    intro cur; unfold Ctx.effPops; rw [himp]; simp [answerOf]
  have hepu : Ctx.effPushes (answerOf root si (nd ++ [i]) pops pushes) = cvPushes root pushes := by
    unfold Ctx.effPushes; rw [himp]; simp [answerOf]
  simp only [Ctx.segMonoOk, hep, hepu, hpop]
  by_cases hpe : pushes = []
  · obtain ⟨P', lastC', hpop', hle⟩ := hp hpe
    rw [hpop] at hpop'
    simp only [Option.some.injEq, Prod.mk.injEq] at hpop'
    rw [← hpop'.2] at hle
    simp [hpe, cvPushes, answerOf, hle]
  · cases pushes with
    | nil => exact absurd rfl hpe
    | cons p0 rest => simp [cvPushes]

/-- … and the answer made up for a segment that is not found (the previous node once more, nothing popped or pushed) -/
theorem notfound_mono (root : List Node) (cur : List Nat) (si : Ctx.SegInfo) :
    Ctx.segMonoOk { open_ := stackAt root cur.dropLast, last := posAt root cur } (answerOf root si cur [] []) = true := by
  unfold Ctx.segMonoOk
  by_cases hi : Ctx.implicitOpen (answerOf root si cur [] []) = true
  · have hepu : Ctx.effPushes (answerOf root si cur [] []) ≠ [] := by simp [Ctx.effPushes, hi]
    cases hpop : Ctx.popRun (stackAt root cur.dropLast) (posAt root cur)
        (Ctx.effPops (Ctx.pathOf (stackAt root cur.dropLast)) (answerOf root si cur [] [])) with
    | none => rfl
    | some x =>
      simp only [Bool.or_eq_true, Bool.not_eq_true', decide_eq_true_eq]
      left
      cases hh : Ctx.effPushes (answerOf root si cur [] []) with
      | nil => exact absurd hh hepu
      | cons _ _ => rfl
  · have hi' : Ctx.implicitOpen (answerOf root si cur [] []) = false := by simpa using hi
    have hepo : ∀ p, Ctx.effPops p (answerOf root si cur [] []) = [] := by
      intro p; unfold Ctx.effPops; rw [hi']; simp [answerOf, cvPops]
    rw [hepo]
    simp [Ctx.popRun, answerOf]

/-- **any run** of the walker model, found or not, conformant or not, passes the reader's monotonicity check -/
theorem run_mono_any {K : Consts} {root : List Node} {rootId : Nat} (hs : Static2 K root) (hwf : WFAt root) {lid : Option Nat}
    (hlid : LidOK? root lid) (si : Nat → Ctx.SegInfo) : ∀ (emits : List Emit) (k : Nat) (cnt : Counter) (cur : List Nat),
    SegAt root cur →
    Ctx.monoFrom lid { open_ := stackAt root cur.dropLast, last := posAt root cur }
      (walkAnswers K root rootId si k cnt cur emits) = true
  | [], _, _, _, _ => by simp [walkAnswers, Ctx.monoFrom]
  | e :: r, k, cnt, cur, hcur => by
    cases hnode : (walk K root rootId cnt cur e.2).node with
    | some n =>
      have hf := walk_facts2 hs hcur cnt hnode
      have hp := walk_pos_monotone hcur cnt hnode
      simp only [walkAnswers, hnode, Ctx.monoFrom]
      rw [step_consistent hwf hlid (segAt_dropLast hcur) hf (si k)]
      simp only [Bool.and_eq_true]
      exact ⟨step_mono hf hp (si k), run_mono_any hs hwf hlid si r (k + 1) _ n (segAt_of_facts hf)⟩
    | none =>
      simp only [walkAnswers, hnode, Ctx.monoFrom]
      rw [notfound_step hs hwf hlid hcur (si k)]
      simp only [Bool.and_eq_true]
      exact ⟨notfound_mono root cur (si k), run_mono_any hs hwf hlid si r (k + 1) _ cur hcur⟩

end Pyx12Verif.CtxWalk
