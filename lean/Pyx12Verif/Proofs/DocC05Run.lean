/-
C05 at pipeline level, document side (3): the WHOLE loop.

  `Trace`            the rounds of `runSegs`, one `stepSeg` each;
  `runSegs_trace`    however the loop ends, what it has handed to the error handler is the events of a trace over a
                     prefix of the yielded segments; when it runs to the end, the handler accepted them all;
  `Trace.noEle`      `valid` still true ⇒ no `ele_error` was called, in any round (any maps);
  `Trace.valid`      … and conversely when the format lists of the maps are supported (`MapsTlOk`);
  `Trace.fresh`      every `ele_error` found a prepared element node (`MapsFresh`);
  `validateDoc_verdict`   what a run that ends with a verdict consists of.
-/
import Pyx12Verif.Proofs.DocC05Round
import Pyx12Verif.Proofs.DocSharpStop

namespace Pyx12Verif.Doc
open Pyx12Verif DocC05

/-- the rounds of the loop -/
inductive Trace (ms : Maps) (ctx : Ctx) (control : MapX) (d : Delims) :
    LState → List (List SegText.RErr × Seg) → List SegOut → LState → Prop
  | nil (st : LState) : Trace ms ctx control d st [] [] st
  | cons (st st1 st2 : LState) (p : List SegText.RErr × Seg) (ps : List (List SegText.RErr × Seg)) (o : SegOut)
      (outs : List SegOut) : stepSeg ms ctx control d p.1 p.2 st = .next st1 o → Trace ms ctx control d st1 ps outs st2 →
      Trace ms ctx control d st (p :: ps) (o :: outs) st2

def evsOf (outs : List SegOut) : List Event := (outs.map (fun o => o.events)).flatten

theorem evsOf_cons (o : SegOut) (r : List SegOut) : evsOf (o :: r) = o.events ++ evsOf r := rfl
theorem evsOf_append (a b : List SegOut) : evsOf (a ++ b) = evsOf a ++ evsOf b := by simp [evsOf]

def LoopEnd.acc : LoopEnd → Acc
  | .done a => a
  | .stopped _ a => a

theorem Trace.snoc {ms : Maps} {ctx : Ctx} {control : MapX} {d : Delims} {st st1 st2 : LState}
    {ps : List (List SegText.RErr × Seg)} {outs : List SegOut} {p : List SegText.RErr × Seg} {o : SegOut}
    (h : Trace ms ctx control d st ps outs st1) (hs : stepSeg ms ctx control d p.1 p.2 st1 = .next st2 o) :
    Trace ms ctx control d st (ps ++ [p]) (outs ++ [o]) st2 := by
  induction h with
  | nil st => exact .cons _ _ _ _ _ _ _ hs (.nil _)
  | cons st st1' st2' p' ps' o' outs' hs' _ ih => exact .cons _ _ _ _ _ _ _ hs' (ih hs)

/-- what the loop has done when it ends, however it ends -/
theorem runSegs_trace (ms : Maps) (ctx : Ctx) (control : MapX) (d : Delims) :
    ∀ (ps : List (List SegText.RErr × Seg)) (a : Acc),
      ∃ ps1 ps2 outs st, ps = ps1 ++ ps2 ∧ Trace ms ctx control d a.st ps1 outs st ∧
        (runSegs ms ctx control d a ps).acc.outs = a.outs ++ outs ∧
        (runSegs ms ctx control d a ps).acc.events = a.events ++ evsOf outs ∧
        (∀ a', runSegs ms ctx control d a ps = .done a' →
          ps2 = [] ∧ a'.st = st ∧ ErrTree.run a.est (evsOf outs) = .ok a'.est) := by
  intro ps
  induction ps with
  | nil =>
    intro a
    refine ⟨[], [], [], a.st, rfl, .nil _, by simp [runSegs, LoopEnd.acc], by simp [runSegs, LoopEnd.acc, evsOf], ?_⟩
    intro a' h
    simp only [runSegs, LoopEnd.done.injEq] at h
    subst h
    exact ⟨rfl, rfl, rfl⟩
  | cons p ps ih =>
    intro a
    simp only [runSegs]
    cases hs : stepSeg ms ctx control d p.1 p.2 a.st with
    | stop o =>
      refine ⟨[], p :: ps, [], a.st, rfl, .nil _, by simp [LoopEnd.acc], by simp [LoopEnd.acc, evsOf], ?_⟩
      intro a' h; cases h
    | next st out =>
      simp only
      cases hr : ErrTree.run a.est out.events with
      | crash site =>
        refine ⟨[p], ps, [out], st, rfl, .cons _ _ _ _ _ _ _ hs (.nil _), by simp [LoopEnd.acc, pushOut],
          by simp [LoopEnd.acc, pushOut, evsOf], ?_⟩
        intro a' h; cases h
      | ok est =>
        obtain ⟨ps1, ps2, outs, st', e1, e2, e3, e4, e5⟩ := ih (pushOut a st est out)
        refine ⟨p :: ps1, ps2, out :: outs, st', by rw [e1]; rfl, .cons _ _ _ _ _ _ _ hs e2, ?_, ?_, ?_⟩
        · rw [e3]; simp [pushOut]
        · rw [e4]; simp [pushOut, evsOf]
        · intro a' h
          obtain ⟨f1, f2, f3⟩ := e5 a' h
          refine ⟨f1, f2, ?_⟩
          rw [evsOf_cons, run_append, hr]
          exact f3

/-! ### invariants of a trace -/

def MapsTlOk (ms : Maps) : Prop := ∀ m ∈ ms.maps, ∀ p ∈ m.defs, SegTlOk p.2
def MapsFresh (ms : Maps) : Prop := ∀ m ∈ ms.maps, ∀ p ∈ m.defs, SegFresh p.2

theorem lookupDef_memX {m : MapX} {ip : List Nat} {sd : SegDef} (h : lookupDef m ip = some sd) :
    ∃ p ∈ m.defs, p.2 = sd := by
  unfold lookupDef at h
  split at h
  · rename_i p hp
    injection h with h
    exact ⟨p, List.mem_of_find?_eq_some hp, h⟩
  · cases h

theorem walkOnly_noEle {w : List Event} (h : WalkOnly w) : NoEle w := by
  intro e he
  have := h e he
  cases e <;> simp_all [isWalk, evEleError]

theorem rdOnly_noEle {w : List Event} (h : RdOnly w) : NoEle w := by
  intro e he
  have := h e he
  cases e <;> simp_all [isRd, evEleError]

theorem midX_noEle {d : Delims} {s : Seg} {rs : Envelope.RState} {pops mid : List Event} (h : MidX d s rs pops mid)
    (hp : RdOnly pops) : NoEle mid := by
  have hp' := rdOnly_noEle hp
  cases h <;> intro e he <;> simp only [List.mem_cons, List.mem_append, List.mem_nil_iff, or_false] at he
  all_goals
    rcases he with he | he
    · first
      | (subst he; rfl)
      | exact hp' e he
    · first
      | (subst he; rfl)
      | exact hp' e he

theorem Trace.ok {ms : Maps} {ctx : Ctx} {control : MapX} {d : Delims} {st st' : LState}
    {ps : List (List SegText.RErr × Seg)} {outs : List SegOut} (h : Trace ms ctx control d st ps outs st')
    (hc : control ∈ ms.maps) (hst : st.Ok ms) : st'.Ok ms := by
  induction h with
  | nil st => exact hst
  | cons st st1 st2 p ps o outs hs _ ih =>
    obtain ⟨_, _, _, _, _, _, _, hok, _⟩ := stepSeg_full ms ctx control d p.1 p.2 st st1 o hs
    exact ih (hok hst hc)

/-- `valid` still true at the end ⇒ it was true at the start and no round called `ele_error` -/
theorem Trace.noEle {ms : Maps} {ctx : Ctx} {control : MapX} {d : Delims} {st st' : LState}
    {ps : List (List SegText.RErr × Seg)} {outs : List SegOut} (h : Trace ms ctx control d st ps outs st')
    (hv : st'.valid = true) : st.valid = true ∧ NoEle (evsOf outs) := by
  induction h with
  | nil st => exact ⟨hv, NoEle.nil⟩
  | cons st st1 st2 p ps o outs hs _ ih =>
    obtain ⟨h1, h2⟩ := ih hv
    obtain ⟨v, rs', es, _, _, _, _, _, hcase⟩ := stepSeg_full ms ctx control d p.1 p.2 st st1 o hs
    rw [evsOf_cons]
    rcases hcase with ⟨_, hw, hval, _⟩ | ⟨_, w, mid, tl, vv, n, sd, hev, hw, hm, _, hse, _, hval, _⟩
    · exact ⟨hval ▸ h1, (walkOnly_noEle hw).append h2⟩
    · rw [hval] at h1
      simp only [Bool.and_eq_true] at h1
      obtain ⟨a, rfl⟩ := h1
      refine ⟨a, ?_⟩
      rw [hev]
      exact (((walkOnly_noEle hw).append (midX_noEle hm (map_rdEvent_rdOnly _))).append
        (segEvents_sound ctx _ d sd p.2 tl hse)).append h2

/-- conversely, with supported format lists -/
theorem Trace.valid {ms : Maps} {ctx : Ctx} {control : MapX} {d : Delims} {st st' : LState}
    {ps : List (List SegText.RErr × Seg)} {outs : List SegOut} (h : Trace ms ctx control d st ps outs st')
    (htl : MapsTlOk ms) (hc : control ∈ ms.maps) (hst : st.Ok ms) (hv : st.valid = true) (hn : NoEle (evsOf outs)) :
    st'.valid = true := by
  induction h with
  | nil st => exact hv
  | cons st st1 st2 p ps o outs hs _ ih =>
    obtain ⟨v, rs', es, _, _, _, _, hok, hcase⟩ := stepSeg_full ms ctx control d p.1 p.2 st st1 o hs
    rw [evsOf_cons] at hn
    refine ih (hok hst hc) ?_ hn.right
    rcases hcase with ⟨_, _, hval, _⟩ | ⟨_, w, mid, tl, vv, n, sd, hev, _, _, hl, hse, hmem, hval, _⟩
    · rw [hval]; exact hv
    · rw [hval, hv, Bool.true_and]
      obtain ⟨q, hq, rfl⟩ := lookupDef_memX hl
      have hc' := segEvents_compl ctx n.map.v5010 d q.2 p.2 (htl n.map (hmem hst hc) q hq) vv tl hse
      apply hc'
      have := hn.left
      rw [hev] at this
      exact this.right

/-- every `ele_error` of every round finds an element node prepared in that round -/
theorem Trace.fresh {ms : Maps} {ctx : Ctx} {control : MapX} {d : Delims} {st st' : LState}
    {ps : List (List SegText.RErr × Seg)} {outs : List SegOut} (h : Trace ms ctx control d st ps outs st')
    (hf : MapsFresh ms) (hc : control ∈ ms.maps) (hst : st.Ok ms) (f : Bool) : eleFresh f (evsOf outs) = true := by
  induction h generalizing f with
  | nil st => rfl
  | cons st st1 st2 p ps o outs hs _ ih =>
    obtain ⟨v, rs', es, _, _, _, _, hok, hcase⟩ := stepSeg_full ms ctx control d p.1 p.2 st st1 o hs
    rw [evsOf_cons, eleFresh_append, ih (hok hst hc), Bool.and_true]
    rcases hcase with ⟨_, hw, _, _⟩ | ⟨_, w, mid, tl, vv, n, sd, hev, hw, hm, hl, hse, hmem, _, _⟩
    · exact eleFresh_of_noEle _ _ (walkOnly_noEle hw)
    · rw [hev]
      obtain ⟨q, hq, rfl⟩ := lookupDef_memX hl
      apply eleFresh_append_of
      · exact eleFresh_of_noEle _ _ ((walkOnly_noEle hw).append (midX_noEle hm (map_rdEvent_rdOnly _)))
      · exact segEvents_headed ctx n.map.v5010 d q.2 p.2 (hf n.map (hmem hst hc) q hq) vv tl hse

/-! ### a run that ends with a verdict -/

theorem validateDoc_verdict (ms : Maps) (ctx : Ctx) (text : List Char) (b : Bool)
    (h : (validateDoc ms ctx text).outcome = .verdict b) :
    ∃ hd rr control a est, SegText.readAll { rest := text, sizes := [] } = .ok hd rr ∧
      findMap ms (controlFile hd) = some control ∧
      runSegs ms ctx control (SegText.delimsOf hd) (initAcc ms control) rr.segs = .done a ∧
      ErrTree.run a.est ((finalErrs rr a.st).map rdEvent) = .ok est ∧
      validateDoc ms ctx text =
        { outcome := .verdict (ErrTree.verdict a.st.valid est.tree), segs := a.outs,
          events := a.events ++ (finalErrs rr a.st).map rdEvent, final := est, ackKind := ackKind a.st } := by
  unfold validateDoc at h ⊢
  cases hr : SegText.readAll { rest := text, sizes := [] } with
  | error e => rw [hr] at h; cases h
  | ok hd rr =>
    rw [hr] at h
    simp only at h ⊢
    unfold validateRead at h ⊢
    cases hm : findMap ms (controlFile hd) with
    | none => rw [hm] at h; cases h
    | some control =>
      rw [hm] at h
      simp only at h ⊢
      cases hl : runSegs ms ctx control (SegText.delimsOf hd) (initAcc ms control) rr.segs with
      | stopped o a =>
        rw [hl] at h
        simp only [finish] at h
        -- a stopped loop never yields a verdict
        exfalso
        revert h
        have := runSegs_trace ms ctx control (SegText.delimsOf hd) rr.segs (initAcc ms control)
        clear this
        intro h
        -- `o` comes from `stepSeg … = .stop o` or from a handler crash: neither is a verdict
        have hno : ∀ (ps : List (List SegText.RErr × Seg)) (a0 : Acc) (o' : Outcome) (a' : Acc),
            runSegs ms ctx control (SegText.delimsOf hd) a0 ps = .stopped o' a' → ∀ b', o' ≠ .verdict b' := by
          intro ps
          induction ps with
          | nil => intro a0 o' a' e; cases e
          | cons p ps ih =>
            intro a0 o' a' e b'
            simp only [runSegs] at e
            cases hs : stepSeg ms ctx control (SegText.delimsOf hd) p.1 p.2 a0.st with
            | stop o2 =>
              rw [hs] at e
              simp only [LoopEnd.stopped.injEq] at e
              obtain ⟨rfl, _⟩ := e
              intro hv
              subst hv
              -- `stepSeg` never stops with a verdict
              unfold stepSeg withView at hs
              cases hv' : Pipeline.viewOf (SegText.delimsOf hd) p.2 with
              | none => rw [hv'] at hs; cases hs
              | some v =>
                rw [hv'] at hs
                simp only at hs
                cases hr' : Envelope.step Envelope.Fixes.all a0.st.rs v with
                | crash e' => rw [hr'] at hs; cases hs
                | raised => rw [hr'] at hs; cases hs
                | ok r =>
                  rw [hr'] at hs
                  simp only [afterReader, afterStep] at hs
                  cases hf : findNode ms control (SegText.delimsOf hd) p.2 r.1.segCount
                      { a0.st with rs := r.1,
                                   pend := a0.st.pend ++ p.1.map lineErr ++ baseErrs p.2 ++ r.2.map envErr } with
                  | crash site => rw [hf] at hs; cases hs
                  | res n cnt evs =>
                    rw [hf] at hs
                    cases n with
                    | none => cases hs
                    | some nd =>
                      simp only [afterFind] at hs
                      cases hb : branch ms (SegText.delimsOf hd) p.2
                          { a0.st with rs := r.1,
                                       pend := a0.st.pend ++ p.1.map lineErr ++ baseErrs p.2 ++ r.2.map envErr,
                                       cnt := cnt } nd with
                      | stop o3 =>
                        rw [hb] at hs
                        simp only [validate, Step.stop.injEq] at hs
                        subst hs
                        have := branch_stop ms (SegText.delimsOf hd) p.2 _ nd _ hb
                        -- `branch` stops with mapNotFound / mapLoadFailed / nodeNone only
                        unfold branch at hb
                        repeat' split at hb
                        all_goals first
                          | cases hb
                          | (unfold gsBranch at hb
                             repeat' split at hb
                             all_goals first
                               | cases hb
                               | (unfold withNewMap at hb; repeat' split at hb
                                  all_goals first
                                    | cases hb
                                    | (unfold gsTail at hb; repeat' split at hb; all_goals cases hb))
                               | (unfold gsTail at hb; repeat' split at hb; all_goals cases hb))
                          | (unfold bhtBranch at hb
                             repeat' split at hb
                             all_goals first
                               | cases hb
                               | (unfold withNewMap at hb; repeat' split at hb
                                  all_goals first
                                    | cases hb
                                    | (unfold bhtSwitch at hb; repeat' split at hb; all_goals cases hb))
                               | (unfold plainTail at hb; cases hb))
                          | (unfold plainTail at hb; cases hb)
                      | go st2 n2 evs2 =>
                        rw [hb] at hs
                        simp only [validate] at hs
                        repeat' split at hs
                        all_goals cases hs
            | next st out =>
              rw [hs] at e
              simp only at e
              cases hrr : ErrTree.run a0.est out.events with
              | crash site =>
                rw [hrr] at e
                simp only [LoopEnd.stopped.injEq] at e
                obtain ⟨rfl, _⟩ := e
                intro hv; cases hv
              | ok est' =>
                rw [hrr] at e
                exact ih _ o' a' e b'
        exact hno rr.segs (initAcc ms control) o a hl b h
      | done a =>
        rw [hl] at h
        simp only [finish] at h ⊢
        split at h
        · cases h
        · rename_i hcr
          simp only [hcr]
          cases hrun : ErrTree.run a.est (List.map rdEvent (finalErrs rr a.st)) with
          | crash site => rw [hrun] at h; cases h
          | ok est =>
            exact ⟨hd, rr, control, a, est, rfl, hm, hl, hrun, by simp [finishDone]⟩

end Pyx12Verif.Doc
