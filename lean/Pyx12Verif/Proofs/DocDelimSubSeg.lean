/-
C12 at pipeline level, DIFFERENT component separators — one segment seen under the two separators.

* `renEvent a b`: an event with the component separator renamed (`mapComp a b`, Props/DocDelim3.lean) inside EVERY data
  string it carries (envelope fields of `add_isa_loop` / `add_gs_loop` / `add_st_loop`, reported values), everything else
  — message texts included — kept; `EvEq a b`: two event lists with the same renaming.
* `SegRen d₁ d₂ s`: what the loop needs to know about a segment `s` read under `d₁` and under `d₂`:
  `Segment.get_value` at the first fifteen positions returns swapped strings, and `segment_if.is_valid` reports the same
  things (same Boolean, same crash, events equal up to `renEvent`).
* `segRen_plain`: holds for every segment other than ISA whose values contain neither separator (composites printed with
  `a` on one side and with `b` on the other);  `segRen_isa`: holds for an ISA segment (single-valued elements, printed
  alike) whose values other than ISA16 contain neither separator.
-/
import Pyx12Verif.Proofs.DocDelimSubStr
import Pyx12Verif.Proofs.DocDelimSubTree

namespace Pyx12Verif.Doc
open Pyx12Verif

/-! ### events up to the separator -/

/-- the component separator `a` renamed to `b` inside every data string of the event; codes, positions, data-element
    numbers, segment identifiers, counts AND message texts are kept as they are -/
def renEvent (a b : Char) : Event → Event := ErrTree.Event.ren (mapComp a b) id

/-- the same events up to the component separator -/
def EvEq (a b : Char) (e₁ e₂ : List Event) : Prop := e₁.map (renEvent a b) = e₂.map (renEvent a b)

theorem EvEq.refl (a b : Char) (e : List Event) : EvEq a b e e := rfl

theorem EvEq.append {a b : Char} {e₁ e₂ f₁ f₂ : List Event} (h1 : EvEq a b e₁ e₂) (h2 : EvEq a b f₁ f₂) :
    EvEq a b (e₁ ++ f₁) (e₂ ++ f₂) := by
  simp only [EvEq, List.map_append] at *
  rw [h1, h2]

theorem EvEq.cons {a b : Char} {x y : Event} {e₁ e₂ : List Event} (h0 : renEvent a b x = renEvent a b y)
    (h : EvEq a b e₁ e₂) : EvEq a b (x :: e₁) (y :: e₂) := by
  simp only [EvEq, List.map_cons] at *
  rw [h0, h]

/-- the swapped value is the same value up to the separator -/
theorem mapComp_optSw (a b : Char) (o : Option Str) : (o.map (sw a b)).map (mapComp a b) = o.map (mapComp a b) := by
  cases o with
  | none => rfl
  | some v => simp only [Option.map_some, mapComp_sw]

inductive EResRel (a b : Char) : ERes → ERes → Prop
  | crash (s : Site) : EResRel a b (.crash s) (.crash s)
  | ok (v : Bool) {e e' : List Event} : EvEq a b e e' → EResRel a b (.ok v e) (.ok v e')

theorem EResRel.refl (a b : Char) : ∀ r, EResRel a b r r
  | .crash s => .crash s
  | .ok v e => .ok v (EvEq.refl a b e)

theorem EResRel.andThen {a b : Char} {x x' y y' : ERes} (h1 : EResRel a b x x') (h2 : EResRel a b y y') :
    EResRel a b (x.andThen y) (x'.andThen y') := by
  cases h1 with
  | crash s => exact .crash s
  | ok v he =>
    cases h2 with
    | crash s => exact .crash s
    | ok w hf => exact .ok _ (he.append hf)

/-! ### `Segment.get_value` under the two separators -/

def mapGetV (f : Str → Str) : Pipeline.GetV → Pipeline.GetV
  | .absent => .absent
  | .value v => .value (f v)
  | .crash => .crash

theorem optV_mapGetV (f : Str → Str) (g : Pipeline.GetV) : optV (mapGetV f g) = (optV g).map f := by
  cases g <;> rfl

theorem normComp_free {a b : Char} {c : List Str} (h : ∀ v ∈ c, a ∉ v ∧ b ∉ v) :
    ∀ v ∈ SegText.normComp c, a ∉ v ∧ b ∉ v := by
  intro v hv
  rcases SegText.mem_normComp hv with rfl | hv
  · exact ⟨by simp, by simp⟩
  · exact h v hv

/-- a composite whose values contain neither separator: the `b`-print is the swapped `a`-print -/
theorem formatComp_sw (a b : Char) (c : List Str) (hne : c ≠ []) (h : ∀ v ∈ c, a ∉ v ∧ b ∉ v) :
    SegText.formatComp b c = (SegText.formatComp a c).map (sw a b) := by
  rw [SegText.formatComp_eq b c hne, SegText.formatComp_eq a c hne]
  simp only [Option.map_some, sw_joinWith a b _ (normComp_free h)]

/-- a segment other than ISA whose values contain neither separator -/
structure PlainSeg (a b : Char) (s : Seg) : Prop where
  notIsa : s.id ≠ SegText.isaId
  ne : ∀ c ∈ s.elems, c ≠ []
  free : ∀ c ∈ s.elems, ∀ v ∈ c, a ∉ v ∧ b ∉ v

theorem getValue_plain (d₁ d₂ : Delims) {s : Seg} (h : PlainSeg d₁.sub d₂.sub s) (k : Nat) :
    Pipeline.getValue d₂ s k = mapGetV (sw d₁.sub d₂.sub) (Pipeline.getValue d₁ s k) := by
  unfold Pipeline.getValue
  cases hk : s.elems[k]? with
  | none => rfl
  | some c =>
    have hc := List.mem_of_getElem? hk
    simp only [Pipeline.compFormat, Pipeline.sepOf, h.notIsa, if_false,
      formatComp_sw d₁.sub d₂.sub c (h.ne c hc) (h.free c hc)]
    cases SegText.formatComp d₁.sub c <;> rfl

/-! ### `segment_if.is_valid` under the two separators -/

/-- neither separator occurs in a DTP format qualifier -/
def DtpFree (a : Char) : Prop := ∀ t ∈ dtpTypes, a ∉ t

theorem contains_sw {a b : Char} (ha : DtpFree a) (hb : DtpFree b) (v : Str) :
    dtpTypes.contains (sw a b v) = dtpTypes.contains v ∧ (dtpTypes.contains v = true → sw a b v = v) := by
  rcases sw_cases a b v with h | ⟨h1, h2⟩
  · rw [h]; exact ⟨rfl, fun _ => rfl⟩
  · have e1 : dtpTypes.contains v = false := by
      cases hc : dtpTypes.contains v with
      | false => rfl
      | true =>
        have hm : v ∈ dtpTypes := by simpa using hc
        rcases h1 with h | h
        · exact absurd h (ha v hm)
        · exact absurd h (hb v hm)
    have e2 : dtpTypes.contains (sw a b v) = false := by
      cases hc : dtpTypes.contains (sw a b v) with
      | false => rfl
      | true =>
        have hm : sw a b v ∈ dtpTypes := by simpa using hc
        rcases h2 with h | h
        · exact absurd h (ha _ hm)
        · exact absurd h (hb _ hm)
    rw [e1, e2]
    exact ⟨rfl, fun h => by cases h⟩

theorem newDtype_sw {a b : Char} (ha : DtpFree a) (hb : DtpFree b) (sid : Str) (i : Nat) (v : Option Str)
    (dt : List Str) : newDtype sid i (v.map (sw a b)) dt = newDtype sid i v dt := by
  unfold newDtype
  split
  · cases v with
    | none => rfl
    | some x =>
      obtain ⟨e1, e2⟩ := contains_sw ha hb x
      simp only [Option.map_some, e1]
      cases hc : dtpTypes.contains x with
      | false => rfl
      | true => simp only [if_true, e2 hc]
  · rfl

theorem stepDtype_sw {a b : Char} (ha : DtpFree a) (hb : DtpFree b) (sid : Str) (i : Nat) (v : Option Str)
    (dt : List Str) (c : ChildX) : stepDtype sid i (v.map (sw a b)) dt c = stepDtype sid i v dt c := by
  cases c with
  | elem x => exact newDtype_sw ha hb sid i v dt
  | comp u seq nm rd de kids => rfl

theorem elemAt_rel (ctx : Ctx) (v5 : Bool) (a b : Char) (x : ElemX) (tl : List Str) (e : List Str)
    (h : ∀ v ∈ e, a ∉ v ∧ b ∉ v) : EResRel a b (elemAt ctx v5 a x tl e) (elemAt ctx v5 b x tl e) := by
  cases e with
  | nil => exact .crash _
  | cons p r =>
    cases r with
    | nil => exact EResRel.refl a b _
    | cons q r2 =>
      have hf := formatComp_sw a b (p :: q :: r2) (by simp) h
      have ha := SegText.formatComp_eq a (p :: q :: r2) (by simp)
      rw [ha] at hf
      simp only [elemAt, elemIn, ha, hf, Option.map_some, elemEvents, needsLookup, Bool.false_and, Bool.false_eq_true,
        if_false, EIn.toInput, EIn.value, elemReports, List.map_cons, List.map_nil]
      refine .ok _ ?_
      refine EvEq.cons rfl (EvEq.cons ?_ (EvEq.refl a b []))
      simp only [renEvent, Report.event, ErrTree.Event.ren, Option.map_some, mapComp_sw]

theorem childrenEvents_rel (ctx : Ctx) (v5 : Bool) (a b : Char) (sid : Str) (v02 v02' : Option Str)
    (hv : ∀ i dt c, stepDtype sid i v02' dt c = stepDtype sid i v02 dt c) :
    ∀ (cs : List ChildX) (i : Nat) (dt tl : List Str) (es : List (List Str)),
      (∀ e ∈ es, ∀ v ∈ e, a ∉ v ∧ b ∉ v) →
      EResRel a b (childrenEvents ctx v5 a sid v02 i dt tl cs es) (childrenEvents ctx v5 b sid v02' i dt tl cs es) := by
  intro cs
  induction cs with
  | nil => intro i dt tl es _; simp only [childrenEvents]; exact EResRel.refl a b _
  | cons c cs ih =>
    intro i dt tl es h
    cases es with
    | nil =>
      simp only [childrenEvents]
      exact (EResRel.refl a b _).andThen (ih _ _ _ [] (by simp))
    | cons e es =>
      simp only [childrenEvents, hv]
      refine EResRel.andThen ?_ (ih _ _ _ es (fun z hz => h z (List.mem_cons_of_mem _ hz)))
      cases c with
      | elem x => exact elemAt_rel ctx v5 a b x _ e (h e (by simp))
      | comp u seq nm rd de kids => exact EResRel.refl a b _

theorem nonEmptyStr_sw (a b : Char) (v : Str) : Syn.nonEmptyStr (sw a b v) = Syn.nonEmptyStr v := by cases v <;> rfl

theorem shape_prints (a b : Char) : ∀ (es : List (List Str)), (∀ e ∈ es, ∀ v ∈ e, a ∉ v ∧ b ∉ v) →
    Syn.Shape (es.map (fun c => SegText.joinWith a (SegText.normComp c)))
      (es.map (fun c => SegText.joinWith b (SegText.normComp c))) := by
  intro es
  induction es with
  | nil => intro _; exact .nil
  | cons e r ih =>
    intro h
    simp only [List.map_cons]
    refine .cons ?_ (ih (fun z hz => h z (List.mem_cons_of_mem _ hz)))
    rw [← sw_joinWith a b _ (normComp_free (h e (by simp))), nonEmptyStr_sw]

theorem tooManyValue_rel (a b : Char) (sd : SegDef) (s : Seg) (g : Pipeline.GetV) :
    EResRel a b (tooManyValue sd s g) (tooManyValue sd s (mapGetV (sw a b) g)) := by
  cases g with
  | crash => exact .crash _
  | absent => exact EResRel.refl a b _
  | value v =>
    simp only [tooManyValue, mapGetV]
    refine .ok _ (EvEq.cons rfl (EvEq.cons ?_ (EvEq.refl a b [])))
    simp only [renEvent, ErrTree.Event.ren, Option.map_some, mapComp_sw]

theorem segEvents_plain (ctx : Ctx) (v5 : Bool) (d₁ d₂ : Delims) (sd : SegDef) {s : Seg}
    (ha : DtpFree d₁.sub) (hb : DtpFree d₂.sub) (h : PlainSeg d₁.sub d₂.sub s) :
    EResRel d₁.sub d₂.sub (segEvents ctx v5 d₁ sd s) (segEvents ctx v5 d₂ sd s) := by
  have hfree : ∀ e ∈ s.elems, ∀ v ∈ e, d₁.sub ∉ v ∧ d₂.sub ∉ v := h.free
  have hs₁ : Pipeline.sepOf d₁ s.id = d₁.sub := by simp [Pipeline.sepOf, h.notIsa]
  have hs₂ : Pipeline.sepOf d₂ s.id = d₂.sub := by simp [Pipeline.sepOf, h.notIsa]
  have hgv : gv d₂ s 1 = (gv d₁ s 1).map (sw d₁.sub d₂.sub) := by
    simp only [gv, getValue_plain d₁ d₂ h, optV_mapGetV]
  unfold segEvents
  rw [hs₁, hs₂]
  refine EResRel.andThen (EResRel.andThen ?_ ?_) ?_
  · unfold tooManyEvents
    split
    · split
      · exact .crash _
      · rw [getValue_plain d₁ d₂ h]; exact tooManyValue_rel _ _ sd s _
    · exact EResRel.refl _ _ _
  · refine childrenEvents_rel ctx v5 d₁.sub d₂.sub s.id _ _ ?_ sd.children 0 [] [] s.elems hfree
    intro i dt c
    rw [hgv]; exact stepDtype_sw ha hb s.id i _ dt c
  · rw [SegText.formatComps_eq _ _ h.ne, SegText.formatComps_eq _ _ h.ne]
    simp only [notesOn]
    rw [notesEvents_shape sd s.id (shape_prints d₁.sub d₂.sub s.elems hfree) sd.notes]
    exact EResRel.refl _ _ _

/-! ### what the loop needs to know about a segment -/

structure SegRen (d₁ d₂ : Delims) (s : Seg) : Prop where
  gvs : ∀ k, k < 15 → Pipeline.getValue d₂ s k = mapGetV (sw d₁.sub d₂.sub) (Pipeline.getValue d₁ s k)
  evs : ∀ (ctx : Ctx) (v5 : Bool) (sd : SegDef),
    EResRel d₁.sub d₂.sub (segEvents ctx v5 d₁ sd s) (segEvents ctx v5 d₂ sd s)

theorem segRen_plain (d₁ d₂ : Delims) {s : Seg} (ha : DtpFree d₁.sub) (hb : DtpFree d₂.sub)
    (h : PlainSeg d₁.sub d₂.sub s) : SegRen d₁ d₂ s :=
  ⟨fun k _ => getValue_plain d₁ d₂ h k, fun ctx v5 sd => segEvents_plain ctx v5 d₁ d₂ sd ha hb h⟩

/-- an ISA segment: single-valued elements; no separator inside a value other than ISA16 -/
structure IsaSeg (a b : Char) (s : Seg) : Prop where
  isIsa : s.id = SegText.isaId
  single : ∀ c ∈ s.elems, c.length = 1
  free : ∀ k c, k ≠ 15 → s.elems[k]? = some c → ∀ v ∈ c, a ∉ v ∧ b ∉ v

theorem segRen_isa (d₁ d₂ : Delims) {s : Seg} (h : IsaSeg d₁.sub d₂.sub s) : SegRen d₁ d₂ s := by
  have hag : SepAgree d₁ d₂ s := fun c hc => formatComp_single _ _ c (h.single c hc)
  refine ⟨?_, ?_⟩
  · intro k hk
    rw [← getValue_congr hag k]
    unfold Pipeline.getValue
    cases hx : s.elems[k]? with
    | none => rfl
    | some c =>
      have hl := h.single c (List.mem_of_getElem? hx)
      have hfree := h.free k c (by omega) hx
      match c, hl, hfree with
      | [v], _, hfree =>
        have : SegText.formatComp (Pipeline.sepOf d₁ s.id) [v] = some v := by
          rw [SegText.formatComp_eq _ [v] (by simp), SegText.normComp_single]; rfl
        simp only [Pipeline.compFormat, this, mapGetV, sw_free (hfree v (by simp)).1 (hfree v (by simp)).2]
  · intro ctx v5 sd
    rw [segEvents_congr hag ctx v5 sd]
    exact EResRel.refl _ _ _

end Pyx12Verif.Doc
