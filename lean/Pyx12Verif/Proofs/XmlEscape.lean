/- C08 helper lemmas: escaping is a per-character substitution; entity decoding inverts it. -/
import Pyx12Verif.Spec.XmlSpec

namespace Pyx12Verif.Xml

theorem replaceChar_append (c : Char) (rep a b : Str) :
    replaceChar c rep (a ++ b) = replaceChar c rep a ++ replaceChar c rep b := by
  induction a with
  | nil => rfl
  | cons x r ih =>
    simp only [List.cons_append, replaceChar]
    split
    · rw [ih, List.append_assoc]
    · rw [ih]; rfl

/-- what `_escape_cont` does to one character -/
def escT (c : Char) : Str :=
  if c = '&' then entAmp else if c = '<' then entLt else if c = '>' then entGt else [c]

/-- what `_escape_attr` does to one character -/
def escA (c : Char) : Str :=
  if c = '&' then entAmp else if c = '\'' then entApos else if c = '<' then entLt else if c = '>' then entGt else [c]

theorem escapeText_nil : escapeText [] = [] := rfl
theorem escapeAttr_nil : escapeAttr [] = [] := rfl

theorem escapeText_cons (c : Char) (s : Str) : escapeText (c :: s) = escT c ++ escapeText s := by
  unfold escapeText escT
  by_cases h1 : c = '&'
  · subst h1
    simp [replaceChar, entAmp]
  · by_cases h2 : c = '<'
    · subst h2
      simp [replaceChar, entLt]
    · by_cases h3 : c = '>'
      · subst h3
        simp [replaceChar, entGt]
      · simp [replaceChar, h1, h2, h3]

theorem escapeAttr_cons (c : Char) (s : Str) : escapeAttr (c :: s) = escA c ++ escapeAttr s := by
  unfold escapeAttr escA
  by_cases h1 : c = '&'
  · subst h1
    simp [replaceChar, entAmp]
  · by_cases h0 : c = '\''
    · subst h0
      simp [replaceChar, entApos]
    · by_cases h2 : c = '<'
      · subst h2
        simp [replaceChar, entLt]
      · by_cases h3 : c = '>'
        · subst h3
          simp [replaceChar, entGt]
        · simp [replaceChar, h1, h0, h2, h3]

theorem unescape_escT (c : Char) (r : Str) : unescapeFrom 0 (escT c ++ r) = c :: unescapeFrom 0 r := by
  unfold escT
  by_cases h1 : c = '&'
  · subst h1; simp [entAmp, unescapeFrom, entityAt, isCharPrefix]
  · by_cases h2 : c = '<'
    · subst h2; simp [entLt, unescapeFrom, entityAt, isCharPrefix]
    · by_cases h3 : c = '>'
      · subst h3; simp [entGt, unescapeFrom, entityAt, isCharPrefix]
      · simp [h1, h2, h3, unescapeFrom]

theorem unescape_escA (c : Char) (r : Str) : unescapeFrom 0 (escA c ++ r) = c :: unescapeFrom 0 r := by
  unfold escA
  by_cases h1 : c = '&'
  · subst h1; simp [entAmp, unescapeFrom, entityAt, isCharPrefix]
  · by_cases h0 : c = '\''
    · subst h0; simp [entApos, unescapeFrom, entityAt, isCharPrefix]
    · by_cases h2 : c = '<'
      · subst h2; simp [entLt, unescapeFrom, entityAt, isCharPrefix]
      · by_cases h3 : c = '>'
        · subst h3; simp [entGt, unescapeFrom, entityAt, isCharPrefix]
        · simp [h1, h0, h2, h3, unescapeFrom]

end Pyx12Verif.Xml
