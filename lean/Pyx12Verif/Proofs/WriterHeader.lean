/-
The ISA segment as `X12Writer._write_isa_segment` prints it, read by `RawX12File.__init__` (fixed offsets
3 / 82 / 84..89 / 104 / 105 of the first 106 characters).
-/
import Pyx12Verif.Spec.Writer
import Pyx12Verif.Proofs.Tokenizer

namespace Pyx12Verif.Writer
open Pyx12Verif.Envelope (Str idISA)
open Pyx12Verif.SegText (Seg Delims joinWith normComp splitOn formatSeg)
open Pyx12Verif.Tokenizer (parseHeader ISA_LEN HeaderRes Header)

/-- ISA01..ISA16 of the standard -/
def isaWidths : List Nat := [2, 10, 2, 10, 2, 15, 2, 15, 6, 4, 1, 5, 9, 1, 1, 1]

theorem len1 {v : Str} (h : v.length = 1) : ∃ a, v = [a] := by
  match v, h with
  | [a], _ => exact ⟨a, rfl⟩
theorem len2 {v : Str} (h : v.length = 2) : ∃ a b, v = [a, b] := by
  match v, h with
  | [a, b], _ => exact ⟨a, b, rfl⟩
theorem len4 {v : Str} (h : v.length = 4) : ∃ a b c d, v = [a, b, c, d] := by
  match v, h with
  | [a, b, c, d], _ => exact ⟨a, b, c, d, rfl⟩
theorem len5 {v : Str} (h : v.length = 5) : ∃ a b c d e, v = [a, b, c, d, e] := by
  match v, h with
  | [a, b, c, d, e], _ => exact ⟨a, b, c, d, e, rfl⟩
theorem len6 {v : Str} (h : v.length = 6) : ∃ a b c d e f, v = [a, b, c, d, e, f] := by
  match v, h with
  | [a, b, c, d, e, f], _ => exact ⟨a, b, c, d, e, f, rfl⟩
theorem len9 {v : Str} (h : v.length = 9) : ∃ a b c d e f g i j, v = [a, b, c, d, e, f, g, i, j] := by
  match v, h with
  | [a, b, c, d, e, f, g, i, j], _ => exact ⟨a, b, c, d, e, f, g, i, j, rfl⟩
theorem len10 {v : Str} (h : v.length = 10) : ∃ a b c d e f g i j k, v = [a, b, c, d, e, f, g, i, j, k] := by
  match v, h with
  | [a, b, c, d, e, f, g, i, j, k], _ => exact ⟨a, b, c, d, e, f, g, i, j, k, rfl⟩
theorem len15 {v : Str} (h : v.length = 15) :
    ∃ a b c d e f g i j k l m n o p, v = [a, b, c, d, e, f, g, i, j, k, l, m, n, o, p] := by
  match v, h with
  | [a, b, c, d, e, f, g, i, j, k, l, m, n, o, p], _ => exact ⟨a, b, c, d, e, f, g, i, j, k, l, m, n, o, p, rfl⟩

theorem vals16 {vals : List Str} (h : vals.map List.length = isaWidths) :
    ∃ v1 v2 v3 v4 v5 v6 v7 v8 v9 v10 v11 v12 v13 v14 v15 v16,
      vals = [v1, v2, v3, v4, v5, v6, v7, v8, v9, v10, v11, v12, v13, v14, v15, v16] ∧
      v1.length = 2 ∧ v2.length = 10 ∧ v3.length = 2 ∧ v4.length = 10 ∧ v5.length = 2 ∧ v6.length = 15 ∧ v7.length = 2 ∧
      v8.length = 15 ∧ v9.length = 6 ∧ v10.length = 4 ∧ v11.length = 1 ∧ v12.length = 5 ∧ v13.length = 9 ∧
      v14.length = 1 ∧ v15.length = 1 ∧ v16.length = 1 := by
  have hl : vals.length = 16 := by
    have := congrArg List.length h
    simpa [isaWidths] using this
  match vals, hl, h with
  | [v1, v2, v3, v4, v5, v6, v7, v8, v9, v10, v11, v12, v13, v14, v15, v16], _, h =>
    simp only [List.map_cons, List.map_nil, isaWidths, List.cons.injEq, and_true] at h
    exact ⟨v1, v2, v3, v4, v5, v6, v7, v8, v9, v10, v11, v12, v13, v14, v15, v16, rfl, h⟩

theorem isEmptyComp_single (a : Char) : SegText.isEmptyComp [[a]] = false := by
  simp [SegText.isEmptyComp, SegText.isEmptyVal]

/-- an element list whose last element is not empty is printed whole -/
theorem keptSpec_last (es : List (List (List Char))) (x : List (List Char)) (hx : SegText.isEmptyComp x = false) :
    SegText.keptSpec (es ++ [x]) = es ++ [x] := by
  have : SegText.trimTrail SegText.isEmptyComp (es ++ [x]) = es ++ [x] := by
    simp [SegText.trimTrail, hx]
  simp [SegText.keptSpec, this]


theorem valueAt_single_elem (t : Char) (s : Seg) (i : Nat) (v : Str) (h : s.elems[i]? = some [v]) :
    valueAt t s i = some v := by
  simp [valueAt, h, SegText.normComp_single, joinWith]

/-- what is printed for an ISA whose 16 elements are plain values: every value, the last one always printed -/
theorem format_plain16 (d : Delims) (id : Str) (vs : List Str) (x : Char) :
    formatSeg d ⟨id, vs.map (fun v => [v]) ++ [[[x]]]⟩ = some (id ++ d.ele :: (joinWith d.ele (vs ++ [[x]]) ++ [d.term])) := by
  rw [SegText.formatSeg_eq]
  · unfold SegText.bodyOf
    simp only [keptSpec_last _ _ (isEmptyComp_single x), List.map_append, List.map_map, List.map_cons, List.map_nil]
    have : (List.map ((fun c => joinWith d.sub (normComp c)) ∘ fun v => [v]) vs) = vs := by
      conv => rhs; rw [← List.map_id vs]
      apply List.map_congr_left
      intro v _
      simp [SegText.normComp_single, joinWith]
    rw [this]
    simp [SegText.normComp_single, joinWith]
  · intro c hc
    simp only [List.mem_append, List.mem_map, List.mem_singleton] at hc
    rcases hc with ⟨v, _, rfl⟩ | rfl <;> simp


theorem splitOn_single_ne {e x : Char} (h : x ≠ e) : splitOn e [x] = [[x]] := by
  simp [splitOn, h, SegText.consHead]

/-- `RawX12File.__init__` on the ISA that `_write_isa_segment` prints.  The 16 values have the standard widths
(nothing else is asked of them, they may even contain delimiters), the version is one the reader knows; the
repetition separator differs from the component separator and that one from the element separator (else `set` would
split the one-character value and print nothing). -/
theorem isa_header (c : Cfg) (s : Seg) (vals : List Str) (hid : s.id = idISA) (hel : s.elems = vals.map (fun v => [v]))
    (hw : vals.map List.length = isaWidths) (hrs : c.rep ≠ c.d.sub) (hse : c.d.sub ≠ c.d.ele)
    (icvn : Str) (hicvn : vals[11]? = some icvn) (hver : icvn = Tokenizer.v4010 ∨ icvn = Tokenizer.v5010) :
    ∃ txt, formatSeg c.d (isaOut c s (valueAt c.d.ele s 11)) = some txt ∧
      parseHeader (txt.take ISA_LEN) =
        .ok ⟨c.d.term, c.d.ele, c.d.sub, if icvn = Tokenizer.v5010 then some c.rep else none, icvn⟩ := by
  obtain ⟨v1, v2, v3, v4, v5, v6, v7, v8, v9, v10, v11, v12, v13, v14, v15, v16, rfl, l1, l2, l3, l4, l5, l6, l7, l8, l9,
    l10, l11, l12, l13, l14, l15, l16⟩ := vals16 hw
  simp only [List.getElem?_cons_succ, List.getElem?_cons_zero, Option.some.injEq] at hicvn
  subst hicvn
  obtain ⟨sid, elems⟩ := s
  simp only at hid hel
  subst hid; subst hel
  have hval : valueAt c.d.ele ⟨idISA, List.map (fun v => [v]) [v1, v2, v3, v4, v5, v6, v7, v8, v9, v10, v11, v12, v13, v14,
      v15, v16]⟩ 11 = some v12 := valueAt_single_elem _ _ _ _ (by simp)
  obtain ⟨a1, a2, rfl⟩ := len2 l1
  obtain ⟨b1, b2, b3, b4, b5, b6, b7, b8, b9, b10, rfl⟩ := len10 l2
  obtain ⟨c1, c2, rfl⟩ := len2 l3
  obtain ⟨d1, d2, d3, d4, d5, d6, d7, d8, d9, d10, rfl⟩ := len10 l4
  obtain ⟨e1, e2, rfl⟩ := len2 l5
  obtain ⟨f1, f2, f3, f4, f5, f6, f7, f8, f9, f10, f11, f12, f13, f14, f15, rfl⟩ := len15 l6
  obtain ⟨g1, g2, rfl⟩ := len2 l7
  obtain ⟨h1, h2, h3, h4, h5, h6, h7, h8, h9, h10, h11, h12, h13, h14, h15, rfl⟩ := len15 l8
  obtain ⟨i1, i2, i3, i4, i5, i6, rfl⟩ := len6 l9
  obtain ⟨j1, j2, j3, j4, rfl⟩ := len4 l10
  obtain ⟨k1, rfl⟩ := len1 l11
  obtain ⟨m1, m2, m3, m4, m5, m6, m7, m8, m9, rfl⟩ := len9 l13
  obtain ⟨n1, rfl⟩ := len1 l14
  obtain ⟨o1, rfl⟩ := len1 l15
  obtain ⟨p1, rfl⟩ := len1 l16
  rw [hval]
  rcases hver with hv | hv
  · subst hv
    have hne : ¬ (some Tokenizer.v4010 = some Writer.v5010) := by decide
    have hform := format_plain16 c.d idISA [[a1, a2], [b1, b2, b3, b4, b5, b6, b7, b8, b9, b10], [c1, c2],
      [d1, d2, d3, d4, d5, d6, d7, d8, d9, d10], [e1, e2], [f1, f2, f3, f4, f5, f6, f7, f8, f9, f10, f11, f12, f13, f14, f15],
      [g1, g2], [h1, h2, h3, h4, h5, h6, h7, h8, h9, h10, h11, h12, h13, h14, h15], [i1, i2, i3, i4, i5, i6],
      [j1, j2, j3, j4], [k1], Tokenizer.v4010, [m1, m2, m3, m4, m5, m6, m7, m8, m9], [n1], [o1]] c.d.sub
    refine ⟨_, (?_ : _ = _).trans hform, ?_⟩
    · simp only [isaOut, hne, if_false, List.map_cons, List.map_nil, List.set_cons_succ, List.set_cons_zero,
        splitOn_single_ne hse, List.cons_append, List.nil_append]
    · simp [joinWith, idISA, parseHeader, ISA_LEN, Tokenizer.icvnOf, Tokenizer.v4010, Tokenizer.v5010,
        Tokenizer.headerChars, Tokenizer.mkHeader, Tokenizer.repOf]
  · subst hv
    have heq : (some Tokenizer.v5010 = some Writer.v5010) := rfl
    have hform := format_plain16 c.d idISA [[a1, a2], [b1, b2, b3, b4, b5, b6, b7, b8, b9, b10], [c1, c2],
      [d1, d2, d3, d4, d5, d6, d7, d8, d9, d10], [e1, e2], [f1, f2, f3, f4, f5, f6, f7, f8, f9, f10, f11, f12, f13, f14, f15],
      [g1, g2], [h1, h2, h3, h4, h5, h6, h7, h8, h9, h10, h11, h12, h13, h14, h15], [i1, i2, i3, i4, i5, i6],
      [j1, j2, j3, j4], [c.rep], Tokenizer.v5010, [m1, m2, m3, m4, m5, m6, m7, m8, m9], [n1], [o1]] c.d.sub
    refine ⟨_, (?_ : _ = _).trans hform, ?_⟩
    · simp only [isaOut, heq, if_true, List.map_cons, List.map_nil, List.set_cons_succ, List.set_cons_zero,
        splitOn_single_ne hse, splitOn_single_ne hrs, List.cons_append, List.nil_append]
    · simp [joinWith, idISA, parseHeader, ISA_LEN, Tokenizer.icvnOf, Tokenizer.v4010, Tokenizer.v5010,
        Tokenizer.headerChars, Tokenizer.mkHeader, Tokenizer.repOf]

end Pyx12Verif.Writer
