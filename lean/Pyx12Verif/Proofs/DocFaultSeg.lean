/-
Helper lemmas for `Props/DocFault.lean` (C03 at pipeline level), `segment_if.is_valid` side.

`ERes.Fault r p sp de errs`: the call returned `False` and what it handed to the error handler is
    error-free `add_ele` calls, `add_ele(p, sp, de)`, one `ele_error` per entry of `errs`, error-free `add_ele` calls
— the reports of ONE element node, everything else as for a conforming segment.

* `elemEvents_fault`      `element_if.is_valid` on an input for which the C15 model reports at least one code;
* `compEvents_sub_fault`  `composite_if.is_valid` with exactly one such sub-element (`KidsBut`);
* `segEvents_elem_fault`  `segment_if.is_valid` on a segment with exactly one such child (`ChildrenBut`), no surplus
                          element, all notes satisfied;
* `segEvents_note_fault`  … on a segment whose children all conform and of whose notes exactly one is violated.
-/
import Pyx12Verif.Proofs.DocFaultTree
import Pyx12Verif.Props.C03

namespace Pyx12Verif.Doc
open Pyx12Verif ElemValid

def Report.toErr (r : Report) : ErrTree.EleErr := { code := r.code, msg := r.msg, value := r.value }

theorem Report.event_eq (r : Report) : r.event = eleErrEvent r.toErr := rfl

/-- the handler calls of a validation whose only reports concern the element node `(p, sp)` -/
def FaultForm (evs : List Event) (p : Nat) (sp : Option Nat) (de : Option Str) (errs : List ErrTree.EleErr) : Prop :=
  ∃ preE postE, evs = preE ++ (.addEle p sp de :: (errs.map eleErrEvent ++ postE)) ∧
    EleOnly preE ∧ Quiet preE ∧ EleOnly postE ∧ Quiet postE

def ERes.Fault (r : ERes) (p : Nat) (sp : Option Nat) (de : Option Str) (errs : List ErrTree.EleErr) : Prop :=
  ∃ evs, r = .ok false evs ∧ FaultForm evs p sp de errs

theorem fault_andThen_clean {a b : ERes} {p : Nat} {sp : Option Nat} {de : Option Str} {errs : List ErrTree.EleErr}
    (ha : a.Fault p sp de errs) (hb : b.Clean) (hb' : b.EleOnly) : (a.andThen b).Fault p sp de errs := by
  obtain ⟨x, rfl, preE, postE, rfl, h1, h2, h3, h4⟩ := ha
  obtain ⟨y, rfl, hy⟩ := hb
  exact ⟨_, rfl, preE, postE ++ y, by simp, h1, h2, h3.append hb', h4.append hy⟩

theorem clean_andThen_fault {a b : ERes} {p : Nat} {sp : Option Nat} {de : Option Str} {errs : List ErrTree.EleErr}
    (ha : a.Clean) (ha' : a.EleOnly) (hb : b.Fault p sp de errs) : (a.andThen b).Fault p sp de errs := by
  obtain ⟨x, rfl, hx⟩ := ha
  obtain ⟨y, rfl, preE, postE, rfl, h1, h2, h3, h4⟩ := hb
  exact ⟨_, rfl, x ++ preE, postE, by simp, EleOnly.append ha' h1, hx.append h2, h3, h4⟩

/-! ### one element -/

/-- `element_if.is_valid` on an input for which the C15 model reports something: `False`, `add_ele` for the element, one
    `ele_error` per report -/
theorem elemEvents_fault (ctx : Ctx) (v5 : Bool) (pos : Nat) (sub : Option Nat) (e : ElemX) (tl : List Str) (i : EIn)
    (hl : needsLookup e i = true → e.defined = true)
    (hne : (elemValidIn (defWith e tl) (elemCtx ctx v5 e i.value) i.toInput).2 ≠ []) :
    (elemEvents ctx v5 pos sub e tl i).Fault pos sub e.dataEle
      ((elemReports e (defWith e tl) (elemCtx ctx v5 e i.value) i).map Report.toErr) := by
  have hv := error_imp_false _ _ _ hne
  unfold elemEvents
  have hlk : (needsLookup e i && !e.defined) = false := by
    cases hn : needsLookup e i with
    | false => rfl
    | true => simp [hl hn]
  simp only [hlk, Bool.false_eq_true, if_false, hv]
  refine ⟨_, rfl, [], [], ?_, EleOnly.nil, Quiet.nil, EleOnly.nil, Quiet.nil⟩
  simp only [List.nil_append, List.append_nil, List.map_map]
  rfl

/-- the reports carry the codes of the C15 model, in order (`elemReports_codes`) -/
theorem toErr_codes (e : ElemX) (d : ElemDef) (c : ElemValid.Ctx) (i : EIn) :
    ((elemReports e d c i).map Report.toErr).map (·.code) = (elemValidIn d c i.toInput).2.map codeStr := by
  rw [← elemReports_codes e d c i]
  simp [Report.toErr]

/-- a non-empty value without control character in an element that may be used: every report carries the value -/
theorem valueReports_value (e : ElemX) (d : ElemDef) (c : ElemValid.Ctx) (v : Str) (hc : Validation.hasControl v = false) :
    ∀ r ∈ valueReports e d c v, r.value = some v := by
  intro r hr
  unfold valueReports at hr
  simp only [hc, Bool.false_eq_true, if_false, List.mem_append] at hr
  have hcond : ∀ (b : Bool) (x : Report), r ∈ rcond b x → x.value = some v → r.value = some v := by
    intro b x hx hxv
    cases b with
    | false => simp [rcond] at hx
    | true => simp [rcond] at hx; rw [hx]; exact hxv
  rcases hr with (((((h | h) | h) | h) | h) | h) | h
  · exact hcond _ _ h rfl
  · exact hcond _ _ h rfl
  · exact hcond _ _ h rfl
  · exact hcond _ _ h rfl
  · refine hcond _ _ h ?_
    unfold typeReport
    split
    · rfl
    · split <;> rfl
  · split at h
    · unfold tlReports at h
      split at h
      · simp at h; rw [h]
      · split at h
        · simp at h; rw [h]
        · cases h
    · cases h
  · exact hcond _ _ h rfl

theorem elemReports_value (e : ElemX) (d : ElemDef) (c : ElemValid.Ctx) (v : Str) (hv : v.isEmpty = false)
    (hu : d.usage ≠ .N) (hc : Validation.hasControl v = false) :
    ∀ r ∈ (elemReports e d c (.simple v)).map Report.toErr, r.value = some v := by
  intro r hr
  simp only [elemReports, simpleReports, hv, Bool.false_eq_true, if_false, hu, List.mem_map] at hr
  obtain ⟨x, hx, rfl⟩ := hr
  exact valueReports_value e d c v hc x hx

/-! ### one sub-element of a composite -/

/-- as `KidsAdm`, except that the `j`-th sub-element is validated with reports -/
def KidsBut (ctx : Ctx) (v5 : Bool) (pos : Nat) (p : Nat) (sp : Option Nat) (de : Option Str) (errs : List ErrTree.EleErr) :
    Nat → List ElemX → List Str → Prop
  | _, [], _ => False
  | 0, k :: ks, [] => (elemEvents ctx v5 pos (some k.d.seq) k [] .absent).Fault p sp de errs ∧ KidsAdm ctx v5 ks []
  | 0, k :: ks, v :: vs =>
    (elemEvents ctx v5 pos (some k.d.seq) k [] (.simple v)).Fault p sp de errs ∧ KidsAdm ctx v5 ks vs
  | j + 1, k :: ks, [] => ElemAdm ctx v5 k [] .absent ∧ KidsBut ctx v5 pos p sp de errs j ks []
  | j + 1, k :: ks, v :: vs => ElemAdm ctx v5 k [] (.simple v) ∧ KidsBut ctx v5 pos p sp de errs j ks vs

theorem kidsEvents_fault (ctx : Ctx) (v5 : Bool) (pos p : Nat) (sp : Option Nat) (de : Option Str)
    (errs : List ErrTree.EleErr) : ∀ (j : Nat) (ks : List ElemX) (vs : List Str),
    KidsBut ctx v5 pos p sp de errs j ks vs → (kidsEvents ctx v5 pos ks vs).Fault p sp de errs := by
  intro j
  induction j with
  | zero =>
    intro ks vs h
    cases ks with
    | nil => cases vs <;> exact absurd h (by simp [KidsBut])
    | cons k ks =>
      cases vs with
      | nil =>
        simp only [KidsBut] at h
        simp only [kidsEvents]
        exact fault_andThen_clean h.1 (kidsEvents_clean ctx v5 pos ks [] h.2) (kidsEvents_eleOnly ctx v5 pos ks [])
      | cons v vs =>
        simp only [KidsBut] at h
        simp only [kidsEvents]
        exact fault_andThen_clean h.1 (kidsEvents_clean ctx v5 pos ks vs h.2) (kidsEvents_eleOnly ctx v5 pos ks vs)
  | succ j ih =>
    intro ks vs h
    cases ks with
    | nil => cases vs <;> exact absurd h (by simp [KidsBut])
    | cons k ks =>
      cases vs with
      | nil =>
        simp only [KidsBut] at h
        simp only [kidsEvents]
        exact clean_andThen_fault (elemEvents_clean _ _ _ _ _ _ _ h.1) (elemEvents_eleOnly _ _ _ _ _ _ _) (ih ks [] h.2)
      | cons v vs =>
        simp only [KidsBut] at h
        simp only [kidsEvents]
        exact clean_andThen_fault (elemEvents_clean _ _ _ _ _ _ _ h.1) (elemEvents_eleOnly _ _ _ _ _ _ _) (ih ks vs h.2)

/-- `composite_if.is_valid` on a used composite with at least one non-empty component, no surplus component and exactly
    one sub-element that draws reports -/
theorem compEvents_sub_fault (ctx : Ctx) (v5 : Bool) (u : Usage) (seq : Nat) (nm rd : Str) (cde : Option Str)
    (kids : List ElemX) (vs : List Str) (p : Nat) (sp : Option Nat) (de : Option Str) (errs : List ErrTree.EleErr) (j : Nat)
    (he : allEmpty vs = false) (hu : u ≠ .N) (hlen : vs.length ≤ kids.length)
    (hk : KidsBut ctx v5 seq p sp de errs j kids vs) :
    (compEvents ctx v5 u seq nm rd cde kids (some vs)).Fault p sp de errs := by
  have hne : anyNonEmpty vs = true := by rw [ElemValid.anyNonEmpty_eq, he]; rfl
  simp only [compEvents, he, Bool.false_and, Bool.false_eq_true, if_false, hne, Bool.not_true, Bool.and_false]
  unfold compPresentEvents
  have h1 : (decide (u = .N) && !allEmpty vs) = false := by cases u <;> simp_all
  have h2 : ¬ vs.length > kids.length := by omega
  simp only [h1, Bool.false_eq_true, if_false, h2, decide_false, Bool.not_false]
  exact clean_andThen_fault clean_ok_nil EleOnly.nil (kidsEvents_fault ctx v5 seq p sp de errs j kids vs hk)

/-! ### one child of a segment -/

/-- as `ChildrenAdm`, except that the child at index `k` (counted from the first listed child) is validated with reports
    on the element node `(p, sp)` -/
def ChildrenBut (ctx : Ctx) (v5 : Bool) (sep : Char) (sid : Str) (v02 : Option Str) (p : Nat) (sp : Option Nat)
    (de : Option Str) (errs : List ErrTree.EleErr) :
    Nat → Nat → List Str → List Str → List ChildX → List (List Str) → Prop
  | _, _, _, _, [], _ => False
  | 0, i, dt, tl, c :: cs, [] =>
    (childAbsent ctx v5 c).Fault p sp de errs ∧ ChildrenAdm ctx v5 sid v02 (i + 1) dt tl cs []
  | 0, i, dt, tl, c :: cs, e :: es =>
    (childPresent ctx v5 sep sid i (stepDtype sid i v02 dt c) (stepTl tl c) e c).Fault p sp de errs ∧
      ChildrenAdm ctx v5 sid v02 (i + 1) (stepDtype sid i v02 dt c) (stepTl tl c) cs es
  | k + 1, i, dt, tl, c :: cs, [] =>
    ChildAbsentAdm ctx v5 c ∧ ChildrenBut ctx v5 sep sid v02 p sp de errs k (i + 1) dt tl cs []
  | k + 1, i, dt, tl, c :: cs, e :: es =>
    ChildPresentAdm ctx v5 sid i (stepDtype sid i v02 dt c) (stepTl tl c) e c ∧
      ChildrenBut ctx v5 sep sid v02 p sp de errs k (i + 1) (stepDtype sid i v02 dt c) (stepTl tl c) cs es

theorem childrenEvents_fault (ctx : Ctx) (v5 : Bool) (sep : Char) (sid : Str) (v02 : Option Str) (p : Nat) (sp : Option Nat)
    (de : Option Str) (errs : List ErrTree.EleErr) :
    ∀ (k : Nat) (cs : List ChildX) (i : Nat) (dt tl : List Str) (es : List (List Str)),
      ChildrenBut ctx v5 sep sid v02 p sp de errs k i dt tl cs es →
      (childrenEvents ctx v5 sep sid v02 i dt tl cs es).Fault p sp de errs := by
  intro k
  induction k with
  | zero =>
    intro cs i dt tl es h
    cases cs with
    | nil => cases es <;> exact absurd h (by simp [ChildrenBut])
    | cons c cs =>
      cases es with
      | nil =>
        simp only [ChildrenBut] at h
        simp only [childrenEvents]
        exact fault_andThen_clean h.1 (childrenEvents_clean _ _ _ _ _ _ _ _ _ _ h.2)
          (childrenEvents_eleOnly _ _ _ _ _ _ _ _ _ _)
      | cons e es =>
        simp only [ChildrenBut] at h
        simp only [childrenEvents]
        exact fault_andThen_clean h.1 (childrenEvents_clean _ _ _ _ _ _ _ _ _ _ h.2)
          (childrenEvents_eleOnly _ _ _ _ _ _ _ _ _ _)
  | succ k ih =>
    intro cs i dt tl es h
    cases cs with
    | nil => cases es <;> exact absurd h (by simp [ChildrenBut])
    | cons c cs =>
      cases es with
      | nil =>
        simp only [ChildrenBut] at h
        simp only [childrenEvents]
        exact clean_andThen_fault (childAbsent_clean ctx v5 c h.1) (childAbsent_eleOnly ctx v5 c) (ih cs _ _ _ [] h.2)
      | cons e es =>
        simp only [ChildrenBut] at h
        simp only [childrenEvents]
        exact clean_andThen_fault (childPresent_clean _ _ _ _ _ _ _ _ _ h.1) (childPresent_eleOnly _ _ _ _ _ _ _ _ _)
          (ih cs _ _ _ es h.2)

/-- a data segment with exactly one child that draws reports: no surplus element, every other element / composite
    admissible for its child definition, every syntax note satisfied -/
def SegFault (ctx : Ctx) (v5 : Bool) (d : Delims) (sd : SegDef) (s : Seg) (k p : Nat) (sp : Option Nat) (de : Option Str)
    (errs : List ErrTree.EleErr) : Prop :=
  s.elems.length ≤ sd.children.length ∧
  ChildrenBut ctx v5 (Pipeline.sepOf d s.id) s.id (gv d s 1) p sp de errs k 0 [] [] sd.children s.elems ∧
  ∃ vals, SegText.formatComps (Pipeline.sepOf d s.id) s.elems = some vals ∧
    ∀ n ∈ sd.notes, Syn.isSyntaxValid vals n = .valid

theorem notesOn_eleOnly (sd : SegDef) (sid : Str) (o : Option (List Str)) : (notesOn sd sid o).EleOnly := by
  cases o with
  | none => trivial
  | some vals => exact notesEvents_eleOnly _ _ _ _

/-- **`segment_if.is_valid` on a segment with one faulty element** -/
theorem segEvents_elem_fault (ctx : Ctx) (v5 : Bool) (d : Delims) (sd : SegDef) (s : Seg) (k p : Nat) (sp : Option Nat)
    (de : Option Str) (errs : List ErrTree.EleErr) (h : SegFault ctx v5 d sd s k p sp de errs) :
    (segEvents ctx v5 d sd s).Fault p sp de errs := by
  obtain ⟨hlen, hch, vals, hvals, hnotes⟩ := h
  unfold segEvents
  have htm : (tooManyEvents d sd s).Clean := by
    unfold tooManyEvents
    have : ¬ s.elems.length > sd.children.length := by omega
    simp only [this, if_false]
    exact clean_ok_nil
  refine fault_andThen_clean (clean_andThen_fault htm (tooManyEvents_eleOnly d sd s)
    (childrenEvents_fault _ _ _ _ _ _ _ _ _ _ _ _ _ _ _ hch)) ?_ (notesOn_eleOnly _ _ _)
  rw [hvals]
  exact notesEvents_clean sd s.id vals sd.notes hnotes

/-! ### one violated syntax note -/

theorem notesEvents_note_fault (sd : SegDef) (sid : Str) (vals : List Str) (n : Syn.Note) (c : ChildX) (code : Str) (k : Nat) :
    ∀ (ns1 ns2 : List Syn.Note),
      (∀ x ∈ ns1, Syn.isSyntaxValid vals x = .valid) → (∀ x ∈ ns2, Syn.isSyntaxValid vals x = .valid) →
      Syn.routeNote vals n = some [⟨code, k⟩] → 0 < k → k ≤ sd.children.length → sd.children[k - 1]? = some c →
      ∃ p de, childAddEle c = .addEle p none de ∧
        (notesEvents sd sid vals (ns1 ++ n :: ns2)).Fault p none de [⟨code, synMsg sid n, none⟩] := by
  intro ns1
  induction ns1 with
  | nil =>
    intro ns2 _ h2 hr hk1 hk2 hc
    have hadd : ∃ p de, childAddEle c = .addEle p none de := by
      cases c with
      | elem x => exact ⟨_, _, rfl⟩
      | comp u seq nm rd cde kids => exact ⟨_, _, rfl⟩
    obtain ⟨p, de, hpd⟩ := hadd
    refine ⟨p, de, hpd, ?_⟩
    simp only [List.nil_append, notesEvents, hr]
    refine fault_andThen_clean ?_ (notesEvents_clean sd sid vals ns2 h2) (notesEvents_eleOnly _ _ _ _)
    have hev : ([(⟨code, k⟩ : Syn.EleErr)].map (noteErrEvents sd sid n)).flatten =
        [.addEle p none de, .eleError code (synMsg sid n) none] := by
      simp only [List.map_cons, List.map_nil, List.flatten_cons, List.flatten_nil, List.append_nil, noteErrEvents, noteAddEle,
        hk1, hk2, and_self, if_true, hc, hpd, List.cons_append, List.nil_append]
    rw [hev]
    exact ⟨_, rfl, [], [], rfl, EleOnly.nil, Quiet.nil, EleOnly.nil, Quiet.nil⟩
  | cons x ns1 ih =>
    intro ns2 h1 h2 hr hk1 hk2 hc
    obtain ⟨p, de, hpd, hf⟩ := ih ns2 (fun y hy => h1 y (List.mem_cons_of_mem _ hy)) h2 hr hk1 hk2 hc
    refine ⟨p, de, hpd, ?_⟩
    simp only [List.cons_append, notesEvents, Syn.routeNote, h1 x (by simp), Syn.routeVerdict]
    exact clean_andThen_fault ⟨[], by simp, Quiet.nil⟩ EleOnly.nil hf

/-- a data segment whose elements all conform and of whose notes exactly one — `n`, routed to the one error
    `(code, k)` — is violated -/
def SegNoteFault (ctx : Ctx) (v5 : Bool) (d : Delims) (sd : SegDef) (s : Seg) (n : Syn.Note) (code : Str) (k : Nat) : Prop :=
  s.elems.length ≤ sd.children.length ∧
  ChildrenAdm ctx v5 s.id (gv d s 1) 0 [] [] sd.children s.elems ∧
  ∃ vals ns1 ns2, SegText.formatComps (Pipeline.sepOf d s.id) s.elems = some vals ∧ sd.notes = ns1 ++ n :: ns2 ∧
    (∀ x ∈ ns1, Syn.isSyntaxValid vals x = .valid) ∧ (∀ x ∈ ns2, Syn.isSyntaxValid vals x = .valid) ∧
    Syn.routeNote vals n = some [⟨code, k⟩] ∧ 0 < k ∧ k ≤ sd.children.length

/-- **`segment_if.is_valid` on a segment with one violated note**: `add_ele` of the child at the note's position, one
    `ele_error` with the note's code and no value -/
theorem segEvents_note_fault (ctx : Ctx) (v5 : Bool) (d : Delims) (sd : SegDef) (s : Seg) (n : Syn.Note) (code : Str) (k : Nat)
    (h : SegNoteFault ctx v5 d sd s n code k) :
    ∃ c p de, sd.children[k - 1]? = some c ∧ childAddEle c = .addEle p none de ∧
      (segEvents ctx v5 d sd s).Fault p none de [⟨code, synMsg s.id n, none⟩] := by
  obtain ⟨hlen, hch, vals, ns1, ns2, hvals, hsplit, h1, h2, hr, hk1, hk2⟩ := h
  have hlt : k - 1 < sd.children.length := by omega
  obtain ⟨p, de, hpd, hf⟩ := notesEvents_note_fault sd s.id vals n sd.children[k - 1] code k ns1 ns2 h1 h2 hr hk1 hk2
    (List.getElem?_eq_getElem hlt)
  refine ⟨sd.children[k - 1], p, de, List.getElem?_eq_getElem hlt, hpd, ?_⟩
  unfold segEvents
  have htm : (tooManyEvents d sd s).Clean := by
    unfold tooManyEvents
    have : ¬ s.elems.length > sd.children.length := by omega
    simp only [this, if_false]
    exact clean_ok_nil
  refine clean_andThen_fault (clean_andThen htm (childrenEvents_clean _ _ _ _ _ _ _ _ _ _ hch))
    (eleOnly_andThen (tooManyEvents_eleOnly d sd s) (childrenEvents_eleOnly _ _ _ _ _ _ _ _ _ _)) ?_
  rw [hvals]
  simp only [notesOn, hsplit]
  exact hf

/-! ### the element positions, flattened -/

theorem valErrsFrom_quiet_eleOnly : ∀ (evs : List Event) (p : Nat) (sp : Option Nat), EleOnly evs → Quiet evs →
    valErrsFrom p sp evs = [] := by
  intro evs
  induction evs with
  | nil => intro p sp _ _; rfl
  | cons e r ih =>
    intro p sp h1 h2
    have he1 := h1 e (by simp)
    have he2 := h2 e (by simp)
    have ih' := fun p sp => ih p sp (fun x hx => h1 x (List.mem_cons_of_mem _ hx)) (fun x hx => h2 x (List.mem_cons_of_mem _ hx))
    cases e with
    | addEle a b c => simp only [valErrsFrom]; exact ih' _ _
    | eleError c m v => simp [ErrTree.Event.isError] at he2
    | addIsa _ => simp [isEle] at he1
    | addGs _ => simp [isEle] at he1
    | addSt _ => simp [isEle] at he1
    | addSeg _ _ _ => simp [isEle] at he1
    | isaError _ => simp [isEle] at he1
    | gsError _ => simp [isEle] at he1
    | stError _ => simp [isEle] at he1
    | segError _ _ => simp [isEle] at he1
    | closeSt => simp [isEle] at he1
    | closeGs _ _ => simp [isEle] at he1
    | closeIsa => simp [isEle] at he1

theorem valErrsFrom_append_addEles : ∀ (a b : List Event) (p : Nat) (sp : Option Nat), EleOnly a → Quiet a →
    ∀ (p' : Nat) (sp' : Option Nat) (de : Option Str),
    valErrsFrom p sp (a ++ .addEle p' sp' de :: b) = valErrsFrom p' sp' b := by
  intro a
  induction a with
  | nil => intro b p sp _ _ p' sp' de; rfl
  | cons e r ih =>
    intro b p sp h1 h2 p' sp' de
    have he1 := h1 e (by simp)
    have he2 := h2 e (by simp)
    have ih' := fun p sp => ih b p sp (fun x hx => h1 x (List.mem_cons_of_mem _ hx))
      (fun x hx => h2 x (List.mem_cons_of_mem _ hx)) p' sp' de
    cases e with
    | addEle a b c => simp only [List.cons_append, valErrsFrom]; exact ih' _ _
    | eleError c m v => simp [ErrTree.Event.isError] at he2
    | addIsa _ => simp [isEle] at he1
    | addGs _ => simp [isEle] at he1
    | addSt _ => simp [isEle] at he1
    | addSeg _ _ _ => simp [isEle] at he1
    | isaError _ => simp [isEle] at he1
    | gsError _ => simp [isEle] at he1
    | stError _ => simp [isEle] at he1
    | segError _ _ => simp [isEle] at he1
    | closeSt => simp [isEle] at he1
    | closeGs _ _ => simp [isEle] at he1
    | closeIsa => simp [isEle] at he1

theorem valErrsFrom_errs : ∀ (errs : List ErrTree.EleErr) (postE : List Event) (p : Nat) (sp : Option Nat),
    EleOnly postE → Quiet postE →
    valErrsFrom p sp (errs.map eleErrEvent ++ postE) = errs.map (fun e => ⟨e.code, p, sp, e.value⟩) := by
  intro errs
  induction errs with
  | nil => intro postE p sp h1 h2; simpa using valErrsFrom_quiet_eleOnly postE p sp h1 h2
  | cons e r ih =>
    intro postE p sp h1 h2
    simp only [List.map_cons, List.cons_append, eleErrEvent, valErrsFrom, ih postE p sp h1 h2]

/-- the flattened view of a faulty validation: exactly the reports, at the element position, with their values -/
theorem valErrs_faultForm (hd : Event) (hq : isEle hd = false) (hq' : ErrTree.Event.isError hd = false)
    (evs : List Event) (p : Nat) (sp : Option Nat) (de : Option Str)
    (errs : List ErrTree.EleErr) (h : FaultForm evs p sp de errs) :
    valErrsFrom 0 none (hd :: evs) = errs.map (fun e => ⟨e.code, p, sp, e.value⟩) := by
  obtain ⟨preE, postE, rfl, h1, h2, h3, h4⟩ := h
  have h0 : valErrsFrom 0 none (hd :: (preE ++ (.addEle p sp de :: (errs.map eleErrEvent ++ postE)))) =
      valErrsFrom 0 none (preE ++ (.addEle p sp de :: (errs.map eleErrEvent ++ postE))) := by
    cases hd <;> first | rfl | (simp [isEle] at hq) | (simp [ErrTree.Event.isError] at hq')
  rw [h0, valErrsFrom_append_addEles preE _ 0 none h1 h2, valErrsFrom_errs errs postE p sp h3 h4]

end Pyx12Verif.Doc
