/-
The fuel of `drainV` (twice the number of nodes, plus one) suffices: the loop `while True: next(err_iter)` of
`x12n_document` always ends with `IterOutOfBounds` before the fuel is used up, so the fuel is not observable.

Argument: every successful `__next__` moves the cursor strictly forward in the position order (`step_moved_inv`) onto
a position of an existing node; there are `2 * |nodes|` positions.
-/
import Pyx12Verif.Proofs.ErrIterOrder

namespace Pyx12Verif.ErrIter
open Pyx12Verif.ErrTree

/-- the address names a node of the tree -/
def Valid (t : Tree) : Addr → Prop
  | .root => True
  | .isa i => i < kids t .root
  | .gs i g => i < kids t .root ∧ g < kids t (.isa i)
  | .st i g s => i < kids t .root ∧ g < kids t (.isa i) ∧ s < kids t (.gs i g)
  | .seg i g s k => i < kids t .root ∧ g < kids t (.isa i) ∧ s < kids t (.gs i g) ∧ k < kids t (.st i g s)

instance (t : Tree) (a : Addr) : Decidable (Valid t a) := by
  cases a <;> unfold Valid <;> exact inferInstance

theorem mem_nodes (t : Tree) (a : Addr) : a ∈ nodes t ↔ Valid t a := by
  cases a <;> simp [nodes, Valid, List.mem_flatMap, List.mem_range] <;> grind

theorem valid_firstChild (t : Tree) (a n : Addr) (hv : Valid t a) (h : firstChild t a = some n) : Valid t n := by
  cases a <;> simp only [firstChild] at h <;> (try split at h) <;> simp at h <;> subst h <;>
    simp_all [Valid]

theorem valid_nextSibling (t : Tree) (a n : Addr) (hv : Valid t a) (h : nextSibling t a = some n) : Valid t n := by
  cases a <;> simp only [nextSibling] at h <;> (try split at h) <;> simp at h <;> subst h <;>
    simp_all [Valid]

theorem valid_parent (t : Tree) (a p : Addr) (hv : Valid t a) (h : parent a = some p) : Valid t p := by
  cases a <;> simp [parent] at h <;> subst h <;> simp_all [Valid]

theorem step_moved_valid (t : Tree) (c c' : Cursor) (u : Bool) (hv : Valid t c.cur) (h : step t c = .moved c' u) :
    Valid t c'.cur := by
  unfold step at h
  split at h
  · rename_i n hd
    simp only [Step.moved.injEq] at h
    obtain ⟨hc, _⟩ := h
    subst hc
    unfold descendTarget at hd
    split at hd
    · simp at hd
    · exact valid_firstChild t _ _ hv hd
  · split at h
    · rename_i n hs
      simp only [Step.moved.injEq] at h
      obtain ⟨hc, _⟩ := h
      subst hc
      exact valid_nextSibling t _ _ hv hs
    · unfold ascend at h
      split at h
      · simp at h
      · split at h
        · simp at h
        · rename_i p hp
          split at h
          · simp at h
          · split at h
            · simp at h
            · simp only [Step.moved.injEq] at h
              obtain ⟨hc, _⟩ := h
              subst hc
              exact valid_parent t _ _ hv hp

theorem step_oob_valid (t : Tree) (c c' : Cursor) (hv : Valid t c.cur) (h : step t c = .oob c') : Valid t c'.cur := by
  unfold step at h
  split at h
  · simp at h
  · split at h
    · simp at h
    · unfold ascend at h
      split at h
      · simp only [Step.oob.injEq] at h; subst h; exact hv
      · split at h
        · simp only [Step.oob.injEq] at h; subst h; exact hv
        · rename_i p hp
          split at h
          · simp only [Step.oob.injEq] at h; subst h; exact hv
          · split at h
            · rename_i hr
              simp only [Step.oob.injEq] at h; subst h; subst hr; simp [Valid]
            · simp at h

/-- every position of the tree -/
def allPos (t : Tree) : List Pos := (nodes t).flatMap (fun a => [⟨a, false⟩, ⟨a, true⟩])

theorem allPos_length (t : Tree) : (allPos t).length = 2 * (nodes t).length := by
  unfold allPos
  induction nodes t with
  | nil => simp
  | cons a r ih => simp only [List.flatMap_cons, List.length_append, ih, List.length_cons, List.length_nil]; omega

theorem mem_allPos (t : Tree) (p : Pos) (h : Valid t p.addr) : p ∈ allPos t := by
  unfold allPos
  rw [List.mem_flatMap]
  refine ⟨p.addr, (mem_nodes t _).mpr h, ?_⟩
  cases p with
  | mk a u => cases u <;> simp

/-- positions of the tree that still lie ahead of the cursor -/
def ahead (t : Tree) (c : Cursor) : Nat := (allPos t).countP (fun p => decide (c.pos.lt p))

theorem countP_lt_of {α : Type} (p q : α → Bool) (l : List α) (hpq : ∀ x ∈ l, p x = true → q x = true) (y : α)
    (hy : y ∈ l) (hq : q y = true) (hp : p y = false) : l.countP p < l.countP q := by
  induction l with
  | nil => simp at hy
  | cons x r ih =>
    rcases List.mem_cons.mp hy with e | e
    · subst e
      have : r.countP p ≤ r.countP q := List.countP_mono_left (fun x hx => hpq x (List.mem_cons_of_mem _ hx))
      simp only [List.countP_cons, hq, hp]
      simp; omega
    · have h1 := ih (fun x hx => hpq x (List.mem_cons_of_mem _ hx)) e
      have h2 := hpq x (by simp)
      simp only [List.countP_cons]
      by_cases hx : p x = true
      · simp [hx, h2 hx]; omega
      · simp [hx]; split <;> omega

theorem ahead_lt (t : Tree) (c c' : Cursor) (hlt : c.pos.lt c'.pos) (hv : Valid t c'.cur) : ahead t c' < ahead t c := by
  unfold ahead
  apply countP_lt_of _ _ _ _ c'.pos (mem_allPos t _ hv)
  · simp [hlt]
  · simp [Pos.lt_irrefl]
  · intro x _ hx
    simp only [decide_eq_true_eq] at hx ⊢
    exact Pos.lt_trans hlt hx

theorem ahead_lt_fuel (t : Tree) (c : Cursor) : ahead t c < fuel t := by
  unfold ahead fuel
  have := List.countP_le_length (p := fun p => decide (c.pos.lt p)) (l := allPos t)
  rw [allPos_length] at this
  omega

theorem drainF_stable (t : Tree) (n f : Nat) (c : Cursor) (hi : Inv c) (hv : Valid t c.cur) (hf : ahead t c < f) :
    drainF t (f + n) c = drainF t f c := by
  induction f generalizing c with
  | zero => omega
  | succ f ih =>
    have e : f + 1 + n = (f + n) + 1 := by omega
    rw [e]
    unfold drainF
    split
    · rename_i c' u hs
      obtain ⟨hi', _, hlt⟩ := step_moved_inv t c c' u hi hs
      have hv' := step_moved_valid t c c' u hv hs
      have := ahead_lt t c c' hlt hv'
      rw [ih c' hi' hv' (by omega)]
    · rfl

/-- more fuel than `fuel t` changes nothing -/
theorem drainF_fuel_suffices (t : Tree) (c : Cursor) (hi : Inv c) (hv : Valid t c.cur) (n : Nat) :
    drainF t (fuel t + n) c = drainV t c :=
  drainF_stable t n (fuel t) c hi hv (ahead_lt_fuel t c)

/-- a call that raised `IterOutOfBounds` raises again when repeated on the state it left behind -/
theorem step_oob_again (t : Tree) (c c' : Cursor) (hi : Inv c) (h : step t c = .oob c') : step t c' = .oob c' := by
  unfold step at h
  split at h
  · simp at h
  · rename_i hd
    split at h
    · simp at h
    · rename_i hs
      unfold ascend at h
      split at h
      · rename_i hc
        simp only [Step.oob.injEq] at h; subst h
        simp [step, hd, hs, ascend, hc]
      · rename_i hc
        split at h
        · rename_i hp
          simp only [Step.oob.injEq] at h; subst h
          simp [step, hd, hs, ascend, hc, hp]
        · rename_i p hp
          split at h
          · rename_i hcp
            simp only [Step.oob.injEq] at h; subst h
            simp [step, hd, hs, ascend, hc, hp, hcp]
          · split at h
            · rename_i hr
              simp only [Step.oob.injEq] at h; subst h; subst hr
              obtain ⟨_, h2, _⟩ := ascend_inv c hi _ hp
              have hin : Addr.root ∈ popIfIn c := by
                simp only [Cursor.pos, Pos.mk.injEq, true_and, decide_eq_true_eq] at h2; exact h2
              simp [step, descendTarget, hin, nextSibling, ascend, closedAt, parent]
            · simp at h

/-- the drain loop ends with `IterOutOfBounds` (never by running out of fuel), leaving a cursor on which a further
    `next` raises again -/
theorem drainF_ends_oob (t : Tree) (f : Nat) (c : Cursor) (hi : Inv c) (hv : Valid t c.cur) (hf : ahead t c < f) :
    next t (drainF t f c).2 = none := by
  induction f generalizing c with
  | zero => omega
  | succ f ih =>
    unfold drainF
    split
    · rename_i c' u hs
      obtain ⟨hi', _, hlt⟩ := step_moved_inv t c c' u hi hs
      have hv' := step_moved_valid t c c' u hv hs
      have := ahead_lt t c c' hlt hv'
      simpa [consV] using ih c' hi' hv' (by omega)
    · rename_i c' hs
      simp [next, step_oob_again t c c' hi hs]

theorem drain_ends_out_of_bounds (t : Tree) (c : Cursor) (hi : Inv c) (hv : Valid t c.cur) :
    next t (drain t c).2 = none :=
  drainF_ends_oob t (fuel t) c hi hv (ahead_lt_fuel t c)

theorem drainF_valid (t : Tree) (f : Nat) (c : Cursor) (hv : Valid t c.cur) :
    Valid t (drainF t f c).2.cur ∧ ∀ v ∈ (drainF t f c).1, Valid t v.addr := by
  induction f generalizing c with
  | zero => simp [drainF, hv]
  | succ f ih =>
    unfold drainF
    split
    · rename_i c' u hs
      have hv' := step_moved_valid t c c' u hv hs
      have r := ih c' hv'
      refine ⟨r.1, ?_⟩
      intro v hm
      simp only [consV, List.mem_cons] at hm
      rcases hm with e | e
      · subst e; exact hv'
      · exact r.2 v e
    · rename_i c' hs
      exact ⟨step_oob_valid t c c' hv hs, by simp⟩

end Pyx12Verif.ErrIter
