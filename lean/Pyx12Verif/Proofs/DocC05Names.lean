/-
C05 at pipeline level, error-tree side (8): the NAMES the acknowledgement writes (`C05.gsNames`: one entry per group with
its functional identifier and control number, followed by one entry per set of the group) are, in order, the
`add_gs_loop` / `add_st_loop` calls of the run (`tree_names`).
-/
import Pyx12Verif.Proofs.DocC05Tree
import Pyx12Verif.Props.C05

namespace Pyx12Verif.DocC05
open Pyx12Verif.ErrTree

theorem allG_eq (t : Tree) : allG t = Ack.allGs t := by
  induction t with
  | nil => rfl
  | cons a r ih => simp [allG, Ack.allGs, ih]

abbrev GK := Option Str × Option Str × Nat
abbrev SK := Option Str × Option Str

def gk (v : GV) : GK := (v.fic, v.ctl, v.nsets)
def sk (v : SV) : SK := (v.id, v.ctl)

def stNameK (k : SK) : C05.Name := .st k.1 (k.2.map Ack.strip)
def gsNameK (k : GK) : C05.Name := .gs (some (Ack.pyStr k.1)) (some (Ack.pyStr k.2.1))

/-- the names in acknowledgement order, from the flat lists: every group takes its number of sets -/
def namesK : List GK → List SK → List C05.Name
  | [], _ => []
  | g :: r, sts => gsNameK g :: ((sts.take g.2.2).map stNameK ++ namesK r (sts.drop g.2.2))

def namesL (gs : List GV) (st : List SV) : List C05.Name := namesK (gs.map gk) (st.map sk)

theorem stNames_eq (l : List St) : C05.stNames l = ((l.map sv).map sk).map stNameK := by
  induction l with
  | nil => rfl
  | cons a r ih => simp [C05.stNames, ih, sv, sk, stNameK]

theorem gsNames_eq (G : List Gs) : C05.gsNames G = namesL (G.map gv) ((stsOf G).map sv) := by
  induction G with
  | nil => rfl
  | cons g r ih =>
    simp only [C05.gsNames, namesL, List.map_cons, namesK, stsOf, List.map_append]
    have hl : (gk (gv g)).2.2 = (List.map sk (List.map sv g.children)).length := by simp [gk, gv]
    rw [hl, List.take_left', List.drop_left', stNames_eq, ih]
    · rfl
    · rfl
    · rfl

theorem gk_core (v : GV) : gk v.core = gk v := rfl
theorem sk_core (v : SV) : sk v.core = sk v := rfl

theorem namesL_core (gs : List GV) (st : List SV) : namesL (gs.map GV.core) (st.map SV.core) = namesL gs st := by
  unfold namesL
  simp only [List.map_map]
  rfl

/-- the tree's names are the ledger's -/
theorem sim_names (s : State) (L : Ledger) (h : Sim s L) : C05.gsNames (Ack.allGs s.tree) = namesL L.gs L.st := by
  rw [← allG_eq, gsNames_eq]
  have h1 := h.gcore
  have h2 := h.score
  unfold gviews at h1
  unfold sviews allS at h2
  rw [← namesL_core, h1, h2, namesL_core]

/-! ### the ledger's names along the calls -/

def evName : Event → Option C05.Name
  | .addGs d => some (.gs (some (Ack.pyStr d.e01)) (some (Ack.pyStr d.ctl)))
  | .addSt d => some (.st d.e01 (d.ctl.map Ack.strip))
  | _ => none

/-- every set record belongs to a group record -/
def Bal (L : Ledger) : Prop := (L.gs.map (fun v => v.nsets)).sum = L.st.length

def nsum (K : List GK) : Nat := (K.map (fun k => k.2.2)).sum

theorem nsum_map_gk (gs : List GV) : nsum (gs.map gk) = (gs.map (fun v => v.nsets)).sum := by
  unfold nsum; rw [List.map_map]; rfl

theorem nsum_snoc (K : List GK) (g : GK) : nsum (K ++ [g]) = nsum K + g.2.2 := by
  unfold nsum; simp

theorem namesK_snoc : ∀ (G : List GK) (S T : List SK) (g : GK), nsum G = S.length →
    namesK (G ++ [g]) (S ++ T) = namesK G S ++ gsNameK g :: (T.take g.2.2).map stNameK := by
  intro G
  induction G with
  | nil =>
    intro S T g h
    have : S = [] := by
      have : S.length = 0 := by rw [← h]; rfl
      exact List.length_eq_zero_iff.1 this
    subst this
    simp [namesK]
  | cons g0 G' ih =>
    intro S T g h
    have h' : g0.2.2 + nsum G' = S.length := by rw [← h]; unfold nsum; simp
    have hle : g0.2.2 ≤ S.length := by omega
    simp only [List.cons_append, namesK]
    rw [List.take_append_of_le_length hle, List.drop_append_of_le_length hle,
      ih (S.drop g0.2.2) T g (by rw [List.length_drop]; omega)]
    simp

/-- a set record appended to the last group -/
theorem namesK_addSt (K : List GK) (g g' : GK) (M : List SK) (x : SK) (hb : nsum K + g.2.2 = M.length)
    (h1 : g'.1 = g.1) (h2 : g'.2.1 = g.2.1) (h3 : g'.2.2 = g.2.2 + 1) :
    namesK (K ++ [g']) (M ++ [x]) = namesK (K ++ [g]) M ++ [stNameK x] := by
  have hsplit : M = M.take (nsum K) ++ M.drop (nsum K) := (List.take_append_drop _ _).symm
  have hS : nsum K = (M.take (nsum K)).length := by rw [List.length_take]; omega
  have hT : (M.drop (nsum K)).length = g.2.2 := by rw [List.length_drop]; omega
  have e1 := namesK_snoc K (M.take (nsum K)) (M.drop (nsum K)) g hS
  have e2 := namesK_snoc K (M.take (nsum K)) (M.drop (nsum K) ++ [x]) g' hS
  rw [← hsplit] at e1
  rw [← List.append_assoc, ← hsplit] at e2
  have t1 : (M.drop (nsum K)).take g.2.2 = M.drop (nsum K) :=
    List.take_of_length_le (by rw [hT]; exact Nat.le_refl _)
  have t2 : (M.drop (nsum K) ++ [x]).take (g.2.2 + 1) = M.drop (nsum K) ++ [x] :=
    List.take_of_length_le (by rw [List.length_append, hT]; simp)
  have : gsNameK g' = gsNameK g := by unfold gsNameK; rw [h1, h2]
  rw [e1, e2, h3, t1, t2, this]
  simp

theorem map_modLast_same {α β : Type} (c : α → β) (f : α → α) (l : List α) (h : ∀ x, c (f x) = c x) :
    (modLast f l).map c = l.map c := by
  rcases snoc_cases l with rfl | ⟨r, x, rfl⟩
  · rfl
  · rw [modLast_snoc]; simp [h]

theorem lstep_names (L : Ledger) (e : Event) (hb : Bal L) (hg : ∀ d, e = .addSt d → L.gs ≠ []) :
    namesL (lstep L e).gs (lstep L e).st = namesL L.gs L.st ++ (evName e).toList ∧ Bal (lstep L e) := by
  have same : ∀ (gs' : List GV) (st' : List SV), gs'.map gk = L.gs.map gk → st'.map sk = L.st.map sk →
      namesL gs' st' = namesL L.gs L.st ++ [] ∧ (gs'.map (fun v => v.nsets)).sum = st'.length := by
    intro gs' st' h1 h2
    unfold namesL
    rw [h1, h2]
    refine ⟨by simp, ?_⟩
    rw [← nsum_map_gk, h1, nsum_map_gk]
    have : st'.length = L.st.length := by
      have := congrArg List.length h2
      simpa using this
    rw [this]; exact hb
  cases e with
  | addGs d =>
    unfold Bal namesL at *
    simp only [lstep, evName, Option.toList, List.map_append, List.map_cons, List.map_nil]
    have := namesK_snoc (L.gs.map gk) (L.st.map sk) [] (gk (newGV d))
      (by rw [nsum_map_gk, hb]; simp)
    simp only [List.append_nil] at this
    rw [this]
    refine ⟨by simp [gk, newGV, gsNameK], ?_⟩
    simp [newGV]; exact hb
  | addSt d =>
    obtain ⟨G, g, hG⟩ : ∃ G g, L.gs = G ++ [g] := by
      rcases snoc_cases L.gs with h | h
      · exact absurd h (hg d rfl)
      · exact h
    unfold Bal namesL at *
    simp only [lstep, evName, Option.toList, hG, modLast_snoc, List.map_append, List.map_cons, List.map_nil]
    rw [hG] at hb
    simp only [List.map_append, List.map_cons, List.map_nil, List.sum_append, List.sum_cons, List.sum_nil,
      Nat.add_zero] at hb
    refine ⟨?_, ?_⟩
    · have := namesK_addSt (G.map gk) (gk g) (gk (bumpSets g)) (L.st.map sk) (sk (newSV d))
        (by rw [nsum_map_gk]; simp [gk]; exact hb) rfl rfl rfl
      rw [this]
      simp [stNameK, sk, newSV]
    · simp [bumpSets]; omega
  | addIsa d => exact same _ _ rfl rfl
  | closeIsa => exact same _ _ rfl rfl
  | addSeg a b c => exact same _ _ rfl rfl
  | addEle a b c => exact same _ _ rfl rfl
  | isaError c => exact same _ _ rfl rfl
  | gsError c => exact same _ _ (map_modLast_same gk bumpErrs L.gs (fun _ => rfl)) rfl
  | stError c => exact same _ _ rfl (map_modLast_same sk markDirty L.st (fun _ => rfl))
  | segError c v =>
    simp only [lstep, evName, Option.toList]
    refine same _ _ (by rw [attach_gs]) ?_
    unfold attach; split
    · exact map_modLast_same sk markDirty L.st (fun _ => rfl)
    · rfl
  | eleError c m v =>
    simp only [lstep, evName, Option.toList]
    refine same _ _ (by rw [attach_gs]) ?_
    unfold attach; split
    · exact map_modLast_same sk markDirty L.st (fun _ => rfl)
    · rfl
  | closeSt => exact same _ _ rfl (map_modLast_same sk closeSV L.st (fun _ => rfl))
  | closeGs ge r => exact same _ _ (map_modLast_same gk _ L.gs (fun _ => rfl)) rfl

theorem run_names : ∀ (evs : List Event) (s s' : State) (L : Ledger), PInv s → Sim s L → Bal L → run s evs = .ok s' →
    namesL (lrun L evs).gs (lrun L evs).st = namesL L.gs L.st ++ evs.filterMap evName := by
  intro evs
  induction evs with
  | nil => intro s s' L _ _ _ _; simp [lrun]
  | cons e r ih =>
    intro s s' L hp h hb hr
    simp only [run] at hr
    cases hs : step s e with
    | crash c => rw [hs] at hr; cases hr
    | ok s1 =>
      rw [hs] at hr
      have hg : ∀ d, e = .addSt d → L.gs ≠ [] := by
        intro d hd
        subst hd
        apply sim_gs_ne s L hp h
        intro hn
        simp [step, addStLoop, hn] at hs
      obtain ⟨h1, h2⟩ := lstep_names L e hb hg
      rw [lrun_cons, ih s1 s' (lstep L e) (step_pinv s s1 e hp hs) (step_sim s s1 e L hp h hs) h2 hr, h1]
      cases hn : evName e <;> simp [hn]

/-- **the names of the tree a run leaves behind are its `add_gs_loop` / `add_st_loop` calls, in order** -/
theorem tree_names (evs : List Event) (s : State) (hr : run State.init evs = .ok s) :
    C05.gsNames (Ack.allGs s.tree) = evs.filterMap evName := by
  obtain ⟨_, hsim⟩ := run_init_sim evs s hr
  rw [sim_names s _ hsim]
  have := run_names evs State.init s Ledger.init PInv.init Sim.init rfl hr
  unfold ledger
  rw [this]
  rfl

end Pyx12Verif.DocC05
