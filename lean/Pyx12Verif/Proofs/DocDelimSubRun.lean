/-
C12 at pipeline level, DIFFERENT component separators — the whole loop, the tail of `x12n_document`, the read result.

`runSegs_rename`       induction over the yielded segments; invariant `AccRel`: loop states swapped (`swL`), error-tree
                       states equal up to the separator (`renS`), per-segment reports and event lists equal up to the
                       separator.
`finish_rename`        `cleanup`, the last `handle_errors`, the verdict and the visitor choice.
`validateRead_rename`  two read results that differ in ISA16 of the first segment only, processed under `d₁` / `d₂`.
-/
import Pyx12Verif.Proofs.DocDelimSubStep

namespace Pyx12Verif.Doc
open Pyx12Verif

/-- the error-tree state with the component separator renamed inside every data string (message texts kept) -/
def renS (a b : Char) (s : ErrTree.State) : ErrTree.State := s.ren (mapComp a b) id

/-- what is compared of one per-segment report -/
def outKey (a b : Char) (o : SegOut) : Str × Bool × Option (Str × List Nat) × List RdErr × List Event :=
  (o.sid, o.matched, o.node, o.popped, o.events.map (renEvent a b))

theorem outKey_of_rel {a b : Char} {o₁ o₂ : SegOut} (h : OutRel a b o₁ o₂) : outKey a b o₁ = outKey a b o₂ := by
  obtain ⟨h1, h2, h3, h4, h5⟩ := h
  simp only [outKey, h1, h2, h3, h4]
  rw [h5]

structure AccRel (ms : Maps) (a b : Char) (x y : Acc) : Prop where
  st : y.st = swL a b x.st
  ok : StOk ms x.st
  est : renS a b x.est = renS a b y.est
  outs : x.outs.map (outKey a b) = y.outs.map (outKey a b)
  events : EvEq a b x.events y.events

inductive EndRel (ms : Maps) (a b : Char) : LoopEnd → LoopEnd → Prop
  | done {x y : Acc} : AccRel ms a b x y → EndRel ms a b (.done x) (.done y)
  | stopped (o : Outcome) {x y : Acc} : AccRel ms a b x y → EndRel ms a b (.stopped o x) (.stopped o y)

/-- two runs of the error handler from states / over events that agree up to the separator end alike -/
theorem run_rel (a b : Char) {s₁ s₂ : ErrTree.State} {e₁ e₂ : List Event} (hs : renS a b s₁ = renS a b s₂)
    (he : EvEq a b e₁ e₂) :
    (∃ c, ErrTree.run s₁ e₁ = .crash c ∧ ErrTree.run s₂ e₂ = .crash c) ∨
    (∃ t₁ t₂, ErrTree.run s₁ e₁ = .ok t₁ ∧ ErrTree.run s₂ e₂ = .ok t₂ ∧ renS a b t₁ = renS a b t₂) := by
  have := ErrTree.run_ren_eq (mapComp a b) id hs he
  revert this
  cases ErrTree.run s₁ e₁ with
  | crash c =>
    cases ErrTree.run s₂ e₂ with
    | crash c' =>
      intro h
      simp only [ErrTree.Res.map, ErrTree.Res.crash.injEq] at h
      exact Or.inl ⟨c, rfl, by rw [h]⟩
    | ok t => intro h; cases h
  | ok t =>
    cases ErrTree.run s₂ e₂ with
    | crash c' => intro h; cases h
    | ok t' =>
      intro h
      simp only [ErrTree.Res.map, ErrTree.Res.ok.injEq] at h
      exact Or.inr ⟨t, t', rfl, rfl, h⟩

theorem pushOut_rel {ms : Maps} {a b : Char} {x y : Acc} (h : AccRel ms a b x y) {st : LState} (hok : StOk ms st)
    {e₁ e₂ : ErrTree.State} (he : renS a b e₁ = renS a b e₂) {o₁ o₂ : SegOut} (ho : OutRel a b o₁ o₂) :
    AccRel ms a b (pushOut x st e₁ o₁) (pushOut y (swL a b st) e₂ o₂) :=
  { st := rfl
    ok := hok
    est := he
    outs := by simp only [pushOut, List.map_append, List.map_cons, List.map_nil, h.outs, outKey_of_rel ho]
    events := h.events.append ho.2.2.2.2 }

/-- **the loop**: induction over the yielded segments with `AccRel` as the invariant -/
theorem runSegs_rename {ms : Maps} {d₁ d₂ : Delims} (N : GlueNeutral ms d₁.sub d₂.sub) (ctx : Ctx) (control : MapX)
    (hc : control ∈ ms.maps) :
    ∀ (ps : List (List SegText.RErr × Seg)) (x y : Acc), (∀ p ∈ ps, SegRen d₁ d₂ p.2) → AccRel ms d₁.sub d₂.sub x y →
      EndRel ms d₁.sub d₂.sub (runSegs ms ctx control d₁ x ps) (runSegs ms ctx control d₂ y ps) := by
  intro ps
  induction ps with
  | nil => intro x y _ h; exact .done h
  | cons p ps ih =>
    intro x y hp h
    simp only [runSegs]
    rw [h.st]
    have hstep := stepSeg_rename N ctx control hc (hp p (by simp)) p.1 x.st h.ok
    revert hstep
    generalize stepSeg ms ctx control d₁ p.1 p.2 x.st = r₁
    generalize stepSeg ms ctx control d₂ p.1 p.2 (swL d₁.sub d₂.sub x.st) = r₂
    intro hstep
    cases hstep with
    | stop o => exact .stopped o h
    | next hok ho =>
      rename_i st out out'
      simp only
      rcases run_rel d₁.sub d₂.sub h.est ho.2.2.2.2 with ⟨c, r1, r2⟩ | ⟨t₁, t₂, r1, r2, ht⟩
      · rw [r1, r2]
        exact .stopped _ (pushOut_rel h hok h.est ho)
      · rw [r1, r2]
        exact ih _ _ (fun q hq => hp q (List.mem_cons_of_mem _ hq)) (pushOut_rel h hok ht ho)

/-! ### after the loop -/

structure ResRel (a b : Char) (r₁ r₂ : DocResult) : Prop where
  outcome : r₁.outcome = r₂.outcome
  segs : r₁.segs.map (outKey a b) = r₂.segs.map (outKey a b)
  events : EvEq a b r₁.events r₂.events
  final : renS a b r₁.final = renS a b r₂.final
  ackKind : r₁.ackKind = r₂.ackKind

theorem neutral_not_digit {c : Char} (h : Envelope.IntNeutral c) (K : Str) (hK : ∀ x ∈ K, Envelope.isDigit x = true) :
    c ∉ K := by
  intro hm
  have := hK c hm
  rw [isDigit_false_of_pyDigitVal h.1] at this
  cases this

theorem take_sw (a b : Char) (n : Nat) (v : Str) : (sw a b v).take n = sw a b (v.take n) := by
  simp [sw, List.map_take]

theorem ackKind_swL {ms : Maps} {a b : Char} (N : GlueNeutral ms a b) (st : LState) :
    ackKind (swL a b st) = ackKind st := by
  have h4a : a ∉ p004010 := neutral_not_digit N.intA _ (by decide)
  have h4b : b ∉ p004010 := neutral_not_digit N.intB _ (by decide)
  have h5a : a ∉ p005010 := neutral_not_digit N.intA _ (by decide)
  have h5b : b ∉ p005010 := neutral_not_digit N.intB _ (by decide)
  unfold ackKind
  have hf : (swL a b st).fic = st.fic.map (sw a b) := rfl
  have hv : (swL a b st).vriic = st.vriic.map (sw a b) := rfl
  rw [hf, hv]
  simp only [optSw_eq_const st.fic sFA N.fa.1 N.fa.2]
  split
  · rfl
  · cases st.vriic with
    | none => rfl
    | some v =>
      simp only [Option.map_some, take_sw, sw_eq_const h4a h4b, sw_eq_const h5a h5b]

theorem finalErrs_swL (rr : SegText.ReadResult) (a b : Char) (st : LState) : finalErrs rr (swL a b st) = finalErrs rr st := by
  simp only [finalErrs]
  have h1 : (swL a b st).pend = st.pend := rfl
  have h2 : (swL a b st).rs = st.rs.ren (sw a b) := rfl
  rw [h1, h2, Envelope.cleanup_ren]

theorem verdict_renS (a b : Char) (valid : Bool) {t₁ t₂ : ErrTree.State} (h : renS a b t₁ = renS a b t₂) :
    ErrTree.verdict valid t₁.tree = ErrTree.verdict valid t₂.tree := by
  have e1 := ErrTree.verdict_ren (mapComp a b) id valid t₁.tree
  have e2 := ErrTree.verdict_ren (mapComp a b) id valid t₂.tree
  have : (renS a b t₁).tree = (renS a b t₂).tree := by rw [h]
  simp only [renS, ErrTree.State.ren] at this
  rw [← e1, ← e2, this]

/-- **`src.cleanup()`, the last `handle_errors`, the verdict, the visitor choice** -/
theorem finish_rename {ms : Maps} {a b : Char} (N : GlueNeutral ms a b) (rr₁ rr₂ : SegText.ReadResult)
    (hcr : rr₁.crashed = rr₂.crashed) (hpe : rr₁.pending = rr₂.pending) {e₁ e₂ : LoopEnd} (h : EndRel ms a b e₁ e₂) :
    ResRel a b (finish rr₁ e₁) (finish rr₂ e₂) := by
  cases h with
  | stopped o h => exact ⟨rfl, h.outs, h.events, h.est, rfl⟩
  | done h =>
    rename_i x y
    simp only [finish, ← hcr]
    split
    · exact ⟨rfl, h.outs, h.events, h.est, rfl⟩
    · have hfe : finalErrs rr₂ y.st = finalErrs rr₁ x.st := by
        rw [h.st, finalErrs_swL]
        simp only [finalErrs, hpe]
      rw [hfe]
      rcases run_rel a b h.est (EvEq.refl a b ((finalErrs rr₁ x.st).map rdEvent)) with
        ⟨c, r1, r2⟩ | ⟨t₁, t₂, r1, r2, ht⟩
      · rw [r1, r2]
        exact ⟨rfl, h.outs, h.events.append (EvEq.refl a b _), h.est, rfl⟩
      · rw [r1, r2]
        refine ⟨?_, h.outs, h.events.append (EvEq.refl a b _), ht, ?_⟩
        · simp only [finishDone, h.st]
          have : (swL a b x.st).valid = x.st.valid := rfl
          rw [this, verdict_renS a b _ ht]
        · simp only [finishDone, h.st, ackKind_swL N]

/-! ### the read result -/

theorem initAcc_rel (ms : Maps) (control : MapX) (hc : control ∈ ms.maps) (a b : Char) :
    AccRel ms a b (initAcc ms control) (initAcc ms control) :=
  { st := rfl
    ok := ⟨fun n hn => by
              have : fetchIn ms control (isaPath ms) = some n := hn
              rw [fetchIn_map this]; exact hc,
           fun m hm => by cases hm⟩
    est := rfl
    outs := rfl
    events := rfl }

/-- **everything after the reader.**  Two read results that differ in ISA16 of their first segment only — `isa` with the
    separator `d₁.sub`, `withIsa16 isa d₂.sub` — processed with `d₁` and with `d₂` under the same control map. -/
theorem validateRead_rename (ms : Maps) (ctx : Ctx) (h₁ h₂ : Tokenizer.Header) (le : List SegText.RErr) (isa : Seg)
    (tail : List (List SegText.RErr × Seg)) (crashed : Bool) (pending : List SegText.RErr)
    (N : GlueNeutral ms h₁.sub h₂.sub) (hicvn : h₁.icvn = h₂.icvn)
    (hw : IsaWith isa h₁.sub)
    (hfree : ∀ k c, k ≠ 15 → isa.elems[k]? = some c → ∀ v ∈ c, h₁.sub ∉ v ∧ h₂.sub ∉ v)
    (htail : ∀ p ∈ tail, SegRen (SegText.delimsOf h₁) (SegText.delimsOf h₂) p.2)
    (hadm : ∀ control n sd, findMap ms (controlFile h₁) = some control → fetchIn ms control (isaPath ms) = some n →
      lookupDef n.map n.ip = some sd →
        Isa16Admits ctx n.map.v5010 sd h₁.sub ∧ Isa16Admits ctx n.map.v5010 sd h₂.sub) :
    ResRel h₁.sub h₂.sub
      (validateRead ms ctx h₁ { segs := (le, isa) :: tail, crashed := crashed, pending := pending })
      (validateRead ms ctx h₂ { segs := (le, withIsa16 isa h₂.sub) :: tail, crashed := crashed, pending := pending }) := by
  have hcf : controlFile h₂ = controlFile h₁ := by simp only [controlFile, hicvn]
  simp only [validateRead, hcf]
  cases hm : findMap ms (controlFile h₁) with
  | none => exact ⟨rfl, rfl, rfl, rfl, rfl⟩
  | some control =>
    simp only
    have hc : control ∈ ms.maps := List.mem_of_find?_eq_some hm
    have N' : GlueNeutral ms (SegText.delimsOf h₁).sub (SegText.delimsOf h₂).sub := N
    have hisa : SegRen (SegText.delimsOf h₁) (SegText.delimsOf h₂) isa :=
      segRen_isa _ _ ⟨hw.id, hw.single, hfree⟩
    have hrun := runSegs_rename N' ctx control hc ((le, isa) :: tail) _ _
      (by
        intro p hp
        rcases List.mem_cons.1 hp with rfl | hp
        · exact hisa
        · exact htail p hp)
      (initAcc_rel ms control hc h₁.sub h₂.sub)
    have hsw : runSegs ms ctx control (SegText.delimsOf h₂) (initAcc ms control) ((le, isa) :: tail) =
        runSegs ms ctx control (SegText.delimsOf h₂) (initAcc ms control) ((le, withIsa16 isa h₂.sub) :: tail) := by
      simp only [runSegs]
      rw [stepSeg_isa16 ms ctx control (SegText.delimsOf h₂) (SegText.delimsOf h₂) le hw h₂.sub (initAcc ms control).st
        (fun n sd hn hl => hadm control n sd hm hn hl)]
    rw [hsw] at hrun
    exact finish_rename N _ _ rfl rfl hrun

end Pyx12Verif.Doc
