/-
Every error code `x12n_document` hands to the error handler is one of pyx12's own literals — no `<`, `>`, `&` in it
(`stepSeg_codes`, `finalErrs_codes`): reader / envelope codes (`lineErr`, `envErr`, `baseErrs`), walker codes
(`werrEvents`), element / composite / surplus / syntax-note codes (`segEvents`).  With Proofs/DocSinksCodes.lean: every
code the HTML report prints is such a literal.
-/
import Pyx12Verif.Model.Document
import Pyx12Verif.Proofs.DocSinksCodes

namespace Pyx12Verif.Doc
open Pyx12Verif

/-- no markup character -/
def Plain (c : Str) : Prop := ∀ ch ∈ c, ch ≠ '<' ∧ ch ≠ '>' ∧ ch ≠ '&'

def plainB (c : Str) : Bool := c.all (fun ch => ch != '<' && ch != '>' && ch != '&')

theorem plain_of_b (c : Str) (h : plainB c = true) : Plain c := by
  intro ch hch
  have := List.all_eq_true.1 h ch hch
  simp only [Bool.and_eq_true, bne_iff_ne, ne_eq] at this
  exact ⟨this.1.1, this.1.2, this.2⟩

/-- all events of a list carry plain codes -/
def EvP (evs : List Event) : Prop := ∀ e ∈ evs, Codes.eventP Plain e

theorem EvP.nil : EvP [] := by intro e he; cases he

theorem EvP.append {a b : List Event} (ha : EvP a) (hb : EvP b) : EvP (a ++ b) := by
  intro e he
  rcases List.mem_append.1 he with h | h
  · exact ha e h
  · exact hb e h

theorem EvP.cons {e : Event} {l : List Event} (he : Codes.eventP Plain e) (hl : EvP l) : EvP (e :: l) := by
  intro x hx
  rcases List.mem_cons.1 hx with rfl | h
  · exact he
  · exact hl x h

theorem EvP.flatten : ∀ (l : List (List Event)), (∀ x ∈ l, EvP x) → EvP l.flatten
  | [], _ => EvP.nil
  | x :: r, h => by
    simp only [List.flatten_cons]
    exact EvP.append (h x (by simp)) (EvP.flatten r (fun y hy => h y (List.mem_cons_of_mem _ hy)))

/-! ### reader / envelope / walker codes -/

def RdP (l : List RdErr) : Prop := ∀ e ∈ l, Plain e.code

theorem RdP.nil : RdP [] := by intro e he; cases he

theorem RdP.append {a b : List RdErr} (ha : RdP a) (hb : RdP b) : RdP (a ++ b) := by
  intro e he
  rcases List.mem_append.1 he with h | h
  · exact ha e h
  · exact hb e h

theorem lineErr_plain (e : SegText.RErr) : Plain (lineErr e).code := by
  cases e <;> exact plain_of_b _ rfl

theorem envErr_plain (e : Envelope.Err) : Plain (envErr e).code := by
  cases e <;> exact plain_of_b _ rfl

theorem map_lineErr (l : List SegText.RErr) : RdP (l.map lineErr) := by
  intro e he
  obtain ⟨x, _, rfl⟩ := List.mem_map.1 he
  exact lineErr_plain x

theorem map_envErr (l : List Envelope.Err) : RdP (l.map envErr) := by
  intro e he
  obtain ⟨x, _, rfl⟩ := List.mem_map.1 he
  exact envErr_plain x

theorem baseErrs_plain (s : Seg) : RdP (baseErrs s) := by
  unfold baseErrs
  refine RdP.append ?_ ?_
  · split
    · intro e he; simp only [List.mem_singleton] at he; subst he; exact plain_of_b _ rfl
    · exact RdP.nil
  · split
    · exact RdP.nil
    · intro e he; simp only [List.mem_singleton] at he; subst he; exact plain_of_b _ rfl

theorem rdEvent_P (e : RdErr) (h : Plain e.code) : Codes.eventP Plain (rdEvent e) := by
  unfold rdEvent
  cases e.level <;> exact h

theorem map_rdEvent (l : List RdErr) (h : RdP l) : EvP (l.map rdEvent) := by
  intro e he
  obtain ⟨x, hx, rfl⟩ := List.mem_map.1 he
  exact rdEvent_P x (h x hx)

theorem werrEvents_P (m : MapX) (sid : Str) (k : Nat) (e : Walker.WErr) : EvP (werrEvents m sid k e) := by
  unfold werrEvents
  cases e.1 <;>
  · intro x hx
    simp only [List.mem_cons, List.mem_nil_iff, or_false] at hx
    rcases hx with rfl | rfl
    all_goals first | trivial | exact plain_of_b _ rfl

/-! ### `node.is_valid` -/

def ERes.EvP : ERes → Prop
  | .ok _ evs => Doc.EvP evs
  | .crash _ => True

theorem evP_andThen {a b : ERes} (ha : a.EvP) (hb : b.EvP) : (a.andThen b).EvP := by
  cases a with
  | crash s => trivial
  | ok v x =>
    cases b with
    | crash s => trivial
    | ok w y => exact EvP.append ha hb

theorem mem_rcond {b : Bool} {x r : Report} (h : r ∈ rcond b x) : r = x := by
  unfold rcond at h
  split at h
  · simpa using h
  · cases h

theorem typeReport_plain (e : ElemX) (d : ElemValid.ElemDef) (v : Str) : Plain (typeReport e d v).code := by
  unfold typeReport
  split
  · exact plain_of_b _ rfl
  · split <;> exact plain_of_b _ rfl

theorem tlReports_plain (e : ElemX) (tl : List Str) (v : Str) : ∀ r ∈ tlReports e tl v, Plain r.code := by
  intro r hr
  unfold tlReports at hr
  split at hr
  · simp only [List.mem_singleton] at hr; subst hr; exact plain_of_b _ rfl
  · split at hr
    · simp only [List.mem_singleton] at hr; subst hr; exact plain_of_b _ rfl
    · cases hr

theorem emptyReports_plain (e : ElemX) (d : ElemValid.ElemDef) : ∀ r ∈ emptyReports e d, Plain r.code := by
  intro r hr
  unfold emptyReports at hr
  split at hr
  · cases hr
  · cases hr
  · split at hr
    · simp only [List.mem_singleton] at hr; subst hr; exact plain_of_b _ rfl
    · cases hr

theorem valueReports_plain (e : ElemX) (d : ElemValid.ElemDef) (c : ElemValid.Ctx) (v : Str) :
    ∀ r ∈ valueReports e d c v, Plain r.code := by
  intro r hr
  unfold valueReports at hr
  split at hr
  · simp only [List.mem_append, List.mem_singleton] at hr
    rcases hr with (hr | hr) | hr
    · rw [mem_rcond hr]; exact plain_of_b _ rfl
    · rw [mem_rcond hr]; exact plain_of_b _ rfl
    · subst hr; exact plain_of_b _ rfl
  · simp only [List.mem_append] at hr
    rcases hr with (((((hr | hr) | hr) | hr) | hr) | hr) | hr
    · rw [mem_rcond hr]; exact plain_of_b _ rfl
    · rw [mem_rcond hr]; exact plain_of_b _ rfl
    · rw [mem_rcond hr]; exact plain_of_b _ rfl
    · rw [mem_rcond hr]; exact plain_of_b _ rfl
    · rw [mem_rcond hr]; exact typeReport_plain e d v
    · split at hr
      · exact tlReports_plain e _ v r hr
      · cases hr
    · rw [mem_rcond hr]; exact plain_of_b _ rfl

theorem elemReports_plain (e : ElemX) (d : ElemValid.ElemDef) (c : ElemValid.Ctx) (i : EIn) :
    ∀ r ∈ elemReports e d c i, Plain r.code := by
  intro r hr
  cases i with
  | composite x =>
    simp only [elemReports, List.mem_singleton] at hr
    subst hr; exact plain_of_b _ rfl
  | absent => exact emptyReports_plain e d r hr
  | simple v =>
    simp only [elemReports, simpleReports] at hr
    split at hr
    · exact emptyReports_plain e d r hr
    · split at hr
      · simp only [List.mem_singleton] at hr; subst hr; exact plain_of_b _ rfl
      · exact valueReports_plain e d c v r hr

theorem elemEvents_P (ctx : Ctx) (v5 : Bool) (pos : Nat) (sub : Option Nat) (e : ElemX) (tl : List Str) (i : EIn) :
    (elemEvents ctx v5 pos sub e tl i).EvP := by
  unfold elemEvents
  split
  · trivial
  · refine EvP.cons trivial ?_
    intro ev hev
    obtain ⟨r, hr, rfl⟩ := List.mem_map.1 hev
    exact elemReports_plain _ _ _ _ r hr

theorem kidsEvents_P (ctx : Ctx) (v5 : Bool) (pos : Nat) : ∀ (ks : List ElemX) (vs : List Str),
    (kidsEvents ctx v5 pos ks vs).EvP := by
  intro ks
  induction ks with
  | nil => intro vs; simp only [kidsEvents]; exact EvP.nil
  | cons k ks ih =>
    intro vs
    cases vs with
    | nil => simp only [kidsEvents]; exact evP_andThen (elemEvents_P _ _ _ _ _ _ _) (ih [])
    | cons v vs => simp only [kidsEvents]; exact evP_andThen (elemEvents_P _ _ _ _ _ _ _) (ih vs)

theorem compErr_P (seq : Nat) (de : Option Str) (code msg : Str) (h : Plain code) : EvP (compErr seq de code msg) := by
  intro e he
  simp only [compErr, List.mem_cons, List.mem_nil_iff, or_false] at he
  rcases he with rfl | rfl
  · trivial
  · exact h

theorem compEvents_P (ctx : Ctx) (v5 : Bool) (u : Usage) (seq : Nat) (nm rd : Str) (de : Option Str)
    (kids : List ElemX) (data : Option (List Str)) : (compEvents ctx v5 u seq nm rd de kids data).EvP := by
  cases data with
  | none =>
    cases u with
    | R => exact compErr_P _ _ _ _ (plain_of_b _ rfl)
    | S => exact EvP.nil
    | N => exact EvP.nil
  | some vs =>
    simp only [compEvents]
    split
    · exact EvP.nil
    · split
      · exact compErr_P _ _ _ _ (plain_of_b _ rfl)
      · unfold compPresentEvents
        split
        · exact compErr_P _ _ _ _ (plain_of_b _ rfl)
        · refine evP_andThen ?_ (kidsEvents_P _ _ _ _ _)
          show EvP _
          split
          · exact compErr_P _ _ _ _ (plain_of_b _ rfl)
          · exact EvP.nil

theorem childAbsent_P (ctx : Ctx) (v5 : Bool) (c : ChildX) : (childAbsent ctx v5 c).EvP := by
  cases c with
  | elem x => exact elemEvents_P _ _ _ _ _ _ _
  | comp u seq nm rd de kids => simp only [childAbsent]; exact compEvents_P _ _ _ _ _ _ _ _ _

theorem childPresent_P (ctx : Ctx) (v5 : Bool) (sep : Char) (sid : Str) (i : Nat) (dt tl : List Str) (data : List Str)
    (c : ChildX) : (childPresent ctx v5 sep sid i dt tl data c).EvP := by
  cases c with
  | elem x =>
    simp only [childPresent, elemAt]
    cases elemIn sep data with
    | none => trivial
    | some i => exact elemEvents_P _ _ _ _ _ _ _
  | comp u seq nm rd de kids => simp only [childPresent]; exact compEvents_P _ _ _ _ _ _ _ _ _

theorem childrenEvents_P (ctx : Ctx) (v5 : Bool) (sep : Char) (sid : Str) (v02 : Option Str) :
    ∀ (cs : List ChildX) (i : Nat) (dt tl : List Str) (es : List (List Str)),
      (childrenEvents ctx v5 sep sid v02 i dt tl cs es).EvP := by
  intro cs
  induction cs with
  | nil => intro i dt tl es; simp only [childrenEvents]; exact EvP.nil
  | cons c cs ih =>
    intro i dt tl es
    cases es with
    | nil => simp only [childrenEvents]; exact evP_andThen (childAbsent_P _ _ _) (ih _ _ _ [])
    | cons e es =>
      simp only [childrenEvents]
      exact evP_andThen (childPresent_P _ _ _ _ _ _ _ _ _) (ih _ _ _ es)

theorem tooManyEvents_P (d : Delims) (sd : SegDef) (s : Seg) : (tooManyEvents d sd s).EvP := by
  unfold tooManyEvents
  split
  · split
    · trivial
    · cases Pipeline.getValue d s sd.children.length with
      | crash => trivial
      | absent => exact EvP.cons trivial (EvP.cons (plain_of_b _ rfl) EvP.nil)
      | value v => exact EvP.cons trivial (EvP.cons (plain_of_b _ rfl) EvP.nil)
  · exact EvP.nil

theorem errCode_plain (c : Char) : Plain (Syn.errCode c) := by
  unfold Syn.errCode
  split <;> exact plain_of_b _ rfl

theorem routeNote_codes (vals : List Str) (n : Syn.Note) (errs : List Syn.EleErr) (h : Syn.routeNote vals n = some errs) :
    ∀ e ∈ errs, Plain e.code := by
  unfold Syn.routeNote Syn.routeVerdict at h
  split at h
  · cases h
  · simp only [Option.some.injEq] at h; subst h; intro e he; cases he
  · unfold Syn.errFor at h
    split at h
    · cases h
    · simp only [Option.some.injEq] at h
      subst h
      intro e he
      simp only [List.mem_singleton] at he
      subst he
      exact errCode_plain _

theorem noteErrEvents_P (sd : SegDef) (sid : Str) (n : Syn.Note) (e : Syn.EleErr) (h : Plain e.code) :
    EvP (noteErrEvents sd sid n e) := by
  unfold noteErrEvents noteAddEle
  refine EvP.append ?_ (EvP.cons h EvP.nil)
  split
  · cases sd.children[e.pos - 1]? with
    | none => exact EvP.nil
    | some c =>
      intro x hx
      simp only [List.mem_singleton] at hx
      subst hx
      cases c <;> trivial
  · exact EvP.nil

theorem notesEvents_P (sd : SegDef) (sid : Str) (vals : List Str) : ∀ (ns : List Syn.Note),
    (notesEvents sd sid vals ns).EvP := by
  intro ns
  induction ns with
  | nil => simp only [notesEvents]; exact EvP.nil
  | cons n ns ih =>
    simp only [notesEvents]
    cases hr : Syn.routeNote vals n with
    | none => trivial
    | some errs =>
      simp only
      refine evP_andThen ?_ ih
      show EvP _
      apply EvP.flatten
      intro x hx
      simp only [List.mem_map] at hx
      obtain ⟨e, he, rfl⟩ := hx
      exact noteErrEvents_P sd sid n e (routeNote_codes vals n errs hr e he)

theorem segEvents_P (ctx : Ctx) (v5 : Bool) (d : Delims) (sd : SegDef) (s : Seg) : (segEvents ctx v5 d sd s).EvP := by
  unfold segEvents
  refine evP_andThen (evP_andThen (tooManyEvents_P d sd s) (childrenEvents_P _ _ _ _ _ _ _ _ _ _)) ?_
  cases SegText.formatComps (Pipeline.sepOf d s.id) s.elems with
  | none => trivial
  | some vals => exact notesEvents_P _ _ _ _

/-! ### the branch per segment kind, one round -/

def Branch.EvP : Branch → Prop
  | .go st _ evs => RdP st.pend ∧ Doc.EvP evs
  | .stop _ => True

theorem popEvents_P (st : LState) (h : RdP st.pend) : EvP (popEvents st) := map_rdEvent _ h

theorem plainTail_P (s : Seg) (st : LState) (n : NodeRef) (h : RdP st.pend) : (plainTail s st n).EvP :=
  ⟨RdP.nil, EvP.cons trivial (popEvents_P st h)⟩

theorem gsTail_P (ms : Maps) (d : Delims) (s : Seg) (st : LState) (m : MapX) (h : RdP st.pend) : (gsTail ms d s st m).EvP := by
  unfold gsTail
  split
  · trivial
  · exact ⟨RdP.nil, EvP.cons trivial (popEvents_P st h)⟩

theorem bhtSwitch_P (ms : Maps) (s : Seg) (st : LState) (m : MapX) (h : RdP st.pend) : (bhtSwitch ms s st m).EvP := by
  unfold bhtSwitch
  split
  · trivial
  · exact plainTail_P s st _ h

theorem withNewMap_P (ms : Maps) (st : LState) (file : Option Str) (k : LState → MapX → Branch)
    (hk : ∀ st' m, st'.pend = st.pend → (k st' m).EvP) : (withNewMap ms st file k).EvP := by
  unfold withNewMap
  split
  · trivial
  · split
    · trivial
    · exact hk _ _ rfl

theorem branch_P (ms : Maps) (d : Delims) (s : Seg) (st : LState) (n : NodeRef) (h : RdP st.pend) : (branch ms d s st n).EvP := by
  unfold branch
  split
  · exact ⟨RdP.nil, EvP.cons trivial (popEvents_P st h)⟩
  · split
    · exact ⟨RdP.nil, EvP.append (popEvents_P st h) (EvP.cons trivial EvP.nil)⟩
    · split
      · unfold gsBranch
        split
        · exact withNewMap_P ms _ _ _ (fun st' m hp => gsTail_P ms d s st' m (by rw [hp]; exact h))
        · split
          · trivial
          · exact gsTail_P ms d s _ _ h
      · split
        · unfold bhtBranch
          split
          · split
            · exact withNewMap_P ms _ _ _ (fun st' m hp => bhtSwitch_P ms s st' m (by rw [hp]; exact h))
            · exact plainTail_P s st n h
          · exact plainTail_P s st n h
        · split
          · exact ⟨RdP.nil, EvP.append (popEvents_P st h) (EvP.cons trivial EvP.nil)⟩
          · split
            · exact ⟨RdP.nil, EvP.cons trivial (popEvents_P st h)⟩
            · split
              · exact ⟨RdP.nil, EvP.append (popEvents_P st h) (EvP.cons trivial EvP.nil)⟩
              · exact plainTail_P s st n h

theorem validate_P (ctx : Ctx) (d : Delims) (s : Seg) (mevs : List Event) (popped : List RdErr) (b : Branch)
    (hm : EvP mevs) (hb : b.EvP) (st' : LState) (out : SegOut) (h : validate ctx d s mevs popped b = .next st' out) :
    RdP st'.pend ∧ EvP out.events := by
  unfold validate at h
  split at h
  · simp at h
  · rename_i st1 n evs
    split at h
    · simp at h
    · rename_i sd _
      have hseg := segEvents_P ctx n.map.v5010 d sd s
      split at h
      · simp at h
      · rename_i v evs2 hev
        rw [hev] at hseg
        simp only [Step.next.injEq] at h
        obtain ⟨rfl, rfl⟩ := h
        exact ⟨hb.1, EvP.append (EvP.append hm hb.2) hseg⟩

/-- **one round**: the pending reader errors and every `err_handler` call of the round carry literal codes -/
theorem stepSeg_codes (ms : Maps) (ctx : Ctx) (control : MapX) (d : Delims) (le : List SegText.RErr) (s : Seg)
    (st st' : LState) (out : SegOut) (hp : RdP st.pend) (h : stepSeg ms ctx control d le s st = .next st' out) :
    RdP st'.pend ∧ EvP out.events := by
  unfold stepSeg withView at h
  split at h
  · simp at h
  · unfold afterReader at h
    split at h
    · simp at h
    · simp at h
    · rename_i r _
      have hp1 : RdP (st.pend ++ List.map lineErr le ++ baseErrs s ++ List.map envErr r.2) :=
        RdP.append (RdP.append (RdP.append hp (map_lineErr le)) (baseErrs_plain s)) (map_envErr r.2)
      unfold afterStep afterFind at h
      split at h
      · simp at h
      · rename_i cnt evs hf
        simp only [Step.next.injEq] at h
        obtain ⟨rfl, rfl⟩ := h
        refine ⟨hp1, ?_⟩
        -- the walker's reports
        unfold findNode at hf
        split at hf
        · simp only [Found.res.injEq] at hf; rw [← hf.2.2]; exact EvP.nil
        · split at hf
          · simp only [Found.res.injEq] at hf; rw [← hf.2.2]; exact EvP.nil
          · split at hf
            · simp at hf
            · simp only [walkFound, foundOf, Found.res.injEq] at hf
              rw [← hf.2.2]
              apply EvP.flatten
              intro x hx
              obtain ⟨e, _, rfl⟩ := List.mem_map.1 hx
              exact werrEvents_P _ _ _ e
      · rename_i n cnt evs hf
        have hm : EvP evs := by
          unfold findNode at hf
          split at hf
          · simp only [Found.res.injEq] at hf; rw [← hf.2.2]; exact EvP.nil
          · split at hf
            · simp only [Found.res.injEq] at hf; rw [← hf.2.2]; exact EvP.nil
            · split at hf
              · simp at hf
              · simp only [walkFound, foundOf, Found.res.injEq] at hf
                rw [← hf.2.2]
                apply EvP.flatten
                intro x hx
                obtain ⟨e, _, rfl⟩ := List.mem_map.1 hx
                exact werrEvents_P _ _ _ e
        exact validate_P ctx d s evs _ _ hm (branch_P ms d s _ n hp1) st' out h

/-- the errors handed over after the loop -/
theorem finalErrs_codes (rr : SegText.ReadResult) (st : LState) (hp : RdP st.pend) : EvP ((finalErrs rr st).map rdEvent) := by
  apply map_rdEvent
  unfold finalErrs
  exact RdP.append (RdP.append hp (map_lineErr _)) (map_envErr _)

end Pyx12Verif.Doc
