/- C10 helper: `Segment.__copy__` (format, then parse the text again) on a segment whose data contains no
   delimiter: what the copy holds, and that it formats to the same text. -/
import Pyx12Verif.Model.DataTree

namespace Pyx12Verif.DataTree

/-! ## split / join -/

theorem splitOn_ne_nil (c : Char) (s : Str) : splitOn c s ≠ [] := by
  induction s with
  | nil => simp [splitOn]
  | cons x r ih =>
    simp only [splitOn]
    split
    · simp
    · split <;> simp

theorem splitOn_no_sep (c : Char) (s : Str) (h : c ∉ s) : splitOn c s = [s] := by
  induction s with
  | nil => simp [splitOn]
  | cons x r ih =>
    simp only [List.mem_cons, not_or] at h
    have hx : x ≠ c := fun e => h.1 e.symm
    simp [splitOn, hx, ih h.2]

theorem splitOn_append_sep (c : Char) (a b : Str) (h : c ∉ a) : splitOn c (a ++ c :: b) = a :: splitOn c b := by
  induction a with
  | nil => simp [splitOn]
  | cons x r ih =>
    simp only [List.mem_cons, not_or] at h
    have hx : x ≠ c := fun e => h.1 e.symm
    simp [splitOn, hx, ih h.2]

theorem joinWith_single (c : Char) (a : Str) : joinWith c [a] = a := by simp [joinWith]

theorem joinWith_cons_cons (c : Char) (a b : Str) (r : List Str) :
    joinWith c (a :: b :: r) = a ++ c :: joinWith c (b :: r) := by simp [joinWith]

theorem splitOn_joinWith (c : Char) (parts : List Str) (hne : parts ≠ []) (h : ∀ x ∈ parts, c ∉ x) :
    splitOn c (joinWith c parts) = parts := by
  induction parts with
  | nil => exact absurd rfl hne
  | cons a r ih =>
    cases r with
    | nil => rw [joinWith_single]; exact splitOn_no_sep c a (h a (by simp))
    | cons b r' =>
      rw [joinWith_cons_cons, splitOn_append_sep c a _ (h a (by simp)),
        ih (by simp) (fun x hx => h x (by simp [hx]))]

theorem mem_joinWith (c : Char) (parts : List Str) (x : Char) (h : x ∈ joinWith c parts) :
    x = c ∨ ∃ p ∈ parts, x ∈ p := by
  induction parts with
  | nil => simp [joinWith] at h
  | cons a r ih =>
    cases r with
    | nil => rw [joinWith_single] at h; exact Or.inr ⟨a, by simp, h⟩
    | cons b r' =>
      rw [joinWith_cons_cons] at h
      simp only [List.mem_append, List.mem_cons] at h
      rcases h with h | h | h
      · exact Or.inr ⟨a, by simp, h⟩
      · exact Or.inl h
      · rcases ih h with h | ⟨p, hp, hx⟩
        · exact Or.inl h
        · exact Or.inr ⟨p, by simp [hp], hx⟩

theorem joinWith_eq_nil (c : Char) (parts : List Str) (h : joinWith c parts = []) :
    parts = [] ∨ parts = [[]] := by
  cases parts with
  | nil => left; rfl
  | cons a r =>
    cases r with
    | nil => rw [joinWith_single] at h; right; rw [h]
    | cons b r' => rw [joinWith_cons_cons] at h; simp at h

/-! ## trimming -/

theorem dropWhile_all {α : Type} (p : α → Bool) (l : List α) (h : ∀ x ∈ l, p x = true) : l.dropWhile p = [] := by
  induction l with
  | nil => rfl
  | cons a r ih => simp [List.dropWhile, h a (by simp), ih (fun x hx => h x (by simp [hx]))]

theorem dropTrailing_all {α : Type} (p : α → Bool) (l : List α) (h : ∀ x ∈ l, p x = true) :
    dropTrailing p l = [] := by
  simp only [dropTrailing]
  rw [dropWhile_all p l.reverse (fun x hx => h x (by simpa using hx))]
  rfl

theorem dropTrailing_last {α : Type} (p : α → Bool) (l : List α) (y : α) (hy : p y = false) :
    dropTrailing p (l ++ [y]) = l ++ [y] := by
  simp [dropTrailing, hy]

theorem dropWhile_spec {α : Type} (p : α → Bool) (r : List α) :
    (∃ e, r = e ++ r.dropWhile p ∧ ∀ x ∈ e, p x = true) ∧
    (r.dropWhile p = [] ∨ ∃ y d, r.dropWhile p = y :: d ∧ p y = false) := by
  induction r with
  | nil => exact ⟨⟨[], by simp, by simp⟩, Or.inl rfl⟩
  | cons a r ih =>
    by_cases ha : p a = true
    · obtain ⟨⟨e, he, hall⟩, h2⟩ := ih
      have hd : (a :: r).dropWhile p = r.dropWhile p := by simp [List.dropWhile, ha]
      rw [hd]
      refine ⟨⟨a :: e, by simp [← he], ?_⟩, h2⟩
      intro x hx; simp only [List.mem_cons] at hx
      rcases hx with rfl | hx
      · exact ha
      · exact hall x hx
    · have ha' : p a = false := by simpa using ha
      have hd : (a :: r).dropWhile p = a :: r := by simp [List.dropWhile, ha']
      rw [hd]
      exact ⟨⟨[], by simp, by simp⟩, Or.inr ⟨a, r, rfl, ha'⟩⟩

/-- the trimmed list is a prefix: `l = dropTrailing p l ++ e` with `e` all blank; it is empty or ends in a
non-blank item -/
theorem dropTrailing_spec {α : Type} (p : α → Bool) (l : List α) :
    (∃ e, l = dropTrailing p l ++ e ∧ ∀ x ∈ e, p x = true) ∧
    (dropTrailing p l = [] ∨ ∃ d y, dropTrailing p l = d ++ [y] ∧ p y = false) := by
  obtain ⟨⟨e, he, hall⟩, h2⟩ := dropWhile_spec p l.reverse
  constructor
  · refine ⟨e.reverse, ?_, fun x hx => hall x (by simpa using hx)⟩
    have := congrArg List.reverse he
    simpa [dropTrailing] using this
  · rcases h2 with h0 | ⟨y, d, hd, hy⟩
    · left; simp [dropTrailing, h0]
    · right; exact ⟨d.reverse, y, by simp [dropTrailing, hd], hy⟩

/-- the two shapes of `trimKeepOne`: everything blank (keep the first item, if any), or cut after the last
non-blank item -/
theorem trimKeepOne_cases {α : Type} (p : α → Bool) (l : List α) :
    (trimKeepOne p l = l.take 1 ∧ ∀ x ∈ l, p x = true) ∨
    (∃ d y e, trimKeepOne p l = d ++ [y] ∧ p y = false ∧ l = d ++ [y] ++ e) := by
  obtain ⟨⟨e, he, hall⟩, h2⟩ := dropTrailing_spec p l
  rcases h2 with h0 | ⟨d, y, hd, hy⟩
  · left
    refine ⟨by simp [trimKeepOne, h0], ?_⟩
    rw [h0] at he; simp at he; rw [he]; exact hall
  · right
    refine ⟨d, y, e, ?_, hy, by rw [← hd]; exact he⟩
    simp only [trimKeepOne, hd]
    cases d <;> simp

theorem trim_nil {α : Type} (p : α → Bool) : trimKeepOne p [] = [] := by simp [trimKeepOne, dropTrailing]
theorem trim_blank : trimKeepOne strEmpty [[]] = [[]] := by decide
theorem trim_blank_comp : trimKeepOne compEmpty [[[]]] = [[[]]] := by decide

theorem trimKeepOne_mem {α : Type} (p : α → Bool) (l : List α) : ∀ x ∈ trimKeepOne p l, x ∈ l := by
  intro x hx
  rcases trimKeepOne_cases p l with ⟨h, _⟩ | ⟨d, y, e, h, _, hl⟩
  · rw [h] at hx; exact List.mem_of_mem_take hx
  · rw [h] at hx; rw [hl]; simp only [List.mem_append] at hx ⊢; exact Or.inl hx

theorem trimKeepOne_eq_nil {α : Type} (p : α → Bool) (l : List α) (h : trimKeepOne p l = []) : l = [] := by
  rcases trimKeepOne_cases p l with ⟨h1, _⟩ | ⟨d, y, e, h1, _, _⟩
  · rw [h1] at h; cases l with
    | nil => rfl
    | cons a b => simp at h
  · rw [h1] at h; simp at h

/-- a list that is already trimmed stays as it is under any item-wise change that preserves blankness -/
theorem trimKeepOne_map_trimmed {α : Type} (p : α → Bool) (f : α → α) (l : List α)
    (hf : ∀ x ∈ l, p (f x) = p x) :
    trimKeepOne p ((trimKeepOne p l).map f) = (trimKeepOne p l).map f := by
  rcases trimKeepOne_cases p l with ⟨h, hall⟩ | ⟨d, y, e, h, hy, hl⟩
  · rw [h]
    cases l with
    | nil => simp [trimKeepOne, dropTrailing]
    | cons a b =>
      have ha : p (f a) = true := by rw [hf a (by simp)]; exact hall a (by simp)
      simp only [List.take_succ_cons, List.take_zero, List.map_cons, List.map_nil]
      simp [trimKeepOne, dropTrailing_all p [f a] (by simp [ha])]
  · rw [h]
    have hy' : p (f y) = false := by rw [hf y (by rw [hl]; simp)]; exact hy
    simp only [List.map_append, List.map_cons, List.map_nil, trimKeepOne, dropTrailing_last p _ _ hy']
    cases d <;> simp

theorem trimKeepOne_idem {α : Type} (p : α → Bool) (l : List α) :
    trimKeepOne p (trimKeepOne p l) = trimKeepOne p l := by
  have := trimKeepOne_map_trimmed p id l (by simp)
  simpa using this

/-! ## one composite -/

/-- what the re-parsed composite holds: the trimmed sub-elements, one blank for the empty composite -/
def compNorm (sub : Char) (c : List Str) : List Str := splitOn sub (compFmt sub c)

theorem compNorm_eq (sub : Char) (c : List Str) (hc : ∀ x ∈ c, sub ∉ x) :
    compNorm sub c = if c = [] then [[]] else trimKeepOne strEmpty c := by
  by_cases h : c = []
  · subst h; simp [compNorm, compFmt, trimKeepOne, dropTrailing, joinWith, splitOn]
  · have hne : trimKeepOne strEmpty c ≠ [] := fun e => h (trimKeepOne_eq_nil _ _ e)
    simp only [h, if_false, compNorm, compFmt]
    exact splitOn_joinWith sub _ hne (fun x hx => hc x (trimKeepOne_mem _ _ x hx))

theorem compEmpty_trim (c : List Str) : compEmpty (trimKeepOne strEmpty c) = compEmpty c := by
  rcases trimKeepOne_cases strEmpty c with ⟨h, hall⟩ | ⟨d, y, e, h, hy, hl⟩
  · rw [h]
    have h1 : compEmpty c = true := by simpa [compEmpty] using hall
    rw [h1]
    simp only [compEmpty, List.all_eq_true]
    intro x hx; exact hall x (List.mem_of_mem_take hx)
  · rw [h]
    have h1 : compEmpty (d ++ [y]) = false := by simp [compEmpty, hy]
    have h2 : compEmpty c = false := by rw [hl]; simp [compEmpty, hy]
    rw [h1, h2]

theorem compEmpty_norm (sub : Char) (c : List Str) (hc : ∀ x ∈ c, sub ∉ x) :
    compEmpty (compNorm sub c) = compEmpty c := by
  rw [compNorm_eq sub c hc]
  by_cases h : c = []
  · subst h; simp [compEmpty, strEmpty]
  · simp only [h, if_false]; exact compEmpty_trim c

theorem compFmt_norm (sub : Char) (c : List Str) (hc : ∀ x ∈ c, sub ∉ x) :
    compFmt sub (compNorm sub c) = compFmt sub c := by
  rw [compNorm_eq sub c hc]
  by_cases h : c = []
  · subst h; simp [compFmt, trim_blank, trim_nil, joinWith]
  · simp only [h, if_false, compFmt, trimKeepOne_idem]

theorem compFmt_no_et (sub et : Char) (c : List Str) (hne : sub ≠ et) (hc : ∀ x ∈ c, et ∉ x) :
    et ∉ compFmt sub c := by
  intro hm
  rcases mem_joinWith sub _ et hm with h | ⟨p, hp, hx⟩
  · exact hne h.symm
  · exact hc p (trimKeepOne_mem _ _ p hp) hx

/-! ## the whole segment -/

/-- a segment whose data contains no delimiter (the X12 well-formedness of segment data) and that is not the ISA
(excluded from the C10 domain: its elements are never split into components) -/
structure SegClean (s : Seg) : Prop where
  sub_ne_et : s.sub ≠ s.et
  id_clean : s.et ∉ s.id
  not_isa : s.id ≠ isaId
  data_clean : ∀ c ∈ s.els, ∀ x ∈ c, s.et ∉ x ∧ s.sub ∉ x

/-- the element list of the copy: trailing blank composites dropped, every composite normalised; one blank
composite when nothing is left -/
def copyEls (s : Seg) : List (List Str) :=
  if s.els = [] then [[[]]] else (trimKeepOne compEmpty s.els).map (compNorm s.sub)

theorem stripTerm_snoc (st : Char) (x : Str) : stripTerm st (x ++ [st]) = x := by
  simp [stripTerm]

/-- **what `Segment.__copy__` holds**: same id and terminators, elements trimmed and normalised -/
theorem segCopy_eq (s : Seg) (h : SegClean s) :
    segCopy s = { id := s.id, els := copyEls s, st := s.st, et := s.et, sub := s.sub } := by
  have hcomps : ∀ x ∈ (trimKeepOne compEmpty s.els).map (compFmt s.sub), s.et ∉ x := by
    intro x hx
    simp only [List.mem_map] at hx
    obtain ⟨c, hc, rfl⟩ := hx
    exact compFmt_no_et s.sub s.et c h.sub_ne_et
      (fun y hy => (h.data_clean c (trimKeepOne_mem _ _ c hc) y hy).1)
  have htext : segFmt s = (s.id ++ s.et :: joinWith s.et ((trimKeepOne compEmpty s.els).map (compFmt s.sub))) ++ [s.st] := by
    simp [segFmt]
  have hsplit : splitOn s.et (s.id ++ s.et :: joinWith s.et ((trimKeepOne compEmpty s.els).map (compFmt s.sub))) =
      s.id :: (if s.els = [] then [[]] else (trimKeepOne compEmpty s.els).map (compFmt s.sub)) := by
    rw [splitOn_append_sep s.et s.id _ h.id_clean]
    by_cases he : s.els = []
    · simp [he, trimKeepOne, dropTrailing, joinWith, splitOn]
    · have hne : (trimKeepOne compEmpty s.els).map (compFmt s.sub) ≠ [] := by
        intro e; simp only [List.map_eq_nil_iff] at e; exact he (trimKeepOne_eq_nil _ _ e)
      simp only [he, if_false]
      rw [splitOn_joinWith s.et _ hne hcomps]
  unfold segCopy
  rw [htext]
  generalize hx : s.id ++ s.et :: joinWith s.et ((trimKeepOne compEmpty s.els).map (compFmt s.sub)) = body at hsplit
  have hbody : body ++ [s.st] ≠ [] := by simp
  cases hb : body ++ [s.st] with
  | nil => exact absurd hb hbody
  | cons ch r =>
    simp only [segParse]
    rw [← hb, stripTerm_snoc, hsplit]
    simp only [mkEls, h.not_isa, if_false, copyEls]
    by_cases he : s.els = []
    · simp [he, splitOn]
    · simp [he, compNorm, Function.comp_def]

/-- **`Segment.__copy__` preserves the text**: the copy formats to exactly what the original formats to -/
theorem segCopy_format (s : Seg) (h : SegClean s) : segFmt (segCopy s) = segFmt s := by
  rw [segCopy_eq s h]
  have key : joinWith s.et ((trimKeepOne compEmpty (copyEls s)).map (compFmt s.sub)) =
      joinWith s.et ((trimKeepOne compEmpty s.els).map (compFmt s.sub)) := by
    simp only [copyEls]
    by_cases he : s.els = []
    · simp [he, trim_blank_comp, compFmt, trim_blank, trim_nil, joinWith]
    · simp only [he, if_false]
      have hcl : ∀ c ∈ s.els, ∀ x ∈ c, s.sub ∉ x := fun c hc x hx => (h.data_clean c hc x hx).2
      rw [trimKeepOne_map_trimmed compEmpty (compNorm s.sub) s.els
        (fun c hc => compEmpty_norm s.sub c (hcl c hc))]
      rw [List.map_map]
      congr 1
      apply List.map_congr_left
      intro c hc
      exact compFmt_norm s.sub c (hcl c (trimKeepOne_mem _ _ c hc))
  simp only [segFmt, key]

/-! ## reading the copy -/

/-- reading a position of a trimmed list: what was cut off reads as the default -/
theorem trim_get {α β : Type} (p : α → Bool) (v : α → β) (z : β) (hv : ∀ x, p x = true → v x = z)
    (l : List α) (k : Nat) : ((trimKeepOne p l)[k]?).elim z v = (l[k]?).elim z v := by
  rcases trimKeepOne_cases p l with ⟨h, hall⟩ | ⟨d, y, e, h, hy, hl⟩
  · rw [h]
    have hr : ∀ o : Option α, (∀ x, o = some x → x ∈ l) → o.elim z v = z := by
      intro o ho
      cases o with
      | none => rfl
      | some x => exact hv x (hall x (ho x rfl))
    rw [hr _ (fun x hx => List.mem_of_mem_take (List.mem_of_getElem? hx)),
      hr _ (fun x hx => List.mem_of_getElem? hx)]
  · rw [h]
    obtain ⟨⟨e', he', hall⟩, _⟩ := dropTrailing_spec p l
    have hT : trimKeepOne p l = dropTrailing p l := by
      rcases hd : dropTrailing p l with _ | ⟨a, b⟩
      · exfalso
        rw [hd] at he'
        have hyl : y ∈ l := by rw [hl]; simp
        have he2 : l = e' := by simpa using he'
        have := hall y (by rw [← he2]; exact hyl)
        rw [hy] at this; cases this
      · simp [trimKeepOne, hd]
    rw [← h, hT]
    conv => rhs; rw [he']
    by_cases hk : k < (dropTrailing p l).length
    · rw [List.getElem?_append_left hk]
    · have hk' : (dropTrailing p l).length ≤ k := by omega
      rw [List.getElem?_append_right hk', List.getElem?_eq_none hk']
      cases ho : e'[k - (dropTrailing p l).length]? with
      | none => rfl
      | some x => exact (hv x (hall x (List.mem_of_getElem? ho))).symm

/-- `get_value` answers with `None` and `''` identified (an absent and a blank element are the same element) -/
def blankNone : Except Err (Option Str) → Except Err Str
  | .error e => .error e
  | .ok none => .ok []
  | .ok (some x) => .ok x

/-- the text a composite answers for a sub-element selector other than `-0` -/
def partVal (sub : Char) (sb : Option Nat) (c : List Str) : Str :=
  match compPart sub c sb with
  | .ok (some x) => x
  | .ok none => []
  | .error _ => []

theorem strEmpty_eq (x : Str) (h : strEmpty x = true) : x = [] := by
  cases x <;> simp_all [strEmpty]

theorem compFmt_blank (sub : Char) (c : List Str) (h : compEmpty c = true) : compFmt sub c = [] := by
  have hall : ∀ x ∈ c, strEmpty x = true := by simpa [compEmpty] using h
  simp only [compFmt, trimKeepOne, dropTrailing_all strEmpty c hall]
  cases c with
  | nil => simp [joinWith]
  | cons a b => simp [joinWith, strEmpty_eq a (hall a (by simp))]

theorem compPart_ok (sub : Char) (c : List Str) (sb : Option Nat) (hsb : sb ≠ some 0) :
    blankNone (compPart sub c sb) = .ok (partVal sub sb c) := by
  cases sb with
  | none => simp [compPart, partVal, blankNone]
  | some k =>
    cases k with
    | zero => exact absurd rfl hsb
    | succ k => cases h : c[k]? <;> simp [compPart, partVal, blankNone, h]

theorem partVal_blank (sub : Char) (sb : Option Nat) (c : List Str) (h : compEmpty c = true) :
    partVal sub sb c = [] := by
  cases sb with
  | none => simp [partVal, compPart, compFmt_blank sub c h]
  | some k =>
    cases k with
    | zero => cases hl : c.getLast? <;> simp [partVal, compPart, hl]
                                     ; exact strEmpty_eq _ ((by simpa [compEmpty] using h : ∀ x ∈ c, strEmpty x = true) _
                                         (List.mem_of_getLast? hl))
    | succ k =>
      cases hk : c[k]? with
      | none => simp [partVal, compPart, hk]
      | some x =>
        simp only [partVal, compPart, hk]
        exact strEmpty_eq x ((by simpa [compEmpty] using h : ∀ x ∈ c, strEmpty x = true) x (List.mem_of_getElem? hk))

theorem partVal_norm (sub : Char) (sb : Option Nat) (c : List Str) (hc : ∀ x ∈ c, sub ∉ x) (hsb : sb ≠ some 0) :
    partVal sub sb (compNorm sub c) = partVal sub sb c := by
  cases sb with
  | none => simp [partVal, compPart, compFmt_norm sub c hc]
  | some k =>
    cases k with
    | zero => exact absurd rfl hsb
    | succ k =>
      have hv : ∀ c' : List Str, partVal sub (some (k + 1)) c' = (c'[k]?).elim [] id := by
        intro c'; cases h' : c'[k]? <;> simp [partVal, compPart, h']
      rw [hv, hv]
      rw [compNorm_eq sub c hc]
      by_cases h : c = []
      · subst h; cases k <;> simp
      · simp only [h, if_false]
        exact trim_get strEmpty id [] (fun x hx => strEmpty_eq x hx) c k

theorem segGet_ok (s : Seg) (e : Nat) (sb : Option Nat) (hsb : sb ≠ some 0) :
    blankNone (segGet s (some (e + 1)) sb) = .ok ((s.els[e]?).elim [] (partVal s.sub sb)) := by
  simp only [segGet]
  cases h : s.els[e]? with
  | none => simp [blankNone]
  | some c => simp [compPart_ok s.sub c sb hsb]

/-- **`get_value` on the copy**: for every element index `01…` and every sub-element selector (whole element or
`-1…`), the copy answers what the original answers, an absent element counting as blank -/
theorem segCopy_getValue (s : Seg) (h : SegClean s) (e : Nat) (sb : Option Nat) (hsb : sb ≠ some 0) :
    blankNone (segGet (segCopy s) (some (e + 1)) sb) = blankNone (segGet s (some (e + 1)) sb) := by
  rw [segGet_ok _ e sb hsb, segGet_ok _ e sb hsb, segCopy_eq s h]
  simp only [copyEls]
  congr 1
  by_cases he : s.els = []
  · simp only [he, if_true]
    cases e with
    | zero => simp [partVal_blank s.sub sb [[]] (by decide)]
    | succ e => simp
  · simp only [he, if_false, List.getElem?_map]
    have hcl : ∀ c ∈ s.els, ∀ x ∈ c, s.sub ∉ x := fun c hc x hx => (h.data_clean c hc x hx).2
    have h1 : ((trimKeepOne compEmpty s.els)[e]?.map (compNorm s.sub)).elim [] (partVal s.sub sb) =
        ((trimKeepOne compEmpty s.els)[e]?).elim [] (partVal s.sub sb) := by
      cases hc : (trimKeepOne compEmpty s.els)[e]? with
      | none => rfl
      | some c =>
        simp only [Option.map_some, Option.elim_some]
        exact partVal_norm s.sub sb c (hcl c (trimKeepOne_mem _ _ c (List.mem_of_getElem? hc))) hsb
    rw [h1]
    exact trim_get compEmpty (partVal s.sub sb) [] (fun c hc => partVal_blank s.sub sb c hc) s.els e

/-! ## segments made from text are clean -/

theorem splitOn_mem (c : Char) (s : Str) : ∀ x ∈ splitOn c s, c ∉ x ∧ ∀ ch ∈ x, ch ∈ s := by
  induction s with
  | nil => simp [splitOn]
  | cons a r ih =>
    intro x hx
    simp only [splitOn] at hx
    split at hx
    · simp only [List.mem_cons] at hx
      rcases hx with rfl | hx
      · simp
      · exact ⟨(ih x hx).1, fun ch hch => by simp [(ih x hx).2 ch hch]⟩
    · rename_i hac
      split at hx
      · rename_i hnil; exact absurd hnil (splitOn_ne_nil c r)
      · rename_i hd tl hsp
        simp only [List.mem_cons] at hx
        have hmem : ∀ y, y = hd ∨ y ∈ tl → y ∈ splitOn c r := by
          intro y hy; rw [hsp]; simpa using hy
        rcases hx with rfl | hx
        · obtain ⟨h1, h2⟩ := ih hd (hmem hd (Or.inl rfl))
          refine ⟨?_, ?_⟩
          · simp only [List.mem_cons, not_or]; exact ⟨fun e => hac e.symm, h1⟩
          · intro ch hch; simp only [List.mem_cons] at hch ⊢
            rcases hch with h | h
            · exact Or.inl h
            · exact Or.inr (h2 ch h)
        · obtain ⟨h1, h2⟩ := ih x (hmem x (Or.inr hx))
          exact ⟨h1, fun ch hch => by simp [h2 ch hch]⟩

/-- **every segment made from text is clean** (`add_segment`, `add_loop`, `delete_segment`, `copy` all build
their segments with `Segment(text, …)`): whatever the text, if the two inner delimiters differ and the id is not
`ISA`, no sub-element contains a delimiter -/
theorem segParse_clean (str : Str) (st et sub : Char) (hne : sub ≠ et)
    (hid : (segParse str st et sub).id ≠ isaId) : SegClean (segParse str st et sub) := by
  cases str with
  | nil =>
    exact ⟨hne, by simp [segParse], hid, by simp [segParse]⟩
  | cons c r =>
    simp only [segParse] at hid ⊢
    cases hsp : splitOn et (stripTerm st (c :: r)) with
    | nil => exact absurd hsp (splitOn_ne_nil _ _)
    | cons h t =>
      simp only [hsp] at hid ⊢
      have hmem := splitOn_mem et (stripTerm st (c :: r))
      rw [hsp] at hmem
      refine ⟨hne, (hmem h (by simp)).1, hid, ?_⟩
      intro comp hcomp x hx
      simp only [mkEls, hid, if_false, List.mem_map] at hcomp
      obtain ⟨e, he, rfl⟩ := hcomp
      have he1 := (hmem e (by simp [he])).1
      obtain ⟨hx1, hx2⟩ := splitOn_mem sub e x hx
      exact ⟨fun hm => he1 (hx2 et hm), hx1⟩

theorem segCopy_clean (s : Seg) (h : SegClean s) : SegClean (segCopy s) := by
  have hid : (segCopy s).id = s.id := by rw [segCopy_eq s h]
  have := segParse_clean (segFmt s) s.st s.et s.sub h.sub_ne_et (by
    have e : segParse (segFmt s) s.st s.et s.sub = segCopy s := rfl
    rw [e, hid]; exact h.not_isa)
  exact this

end Pyx12Verif.DataTree
