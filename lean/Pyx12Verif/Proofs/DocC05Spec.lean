/-
C05 at pipeline level, ledger side: what the recount `ledger` says about STRUCTURED event lists (pure list reasoning,
no tree).

  * `lrun_set_block`    the record of a set opened by `add_st_loop d`, closed by the next `close_st_loop` with only
                        segment-level calls in between, and not closed again before the next `add_st_loop`: identifier and
                        control number of `d`, closed, and code `A` exactly when the calls in between attach nothing;
  * `lrun_group_block`  the record of a group opened by `add_gs_loop d` and closed by `close_gs_loop ge recv`: totals
                        `ge`, `recv`, and as many sets as `add_st_loop`s in between;
  * `anchoredBy`, `setSeen`   the two flags of the ledger, read off the event list declaratively.
-/
import Pyx12Verif.Proofs.DocC05Step2

namespace Pyx12Verif.DocC05
open Pyx12Verif.ErrTree

/-! ### kinds of events -/

def evAddSt : Event → Bool
  | .addSt _ => true
  | _ => false
def evAddGs : Event → Bool
  | .addGs _ => true
  | _ => false
def evCloseSt : Event → Bool
  | .closeSt => true
  | _ => false
def evCloseGs : Event → Bool
  | .closeGs _ _ => true
  | _ => false
def evAddSeg : Event → Bool
  | .addSeg _ _ _ => true
  | _ => false
def evStError : Event → Bool
  | .stError _ => true
  | _ => false
def evSegError : Event → Bool
  | .segError _ _ => true
  | _ => false
def evEleError : Event → Bool
  | .eleError _ _ _ => true
  | _ => false
/-- the calls that make an envelope node the current node -/
def evStruct : Event → Bool
  | .addIsa _ => true
  | .addGs _ => true
  | .addSt _ => true
  | .closeSt => true
  | .closeGs _ _ => true
  | .closeIsa => true
  | _ => false

/-! ### stable prefixes -/

theorem modLast_prefix {α : Type} (f : α → α) (A B : List α) (hB : B ≠ []) : modLast f (A ++ B) = A ++ modLast f B := by
  rcases snoc_cases B with rfl | ⟨r, x, rfl⟩
  · exact absurd rfl hB
  · rw [← List.append_assoc, modLast_snoc, modLast_snoc, List.append_assoc]

theorem modLast_ne_nil {α : Type} (f : α → α) (B : List α) (hB : B ≠ []) : modLast f B ≠ [] := by
  rcases snoc_cases B with rfl | ⟨r, x, rfl⟩
  · exact absurd rfl hB
  · rw [modLast_snoc]; simp

/-- every call touches at most the last set record, or appends one -/
theorem lstep_st_prefix (L : Ledger) (e : Event) (A B : List SV) (hB : B ≠ []) (h : L.st = A ++ B) :
    ∃ B', (lstep L e).st = A ++ B' ∧ B' ≠ [] := by
  cases e with
  | addSt d => exact ⟨B ++ [newSV d], by simp [lstep, h], by simp⟩
  | stError c => exact ⟨modLast markDirty B, by simp [lstep, h, modLast_prefix _ A B hB], modLast_ne_nil _ B hB⟩
  | closeSt => exact ⟨modLast closeSV B, by simp [lstep, h, modLast_prefix _ A B hB], modLast_ne_nil _ B hB⟩
  | segError c v =>
    simp only [lstep, attach]
    split
    · exact ⟨modLast markDirty B, by simp [h, modLast_prefix _ A B hB], modLast_ne_nil _ B hB⟩
    · exact ⟨B, h, hB⟩
  | eleError c m v =>
    simp only [lstep, attach]
    split
    · exact ⟨modLast markDirty B, by simp [h, modLast_prefix _ A B hB], modLast_ne_nil _ B hB⟩
    · exact ⟨B, h, hB⟩
  | addIsa d => exact ⟨B, h, hB⟩
  | addGs d => exact ⟨B, h, hB⟩
  | addSeg a b c => exact ⟨B, h, hB⟩
  | addEle a b c => exact ⟨B, h, hB⟩
  | isaError c => exact ⟨B, h, hB⟩
  | gsError c => exact ⟨B, h, hB⟩
  | closeGs ge r => exact ⟨B, h, hB⟩
  | closeIsa => exact ⟨B, h, hB⟩

theorem lrun_st_prefix : ∀ (evs : List Event) (L : Ledger) (A B : List SV), B ≠ [] → L.st = A ++ B →
    ∃ B', (lrun L evs).st = A ++ B' ∧ B' ≠ [] := by
  intro evs
  induction evs with
  | nil => intro L A B hB h; exact ⟨B, h, hB⟩
  | cons e r ih =>
    intro L A B hB h
    obtain ⟨B1, h1, hB1⟩ := lstep_st_prefix L e A B hB h
    exact ih (lstep L e) A B1 hB1 h1

theorem lstep_gs_prefix (L : Ledger) (e : Event) (A B : List GV) (hB : B ≠ []) (h : L.gs = A ++ B) :
    ∃ B', (lstep L e).gs = A ++ B' ∧ B' ≠ [] := by
  cases e with
  | addGs d => exact ⟨B ++ [newGV d], by simp [lstep, h], by simp⟩
  | addSt d => exact ⟨modLast bumpSets B, by simp [lstep, h, modLast_prefix _ A B hB], modLast_ne_nil _ B hB⟩
  | gsError c => exact ⟨modLast bumpErrs B, by simp [lstep, h, modLast_prefix _ A B hB], modLast_ne_nil _ B hB⟩
  | closeGs ge r => exact ⟨modLast (closeGV L.st ge.value r) B, by simp [lstep, h, modLast_prefix _ A B hB], modLast_ne_nil _ B hB⟩
  | segError c v => simp only [lstep, attach_gs]; exact ⟨B, h, hB⟩
  | eleError c m v => simp only [lstep, attach_gs]; exact ⟨B, h, hB⟩
  | addIsa d => exact ⟨B, h, hB⟩
  | addSeg a b c => exact ⟨B, h, hB⟩
  | addEle a b c => exact ⟨B, h, hB⟩
  | isaError c => exact ⟨B, h, hB⟩
  | stError c => exact ⟨B, h, hB⟩
  | closeSt => exact ⟨B, h, hB⟩
  | closeIsa => exact ⟨B, h, hB⟩

theorem lrun_gs_prefix : ∀ (evs : List Event) (L : Ledger) (A B : List GV), B ≠ [] → L.gs = A ++ B →
    ∃ B', (lrun L evs).gs = A ++ B' ∧ B' ≠ [] := by
  intro evs
  induction evs with
  | nil => intro L A B hB h; exact ⟨B, h, hB⟩
  | cons e r ih =>
    intro L A B hB h
    obtain ⟨B1, h1, hB1⟩ := lstep_gs_prefix L e A B hB h
    exact ih (lstep L e) A B1 hB1 h1

/-! ### numbers of records -/

theorem lstep_st_length (L : Ledger) (e : Event) :
    (lstep L e).st.length = L.st.length + (if evAddSt e then 1 else 0) := by
  have hm : ∀ f, (modLast f L.st).length = L.st.length := by
    intro f
    rcases snoc_cases L.st with h | ⟨r, x, h⟩ <;> rw [h]
    · rfl
    · rw [modLast_snoc]; simp
  cases e <;> simp [lstep, evAddSt, hm, attach]
  all_goals (split <;> simp [hm])

theorem lrun_st_length : ∀ (evs : List Event) (L : Ledger),
    (lrun L evs).st.length = L.st.length + (evs.filter evAddSt).length := by
  intro evs
  induction evs with
  | nil => intro L; rfl
  | cons e r ih =>
    intro L
    rw [lrun_cons, ih, lstep_st_length]
    by_cases h : evAddSt e = true <;> simp [h] <;> omega

theorem lstep_gs_length (L : Ledger) (e : Event) :
    (lstep L e).gs.length = L.gs.length + (if evAddGs e then 1 else 0) := by
  have hm : ∀ f, (modLast f L.gs).length = L.gs.length := by
    intro f
    rcases snoc_cases L.gs with h | ⟨r, x, h⟩ <;> rw [h]
    · rfl
    · rw [modLast_snoc]; simp
  cases e <;> simp [lstep, evAddGs, hm, attach_gs]

theorem lrun_gs_length : ∀ (evs : List Event) (L : Ledger),
    (lrun L evs).gs.length = L.gs.length + (evs.filter evAddGs).length := by
  intro evs
  induction evs with
  | nil => intro L; rfl
  | cons e r ih =>
    intro L
    rw [lrun_cons, ih, lstep_gs_length]
    by_cases h : evAddGs e = true <;> simp [h] <;> omega

/-! ### the body of a set: only segment-level calls -/

/-- the call attaches an error that `err_st.err_count` looks at, given whether an `add_seg` came before -/
def counts (anch : Bool) (e : Event) : Bool := evStError e || ((evSegError e || evEleError e) && anch)

/-- some call of the list attaches such an error; `anch` = state before the list -/
def anyCounts : Bool → List Event → Bool
  | _, [] => false
  | a, e :: r => counts a e || anyCounts (a || evAddSeg e) r

theorem lstep_plain (L : Ledger) (A : List SV) (v : SV) (e : Event) (he : evStruct e = false) (h : L.st = A ++ [v]) :
    (lstep L e).st = A ++ [{ v with dirty := v.dirty || counts L.anchored e }] ∧
      (lstep L e).anchored = (L.anchored || evAddSeg e) ∧ (lstep L e).gs.length = L.gs.length := by
  have hlen := lstep_gs_length L e
  cases e with
  | addIsa d => cases he
  | addGs d => cases he
  | addSt d => cases he
  | closeSt => cases he
  | closeGs ge r => cases he
  | closeIsa => cases he
  | addSeg a b c => exact ⟨by simp [lstep, h, counts, evStError, evSegError, evEleError], by simp [lstep, evAddSeg], by simpa [evAddGs] using hlen⟩
  | addEle a b c => exact ⟨by simp [lstep, h, counts, evStError, evSegError, evEleError], by simp [lstep, evAddSeg], by simpa [evAddGs] using hlen⟩
  | isaError c => exact ⟨by simp [lstep, h, counts, evStError, evSegError, evEleError], by simp [lstep, evAddSeg], by simpa [evAddGs] using hlen⟩
  | gsError c => exact ⟨by simp [lstep, h, counts, evStError, evSegError, evEleError], by simp [lstep, evAddSeg], by simpa [evAddGs] using hlen⟩
  | stError c =>
    refine ⟨?_, by simp [lstep, evAddSeg], by simpa [evAddGs] using hlen⟩
    simp [lstep, h, modLast_snoc, markDirty, counts, evStError]
  | segError c w =>
    refine ⟨?_, by simp [lstep, evAddSeg, attach_anchored], by simpa [evAddGs] using hlen⟩
    simp only [lstep, attach, counts, evStError, evSegError, evEleError, Bool.false_or, Bool.true_or, Bool.true_and]
    cases ha : L.anchored
    · simp [h]
    · simp [h, modLast_snoc, markDirty]
  | eleError c m w =>
    refine ⟨?_, by simp [lstep, evAddSeg, attach_anchored], by simpa [evAddGs] using hlen⟩
    simp only [lstep, attach, counts, evStError, evSegError, evEleError, Bool.false_or, Bool.or_true, Bool.true_and]
    cases ha : L.anchored
    · simp [h]
    · simp [h, modLast_snoc, markDirty]

theorem lrun_plain : ∀ (body : List Event) (L : Ledger) (A : List SV) (v : SV), (∀ e ∈ body, evStruct e = false) →
    L.st = A ++ [v] →
    (lrun L body).st = A ++ [{ v with dirty := v.dirty || anyCounts L.anchored body }] ∧
      (lrun L body).gs.length = L.gs.length := by
  intro body
  induction body with
  | nil => intro L A v _ h; simp [lrun, anyCounts, h]
  | cons e r ih =>
    intro L A v hb h
    obtain ⟨h1, h2, h3⟩ := lstep_plain L A v e (hb e (by simp)) h
    obtain ⟨i1, i2⟩ := ih (lstep L e) A _ (fun x hx => hb x (by simp [hx])) h1
    rw [lrun_cons, i1, i2, h3, h2]
    simp [anyCounts, Bool.or_assoc]

/-! ### after the close: nothing but the next close changes the code -/

theorem lstep_keep (L : Ledger) (A : List SV) (v : SV) (e : Event) (h1 : evCloseSt e = false) (h2 : evAddSt e = false)
    (h : L.st = A ++ [v]) :
    ∃ v', (lstep L e).st = A ++ [v'] ∧ v'.id = v.id ∧ v'.ctl = v.ctl ∧ v'.code = v.code ∧ v'.closed = v.closed := by
  cases e with
  | addSt d => cases h2
  | closeSt => cases h1
  | stError c => exact ⟨markDirty v, by simp [lstep, h, modLast_snoc], rfl, rfl, rfl, rfl⟩
  | segError c w =>
    simp only [lstep, attach]
    split
    · exact ⟨markDirty v, by simp [h, modLast_snoc], rfl, rfl, rfl, rfl⟩
    · exact ⟨v, h, rfl, rfl, rfl, rfl⟩
  | eleError c m w =>
    simp only [lstep, attach]
    split
    · exact ⟨markDirty v, by simp [h, modLast_snoc], rfl, rfl, rfl, rfl⟩
    · exact ⟨v, h, rfl, rfl, rfl, rfl⟩
  | addIsa d => exact ⟨v, h, rfl, rfl, rfl, rfl⟩
  | addGs d => exact ⟨v, h, rfl, rfl, rfl, rfl⟩
  | addSeg a b c => exact ⟨v, h, rfl, rfl, rfl, rfl⟩
  | addEle a b c => exact ⟨v, h, rfl, rfl, rfl, rfl⟩
  | isaError c => exact ⟨v, h, rfl, rfl, rfl, rfl⟩
  | gsError c => exact ⟨v, h, rfl, rfl, rfl, rfl⟩
  | closeGs ge r => exact ⟨v, h, rfl, rfl, rfl, rfl⟩
  | closeIsa => exact ⟨v, h, rfl, rfl, rfl, rfl⟩

theorem lrun_keep : ∀ (p : List Event) (L : Ledger) (A : List SV) (v : SV),
    (∀ e ∈ p, evCloseSt e = false ∧ evAddSt e = false) → L.st = A ++ [v] →
    ∃ v', (lrun L p).st = A ++ [v'] ∧ v'.id = v.id ∧ v'.ctl = v.ctl ∧ v'.code = v.code ∧ v'.closed = v.closed := by
  intro p
  induction p with
  | nil => intro L A v _ h; exact ⟨v, h, rfl, rfl, rfl, rfl⟩
  | cons e r ih =>
    intro L A v hp h
    obtain ⟨v1, a1, a2, a3, a4, a5⟩ := lstep_keep L A v e (hp e (by simp)).1 (hp e (by simp)).2 h
    obtain ⟨v2, b1, b2, b3, b4, b5⟩ := ih (lstep L e) A v1 (fun x hx => hp x (by simp [hx])) a1
    exact ⟨v2, b1, b2.trans a2, b3.trans a3, b4.trans a4, b5.trans a5⟩

/-- what may follow the `close_st_loop` of a set: no second close before the next set is opened -/
def NoReclose (post : List Event) : Prop :=
  ∃ p rest, post = p ++ rest ∧ (∀ e ∈ p, evCloseSt e = false ∧ evAddSt e = false) ∧
    (rest = [] ∨ ∃ d r, rest = .addSt d :: r)

/-- **one set**, from `add_st_loop` to `close_st_loop` -/
theorem lrun_set_block (L : Ledger) (d : StData) (body post : List Event) (hb : ∀ e ∈ body, evStruct e = false)
    (hpost : NoReclose post) :
    ∃ v, (lrun L (.addSt d :: body ++ .closeSt :: post)).st[L.st.length]? = some v ∧ v.id = d.e01 ∧ v.ctl = d.ctl ∧
      v.closed = true ∧ v.code = (if anyCounts false body then ['R'] else ['A']) := by
  obtain ⟨p, rest, rfl, hp, hrest⟩ := hpost
  have e0 : (lstep L (.addSt d)).st = L.st ++ [newSV d] := rfl
  have a0 : (lstep L (.addSt d)).anchored = false := rfl
  obtain ⟨e1, _⟩ := lrun_plain body (lstep L (.addSt d)) L.st (newSV d) hb e0
  rw [a0] at e1
  have e2 : (lstep (lrun (lstep L (.addSt d)) body) .closeSt).st =
      L.st ++ [closeSV { newSV d with dirty := (newSV d).dirty || anyCounts false body }] := by
    show modLast closeSV (lrun (lstep L (.addSt d)) body).st = _
    rw [e1, modLast_snoc]
  obtain ⟨v3, e3, c1, c2, c3, c4⟩ := lrun_keep p _ L.st _ hp e2
  have hrun : lrun L (.addSt d :: body ++ .closeSt :: (p ++ rest)) =
      lrun (lrun (lstep (lrun (lstep L (.addSt d)) body) .closeSt) p) rest := by
    rw [List.cons_append, lrun_cons, lrun_append, lrun_cons, lrun_append]
  have hfin : ∃ B', (lrun L (.addSt d :: body ++ .closeSt :: (p ++ rest))).st = L.st ++ [v3] ++ B' := by
    rw [hrun]
    rcases hrest with rfl | ⟨d', r, rfl⟩
    · exact ⟨[], by rw [List.append_nil]; exact e3⟩
    · rw [lrun_cons]
      have : (lstep (lrun (lstep (lrun (lstep L (.addSt d)) body) .closeSt) p) (.addSt d')).st =
          (L.st ++ [v3]) ++ [newSV d'] := by
        show (lrun (lstep (lrun (lstep L (.addSt d)) body) .closeSt) p).st ++ [newSV d'] = _
        rw [e3]
      obtain ⟨B', hB', _⟩ := lrun_st_prefix r _ (L.st ++ [v3]) [newSV d'] (by simp) this
      exact ⟨B', hB'⟩
  obtain ⟨B', hB'⟩ := hfin
  refine ⟨v3, ?_, ?_, ?_, ?_, ?_⟩
  · rw [hB']; simp
  · rw [c1]; rfl
  · rw [c2]; rfl
  · rw [c4]; rfl
  · rw [c3]
    simp only [closeSV, newSV, Bool.false_or]

/-! ### one group -/

def evGsLevel : Event → Bool
  | .addGs _ => true
  | .closeGs _ _ => true
  | _ => false

theorem lstep_gbody (L : Ledger) (A : List GV) (v : GV) (e : Event) (he : evGsLevel e = false) (h : L.gs = A ++ [v]) :
    ∃ v', (lstep L e).gs = A ++ [v'] ∧ v'.fic = v.fic ∧ v'.ctl = v.ctl ∧ v'.orig = v.orig ∧ v'.recv = v.recv ∧
      v'.closed = v.closed ∧ v'.nsets = v.nsets + (if evAddSt e then 1 else 0) := by
  cases e with
  | addGs d => cases he
  | closeGs ge r => cases he
  | addSt d => exact ⟨bumpSets v, by simp [lstep, h, modLast_snoc], rfl, rfl, rfl, rfl, rfl, rfl⟩
  | gsError c => exact ⟨bumpErrs v, by simp [lstep, h, modLast_snoc], rfl, rfl, rfl, rfl, rfl, rfl⟩
  | segError c w => exact ⟨v, by simp [lstep, attach_gs, h], rfl, rfl, rfl, rfl, rfl, rfl⟩
  | eleError c m w => exact ⟨v, by simp [lstep, attach_gs, h], rfl, rfl, rfl, rfl, rfl, rfl⟩
  | addIsa d => exact ⟨v, h, rfl, rfl, rfl, rfl, rfl, rfl⟩
  | addSeg a b c => exact ⟨v, h, rfl, rfl, rfl, rfl, rfl, rfl⟩
  | addEle a b c => exact ⟨v, h, rfl, rfl, rfl, rfl, rfl, rfl⟩
  | isaError c => exact ⟨v, h, rfl, rfl, rfl, rfl, rfl, rfl⟩
  | stError c => exact ⟨v, h, rfl, rfl, rfl, rfl, rfl, rfl⟩
  | closeSt => exact ⟨v, h, rfl, rfl, rfl, rfl, rfl, rfl⟩
  | closeIsa => exact ⟨v, h, rfl, rfl, rfl, rfl, rfl, rfl⟩

theorem lrun_gbody : ∀ (b : List Event) (L : Ledger) (A : List GV) (v : GV), (∀ e ∈ b, evGsLevel e = false) →
    L.gs = A ++ [v] →
    ∃ v', (lrun L b).gs = A ++ [v'] ∧ v'.fic = v.fic ∧ v'.ctl = v.ctl ∧ v'.orig = v.orig ∧ v'.recv = v.recv ∧
      v'.closed = v.closed ∧ v'.nsets = v.nsets + (b.filter evAddSt).length := by
  intro b
  induction b with
  | nil => intro L A v _ h; exact ⟨v, h, rfl, rfl, rfl, rfl, rfl, rfl⟩
  | cons e r ih =>
    intro L A v hb h
    obtain ⟨v1, a1, a2, a3, a4, a5, a6, a7⟩ := lstep_gbody L A v e (hb e (by simp)) h
    obtain ⟨v2, b1, b2, b3, b4, b5, b6, b7⟩ := ih (lstep L e) A v1 (fun x hx => hb x (by simp [hx])) a1
    refine ⟨v2, b1, b2.trans a2, b3.trans a3, b4.trans a4, b5.trans a5, b6.trans a6, ?_⟩
    rw [b7, a7]
    by_cases hh : evAddSt e = true <;> simp [hh] <;> omega

/-- what may follow the `close_gs_loop` of a group: neither a second close nor another set before the next group -/
def NoRegroup (post : List Event) : Prop :=
  ∃ p rest, post = p ++ rest ∧ (∀ e ∈ p, evGsLevel e = false ∧ evAddSt e = false) ∧
    (rest = [] ∨ ∃ d r, rest = .addGs d :: r)

/-- **one group**, from `add_gs_loop` to `close_gs_loop` -/
theorem lrun_group_block (L : Ledger) (d : GsData) (gbody post : List Event) (ge : GeCount) (recv : Nat)
    (hb : ∀ e ∈ gbody, evGsLevel e = false) (hpost : NoRegroup post) :
    ∃ v, (lrun L (.addGs d :: gbody ++ .closeGs ge recv :: post)).gs[L.gs.length]? = some v ∧ v.fic = d.e01 ∧
      v.ctl = d.ctl ∧ v.closed = true ∧ v.orig = ge.value ∧ v.recv = recv ∧ v.nsets = (gbody.filter evAddSt).length := by
  obtain ⟨p, rest, rfl, hp, hrest⟩ := hpost
  have e0 : (lstep L (.addGs d)).gs = L.gs ++ [newGV d] := rfl
  obtain ⟨v1, e1, a1, a2, _, _, _, a6⟩ := lrun_gbody gbody (lstep L (.addGs d)) L.gs (newGV d) hb e0
  have e2 : (lstep (lrun (lstep L (.addGs d)) gbody) (.closeGs ge recv)).gs =
      L.gs ++ [closeGV (lrun (lstep L (.addGs d)) gbody).st ge.value recv v1] := by
    show modLast (closeGV (lrun (lstep L (.addGs d)) gbody).st ge.value recv) (lrun (lstep L (.addGs d)) gbody).gs = _
    rw [e1, modLast_snoc]
  obtain ⟨v3, e3, c1, c2, c3, c4, c5, c6⟩ := lrun_gbody p _ L.gs _ (fun e he => (hp e he).1) e2
  have hno : (p.filter evAddSt).length = 0 := by
    rw [List.length_eq_zero_iff, List.filter_eq_nil_iff]
    intro e he; simp [(hp e he).2]
  have hrun : lrun L (.addGs d :: gbody ++ .closeGs ge recv :: (p ++ rest)) =
      lrun (lrun (lstep (lrun (lstep L (.addGs d)) gbody) (.closeGs ge recv)) p) rest := by
    rw [List.cons_append, lrun_cons, lrun_append, lrun_cons, lrun_append]
  have hfin : ∃ B', (lrun L (.addGs d :: gbody ++ .closeGs ge recv :: (p ++ rest))).gs = L.gs ++ [v3] ++ B' := by
    rw [hrun]
    rcases hrest with rfl | ⟨d', r, rfl⟩
    · exact ⟨[], by rw [List.append_nil]; exact e3⟩
    · rw [lrun_cons]
      have : (lstep (lrun (lstep (lrun (lstep L (.addGs d)) gbody) (.closeGs ge recv)) p) (.addGs d')).gs =
          (L.gs ++ [v3]) ++ [newGV d'] := by
        show (lrun (lstep (lrun (lstep L (.addGs d)) gbody) (.closeGs ge recv)) p).gs ++ [newGV d'] = _
        rw [e3]
      obtain ⟨B', hB', _⟩ := lrun_gs_prefix r _ (L.gs ++ [v3]) [newGV d'] (by simp) this
      exact ⟨B', hB'⟩
  obtain ⟨B', hB'⟩ := hfin
  refine ⟨v3, ?_, ?_, ?_, ?_, ?_, ?_, ?_⟩
  · rw [hB']; simp
  · rw [c1]; simp only [closeGV]; rw [a1]; rfl
  · rw [c2]; simp only [closeGV]; rw [a2]; rfl
  · rw [c5]; rfl
  · rw [c3]; rfl
  · rw [c4]; rfl
  · rw [c6, hno]; simp only [closeGV, Nat.add_zero]; rw [a6]; simp [newGV]

/-! ### the flags, declaratively -/

/-- the latest pointer-setting call of the list is an `add_seg` -/
def anchoredBy (pre : List Event) : Bool :=
  match pre.reverse.find? (fun x => evStruct x || evAddSeg x) with
  | some x => evAddSeg x
  | none => false

def setSeen (evs : List Event) : Bool := evs.any evAddSt

theorem lstep_anchored (L : Ledger) (e : Event) :
    (lstep L e).anchored = if evStruct e then false else if evAddSeg e then true else L.anchored := by
  cases e <;> simp [lstep, evStruct, evAddSeg, attach_anchored]

/-- the ledger's flag after a list, from the flag before it -/
def anchAfter : Bool → List Event → Bool
  | a, [] => a
  | a, e :: r => anchAfter (if evStruct e then false else if evAddSeg e then true else a) r

theorem lrun_anchored : ∀ (evs : List Event) (L : Ledger), (lrun L evs).anchored = anchAfter L.anchored evs := by
  intro evs
  induction evs with
  | nil => intro L; rfl
  | cons e r ih => intro L; rw [lrun_cons, ih, lstep_anchored]; rfl

theorem lrun_st_nil_iff (evs : List Event) (L : Ledger) : (lrun L evs).st = [] ↔ L.st = [] ∧ evs.any evAddSt = false := by
  have := lrun_st_length evs L
  rw [← List.length_eq_zero_iff, this, ← List.length_eq_zero_iff]
  constructor
  · intro h
    refine ⟨by omega, ?_⟩
    have h0 : (evs.filter evAddSt).length = 0 := by omega
    rw [List.length_eq_zero_iff, List.filter_eq_nil_iff] at h0
    rw [List.any_eq_false]
    intro x hx; simpa using h0 x hx
  · rintro ⟨h1, h2⟩
    have h0 : (evs.filter evAddSt).length = 0 := by
      rw [List.length_eq_zero_iff, List.filter_eq_nil_iff]
      rw [List.any_eq_false] at h2
      intro x hx; simpa using h2 x hx
    omega

theorem anchAfter_snoc : ∀ (evs : List Event) (a : Bool) (e : Event),
    anchAfter a (evs ++ [e]) = if evStruct e then false else if evAddSeg e then true else anchAfter a evs := by
  intro evs
  induction evs with
  | nil => intro a e; rfl
  | cons x r ih => intro a e; simp only [List.cons_append, anchAfter]; exact ih _ e

theorem snoc_induction {α : Type} {P : List α → Prop} (h0 : P []) (h1 : ∀ r x, P r → P (r ++ [x])) : ∀ l, P l := by
  have : ∀ l : List α, P l.reverse := by
    intro l
    induction l with
    | nil => exact h0
    | cons x r ih => rw [List.reverse_cons]; exact h1 _ x ih
  intro l
  have := this l.reverse
  rwa [List.reverse_reverse] at this

theorem anchAfter_eq : ∀ (evs : List Event), anchAfter false evs = anchoredBy evs := by
  intro evs
  induction evs using snoc_induction with
  | h0 => rfl
  | h1 r e ih =>
    rw [anchAfter_snoc]
    unfold anchoredBy
    simp only [List.reverse_append, List.reverse_cons, List.reverse_nil, List.nil_append, List.cons_append, List.find?_cons]
    cases h1 : evStruct e
    · cases h2 : evAddSeg e
      · simp only [Bool.or_self, Bool.false_eq_true, if_false]
        rw [ih]; rfl
      · simp [h2]
    · have : evAddSeg e = false := by cases e <;> simp_all [evStruct, evAddSeg]
      simp [this]

theorem ledger_anchored (evs : List Event) : (ledger evs).anchored = anchoredBy evs := by
  unfold ledger
  rw [lrun_anchored]
  exact anchAfter_eq evs

theorem ledger_st_nil_iff (evs : List Event) : (ledger evs).st = [] ↔ setSeen evs = false := by
  unfold ledger setSeen
  rw [lrun_st_nil_iff]
  simp [Ledger.init]

end Pyx12Verif.DocC05
