/-
C03 run level, missing mandatory segment: the hole is reported when the loop instance that contains it (directly or
in a nested instance) is followed by the next instance of the same loop — `fire_repeat`.

The corner in which this is FALSE (finding "unreported when only the first segment precedes a repeat of the loop"):
the hole is a child of the repeated loop itself and the walk still stands at the position of the loop's first segment;
then the walker meets the first segment again before it looks at the later children.  It is excluded by `hcorner`.
-/
import Pyx12Verif.Proofs.C03RunWFire

namespace Pyx12Verif.WalkerGenW
open Pyx12Verif.MapSkel Pyx12Verif.Walker Pyx12Verif.WalkerGen

set_option linter.unusedSectionVars false
section
variable {K : Consts} {root : List Node} (rootId : Nat) (h : MapOK K root) {s : SegData} {cnt : Counter} {cur : List Nat}
  {q0 : List Nat} {i0 j0 : Nat} {ch0 : List Node} {c0 : Node} {q : List Nat} {a : Nat}
include h

/-- **the reporting step, repeat of the loop at or above the hole** -/
theorem fire_repeat (hinv : Inv root cnt cur) (H : Hole root cur q0 i0 j0 ch0 c0)
    (R : ReadyAtH root cnt cur q0 j0 q a a) (hb : q ++ [a] <+: q0) {ch : List Node} (hch : chAt root q = some ch)
    {lid pos u r : Nat} {w : Bool} {first : Node} {rest : List Node}
    (hc : ch[a]? = some (.loop lid pos u r w (first :: rest)))
    (hseg : first.isSeg = true) (hm : isMatch K first s = true) (hu : u ≠ 2)
    (hrep : r = 0 ∨ cnt.get (keyAt root q ++ [(lid, 0)]) < r)
    (hcorner : q ++ [a] = q0 → first.pos < posAt root (q0 ++ [i0])) :
    (walk K root rootId cnt cur s).node = some (q ++ [a] ++ [0]) ∧
    (walk K root rootId cnt cur s).st =
      { cnt := enterCnt cnt (keyAt root q ++ [(lid, 0)]) first.comp, pending := [],
        errs := [(ErrKind.mandatoryMissing, q0 ++ [j0])] } := by
  have hqi := R.on
  have hte : ∃ t, t ∈ entry K first ∧ hits s t := by
    cases first with
    | loop => simp [Node.isSeg] at hseg
    | seg a b c d e f g =>
      exact ⟨(a, segSKey K a g), by simp [entry], isMatch_hits K _ s hm (a, segSKey K a g) (by simp [nodeSKey])⟩
  obtain ⟨t, hte1, ht⟩ := hte
  have hte : t ∈ entry K (.loop lid pos u r w (first :: rest)) := by rw [entry_loop_first hseg]; exact hte1
  have hne : q ++ [a] ≠ cur := by
    intro e
    obtain ⟨nd, hnd, hns⟩ := hinv.seg
    rw [← e, nodeAt_snoc hch, hc] at hnd
    simp only [Option.some.injEq] at hnd; subst hnd; simp [Node.isSeg] at hns
  obtain ⟨i', hi'⟩ := prefix_extend hqi hne
  obtain ⟨sub, hsub, hlA⟩ := hinv.lev (q ++ [a]) i' hi'
  have hsub' : chAt root (q ++ [a]) = some (first :: rest) := by rw [chAt_snoc hch, hc]
  rw [hsub'] at hsub; simp only [Option.some.injEq] at hsub; subst hsub
  obtain ⟨chx, hchx, hl⟩ := hinv.lev q a hqi
  rw [hch] at hchx; simp only [Option.some.injEq] at hchx; subst hchx
  have hkey : keyAt root (q ++ [a]) = keyAt root q ++ [(lid, 0)] := keyAt_snoc hch hc
  have hcount := hl.here _ hc (by simp [counted, firstIsSeg, hseg])
  simp only [Node.comp] at hcount
  have hr1 : r ≠ 1 := by omega
  have hself : t ∈ selfKeys K r (first :: rest) := by
    have : (firstIsSeg (first :: rest) && r != 1) = true := by simp [firstIsSeg, hseg, hr1]
    simp only [selfKeys, this, ↓reduceIte, firstSegKey]
    cases first with
    | loop => simp [Node.isSeg] at hseg
    | seg a b c d e f g => simpa [entry, nodeSKey] using hte1
  have hf0 : (first :: rest)[0]? = some first := by simp
  -- strictly below the previous instance: the self keys are "later"
  have hlaterA : ∀ p' i'', q ++ [a] <+: p' → p' ≠ q ++ [a] → p' ++ [i''] <+: cur →
      t ∈ (laterFrom K [] [] root p').1 := by
    intro p' i'' h1 h2 h3
    have hp'cur : p' <+: cur := List.IsPrefix.trans (List.prefix_append _ _) h3
    have hlen1 := List.IsPrefix.length_le h1
    have hlenne : (q ++ [a]).length ≠ p'.length := fun e => h2 (prefix_eq_of_length h1 e).symm
    have hAp : q ++ [a] ++ [i'] <+: p' := prefix_of_longer hi' hp'cur (by simp at hlen1 hlenne ⊢; omega)
    obtain ⟨chp, hchp, _⟩ := hinv.lev p' i'' h3
    obtain ⟨sub', hsub''⟩ := chAt_prefix hchp hAp
    obtain ⟨rest', hrest'⟩ := hAp
    rw [← hrest']
    exact laterFrom_self hch hc i' rest' hsub'' hself
  have hbelow : ∀ {p' : List Nat} {i'' : Nat}, q ++ [a] <+: p' → p' ++ [i''] <+: cur → q ++ [a] <+: p' := fun h1 _ => h1
  -- children of the levels strictly below the instance, other than the hole
  have hdeadA : ∀ p' i'' ch' (jc : Nat) (c' : Node), q ++ [a] <+: p' → p' ≠ q ++ [a] → p' ++ [i''] <+: cur →
      chAt root p' = some ch' → ch'[jc]? = some c' → p' ++ [jc] ≠ q0 ++ [j0] →
      Passes K s cnt (keyAt root p') (posAt root (p' ++ [i''])) c' := by
    intro p' i'' ch' jc c' h1 h2 h3 hch' hjc hne'
    rcases R.child h hinv H h1 h3 hch' hjc hne' with hs | hp
    · right; exact ⟨follow_noHit h hch' hjc (hlaterA p' i'' h1 h2 h3) ht, hs⟩
    · left; exact hp
  -- the hole does not match
  have hm0 : isMatch K c0 s = false := by
    apply isMatch_false_of_noHit
    rw [← entry_seg_eq K c0 H.seg]
    by_cases hq : q ++ [a] = q0
    · subst hq
      rw [H.ch] at hsub'; simp only [Option.some.injEq] at hsub'; subst hsub'
      have := H.lt
      exact sib_noHit (uAt_chAt (uAt_root h.un) H.ch).sib H.get hf0 (by omega) hte1 ht
    · exact follow_noHit h H.ch H.get (hlaterA q0 i0 hb (fun e => hq e.symm) H.path) ht
  by_cases hfp : first.pos < posAt root (q ++ [a] ++ [i'])
  · -- the scan of the instance ends, the parent re-enters the loop
    have hdead : ∀ p' i'' ch' (jc : Nat) (c' : Node), q <+: p' → p' ≠ q → p' ++ [i''] <+: cur →
        chAt root p' = some ch' → ch'[jc]? = some c' → p' ++ [jc] ≠ q0 ++ [j0] →
        Passes K s cnt (keyAt root p') (posAt root (p' ++ [i''])) c' := by
      intro p' i'' ch' jc c' h1 h2 h3 hch' hjc hne'
      have hp'cur : p' <+: cur := List.IsPrefix.trans (List.prefix_append _ _) h3
      have hlen1 := List.IsPrefix.length_le h1
      have hlenne : q.length ≠ p'.length := fun e => h2 (prefix_eq_of_length h1 e).symm
      have hAp : q ++ [a] <+: p' := prefix_of_longer hqi hp'cur (by simp; omega)
      by_cases hpA : p' = q ++ [a]
      · subst hpA
        rw [hsub'] at hch'; simp only [Option.some.injEq] at hch'; subst hch'
        have hii : i'' = i' := path_idx_unique h3 hi'
        subst hii
        cases jc with
        | zero => simp at hjc; subst hjc; left; exact hfp
        | succ n =>
          rcases R.child h hinv H (List.prefix_refl _) h3 hsub' hjc hne' with hs | hp
          · right
            exact ⟨sib_noHit (uAt_chAt (uAt_root h.un) hsub').sib hjc hf0 (by omega) hte1 ht, hs⟩
          · left; exact hp
      · exact hdeadA p' i'' ch' jc c' hAp hpA h3 hch' hjc hne'
    have hpre : ∀ (j' : Nat) (c' : Node), j' < a → ch[j']? = some c' → q ++ [j'] ≠ q0 ++ [j0] →
        Passes K s cnt (keyAt root q) (posAt root (q ++ [a])) c' := by
      intro j' c' hj' hc' hne'
      rcases R.pre h hinv H hch hj' hc' hne' with hs | hp
      · right; exact ⟨sib_noHit (uAt_chAt (uAt_root h.un) hch).sib hc' hc (by omega) hte ht, hs⟩
      · left; exact hp
    obtain ⟨loopNode, nid, nid0, oL, pops, hln, hfound⟩ := reach_hole (K := K) rootId h (s := s) hinv H hm0 hqi R.above hch hc
      R.past hdead hpre
    have hpos : ¬ (Node.loop lid pos u r w (first :: rest)).pos < posAt root (q ++ [a]) := by
      simp only [posAt, nodeAt_snoc hch, hc]; omega
    have hres := scan_hit_loop (K := K) (s := s) q (keyAt root q) loopNode nid oL (posAt root (q ++ [a])) pops
      { cnt := cnt, pending := [holeEntry q0 nid0 j0 c0], errs := [] } _ (.loop lid pos u r w (first :: rest))
      (ch.drop (a + 1)) a _ _ hpos rfl
      (isLoopMatch_first _ _ _ hseg hm)
      (gotoSegMatch_first_pend (q ++ [a]) _ { cnt := cnt, pending := [holeEntry q0 nid0 j0 c0], errs := [] } hseg hm hu hrep)
    rw [hfound _ hres]; exact ⟨rfl, rfl⟩
  · -- the first segment is met again inside the instance: only possible when the hole is in a nested instance
    have hq : q ++ [a] ≠ q0 := by
      intro e
      have hfp' := hcorner e
      subst e
      have : i0 = i' := path_idx_unique H.path hi'
      subst this
      exact hfp hfp'
    obtain ⟨loopNode, nid, nid0, oL, pops, hln, hfound⟩ := reach_hole (K := K) rootId h (s := s) hinv H hm0 hi' hb hsub'
      (j := 0) (c := first) (by simp) (fun e => absurd e hq)
      (fun p' i'' ch' jc c' h1 h2 h3 hch' hjc hne' => hdeadA p' i'' ch' jc c' h1 h2 h3 hch' hjc hne')
      (by intro j' c' hj'; omega)
    rcases hln with ⟨hnil, _⟩ | ⟨P0, a', ln, _, hn, hnode, _, _⟩
    · simp at hnil
    · rw [nodeAt_snoc hch, hc] at hnode
      simp only [Option.some.injEq] at hnode
      subst hn; subst hnode
      obtain ⟨pops', pushes', hres⟩ := scan_hit_repeat (K := K) (s := s) (q ++ [a]) (keyAt root (q ++ [a]))
        (.loop lid pos u r w (first :: rest)) nid oL (posAt root (q ++ [a] ++ [i'])) pops
        { cnt := cnt, pending := [holeEntry q0 nid0 j0 c0], errs := [] } _ first (List.drop (0 + 1) (first :: rest)) 0 _ _
        hfp hseg hm (isLoopMatch_first _ _ _ hseg hm)
        (gotoSegMatch_first_pend (q ++ [a]) _ { cnt := cnt, pending := [holeEntry q0 nid0 j0 c0], errs := [] } hseg hm hu
          (by rw [hkey]; exact hrep))
      rw [hfound _ hres, hkey]; exact ⟨rfl, rfl⟩

end

end Pyx12Verif.WalkerGenW
