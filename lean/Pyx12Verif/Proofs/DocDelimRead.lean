/-
C12 strengthened to the LINE-LEVEL reports of the reader wrapper (`X12Reader.__iter__`: `1` for a leading blank, `SEG1` for a
trailing element separator): reading `encode d b segs` yields, for every admissible delimiter triple and every CR/LF
layout, the read result `readSpec segs` — a function of the segment list alone.  C12 `read_encoded` only identified the
segments; here the whole `ReadResult` (per-segment reports, `crashed`, pending reports) is identified.

The only report a clean written segment can draw is `SEG1`: `Segment.format` prints `ID*` for a segment without elements
and keeps ONE element when all are empty, so the printed body ends in the element separator exactly when the last printed
element is empty (`trailEmpty`, which does not mention the delimiters).
-/
import Pyx12Verif.Props.C12

namespace Pyx12Verif.C12
open Pyx12Verif Tokenizer SegText C01

/-! ### last character of a joined list -/

theorem getLast?_cons_or (e : Char) (r : List Char) (x : Option Char) :
    ((e :: r).getLast?).or x = (e :: r).getLast? := by
  cases h : (e :: r).getLast? with
  | none => simp [List.getLast?_eq_none_iff] at h
  | some c => rfl

theorem getLast?_cons_append_cons (a e : Char) (p r : List Char) :
    (a :: (p ++ e :: r)).getLast? = (e :: r).getLast? := by
  have : a :: (p ++ e :: r) = (a :: p) ++ e :: r := rfl
  rw [this, List.getLast?_append]
  exact getLast?_cons_or e r _

theorem getLast?_cons_ne_sep (e : Char) (p : List Char) (h : e ∉ p) : (e :: p).getLast? = some e ↔ p = [] := by
  cases p with
  | nil => simp
  | cons c r =>
    constructor
    · intro hl
      have : (e :: c :: r).getLast? = (c :: r).getLast? := by simp [List.getLast?_cons_cons]
      rw [this] at hl
      exact absurd (List.mem_of_getLast? hl) h
    · intro hn; cases hn

/-- the text `e ++ e.join(P)` ends in the separator iff the last piece is empty (pieces do not contain the separator) -/
theorem last_join_sep (e : Char) : ∀ (P : List (List Char)), (∀ p ∈ P, e ∉ p) →
    ((e :: joinWith e P).getLast? = some e ↔ ∀ p, P.getLast? = some p → p = []) := by
  intro P
  induction P with
  | nil => intro _; simp [joinWith]
  | cons p r ih =>
    intro h
    cases r with
    | nil =>
      simp only [joinWith, List.getLast?_singleton, Option.some.injEq]
      rw [getLast?_cons_ne_sep e p (h p (by simp))]
      constructor
      · intro hp q hq; rw [← hq]; exact hp
      · intro hq; exact hq p rfl
    | cons q r =>
      rw [joinWith_cons_ne _ _ _ (by simp), getLast?_cons_append_cons, List.getLast?_cons_cons]
      exact ih (fun x hx => h x (List.mem_cons_of_mem _ hx))

theorem joinWith_eq_nil (x : Char) (l : List (List Char)) (hne : l ≠ []) : joinWith x l = [] ↔ l = [[]] := by
  cases l with
  | nil => exact absurd rfl hne
  | cons p r =>
    cases r with
    | nil => simp [joinWith]
    | cons q r => rw [joinWith_cons_ne _ _ _ (by simp)]; simp

/-! ### the line-level report of a written segment -/

/-- the last element `Segment.format` prints is empty (or there is none): the printed body ends in the element
    separator.  No delimiter is mentioned. -/
def trailEmpty (s : Seg) : Bool :=
  match (keptSpec s.elems).getLast? with
  | none => true
  | some c => normComp c == [[]]

/-- what `X12Reader.__iter__` appends to `err_list` for the written segment -/
def lineReports (s : Seg) : List RErr := if trailEmpty s then [.trailingSep] else []

theorem body_last_sep (d : Delims) (s : Seg) (hd : d.Distinct) (hc : ValuesClean d s) (c : Char)
    (hl : (bodyOf d s).getLast? = some c) : c = d.ele ↔ trailEmpty s = true := by
  have hbody : (bodyOf d s).getLast? =
      (d.ele :: joinWith d.ele ((keptSpec s.elems).map (fun c => joinWith d.sub (normComp c)))).getLast? := by
    unfold bodyOf
    rw [List.getLast?_append]
    exact getLast?_cons_or _ _ _
  rw [hbody] at hl
  have hP : ∀ p ∈ (keptSpec s.elems).map (fun c => joinWith d.sub (normComp c)), d.ele ∉ p := by
    intro p hp
    simp only [List.mem_map] at hp
    obtain ⟨k, hk, rfl⟩ := hp
    exact ele_not_mem_fmt d s hd hc k (mem_keptSpec hk)
  have key := last_join_sep d.ele _ hP
  have hiff : c = d.ele ↔ (d.ele :: joinWith d.ele ((keptSpec s.elems).map
      (fun c => joinWith d.sub (normComp c)))).getLast? = some d.ele := by
    rw [hl]; simp
  rw [hiff, key, List.getLast?_map]
  unfold trailEmpty
  cases hk : (keptSpec s.elems).getLast? with
  | none => simp
  | some k =>
    simp only [Option.map_some, Option.some.injEq, forall_eq', beq_iff_eq]
    exact joinWith_eq_nil d.sub (normComp k) (normComp_ne_nil k)

/-- the wrapper on the printed body of a clean segment: the normal form, reported with `lineReports` -/
theorem wrapLine_body_reports (d : Delims) (s : Seg) (hd : d.Distinct) (hc : Clean d s) :
    wrapLine d (bodyOf d s) = .seg (lineReports s) (normSeg s) := by
  obtain ⟨hv, hh⟩ := hc
  have hsp : (bodyOf d s).head? ≠ some ' ' := by
    intro h
    rw [head_bodyOf] at h
    exact (hh _ h).2.2 rfl
  have hp : parseSeg d (bodyOf d s) = some (normSeg s) := by
    rw [parseSeg_of_no_term d _ (bodyOf_ne_nil d s) (term_not_mem_body d s hd hv)]
    exact parse_body d s hd hv
  unfold wrapLine afterStrip
  simp only [hsp, if_false, hp]
  cases hl : (bodyOf d s).getLast? with
  | none => simp [List.getLast?_eq_none_iff] at hl; exact absurd hl (bodyOf_ne_nil d s)
  | some c =>
    simp only [List.nil_append]
    congr 1
    have := body_last_sep d s hd hv c hl
    unfold sepErr lineReports
    by_cases hce : c = d.ele
    · simp [hce, this.1 hce]
    · have : trailEmpty s ≠ true := fun h => hce (this.2 h)
      simp [hce, this]

/-- the read result of a written segment list: the normal forms, each with its own line report; nothing pending, no crash -/
def readSpec : List RErr → List Seg → ReadResult
  | pend, [] => { segs := [], crashed := false, pending := pend }
  | pend, s :: ss => (readSpec [] ss).push (pend ++ lineReports s) (normSeg s)

theorem readLines_bodies_reports (d : Delims) (hd : d.Distinct) (segs : List Seg) (hc : ∀ s ∈ segs, Clean d s) :
    ∀ pend, readLines d pend (segs.map (bodyOf d)) = readSpec pend segs := by
  induction segs with
  | nil => intro pend; rfl
  | cons s ss ih =>
    intro pend
    simp only [List.map_cons, readLines, wrapLine_body_reports d s hd (hc s (by simp)), readSpec]
    rw [ih (fun x hx => hc x (List.mem_cons_of_mem _ hx)) []]

theorem readSpec_segs (segs : List Seg) : ∀ pend, (readSpec pend segs).segs.map (·.2) = segs.map normSeg := by
  induction segs with
  | nil => intro pend; rfl
  | cons s ss ih => intro pend; simp only [readSpec, ReadResult.push, List.map_cons, ih []]

theorem readSpec_crashed (segs : List Seg) : ∀ pend, (readSpec pend segs).crashed = false := by
  induction segs with
  | nil => intro pend; rfl
  | cons s ss ih => intro pend; simp only [readSpec, ReadResult.push, ih []]

/-- **C12 `read_encoded`, with the line-level reports.**  Written with delimiters `d` (pairwise distinct, absent from the
    data) and any CR/LF run `b` after each terminator, headed by a line that declares `d`, and read through any read-size
    oracle: the reader returns exactly `readSpec [] segs` — segments, per-segment reports, no crash, nothing pending —
    in which neither `d` nor `b` occurs. -/
theorem read_encoded_reports (d : Delims) (hd : d.Distinct) (b : List Char) (hb : AllBrk b) (segs : List Seg)
    (hc : ∀ s ∈ segs, Clean d s) (txt : List Char) (henc : encode d b segs = some txt)
    (sizes : List Nat) (hs : ∀ k ∈ sizes, 1 ≤ k) (hdr : Header)
    (hh : parseHeader (txt.take ISA_LEN) = .ok hdr) (hdel : delimsOf hdr = d) :
    readAll { rest := txt, sizes := sizes } = .ok hdr (readSpec [] segs) := by
  have e1 := encode_eq d b segs (fun s hs c hm => ((hc s hs).1.2.2 c hm).1)
  rw [henc] at e1
  have htxt : txt = encText d b segs := Option.some.inj e1
  have hterm : hdr.seg = d.term := by rw [← hdel]; rfl
  unfold readAll
  rw [raw_chunk_independent txt sizes hs]
  unfold rawSpec
  rw [hh]
  simp only [hdel, hterm]
  congr 1
  have := spec_encText d b hb hd segs hc [] (by intro c hc; simp at hc)
  simp only [List.nil_append] at this
  rw [htxt, this]
  exact readLines_bodies_reports d hd segs hc []

/-- **C12 `reencode_invariant`, with the line-level reports**: two admissible encodings of one segment list are read into
    the same read result (the headers differ: they carry the delimiters). -/
theorem reencode_reports_invariant (d₁ d₂ : Delims) (b₁ b₂ : List Char) (segs : List Seg)
    (h : Admissible d₁ d₂ segs) (hb₁ : AllBrk b₁) (hb₂ : AllBrk b₂)
    (t₁ t₂ : List Char) (e₁ : encode d₁ b₁ segs = some t₁) (e₂ : encode d₂ b₂ segs = some t₂)
    (s₁ s₂ : List Nat) (hs₁ : ∀ k ∈ s₁, 1 ≤ k) (hs₂ : ∀ k ∈ s₂, 1 ≤ k) (hdr₁ hdr₂ : Header)
    (hh₁ : parseHeader (t₁.take ISA_LEN) = .ok hdr₁) (hh₂ : parseHeader (t₂.take ISA_LEN) = .ok hdr₂)
    (hd₁ : delimsOf hdr₁ = d₁) (hd₂ : delimsOf hdr₂ = d₂) :
    ∃ r, readAll { rest := t₁, sizes := s₁ } = .ok hdr₁ r ∧ readAll { rest := t₂, sizes := s₂ } = .ok hdr₂ r ∧
      r.crashed = false ∧ r.segs.map (·.2) = segs.map normSeg ∧ r = readSpec [] segs := by
  obtain ⟨h1, h2, h3⟩ := h
  exact ⟨readSpec [] segs,
    read_encoded_reports d₁ h1 b₁ hb₁ segs (fun s hs => (h3 s hs).1) t₁ e₁ s₁ hs₁ hdr₁ hh₁ hd₁,
    read_encoded_reports d₂ h2 b₂ hb₂ segs (fun s hs => (h3 s hs).2) t₂ e₂ s₂ hs₂ hdr₂ hh₂ hd₂,
    readSpec_crashed segs [], readSpec_segs segs [], rfl⟩

/-! non-vacuity: a segment without elements and a segment whose only element is empty draw `SEG1` in both encodings -/

def docR : List Seg := [⟨"ST".toList, [["837".toList], ["0001".toList]]⟩, ⟨"ZZ".toList, []⟩, ⟨"REF".toList, [[[]], [[]]]⟩]

example : encode dA ['\r', '\n'] docR = some "ST*837*0001~\r\nZZ*~\r\nREF*~\r\n".toList := by decide
example : encode dB [] docR = some "ST|837|0001\nZZ|\nREF|\n".toList := by decide
example : readLines dA [] (spec dA.term "ST*837*0001~\r\nZZ*~\r\nREF*~\r\n".toList) = readSpec [] docR := by decide
example : readLines dB [] (spec dB.term "ST|837|0001\nZZ|\nREF|\n".toList) = readSpec [] docR := by decide
example : (readSpec [] docR).segs.map (·.1) = [[], [.trailingSep], [.trailingSep]] := by decide

end Pyx12Verif.C12
