/- helper lemmas about the data-tree model (addresses, modification at an address, serialisation) -/
import Pyx12Verif.Model.DataTree

namespace Pyx12Verif.DataTree

/-! ## lists -/

theorem modify_split {α : Type} (cs : List α) (i : Nat) (g : α → α) (c : α) (h : cs[i]? = some c) :
    cs = cs.take i ++ c :: cs.drop (i + 1) ∧ cs.modify i g = cs.take i ++ g c :: cs.drop (i + 1) := by
  induction cs generalizing i with
  | nil => simp at h
  | cons x r ih =>
    cases i with
    | zero => simp at h; simp [h]
    | succ k =>
      simp at h
      have := ih k h
      constructor
      · simp; exact this.1
      · simp; exact this.2

theorem segsOfList_append (a b : List DNode) : segsOfList (a ++ b) = segsOfList a ++ segsOfList b := by
  induction a with
  | nil => simp [segsOfList]
  | cons x r ih => simp [segsOfList, ih]

theorem segsOfList_cons (c : DNode) (r : List DNode) : segsOfList (c :: r) = segsOf c ++ segsOfList r := by
  simp [segsOfList]

theorem segsOfList_cleanup (cs : List DNode) : segsOfList (cleanup cs) = segsOfList cs := by
  induction cs with
  | nil => simp [cleanup, segsOfList]
  | cons c r ih =>
    cases c with
    | dead =>
      have : cleanup (DNode.dead :: r) = cleanup r := by simp [cleanup, isLive, isDead]
      simp [this, segsOfList, segsOf]; exact ih
    | seg d s =>
      have : cleanup (DNode.seg d s :: r) = DNode.seg d s :: cleanup r := by simp [cleanup, isLive, isDead]
      rw [this]; simp [segsOfList]; exact ih
    | loop h mk cs =>
      have : cleanup (DNode.loop h mk cs :: r) = DNode.loop h mk cs :: cleanup r := by simp [cleanup, isLive, isDead]
      rw [this]; simp [segsOfList]; exact ih

theorem segsOfList_insertAt (i : Nat) (n : DNode) (cs : List DNode) :
    segsOfList (insertAt i n cs) = segsOfList (cs.take i) ++ segsOf n ++ segsOfList (cs.drop i) := by
  simp [insertAt, segsOfList_append, segsOfList]

theorem segsOfList_take_drop (i : Nat) (cs : List DNode) :
    segsOfList cs = segsOfList (cs.take i) ++ segsOfList (cs.drop i) := by
  rw [← segsOfList_append, List.take_append_drop]

/-! ## addresses -/

theorem getAt_nil (t : DNode) : getAt [] t = some t := by simp [getAt]

theorem getAt_cons_loop (i : Nat) (r : List Nat) (h : Hdr) (mk : List MNode) (cs : List DNode) :
    getAt (i :: r) (.loop h mk cs) = (cs[i]?).bind (getAt r) := by
  simp only [getAt]
  cases cs[i]? <;> simp

theorem getAt_cons_seg (i : Nat) (r : List Nat) (d : SegDef) (s : Seg) : getAt (i :: r) (.seg d s) = none := by
  simp [getAt]

theorem getAt_cons_dead (i : Nat) (r : List Nat) : getAt (i :: r) .dead = none := by
  simp [getAt]

theorem getAt_append (a b : List Nat) (t : DNode) : getAt (a ++ b) t = (getAt a t).bind (getAt b) := by
  induction a generalizing t with
  | nil => simp [getAt]
  | cons i r ih =>
    cases t with
    | seg d s => simp [getAt]
    | dead => simp [getAt]
    | loop h mk cs =>
      simp only [List.cons_append, getAt_cons_loop]
      cases hc : cs[i]? with
      | none => simp
      | some c => simp [ih]

/-- a node found at an address: the serialisation splits around it, and modifying there replaces the middle -/
theorem segsOf_split (x : List Nat) (t n : DNode) (h : getAt x t = some n) :
    ∃ l1 l2, segsOf t = l1 ++ segsOf n ++ l2 ∧ ∀ f, segsOf (modifyAt f x t) = l1 ++ segsOf (f n) ++ l2 := by
  induction x generalizing t with
  | nil =>
    simp [getAt] at h
    subst h
    exact ⟨[], [], by simp, by intro f; simp [modifyAt]⟩
  | cons i r ih =>
    cases t with
    | seg d s => simp [getAt] at h
    | dead => simp [getAt] at h
    | loop hd mk cs =>
      rw [getAt_cons_loop] at h
      cases hc : cs[i]? with
      | none => simp [hc] at h
      | some c =>
        simp [hc] at h
        obtain ⟨l1, l2, h1, h2⟩ := ih c h
        have hs := modify_split cs i id c hc
        refine ⟨segsOfList (cs.take i) ++ l1, l2 ++ segsOfList (cs.drop (i + 1)), ?_, ?_⟩
        · simp only [segsOf]
          conv => lhs; rw [hs.1]
          simp [segsOfList_append, segsOfList_cons, h1, List.append_assoc]
        · intro f
          have hs2 := modify_split cs i (modifyAt f r) c hc
          simp only [modifyAt, segsOf]
          rw [hs2.2]
          simp [segsOfList_append, segsOfList_cons, h2 f, List.append_assoc]

theorem getAt_modifyAt_same (f : DNode → DNode) (x : List Nat) (t : DNode) :
    getAt x (modifyAt f x t) = (getAt x t).map f := by
  induction x generalizing t with
  | nil => simp [getAt, modifyAt]
  | cons i r ih =>
    cases t with
    | seg d s => simp [getAt, modifyAt]
    | dead => simp [getAt, modifyAt]
    | loop hd mk cs =>
      simp only [modifyAt, getAt_cons_loop, List.getElem?_modify]
      cases hc : cs[i]? with
      | none => simp
      | some c => simp [ih]

/-- the segment stored at every address after replacing the segment at `sa` -/
theorem segAt_putSeg (s2 : Seg) (sa b : List Nat) (t : DNode) :
    segAt (modifyAt (putSeg s2) sa t) b =
      if b = sa then (segAt t b).map (fun _ => s2) else segAt t b := by
  induction sa generalizing b t with
  | nil =>
    cases b with
    | nil =>
      cases t <;> simp [segAt, getAt, modifyAt, putSeg]
    | cons j r' =>
      cases t <;> simp [segAt, getAt, modifyAt, putSeg]
  | cons i r ih =>
    cases t with
    | seg d s => cases b <;> simp [segAt, getAt, modifyAt]
    | dead => cases b <;> simp [segAt, getAt, modifyAt]
    | loop hd mk cs =>
      cases b with
      | nil => simp [segAt, getAt, modifyAt]
      | cons j r' =>
        simp only [segAt, modifyAt, getAt_cons_loop, List.getElem?_modify]
        by_cases hij : i = j
        · subst hij
          cases hc : cs[i]? with
          | none => simp
          | some c =>
            have := ih r' c
            simp only [segAt] at this
            simp [this]
        · cases hc : cs[j]? with
          | none => simp
          | some c =>
            have : ¬ (j :: r' = i :: r) := by
              intro h; injection h with h1 _; exact hij h1.symm
            simp [hij, this]

/-! ## insertion index -/

theorem insertIdxFrom_spec (p : Nat) (cs : List DNode) (i best : Nat) :
    (insertIdxFrom p i best cs = best ∧ ∀ y ∈ cs, p < nodePos y) ∨
    (∃ j x, insertIdxFrom p i best cs = i + j + 1 ∧ cs[j]? = some x ∧ nodePos x ≤ p ∧
        ∀ y ∈ cs.drop (j + 1), p < nodePos y) := by
  induction cs generalizing i best with
  | nil => left; simp [insertIdxFrom]
  | cons c r ih =>
    by_cases hc : nodePos c ≤ p
    · simp only [insertIdxFrom, hc, if_true]
      rcases ih (i + 1) (i + 1) with ⟨h1, h2⟩ | ⟨j, x, h1, h2, h3, h4⟩
      · right
        exact ⟨0, c, by simp [h1], by simp, hc, by simpa using h2⟩
      · right
        refine ⟨j + 1, x, by omega, by simpa using h2, h3, by simpa using h4⟩
    · simp only [insertIdxFrom, hc, if_false]
      rcases ih (i + 1) best with ⟨h1, h2⟩ | ⟨j, x, h1, h2, h3, h4⟩
      · left
        refine ⟨h1, ?_⟩
        intro y hy
        simp at hy
        rcases hy with rfl | hy
        · omega
        · exact h2 y hy
      · right
        refine ⟨j + 1, x, by omega, by simpa using h2, h3, by simpa using h4⟩

/-- `_get_insert_idx`: everything from the index on is later in the map; the child just before it is not -/
theorem insertIdx_spec (p : Nat) (cs : List DNode) :
    insertIdx p cs ≤ cs.length ∧ (∀ y ∈ cs.drop (insertIdx p cs), p < nodePos y) ∧
    (insertIdx p cs = 0 ∨ ∃ x, cs[insertIdx p cs - 1]? = some x ∧ nodePos x ≤ p) := by
  rcases insertIdxFrom_spec p cs 0 0 with ⟨h1, h2⟩ | ⟨j, x, h1, h2, h3, h4⟩
  · have h0 : insertIdx p cs = 0 := h1
    rw [h0]
    exact ⟨by omega, by simpa using h2, Or.inl rfl⟩
  · have hj : j < cs.length := by
      rcases Nat.lt_or_ge j cs.length with h | h
      · exact h
      · simp [List.getElem?_eq_none h] at h2
    have h0 : insertIdx p cs = j + 1 := by simpa [insertIdx] using h1
    rw [h0]
    refine ⟨by omega, ?_, Or.inr ⟨x, ?_, h3⟩⟩
    · simpa using h4
    · simpa using h2

theorem insertIdx_le (p : Nat) (cs : List DNode) : insertIdx p cs ≤ cs.length := (insertIdx_spec p cs).1


/-! ## the search returns live nodes -/

/-- a node is reachable and not a tombstone -/
def LiveAt (t : DNode) (z : List Nat) : Prop := ∃ m, getAt z t = some m ∧ isLive m = true

theorem liveAt_nil_seg (d : SegDef) (s : Seg) : LiveAt (.seg d s) [] := ⟨.seg d s, by simp [getAt], by simp [isLive, isDead]⟩
theorem liveAt_nil_loop (h : Hdr) (mk : List MNode) (cs : List DNode) : LiveAt (.loop h mk cs) [] :=
  ⟨.loop h mk cs, by simp [getAt], by simp [isLive, isDead]⟩

theorem sel_sound_aux (t : DNode) :
    (∀ xp l, selChild xp t = .ok l → ∀ z ∈ l, LiveAt t z) := by
  refine DNode.rec (motive_1 := fun t => ∀ xp l, selChild xp t = .ok l → ∀ z ∈ l, LiveAt t z)
    (motive_2 := fun cs => ∀ xp i l, selKids xp i cs = .ok l → ∀ z ∈ l,
        ∃ j r c, z = (i + j) :: r ∧ cs[j]? = some c ∧ LiveAt c r) ?_ ?_ ?_ ?_ ?_ t
  · intro d s xp l h z hz
    simp only [selChild] at h
    have : l = [[]] ∨ l = [] := by
      split at h
      · split at h <;> simp_all
      · split at h
        · split at h
          · simp_all
          · split at h <;> simp_all
        · simp_all
    rcases this with rfl | rfl
    · simp at hz; subst hz; exact liveAt_nil_seg d s
    · simp at hz
  · intro hd mk cs ih xp l h z hz
    simp only [selChild] at h
    split at h
    · split at h
      · simp at h; subst h; simp at hz; subst hz; exact liveAt_nil_loop hd mk cs
      · simp at h; subst h; simp at hz
    · split at h
      · split at h
        · simp at h; subst h; simp at hz; subst hz; exact liveAt_nil_loop hd mk cs
        · split at h
          · simp at h
          · rename_i xp2 _
            obtain ⟨j, r, c, rfl, hc, m, hm, hl⟩ := ih xp2 0 l h z hz
            refine ⟨m, ?_, hl⟩
            simp [getAt_cons_loop, hc, hm]
      · simp at h; subst h; simp at hz
  · intro xp l h z hz
    simp [selChild] at h; subst h; simp at hz
  · intro xp i l h z hz
    simp [selKids] at h; subst h; simp at hz
  · intro c r ihc ihr xp i l h z hz
    simp only [selKids] at h
    split at h
    · simp at h
    · rename_i l1 h1
      split at h
      · simp at h
      · rename_i l2 h2
        simp at h; subst h
        simp [pfx] at hz
        rcases hz with ⟨z0, hz0, rfl⟩ | hz
        · exact ⟨0, z0, c, by simp, by simp, ihc xp l1 h1 z0 hz0⟩
        · obtain ⟨j, r', c', rfl, hc', hl⟩ := ihr xp (i + 1) l2 h2 z hz
          exact ⟨j + 1, r', c', by simp; omega, by simpa using hc', hl⟩

theorem selKids_sound (xp : XPath) (cs : List DNode) (i : Nat) (l : List (List Nat))
    (h : selKids xp i cs = .ok l) :
    ∀ z ∈ l, ∃ j r c, z = (i + j) :: r ∧ cs[j]? = some c ∧ LiveAt c r := by
  induction cs generalizing i l with
  | nil => simp [selKids] at h; subst h; simp
  | cons c r ih =>
    intro z hz
    simp only [selKids] at h
    split at h
    · simp at h
    · rename_i l1 h1
      split at h
      · simp at h
      · rename_i l2 h2
        simp at h; subst h
        simp [pfx] at hz
        rcases hz with ⟨z0, hz0, rfl⟩ | hz
        · exact ⟨0, z0, c, by simp, by simp, sel_sound_aux c xp l1 h1 z0 hz0⟩
        · obtain ⟨j, r', c', rfl, hc', hl⟩ := ih (i + 1) l2 h2 z hz
          exact ⟨j + 1, r', c', by simp; omega, by simpa using hc', hl⟩

theorem selNode_sound (xp : XPath) (n : DNode) (l : List (List Nat)) (h : selNode xp n = .ok l) :
    ∀ z ∈ l, LiveAt n z := by
  intro z hz
  cases n with
  | seg d s => simp [selNode] at h; subst h; simp at hz
  | dead => simp [selNode] at h; subst h; simp at hz
  | loop hd mk cs =>
    simp only [selNode] at h
    obtain ⟨j, r, c, rfl, hc, m, hm, hl⟩ := selKids_sound xp cs 0 l h z hz
    exact ⟨m, by simp [getAt_cons_loop, hc, hm], hl⟩

/-- every address returned by the search designates a reachable node that is not a tombstone -/
theorem selectAt_sound (t : DNode) (a : List Nat) (ps : Str) (l : List (List Nat))
    (h : selectAt t a ps = .ok l) : ∀ y ∈ l, LiveAt t y := by
  intro y hy
  simp only [selectAt] at h
  split at h
  · simp at h
  · rename_i b xp hst
    split at h
    · simp at h
    · rename_i n hn
      split at h
      · simp at h
      · rename_i l0 hl0
        simp at h; subst h
        simp [absAddrs] at hy
        obtain ⟨z, hz, rfl⟩ := hy
        obtain ⟨m, hm, hl⟩ := selNode_sound xp n l0 hl0 z hz
        exact ⟨m, by simp [getAt_append, hn, hm], hl⟩

/-- nothing at or below a tombstone is live -/
theorem not_live_below_dead (t : DNode) (x y : List Nat) (hx : getAt x t = some .dead) (hp : x <+: y) :
    ¬ LiveAt t y := by
  obtain ⟨z, rfl⟩ := hp
  rintro ⟨m, hm, hl⟩
  rw [getAt_append, hx] at hm
  cases z with
  | nil => simp [getAt] at hm; subst hm; simp [isLive, isDead] at hl
  | cons i r => simp [getAt] at hm

theorem firstSegIdx_sound (sid q : Option Str) (cs : List DNode) (k i : Nat)
    (h : firstSegIdx sid q k cs = some i) :
    ∃ j d s, i = k + j ∧ cs[j]? = some (.seg d s) ∧ isMatchQual d s sid q = true := by
  induction cs generalizing k with
  | nil => simp [firstSegIdx] at h
  | cons c r ih =>
    cases c with
    | seg d s =>
      simp only [firstSegIdx] at h
      split at h
      · rename_i hm
        simp at h; subst h
        exact ⟨0, d, s, by simp, by simp, hm⟩
      · obtain ⟨j, d', s', rfl, hc, hm⟩ := ih (k + 1) h
        exact ⟨j + 1, d', s', by omega, by simpa using hc, hm⟩
    | loop hd mk cs =>
      simp only [firstSegIdx] at h
      obtain ⟨j, d', s', rfl, hc, hm⟩ := ih (k + 1) h
      exact ⟨j + 1, d', s', by omega, by simpa using hc, hm⟩
    | dead =>
      simp only [firstSegIdx] at h
      obtain ⟨j, d', s', rfl, hc, hm⟩ := ih (k + 1) h
      exact ⟨j + 1, d', s', by omega, by simpa using hc, hm⟩

theorem childrenOf_getAt (t : DNode) (b : List Nat) (cs : List DNode) (h : childrenOf (getAt b t) = some cs)
    (j : Nat) : getAt (b ++ [j]) t = cs[j]? := by
  rw [getAt_append]
  cases hb : getAt b t with
  | none => simp [hb, childrenOf] at h
  | some n =>
    cases n with
    | seg d s => simp [hb, childrenOf] at h
    | dead => simp [hb, childrenOf] at h
    | loop hd mk cs' =>
      simp [hb, childrenOf] at h; subst h
      simp [getAt_cons_loop]
      cases cs'[j]? <;> simp [getAt]

/-- the segment found by `get_first_matching_segment` of a loop node is a segment node of the tree -/
theorem gfmsLoop_sound (t : DNode) (f : Nat) (a : List Nat) (ps : Str) (y : List Nat)
    (h : gfmsLoop t f a ps = .ok (some y)) : ∃ d s, getAt y t = some (.seg d s) := by
  induction f generalizing a ps with
  | zero => simp [gfmsLoop] at h
  | succ f ih =>
    simp only [gfmsLoop] at h
    split at h
    · simp at h
    · split at h
      · simp at h
      · rename_i b xp hst
        split at h
        · simp at h
        · split at h
          · simp at h
          · rename_i cs hcs
            split at h
            · rename_i hl
              cases hi : firstSegIdx xp.seg xp.idv 0 cs with
              | none => simp [hi, appendIdx] at h
              | some i =>
                simp [hi, appendIdx] at h; subst h
                obtain ⟨j, d, s, rfl, hc, _⟩ := firstSegIdx_sound _ _ _ _ _ hi
                refine ⟨d, s, ?_⟩
                rw [childrenOf_getAt t b cs hcs]
                simpa using hc
            · split at h
              · simp at h
              · exact ih _ _ h


/-! ## serialisation of edited child lists -/

theorem segsOf_withKids (t : DNode) (a : List Nat) (hd : Hdr) (mk : List MNode) (cs : List DNode)
    (h : getAt a t = some (.loop hd mk cs)) :
    ∃ l1 l2, segsOf t = l1 ++ segsOfList cs ++ l2 ∧
      ∀ cs2, segsOf (modifyAt (withKids cs2) a t) = l1 ++ segsOfList cs2 ++ l2 := by
  obtain ⟨l1, l2, h1, h2⟩ := segsOf_split a t _ h
  refine ⟨l1, l2, by simpa [segsOf] using h1, ?_⟩
  intro cs2
  simpa [withKids, segsOf] using h2 (withKids cs2)

theorem loopParts_some (o : Option DNode) (hd : Hdr) (mk : List MNode) (cs : List DNode)
    (h : loopParts o = some (hd, mk, cs)) : o = some (.loop hd mk cs) := by
  cases o with
  | none => simp [loopParts] at h
  | some n => cases n <;> simp [loopParts] at h ⊢; exact h

theorem segsOfList_insertChild (n : DNode) (cs : List DNode) :
    ∃ m1 m2, segsOfList cs = m1 ++ m2 ∧ segsOfList (insertChild n cs) = m1 ++ segsOf n ++ m2 := by
  refine ⟨segsOfList ((cleanup cs).take (insertIdx (nodePos n) (cleanup cs))),
    segsOfList ((cleanup cs).drop (insertIdx (nodePos n) (cleanup cs))), ?_, ?_⟩
  · rw [← segsOfList_cleanup cs]; exact segsOfList_take_drop _ _
  · simp [insertChild, segsOfList_insertAt]

theorem delFirstEq_spec (sg : Seg) (cs cs2 : List DNode) (h : delFirstEq sg cs = some cs2) :
    ∃ m1 d s0 m2, cs = m1 ++ .seg d s0 :: m2 ∧ cs2 = m1 ++ m2 ∧ segEq s0 sg = true := by
  induction cs generalizing cs2 with
  | nil => simp [delFirstEq] at h
  | cons c r ih =>
    cases c with
    | seg d s =>
      simp only [delFirstEq] at h
      split at h
      · rename_i he
        simp at h; subst h
        exact ⟨[], d, s, r, by simp, by simp, he⟩
      · split at h
        · simp at h
        · rename_i r2 hr
          simp at h; subst h
          obtain ⟨m1, d', s0, m2, rfl, rfl, he⟩ := ih r2 hr
          exact ⟨.seg d s :: m1, d', s0, m2, by simp, by simp, he⟩
    | loop hd mk cs' =>
      simp only [delFirstEq] at h
      split at h
      · simp at h
      · rename_i r2 hr
        simp at h; subst h
        obtain ⟨m1, d', s0, m2, rfl, rfl, he⟩ := ih r2 hr
        exact ⟨.loop hd mk cs' :: m1, d', s0, m2, by simp, by simp, he⟩
    | dead =>
      simp only [delFirstEq] at h
      split at h
      · simp at h
      · rename_i r2 hr
        simp at h; subst h
        obtain ⟨m1, d', s0, m2, rfl, rfl, he⟩ := ih r2 hr
        exact ⟨.dead :: m1, d', s0, m2, by simp, by simp, he⟩


/-! ## copy, forest frame -/

theorem segsOf_copy_aux (n : DNode) :
    segsOf (copyNode n) = (segsOf n).map segCopy := by
  refine DNode.rec (motive_1 := fun n => segsOf (copyNode n) = (segsOf n).map segCopy)
    (motive_2 := fun cs => segsOfList (copyKids cs) = (segsOfList cs).map segCopy) ?_ ?_ ?_ ?_ ?_ n
  · intro d s; simp [copyNode, segsOf]
  · intro hd mk cs ih; simp [copyNode, segsOf, ih]
  · simp [copyNode, segsOf]
  · simp [copyKids, segsOfList]
  · intro c r ihc ihr
    cases c with
    | dead => simp [copyKids, isDead, segsOfList, segsOf, ihr]
    | seg d s => simp [copyKids, isDead, segsOfList, ihr, ihc]
    | loop hd mk cs => simp [copyKids, isDead, segsOfList, ihr, ihc]

end Pyx12Verif.DataTree
