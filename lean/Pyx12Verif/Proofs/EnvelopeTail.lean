/-
Inputs that stop inside open envelopes; consistent documents; every flattening is accepted by the nesting
recogniser.
-/
import Pyx12Verif.Proofs.EnvelopeMisc

namespace Pyx12Verif.Envelope

/-! ### open tail -/

theorem tail_run (chk : Bool) (earlier : List Interchange) (s : RState) (hc : s.chk837 = chk)
    (hm : ∀ x, x ∈ s.isaIds ↔ x ∈ earlier.map (·.isaCtl)) (hl : s.loops = [])
    (o : Option OpenInterchange)
    (hd : match o with
          | none => True
          | some o => GroupsDom chk o.groups ∧ OpenGroupDom chk o.last) :
    ∃ s' out, Runs s (flattenTail o) s' out ∧ out ++ [cleanup s'] = recountTail chk earlier o := by
  cases o with
  | none => exact ⟨s, [], Runs.nil s, by simp [cleanup, hl, recountTail]⟩
  | some oi =>
    obtain ⟨hd1, hd2⟩ := hd
    obtain ⟨s2, hrun2, l2, _, _, c2, m2⟩ := openInterchange_run chk s oi.isaCtl oi.groups hc hd1
    rw [dupErr_congr _ _ _ _ hm, hl] at *
    cases hlast : oi.last with
    | none =>
      refine ⟨s2, _, by simpa [flattenTail, hlast, flattenOpenGroup] using hrun2, ?_⟩
      simp [cleanup, l2, cleanupErr, recountTail, hlast, recountOpenGroup]
    | some og =>
      rw [hlast] at hd2
      obtain ⟨hd3, hd4⟩ := hd2
      obtain ⟨s3, hrun3, l3, _, m3, _, _, _, c3⟩ := openGroup_run chk s2 og.gsCtl og.sets c2 hd3
      rw [dupErr_congr _ _ _ _ m2, l2] at *
      cases hlast2 : og.last with
      | none =>
        refine ⟨s3, _, by simpa [flattenTail, hlast, flattenOpenGroup, hlast2, flattenOpenSet] using Runs.append hrun2 hrun3, ?_⟩
        simp [cleanup, l3, cleanupErr, recountTail, hlast, recountOpenGroup, hlast2, recountOpenSet]
      | some os =>
        rw [hlast2] at hd4
        obtain ⟨s4, hrun4, l4, _, _, _, _, _, c4, _, _⟩ := openSet_run s3 os.stCtl os.body (c3 ▸ hd4)
        rw [dupErr_congr _ _ _ _ m3, l3, c3] at *
        have hrun := Runs.append hrun2 (Runs.append hrun3 hrun4)
        refine ⟨s4, _, by simpa [flattenTail, hlast, flattenOpenGroup, hlast2, flattenOpenSet] using hrun, ?_⟩
        simp [cleanup, l4, cleanupErr, recountTail, hlast, recountOpenGroup, hlast2, recountOpenSet]

/-! ### consistency -/

def AllNil (L : List (List Err)) : Prop := ∀ l ∈ L, l = []

theorem AllNil.flatten {L : List (List Err)} (h : AllNil L) : L.flatten = [] := by
  induction L with
  | nil => rfl
  | cons a r ih =>
    have ha : a = [] := h a (by simp)
    have hr : AllNil r := fun l hl => h l (by simp [hl])
    simp [ha, ih hr]

theorem AllNil.append {A B : List (List Err)} (ha : AllNil A) (hb : AllNil B) : AllNil (A ++ B) := by
  intro l hl; rcases List.mem_append.mp hl with h | h
  · exact ha l h
  · exact hb l h

theorem AllNil.cons {a : List Err} {B : List (List Err)} (ha : a = []) (hb : AllNil B) : AllNil (a :: B) := by
  intro l hl; rcases List.mem_cons.mp hl with h | h
  · rw [h, ha]
  · exact hb l h

theorem recountBody_nil (chk : Bool) (rest : List SegView) : ∀ (pre : List SegView),
    (∀ a v b, rest = a ++ v :: b →
      (v.id = idHL → fieldInt v.cnt = some (natInt (((pre ++ a).filter isHL).length + 1)) ∧
                     (v.ctl = some [] ∨ ValidParent (lastChain (pre ++ a)) v.ctl)) ∧
      (chk = true → v.id = idLX → v.cnt = some (decimal (((sinceLastCLM (pre ++ a)).filter isLX).length + 1)))) →
    AllNil (recountBody chk pre rest) := by
  induction rest with
  | nil => intro pre _ l hl; simp [recountBody] at hl
  | cons v r ih =>
    intro pre h
    simp only [recountBody]
    apply AllNil.cons
    · obtain ⟨h1, h2⟩ := h [] v r rfl
      simp only [List.append_nil] at h1 h2
      unfold bodyErrs
      by_cases hHL : v.id = idHL
      · obtain ⟨e1, e2⟩ := h1 hHL
        rcases e2 with e2 | e2
        · simp [hHL, hlErrs, e1, e2]
        · by_cases hb : v.ctl = some []
          · simp [hHL, hlErrs, e1, hb]
          · simp [hHL, hlErrs, e1, hb, e2]
      · by_cases hx : chk = true ∧ v.id = idLX
        · simp [hx, lxErrs, h2 hx.1 hx.2, show idLX ≠ idHL by decide]
        · simp [hHL, hx]
    · apply ih
      intro a w b e
      have := h (v :: a) w b (by simp [e])
      simpa using this

theorem dupErr_nil (e : Err) (c : Option Str) (l : List (Option Str)) (h : c ∉ l) : dupErr e c l = [] := by
  simp [dupErr, h]

theorem trailerErrs_nil (e1 e2 : Err) (h t n : Option Str) (m : Nat) (h1 : t = h) (h2 : fieldInt n = some (natInt m)) :
    trailerErrs e1 e2 h t n m = [] := by
  simp [trailerErrs, h1, h2]

theorem nodup_split {α : Type} (l r : List α) (x : α) (h : (l ++ x :: r).Nodup) : x ∉ l := by
  intro hx
  rw [List.nodup_append] at h
  exact h.2.2 x hx x (by simp) rfl

theorem recountSets_nil (chk : Bool) (rest : List TSet) : ∀ (earlier : List TSet),
    ((earlier ++ rest).map (·.stCtl)).Nodup → (∀ t ∈ rest, SetConsistent chk t) →
    AllNil (recountSets chk earlier rest) := by
  induction rest with
  | nil => intro _ _ _ l hl; simp [recountSets] at hl
  | cons t r ih =>
    intro earlier hn hc
    simp only [recountSets, recountSet]
    obtain ⟨c1, c2, c3⟩ := hc t (by simp)
    apply AllNil.append
    · apply AllNil.cons
      · apply dupErr_nil
        have : (earlier.map (·.stCtl) ++ t.stCtl :: r.map (·.stCtl)).Nodup := by simpa using hn
        exact nodup_split _ _ _ this
      · apply AllNil.append
        · apply recountBody_nil
          intro a v b e
          simpa using c3 a v b e
        · exact AllNil.cons (trailerErrs_nil _ _ _ _ _ _ c1 c2) (fun l hl => by cases hl)
    · exact ih (earlier ++ [t]) (by simpa using hn) (fun u hu => hc u (by simp [hu]))

theorem recountGroups_nil (chk : Bool) (rest : List Group) : ∀ (earlier : List Group),
    ((earlier ++ rest).map (·.gsCtl)).Nodup → (∀ g ∈ rest, GroupConsistent chk g) →
    AllNil (recountGroups chk earlier rest) := by
  induction rest with
  | nil => intro _ _ _ l hl; simp [recountGroups] at hl
  | cons g r ih =>
    intro earlier hn hc
    simp only [recountGroups, recountGroup]
    obtain ⟨c1, c2, c3, c4⟩ := hc g (by simp)
    apply AllNil.append
    · apply AllNil.cons
      · apply dupErr_nil
        have : (earlier.map (·.gsCtl) ++ g.gsCtl :: r.map (·.gsCtl)).Nodup := by simpa using hn
        exact nodup_split _ _ _ this
      · apply AllNil.append
        · exact recountSets_nil chk g.sets [] (by simpa using c3) c4
        · exact AllNil.cons (trailerErrs_nil _ _ _ _ _ _ c1 c2) (fun l hl => by cases hl)
    · exact ih (earlier ++ [g]) (by simpa using hn) (fun u hu => hc u (by simp [hu]))

theorem recountFile_nil (chk : Bool) (rest : List Interchange) : ∀ (earlier : List Interchange),
    ((earlier ++ rest).map (·.isaCtl)).Nodup → (∀ i ∈ rest, InterchangeConsistent chk i) →
    AllNil (recountFile chk earlier rest) := by
  induction rest with
  | nil => intro _ _ _ l hl; simp [recountFile] at hl
  | cons i r ih =>
    intro earlier hn hc
    simp only [recountFile, recountInterchange]
    obtain ⟨c1, c2, c3, c4⟩ := hc i (by simp)
    apply AllNil.append
    · apply AllNil.cons
      · apply dupErr_nil
        have : (earlier.map (·.isaCtl) ++ i.isaCtl :: r.map (·.isaCtl)).Nodup := by simpa using hn
        exact nodup_split _ _ _ this
      · apply AllNil.append
        · exact recountGroups_nil chk i.groups [] (by simpa using c3) c4
        · exact AllNil.cons (trailerErrs_nil _ _ _ _ _ _ c1 c2) (fun l hl => by cases hl)
    · exact ih (earlier ++ [i]) (by simpa using hn) (fun u hu => hc u (by simp [hu]))

end Pyx12Verif.Envelope
