/-
What the cursor reads of the tree (`kids`, `closedAt`) only ever grows under the methods of `err_handler`:
children are appended, never removed; a closed loop stays closed.  Consequence: the node the cursor stands on keeps
existing while the tree is being built (`step_valid`, `runEnd_valid`).
-/
import Pyx12Verif.Proofs.ErrIterFuel
import Pyx12Verif.Proofs.ErrIterRun
import Pyx12Verif.Proofs.ErrTreeLemmas

namespace Pyx12Verif.ErrIter
open Pyx12Verif.ErrTree

/-- `l'` extends `l`, entries related by `R` position by position -/
def ListLe {α : Type} (R : α → α → Prop) (l l' : List α) : Prop :=
  l.length ≤ l'.length ∧ ∀ (j : Nat) (x : α), l[j]? = some x → ∃ y, l'[j]? = some y ∧ R x y

def StLe (x y : St) : Prop := x.children.length ≤ y.children.length ∧ (x.closed = true → y.closed = true)
def GsLe (x y : Gs) : Prop := ListLe StLe x.children y.children ∧ (x.closed = true → y.closed = true)
def IsaLe (x y : Isa) : Prop := ListLe GsLe x.children y.children ∧ (x.closed = true → y.closed = true)
def TreeLe (t t' : Tree) : Prop := ListLe IsaLe t t'

theorem listLe_refl {α : Type} (R : α → α → Prop) (hr : ∀ x, R x x) (l : List α) : ListLe R l l :=
  ⟨Nat.le_refl _, fun _ x h => ⟨x, h, hr x⟩⟩

theorem listLe_append {α : Type} (R : α → α → Prop) (hr : ∀ x, R x x) (l : List α) (z : α) : ListLe R l (l ++ [z]) := by
  refine ⟨by simp, fun j x h => ⟨x, ?_, hr x⟩⟩
  have hj : j < l.length := by
    rcases Nat.lt_or_ge j l.length with h' | h'
    · exact h'
    · rw [List.getElem?_eq_none h'] at h; simp at h
  rw [List.getElem?_append_left hj]; exact h

theorem listLe_modNth {α : Type} (R : α → α → Prop) (hr : ∀ x, R x x) (f : α → α) (hf : ∀ x, R x (f x)) (l : List α)
    (n : Nat) : ListLe R l (modNth f l n) := by
  refine ⟨by rw [modNth_length]; exact Nat.le_refl _, fun j x h => ?_⟩
  by_cases e : n = j
  · subst e; exact ⟨f x, by rw [modNth_get, h]; rfl, hf x⟩
  · exact ⟨x, by rw [modNth_get_ne _ _ _ _ e]; exact h, hr x⟩

theorem listLe_modNth_rev {α : Type} (R : α → α → Prop) (hr : ∀ x, R x x) (f : α → α) (hf : ∀ x, R (f x) x) (l : List α)
    (n : Nat) : ListLe R (modNth f l n) l := by
  refine ⟨by rw [modNth_length]; exact Nat.le_refl _, fun j x h => ?_⟩
  by_cases e : n = j
  · subst e
    rw [modNth_get] at h
    cases hl : l[n]? with
    | none => simp [hl] at h
    | some y => simp only [hl, Option.map_some, Option.some.injEq] at h; subst h; exact ⟨y, rfl, hf y⟩
  · rw [modNth_get_ne _ _ _ _ e] at h; exact ⟨x, h, hr x⟩

theorem StLe.refl (x : St) : StLe x x := ⟨Nat.le_refl _, id⟩
theorem GsLe.refl (x : Gs) : GsLe x x := ⟨listLe_refl _ StLe.refl _, id⟩
theorem IsaLe.refl (x : Isa) : IsaLe x x := ⟨listLe_refl _ GsLe.refl _, id⟩
theorem TreeLe.refl (t : Tree) : TreeLe t t := listLe_refl _ IsaLe.refl _

/-! ### the path updates -/

theorem modIsa_le (t : Tree) (i : Nat) (f : Isa → Isa) (hf : ∀ a, IsaLe a (f a)) : TreeLe t (modIsa t i f) :=
  listLe_modNth _ IsaLe.refl f hf t i

theorem modGs_le (t : Tree) (i g : Nat) (f : Gs → Gs) (hf : ∀ x, GsLe x (f x)) : TreeLe t (modGs t i g f) :=
  modIsa_le t i _ (fun a => ⟨listLe_modNth _ GsLe.refl f hf a.children g, id⟩)

theorem modSt_le (t : Tree) (i g s : Nat) (f : St → St) (hf : ∀ x, StLe x (f x)) : TreeLe t (modSt t i g s f) :=
  modGs_le t i g _ (fun x => ⟨listLe_modNth _ StLe.refl f hf x.children s, id⟩)

theorem modSeg_le (t : Tree) (i g s k : Nat) (f : Seg → Seg) : TreeLe t (modSeg t i g s k f) :=
  modSt_le t i g s _ (fun x => ⟨by simp [modNth_length], id⟩)

theorem modIsa_ge (t : Tree) (i : Nat) (f : Isa → Isa) (hf : ∀ a, IsaLe (f a) a) : TreeLe (modIsa t i f) t :=
  listLe_modNth_rev _ IsaLe.refl f hf t i

theorem modGs_ge (t : Tree) (i g : Nat) (f : Gs → Gs) (hf : ∀ x, GsLe (f x) x) : TreeLe (modGs t i g f) t :=
  modIsa_ge t i _ (fun a => ⟨listLe_modNth_rev _ GsLe.refl f hf a.children g, id⟩)

theorem modSt_ge (t : Tree) (i g s : Nat) (f : St → St) (hf : ∀ x, StLe (f x) x) : TreeLe (modSt t i g s f) t :=
  modGs_ge t i g _ (fun x => ⟨listLe_modNth_rev _ StLe.refl f hf x.children s, id⟩)

theorem modSeg_ge (t : Tree) (i g s k : Nat) (f : Seg → Seg) : TreeLe (modSeg t i g s k f) t :=
  modSt_ge t i g s _ (fun x => ⟨by simp [modNth_length], id⟩)

/-- both directions: the cursor reads the same of both trees -/
def TreeSame (t t' : Tree) : Prop := TreeLe t t' ∧ TreeLe t' t

theorem appendEle_same (t : Tree) (h : Host) (e : Ele) : TreeSame t (appendEle t h e) := by
  cases h with
  | isa i => exact ⟨modIsa_le _ _ _ (fun a => IsaLe.refl a), modIsa_ge _ _ _ (fun a => IsaLe.refl a)⟩
  | gs i g => exact ⟨modGs_le _ _ _ _ (fun a => GsLe.refl a), modGs_ge _ _ _ _ (fun a => GsLe.refl a)⟩
  | st i g s => exact ⟨modSt_le _ _ _ _ _ (fun a => StLe.refl a), modSt_ge _ _ _ _ _ (fun a => StLe.refl a)⟩
  | seg i g s k => exact ⟨modSeg_le _ _ _ _ _ _, modSeg_ge _ _ _ _ _ _⟩

theorem addErrLastEle_same (t : Tree) (h : Host) (x : EleErr) : TreeSame t (addErrLastEle t h x) := by
  cases h with
  | isa i => exact ⟨modIsa_le _ _ _ (fun a => IsaLe.refl a), modIsa_ge _ _ _ (fun a => IsaLe.refl a)⟩
  | gs i g => exact ⟨modGs_le _ _ _ _ (fun a => GsLe.refl a), modGs_ge _ _ _ _ (fun a => GsLe.refl a)⟩
  | st i g s => exact ⟨modSt_le _ _ _ _ _ (fun a => StLe.refl a), modSt_ge _ _ _ _ _ (fun a => StLe.refl a)⟩
  | seg i g s k => exact ⟨modSeg_le _ _ _ _ _ _, modSeg_ge _ _ _ _ _ _⟩

theorem TreeLe.trans {t1 t2 t3 : Tree} (h1 : TreeLe t1 t2) (h2 : TreeLe t2 t3) : TreeLe t1 t3 := by
  refine ⟨Nat.le_trans h1.1 h2.1, fun i a ha => ?_⟩
  obtain ⟨b, hb, hab⟩ := h1.2 i a ha
  obtain ⟨c, hc, hbc⟩ := h2.2 i b hb
  refine ⟨c, hc, ⟨Nat.le_trans hab.1.1 hbc.1.1, fun g x hx => ?_⟩, fun h => hbc.2 (hab.2 h)⟩
  obtain ⟨y, hy, hxy⟩ := hab.1.2 g x hx
  obtain ⟨z, hz, hyz⟩ := hbc.1.2 g y hy
  refine ⟨z, hz, ⟨Nat.le_trans hxy.1.1 hyz.1.1, fun s p hp => ?_⟩, fun h => hyz.2 (hxy.2 h)⟩
  obtain ⟨q, hq, hpq⟩ := hxy.1.2 s p hp
  obtain ⟨r, hr, hqr⟩ := hyz.1.2 s q hq
  exact ⟨r, hr, Nat.le_trans hpq.1 hqr.1, fun h => hqr.2 (hpq.2 h)⟩

/-! ### every method of `err_handler` only grows the tree -/

theorem addCurSeg_le (s s1 : State) (h : addCurSeg s = some s1) : TreeLe s.tree s1.tree := by
  unfold addCurSeg at h
  split at h
  · split at h
    · simp at h
    · simp only [Option.some.injEq] at h; subst h
      exact modSt_le _ _ _ _ _ (fun x => ⟨by simp, id⟩)
  · simp only [Option.some.injEq] at h; subst h; exact TreeLe.refl _
  · simp at h

theorem segAddError_le (s s1 : State) (x : SegErr) (h : segAddError s x = some s1) : TreeLe s.tree s1.tree := by
  unfold segAddError at h
  split at h <;> simp at h
  subst h; exact modSeg_le _ _ _ _ _ _

theorem segError_le (s : State) (c : Str) (v : Option Str) : TreeLe s.tree (segError s c v).tree := by
  unfold segError
  split
  · exact TreeLe.refl _
  · rename_i s1 h1
    split
    · exact addCurSeg_le s s1 h1
    · rename_i s2 h2
      exact TreeLe.trans (addCurSeg_le s s1 h1) (segAddError_le s1 s2 _ h2)

theorem eleErrorLinked_le (s s1 : State) (x : EleErr) (h : eleErrorLinked s x = .ok s1) : TreeLe s.tree s1.tree := by
  unfold eleErrorLinked at h
  split at h
  · simp at h
  · split at h <;> simp at h <;> subst h <;> exact (addErrLastEle_same _ _ _).1
  · split at h <;> simp at h
    subst h; exact (appendEle_same _ _ _).1

theorem step_le (s s1 : State) (e : Event) (h : ErrTree.step s e = .ok s1) : TreeLe s.tree s1.tree := by
  cases e with
  | addIsa d =>
    simp only [ErrTree.step, Res.ok.injEq] at h; subst h
    exact listLe_append _ IsaLe.refl _ _
  | addGs d =>
    simp only [ErrTree.step, addGsLoop] at h
    split at h <;> simp at h
    subst h
    exact modIsa_le _ _ _ (fun a => ⟨listLe_append _ GsLe.refl _ _, id⟩)
  | addSt d =>
    simp only [ErrTree.step, addStLoop] at h
    split at h <;> simp at h
    subst h
    exact modGs_le _ _ _ _ (fun a => ⟨listLe_append _ StLe.refl _ _, id⟩)
  | addSeg a b c =>
    simp only [ErrTree.step, Res.ok.injEq] at h; subst h; exact TreeLe.refl _
  | addEle a b c =>
    simp only [ErrTree.step, addEle] at h
    split at h <;> simp at h <;> subst h <;> exact TreeLe.refl _
  | isaError c =>
    simp only [ErrTree.step, isaError] at h
    split at h <;> simp at h
    subst h; exact modIsa_le _ _ _ (fun a => IsaLe.refl a)
  | gsError c =>
    simp only [ErrTree.step, gsError] at h
    split at h <;> simp at h
    subst h; exact modGs_le _ _ _ _ (fun a => GsLe.refl a)
  | stError c =>
    simp only [ErrTree.step, stError] at h
    split at h <;> simp at h
    subst h; exact modSt_le _ _ _ _ _ (fun a => StLe.refl a)
  | segError c v =>
    simp only [ErrTree.step, Res.ok.injEq] at h; subst h; exact segError_le _ _ _
  | eleError c m v =>
    simp only [ErrTree.step, eleError] at h
    split at h
    · simp at h
    · rename_i s0 h0
      exact TreeLe.trans (addCurSeg_le s s0 h0) (eleErrorLinked_le s0 s1 _ h)
  | closeSt =>
    simp only [ErrTree.step, closeStLoop] at h
    split at h <;> simp at h
    subst h; exact modSt_le _ _ _ _ _ (fun a => ⟨Nat.le_refl _, fun _ => rfl⟩)
  | closeGs ge recv =>
    simp only [ErrTree.step, closeGsLoop] at h
    split at h <;> simp at h
    subst h; exact modGs_le _ _ _ _ (fun a => ⟨listLe_refl _ StLe.refl _, fun _ => rfl⟩)
  | closeIsa =>
    simp only [ErrTree.step, closeIsaLoop] at h
    split at h <;> simp at h
    subst h; exact modIsa_le _ _ _ (fun a => ⟨listLe_refl _ GsLe.refl _, fun _ => rfl⟩)

/-! ### what the cursor reads is monotone -/

theorem le_getGs (t t' : Tree) (h : TreeLe t t') (i g : Nat) (x : Gs) (hx : getGs t i g = some x) :
    ∃ y, getGs t' i g = some y ∧ GsLe x y := by
  unfold getGs at hx ⊢
  cases ha : t[i]? with
  | none => simp [ha] at hx
  | some a =>
    simp only [ha, Option.bind_some] at hx
    obtain ⟨b, hb, hab⟩ := h.2 i a ha
    obtain ⟨y, hy, hxy⟩ := hab.1.2 g x hx
    exact ⟨y, by simp [hb, hy], hxy⟩

theorem le_getSt (t t' : Tree) (h : TreeLe t t') (i g s : Nat) (x : St) (hx : getSt t i g s = some x) :
    ∃ y, getSt t' i g s = some y ∧ StLe x y := by
  unfold getSt at hx ⊢
  cases ha : getGs t i g with
  | none => simp [ha] at hx
  | some a =>
    simp only [ha, Option.bind_some] at hx
    obtain ⟨b, hb, hab⟩ := le_getGs t t' h i g a ha
    obtain ⟨y, hy, hxy⟩ := hab.1.2 s x hx
    exact ⟨y, by simp [hb, hy], hxy⟩

theorem le_kids (t t' : Tree) (h : TreeLe t t') (a : Addr) : kids t a ≤ kids t' a := by
  cases a with
  | root => exact h.1
  | isa i =>
    simp only [kids, gsChildCount]
    cases ha : t[i]? with
    | none => simp
    | some a =>
      obtain ⟨b, hb, hab⟩ := h.2 i a ha
      simp only [hb]; exact hab.1.1
  | gs i g =>
    simp only [kids, stChildCountGs]
    cases ha : getGs t i g with
    | none => simp
    | some a =>
      obtain ⟨b, hb, hab⟩ := le_getGs t t' h i g a ha
      simp only [hb]; exact hab.1.1
  | st i g s =>
    simp only [kids, stChildCount]
    cases ha : getSt t i g s with
    | none => simp
    | some a =>
      obtain ⟨b, hb, hab⟩ := le_getSt t t' h i g s a ha
      simp only [hb]; exact hab.1
  | seg i g s k => simp [kids]

theorem le_closedAt (t t' : Tree) (h : TreeLe t t') (a : Addr) (hc : closedAt t a = true) : closedAt t' a = true := by
  cases a with
  | root => rfl
  | isa i =>
    simp only [closedAt, isaClosed] at hc ⊢
    cases ha : t[i]? with
    | none => simp [ha] at hc
    | some a =>
      obtain ⟨b, hb, hab⟩ := h.2 i a ha
      simp only [ha] at hc; simp only [hb]; exact hab.2 hc
  | gs i g =>
    simp only [closedAt, gsClosed] at hc ⊢
    cases ha : getGs t i g with
    | none => simp [ha] at hc
    | some a =>
      obtain ⟨b, hb, hab⟩ := le_getGs t t' h i g a ha
      simp only [ha] at hc; simp only [hb]; exact hab.2 hc
  | st i g s =>
    simp only [closedAt, stClosed] at hc ⊢
    cases ha : getSt t i g s with
    | none => simp [ha] at hc
    | some a =>
      obtain ⟨b, hb, hab⟩ := le_getSt t t' h i g s a ha
      simp only [ha] at hc; simp only [hb]; exact hab.2 hc
  | seg i g s k => rfl

theorem le_valid (t t' : Tree) (h : TreeLe t t') (a : Addr) (hv : Valid t a) : Valid t' a := by
  have k := le_kids t t' h
  cases a with
  | root => trivial
  | isa i => have := k .root; simp only [Valid] at hv ⊢; omega
  | gs i g => have := k .root; have := k (.isa i); simp only [Valid] at hv ⊢; omega
  | st i g s => have := k .root; have := k (.isa i); have := k (.gs i g); simp only [Valid] at hv ⊢; omega
  | seg i g s j =>
    have := k .root; have := k (.isa i); have := k (.gs i g); have := k (.st i g s); simp only [Valid] at hv ⊢; omega

/-- an error-handler call never removes the node the cursor stands on -/
theorem step_valid (s s1 : State) (e : Event) (h : ErrTree.step s e = .ok s1) (a : Addr) (hv : Valid s.tree a) :
    Valid s1.tree a := le_valid _ _ (step_le s s1 e h) a hv

theorem runEnd_valid (h : List Item) (rs rs' : RState) (hv : Valid rs.st.tree rs.cur.cur) (he : runEnd rs h = some rs') :
    Valid rs'.st.tree rs'.cur.cur := by
  induction h generalizing rs with
  | nil => simp only [runEnd, Option.some.injEq] at he; subst he; exact hv
  | cons it r ih =>
    cases it with
    | ev e =>
      simp only [runEnd] at he
      split at he
      · rename_i s1 hs
        exact ih { st := s1, cur := rs.cur } (step_valid _ _ _ hs _ hv) he
      · simp at he
    | seg sid =>
      simp only [runEnd] at he
      exact ih _ (drainF_valid _ _ _ hv).1 he

/-! ### a way-up hand-over needs a child -/

theorem valid_parent_kids (t : Tree) (a p : Addr) (hv : Valid t a) (h : parent a = some p) : 0 < kids t p := by
  cases a <;> simp [parent] at h <;> subst h <;> simp only [Valid] at hv <;> omega

theorem drainF_up_child (t : Tree) (f : Nat) (c : Cursor) (hv : Valid t c.cur) :
    ∀ v ∈ (drainF t f c).1, v.up = true → 0 < kids t v.addr := by
  induction f generalizing c with
  | zero => simp [drainF]
  | succ f ih =>
    unfold drainF
    split
    · rename_i c' u hs
      intro v hm hu
      simp only [consV, List.mem_cons] at hm
      rcases hm with e | e
      · subst e
        simp only at hu; subst hu
        have := (step_moved_facts t c c' true hs).2 rfl
        exact valid_parent_kids t _ _ hv this.2
      · exact ih c' (step_moved_valid t c c' u hv hs) v e hu
    · simp

theorem runH_up_needs_child (h : List Item) (rs : RState) (hv : Valid rs.st.tree rs.cur.cur) :
    ∀ f ∈ runH rs h, ∀ v ∈ f.visits, v.up = true → 0 < kids f.tree v.addr := by
  induction h generalizing rs with
  | nil => simp [runH]
  | cons it r ih =>
    cases it with
    | ev e =>
      simp only [runH]
      split
      · rename_i s1 hs
        exact ih { st := s1, cur := rs.cur } (step_valid _ _ _ hs _ hv)
      · simp
    | seg sid =>
      simp only [runH, List.mem_cons]
      rintro f (e | e)
      · subst e; exact drainF_up_child _ _ _ hv
      · exact ih _ (drainF_valid _ _ _ hv).1 f e

end Pyx12Verif.ErrIter
