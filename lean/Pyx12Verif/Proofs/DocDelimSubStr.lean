/-
C12 at pipeline level, DIFFERENT component separators — string layer.

* `swapC a b` / `sw a b`: the transposition of the two component separators, on characters and on strings.  It is a
  bijection (an involution), it is the identity on strings that contain neither separator, and it turns the `a`-joined
  print of a composite whose values contain neither separator into the `b`-joined print (`sw_joinWith`).
  Composed with the renaming `mapComp a b` of Props/DocDelim3.lean it is that renaming again (`mapComp_sw`).
* `Envelope.IntNeutral c`: `c` is no Unicode decimal digit, no `str.isspace()` character, none of `_ + -`; a text that
  contains such a character is not an `int()` literal (`pyInt_neutral_char`), so `pyInt` does not see the swap
  (`pyInt_sw`).
* `SepNeutral'`: the neutrality predicate for the Unicode-faithful `pyInt`, and `SepNeutral' → SepNeutral`.
-/
import Pyx12Verif.Props.DocDelim3
import Pyx12Verif.Proofs.EnvelopeInt

namespace Pyx12Verif.Envelope

/-- no Unicode decimal digit, no `str.isspace()` character, none of `_ + -` -/
def IntNeutral (c : Char) : Prop :=
  pyDigitVal c = none ∧ isPySpace c = false ∧ c ≠ '_' ∧ c ≠ '+' ∧ c ≠ '-'

/-- a character (after step 1 of `int()`) that no integer literal contains -/
def BadAscii (c : Char) : Prop := isDigit c = false ∧ isIntSpace c = false ∧ c ≠ '_' ∧ c ≠ '+' ∧ c ≠ '-'

theorem isIntSpace_isPySpace {c : Char} (h : isIntSpace c = true) : isPySpace c = true := by
  simp only [isIntSpace, Bool.or_eq_true, beq_iff_eq] at h
  rcases h with ((((h | h) | h) | h) | h) | h <;> (subst h; decide)

theorem badAscii_of_neutral {c : Char} (h : IntNeutral c) : BadAscii c := by
  refine ⟨?_, ?_, h.2.2.1, h.2.2.2.1, h.2.2.2.2⟩
  · cases hd : isDigit c with
    | false => rfl
    | true => have := pyDigitVal_ascii c hd; rw [h.1] at this; cases this
  · cases hs : isIntSpace c with
    | false => rfl
    | true => have := isIntSpace_isPySpace hs; rw [h.2.1] at this; cases this

theorem badAscii_q : BadAscii '?' := by
  refine ⟨by decide, by decide, by decide, by decide, by decide⟩

theorem allSpace_bad : ∀ (l : Str), (∃ c ∈ l, BadAscii c) → allSpace l = false := by
  intro l
  induction l with
  | nil => rintro ⟨c, hc, _⟩; cases hc
  | cons x r ih =>
    rintro ⟨c, hc, hb⟩
    simp only [allSpace]
    rcases List.mem_cons.1 hc with rfl | hc
    · simp [hb.2.1]
    · simp [ih ⟨c, hc, hb⟩]

theorem scanDigits_bad : ∀ (l : Str) (us : Bool) (acc n : Nat), (∃ c ∈ l, BadAscii c) → scanDigits us acc n l = none := by
  intro l
  induction l with
  | nil => rintro _ _ _ ⟨c, hc, _⟩; cases hc
  | cons x r ih =>
    rintro us acc n ⟨c, hc, hb⟩
    simp only [scanDigits]
    rcases List.mem_cons.1 hc with rfl | hc
    · simp [hb.1, hb.2.1, hb.2.2.1]
    · split
      · exact ih _ _ _ ⟨c, hc, hb⟩
      · split
        · split
          · rfl
          · exact ih _ _ _ ⟨c, hc, hb⟩
        · split
          · split
            · rfl
            · simp [allSpace_bad r ⟨c, hc, hb⟩]
          · rfl

theorem startDigits_bad (l : Str) (h : ∃ c ∈ l, BadAscii c) : startDigits l = none := by
  obtain ⟨c, hc, hb⟩ := h
  cases l with
  | nil => cases hc
  | cons x r =>
    simp only [startDigits]
    rcases List.mem_cons.1 hc with rfl | hc
    · simp [hb.1]
    · split
      · exact scanDigits_bad r _ _ _ ⟨c, hc, hb⟩
      · rfl

theorem signedInt_bad (l : Str) (h : ∃ c ∈ l, BadAscii c) : signedInt l = none := by
  obtain ⟨c, hc, hb⟩ := h
  cases l with
  | nil => cases hc
  | cons x r =>
    simp only [signedInt]
    rcases List.mem_cons.1 hc with rfl | hc
    · have h1 : ¬ c = '-' := hb.2.2.2.2
      have h2 : ¬ c = '+' := hb.2.2.2.1
      simp only [h1, h2, if_false]
      rw [startDigits_bad (c :: r) ⟨c, by simp, hb⟩]; rfl
    · split
      · rw [startDigits_bad r ⟨c, hc, hb⟩]; rfl
      · split
        · rw [startDigits_bad r ⟨c, hc, hb⟩]; rfl
        · rw [startDigits_bad (x :: r) ⟨c, List.mem_cons_of_mem _ hc, hb⟩]; rfl

theorem dropSpace_bad : ∀ (l : Str), (∃ c ∈ l, BadAscii c) → ∃ c ∈ dropSpace l, BadAscii c := by
  intro l
  induction l with
  | nil => rintro ⟨c, hc, _⟩; cases hc
  | cons x r ih =>
    rintro ⟨c, hc, hb⟩
    simp only [dropSpace]
    split
    · rename_i hx
      rcases List.mem_cons.1 hc with rfl | hc
      · rw [hb.2.1] at hx; cases hx
      · exact ih ⟨c, hc, hb⟩
    · exact ⟨c, hc, hb⟩

theorem pyIntAscii_bad (l : Str) (h : ∃ c ∈ l, BadAscii c) : pyIntAscii l = none :=
  signedInt_bad _ (dropSpace_bad l h)

theorem toAscii_neutral : ∀ (l : Str), (∃ c ∈ l, IntNeutral c) → ∃ c ∈ toAscii l, BadAscii c := by
  intro l
  induction l with
  | nil => rintro ⟨c, hc, _⟩; cases hc
  | cons x r ih =>
    rintro ⟨c, hc, hn⟩
    simp only [toAscii]
    rcases List.mem_cons.1 hc with rfl | hc
    · by_cases h127 : c.toNat < 127
      · simp only [asciiOf, h127, if_true, toAsciiStep]
        exact ⟨c, by simp, badAscii_of_neutral hn⟩
      · simp only [asciiOf, h127, if_false, hn.2.1, Bool.false_eq_true, hn.1, asciiOfDigit, toAsciiStep]
        exact ⟨'?', by simp, badAscii_q⟩
    · obtain ⟨y, hy, hb⟩ := ih ⟨c, hc, hn⟩
      cases asciiOf x with
      | none => exact ⟨'?', by simp [toAsciiStep], badAscii_q⟩
      | some z => exact ⟨y, by simp [toAsciiStep, hy], hb⟩

/-- **a text that contains a neutral character is not an `int()` literal** (ASCII or not, wherever it stands) -/
theorem pyInt_neutral_char (l : Str) (h : ∃ c ∈ l, IntNeutral c) : pyInt l = none :=
  pyIntAscii_bad _ (toAscii_neutral l h)

end Pyx12Verif.Envelope

namespace Pyx12Verif.Doc
open Pyx12Verif

/-! ### the transposition of the two separators -/

def swapC (a b : Char) (c : Char) : Char := if c = a then b else if c = b then a else c

/-- the two component separators exchanged inside a string -/
def sw (a b : Char) (v : Str) : Str := v.map (swapC a b)

theorem swapC_swapC (a b c : Char) : swapC a b (swapC a b c) = c := by
  unfold swapC
  by_cases h1 : c = a
  · subst h1
    by_cases h2 : b = c
    · subst h2; simp
    · simp [h2]
  · by_cases h2 : c = b
    · subst h2; simp [h1]
    · simp [h1, h2]

theorem swapC_fix {a b c : Char} (h1 : c ≠ a) (h2 : c ≠ b) : swapC a b c = c := by simp [swapC, h1, h2]

theorem sw_sw (a b : Char) (v : Str) : sw a b (sw a b v) = v := by
  simp only [sw, List.map_map]
  conv => rhs; rw [← List.map_id v]
  apply List.map_congr_left
  intro c _
  exact swapC_swapC a b c

theorem sw_inj {a b : Char} {x y : Str} (h : sw a b x = sw a b y) : x = y := by
  rw [← sw_sw a b x, h, sw_sw]

theorem sw_free {a b : Char} {v : Str} (h1 : a ∉ v) (h2 : b ∉ v) : sw a b v = v := by
  unfold sw
  conv => rhs; rw [← List.map_id v]
  apply List.map_congr_left
  intro c hc
  exact swapC_fix (fun e => h1 (e ▸ hc)) (fun e => h2 (e ▸ hc))

theorem sw_nil (a b : Char) : sw a b [] = [] := rfl
theorem sw_cons (a b c : Char) (v : Str) : sw a b (c :: v) = swapC a b c :: sw a b v := rfl
theorem sw_append (a b : Char) (x y : Str) : sw a b (x ++ y) = sw a b x ++ sw a b y := by simp [sw]
theorem sw_length (a b : Char) (v : Str) : (sw a b v).length = v.length := by simp [sw]
theorem sw_isEmpty (a b : Char) (v : Str) : (sw a b v).isEmpty = v.isEmpty := by cases v <;> rfl
theorem sw_eq_nil {a b : Char} {v : Str} : sw a b v = [] ↔ v = [] := by cases v <;> simp [sw]

/-- a constant that mentions neither separator is met by a string iff it is met by its image -/
theorem sw_eq_const {a b : Char} {v K : Str} (h1 : a ∉ K) (h2 : b ∉ K) : sw a b v = K ↔ v = K := by
  constructor
  · intro h
    have := congrArg (sw a b) h
    rw [sw_sw, sw_free h1 h2] at this
    exact this
  · intro h; rw [h, sw_free h1 h2]

theorem mem_sw {a b c : Char} {v : Str} : c ∈ sw a b v ↔ swapC a b c ∈ v := by
  constructor
  · intro h
    obtain ⟨x, hx, rfl⟩ := List.mem_map.1 h
    rw [swapC_swapC]; exact hx
  · intro h
    have : swapC a b (swapC a b c) ∈ sw a b v := List.mem_map.2 ⟨_, h, rfl⟩
    rwa [swapC_swapC] at this

theorem swapC_left (a b : Char) : swapC a b a = b := by simp [swapC]
theorem swapC_right (a b : Char) : swapC a b b = a := by
  unfold swapC
  by_cases h : b = a
  · simp [h]
  · simp [h]

/-- the image is untouched unless the string contains a separator — and then the image contains one as well -/
theorem sw_cases (a b : Char) (v : Str) :
    sw a b v = v ∨ ((a ∈ v ∨ b ∈ v) ∧ (a ∈ sw a b v ∨ b ∈ sw a b v)) := by
  by_cases h1 : a ∈ v
  · exact Or.inr ⟨Or.inl h1, Or.inr (mem_sw.2 (by rw [swapC_right]; exact h1))⟩
  · by_cases h2 : b ∈ v
    · exact Or.inr ⟨Or.inr h2, Or.inl (mem_sw.2 (by rw [swapC_left]; exact h2))⟩
    · exact Or.inl (sw_free h1 h2)

theorem sw_joinWith (a b : Char) : ∀ (cs : List Str), (∀ v ∈ cs, a ∉ v ∧ b ∉ v) →
    sw a b (SegText.joinWith a cs) = SegText.joinWith b cs := by
  intro cs
  induction cs with
  | nil => intro _; rfl
  | cons p r ih =>
    intro h
    cases r with
    | nil => simp only [SegText.joinWith]; exact sw_free (h p (by simp)).1 (h p (by simp)).2
    | cons q r2 =>
      simp only [SegText.joinWith, sw_append, sw_cons, swapC_left]
      rw [sw_free (h p (by simp)).1 (h p (by simp)).2]
      have := ih (fun v hv => h v (List.mem_cons_of_mem _ hv))
      rw [this]

/-- renaming after the swap is the renaming -/
theorem mapComp_sw (a b : Char) (v : Str) : mapComp a b (sw a b v) = mapComp a b v := by
  simp only [mapComp, sw, List.map_map]
  apply List.map_congr_left
  intro c _
  simp only [Function.comp, swapC]
  by_cases h1 : c = a
  · subst h1
    by_cases h2 : b = c
    · simp [h2]
    · simp [h2]
  · by_cases h2 : c = b
    · subst h2; simp [h1]
    · simp [h1, h2]

/-! ### `int()` does not see the swap -/

theorem pyInt_sw {a b : Char} (ha : Envelope.IntNeutral a) (hb : Envelope.IntNeutral b) (v : Str) :
    Envelope.pyInt (sw a b v) = Envelope.pyInt v := by
  rcases sw_cases a b v with h | ⟨h1, h2⟩
  · rw [h]
  · have e1 : Envelope.pyInt v = none := by
      rcases h1 with h | h
      · exact Envelope.pyInt_neutral_char v ⟨a, h, ha⟩
      · exact Envelope.pyInt_neutral_char v ⟨b, h, hb⟩
    have e2 : Envelope.pyInt (sw a b v) = none := by
      rcases h2 with h | h
      · exact Envelope.pyInt_neutral_char _ ⟨a, h, ha⟩
      · exact Envelope.pyInt_neutral_char _ ⟨b, h, hb⟩
    rw [e1, e2]

/-! ### the neutrality predicate for the Unicode-faithful `pyInt` -/

/-- `c` occurs in no string a printed composite value is compared with: the strings the map skeletons and the map index
    mention, the DTP format qualifiers, the constants of the glue (`FA`, the two 278 version strings); and it is no
    character `int()` gives a meaning to — for EVERY script: no Unicode decimal digit (`pyDigitVal`), no `str.isspace()`
    character (`isPySpace`), none of `_ + -`. -/
def SepNeutral' (ms : Maps) (c : Char) : Prop :=
  (∀ m ∈ ms.maps, ∀ p ∈ m.intern, c ∉ p.1) ∧
  (∀ x ∈ ms.index, ∀ f ∈ [x.icvn, x.vriic, x.fic, x.tspc], ∀ v, f = some v → c ∉ v) ∧
  (∀ t ∈ dtpTypes, c ∉ t) ∧ c ∉ sFA ∧ c ∉ v278a ∧ c ∉ v278b ∧ Envelope.IntNeutral c

theorem isDigit_false_of_pyDigitVal {c : Char} (h : Envelope.pyDigitVal c = none) : Envelope.isDigit c = false := by
  cases hd : Envelope.isDigit c with
  | false => rfl
  | true => have := Envelope.pyDigitVal_ascii c hd; rw [h] at this; cases this

theorem isIntSpace_false_of_isPySpace {c : Char} (h : Envelope.isPySpace c = false) : Envelope.isIntSpace c = false := by
  cases hs : Envelope.isIntSpace c with
  | false => rfl
  | true => have := Envelope.isIntSpace_isPySpace hs; rw [h] at this; cases this

/-- the new predicate implies the one Props/DocDelim3.lean states (which speaks of ASCII digits and blanks only) -/
theorem sepNeutral_of_prime {ms : Maps} {c : Char} (h : SepNeutral' ms c) : SepNeutral ms c :=
  ⟨h.1, h.2.1, h.2.2.1, isDigit_false_of_pyDigitVal h.2.2.2.2.2.2.1, isIntSpace_false_of_isPySpace h.2.2.2.2.2.2.2.1,
    h.2.2.2.2.2.2.2.2.1, h.2.2.2.2.2.2.2.2.2.1, h.2.2.2.2.2.2.2.2.2.2⟩

/-- the converse fails: an Arabic-Indic digit passes the ASCII tests, and `int()` reads it -/
example : Envelope.isDigit '٣' = false ∧ Envelope.isIntSpace '٣' = false ∧
    Envelope.pyInt ['1', '٣', '2'] = some 132 ∧ Envelope.pyInt ['1', ':', '2'] = none := by decide

end Pyx12Verif.Doc
