/-
C05 at pipeline level, error-tree side (3): every call of `err_handler` keeps the pointer invariant `PInv`
(`step_pinv`, `run_pinv`): `cur_isa_node` is the last interchange, `cur_gs_node` the last group and `cur_st_node` the last
set in document order, a linked `cur_seg_node` is the last segment node of the last set.
-/
import Pyx12Verif.Proofs.DocC05Ledger

namespace Pyx12Verif.DocC05
open Pyx12Verif.ErrTree

/-! ### updates of an `elements` list -/

def hostMod (t : Tree) (h : Host) (fe : List Ele → List Ele) : Tree :=
  match h with
  | .isa i => modIsa t i (fun a => { a with elements := fe a.elements })
  | .gs i g => modGs t i g (fun a => { a with elements := fe a.elements })
  | .st i g s => modSt t i g s (fun a => { a with elements := fe a.elements })
  | .seg i g s k => modSeg t i g s k (fun a => { a with elements := fe a.elements })

theorem appendEle_eq (t : Tree) (h : Host) (e : Ele) : appendEle t h e = hostMod t h (fun l => l ++ [e]) := by
  cases h <;> rfl

theorem addErrLastEle_eq (t : Tree) (h : Host) (x : EleErr) :
    addErrLastEle t h x = hostMod t h (modLast (fun e => e.addError x)) := by
  cases h <;> rfl

theorem modIsa_length (t : Tree) (i : Nat) (f : Isa → Isa) : (modIsa t i f).length = t.length := modNth_length _ _ _
theorem modGs_length (t : Tree) (i g : Nat) (f : Gs → Gs) : (modGs t i g f).length = t.length := modNth_length _ _ _
theorem modSt_length (t : Tree) (i g k : Nat) (f : St → St) : (modSt t i g k f).length = t.length := modNth_length _ _ _
theorem modSeg_length (t : Tree) (i g k j : Nat) (f : Seg → Seg) : (modSeg t i g k j f).length = t.length :=
  modNth_length _ _ _

theorem hostMod_length (t : Tree) (h : Host) (fe : List Ele → List Ele) : (hostMod t h fe).length = t.length := by
  cases h <;> exact modNth_length _ _ _

theorem sh2_hostMod (t : Tree) (h : Host) (fe : List Ele → List Ele) : sh2 (hostMod t h fe) = sh2 t := by
  cases h with
  | isa i => exact sh2_modIsa t i _ (fun _ => rfl)
  | gs i g => exact sh2_modGs t i g _ (fun _ => rfl)
  | st i g k => exact sh2_modSt t i g k _
  | seg i g k j => exact sh2_modSeg t i g k j _

theorem segCounts_modSt (t : Tree) (i g k : Nat) (f : St → St) (hf : ∀ s, (f s).children.length = s.children.length) :
    segCounts (modSt t i g k f) = segCounts t :=
  allS_map_modSt (fun st => st.children.length) t i g k f hf

theorem segCounts_modSeg (t : Tree) (i g k j : Nat) (f : Seg → Seg) : segCounts (modSeg t i g k j f) = segCounts t := by
  unfold modSeg
  exact segCounts_modSt t i g k _ (fun s => by simp [modNth_length])

theorem segCounts_modGs (t : Tree) (i g : Nat) (F : Gs → Gs) (hF : ∀ x, (F x).children = x.children) :
    segCounts (modGs t i g F) = segCounts t := by
  unfold segCounts
  rw [allS_modGs_children t i g F hF]

theorem segCounts_modIsa (t : Tree) (i : Nat) (f : Isa → Isa) (hf : ∀ a, (f a).children = a.children) :
    segCounts (modIsa t i f) = segCounts t := by
  unfold segCounts
  rw [allS_modIsa_children t i f hf]

theorem segCounts_hostMod (t : Tree) (h : Host) (fe : List Ele → List Ele) : segCounts (hostMod t h fe) = segCounts t := by
  cases h with
  | isa i => exact segCounts_modIsa t i _ (fun _ => rfl)
  | gs i g => exact segCounts_modGs t i g _ (fun _ => rfl)
  | st i g k => exact segCounts_modSt t i g k _ (fun _ => rfl)
  | seg i g k j => exact segCounts_modSeg t i g k j _

/-! ### skeleton after the three appends -/

theorem sh2_snoc_isa (t : Tree) (d : IsaData) : sh2 (t ++ [mkIsa d]) = sh2 t ++ [[]] := by
  simp [sh2, shIsa, mkIsa]

theorem allG_snoc_isa (t : Tree) (d : IsaData) : allG (t ++ [mkIsa d]) = allG t := by
  simp [allG_append, allG, mkIsa]

theorem segCounts_snoc_isa (t : Tree) (d : IsaData) : segCounts (t ++ [mkIsa d]) = segCounts t := by
  unfold segCounts allS
  rw [allG_snoc_isa]

theorem sh2_modGs_gen (t : Tree) (i g : Nat) (F : Gs → Gs) (N : Nat → Nat) (hF : ∀ x, shGs (F x) = N (shGs x)) :
    sh2 (modGs t i g F) = modNth (fun L => modNth N L g) (sh2 t) i := by
  unfold sh2 modGs modIsa
  apply map_modNth
  intro a
  simp only [shIsa]
  exact map_modNth shGs F N hF a.children g

/-! ### `_add_cur_seg` -/

theorem stChildCount_of (t : Tree) (p : Nat × Nat × Nat) (st : St) (h : getSt t p.1 p.2.1 p.2.2 = some st) :
    stChildCount t p = st.children.length := by
  simp [stChildCount, h]

theorem addCurSeg_pinv (s s1 : State) (h : PInv s) (hs : addCurSeg s = some s1) : PInv s1 := by
  unfold addCurSeg at hs
  cases hc : s.curSeg with
  | none => rw [hc] at hs; cases hs
  | host x => rw [hc] at hs; injection hs with hs; subst hs; exact h
  | pending sg =>
    rw [hc] at hs
    cases hp : s.curSt with
    | none => rw [hp] at hs; cases hs
    | some p =>
      rw [hp] at hs
      injection hs with hs
      subst hs
      obtain ⟨i, g, k⟩ := p
      have hst := h.st i g k hp
      obtain ⟨S, st, e1, e2, e3⟩ := stLast_extract s.tree i g k hst
      have hcnt : stChildCount s.tree (i, g, k) = st.children.length := stChildCount_of _ _ _ e2
      have hsc : segCounts (modSt s.tree i g k (fun x => { x with children := x.children ++ [sg] })) =
          S.map (fun st => st.children.length) ++ [st.children.length + 1] := by
        unfold segCounts
        rw [e3]
        simp
      refine ⟨?_, ?_, ?_, ?_, ?_, ?_⟩
      · intro i' hi; simp only [modSt_length]; exact h.isa i' hi
      · intro i' g' hg; simp only [sh2_modSt]; exact h.gs i' g' hg
      · intro i' g' k' hk; simp only [sh2_modSt]; exact h.st i' g' k' (hp.trans hk)
      · intro hn; cases hn
      · intro x hx
        simp only [SegPtr.host.injEq] at hx
        subst hx
        exact ⟨rfl, S.map (fun st => st.children.length), by simp only [hcnt]; exact hsc⟩
      · intro sg' hsg; cases hsg

theorem segAddError_some (s1 s2 : State) (x : SegErr) (h : segAddError s1 x = some s2) :
    ∃ i g k j, s1.curSeg = .host (.seg i g k j) ∧
      s2 = { s1 with tree := modSeg s1.tree i g k j (fun a => { a with errors := a.errors ++ [x] }) } := by
  unfold segAddError at h
  split at h
  · rename_i i g k j hc
    injection h with h
    exact ⟨i, g, k, j, hc, h.symm⟩
  all_goals cases h

/-! ### one call -/

theorem step_pinv (s s' : State) (e : Event) (h : PInv s) (hs : step s e = .ok s') : PInv s' := by
  cases e with
  | addIsa d =>
    simp only [step, Res.ok.injEq] at hs
    subst hs
    refine ⟨?_, ?_, ?_, ?_, ?_, ?_⟩
    · intro i hi; simp only [addIsaLoop, Option.some.injEq] at hi; subst hi; simp [addIsaLoop]
    · intro i g hg
      obtain ⟨m, hm⟩ := h.gs i g hg
      exact ⟨m, by simp only [addIsaLoop, sh2_snoc_isa]; exact hm.snoc_nil⟩
    · intro i g k hk
      simp only [addIsaLoop, sh2_snoc_isa]
      exact (h.st i g k hk).snoc_nil
    · intro hn
      simp only [addIsaLoop, segCounts_snoc_isa]
      exact h.nost hn
    · intro x hx
      simp only [addIsaLoop, SegPtr.host.injEq] at hx
      subst hx
      rfl
    · intro sg hsg; simp [addIsaLoop] at hsg
  | addGs d =>
    simp only [step, addGsLoop] at hs
    cases hi : s.curIsa with
    | none => rw [hi] at hs; cases hs
    | some i =>
      rw [hi] at hs
      simp only [Res.ok.injEq] at hs
      subst hs
      obtain ⟨T, a, e1, e2, e3⟩ := isaLast_extract s.tree i (h.isa i hi)
      have hcnt : gsChildCount s.tree i = a.children.length := by
        unfold gsChildCount
        have : s.tree[i]? = some a := by rw [e1, ← e2]; simp
        rw [this]
      have hsh : sh2 (modIsa s.tree i (fun a => { a with children := a.children ++ [mkGs d] })) =
          sh2 T ++ [shIsa a ++ [0]] := by
        rw [e3]; simp [sh2, shIsa, shGs, mkGs]
      have hsh0 : sh2 s.tree = sh2 T ++ [shIsa a] := by rw [e1]; simp [sh2]
      have hsh' : sh2 (modIsa s.tree i (fun a => { a with children := a.children ++ [mkGs d] })) =
          modNth (fun L => L ++ [0]) (sh2 s.tree) i := by
        rw [hsh, hsh0, modNth_at _ (sh2 T) (shIsa a) [] i (by simp [sh2, e2])]
      refine ⟨?_, ?_, ?_, ?_, ?_, ?_⟩
      · intro i' hi'; simp only [modIsa_length]; exact h.isa i' (by simpa [hi] using hi')
      · intro i' g' hg
        simp only [Option.some.injEq, Prod.mk.injEq] at hg
        obtain ⟨rfl, rfl⟩ := hg
        refine ⟨0, ?_⟩
        simp only [hsh, hcnt]
        exact ⟨sh2 T, shIsa a, [], by simp, by simp [sh2, e2], by simp [shIsa], by simp⟩
      · intro i' g' k' hk
        simp only [hsh']
        exact (h.st i' g' k' hk).addGs i (by simp [sh2]; exact h.isa i hi)
      · intro hn
        have := h.nost hn
        simp only
        unfold segCounts allS at this ⊢
        rw [e3, allG_append]
        rw [e1, allG_append] at this
        simp only [allG, List.append_nil, stsOf_append] at this ⊢
        simp [stsOf, mkGs, this]
      · intro x hx
        simp only [SegPtr.host.injEq] at hx
        subst hx
        rfl
      · intro sg hsg; cases hsg
  | addSt d =>
    simp only [step, addStLoop] at hs
    cases hg : s.curGs with
    | none => rw [hg] at hs; cases hs
    | some p =>
      rw [hg] at hs
      simp only [Res.ok.injEq] at hs
      subst hs
      obtain ⟨i, g⟩ := p
      obtain ⟨m, hm⟩ := h.gs i g hg
      obtain ⟨G, x, e1, e2, e3, e4⟩ := gsLast_extract s.tree i g m hm
      have hcnt : stChildCountGs s.tree (i, g) = m := by simp [stChildCountGs, e2, e3]
      obtain ⟨K1, C1, K2, f1, f2, f3, f4⟩ := hm
      have hsh : sh2 (modGs s.tree i g (fun x => { x with children := x.children ++ [mkSt d] })) =
          K1 ++ (C1 ++ [m + 1]) :: K2 := by
        rw [sh2_modGs_gen s.tree i g _ (fun n => n + 1) (by intro x; simp [shGs]), f1,
          modNth_at _ K1 _ K2 i f2.symm, modNth_at _ C1 m [] g f3.symm]
      refine ⟨?_, ?_, ?_, ?_, ?_, ?_⟩
      · intro i' hi'; simp only [modGs_length]; exact h.isa i' hi'
      · intro i' g' hg'
        simp only [Option.some.injEq, Prod.mk.injEq] at hg'
        obtain ⟨rfl, rfl⟩ := hg'
        exact ⟨m + 1, by rw [hsh]; exact ⟨K1, C1, K2, rfl, f2, f3, f4⟩⟩
      · intro i' g' k' hk
        simp only [Option.some.injEq, Prod.mk.injEq] at hk
        obtain ⟨rfl, rfl, rfl⟩ := hk
        rw [hsh, hcnt]
        refine ⟨K1, C1, [], K2, rfl, f2, f3, by simp, ?_⟩
        intro C hC c hc
        rw [f4 C hC] at hc
        cases hc
      · intro hn; cases hn
      · intro y hy
        simp only [SegPtr.host.injEq] at hy
        subst hy
        rfl
      · intro sg hsg; cases hsg
  | addSeg a b c =>
    simp only [step, addSeg, Res.ok.injEq] at hs
    subst hs
    exact PInv.of_same s _ h rfl rfl rfl rfl rfl rfl (by intro x hx; cases hx)
      (by intro sg hsg; simp only [SegPtr.pending.injEq] at hsg; subst hsg; exact ⟨rfl, rfl⟩)
  | addEle a b c =>
    simp only [step, addEle] at hs
    split at hs
    · cases hs
    · simp only [Res.ok.injEq] at hs; subst hs
      exact PInv.of_same_seg s _ h rfl rfl rfl rfl rfl rfl rfl
    · simp only [Res.ok.injEq] at hs; subst hs
      exact PInv.of_same_seg s _ h rfl rfl rfl rfl rfl rfl rfl
  | isaError c =>
    simp only [step, isaError] at hs
    split at hs
    · cases hs
    · simp only [Res.ok.injEq] at hs; subst hs
      exact PInv.of_same_seg s _ h (sh2_modIsa _ _ _ (fun _ => rfl)) (modIsa_length _ _ _)
        (segCounts_modIsa _ _ _ (fun _ => rfl)) rfl rfl rfl rfl
  | gsError c =>
    simp only [step, gsError] at hs
    split at hs
    · cases hs
    · simp only [Res.ok.injEq] at hs; subst hs
      exact PInv.of_same_seg s _ h (sh2_modGs _ _ _ _ (fun _ => rfl)) (modGs_length _ _ _ _)
        (segCounts_modGs _ _ _ _ (fun _ => rfl)) rfl rfl rfl rfl
  | stError c =>
    simp only [step, stError] at hs
    split at hs
    · cases hs
    · simp only [Res.ok.injEq] at hs; subst hs
      exact PInv.of_same_seg s _ h (sh2_modSt _ _ _ _ _) (modSt_length _ _ _ _ _)
        (segCounts_modSt _ _ _ _ _ (fun _ => rfl)) rfl rfl rfl rfl
  | segError c v =>
    simp only [step, Res.ok.injEq] at hs
    subst hs
    unfold segError
    cases h1 : addCurSeg s with
    | none => exact PInv.of_same_seg s _ h rfl rfl rfl rfl rfl rfl rfl
    | some s1 =>
      have hp1 := addCurSeg_pinv s s1 h h1
      simp only
      cases h2 : segAddError s1 { code := c, value := v } with
      | none => exact PInv.of_same_seg s1 _ hp1 rfl rfl rfl rfl rfl rfl rfl
      | some s2 =>
        obtain ⟨i, g, k, j, _, rfl⟩ := segAddError_some s1 s2 _ h2
        exact PInv.of_same_seg s1 _ hp1 (sh2_modSeg _ _ _ _ _ _) (modSeg_length _ _ _ _ _ _)
          (segCounts_modSeg _ _ _ _ _ _) rfl rfl rfl rfl
  | eleError c m v =>
    simp only [step, eleError] at hs
    cases h1 : addCurSeg s with
    | none => rw [h1] at hs; cases hs
    | some s1 =>
      rw [h1] at hs
      have hp1 := addCurSeg_pinv s s1 h h1
      simp only [eleErrorLinked] at hs
      cases he : s1.curEle with
      | none => rw [he] at hs; cases hs
      | linked x =>
        rw [he] at hs
        cases hc : s1.curSeg with
        | none => rw [hc] at hs; cases hs
        | host y =>
          rw [hc] at hs
          simp only [Res.ok.injEq] at hs
          subst hs
          rw [addErrLastEle_eq]
          refine PInv.of_same_seg s1 _ hp1 ?_ ?_ ?_ rfl rfl rfl hc.symm
          · exact sh2_hostMod _ _ _
          · exact hostMod_length _ _ _
          · exact segCounts_hostMod _ _ _
        | pending sg =>
          rw [hc] at hs
          simp only [Res.ok.injEq] at hs
          subst hs
          rw [addErrLastEle_eq]
          refine PInv.of_same_seg s1 _ hp1 ?_ ?_ ?_ rfl rfl rfl hc.symm
          · exact sh2_hostMod _ _ _
          · exact hostMod_length _ _ _
          · exact segCounts_hostMod _ _ _
      | pending el =>
        rw [he] at hs
        cases hc : s1.curSeg with
        | none => rw [hc] at hs; cases hs
        | pending sg => rw [hc] at hs; cases hs
        | host y =>
          rw [hc] at hs
          simp only [Res.ok.injEq] at hs
          subst hs
          rw [appendEle_eq]
          refine PInv.of_same_seg s1 _ hp1 ?_ ?_ ?_ rfl rfl rfl hc.symm
          · simp only [sh2_hostMod]
          · simp only [hostMod_length]
          · simp only [segCounts_hostMod]
  | closeSt =>
    simp only [step, closeStLoop] at hs
    cases hp : s.curSt with
    | none => rw [hp] at hs; cases hs
    | some p =>
      rw [hp] at hs
      simp only [Res.ok.injEq] at hs; subst hs
      exact PInv.of_same s _ h (sh2_modSt _ _ _ _ _) (modSt_length _ _ _ _ _)
        (segCounts_modSt _ _ _ _ _ (fun _ => rfl)) rfl rfl hp.symm
        (by intro x hx; simp only [SegPtr.host.injEq] at hx; subst hx; exact rfl) (by intro sg hsg; cases hsg)
  | closeGs ge recv =>
    simp only [step, closeGsLoop] at hs
    cases hp : s.curGs with
    | none => rw [hp] at hs; cases hs
    | some p =>
      rw [hp] at hs
      simp only [Res.ok.injEq] at hs; subst hs
      exact PInv.of_same s _ h (sh2_modGs _ _ _ _ (fun _ => rfl)) (modGs_length _ _ _ _)
        (segCounts_modGs _ _ _ _ (fun _ => rfl)) rfl hp.symm rfl
        (by intro x hx; simp only [SegPtr.host.injEq] at hx; subst hx; exact rfl) (by intro sg hsg; cases hsg)
  | closeIsa =>
    simp only [step, closeIsaLoop] at hs
    cases hp : s.curIsa with
    | none => rw [hp] at hs; cases hs
    | some p =>
      rw [hp] at hs
      simp only [Res.ok.injEq] at hs; subst hs
      exact PInv.of_same s _ h (sh2_modIsa _ _ _ (fun _ => rfl)) (modIsa_length _ _ _)
        (segCounts_modIsa _ _ _ (fun _ => rfl)) hp.symm rfl rfl
        (by intro x hx; simp only [SegPtr.host.injEq] at hx; subst hx; exact rfl) (by intro sg hsg; cases hsg)

theorem run_pinv : ∀ (evs : List Event) (s s' : State), PInv s → run s evs = .ok s' → PInv s' := by
  intro evs
  induction evs with
  | nil => intro s s' h hr; simp only [run, Res.ok.injEq] at hr; subst hr; exact h
  | cons e r ih =>
    intro s s' h hr
    simp only [run] at hr
    cases hs : step s e with
    | crash c => rw [hs] at hr; cases hr
    | ok s1 => rw [hs] at hr; exact ih s1 s' (step_pinv s s1 e h hs) hr

end Pyx12Verif.DocC05
