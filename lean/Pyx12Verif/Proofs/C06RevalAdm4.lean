/-
C06 re-validation, part V (assembly): the hypothesis `EchoFits`, the decidable per-map checks `ackDefsOk` (the "ackCodesOk" of
the property: the writer's own table values / counters meet the 997 map's element definitions), `isaDefOk` (same for the ISA
definition of the control map) and `ackKeysOk` (the skeleton's match keys are the interned code lists of the definitions);
every written segment conforms to the definition of its node (`ack997_body_ok`) and matches that node (`ack997_all_match`).
-/
import Pyx12Verif.Proofs.C06RevalAdm3
import Pyx12Verif.Proofs.C06RevalGen

namespace Pyx12Verif.C06R
open Pyx12Verif Pyx12Verif.Ack Pyx12Verif.C06 Pyx12Verif.C05 Pyx12Verif.MapSkel Pyx12Verif.Walker

/-! ### which written segments there are -/

/-- what a segment behind ISA, GS of a complete 997 is -/
inductive Written (s : ErrTree.State) (p : Params) (gs : PSeg) : PSeg → Prop
  | st (n : Nat) : n ≤ (allGs s.tree).length → Written s p gs (stSeg997 n)
  | ak1 (g : ErrTree.Gs) : Written s p gs (ak1Seg997 g)
  | ak2 (i c : Str) : Written s p gs (ak2Seg997 i c)
  | ak3 (sg : ErrTree.Seg) (x : PSeg) : x ∈ segLines997 sg → Written s p gs x
  | ak4 (e : ErrTree.Ele) (x : PSeg) : x ∈ eleLines997 e → Written s p gs x
  | ak5 (st : ErrTree.St) (codes : List Str) : Written s p gs (ak5Seg997 st codes)
  | ak9 (g : ErrTree.Gs) : Written s p gs (ak9Seg997 g)
  | se (g : ErrTree.Gs) (n : Nat) : g ∈ allGs s.tree → n ≤ (allGs s.tree).length →
      Written s p gs (seSeg997 ((gsLines fixed g).segs.length + 4) n)
  | ge : Written s p gs (geSeg997 (allGs s.tree).length gs)
  | iea : Written s p gs (ieaSeg997 p)

theorem blocks_mem (n : Nat) : ∀ (l : List ErrTree.Gs) (x : PSeg), x ∈ blocks997 fixed n l →
    ∃ g ∈ l, ∃ k, k ≤ n + l.length ∧ x ∈ block997 fixed k g
  | [], x, h => by simp [blocks997] at h
  | g :: r, x, h => by
    simp only [blocks997, List.mem_append] at h
    rcases h with h | h
    · exact ⟨g, by simp, n + 1, by simp, h⟩
    · obtain ⟨g', hg', k, hk, hx⟩ := blocks_mem (n + 1) r x h
      exact ⟨g', by simp [hg'], k, by simp only [List.length_cons]; omega, hx⟩

theorem gsLines_mem (g : ErrTree.Gs) (hg : GsOk fixed g) (x : PSeg) (hx : x ∈ (gsLines fixed g).segs) :
    (∃ i c, x = ak2Seg997 i c) ∨ (∃ sg, x ∈ segLines997 sg) ∨ (∃ e, x ∈ eleLines997 e) ∨ ∃ st codes, x = ak5Seg997 st codes := by
  obtain ⟨e, hall⟩ := stsLines_segs (stLines997 fixed) g.children hg
  unfold gsLines at hx
  rw [e] at hx
  obtain ⟨o, ho, hxo⟩ := List.mem_flatten.1 hx
  obtain ⟨st, hst, rfl⟩ := List.mem_map.1 ho
  obtain ⟨i, c, codes, _, _, _, es⟩ := stLines997_ok fixed st (hall st hst)
  rw [es] at hxo
  simp only [List.mem_cons, List.mem_append, List.not_mem_nil, or_false] at hxo
  rcases hxo with rfl | hxo | rfl
  · exact Or.inl ⟨i, c, rfl⟩
  · obtain ⟨sg, _, h | ⟨el, _, h⟩⟩ := segsLines_mem _ _ _ x hxo
    · exact Or.inr (Or.inl ⟨sg, h⟩)
    · exact Or.inr (Or.inr (Or.inl ⟨el, h⟩))
  · exact Or.inr (Or.inr (Or.inr ⟨st, codes, rfl⟩))

/-- shape of a complete 997 under `Complete`: ISA, GS, the sets, GE, IEA (no TA1), and what every segment behind GS is -/
theorem ack997_written (s : ErrTree.State) (p : Params) (hC : Complete s) :
    ∃ a g isa gs, curIsaNode s = some a ∧ curGsNode s = some g ∧ isaSeg997 a p = some isa ∧
      gsSeg997 fixed a g p = some gs ∧
      (ack997 fixed s p).out = isa :: gs :: (blocks997 fixed 0 (allGs s.tree) ++ [geSeg997 (allGs s.tree).length gs, ieaSeg997 p]) ∧
      ∀ x ∈ blocks997 fixed 0 (allGs s.tree) ++ [geSeg997 (allGs s.tree).length gs, ieaSeg997 p], Written s p gs x := by
  have hcr := ack_complete s p hC
  obtain ⟨a, g, isa, gs, ha, hg, hi, hgs, hoks, _, hshape⟩ := ack997_ok fixed s p hcr
  obtain ⟨a2, ha2, _, _, _, _, _, _, _, hta⟩ := hC.isa
  rw [ha] at ha2
  simp only [Option.some.injEq] at ha2
  subst ha2
  have hta1 : (ta1Lines (getIsaErrors997 a) a).segs = [] := by simp [ta1Lines, c1, hta, Lines.ok]
  rw [hta1] at hshape
  refine ⟨a, g, isa, gs, ha, hg, hi, hgs, by rw [hshape]; simp, ?_⟩
  intro x hx
  simp only [List.mem_append, List.mem_cons, List.not_mem_nil, or_false] at hx
  rcases hx with hx | rfl | rfl
  · obtain ⟨g', hg', k, hk, hxb⟩ := blocks_mem 0 _ x hx
    simp only [Nat.zero_add] at hk
    simp only [block997, List.mem_append, List.mem_cons, List.not_mem_nil, or_false] at hxb
    rcases hxb with ((rfl | rfl) | hxl) | rfl | rfl
    · exact .st k hk
    · exact .ak1 g'
    · rcases gsLines_mem g' (hoks g' hg') x hxl with ⟨i, c, rfl⟩ | ⟨sg, h⟩ | ⟨el, h⟩ | ⟨st, codes, rfl⟩
      · exact .ak2 i c
      · exact .ak3 sg x h
      · exact .ak4 el x h
      · exact .ak5 st codes
    · exact .ak9 g'
    · exact .se g' k hg' hk
  · exact .ge
  · exact .iea

/-- identifiers of the written segments -/
theorem written_id {s : ErrTree.State} {p : Params} {gs x : PSeg} (h : Written s p gs x) :
    x.id ∈ [sST, sAK1, sAK2, sAK3, sAK4, sAK5, sAK9, sSE, sGE, sIEA] := by
  cases h with
  | st n _ => rw [stSeg997_id]; decide
  | ak1 g => rw [show (ak1Seg997 g).id = sAK1 from mkSeg_starJoin_id _ _ _ (by decide)]; decide
  | ak2 i c => rw [ak2Seg997_id]; decide
  | ak3 sg x hx => rw [segBase997_id sg x hx]; decide
  | ak4 e x hx => rw [eleBase997_id e x hx]; decide
  | ak5 st codes => rw [ak5Seg997_id]; decide
  | ak9 g => rw [ak9Seg997_id]; decide
  | se g n _ _ => rw [seSeg997_id]; decide
  | ge => rw [geSeg997_id]; decide
  | iea => rw [ieaSeg997_id]; decide

theorem kindOf_ST : kindOf sST = kST := rfl
theorem kindOf_AK1 : kindOf sAK1 = kEcho2 := rfl
theorem kindOf_AK2 : kindOf sAK2 = kEcho2 := rfl
theorem kindOf_AK3 : kindOf sAK3 = kAK3 := rfl
theorem kindOf_AK4 : kindOf sAK4 = kAK4 := rfl
theorem kindOf_AK5 : kindOf sAK5 = kAK5 := rfl
theorem kindOf_AK9 : kindOf sAK9 = kAK9 := rfl
theorem kindOf_SE : kindOf sSE = kSE := rfl
theorem kindOf_GE : kindOf sGE = kGE := rfl
theorem kindOf_IEA : kindOf sIEA = kIEA := rfl

/-- the writer's own slots of every written segment carry table values / counters within their bounds -/
theorem written_own {s : ErrTree.State} {p : Params} {gs x : PSeg} (h : Written s p gs x) (hsz : SizesFit s)
    (v : Str) (hv : gs.getValue 5 = some v) (hs : Safe v) (hne : v ≠ []) (hps : Safe (isaCtl p)) (hpne : isaCtl p ≠ [])
    (hnb : NonBare x) : OwnFacts (kindOf x.id) 0 (toSeg x).elems := by
  cases h with
  | st n hn => rw [stSeg997_id, kindOf_ST]; exact own_st n (Nat.lt_of_le_of_lt hn hsz.groups)
  | ak1 g => rw [show (ak1Seg997 g).id = sAK1 from mkSeg_starJoin_id _ _ _ (by decide), kindOf_AK1]; exact own_echo2 _
  | ak2 i c => rw [ak2Seg997_id, kindOf_AK2]; exact own_echo2 _
  | ak3 sg x hx => rw [segBase997_id sg x hx, kindOf_AK3]; exact own_ak3 sg x hx hnb
  | ak4 e x hx => rw [eleBase997_id e x hx, kindOf_AK4]; exact own_ak4 e x hx hnb
  | ak5 st codes => rw [ak5Seg997_id, kindOf_AK5]; exact own_ak5 _
  | ak9 g => rw [ak9Seg997_id, kindOf_AK9]; exact own_ak9 _
  | se g n hg hn =>
    rw [seSeg997_id, kindOf_SE]
    exact own_se _ n (hsz.segs g hg) (Nat.lt_of_le_of_lt hn hsz.groups)
  | ge => rw [geSeg997_id, kindOf_GE]; exact own_ge _ gs v hv hs hne hsz.groups
  | iea => rw [ieaSeg997_id, kindOf_IEA]; exact own_iea p hps hpne

/-! ### the hypothesis and the per-map checks -/

/-- identifiers of the segments behind ISA, GS -/
def ackIds : List Str := [sST, sAK1, sAK2, sAK3, sAK4, sAK5, sAK9, sSE, sGE, sIEA]

def defOk (m : Doc.MapX) (id : Str) : Bool :=
  match Doc.lookupDef m (ipOf id) with
  | some sd => kindOk m.v5010 (kindOf id) sd
  | none => false

/-- **decidable per-map check** (the `ackCodesOk` of the property): for every kind of segment the 997 writer emits the map has
    a definition at the node meant for it; that definition has no syntax note and no qualifier-selected type list, the
    values of the writer's own tables (`997`, `FA`, `004010`, AK304 / AK403 codes, the set / group codes it adds, `R`, `1`)
    and its counters (`'%04i'` control numbers, segment / set counts) are admissible for their slots whatever the
    character-set setting, and elements the writer may leave out are not required -/
def ackDefsOk (m : Doc.MapX) : Bool :=
  ackIds.all (defOk m) &&
    (match Doc.lookupDef m [0, 1, 0] with
     | some sd => kindOk m.v5010 kGS sd
     | none => false)

/-- the same for the ISA definition of the control map (ISA01–04, ISA14, ISA16 are the writer's) -/
def isaDefOk (control : Doc.MapX) (cip : List Nat) : Bool :=
  match Doc.lookupDef control cip with
  | some sd => kindOk control.v5010 kISA sd
  | none => false

/-- the echoed slots of one written segment fit the definition at `ip` -/
def EchoFitsSeg (ctx : Doc.Ctx) (m : Doc.MapX) (ip : List Nat) (k : KindSpec) (x : PSeg) : Prop :=
  ∀ sd, Doc.lookupDef m ip = some sd → EchoAdm ctx m.v5010 k.own k.minLen 0 sd.children (toSeg x).elems

/-- **"the echoed values fit the acknowledgement's own element definitions"**: in every written segment, every element that
    is not one of the writer's own values (`KindSpec.own`) meets the definition of the slot it is written into
    (`ElemValid.Admissible` through `Doc.ElemAdm` / `Doc.CompAdm`: usage, length, type and character set, code list), no
    element lies beyond the last slot of the definition, and no slot the writer always fills is left empty against the
    definition.  ISA against the control map, everything else against the 997 map. -/
structure EchoFits (ctx : Doc.Ctx) (control : Doc.MapX) (cip : List Nat) (m : Doc.MapX) (s : ErrTree.State) (p : Params) :
    Prop where
  isa : ∀ isa gs rest, (ack997 fixed s p).out = isa :: gs :: rest → EchoFitsSeg ctx control cip kISA isa
  gs : ∀ isa gs rest, (ack997 fixed s p).out = isa :: gs :: rest → EchoFitsSeg ctx m [0, 1, 0] kGS gs
  body : ∀ isa gs rest, (ack997 fixed s p).out = isa :: gs :: rest →
    ∀ x ∈ rest, EchoFitsSeg ctx m (ipOf x.id) (kindOf x.id) x

theorem ackIds_facts : ∀ id ∈ ackIds, id ≠ Envelope.idISA ∧ id ≠ Envelope.idGS ∧ Doc.segIdValid id = true ∧
    id ≠ Doc.sDTP ∧ id ≠ isaId := by decide

theorem defOk_of (m : Doc.MapX) (h : ackDefsOk m = true) (id : Str) (hid : id ∈ ackIds) :
    ∃ sd, Doc.lookupDef m (ipOf id) = some sd ∧ kindOk m.v5010 (kindOf id) sd = true := by
  simp only [ackDefsOk, Bool.and_eq_true, List.all_eq_true] at h
  have := h.1 id hid
  unfold defOk at this
  cases hl : Doc.lookupDef m (ipOf id) with
  | none => rw [hl] at this; cases this
  | some sd => rw [hl] at this; exact ⟨sd, rfl, this⟩

/-- one written segment conforms to the definition of its node -/
theorem written_body_ok (ctx : Doc.Ctx) (m : Doc.MapX) (hdefs : ackDefsOk m = true) {s : ErrTree.State} {p : Params}
    {gs x : PSeg} (hw : Written s p gs x) (hown : OwnFacts (kindOf x.id) 0 (toSeg x).elems) (hnb : NonBare x)
    (hecho : EchoFitsSeg ctx m (ipOf x.id) (kindOf x.id) x) :
    Doc.BodyOk ctx m d997 (toSeg x, ipOf x.id) ∧
      ∃ sd, Doc.lookupDef m (ipOf x.id) = some sd ∧ SimpleAdm ctx m.v5010 sd.children (toSeg x).elems := by
  have hid := written_id hw
  obtain ⟨f1, f2, f3, f4, f5⟩ := ackIds_facts x.id hid
  obtain ⟨sd, hsd, hk⟩ := defOk_of m hdefs x.id hid
  have hadm := segAdm_of_kind ctx m.v5010 d997 sd (toSeg x) (kindOf x.id) hk (by rw [toSeg_id]; exact f4) (hecho sd hsd)
    hown (toSeg_comps_ne x)
  refine ⟨⟨by rw [toSeg_id]; exact f1, by rw [toSeg_id]; exact f2, ?_, sd, hsd, hadm.2⟩, sd, hsd, hadm.1⟩
  simp only [Doc.baseErrs, segEmpty_toSeg x f5 hnb, toSeg_id, f3, Bool.false_eq_true, if_false, if_true, List.append_nil]

/-! ### match keys -/

/-- the match key of skeleton node `n` agrees with the definition of the same node: the identifier is interned to the node's
    number (and is neither ENT nor HL), and when `is_match` tests the first element against a code list, the definition's
    first element is required, lists codes inline only, and every one of them is interned into the node's key list; a
    leading composite is not keyed -/
def keyOkB (K : Consts) (unk : Nat) (m : Doc.MapX) (n : SegN) (id : Str) : Bool :=
  (Doc.lookupStr m.intern unk id == n.sid) && (n.sid != K.ent) && (n.sid != K.hl) &&
  (match nthChild n.ch 0 with
   | some (.elem e0) =>
     !(e0.isID && e0.usage == 0 && decide (e0.ncodes > 0)) ||
       (match Doc.lookupDef m (ipOf id) with
        | some sd =>
          (match sd.children with
           | .elem x :: _ => decide (x.d.usage = .R) && !x.d.parentComposite && !x.d.extDeclared && !x.d.codes.isEmpty &&
               x.d.codes.all (fun c => !c.isEmpty && e0.codes.contains (Doc.lookupStr m.intern unk c))
           | _ => false)
        | none => false)
   | some (.comp _ _ _ _ subs) =>
     (match firstSub subs with
      | some s0 => !decide (s0.ncodes > 0)
      | none => true)
   | none => true)

/-- **decidable per-map check**: the keys of the ten segment nodes -/
def ackKeysOk (K : Consts) (unk : Nat) (S : S997) (m : Doc.MapX) : Bool :=
  keyOkB K unk m S.st sST && keyOkB K unk m S.ak1 sAK1 && keyOkB K unk m S.ak2 sAK2 && keyOkB K unk m S.ak3 sAK3 &&
  keyOkB K unk m S.ak4 sAK4 && keyOkB K unk m S.ak5 sAK5 && keyOkB K unk m S.ak9 sAK9 && keyOkB K unk m S.se sSE &&
  keyOkB K unk m S.ge sGE && keyOkB K unk m S.iea sIEA

/-- a required first element that conforms to a definition with an inline code list carries one of the codes -/
theorem first_in_codes (ctx : Doc.Ctx) (v5 : Bool) (x : Doc.ElemX) (cs : List Doc.ChildX) (es : List (List Str))
    (hR : x.d.usage = .R) (hpc : x.d.parentComposite = false) (hext : x.d.extDeclared = false) (hcodes : x.d.codes ≠ [])
    (h : SimpleAdm ctx v5 (.elem x :: cs) es) : ∃ v r, es = [v] :: r ∧ v ∈ x.d.codes := by
  have hno : ¬ (x.d.usage ≠ .R ∨ ElemValid.FirstOfOptionalComposite (Doc.defWith x [])) := by
    intro hh
    rcases hh with hh | hh
    · exact hh hR
    · have : (Doc.defWith x []).parentComposite = true := hh.2.1
      simp only [Doc.defWith] at this
      rw [hpc] at this; cases this
  cases es with
  | nil =>
    have h1 : Doc.ElemAdm ctx v5 x [] .absent := h.1
    exact absurd h1.2 hno
  | cons e r =>
    obtain ⟨v, rfl, ha⟩ := h.1
    have h2 := ha.2
    simp only [Doc.EIn.toInput, ElemValid.Admissible] at h2
    by_cases hv : v = []
    · simp only [hv, if_true] at h2
      exact absurd h2 hno
    · simp only [hv, if_false] at h2
      obtain ⟨_, _, _, _, hc, _⟩ := h2
      have hd : ElemValid.DeclaresCodes (Doc.defWith x []) := Or.inl hcodes
      rcases hc hd with hin | ⟨he, _⟩
      · exact ⟨v, r, rfl, hin⟩
      · have : (Doc.defWith x []).extDeclared = true := he
        simp only [Doc.defWith] at this
        rw [hext] at this; cases this

theorem isMatch_of_key (ms : Doc.Maps) (ctx : Doc.Ctx) (m : Doc.MapX) (n : SegN) (id : Str)
    (hk : keyOkB ms.consts ms.unk m n id = true) (hidne : id ≠ []) (x : PSeg) (hx : x.id = id)
    (sd : Doc.SegDef) (hsd : Doc.lookupDef m (ipOf id) = some sd)
    (hs : SimpleAdm ctx m.v5010 sd.children (toSeg x).elems) :
    isMatch ms.consts n.node (Doc.segData ms m d997 (toSeg x)) = true := by
  simp only [keyOkB, Bool.and_eq_true, beq_iff_eq, bne_iff_ne, ne_eq] at hk
  obtain ⟨⟨⟨hsid, hent⟩, hhl⟩, hkey⟩ := hk
  have hsid' : (Doc.segData ms m d997 (toSeg x)).sid = n.sid := by
    simp only [Doc.segData, Doc.internV, toSeg_id, hx]
    have : id.isEmpty = false := by simpa using hidne
    simp only [this, Bool.false_eq_true, if_false, hsid]
  simp only [isMatch, SegN.node, hsid', beq_self_eq_true, Bool.true_and]
  unfold matchChildren
  cases h0 : nthChild n.ch 0 with
  | none => rfl
  | some c0 =>
    rw [h0] at hkey
    cases c0 with
    | comp a b c d subs =>
      simp only at hkey ⊢
      cases hf : firstSub subs with
      | none => rfl
      | some s0 =>
        rw [hf] at hkey
        simp only [Bool.not_eq_true', decide_eq_false_iff_not] at hkey
        have : decide (s0.ncodes > 0) = false := by simpa using hkey
        simp [this]
    | elem e0 =>
      simp only [Bool.or_eq_true, Bool.not_eq_true'] at hkey
      simp only [hsid']
      have hne1 : (n.sid == ms.consts.ent) = false := by simpa using hent
      have hne2 : (n.sid == ms.consts.hl) = false := by simpa using hhl
      rcases hkey with hkey | hkey
      · simp only [Bool.and_eq_false_iff] at hkey
        have : (e0.isID && e0.usage == 0 && decide (e0.ncodes > 0) && !e0.codes.contains (Doc.segData ms m d997 (toSeg x)).v01) = false := by
          rcases hkey with (h | h) | h <;> simp [h]
        simp only [this, Bool.false_eq_true, if_false, hne1, hne2]
      · rw [hsd] at hkey
        simp only at hkey
        cases hch : sd.children with
        | nil => rw [hch] at hkey; cases hkey
        | cons c cs =>
          rw [hch] at hkey hs
          cases c with
          | comp a b c d e f => cases hkey
          | elem xd =>
            simp only [Bool.and_eq_true, decide_eq_true_eq, Bool.not_eq_true', List.all_eq_true, List.isEmpty_eq_false_iff] at hkey
            obtain ⟨⟨⟨⟨hR, hpc⟩, hext⟩, hcne⟩, hall⟩ := hkey
            obtain ⟨v, r, he, hv⟩ := first_in_codes ctx m.v5010 xd cs _ hR hpc hext hcne hs
            have hvc := hall v hv
            have hvne : v.isEmpty = false := by simpa using hvc.1
            have hv01 : (Doc.segData ms m d997 (toSeg x)).v01 = Doc.lookupStr m.intern ms.unk v := by
              have hg : Doc.gv d997 (toSeg x) 0 = some v := by
                simp only [Doc.gv, getValue_single d997 (toSeg x) 0 v (by rw [he]; rfl), Doc.optV]
              simp only [Doc.segData, hg, Doc.internV, hvne, Bool.false_eq_true, if_false]
            have : (e0.isID && e0.usage == 0 && decide (e0.ncodes > 0) && !e0.codes.contains (Doc.segData ms m d997 (toSeg x)).v01) = false := by
              rw [hv01, hvc.2]; simp
            simp only [this, Bool.false_eq_true, if_false, hne1, hne2]

/-! ### every written segment -/

theorem gs_value5 (a : ErrTree.Isa) (g : ErrTree.Gs) (p : Params) (gs : PSeg) (h : gsSeg997 fixed a g p = some gs)
    (v : Str) (hv : g.gs06 = some v) (hs : Safe v) : gs.getValue 5 = some v := by
  obtain ⟨v', hv', _, hv5⟩ := gs997_ctl fixed a g p gs h
  rw [hv] at hv'
  simp only [Option.some.injEq] at hv'
  subst hv'
  simp [PSeg.getValue, hv5, fmtComp_split_safe _ hs.2.1]

/-- what the hypotheses give for every segment behind ISA, GS: it conforms to the definition of its node -/
theorem ack997_rest_ok (ctx : Doc.Ctx) (control : Doc.MapX) (cip : List Nat) (m : Doc.MapX) (hdefs : ackDefsOk m = true)
    (s : ErrTree.State) (p : Params) (hC : Complete s) (hsz : SizesFit s) (hsafe : TrailerSafe s p)
    (hctl : isaCtl p ≠ []) (hgs06 : ∀ g, curGsNode s = some g → g.gs06 ≠ some [])
    (hclean : EchoSafe s p) (hfit : EchoFits ctx control cip m s p)
    (isa gs : PSeg) (rest : List PSeg) (hout : (ack997 fixed s p).out = isa :: gs :: rest) :
    ∀ x ∈ rest, x.id ∈ ackIds ∧ Doc.BodyOk ctx m d997 (toSeg x, ipOf x.id) ∧
      ∃ sd, Doc.lookupDef m (ipOf x.id) = some sd ∧ SimpleAdm ctx m.v5010 sd.children (toSeg x).elems := by
  obtain ⟨a, g, isa', gs', _, hg, _, hgs, hshape, hwr⟩ := ack997_written s p hC
  rw [hout] at hshape
  simp only [List.cons.injEq] at hshape
  obtain ⟨rfl, rfl, rfl⟩ := hshape
  obtain ⟨v, hv, _, _⟩ := gs997_ctl fixed a g p gs hgs
  have hvs := hsafe.2 g hg v hv
  have hvne : v ≠ [] := by intro e; subst e; exact hgs06 g hg hv
  have hv5 := gs_value5 a g p gs hgs v hv hvs
  intro x hx
  have hw := hwr x hx
  have hnb : NonBare x := (hclean x (by rw [hout]; simp [hx])).2
  have hown := written_own hw hsz v hv5 hvs hvne hsafe.1 hctl hnb
  have := written_body_ok ctx m hdefs hw hown hnb (hfit.body isa gs _ hout x hx)
  exact ⟨written_id hw, this.1, this.2⟩

theorem nodeOf_key (K : Consts) (unk : Nat) (S : S997) (m : Doc.MapX) (h : ackKeysOk K unk S m = true) (id : Str)
    (hid : id ∈ ackIds) : ∃ n : SegN, S.nodeOf id = n.node ∧ keyOkB K unk m n id = true ∧ id ≠ [] := by
  simp only [ackKeysOk, Bool.and_eq_true] at h
  obtain ⟨⟨⟨⟨⟨⟨⟨⟨⟨h1, h2⟩, h3⟩, h4⟩, h5⟩, h6⟩, h7⟩, h8⟩, h9⟩, h10⟩ := h
  simp only [ackIds, List.mem_cons, List.not_mem_nil, or_false] at hid
  rcases hid with rfl | rfl | rfl | rfl | rfl | rfl | rfl | rfl | rfl | rfl
  · exact ⟨S.st, rfl, h1, by decide⟩
  · exact ⟨S.ak1, rfl, h2, by decide⟩
  · exact ⟨S.ak2, rfl, h3, by decide⟩
  · exact ⟨S.ak3, rfl, h4, by decide⟩
  · exact ⟨S.ak4, rfl, h5, by decide⟩
  · exact ⟨S.ak5, rfl, h6, by decide⟩
  · exact ⟨S.ak9, rfl, h7, by decide⟩
  · exact ⟨S.se, rfl, h8, by decide⟩
  · exact ⟨S.ge, rfl, h9, by decide⟩
  · exact ⟨S.iea, rfl, h10, by decide⟩

/-- every segment behind ISA, GS matches (`segment_if.is_match`) the skeleton node meant for it -/
theorem ack997_all_match (ms : Doc.Maps) (ctx : Doc.Ctx) (m : Doc.MapX) (S : S997)
    (hkeys : ackKeysOk ms.consts ms.unk S m = true) (rest : List PSeg)
    (hrest : ∀ x ∈ rest, x.id ∈ ackIds ∧
      ∃ sd, Doc.lookupDef m (ipOf x.id) = some sd ∧ SimpleAdm ctx m.v5010 sd.children (toSeg x).elems) :
    AllMatch ms.consts S (fun x => Doc.segData ms m d997 (toSeg x)) rest := by
  intro x hx
  obtain ⟨hid, sd, hsd, hs⟩ := hrest x hx
  obtain ⟨n, hn, hk, hne⟩ := nodeOf_key ms.consts ms.unk S m hkeys x.id hid
  rw [hn]
  exact isMatch_of_key ms ctx m n x.id hk hne x rfl sd hsd hs

end Pyx12Verif.C06R
